# repro: PolicyIteration merges actions whose values differ by < 1e-5 relative (np.isclose band) and then
# evaluates the uniform mixture: values (hence QMDP's table) are BELOW optimal at ordinary discounts
from msdm.core.mdp.quickmdp import QuickTabularMDP
from msdm.core.distributions import DictDistribution as D
from msdm.algorithms import PolicyIteration, ValueIteration
R = {"a": 1_000_000.0, "b": 1_000_000.75}          # relative gap 7.5e-7
mdp = QuickTabularMDP(
    next_state_dist=lambda s, a: D({"s0": 1.0}) if s == "s1" else D({"end": 1.0}),
    reward=lambda s, a, ns: R[a] if s == "s0" else 0.0,
    actions=lambda s: ("a", "b"), initial_state_dist=D({"s1": 1.0}),
    is_absorbing=lambda s: s == "end", discount_rate=0.5)
pi, vi = PolicyIteration().plan_on(mdp), ValueIteration().plan_on(mdp)
print("PI V(s0) =", pi.state_value["s0"], " Q(s1,a) =", pi.action_value["s1"]["a"], "policy(s0) =", dict(pi.policy.action_dist("s0")))
print("VI V(s0) =", vi.state_value["s0"], " Q(s1,a) =", vi.action_value["s1"]["a"], " (optimal: 1000000.75 and 500000.375)")
