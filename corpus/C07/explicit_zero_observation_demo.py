from msdm.core.pomdp.tabularpomdp import TabularPOMDP
from msdm.core.distributions import DictDistribution as D
class P(TabularPOMDP):
    discount_rate = 0.9
    def initial_state_dist(self): return D({0: 1.0})
    def actions(self, s): return ['a']
    def next_state_dist(self, s, a): return D({0: 0.5, 1: 0.5})
    def reward(self, s, a, ns): return 1.0
    def is_absorbing(self, s): return False
    def observation_dist(self, a, ns): return D({'x': 1.0, 'never': 0.0}) if ns == 0 else D({'x': 0.25, 'y': 0.75})
    def initial_observation_dist(self, s): return D({'x': 1.0})
p = P()
print(p.observation_list)
print(p.observation_matrix)
b = p.initial_state_dist()
print(p.state_estimator(b, 'a', 'y'), p.state_estimator_vec(p.initial_state_vec, 0, p.observation_index['y']))
