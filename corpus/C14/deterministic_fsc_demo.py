import numpy as np, random
from msdm.domains.tiger import Tiger
from msdm.core.pomdp.finitestatecontroller import FiniteStateController
p = Tiger(coherence=.85, discount_rate=.9)
nA, nO = len(p.action_list), len(p.observation_list)
acts = [p.action_list[0], p.action_list[1]]
for obs in (np.array([[1]*nO, [0]*nO]), np.array([[[1]*nO]*nA, [[0]*nO]*nA])):
    c = FiniteStateController(p, acts, obs)
    traj = c.run_on(p, max_steps=6, rng=random.Random(0))
    ag = c.initial_agentstate()
    for st in traj[:-1] if hasattr(traj, '__getitem__') else traj:
        pass
    print(type(traj), len(traj))
    for st in traj:
        d = st if isinstance(st, dict) else st._asdict() if hasattr(st, '_asdict') else vars(st)
        print({k: d[k] for k in d if k in ('agentstate','action','observation','next_agentstate')})
        break
print("ok")
