from msdm.core.mdp.quickmdp import QuickTabularMDP
from msdm.core.distributions import DictDistribution as D
from msdm.algorithms.policyiteration import PolicyIteration
def mk(g):
    return QuickTabularMDP(
        next_state_dist=lambda s, a: D({1: 1.0}) if a == 'go' else D({0: 1.0}),
        reward=lambda s, a, ns: -1.0,
        actions=lambda s: ['go', 'stay'],
        initial_state_dist=D({0: 1.0}),
        is_absorbing=lambda s: s == 2,
        discount_rate=g)
def mk2(g):
    # 0 -stay(-1)-> 0 ; 0 -go(-3)-> 1(absorbing)
    return QuickTabularMDP(
        next_state_dist=lambda s, a: D({1: 1.0}) if a == 'go' else D({0: 1.0}),
        reward=lambda s, a, ns: -3.0 if a == 'go' else -1.0,
        actions=lambda s: ['go', 'stay'],
        initial_state_dist=D({0: 1.0}),
        is_absorbing=lambda s: s == 1,
        discount_rate=g)
pi = PolicyIteration()
a, b = mk2(1), mk2(0.5)      # first problem undiscounted with an int discount rate, second discounted
ra, rb = pi.batch_plan_on([a, b])
alone = pi.plan_on(mk2(0.5))
print("batch :", dict(rb.state_value), dict(rb.policy[0]))
print("alone :", dict(alone.state_value), dict(alone.policy[0]))
assert abs(rb.state_value[0] - alone.state_value[0]) < 1e-9, "batch result differs from planning the same MDP alone"
