from msdm.core.mdp.quickmdp import QuickTabularMDP
from msdm.core.distributions import DictDistribution as D
from msdm.algorithms.valueiteration import ValueIteration
# 0 --go--> goal(2) ; 0 --slip--> 1 ; state 1 can only 'wait' or 'pace' forever (never terminates); 'go' is NOT available at 1
acts = {0: ['go', 'slip'], 1: ['pace', 'wait'], 2: ['go']}
nxt = {(0, 'go'): 2, (0, 'slip'): 1, (1, 'wait'): 1, (1, 'pace'): 1, (2, 'go'): 2}
m = QuickTabularMDP(next_state_dist=lambda s, a: D({nxt[s, a]: 1.0}), reward=lambda s, a, ns: -1.0,
                    actions=lambda s: acts[s], initial_state_dist=D({0: 1.0}), is_absorbing=lambda s: s == 2, discount_rate=1.0)
for v in ("vectorized", "dict"):
    r = ValueIteration(_version=v).plan_on(m)
    row = {a: float(r.policy[1][a]) for a in m.action_list if a in list(r.policy.action_list)}
    print(v, row)
    assert all(p == 0 for a, p in row.items() if a not in acts[1]), "policy gives probability to an action that is not available at state 1: %r" % row
