from msdm.core.mdp.quickmdp import QuickTabularMDP
from msdm.core.distributions import DictDistribution as D
from msdm.algorithms.multichainpolicyiteration import MultichainPolicyIteration
def run(r1, r2, c1=0., c2=0., order=("a_to1", "b_to2")):
    # state A: action order[0] -> F1, order[1] -> F2 (one-off rewards c1, c2); F1, F2 self-loops paying r1, r2
    T = {("A", order[0]): ("F1", c1), ("A", order[1]): ("F2", c2), ("F1", "stay"): ("F1", r1), ("F2", "stay"): ("F2", r2)}
    mdp = QuickTabularMDP(next_state_dist=lambda s, a: D({T[s, a][0]: 1.}), reward=lambda s, a, ns: T[s, a][1],
                          actions=lambda s: order if s == "A" else ("stay",), initial_state_dist=D({"A": 1.}),
                          is_absorbing=lambda s: False, discount_rate=1.0)
    r = MultichainPolicyIteration().plan_on(mdp)
    print("conv", r.converged, "gain", {s: round(float(r.state_gain[s]), 6) for s in mdp.state_list}, "policy(A)", {a: float(p) for a, p in r.policy["A"].items()})
print("better first, gains 1000 vs 999.995, equal one-off rewards:"); run(1000., 999.995)
print("worse first:"); run(999.995, 1000.)
print("control, gains 1000 vs 999.9:"); run(1000., 999.9)
print("small scale 1 vs 0.999995:"); run(1., 0.999995)
