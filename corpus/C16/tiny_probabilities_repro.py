# repro 6: undiscounted, transition probabilities 2^-k: converged=True with a wrong gain
from msdm.core.mdp.quickmdp import QuickTabularMDP
from msdm.core.distributions import DictDistribution as D
from msdm.algorithms.multichainpolicyiteration import MultichainPolicyIteration
def solve(T, R, n):
    mdp = QuickTabularMDP(next_state_dist=lambda s, a: D(T[s]), reward=lambda s, a, ns: R[s], actions=lambda s: (0,),
                          initial_state_dist=D({0: 1.}), is_absorbing=lambda s: False, discount_rate=1.0)
    r = MultichainPolicyIteration().plan_on(mdp)
    return r.converged, [round(float(r.state_gain[s]), 6) for s in range(n)]
for k in (8, 10, 14, 20, 26, 27, 53):
    e = 2.0 ** -k
    # (a) 2 states: almost absorbing self-loop paying 1 leaks into a closed self-loop paying 3: optimal gain (3, 3)
    a = solve({0: {0: 1 - e, 1: e}, 1: {1: 1.}}, {0: 1., 1: 3.}, 2)
    # (b) 3 states: 2-cycle (rewards 2, 0) leaks with probability e into a closed self-loop paying 5: optimal gain (5, 5, 5)
    b = solve({0: {1: 1.}, 1: {0: 1 - e, 2: e}, 2: {2: 1.}}, {0: 2., 1: 0., 2: 5.}, 3)
    print("k=%2d  (a) %s  optimum (3,3)   (b) %s  optimum (5,5,5)" % (k, a, b))
