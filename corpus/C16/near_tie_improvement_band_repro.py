# repro 7 (unchanged msdm): the improvement test's RELATIVE tie band keeps a slightly worse initial action:
# converged=True with values below the optimum by up to 1e-5 relative
from msdm.core.mdp.quickmdp import QuickTabularMDP
from msdm.core.distributions import DictDistribution as D
from msdm.algorithms.multichainpolicyiteration import MultichainPolicyIteration
R = {"a_standard": 100.0, "b_premium": 100.009}          # both actions keep the single state
mdp = QuickTabularMDP(next_state_dist=lambda s, a: D({0: 1.}), reward=lambda s, a, ns: R[a], actions=lambda s: ("a_standard", "b_premium"),
                      initial_state_dist=D({0: 1.}), is_absorbing=lambda s: False, discount_rate=.9)
print(mdp.action_list)
r = MultichainPolicyIteration().plan_on(mdp)
print("converged", r.converged, "value", float(r.state_value[0]), "(optimal 1000.09)", "policy", dict(r.policy[0]))
