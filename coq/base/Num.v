(* Num.v — one numeric interface, several instances.
   Every model function of the development is written once, polymorphic in
   [Num T]; it is executed with T := Q / bigQ by vm_compute (correspondence
   check) and reasoned about with T := R (theorems).  base/Transfer.v shows,
   through the parametricity translation, that both are the same function. *)
From Coq Require Import List Arith Bool.
Import ListNotations.

Class Num (T : Type) := {
  n0 : T; n1 : T;
  nadd : T -> T -> T;
  nmul : T -> T -> T;
  nsub : T -> T -> T;
  ndiv : T -> T -> T;
  nleb : T -> T -> bool
}.

Declare Scope num_scope.
Delimit Scope num_scope with num.
Infix "+" := nadd : num_scope.
Infix "*" := nmul : num_scope.
Infix "-" := nsub : num_scope.
Infix "/" := ndiv : num_scope.
Infix "<=?" := nleb : num_scope.

Section Generic.
Context {T : Type} {NT : Num T}.
Local Open Scope num_scope.

Definition nltb (x y : T) : bool := negb (y <=? x).
Definition neqb (x y : T) : bool := (x <=? y) && (y <=? x).
Definition nmax (x y : T) : T := if x <=? y then y else x.
Definition nmin (x y : T) : T := if x <=? y then x else y.
Definition nabs (x : T) : T := if n0 <=? x then x else n0 - x.
Definition nopp (x : T) : T := n0 - x.

(* |x - y| <= eps, the shape of np.isclose(x, y, atol=eps, rtol=0) *)
Definition ncloseb (eps x y : T) : bool := nabs (x - y) <=? eps.

(* np.isclose(a, b, rtol, atol): |a - b| <= atol + rtol*|b| *)
Definition niscloseb (rtol atol a b : T) : bool :=
  nabs (a - b) <=? (atol + rtol * nabs b).

(* number from a nat (small nats only: counts of actions etc.) *)
Fixpoint nofnat (k : nat) : T :=
  match k with O => n0 | S k' => n1 + nofnat k' end.

(* sum_{i<n} f i, accumulated left to right as Python's loops do *)
Fixpoint sumf (n : nat) (f : nat -> T) : T :=
  match n with O => n0 | S k => sumf k f + f k end.

Definition sumlist (l : list T) : T := fold_right nadd n0 l.

(* max over the indices i<n with ok i; None = "no admissible index"
   (this is how -inf from np.log(action_matrix) is modelled) *)
Fixpoint maxf (n : nat) (ok : nat -> bool) (f : nat -> T) : option T :=
  match n with
  | O => None
  | S k =>
    let r := maxf k ok f in
    if ok k then
      match r with None => Some (f k) | Some m => Some (nmax m (f k)) end
    else r
  end.

Definition odflt (d : T) (o : option T) : T :=
  match o with Some x => x | None => d end.

(* tabulation: functions nat -> T stored as lists so vm_compute shares work *)
Definition tab (n : nat) (f : nat -> T) : list T := map f (seq 0 n).
Definition untab (l : list T) (i : nat) : T := nth i l n0.
Definition tab2 (n m : nat) (f : nat -> nat -> T) : list (list T) :=
  map (fun i => tab m (f i)) (seq 0 n).
Definition untab2 (l : list (list T)) (i j : nat) : T := untab (nth i l []) j.
Definition untab3 (l : list (list (list T))) (i j k : nat) : T :=
  untab2 (nth i l []) j k.

Definition forallbn (n : nat) (p : nat -> bool) : bool := forallb p (seq 0 n).
Definition countb (n : nat) (p : nat -> bool) : nat :=
  length (filter p (seq 0 n)).

End Generic.

Arguments maxf {T NT} n ok f.
Arguments sumf {T NT} n f.
