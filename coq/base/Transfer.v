(* Transfer.v — "executed = proved".
   paramcoq's [Parametricity] command generates, for every polymorphic model
   function f, a term f_R stating that f maps related inputs to related
   outputs for ANY relation between two Num instances.  Instantiated with
   QR q r := Q2R q = r  (resp. BR for bigQ) and the hand-proved [NumQR] this
   says: what vm_compute prints for the Q instance is the Q2R-preimage of the
   real-valued function the theorems are about (same booleans, same control
   flow, same discrete outputs). *)
From Coq Require Import QArith Qreals Reals Lra Bool List.
From Bignums Require Import BigQ.
From Param Require Import Param.
From MSDM Require Import base.Num base.NumInst.

Parametricity Recursive Num.
Parametricity Recursive bool.
Parametricity Recursive nat.
Parametricity Recursive list.
Parametricity Recursive option.
Parametricity Recursive prod.

Definition QR (q : Q) (r : R) : Prop := Q2R q = r.

Lemma Q2R_red q : Q2R (Qred q) = Q2R q.
Proof. apply Qeq_eqR, Qred_correct. Qed.

Lemma bool_R_eq b1 b2 : b1 = b2 -> bool_R b1 b2.
Proof. intros ->; destruct b2; constructor. Qed.
Lemma bool_R_inv b1 b2 : bool_R b1 b2 -> b1 = b2.
Proof. destruct 1; reflexivity. Qed.

Lemma Qle_bool_Rleb x y : Qle_bool x y = Rleb (Q2R x) (Q2R y).
Proof.
  destruct (Qle_bool x y) eqn:E; symmetry.
  - apply Rleb_true, Qle_Rle, Qle_bool_iff, E.
  - apply Rleb_false. apply Qlt_Rlt. apply Qnot_le_lt. intro H.
    apply Qle_bool_iff in H. congruence.
Qed.

Lemma Q2R_divg x y : Q2R (Qdivg x y) = Rdivg (Q2R x) (Q2R y).
Proof.
  unfold Qdivg, Rdivg. rewrite Q2R_red.
  destruct (Req_EM_T (Q2R y) 0) as [E|E].
  - assert (Hy : y == 0). { apply eqR_Qeq. rewrite E. unfold Q2R; simpl; lra. }
    assert (Hz : x / y == 0) by (rewrite Hy; unfold Qdiv, Qinv; simpl; ring).
    rewrite (Qeq_eqR _ _ Hz). unfold Q2R; simpl; lra.
  - apply Q2R_div. intro Hy. apply E. apply Qeq_eqR in Hy. rewrite Hy.
    unfold Q2R; simpl; lra.
Qed.

Lemma NumQR : Num_R Q R QR NumQ NumR.
Proof.
  constructor; unfold QR.
  - unfold Q2R; simpl; lra.
  - unfold Q2R; simpl; lra.
  - intros x1 x2 Hx y1 y2 Hy. rewrite Q2R_red, Q2R_plus; congruence.
  - intros x1 x2 Hx y1 y2 Hy. rewrite Q2R_red, Q2R_mult; congruence.
  - intros x1 x2 Hx y1 y2 Hy. rewrite Q2R_red, Q2R_minus; congruence.
  - intros x1 x2 Hx y1 y2 Hy. rewrite Q2R_divg; congruence.
  - intros x1 x2 Hx y1 y2 Hy. apply bool_R_eq. subst. apply Qle_bool_Rleb.
Qed.

(* ---- bigQ ---- *)
Definition BR (b : bigQ) (r : R) : Prop := Q2R (BigQ.to_Q b) = r.

Lemma NumBR : Num_R bigQ R BR NumB NumR.
Proof.
  constructor; unfold BR.
  - change (Q2R (BigQ.to_Q 0%bigQ) = 0%R). replace (BigQ.to_Q 0%bigQ) with 0%Q by (vm_compute; reflexivity). unfold Q2R; simpl; lra.
  - change (Q2R (BigQ.to_Q 1%bigQ) = 1%R). replace (BigQ.to_Q 1%bigQ) with 1%Q by (vm_compute; reflexivity). unfold Q2R; simpl; lra.
  - intros x1 x2 Hx y1 y2 Hy. cbn.
    rewrite (Qeq_eqR _ _ (BigQ.spec_red _)), (Qeq_eqR _ _ (BigQ.spec_add _ _)), Q2R_plus; congruence.
  - intros x1 x2 Hx y1 y2 Hy. cbn.
    rewrite (Qeq_eqR _ _ (BigQ.spec_red _)), (Qeq_eqR _ _ (BigQ.spec_mul _ _)), Q2R_mult; congruence.
  - intros x1 x2 Hx y1 y2 Hy. cbn.
    rewrite (Qeq_eqR _ _ (BigQ.spec_red _)), (Qeq_eqR _ _ (BigQ.spec_sub _ _)), Q2R_minus; congruence.
  - intros x1 x2 Hx y1 y2 Hy. cbn.
    rewrite (Qeq_eqR _ _ (BigQ.spec_red _)), (Qeq_eqR _ _ (BigQ.spec_div _ _)).
    subst. transitivity (Q2R (Qdivg (BigQ.to_Q x1) (BigQ.to_Q y1))).
    + unfold Qdivg. now rewrite Q2R_red.
    + apply Q2R_divg.
  - intros x1 x2 Hx y1 y2 Hy. apply bool_R_eq. subst. cbn.
    rewrite BigQ.spec_compare, <- Qle_bool_Rleb.
    unfold Qle_bool, Qcompare. rewrite Z.leb_compare.
    destruct (_ ?= _)%Z; reflexivity.
Qed.

(* helper lemmas used when applying generated f_R terms *)
Lemma nat_R_refl n : nat_R n n.
Proof. induction n; constructor; auto. Qed.
Lemma nat_R_eq n m : nat_R n m -> n = m.
Proof. induction 1; congruence. Qed.
Lemma nat_R_of_eq n m : n = m -> nat_R n m.
Proof. intros ->; apply nat_R_refl. Qed.
Lemma list_R_length A B (RR : A -> B -> Type) l1 l2 :
  list_R A B RR l1 l2 -> length l1 = length l2.
Proof. induction 1; simpl; congruence. Qed.
Lemma list_R_map A B (RR : A -> B -> Type) (f : A -> B) l :
  (forall a, RR a (f a)) -> list_R A B RR l (map f l).
Proof. intros H; induction l; simpl; constructor; auto. Qed.
Lemma list_R_nat_refl l : list_R nat nat nat_R l l.
Proof. induction l; constructor; auto using nat_R_refl. Qed.
Lemma list_R_bool_refl l : list_R bool bool bool_R l l.
Proof. induction l; constructor; auto using bool_R_eq. Qed.
Lemma option_R_inv_some A B (RR : A -> B -> Type) a o :
  option_R A B RR (Some a) o -> { b & (o = Some b) * RR a b }%type.
Proof. intros H; inversion H; subst; eexists; split; eauto. Qed.
