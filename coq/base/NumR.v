(* NumR.v — analysis lemmas for the generic functions at the R instance *)
From Coq Require Import Reals Lra List Arith Bool Lia.
From MSDM Require Import base.Num base.NumInst.
Import ListNotations.
Local Open Scope R_scope.

Ltac numR := cbn [nadd nmul nsub ndiv nleb n0 n1 NumR] in *.

Lemma nmax_R x y : @nmax R NumR x y = Rmax x y.
Proof.
  unfold nmax; numR. destruct (Rleb x y) eqn:E.
  - apply Rleb_true in E. rewrite Rmax_right; lra.
  - apply Rleb_false in E. rewrite Rmax_left; lra.
Qed.
Lemma nmin_R x y : @nmin R NumR x y = Rmin x y.
Proof.
  unfold nmin; numR. destruct (Rleb x y) eqn:E.
  - apply Rleb_true in E. rewrite Rmin_left; lra.
  - apply Rleb_false in E. rewrite Rmin_right; lra.
Qed.
Lemma nabs_R x : @nabs R NumR x = Rabs x.
Proof.
  unfold nabs; numR. destruct (Rleb 0 x) eqn:E.
  - apply Rleb_true in E. rewrite Rabs_right; lra.
  - apply Rleb_false in E. rewrite Rabs_left; lra.
Qed.
Lemma ncloseb_R eps x y : @ncloseb R NumR eps x y = true <-> Rabs (x - y) <= eps.
Proof. unfold ncloseb. rewrite nabs_R. numR. apply Rleb_true. Qed.
Lemma nltb_R x y : @nltb R NumR x y = true <-> x < y.
Proof.
  unfold nltb; numR. destruct (Rleb y x) eqn:E; simpl.
  - apply Rleb_true in E. split; [discriminate|lra].
  - apply Rleb_false in E. tauto.
Qed.
Lemma nofnat_R k : @nofnat R NumR k = INR k.
Proof.
  induction k; [reflexivity|]. cbn [nofnat]. rewrite IHk, S_INR. numR. lra.
Qed.

(* ---------- sumf ---------- *)
Lemma sumf_S (n : nat) (f : nat -> R) : sumf (S n) f = sumf n f + f n.
Proof. reflexivity. Qed.
Lemma sumf_ext n (f g : nat -> R) :
  (forall i, (i < n)%nat -> f i = g i) -> sumf n f = sumf n g.
Proof.
  induction n; intros H; [reflexivity|]. rewrite !sumf_S, IHn, H; auto.
Qed.
Lemma sumf_0 n (f : nat -> R) : (forall i, (i < n)%nat -> f i = 0) -> sumf n f = 0.
Proof. induction n; intros H; [reflexivity|]. rewrite sumf_S, IHn, H; auto; lra. Qed.
Lemma sumf_le n (f g : nat -> R) :
  (forall i, (i < n)%nat -> f i <= g i) -> sumf n f <= sumf n g.
Proof.
  induction n; intros H; [numR; simpl; lra|]. rewrite !sumf_S.
  specialize (IHn (fun i Hi => H i (Nat.lt_lt_succ_r _ _ Hi))).
  specialize (H n (Nat.lt_succ_diag_r n)). lra.
Qed.
Lemma sumf_nonneg n (f : nat -> R) : (forall i, (i < n)%nat -> 0 <= f i) -> 0 <= sumf n f.
Proof.
  intros H. replace 0 with (sumf n (fun _ => 0)).
  - apply sumf_le; auto.
  - apply sumf_0; auto.
Qed.
Lemma sumf_plus n (f g : nat -> R) : sumf n (fun i => f i + g i) = sumf n f + sumf n g.
Proof. induction n; [simpl; numR; lra|]. rewrite !sumf_S, IHn; lra. Qed.
Lemma sumf_minus n (f g : nat -> R) : sumf n (fun i => f i - g i) = sumf n f - sumf n g.
Proof. induction n; [simpl; numR; lra|]. rewrite !sumf_S, IHn; lra. Qed.
Lemma sumf_scal n c (f : nat -> R) : sumf n (fun i => c * f i) = c * sumf n f.
Proof. induction n; [simpl; numR; lra|]. rewrite !sumf_S, IHn; lra. Qed.
Lemma sumf_scal_r n c (f : nat -> R) : sumf n (fun i => f i * c) = sumf n f * c.
Proof. induction n; [simpl; numR; lra|]. rewrite !sumf_S, IHn; lra. Qed.
Lemma sumf_const n c : sumf n (fun _ => c) = INR n * c.
Proof. induction n; [simpl; numR; lra|]. rewrite sumf_S, IHn, S_INR; lra. Qed.
Lemma sumf_abs n (f : nat -> R) : Rabs (sumf n f) <= sumf n (fun i => Rabs (f i)).
Proof.
  induction n; [simpl; numR; rewrite Rabs_R0; lra|]. rewrite !sumf_S.
  eapply Rle_trans; [apply Rabs_triang|]. lra.
Qed.
Lemma sumf_single n (f : nat -> R) k :
  (k < n)%nat -> (forall i, (i < n)%nat -> i <> k -> f i = 0) -> sumf n f = f k.
Proof.
  induction n; intros Hk H; [lia|]. rewrite sumf_S.
  destruct (Nat.eq_dec k n) as [->|Hne].
  - rewrite sumf_0; [lra|]. intros i Hi. apply H; lia.
  - rewrite IHn, (H n); try lia; try lra. intros i Hi Hik. apply H; lia.
Qed.
Lemma sumf_swap n m (f : nat -> nat -> R) :
  sumf n (fun i => sumf m (fun j => f i j)) = sumf m (fun j => sumf n (fun i => f i j)).
Proof.
  induction n.
  - simpl. symmetry. apply sumf_0. reflexivity.
  - rewrite sumf_S, IHn. rewrite <- sumf_plus. apply sumf_ext. intros; now rewrite sumf_S.
Qed.

(* weighted sums: the workhorse of every Bellman-type argument *)
Lemma wsum_diff_bound n (w x y : nat -> R) d :
  (forall i, (i < n)%nat -> 0 <= w i) ->
  (forall i, (i < n)%nat -> Rabs (x i - y i) <= d) ->
  Rabs (sumf n (fun i => w i * x i) - sumf n (fun i => w i * y i)) <= sumf n w * d.
Proof.
  intros Hw Hd. rewrite <- sumf_minus.
  eapply Rle_trans; [apply sumf_abs|]. rewrite <- sumf_scal_r.
  apply sumf_le. intros i Hi. replace (w i * x i - w i * y i) with (w i * (x i - y i)) by lra.
  rewrite Rabs_mult, (Rabs_right (w i)); [|apply Rle_ge; auto].
  apply Rmult_le_compat_l; auto.
Qed.
Lemma wsum_mono n (w x y : nat -> R) :
  (forall i, (i < n)%nat -> 0 <= w i) ->
  (forall i, (i < n)%nat -> x i <= y i) ->
  sumf n (fun i => w i * x i) <= sumf n (fun i => w i * y i).
Proof. intros Hw Hxy. apply sumf_le. intros i Hi. apply Rmult_le_compat_l; auto. Qed.
Lemma wsum_le_max n (w x : nat -> R) m :
  (forall i, (i < n)%nat -> 0 <= w i) ->
  (forall i, (i < n)%nat -> x i <= m) ->
  sumf n (fun i => w i * x i) <= sumf n w * m.
Proof.
  intros Hw Hx. rewrite <- sumf_scal_r. apply sumf_le. intros i Hi.
  apply Rmult_le_compat_l; auto.
Qed.
Lemma wsum_ge_min n (w x : nat -> R) m :
  (forall i, (i < n)%nat -> 0 <= w i) ->
  (forall i, (i < n)%nat -> m <= x i) ->
  sumf n w * m <= sumf n (fun i => w i * x i).
Proof.
  intros Hw Hx. rewrite <- sumf_scal_r. apply sumf_le. intros i Hi.
  apply Rmult_le_compat_l; auto.
Qed.

Lemma Rabs_le_inv' a b : Rabs a <= b -> - b <= a <= b.
Proof. intros H. unfold Rabs in H. destruct (Rcase_abs a); lra. Qed.

(* ---------- maxf ---------- *)
Lemma maxf_S n ok (f : nat -> R) :
  maxf (S n) ok f =
  (if ok n then match maxf n ok f with None => Some (f n) | Some m => Some (Rmax m (f n)) end
   else maxf n ok f).
Proof. cbn [maxf]. destruct (ok n); [|reflexivity]. destruct (maxf n ok f); [|reflexivity]. now rewrite nmax_R. Qed.

Lemma maxf_none n ok (f : nat -> R) :
  maxf n ok f = None <-> (forall i, (i < n)%nat -> ok i = false).
Proof.
  induction n.
  - simpl; split; [intros _ i Hi; lia|reflexivity].
  - rewrite maxf_S. destruct (ok n) eqn:E.
    + split.
      * destruct (maxf n ok f); discriminate.
      * intros H. rewrite H in E; [discriminate|lia].
    + rewrite IHn. split; intros H i Hi.
      * destruct (Nat.eq_dec i n); [subst; auto|apply H; lia].
      * apply H; lia.
Qed.
Lemma maxf_some_ex n ok (f : nat -> R) i :
  (i < n)%nat -> ok i = true -> exists m, maxf n ok f = Some m.
Proof.
  intros Hi Hok. destruct (maxf n ok f) eqn:E; [eauto|].
  rewrite maxf_none in E. rewrite E in Hok; auto; discriminate.
Qed.
Lemma maxf_ge n ok (f : nat -> R) m i :
  maxf n ok f = Some m -> (i < n)%nat -> ok i = true -> f i <= m.
Proof.
  revert m. induction n; intros m Hm Hi Hok; [lia|].
  rewrite maxf_S in Hm. destruct (Nat.eq_dec i n) as [->|Hne].
  - rewrite Hok in Hm. destruct (maxf n ok f); inversion Hm; subst; [apply Rmax_r|lra].
  - assert (Hi' : (i < n)%nat) by lia. destruct (ok n).
    + destruct (maxf n ok f) eqn:E.
      * inversion Hm; subst. eapply Rle_trans; [apply (IHn r); auto|apply Rmax_l].
      * rewrite maxf_none in E. rewrite E in Hok; auto; discriminate.
    + auto.
Qed.
Lemma maxf_attained n ok (f : nat -> R) m :
  maxf n ok f = Some m -> exists i, (i < n)%nat /\ ok i = true /\ f i = m.
Proof.
  revert m. induction n; intros m Hm; [discriminate|].
  rewrite maxf_S in Hm. destruct (ok n) eqn:E.
  - destruct (maxf n ok f) eqn:E2.
    + inversion Hm; subst. destruct (Rle_dec r (f n)).
      * exists n. rewrite Rmax_right; auto.
      * destruct (IHn r eq_refl) as (i & Hi & Hok & Hf). exists i.
        rewrite Rmax_left; [|lra]. auto.
    + inversion Hm; subst. exists n; auto.
  - destruct (IHn m Hm) as (i & Hi & Hok & Hf). exists i; auto.
Qed.
Lemma maxf_le_bound n ok (f : nat -> R) m b :
  maxf n ok f = Some m -> (forall i, (i < n)%nat -> ok i = true -> f i <= b) -> m <= b.
Proof.
  intros Hm Hb. destruct (maxf_attained _ _ _ _ Hm) as (i & Hi & Hok & <-). auto.
Qed.
Lemma maxf_mono n ok (f g : nat -> R) mf mg :
  maxf n ok f = Some mf -> maxf n ok g = Some mg ->
  (forall i, (i < n)%nat -> ok i = true -> f i <= g i) -> mf <= mg.
Proof.
  intros Hf Hg H. eapply maxf_le_bound; [exact Hf|]. intros i Hi Hok.
  eapply Rle_trans; [apply H; auto|]. eapply maxf_ge; eauto.
Qed.
Lemma maxf_nonexp n ok (f g : nat -> R) mf mg d :
  maxf n ok f = Some mf -> maxf n ok g = Some mg ->
  (forall i, (i < n)%nat -> ok i = true -> Rabs (f i - g i) <= d) ->
  Rabs (mf - mg) <= d.
Proof.
  intros Hf Hg H. apply Rabs_le. split.
  - destruct (maxf_attained _ _ _ _ Hg) as (i & Hi & Hok & <-).
    pose proof (maxf_ge _ _ _ _ _ Hf Hi Hok). specialize (H i Hi Hok).
    apply Rabs_le_inv' in H. lra.
  - destruct (maxf_attained _ _ _ _ Hf) as (i & Hi & Hok & <-).
    pose proof (maxf_ge _ _ _ _ _ Hg Hi Hok). specialize (H i Hi Hok).
    apply Rabs_le_inv' in H. lra.
Qed.
Lemma maxf_ext n ok ok' (f g : nat -> R) :
  (forall i, (i < n)%nat -> ok i = ok' i) ->
  (forall i, (i < n)%nat -> ok i = true -> f i = g i) ->
  maxf n ok f = maxf n ok' g.
Proof.
  induction n; intros Hok Hfg; [reflexivity|]. rewrite !maxf_S.
  rewrite <- (Hok n) by lia.
  rewrite IHn; [|intros; apply Hok; lia|intros; apply Hfg; auto; lia].
  destruct (ok n) eqn:E; [|reflexivity]. rewrite (Hfg n); auto.
Qed.

(* ---------- tab / untab ---------- *)
Lemma untab_tab {T} {NT : Num T} n (f : nat -> T) i : (i < n)%nat -> untab (tab n f) i = f i.
Proof.
  intros Hi. unfold untab, tab.
  rewrite (nth_indep _ n0 (f 0%nat)) by (rewrite map_length, seq_length; auto).
  rewrite map_nth, seq_nth; auto.
Qed.
Lemma tab_length {T} {NT : Num T} n (f : nat -> T) : length (tab n f) = n.
Proof. unfold tab. now rewrite map_length, seq_length. Qed.
Lemma forallbn_spec n p : forallbn n p = true <-> (forall i, (i < n)%nat -> p i = true).
Proof.
  unfold forallbn. rewrite forallb_forall. split; intros H i Hi.
  - apply H, in_seq; lia.
  - apply H. apply in_seq in Hi; lia.
Qed.

(* sup-norm bound as a Prop *)
Definition bounded_by (n : nat) (f : nat -> R) (d : R) : Prop :=
  forall i, (i < n)%nat -> Rabs (f i) <= d.
