(* NumInst.v — the executable instances (Q with Qred, bigQ) and the R instance *)
From Coq Require Import QArith Qreals Reals Lra Bool.
From Bignums Require Import BigQ.
From MSDM Require Import base.Num.

Definition Qdivg (x y : Q) : Q := Qred (x / y).   (* Q already has x/0 = 0 *)

Global Instance NumQ : Num Q := {|
  n0 := 0%Q; n1 := 1%Q;
  nadd := fun x y => Qred (x + y);
  nmul := fun x y => Qred (x * y);
  nsub := fun x y => Qred (x - y);
  ndiv := Qdivg;
  nleb := Qle_bool
|}.

Definition Rleb (x y : R) : bool := if Rle_dec x y then true else false.
(* guarded division: Python raises / numpy gives nan on x/0; every model that
   divides states the non-zero side condition, and the guard makes the R and Q
   instances related without it (Coq's Q has x/0 = 0). *)
Definition Rdivg (x y : R) : R := if Req_EM_T y 0 then 0%R else (x / y)%R.

Global Instance NumR : Num R := {|
  n0 := 0%R; n1 := 1%R;
  nadd := Rplus; nmul := Rmult; nsub := Rminus;
  ndiv := Rdivg;
  nleb := Rleb
|}.

Global Instance NumB : Num bigQ := {|
  n0 := 0%bigQ; n1 := 1%bigQ;
  nadd := fun x y => BigQ.red (x + y)%bigQ;
  nmul := fun x y => BigQ.red (x * y)%bigQ;
  nsub := fun x y => BigQ.red (x - y)%bigQ;
  ndiv := fun x y => BigQ.red (x / y)%bigQ;
  nleb := fun x y => match BigQ.compare x y with Gt => false | _ => true end
|}.

Lemma Rleb_true x y : Rleb x y = true <-> (x <= y)%R.
Proof. unfold Rleb; destruct (Rle_dec x y); split; intros; try easy. Qed.
Lemma Rleb_false x y : Rleb x y = false <-> (y < x)%R.
Proof. unfold Rleb; destruct (Rle_dec x y); split; intros; try easy; lra. Qed.
Lemma Rdivg_nz x y : y <> 0%R -> Rdivg x y = (x / y)%R.
Proof. unfold Rdivg; destruct (Req_EM_T y 0); intros; [contradiction|reflexivity]. Qed.
