(* C11 — Finite distributions obey the probability calculus.
   model/Dist.v mirrors msdm's FiniteDistribution operations one to one on association lists
   (= the items() sequence, insertion order) over an arbitrary event type K with decidable equality
   keq; theorems are on the R instance, for ALL finite distributions (any length, zero entries,
   unnormalised), ALL projection / kernel / likelihood / real-valued functions.
   NoDup (keys d): the events listed by items() are pairwise distinct — true of every dict-backed
   distribution, of UniformDistribution (check_unique) and of a validated table.
   __and__ is modelled in product form; C11_and_logexp shows msdm's log/exp form equal to it. *)
From Coq Require Import QArith Qreals Reals List Bool.
From MSDM Require Import base.Num base.NumInst model.Dist theory.DistTheory theory.DistTransfer
     theory.DistExample.
Import ListNotations.
Local Open Scope R_scope.

(* marginalising preserves total mass and sums the probabilities of merged events *)
Theorem C11_marginalize :
  forall (K K2 : Type) (keq : K -> K -> bool) (keq2 : K2 -> K2 -> bool),
  (forall a b : K, keq a b = true <-> a = b) -> (forall a b : K2, keq2 a b = true <-> a = b) ->
  (forall (f : K -> K2) (d : list (K * R)), mass (marginalize keq2 f d) = mass d) /\
  (forall (f : K -> K2) (d : list (K * R)) (y : K2), NoDup (keys d) ->
     prob keq2 (marginalize keq2 f d) y =
     Rsum (map (prob keq d) (filter (fun x : K => keq2 (f x) y) (keys d)))).
Proof.
  intros K K2 keq keq2 H H2.
  exact (conj (marginalize_mass keq2) (marginalize_prob keq keq2 H H2)).
Qed.
Print Assumptions C11_marginalize.

(* chaining is the law of total probability; stochastic kernels preserve mass *)
Theorem C11_chain :
  forall (K K2 : Type) (keq : K -> K -> bool) (keq2 : K2 -> K2 -> bool),
  (forall a b : K, keq a b = true <-> a = b) -> (forall a b : K2, keq2 a b = true <-> a = b) ->
  (forall (kern : K -> list (K2 * R)) (d : list (K * R)) (y : K2),
     NoDup (keys d) -> (forall x : K, In x (keys d) -> NoDup (keys (kern x))) ->
     prob keq2 (chain keq2 kern d) y =
     Rsum (map (fun x : K => prob keq d x * prob keq2 (kern x) y) (keys d))) /\
  (forall (kern : K -> list (K2 * R)) (d : list (K * R)),
     (forall x : K, In x (keys d) -> mass (kern x) = 1) -> mass (chain keq2 kern d) = mass d).
Proof.
  intros K K2 keq keq2 H H2.
  exact (conj (chain_total_prob keq keq2 H H2) (chain_mass_stochastic keq2)).
Qed.
Print Assumptions C11_chain.

(* conditioning on a positive-mass event is Bayes' rule, is normalised, and drops exactly the
   events of likelihood 0 from the support *)
Theorem C11_condition_bayes :
  forall (K : Type) (keq : K -> K -> bool), (forall a b : K, keq a b = true <-> a = b) ->
  forall (w : K -> R) (d : list (K * R)), NoDup (keys d) -> (forall x : K, 0 <= w x) ->
  let W := Rsum (map (fun x : K => prob keq d x * w x) (keys d)) in
  W <> 0 ->
  (forall x : K, prob keq (condition keq w d) x = prob keq d x * w x / W) /\
  mass (condition keq w d) = 1 /\
  (forall x : K, In x (keys (condition keq w d)) <-> In x (keys d) /\ 0 < w x).
Proof. exact @condition_bayes. Qed.
Print Assumptions C11_condition_bayes.

(* joint is the product measure (duplicate-free supports); stated as is: with duplicated events the
   dict comprehension keeps the LAST product per key *)
Theorem C11_joint :
  forall (K K2 : Type) (keq : K -> K -> bool) (keq2 : K2 -> K2 -> bool),
  (forall a b : K, keq a b = true <-> a = b) -> (forall a b : K2, keq2 a b = true <-> a = b) ->
  (forall (d1 : list (K * R)) (d2 : list (K2 * R)), NoDup (keys d1) -> NoDup (keys d2) ->
     (forall (x : K) (y : K2),
        prob (pair_eqb keq keq2) (joint keq keq2 d1 d2) (x, y) = prob keq d1 x * prob keq2 d2 y) /\
     mass (joint keq keq2 d1 d2) = mass d1 * mass d2 /\
     keys (joint keq keq2 d1 d2) = list_prod (keys d1) (keys d2)) /\
  (forall (d1 : list (K * R)) (d2 : list (K2 * R)) (k : K * K2),
     dget (pair_eqb keq keq2) (joint keq keq2 d1 d2) k =
     dget (pair_eqb keq keq2) (rev (joint_list d1 d2)) k).
Proof.
  intros K K2 keq keq2 H H2.
  exact (conj (joint_product keq keq2 H H2) (joint_overwrite keq keq2 H H2)).
Qed.
Print Assumptions C11_joint.

(* scaled mixtures add pointwise:  (d1 * a | d2 * b) *)
Theorem C11_mix :
  forall (K : Type) (keq : K -> K -> bool), (forall a b : K, keq a b = true <-> a = b) ->
  (forall (d1 d2 : list (K * R)) (a b : R) (x : K), NoDup (keys d1) -> NoDup (keys d2) ->
     prob keq (mix keq (scale keq d1 a) (scale keq d2 b)) x = prob keq d1 x * a + prob keq d2 x * b) /\
  (forall (d1 d2 : list (K * R)), mass (mix keq d1 d2) = mass d1 + mass d2).
Proof. intros K keq H. exact (conj (mix_pointwise keq H) (mix_mass keq)). Qed.
Print Assumptions C11_mix.

(* conjunction is the renormalised pointwise product on the common support, for EVERY enumeration
   es of the common support (msdm iterates a Python set, i.e. in hash order) *)
Theorem C11_and_renormalised_product :
  forall (K : Type) (keq : K -> K -> bool), (forall a b : K, keq a b = true <-> a = b) ->
  forall (es : list K) (d1 d2 : list (K * R)),
  (forall e : K, In e es <-> In e (keys d1) /\ In e (keys d2)) ->
  conj_norm keq es d1 d2 <> 0 ->
  (forall x : K,
     prob keq (conj_on keq es d1 d2) x = prob keq d1 x * prob keq d2 x / conj_norm keq es d1 d2) /\
  mass (conj_on keq es d1 d2) = 1 /\ keys (conj_on keq es d1 d2) = es.
Proof. exact @and_renormalised_product. Qed.
Print Assumptions C11_and_renormalised_product.

(* msdm's log/exp computation of __and__ is the product form *)
Theorem C11_and_logexp :
  forall (K : Type) (keq : K -> K -> bool), (forall a b : K, keq a b = true <-> a = b) ->
  forall (es : list K) (d1 d2 : list (K * R)),
  (forall kv : K * R, In kv d1 -> 0 <= snd kv) -> (forall kv : K * R, In kv d2 -> 0 <= snd kv) ->
  0 < conj_norm keq es d1 d2 -> conj_logexp keq es d1 d2 = conj_on keq es d1 d2.
Proof. exact @conj_logexp_eq. Qed.
Print Assumptions C11_and_logexp.

(* expectation is the probability-weighted sum *)
Theorem C11_expectation_def :
  forall (K : Type) (keq : K -> K -> bool), (forall a b : K, keq a b = true <-> a = b) ->
  forall (f : K -> R) (d : list (K * R)), NoDup (keys d) ->
  expectation f d = Rsum (map (fun x : K => f x * prob keq d x) (keys d)).
Proof. exact @expectation_def. Qed.
Print Assumptions C11_expectation_def.

(* normalise divides by the total; is_normalized is math.isclose(total, 1) *)
Theorem C11_normalize :
  forall (K : Type) (keq : K -> K -> bool), (forall a b : K, keq a b = true <-> a = b) ->
  (forall d : list (K * R), NoDup (keys d) -> mass d <> 0 ->
     (forall x : K, prob keq (normalize keq d) x = prob keq d x / mass d) /\
     mass (normalize keq d) = 1 /\ keys (normalize keq d) = keys d) /\
  (forall (rtol atol : R) (d : list (K * R)),
     is_normalized rtol atol d = true <->
     Rabs (mass d - 1) <= Rmax (rtol * Rmax (Rabs (mass d)) (Rabs 1)) atol).
Proof. intros K keq H. exact (conj (normalize_def keq H) (@is_normalized_spec K)). Qed.
Print Assumptions C11_normalize.

(* softmax is normalised and shift-invariant, and is exp(s)/sum exp *)
Theorem C11_softmax :
  forall (K : Type) (keq : K -> K -> bool), (forall a b : K, keq a b = true <-> a = b) ->
  (forall scores : list (K * R), scores <> [] -> mass (softmax scores) = 1) /\
  (forall (r : R) (scores : list (K * R)), softmax (shift_scores r scores) = softmax scores) /\
  (forall (scores : list (K * R)) (e : K), scores <> [] ->
     prob keq (softmax scores) e =
     match dget keq scores e with
     | Some s => exp s / Rsum (map (fun kv : K * R => exp (snd kv)) scores)
     | None => 0
     end).
Proof.
  intros K keq H.
  exact (conj (@softmax_normalised K) (conj (@softmax_shift_invariant K) (softmax_prob keq H))).
Qed.
Print Assumptions C11_softmax.

(* every kind's own prob method is the lookup in its items(); the same measure written as a
   uniform / deterministic / dict / table distribution has the same items(), hence the same result
   under every operation (all operations are functions of items) *)
Theorem C11_kinds_agree :
  forall (K : Type) (keq : K -> K -> bool), (forall a b : K, keq a b = true <-> a = b) ->
  (forall (k : @kind R K) (e : K), kprob keq k e = prob keq (items keq k) e) /\
  (forall v : K, @items R NumR K keq (KUniform [v]) = items keq (KDet v)) /\
  (forall s : list K, NoDup s ->
     items keq (KUniform s) = items keq (KDict (map (fun e : K => (e, 1 / INR (length s))) s))) /\
  (forall (dom : list K) (data : list R), NoDup dom -> length data = length dom ->
     items keq (KTable dom data) = items keq (KDict (combine dom data))) /\
  (forall s : list K, s <> [] -> mass (@items R NumR K keq (KUniform s)) = 1).
Proof.
  intros K keq H.
  exact (conj (kinds_agree keq H) (conj (uniform_singleton_is_det keq H)
        (conj (uniform_is_dict keq H) (conj (table_is_dict keq H) (uniform_mass keq H))))).
Qed.
Print Assumptions C11_kinds_agree.

(* sampling (the faithful random.choices rule: accumulate, u*total, binary bisect_right over
   [0, n-1)) only ever returns events of positive probability, for every u in [0,1) *)
Theorem C11_sample_positive :
  forall (K : Type) (keq : K -> K -> bool), (forall a b : K, keq a b = true <-> a = b) ->
  forall (d : list (K * R)) (u : R), NoDup (keys d) ->
  (forall kv : K * R, In kv d -> 0 <= snd kv) -> 0 < mass d -> 0 <= u < 1 ->
  exists e : K, sample keq d u = Some e /\ 0 < prob keq d e.
Proof. exact @sample_positive. Qed.
Print Assumptions C11_sample_positive.

Theorem C11_sample_kinds_positive :
  forall (K : Type) (keq : K -> K -> bool), (forall a b : K, keq a b = true <-> a = b) ->
  forall (k : @kind R K) (u : R) (i : nat), NoDup (keys (items keq k)) ->
  (forall kv : K * R, In kv (items keq k) -> 0 <= snd kv) -> 0 < mass (items keq k) ->
  0 <= u < 1 -> (forall s : list K, k = KUniform s -> (i < length s)%nat) ->
  exists e : K, ksample keq k u i = Some e /\ 0 < kprob keq k e.
Proof. exact @ksample_positive. Qed.
Print Assumptions C11_sample_kinds_positive.

(* a one-point distribution returns its point whatever the generator says; equal generator streams
   (equally seeded generators) give identical sample sequences *)
Theorem C11_sample_single_deterministic :
  forall (K : Type) (keq : K -> K -> bool),
  (forall (d : list (K * R)) (e : K) (u : R), keys d = [e] -> sample keq d u = Some e) /\
  (forall (d : list (K * R)) (us1 us2 : list R),
     us1 = us2 -> sample_seq keq d us1 = sample_seq keq d us2).
Proof. intros K keq. exact (conj (sample_single keq) (sample_seq_deterministic keq)). Qed.
Print Assumptions C11_sample_single_deterministic.

(* executed = proved: what the harness evaluates on Q is the R function of the theorems above *)
Theorem C11_transfer :
  forall (K K2 : Type) (keq : K -> K -> bool) (keq2 : K2 -> K2 -> bool),
  (forall (k : @kind Q K), mapR (@items Q NumQ K keq k) = @items R NumR K keq (kindQR k)) /\
  (forall (k : @kind Q K) e, Q2R (@kprob Q NumQ K keq k e) = @kprob R NumR K keq (kindQR k) e) /\
  (forall (d : list (K * Q)) k, Q2R (@prob Q NumQ K keq d k) = @prob R NumR K keq (mapR d) k) /\
  (forall (d : list (K * Q)), Q2R (@mass Q NumQ K d) = @mass R NumR K (mapR d)) /\
  (forall (f : K -> K2) (d : list (K * Q)),
     mapR (@marginalize Q NumQ K K2 keq2 f d) = @marginalize R NumR K K2 keq2 f (mapR d)) /\
  (forall (kern : K -> list (K2 * Q)) (d : list (K * Q)),
     mapR (@chain Q NumQ K K2 keq2 kern d) =
     @chain R NumR K K2 keq2 (fun x => mapR (kern x)) (mapR d)) /\
  (forall (w : K -> Q) (d : list (K * Q)),
     mapR (@condition Q NumQ K keq w d) = @condition R NumR K keq (fun x => Q2R (w x)) (mapR d)) /\
  (forall (d1 : list (K * Q)) (d2 : list (K2 * Q)),
     mapR (@joint Q NumQ K K2 keq keq2 d1 d2) = @joint R NumR K K2 keq keq2 (mapR d1) (mapR d2)) /\
  (forall (d : list (K * Q)) c,
     mapR (@scale Q NumQ K keq d c) = @scale R NumR K keq (mapR d) (Q2R c)) /\
  (forall (d1 d2 : list (K * Q)),
     mapR (@mix Q NumQ K keq d1 d2) = @mix R NumR K keq (mapR d1) (mapR d2)) /\
  (forall es (d1 d2 : list (K * Q)),
     mapR (@conj_on Q NumQ K keq es d1 d2) = @conj_on R NumR K keq es (mapR d1) (mapR d2)) /\
  (forall (f : K -> Q) (d : list (K * Q)),
     Q2R (@expectation Q NumQ K f d) = @expectation R NumR K (fun x => Q2R (f x)) (mapR d)) /\
  (forall (d : list (K * Q)),
     mapR (@normalize Q NumQ K keq d) = @normalize R NumR K keq (mapR d)) /\
  (forall rtol atol (d : list (K * Q)),
     @is_normalized Q NumQ K rtol atol d = @is_normalized R NumR K (Q2R rtol) (Q2R atol) (mapR d)) /\
  (forall (k : @kind Q K) u i,
     @ksample Q NumQ K keq k u i = @ksample R NumR K keq (kindQR k) (Q2R u) i).
Proof.
  intros K K2 keq keq2.
  exact (conj (items_transfer keq) (conj (kprob_transfer keq) (conj (prob_transfer keq)
        (conj mass_transfer (conj (marginalize_transfer keq2) (conj (chain_transfer keq2)
        (conj (condition_transfer keq) (conj (joint_transfer keq keq2) (conj (scale_transfer keq)
        (conj (mix_transfer keq) (conj (conj_on_transfer keq) (conj expectation_transfer
        (conj (normalize_transfer keq) (conj is_normalized_transfer (ksample_transfer keq))))))))))))))).
Qed.
Print Assumptions C11_transfer.

(* non-vacuity: concrete distributions (zero entries, unnormalised, overlapping supports) meet
   the hypotheses above and give the expected numbers *)
Theorem C11_nonvacuous :
  (let W := Rsum (map (fun x => @prob R NumR nat Nat.eqb exD x * exW x) (keys exD)) in
   W = 3/16 /\ @prob R NumR nat Nat.eqb (condition Nat.eqb exW exD) 0%nat = 2/3 /\
   @mass R NumR nat (condition Nat.eqb exW exD) = 1) /\
  ((forall e, In e (common Nat.eqb exD exE) <-> In e (keys exD) /\ In e (keys exE)) /\
   conj_norm Nat.eqb (common Nat.eqb exD exE) exD exE = 1/2 /\
   @prob R NumR nat Nat.eqb (conj_on Nat.eqb (common Nat.eqb exD exE) exD exE) 1%nat = 1) /\
  ((forall u, 0 <= u < 1 -> exists e, @sample R NumR nat Nat.eqb exD u = Some e /\
                                       0 < @prob R NumR nat Nat.eqb exD e) /\
   (forall u, 0 <= u < 1 -> @sample R NumR nat Nat.eqb exT u = Some 8%nat)).
Proof. exact (conj ex_condition (conj ex_conj ex_sample)). Qed.
Print Assumptions C11_nonvacuous.
