(* C08 — PBVI never over-estimates and QMDP never under-estimates the optimal POMDP value.
   p : pomdp R of ANY size (nS, nA, nO); tO a o s ns / rM s a are the tables PBVI iterates on
   (hypothesis wfp: tO = Pm * Ob and rM = Rm in range, i.e. transitions and rewards of absorbing states
   zeroed; gamma < 1; stochastic rows).  Wopt k u = k-horizon optimal value on unnormalised beliefs;
   W* ("is_Wstar") its limit with the explicit rate tailR M k u = ||u||_1 gamma^k M/(1-gamma).
   gen j al = "al is obtainable by j point-based backups from the zero vector", for ANY choice of
   action and successor vectors (any belief set, any tie-breaking); the mirror of
   point_based_value_iteration only produces such vectors (C08_mirror_gen). *)
From Coq Require Import QArith Qreals Reals List Bool.
From Bignums Require Import BigQ.
From MSDM Require Import base.Num base.NumInst model.MDP model.POMDP model.PBVI theory.Bellman
     theory.PBVITheory theory.PBVITransfer theory.PBVIMain theory.PBVIExample theory.PBVIFullObs.
Local Open Scope R_scope.

Theorem C08_pbvi_lower :
  forall (p : pomdp R) tO rM k al, wf0 p tO -> gen p tO rM k al ->
  forall u, nonneg p u -> dot p u al <= Wopt p tO rM k u.
Proof. exact pbvi_lower. Qed.
Print Assumptions C08_pbvi_lower.

Theorem C08_mirror_gen :
  forall (p : pomdp R) tO rM horizon amb eps B, (0 < nA (base p))%nat ->
  let r := pbvi_run p tO rM horizon amb eps B in genl p tO rM (snd (fst r)) (fst (fst r)).
Proof. exact pbvi_run_gen. Qed.
Print Assumptions C08_mirror_gen.

(* one sweep from gen-vectors, whatever maximisers are picked: the value checked by chk_sweep at the
   points of the belief set is below the next horizon's optimum *)
Theorem C08_one_sweep_lower :
  forall (p : pomdp R) tO rM j G u a, wf0 p tO -> genl p tO rM j G -> G <> nil -> nonneg p u ->
  (a < nA (base p))%nat -> backup_value p tO rM G u a <= Wopt p tO rM (S j) u.
Proof. exact backup_value_le. Qed.
Print Assumptions C08_one_sweep_lower.

Theorem C08_qmdp_upper :
  forall (p : pomdp R) tO rM k u, wfp p tO rM -> nonneg p u ->
  Wopt p tO rM (S k) u <= odflt 0 (qmdp_value p (Qval (base p) (Vk p k)) u).
Proof. exact qmdp_upper. Qed.
Print Assumptions C08_qmdp_upper.

Theorem C08_horizon_tail :
  forall (p : pomdp R) tO rM M k n u, wfp p tO rM -> 0 <= M -> rbound p rM M -> nonneg p u -> (k <= n)%nat ->
  Rabs (Wopt p tO rM k u - Wopt p tO rM n u) <= (mass p u * gamma (base p) ^ k) * (M / (1 - gamma (base p))).
Proof. exact horizon_tail. Qed.
Print Assumptions C08_horizon_tail.

Theorem C08_Wstar_exists :
  forall (p : pomdp R) tO rM M u, wfp p tO rM -> 0 <= M -> rbound p rM M -> nonneg p u ->
  exists W, is_Wstar p tO rM M u W.
Proof. exact Wstar_exists. Qed.
Print Assumptions C08_Wstar_exists.

(* PBVI value <= optimal value + slack of the sweeps actually run *)
Theorem C08_pbvi_le_Wstar :
  forall (p : pomdp R) tO rM M j al u Ws, wfp p tO rM -> gen p tO rM j al -> nonneg p u ->
  is_Wstar p tO rM M u Ws -> dot p u al <= Ws + tailR p M j u.
Proof. exact pbvi_le_Wstar. Qed.
Print Assumptions C08_pbvi_le_Wstar.

(* QMDP value (optimal Q table of the underlying MDP) >= optimal value *)
Theorem C08_Wstar_le_qmdp :
  forall (p : pomdp R) tO rM M Vs u Ws, wfp p tO rM -> 0 <= M -> fixp p Vs -> nonneg p u ->
  is_Wstar p tO rM M u Ws -> Ws <= odflt 0 (qmdp_value p (Qval (base p) Vs) u).
Proof. exact Wstar_le_qmdp. Qed.
Print Assumptions C08_Wstar_le_qmdp.

Theorem C08_pbvi_le_qmdp :
  forall (p : pomdp R) tO rM M j al Vs u, wfp p tO rM -> 0 <= M -> rbound p rM M ->
  gen p tO rM j al -> fixp p Vs -> nonneg p u ->
  dot p u al <= odflt 0 (qmdp_value p (Qval (base p) Vs) u) + tailR p M j u.
Proof. exact pbvi_le_qmdp_star. Qed.
Print Assumptions C08_pbvi_le_qmdp.

(* the finite-depth brackets the harness evaluates with the exact expectimax oracle *)
Theorem C08_pbvi_bracket :
  forall (p : pomdp R) tO rM M j n al u, wfp p tO rM -> 0 <= M -> rbound p rM M ->
  gen p tO rM j al -> nonneg p u -> (j <= n)%nat -> dot p u al <= Wopt p tO rM n u + tailR p M j u.
Proof. exact pbvi_bracket. Qed.
Print Assumptions C08_pbvi_bracket.

Theorem C08_qmdp_bracket :
  forall (p : pomdp R) tO rM M Vs k u, wfp p tO rM -> 0 <= M -> rbound p rM M -> fixp p Vs -> nonneg p u ->
  Wopt p tO rM k u - tailR p M k u <= odflt 0 (qmdp_value p (Qval (base p) Vs) u).
Proof. exact qmdp_bracket. Qed.
Print Assumptions C08_qmdp_bracket.

(* action_dist: uniform over exactly the maximisers of the policy's own action values *)
Theorem C08_policy_uniform_argmax :
  forall ptol n (av d : nat -> R), greedy_check ptol n av d = true ->
  exists mx, maxf n (fun _ => true) av = Some mx /\
    (forall a, (a < n)%nat -> av a <= mx) /\ (exists a, (a < n)%nat /\ av a = mx) /\
    forall a, (a < n)%nat ->
      (av a = mx -> Rabs (d a * INR (countb n (fun a' => neqb (av a') mx)) - 1) <= ptol) /\
      (av a <> mx -> d a = 0).
Proof. exact greedy_check_sound. Qed.
Print Assumptions C08_policy_uniform_argmax.

Theorem C08_qmdp_action_value_def :
  forall (p : pomdp R) Qt u a,
  qmdp_action_value p Qt u a = sumf (nS (base p)) (fun s => u s * Qt s a).
Proof. exact qmdp_action_value_def. Qed.
Print Assumptions C08_qmdp_action_value_def.

(* every observation reveals the state: the optimum IS the QMDP value (finite horizon and limit).
   This is the QMDP half; the PBVI half is C08_fully_observable_pbvi below (the name _partial is kept for
   stability of references: this theorem alone covers only QMDP). *)
Theorem C08_fully_observable_partial :
  forall (p : pomdp R) tO rM, wfp p tO rM -> fullobs p ->
  (forall k u, nonneg p u ->
     Wopt p tO rM (S k) u = odflt 0 (qmdp_value p (Qval (base p) (Vk p k)) u)) /\
  (forall M Vs u Ws, 0 <= M -> fixp p Vs -> nonneg p u -> is_Wstar p tO rM M u Ws ->
     Ws = odflt 0 (qmdp_value p (Qval (base p) Vs) u)).
Proof.
  intros p tO rM W F. split.
  - intros k u. apply (fullobs_qmdp_exact p tO rM W F).
  - intros M Vs u Ws. apply (fullobs_Wstar_eq_qmdp p tO rM W F).
Qed.
Print Assumptions C08_fully_observable_partial.

(* the PBVI half of the fully observable clause, for the MODEL of point_based_value_iteration:
   observations reveal the state (fullobs) and the belief list B is non-negative and closed under the
   successor map (closedb: for every b in B, action a and observation o of positive mass, the vertex e_o is
   in B) ==> after the j sweeps the run made — any horizon cap, thresholds, tie-breaking — the PBVI value at
   EVERY point of B (vertex or not) is exactly the j-horizon optimum, hence within the geometric tail of W*.
   Together with C08_fully_observable_partial (optimum = QMDP value) this closes the clause for the model;
   the tie to msdm's own vectors is the mirror comparison (C08_msdm_pbvi_upper's hypothesis). *)
Theorem C08_fully_observable_pbvi :
  forall (p : pomdp R) tO rM, wfp p tO rM -> fullobs p ->
  forall B, closedb p tO B = true ->
  forall horizon amb eps, let r := pbvi_run p tO rM horizon amb eps B in
  forall i, (i < length B)%nat ->
    alpha_value p (fst (fst r)) (untab (nth i B nil)) = Some (Wopt p tO rM (snd (fst r)) (untab (nth i B nil))) /\
    forall M Ws x, is_Wstar p tO rM M (untab (nth i B nil)) Ws ->
      alpha_value p (fst (fst r)) (untab (nth i B nil)) = Some x ->
      Rabs (x - Ws) <= tailR p M (snd (fst r)) (untab (nth i B nil)).
Proof.
  intros p tO rM W F B HB horizon amb eps r i Hi. split.
  - apply (fullobs_pbvi_value p tO rM W F B HB horizon amb eps i Hi).
  - intros M Ws x. apply (fullobs_pbvi_near_Wstar p tO rM W F B HB M horizon amb eps i Ws x Hi).
Qed.
Print Assumptions C08_fully_observable_pbvi.

(* the same with the hypotheses as the three booleans the harness evaluates per case on exact rationals *)
Theorem C08_fully_observable_pbvi_checked :
  forall nS nA nO ab P Rw ini g Obl B horizon amb eps,
  @wfpomdpb Q NumQ (pA Q NumQ nS nA nO P Rw ab ini g Obl) = true ->
  @fullobsb Q NumQ (pA Q NumQ nS nA nO P Rw ab ini g Obl) = true ->
  @closedF Q NumQ (pA Q NumQ nS nA nO P Rw ab ini g Obl) B = true ->
  let p := pR Q Q2R nS nA nO P Rw ab ini g Obl in
  let r := pbvi_run p (tO_tab p) (rM_tab p) horizon amb eps (m2 Q Q2R B) in
  forall i, (i < length B)%nat ->
    alpha_value p (fst (fst r)) (untab (nth i (m2 Q Q2R B) nil)) =
    Some (Wopt p (tO_tab p) (rM_tab p) (snd (fst r)) (untab (nth i (m2 Q Q2R B) nil))).
Proof. exact main_fullobs_pbvi. Qed.
Print Assumptions C08_fully_observable_pbvi_checked.

Theorem C08_fully_observable_pbvi_nonvacuous :
  @wfpomdpb Q NumQ (pA Q NumQ 3 2 3 foP foR foAb foIni (1#2)%Q foO) = true /\
  @fullobsb Q NumQ (pA Q NumQ 3 2 3 foP foR foAb foIni (1#2)%Q foO) = true /\
  @closedF Q NumQ (pA Q NumQ 3 2 3 foP foR foAb foIni (1#2)%Q foO) foB = true.
Proof. exact fo_hyps. Qed.
Print Assumptions C08_fully_observable_pbvi_nonvacuous.

(* end to end on msdm's output: the mirror (bigQ) accepted msdm's alpha vectors within tol *)
Theorem C08_msdm_pbvi_upper :
  forall nS nA nO ab PB RwB iniB gB ObB H amb eps B Gi tol j fl,
  @wfpomdpb bigQ NumB (pB nS nA nO ab PB RwB iniB gB ObB) = true ->
  @mirror_cmp bigQ NumB (pB nS nA nO ab PB RwB iniB gB ObB) H amb eps B Gi tol = (j, fl, true) ->
  0 <= BQ2R tol ->
  let p := pBR nS nA nO ab PB RwB iniB gB ObB in
  forall u Ws x, nonneg p u ->
    is_Wstar p (tO_tab p) (rM_tab p) (rmaxabs p (rM_tab p)) u Ws ->
    alpha_value p (m2 bigQ BQ2R Gi) u = Some x ->
    x <= Ws + tailR p (rmaxabs p (rM_tab p)) j u + mass p u * BQ2R tol.
Proof. exact main_pbvi. Qed.
Print Assumptions C08_msdm_pbvi_upper.

(* end to end on msdm's output: the Q table passed the check against an exact fixed point *)
Theorem C08_msdm_qmdp_lower :
  forall nS nA nO ab PQ RwQ iniQ gQ ObQ qtol Vs Qt,
  @wfpomdpb Q NumQ (pQ nS nA nO ab PQ RwQ iniQ gQ ObQ) = true ->
  @chk_qtableF Q NumQ (pQ nS nA nO ab PQ RwQ iniQ gQ ObQ) qtol Vs Qt = true ->
  let p := pQR nS nA nO ab PQ RwQ iniQ gQ ObQ in
  forall u Ws, nonneg p u ->
    is_Wstar p (tO_tab p) (rM_tab p) (rmaxabs p (rM_tab p)) u Ws ->
    Ws <= odflt 0 (qmdp_value p (untab2 (m2 Q Q2R Qt)) u) + mass p u * Q2R qtol.
Proof. exact main_qmdp. Qed.
Print Assumptions C08_msdm_qmdp_lower.

(* non-vacuity: a concrete noisy-observation POMDP meets every hypothesis above *)
Theorem C08_nonvacuous :
  @wfpomdpb bigQ NumB (pB 3 2 2 exAb (b3 exP) (b3 exR) (b1 exIni) (BigQ.of_Q (1#2)%Q) (b3 exO)) = true /\
  @mirror_cmp bigQ NumB (pB 3 2 2 exAb (b3 exP) (b3 exR) (b1 exIni) (BigQ.of_Q (1#2)%Q) (b3 exO))
     6 (BigQ.of_Q (1#1000000000)%Q) (BigQ.of_Q (1#100)%Q) (b2 exB) (b2 exG) (BigQ.of_Q (1#1000000000)%Q)
    = (2%nat, true, true) /\
  @chk_qtableF Q NumQ (pQ 3 2 2 exAb exP exR exIni (1#2)%Q exO) (1#100000)%Q exVs exQt = true /\
  (let p := pQR 3 2 2 exAb exP exR exIni (1#2)%Q exO in
   wfp p (tO_tab p) (rM_tab p) /\
   exists Ws, is_Wstar p (tO_tab p) (rM_tab p) (rmaxabs p (rM_tab p)) (untab (map Q2R exIni)) Ws).
Proof. exact (conj ex_wfB (conj ex_mirror (conj ex_qtable (conj ex_wfp ex_Wstar)))). Qed.
Print Assumptions C08_nonvacuous.
