(* props/C13.v — a fixed seed makes every randomised component reproducible and isolated.

   What is PROVED here (for all programs, tables, worlds — no bound):
     isolation, seeded_reproducible      the logic of generator discipline (model/Rng.v)
     nonprivate_breaks, global_site_disturbs   the site classification is tight (every non-private kind breaks it)
     sites_private_<component>           the table gen/Sites.v, REGENERATED from the current msdm source by
                                         harness/extract_sites.py on every check, has only private sites for that
                                         component (vm_compute on the regenerated table)
     isolated_today                      hence `isolation` applies to each of those components
     obj_seed_factor / hash_stable_no_str / obj_seed_stable_no_str / obj_seed_salted
   What is NOT proved (it is a fact about the interpreter run, decided by differential execution in
   harness/c13.py): that the Python code draws exactly at the listed sites, bit-level float effects of container
   order, CPython's salted str hash, the C generators inside numpy/torch.
   A site is private only if it also is per-call: a generator constructed in __init__ (or a cached property) and consumed
   by plan_on/train_on is kind KPersistentAcrossCalls (source GCarry), which `nonprivate_breaks` shows breaks isolation.
   Components whose lemma is false on the current tree have NO lemma here (none is stated falsely): the harness
   evaluates `component_report` for all twelve components and reports them. *)
From Coq Require Import String List Bool ZArith.
From MSDM Require Import model.Rng theory.RngTheory gen.Sites.
Import ListNotations.
Local Open Scope string_scope.

Theorem isolation :
  forall (tbl : list site), forallb site_private tbl = true ->
  forall (c : config), hyp c ->
  forall (A : Type) (p : prog A), uses p tbl ->
  forall w1 w2 : world, seq (w1 GPriv) (w2 GPriv) ->
    fst (run c p w1) = fst (run c p w2)
    /\ seq (snd (run c p w1) GPriv) (snd (run c p w2) GPriv)
    /\ (forall g, g <> GPriv -> snd (run c p w1) g = w1 g)
    /\ (forall g, g <> GPriv -> snd (run c p w2) g = w2 g).
Proof. exact isolation_thm. Qed.
Print Assumptions isolation.

Theorem seeded_reproducible :
  forall (mk : nat -> stream) (seed : nat) (tbl : list site), forallb site_private tbl = true ->
  forall c, hyp c -> forall (A : Type) (p : prog A), uses p tbl ->
  forall w1 w2 : world,
    fst (run c p (upd w1 GPriv (mk seed))) = fst (run c p (upd w2 GPriv (mk seed))).
Proof. exact seeded_reproducible_thm. Qed.
Print Assumptions seeded_reproducible.

Theorem nonprivate_breaks :
  forall s : site, site_private s = false ->
    hyp c_seed0 /\
    exists (p : prog nat) (w1 w2 : world),
      uses p [s] /\ seq (w1 GPriv) (w2 GPriv) /\ fst (run c_seed0 p w1) <> fst (run c_seed0 p w2).
Proof. exact nonprivate_breaks_thm. Qed.
Print Assumptions nonprivate_breaks.

Theorem global_site_disturbs :
  forall (s : site) (c : config), resolve c (s_kind s) = GGlob ->
    exists w : world, snd (run c (Draw s (fun d => Ret d)) w) GGlob 0 <> w GGlob 0.
Proof. exact global_site_disturbs_thm. Qed.
Print Assumptions global_site_disturbs.

(* ---- the regenerated table: one lemma per component that is clean on the current tree ---- *)
Theorem sites_private_lrtdp : forallb site_private (component_sites "lrtdp") = true.
Proof. vm_compute. reflexivity. Qed.
Print Assumptions sites_private_lrtdp.

Theorem sites_private_astar : forallb site_private (component_sites "astar") = true.
Proof. vm_compute. reflexivity. Qed.
Print Assumptions sites_private_astar.

Theorem sites_private_bfs : forallb site_private (component_sites "bfs") = true.
Proof. vm_compute. reflexivity. Qed.
Print Assumptions sites_private_bfs.

Theorem sites_private_td : forallb site_private (component_sites "td") = true.
Proof. vm_compute. reflexivity. Qed.
Print Assumptions sites_private_td.

Theorem sites_private_rmax : forallb site_private (component_sites "rmax") = true.
Proof. vm_compute. reflexivity. Qed.
Print Assumptions sites_private_rmax.

Theorem sites_private_implicit : forallb site_private (component_sites "implicit") = true.
Proof. vm_compute. reflexivity. Qed.
Print Assumptions sites_private_implicit.

Theorem sites_private_mdp_rollout : forallb site_private (component_sites "mdp_rollout") = true.
Proof. vm_compute. reflexivity. Qed.
Print Assumptions sites_private_mdp_rollout.

Theorem sites_private_laostar : forallb site_private (component_sites "laostar") = true.
Proof. vm_compute. reflexivity. Qed.
Print Assumptions sites_private_laostar.

Theorem sites_private_bpi : forallb site_private (component_sites "bpi") = true.
Proof. vm_compute. reflexivity. Qed.
Print Assumptions sites_private_bpi.

Theorem sites_private_ga : forallb site_private (component_sites "ga") = true.
Proof. vm_compute. reflexivity. Qed.
Print Assumptions sites_private_ga.

Theorem sites_private_pomdp_rollout : forallb site_private (component_sites "pomdp_rollout") = true.
Proof. vm_compute. reflexivity. Qed.
Print Assumptions sites_private_pomdp_rollout.

(* semimdp has NO lemma: obj_seed derives the simulation seed from the salted hash (known finding).  Add
   sites_private_semimdp here (and to clean_today) once it holds on the regenerated table. *)

(* every one of the twelve components is seen by the extractor (the lemmas above are not vacuous) *)
Theorem sites_cover_components :
  forallb (fun c => negb (Nat.eqb (length (component_sites c)) 0)) components = true.
Proof. vm_compute. reflexivity. Qed.
Print Assumptions sites_cover_components.

Definition clean_today : list string :=
  ["lrtdp"; "astar"; "bfs"; "td"; "rmax"; "implicit"; "mdp_rollout"; "laostar"; "bpi"; "ga"; "pomdp_rollout"].

Theorem isolated_today :
  forall cname, In cname clean_today ->
  forall (c : config), hyp c ->
  forall (A : Type) (p : prog A), uses p (component_sites cname) ->
  forall w1 w2 : world, seq (w1 GPriv) (w2 GPriv) ->
    fst (run c p w1) = fst (run c p w2)
    /\ (forall g, g <> GPriv -> snd (run c p w1) g = w1 g).
Proof.
  intros cname Hin c Hc A p Hu w1 w2 Hs.
  assert (Ht : forallb site_private (component_sites cname) = true).
  { simpl in Hin.
    destruct Hin as [<-|[<-|[<-|[<-|[<-|[<-|[<-|[<-|[<-|[<-|[<-|[]]]]]]]]]]]].
    - exact sites_private_lrtdp. - exact sites_private_astar. - exact sites_private_bfs.
    - exact sites_private_td. - exact sites_private_rmax. - exact sites_private_implicit.
    - exact sites_private_mdp_rollout. - exact sites_private_laostar. - exact sites_private_bpi.
    - exact sites_private_ga. - exact sites_private_pomdp_rollout. }
  destruct (isolation_thm _ Ht c Hc A p Hu w1 w2 Hs) as (H1 & _ & H3 & _); split; assumption.
Qed.
Print Assumptions isolated_today.

(* ---- seed derivation of the semi-MDP: obj_seed = digest o hash ---- *)
Theorem obj_seed_factor :
  forall (salt : Type) (str_hash : salt -> string -> Z) (int_hash : Z -> Z) (none_hash : Z) (mix : Z -> Z -> Z)
         (digest : Z -> Z) (s1 s2 : salt) (v : pv),
    pv_hash salt str_hash int_hash none_hash mix s1 v = pv_hash salt str_hash int_hash none_hash mix s2 v ->
    obj_seed salt str_hash int_hash none_hash mix digest s1 v = obj_seed salt str_hash int_hash none_hash mix digest s2 v.
Proof. exact obj_seed_factor_thm. Qed.
Print Assumptions obj_seed_factor.

Theorem hash_stable_no_str :
  forall (salt : Type) (str_hash : salt -> string -> Z) (int_hash : Z -> Z) (none_hash : Z) (mix : Z -> Z -> Z)
         (v : pv), no_str v = true ->
  forall s1 s2 : salt,
    pv_hash salt str_hash int_hash none_hash mix s1 v = pv_hash salt str_hash int_hash none_hash mix s2 v.
Proof. exact hash_stable_no_str_thm. Qed.
Print Assumptions hash_stable_no_str.

Theorem obj_seed_stable_no_str :
  forall (salt : Type) (str_hash : salt -> string -> Z) (int_hash : Z -> Z) (none_hash : Z) (mix : Z -> Z -> Z)
         (digest : Z -> Z) (v : pv), no_str v = true ->
  forall s1 s2 : salt,
    obj_seed salt str_hash int_hash none_hash mix digest s1 v = obj_seed salt str_hash int_hash none_hash mix digest s2 v.
Proof. exact obj_seed_stable_no_str_thm. Qed.
Print Assumptions obj_seed_stable_no_str.

Theorem obj_seed_salted :
  forall (salt : Type) (str_hash : salt -> string -> Z) (int_hash : Z -> Z) (none_hash : Z) (mix : Z -> Z -> Z)
         (digest : Z -> Z) (s1 s2 : salt) (v : pv),
    digest (pv_hash salt str_hash int_hash none_hash mix s1 v) <> digest (pv_hash salt str_hash int_hash none_hash mix s2 v) ->
    obj_seed salt str_hash int_hash none_hash mix digest s1 v <> obj_seed salt str_hash int_hash none_hash mix digest s2 v.
Proof. exact obj_seed_salted_thm. Qed.
Print Assumptions obj_seed_salted.
