(* C10 — TD learners' Q-tables are exactly their update rule applied to the experience.
   model/TD.v: Q-learning, SARSA, expected SARSA (epsilon-greedy behaviour distribution, and generic: any
   distribution supplied with the step) and double Q-learning as folds of their update rule over an
   experience list; lazily initialised key set; greedy policy.  Theorems: every MDP size, EVERY experience
   list (not only ones a run can produce), every parameter setting.  mR/qR/evsR (theory/TDTransfer.v) are the
   real-valued MDP, folded table and experience denoted by the rational data the check evaluates. *)
From Coq Require Import QArith Qreals Reals List Bool.
From MSDM Require Import base.Num base.NumInst model.MDP model.VI model.TD theory.TDTheory theory.TDTransfer.
Import ListNotations.
Local Open Scope R_scope.

(* the correspondence check, as executed by vm_compute on msdm's recorded experience / returned table /
   returned policy (exact rationals of the floats), returned all-true  ==>  every experienced step is a
   real transition (valid_experience, spelled out by C10_valid_experience_spec), the returned table has the
   model's key set and equals the update rule folded over the experience up to tol (relative), and the
   returned policy is the greedy policy of the returned table up to tol *)
Theorem C10_fold_correspondence :
  forall nS nA P Rw av ab ini g q0 alpha eps L evs ikeys iq ipol tol atol,
  @c10_check Q NumQ (mk_mdp nS nA P Rw av ab ini g) q0 alpha eps L evs ikeys iq ipol tol atol = all_true6 ->
  valid_experience (mR nS nA P Rw av ab ini g) (evsR evs) = true /\
  (match L with
   | LDouble => forall s, In s (qkeys (qR nS nA P Rw av ab ini g q0 alpha eps L evs)) <-> In s ikeys
   | _ => qkeys (qR nS nA P Rw av ab ini g q0 alpha eps L evs) = ikeys end) /\
  (forall s a, In s (qkeys (qR nS nA P Rw av ab ini g q0 alpha eps L evs)) ->
               In a (acts (mR nS nA P Rw av ab ini g) s) ->
     Rabs (iqR iq s a - qval (qR nS nA P Rw av ab ini g q0 alpha eps L evs) s a)
     <= Q2R tol * (1 + Rabs (qval (qR nS nA P Rw av ab ini g q0 alpha eps L evs) s a)) + Q2R atol) /\
  (forall s a, (s < nS)%nat -> (a < nA)%nat ->
     Rabs (ipolR ipol s a - greedy_policy (mR nS nA P Rw av ab ini g) (mkQ ikeys (iqR iq)) s a)
     <= Q2R tol * (1 + Rabs (greedy_policy (mR nS nA P Rw av ab ini g) (mkQ ikeys (iqR iq)) s a))).
Proof. exact c10_main. Qed.
Print Assumptions C10_fold_correspondence.

(* executed = proved: the table vm_compute folds on Q is (Q2R-preimage of) the table of the theorems *)
Theorem C10_train_transfer :
  forall nS nA P Rw av ab ini g q0 alpha eps L evs,
  qkeys (train (mQ nS nA P Rw av ab ini g) (untab2 q0) alpha eps L evs)
    = qkeys (qR nS nA P Rw av ab ini g q0 alpha eps L evs) /\
  forall s a, Q2R (qval (train (mQ nS nA P Rw av ab ini g) (untab2 q0) alpha eps L evs) s a)
              = qval (qR nS nA P Rw av ab ini g q0 alpha eps L evs) s a.
Proof. exact train_transfer. Qed.
Print Assumptions C10_train_transfer.

Theorem C10_valid_experience_spec :
  forall (m : mdp R) evs e, valid_experience m evs = true -> In (EStep e) evs ->
  (st_s e < nS m)%nat /\ (st_ns e < nS m)%nat /\ (st_a e < nA m)%nat /\
  absflag m (st_s e) = false /\ avail m (st_s e) (st_a e) = true /\
  0 < P m (st_s e) (st_a e) (st_ns e) /\ st_r e = Rw m (st_s e) (st_a e) (st_ns e).
Proof. exact valid_experience_spec. Qed.
Print Assumptions C10_valid_experience_spec.

(* the model's own episode generator produces only valid experience, for every choice stream *)
Theorem C10_td_valid_experience :
  forall (m : mdp R) s choices, valid_experience m (run_episode m s choices) = true.
Proof. exact td_valid_experience. Qed.
Print Assumptions C10_td_valid_experience.

(* step size in [0,1], gamma in [0,1), initial Q in [q_lo,q_hi], rewards in [rmin,rmax] (and, for the generic
   expected-SARSA learner, sub-probability behaviour distributions): after ANY experience every entry of the
   table of any of the learners lies in [min(q_lo,0,rmin/(1-gamma)), max(q_hi,0,rmax/(1-gamma))] *)
Theorem C10_td_interval :
  forall (m : mdp R) q0 alpha eps L q_lo q_hi rmin rmax evs,
  0 <= alpha <= 1 -> 0 <= eps <= 1 -> 0 <= gamma m < 1 ->
  (forall s a, absflag m s = false -> q_lo <= q0 s a <= q_hi) -> Forall (ev_ok rmin rmax) evs ->
  forall s a, Ilo m q_lo rmin <= qval (train m q0 alpha eps L evs) s a <= Ihi m q_hi rmax.
Proof. exact td_interval. Qed.
Print Assumptions C10_td_interval.

Theorem C10_td_interval_double :
  forall (m : mdp R) q0 alpha q_lo q_hi rmin rmax evs,
  0 <= alpha <= 1 -> 0 <= gamma m < 1 ->
  (forall s a, absflag m s = false -> q_lo <= q0 s a <= q_hi) -> Forall (ev_ok rmin rmax) evs ->
  forall s a,
    Ilo m q_lo rmin <= qval (fst (dq_train m q0 alpha evs)) s a <= Ihi m q_hi rmax /\
    Ilo m q_lo rmin <= qval (snd (dq_train m q0 alpha evs)) s a <= Ihi m q_hi rmax.
Proof. exact td_interval_double. Qed.
Print Assumptions C10_td_interval_double.

(* entries at absorbing states stay 0 (their initial value) under valid experience *)
Theorem C10_td_absorbing_fixed :
  forall (m : mdp R) q0 alpha eps L evs, valid_experience m evs = true ->
  forall s a, absflag m s = true -> qval (train m q0 alpha eps L evs) s a = 0.
Proof. exact td_absorbing_fixed. Qed.
Print Assumptions C10_td_absorbing_fixed.

(* the published update rules, entry by entry *)
Theorem C10_q_learning_step :
  forall (m : mdp R) alpha q e s a,
  qval (ql_step m alpha q e) s a =
  if ((s =? st_s e)%nat && (a =? st_a e)%nat)%bool
  then td_update m alpha (qval q (st_s e) (st_a e)) (st_r e) (maxl (map (qval q (st_ns e)) (acts m (st_ns e))))
  else qval q s a.
Proof. exact ql_step_def. Qed.
Print Assumptions C10_q_learning_step.

Theorem C10_sarsa_step :
  forall (m : mdp R) alpha q e s a,
  qval (sarsa_step m alpha q e) s a =
  if ((s =? st_s e)%nat && (a =? st_a e)%nat)%bool
  then td_update m alpha (qval q (st_s e) (st_a e)) (st_r e) (qval q (st_ns e) (st_na e))
  else qval q s a.
Proof. exact sarsa_step_def. Qed.
Print Assumptions C10_sarsa_step.

Theorem C10_exp_sarsa_target_def :
  forall (m : mdp R) alpha eps q e,
  (forall s a, qval (esarsa_step m alpha eps q e) s a =
     if ((s =? st_s e)%nat && (a =? st_a e)%nat)%bool
     then td_update m alpha (qval q (st_s e) (st_a e)) (st_r e)
            (Rsum (map (fun b => qval q (st_ns e) b * eg_pi m eps q (st_ns e) b) (acts m (st_ns e))))
     else qval q s a) /\
  (forall b, eg_pi m eps q (st_ns e) b =
     @ndiv R NumR 1 (INR (length (acts m (st_ns e)))) * eps +
     (if is_max (q_row m q (st_ns e)) (qval q (st_ns e) b)
      then @ndiv R NumR 1 (INR (nmaxim (q_row m q (st_ns e)))) * (1 - eps) else 0)) /\
  (0 <= eps <= 1 -> forall b, 0 <= eg_pi m eps q (st_ns e) b) /\
  (acts m (st_ns e) <> [] -> Rsum (map (eg_pi m eps q (st_ns e)) (acts m (st_ns e))) = 1).
Proof. exact exp_sarsa_target_def. Qed.
Print Assumptions C10_exp_sarsa_target_def.

Theorem C10_exp_sarsa_generic_step :
  forall (m : mdp R) alpha q e s a,
  qval (esarsag_step m alpha q e) s a =
  if ((s =? st_s e)%nat && (a =? st_a e)%nat)%bool
  then td_update m alpha (qval q (st_s e) (st_a e)) (st_r e)
         (Rsum (map (fun ap => qval q (st_ns e) (fst ap) * snd ap) (st_dist e)))
  else qval q s a.
Proof. exact esarsag_step_def. Qed.
Print Assumptions C10_exp_sarsa_generic_step.

Theorem C10_double_q_mean :
  forall (m : mdp R) alpha qq e,
  (forall s a,
     qval (fst (dq_step m alpha qq e)) s a =
       (if (st_coin e && (s =? st_s e)%nat && (a =? st_a e)%nat)%bool
        then td_update m alpha (qval (fst qq) (st_s e) (st_a e)) (st_r e) (qval (snd qq) (st_ns e) (st_pick e))
        else qval (fst qq) s a) /\
     qval (snd (dq_step m alpha qq e)) s a =
       (if (negb (st_coin e) && (s =? st_s e)%nat && (a =? st_a e)%nat)%bool
        then td_update m alpha (qval (snd qq) (st_s e) (st_a e)) (st_r e) (qval (fst qq) (st_ns e) (st_pick e))
        else qval (snd qq) s a)) /\
  (forall s a, qval (dq_mean qq) s a = (qval (fst qq) s a + qval (snd qq) s a) / 2) /\
  (forall s, In s (qkeys (dq_mean qq)) <-> In s (qkeys (fst qq)) \/ In s (qkeys (snd qq))).
Proof. intros m alpha. exact (double_q_mean m (fun _ _ => 0) alpha). Qed.
Print Assumptions C10_double_q_mean.

Theorem C10_double_q_pick :
  forall (m : mdp R) qq e, dq_pick_ok m qq e = true ->
  let qsel := if st_coin e then fst qq else snd qq in
  In (st_pick e) (acts m (st_ns e)) /\
  forall b, In b (acts m (st_ns e)) -> qval qsel (st_ns e) b <= qval qsel (st_ns e) (st_pick e).
Proof. exact dq_pick_ok_spec. Qed.
Print Assumptions C10_double_q_pick.

(* lazy initialisation is observable: a step makes exactly its two states present *)
Theorem C10_step_keys :
  forall (m : mdp R) alpha eps q e x,
  (In x (qkeys (ql_step m alpha q e)) <-> In x (qkeys q) \/ x = st_s e \/ x = st_ns e) /\
  (In x (qkeys (sarsa_step m alpha q e)) <-> In x (qkeys q) \/ x = st_s e \/ x = st_ns e) /\
  (In x (qkeys (esarsa_step m alpha eps q e)) <-> In x (qkeys q) \/ x = st_s e \/ x = st_ns e).
Proof. intros m alpha eps. exact (step_keys m (fun _ _ => 0) alpha eps). Qed.
Print Assumptions C10_step_keys.

(* the greedy policy: uniform over exactly the maximal-Q actions at table states, over all available
   actions elsewhere, and a probability distribution in both cases *)
Theorem C10_td_policy :
  forall (m : mdp R) q s a,
  (In s (qkeys q) ->
     (maximal m q s a -> greedy_policy m q s a = 1 / INR (n_maximal m q s) /\ (n_maximal m q s > 0)%nat) /\
     (~ maximal m q s a -> greedy_policy m q s a = 0)) /\
  (~ In s (qkeys q) ->
     (In a (acts m s) -> greedy_policy m q s a = 1 / INR (length (acts m s))) /\
     (~ In a (acts m s) -> greedy_policy m q s a = 0)) /\
  (acts m s <> [] -> Rsum (map (greedy_policy m q s) (acts m s)) = 1).
Proof. exact td_policy. Qed.
Print Assumptions C10_td_policy.

(* non-vacuity: a concrete stochastic 3-state MDP and a three-episode experience (one episode starting in the
   absorbing state, one self-loop step) on which the check accepts for Q-learning and double Q-learning,
   the hypotheses of the interval and absorbing theorems hold (I = [-2,4]), and the fold moves the table *)
Theorem C10_nonvacuous :
  @c10_check Q NumQ exM exQ0 (1#2)%Q (1#20)%Q LQ exEvs exKeys exIQ exPol (1#1000000000000)%Q 0%Q = all_true6 /\
  @c10_check Q NumQ exM exQ0 (1#2)%Q (1#20)%Q LDouble exEvs exKeysD exIQD exPol (1#1000000000000)%Q 0%Q = all_true6 /\
  Forall (ev_ok (-1) 2) (evsR exEvs) /\
  valid_experience (mR 3 2 exP exRw exAv exAb exIni (1#2)%Q) (evsR exEvs) = true /\
  (forall L s a, -2 <= qval (qR 3 2 exP exRw exAv exAb exIni (1#2)%Q exQ0 (1#2)%Q (1#20)%Q L exEvs) s a <= 4) /\
  qval (qR 3 2 exP exRw exAv exAb exIni (1#2)%Q exQ0 (1#2)%Q (1#20)%Q LSarsa exEvs) 0%nat 0%nat = 1/4.
Proof. exact ex_nonvacuous. Qed.
Print Assumptions C10_nonvacuous.
