(* C09 — Finite-state-controller values equal the return of executing the controller.
   POMDPs and controllers are arbitrary (any numbers of states, actions, observations, nodes).
   pRr / fRr are the real-valued POMDP / controller denoted by rational arrays; c09_eval_check,
   c09_learn_check, mono_chain, bpi_node_feasible are the checkers of model/FSC.v which the check
   evaluates with vm_compute on msdm's output (exact rationals of the floats).
   fsc_return p f k n s = exact expected discounted return of the first k steps of running the
   controller from (node n, state s) under POMDPPolicy.run_on's convention (the episode ends on
   ENTERING an absorbing state; the entering step's reward is paid).
   Two clauses of the property are REFUTED for msdm's code (theorems *_refuted): the evaluator does
   not mask absorbing states, and the controller object's node-distribution update ignores that the
   sampled action is evidence about the node. *)
From Coq Require Import QArith Qreals Reals List Bool.
From MSDM Require Import base.Num base.NumInst model.FSC theory.FSCTheory theory.FSCTransfer.
Import ListNotations.
Local Open Scope R_scope.

(* ---- evaluation = return (all sizes; l1-bounded rows cover float controllers) ---- *)
Theorem fsc_eval_is_return :
  forall (p : pomdp R) (f : fsc R) kpi kom V delta M k,
  wfp p -> bfsc p f kpi kom -> pgamma p * kpi * kom < 1 -> 0 <= delta -> 0 <= M ->
  syst p f (pabs p) delta V ->
  (forall n s, (n < fN f)%nat -> (s < pS p)%nat -> Rabs (V n s) <= M) ->
  forall n s, (n < fN f)%nat -> (s < pS p)%nat ->
    Rabs (V n s - fsc_return p f k n s)
      <= delta / (1 - pgamma p * kpi * kom) + (pgamma p * kpi * kom) ^ k * M.
Proof. exact FSCTheory.fsc_eval_is_return. Qed.
Print Assumptions fsc_eval_is_return.

Theorem fsc_eval_limit :
  forall (p : pomdp R) (f : fsc R) V,
  wfp p -> wff p f -> pgamma p < 1 -> syst p f (pabs p) 0 V ->
  forall eps, 0 < eps -> exists K, forall k, (K <= k)%nat ->
  forall n s, (n < fN f)%nat -> (s < pS p)%nat -> Rabs (V n s - fsc_return p f k n s) < eps.
Proof. exact FSCTheory.fsc_eval_limit. Qed.
Print Assumptions fsc_eval_limit.

Theorem fsc_eval_unique :
  forall (p : pomdp R) (f : fsc R) msk kpi kom V1 V2,
  wfp p -> bfsc p f kpi kom -> pgamma p * kpi * kom < 1 ->
  syst p f msk 0 V1 -> syst p f msk 0 V2 ->
  forall n s, (n < fN f)%nat -> (s < pS p)%nat -> V1 n s = V2 n s.
Proof. exact FSCTheory.fsc_eval_unique. Qed.
Print Assumptions fsc_eval_unique.

(* the code's (Tmu, Cmu) form of the system is the run-semantics step, term by term *)
Theorem fsc_system_is_run_step :
  forall (p : pomdp R) (f : fsc R) msk V n s, run_step p f msk V n s = chain_backup p f msk V n s.
Proof. exact run_step_chain. Qed.
Print Assumptions fsc_system_is_run_step.

(* ---- the code's UNMASKED system vs the run: full statement refuted, side condition proved ---- *)
Theorem fsc_eval_code_vs_run_refuted :
  exists (p : pomdp R) (f : fsc R) (V : nat -> nat -> R),
    wfp p /\ wff p f /\ pgamma p < 1 /\ syst p f nomask 0 V /\
    exists n s, (n < fN f)%nat /\ (s < pS p)%nat /\
      forall k, (1 <= k)%nat -> Rabs (V n s - fsc_return p f k n s) = 1.
Proof. exact FSCTheory.fsc_eval_code_vs_run_refuted. Qed.
Print Assumptions fsc_eval_code_vs_run_refuted.

Theorem fsc_eval_code_vs_run_false : ~ fsc_eval_code_vs_run_stmt.
Proof. exact FSCTheory.fsc_eval_code_vs_run_false. Qed.
Print Assumptions fsc_eval_code_vs_run_false.

Theorem fsc_eval_code_vs_run_benign :
  forall (p : pomdp R) (f : fsc R) (V : nat -> nat -> R),
  wfp p -> wff p f -> pgamma p < 1 -> benign p -> syst p f nomask 0 V ->
  forall eps, 0 < eps -> exists K, forall k, (K <= k)%nat ->
  forall n s, (n < fN f)%nat -> (s < pS p)%nat -> Rabs (V n s - fsc_return p f k n s) < eps.
Proof. exact FSCTheory.fsc_eval_code_vs_run_benign. Qed.
Print Assumptions fsc_eval_code_vs_run_benign.

(* ---- the controller object vs the latent-node semantics ---- *)
Theorem ctrl_hist_prob_refuted :
  (exists (p : pomdp R) (f : fsc R) h, wff p f /\ hist_inr (pA p) (pO p) h /\
     hist_prob_impl f h = 1 / 4 /\ hist_prob_spec f h = 0) /\
  (exists (p : pomdp R) (f : fsc R) h, wff p f /\ hist_inr (pA p) (pO p) h /\
     (exists i0, forall n, finit f n = if Nat.eqb n i0 then 1 else 0) /\
     hist_prob_impl f h = 1 / 8 /\ hist_prob_spec f h = 1 / 4).
Proof. exact FSCTheory.ctrl_hist_prob_refuted. Qed.
Print Assumptions ctrl_hist_prob_refuted.

Theorem ctrl_hist_prob_false : ~ ctrl_hist_prob_stmt.
Proof. exact FSCTheory.ctrl_hist_prob_false. Qed.
Print Assumptions ctrl_hist_prob_false.

(* partial: nodes sharing one action row *)
Theorem ctrl_hist_prob_partial_shared :
  forall A O (f : fsc R) (q : nat -> R),
  (forall n a o, (n < fN f)%nat -> (a < A)%nat -> (o < O)%nat -> sumf (fN f) (fom f n a o) = 1) ->
  (forall n a, (n < fN f)%nat -> (a < A)%nat -> fpi f n a = q a) ->
  forall h, sumf (fN f) (finit f) = 1 -> hist_inr A O h -> hist_prob_impl f h = hist_prob_spec f h.
Proof. exact ctrl_hist_prob_shared. Qed.
Print Assumptions ctrl_hist_prob_partial_shared.

(* partial: one-hot initial node and deterministic node transitions (the node stays known) *)
Theorem ctrl_hist_prob_partial_det :
  forall A O (f : fsc R) (nx : nat -> nat -> nat -> nat) (i0 : nat),
  (i0 < fN f)%nat ->
  (forall n a o, (n < fN f)%nat -> (a < A)%nat -> (o < O)%nat -> (nx n a o < fN f)%nat) ->
  (forall n a o m, (n < fN f)%nat -> (a < A)%nat -> (o < O)%nat -> (m < fN f)%nat ->
     fom f n a o m = if Nat.eqb m (nx n a o) then 1 else 0) ->
  (forall n, (n < fN f)%nat -> finit f n = if Nat.eqb n i0 then 1 else 0) ->
  forall h, hist_inr A O h -> hist_prob_impl f h = hist_prob_spec f h.
Proof. exact ctrl_hist_prob_det. Qed.
Print Assumptions ctrl_hist_prob_partial_det.

(* partial: the first action is always drawn with the right probability *)
Theorem ctrl_hist_prob_partial_len1 :
  forall A O (f : fsc R) a o,
  (forall n a o, (n < fN f)%nat -> (a < A)%nat -> (o < O)%nat -> sumf (fN f) (fom f n a o) = 1) ->
  (a < A)%nat -> (o < O)%nat -> hist_prob_impl f [(a, o)] = hist_prob_spec f [(a, o)].
Proof. exact ctrl_hist_prob_len1. Qed.
Print Assumptions ctrl_hist_prob_partial_len1.

(* ---- bounded policy iteration: improvement steps and escape nodes ---- *)
Theorem bpi_feasible_improves :
  forall (p : pomdp R) (f f' : fsc R) msk V V' i0,
  wfp p -> pgamma p < 1 -> wff p f' -> fN f' = fN f ->
  (forall n, (n < fN f)%nat -> n <> i0 ->
     (forall a, (a < pA p)%nat -> fpi f' n a = fpi f n a) /\
     (forall a o m, (a < pA p)%nat -> (o < pO p)%nat -> (m < fN f)%nat -> fom f' n a o m = fom f n a o m)) ->
  syst p f msk 0 V -> syst p f' msk 0 V' ->
  (forall s, (s < pS p)%nat -> V i0 s <= chain_backup p f' msk V i0 s) ->
  forall n s, (n < fN f)%nat -> (s < pS p)%nat -> V n s <= V' n s.
Proof. exact FSCTheory.bpi_feasible_improves. Qed.
Print Assumptions bpi_feasible_improves.

(* the same from recorded float data: V evaluates f up to residual delta (C09_learner_result /
   certificate), the accepted row meets the constraint up to tau (C09_bpi_step_ok) *)
Theorem bpi_feasible_improves_approx :
  forall (p : pomdp R) (f f' : fsc R) msk V V' i0 delta tau,
  wfp p -> pgamma p < 1 -> wff p f' -> fN f' = fN f ->
  (forall n, (n < fN f)%nat -> n <> i0 ->
     (forall a, (a < pA p)%nat -> fpi f' n a = fpi f n a) /\
     (forall a o m, (a < pA p)%nat -> (o < pO p)%nat -> (m < fN f)%nat -> fom f' n a o m = fom f n a o m)) ->
  0 <= delta -> 0 <= tau ->
  syst p f msk delta V -> syst p f' msk 0 V' ->
  (forall s, (s < pS p)%nat -> V i0 s <= chain_backup p f' msk V i0 s + tau) ->
  forall n s, (n < fN f)%nat -> (s < pS p)%nat ->
    V n s <= V' n s + Rmax delta tau / (1 - pgamma p).
Proof. exact FSCTheory.bpi_feasible_improves_approx. Qed.
Print Assumptions bpi_feasible_improves_approx.

Theorem bpi_escape_preserves :
  forall (p : pomdp R) (f f' : fsc R) msk V V',
  wfp p -> pgamma p < 1 -> wff p f -> fN f' = Datatypes.S (fN f) ->
  (forall n, (n < fN f)%nat ->
     (forall a, (a < pA p)%nat -> fpi f' n a = fpi f n a) /\
     (forall a o, (a < pA p)%nat -> (o < pO p)%nat ->
        fom f' n a o (fN f) = 0 /\ forall m, (m < fN f)%nat -> fom f' n a o m = fom f n a o m)) ->
  syst p f msk 0 V -> syst p f' msk 0 V' ->
  forall n s, (n < fN f)%nat -> (s < pS p)%nat -> V' n s = V n s.
Proof. exact FSCTheory.bpi_escape_preserves. Qed.
Print Assumptions bpi_escape_preserves.

(* rows c_{a,o,.}/c_a of an LP point and softmax rows are probability vectors *)
Theorem bpi_valid :
  forall n (x : nat -> R), (forall i, (i < n)%nat -> 0 <= x i) -> 0 < sumf n x ->
  (forall i, (i < n)%nat -> 0 <= x i / sumf n x) /\ sumf n (fun i => x i / sumf n x) = 1.
Proof. exact normalize_valid. Qed.
Print Assumptions bpi_valid.

Theorem ga_valid :
  forall n (l : nat -> R), (0 < n)%nat ->
  (forall i, (i < n)%nat -> 0 <= exp (l i) / sumf n (fun j => exp (l j))) /\
  sumf n (fun i => exp (l i) / sumf n (fun j => exp (l j))) = 1.
Proof. exact FSCTheory.ga_valid. Qed.
Print Assumptions ga_valid.

(* ---- end to end: checker accepted msdm's output  ==>  clause over R ---- *)
Theorem C09_eval_return :
  forall nS nA nO Tl Ol Rl ab s0 g N pil oml ini V rep tol vtol M b1 b2 b3,
  c09_eval_check (pQ nS nA nO Tl Ol Rl ab s0 g) (fQ N pil oml ini) V rep tol vtol M
    = [true; true; b1; true; b2; true; b3] ->
  Q2R g < 1 -> 0 <= Q2R tol -> 0 <= Q2R M ->
  forall k n s, (n < N)%nat -> (s < nS)%nat ->
    Rabs (untab2 (map2 Q2R V) n s
          - fsc_return (pRr nS nA nO Tl Ol Rl ab s0 g) (fRr N pil oml ini) k n s)
      <= Q2R tol / (1 - Q2R g) + Q2R g ^ k * Q2R M.
Proof. exact main_eval_return. Qed.
Print Assumptions C09_eval_return.

(* ... and the k-step table printed by vm_compute IS that fsc_return *)
Theorem C09_eval_return_table :
  forall nS nA nO Tl Ol Rl ab s0 g N pil oml ini V rep tol vtol M b1 b2 b3,
  c09_eval_check (pQ nS nA nO Tl Ol Rl ab s0 g) (fQ N pil oml ini) V rep tol vtol M
    = [true; true; b1; true; b2; true; b3] ->
  Q2R g < 1 -> 0 <= Q2R tol -> 0 <= Q2R M ->
  forall k n s, (n < N)%nat -> (s < nS)%nat ->
    Rabs (untab2 (map2 Q2R V) n s
          - untab2 (map2 Q2R (ret_tab (pQ nS nA nO Tl Ol Rl ab s0 g) (fQ N pil oml ini)
                                      (pabs (pQ nS nA nO Tl Ol Rl ab s0 g)) k)) n s)
      <= Q2R tol / (1 - Q2R g) + Q2R g ^ k * Q2R M.
Proof. exact main_eval_return_table. Qed.
Print Assumptions C09_eval_return_table.

Theorem C09_eval_expected_value :
  forall nS nA nO Tl Ol Rl ab s0 g N pil oml ini V rep tol vtol M b0 b1 b2 b3 b4 b5,
  c09_eval_check (pQ nS nA nO Tl Ol Rl ab s0 g) (fQ N pil oml ini) V rep tol vtol M
    = [b0; b1; b2; b3; b4; b5; true] ->
  Rabs (Q2R rep - init_value (pRr nS nA nO Tl Ol Rl ab s0 g) (fRr N pil oml ini) (untab2 (map2 Q2R V)))
    <= Q2R vtol.
Proof. exact main_eval_value. Qed.
Print Assumptions C09_eval_expected_value.

(* learners (bpi_valid / ga_valid per run, reported_value_def): the returned controller is valid,
   the reported value is init . V . s0, and V is the exact evaluation of the RETURNED controller *)
Theorem C09_learner_result :
  forall nS nA nO Tl Ol Rl ab s0 g N pil oml ini V rep rtol kpi kom tol vtol b1 b2,
  c09_learn_check (pQ nS nA nO Tl Ol Rl ab s0 g) (fQ N pil oml ini) V rep rtol kpi kom tol vtol
    = [true; true; true; true; b1; true; b2; true] ->
  0 <= Q2R tol ->
  let p := pRr nS nA nO Tl Ol Rl ab s0 g in
  let f := fRr N pil oml ini in
  fsc_valid p f (Q2R rtol) /\
  Rabs (Q2R rep - init_value p f (untab2 (map2 Q2R V))) <= Q2R vtol /\
  (forall Vs, syst p f (pabs p) 0 Vs -> forall n s, (n < N)%nat -> (s < nS)%nat ->
     Rabs (untab2 (map2 Q2R V) n s - Vs n s) <= Q2R tol / (1 - Q2R g * Q2R kpi * Q2R kom)) /\
  (forall M k, 0 <= M ->
     (forall n s, (n < N)%nat -> (s < nS)%nat -> Rabs (untab2 (map2 Q2R V) n s) <= M) ->
     forall n s, (n < N)%nat -> (s < nS)%nat ->
     Rabs (untab2 (map2 Q2R V) n s - fsc_return p f k n s)
       <= Q2R tol / (1 - Q2R g * Q2R kpi * Q2R kom) + (Q2R g * Q2R kpi * Q2R kom) ^ k * M).
Proof. exact main_learn. Qed.
Print Assumptions C09_learner_result.

(* recorded per-iteration tables of bounded policy iteration never decrease, node by node *)
Theorem C09_bpi_monotone :
  forall (tol : Q) (S : nat) (l : list (list (list Q))),
  mono_chain tol S l = true ->
  forall i V W, nth_error l i = Some V -> nth_error l (Datatypes.S i) = Some W ->
  forall n s, (n < length V)%nat -> (s < S)%nat ->
    untab2 (map2 Q2R V) n s <= untab2 (map2 Q2R W) n s + Q2R tol.
Proof. exact main_mono. Qed.
Print Assumptions C09_bpi_monotone.

(* a recorded accepted node replacement satisfies the improvement constraint with eps >= 0 *)
Theorem C09_bpi_step_ok :
  forall nS nA nO Tl Ol Rl ab s0 g N pil oml ini (msk : list bool) (tol : Q) (V : list (list Q)) (n : nat) (eps : Q),
  bpi_node_feasible (pQ nS nA nO Tl Ol Rl ab s0 g) (fQ N pil oml ini) (fun s => nth s msk false) tol (untab2 V) n eps = true ->
  0 <= Q2R eps /\
  forall s, (s < nS)%nat -> nth s msk false = false ->
    untab2 (map2 Q2R V) n s + Q2R eps
      <= chain_backup (pRr nS nA nO Tl Ol Rl ab s0 g) (fRr N pil oml ini) (fun s => nth s msk false)
                      (untab2 (map2 Q2R V)) n s + Q2R tol.
Proof. exact main_bpi_step. Qed.
Print Assumptions C09_bpi_step_ok.

(* non-vacuity: a concrete POMDP (one paying terminal state) with a 2-node stochastic controller on
   which the checker accepts the exact masked solution and rejects the unmasked one *)
Theorem C09_nonvacuous :
  c09_eval_check (pQ 3 2 2 exT exO exR exAb exS0 (1#2)%Q) (fQ 2 exPi exOm exIni) exV exRep 0%Q 0%Q (8#1)%Q
    = [true; true; false; true; false; true; true] /\
  syst (pRr 3 2 2 exT exO exR exAb exS0 (1#2)%Q) (fRr 2 exPi exOm exIni)
       (pabs (pRr 3 2 2 exT exO exR exAb exS0 (1#2)%Q)) 0 (untab2 (map2 Q2R exV)).
Proof. exact (conj ex_check ex_syst). Qed.
Print Assumptions C09_nonvacuous.
