(* C06 — matrix, table and wrapper views of an MDP agree with its functional definition.
   Model: model/Tabular.v (mirrors msdm/core/mdp/{mdp,tabularmdp,quickmdp}.py).
   Proofs: theory/TabularTheory.v.  All statements are about every functional MDP with
   finitely many reachable states (U), every pop order (pick) and every duplicate-free
   state/action list; numbers are compared with Qeq. *)
From Coq Require Import List Arith Bool QArith Permutation Sorting.Mergesort.
From MSDM Require Import model.Tabular theory.TabularTheory.
Import ListNotations.
Local Open Scope Q_scope.

(* reachable_states(): exactly the least set that contains the positive initial support and is
   closed under non-zero-probability successors of expanded members, where expanded = initial or
   not absorbing (what the code does) *)
Theorem reachable_spec : forall m U pick fuel,
  (forall s, Reach m s -> In s U) -> enough_fuel U fuel ->
  (forall s, In s (reachable m pick None fuel) <-> Reach m s) /\
  closed_set m (expanded m) (Reach m) /\
  (forall X, closed_set m (expanded m) X -> forall s, Reach m s -> X s) /\
  (forall s, In s (init_support m) <-> exists p, In (s, p) (finit m) /\ Qpos p = true).
Proof.
  intros m U pick fuel Hfin Hfuel. split; [exact (reachable_spec_thm m U Hfin pick fuel Hfuel) |].
  split; [exact (ReachBy_closed m (expanded m)) |]. split; [exact (ReachBy_least m (expanded m)) |].
  exact (init_support_spec m).
Qed.
Print Assumptions reachable_spec.

(* the result set does not depend on the order in which the frontier set is popped *)
Theorem reachable_order_indep : forall m U pick1 pick2 fuel1 fuel2,
  (forall s, Reach m s -> In s U) -> enough_fuel U fuel1 -> enough_fuel U fuel2 ->
  forall s, In s (reachable m pick1 None fuel1) <-> In s (reachable m pick2 None fuel2).
Proof. intros m U pick1 pick2 fuel1 fuel2 Hfin. exact (reachable_order_indep_thm m U Hfin pick1 pick2 fuel1 fuel2). Qed.
Print Assumptions reachable_order_indep.

(* max_states cut-offs, every pop order: duplicate-free, contains the positive initial support,
   only reachable states, and either all of them or at least max_states of them *)
Theorem reachable_cutoff_spec : forall m U pick maxs fuel,
  (forall s, Reach m s -> In s U) -> enough_fuel U fuel ->
  let R := reachable m pick maxs fuel in
  NoDup R /\ incl (init_support m) R /\ (forall s, In s R -> Reach m s) /\
  ((forall s, Reach m s -> In s R) \/ exists k, maxs = Some k /\ (k <= length R)%nat).
Proof. intros m U pick maxs fuel Hfin. exact (reachable_cutoff_spec_thm m U Hfin pick maxs fuel). Qed.
Print Assumptions reachable_cutoff_spec.

(* the cut-off is an upper limit too: with max_states <= |positive initial support| (max_states = 0, 1, ...)
   nothing is expanded and the result is exactly the positive initial support, whatever the pop order *)
Theorem reachable_cutoff_stop : forall m pick k fuel,
  (k <= length (init_support m))%nat -> reachable m pick (Some k) fuel = init_support m.
Proof. exact reachable_cutoff_stop_thm. Qed.
Print Assumptions reachable_cutoff_stop.

(* the property's own wording (absorbing states never expanded) is refuted by an absorbing
   initial state with a successor ... *)
Theorem reachable_spec_full_refuted :
  exists m U pick fuel s,
    (forall s, Reach m s -> In s U) /\ enough_fuel U fuel /\
    In s (init_support m) /\ fabsorbing m s = true /\
    In (1%nat) (reachable m pick None fuel) /\ ~ ReachWords m (1%nat).
Proof. exact reachable_spec_full_refuted_thm. Qed.
Print Assumptions reachable_spec_full_refuted.

(* ... and holds as worded whenever absorbing initial states lead only to themselves *)
Theorem reachable_spec_full_when : forall m U pick fuel,
  (forall s, Reach m s -> In s U) -> enough_fuel U fuel ->
  (forall s e, In s (init_support m) -> fabsorbing m s = true -> In e (succs m s) ->
               Qnz (snd e) = true -> fst e = s) ->
  forall s, In s (reachable m pick None fuel) <-> ReachWords m s.
Proof. exact reachable_spec_full_when_thm. Qed.
Print Assumptions reachable_spec_full_when.

(* state list: explicit list kept; inferred list duplicate-free, a permutation of the reachable
   set, sorted when the labels are pair-wise comparable *)
Theorem state_list_nodup : forall m U cmp ord pick fuel,
  (forall s, Reach m s -> In s U) -> enough_fuel U fuel ->
  (forall l, Permutation (ord l) l) ->
  (forall l, state_list m (Some l) cmp ord pick fuel = l) /\
  let sl := state_list m None cmp ord pick fuel in
  NoDup sl /\ (forall s, In s sl <-> Reach m s) /\
  (sortable cmp (reachable m pick None fuel) = true ->
   Sorted.Sorted (fun x y => is_true (NatOrder.leb x y)) sl).
Proof.
  intros m U cmp ord pick fuel Hfin Hfuel Hord. split; [reflexivity |].
  exact (state_list_spec_thm m U cmp ord pick fuel Hfin Hfuel Hord).
Qed.
Print Assumptions state_list_nodup.

Theorem action_list_spec : forall m sl cmp ord,
  (forall l, Permutation (ord l) l) ->
  let al := action_list m sl None cmp ord in
  NoDup al /\ (forall a, In a al <-> exists s, In s sl /\ In a (factions m s)) /\
  (sortable cmp (action_set m sl) = true -> Sorted.Sorted (fun x y => is_true (NatOrder.leb x y)) al).
Proof. exact action_list_spec_thm. Qed.
Print Assumptions action_list_spec.

(* every array entry is the number the functions return; rows of unavailable actions are zero;
   rewards are stored only where the transition probability is non-zero *)
Theorem matrices_exact : forall m sl al i j k,
  NoDup sl -> NoDup al ->
  (i < length sl)%nat -> (j < length al)%nat -> (k < length sl)%nat ->
  NoDup (map fst (fnext m (nth i sl O) (nth j al O))) ->
  let s := nth i sl O in let a := nth j al O in let ns := nth k sl O in
  get3 (transition_matrix m sl al) i j k == (if mem a (factions m s) then prob (fnext m s a) ns else 0) /\
  get3 (reward_matrix m sl al) i j k ==
    (if mem a (factions m s) && Qnz (prob (fnext m s a) ns) then freward m s a ns else 0) /\
  get2 (action_matrix m sl al) i j == (if mem a (factions m s) then 1 else 0) /\
  nth i (initial_state_vec m sl) 0 = prob (finit m) s /\
  dims3 (transition_matrix m sl al) (length sl) (length al) (length sl) /\
  dims3 (reward_matrix m sl al) (length sl) (length al) (length sl) /\
  dims2 (action_matrix m sl al) (length sl) (length al).
Proof.
  intros m sl al i j k Hsl Hal Hi Hj Hk Hkeys. simpl.
  split; [exact (transition_matrix_exact m sl al Hsl Hal i j k Hi Hj Hk Hkeys) |].
  split; [exact (reward_matrix_exact m sl al Hsl Hal i j k Hi Hj Hk Hkeys) |].
  split; [exact (action_matrix_exact m sl al Hal i j Hi Hj) |].
  split; [exact (initial_state_vec_exact m sl i Hi) |].
  split; [exact (transition_matrix_dims m sl al) |].
  split; [exact (reward_matrix_dims m sl al) | exact (action_matrix_dims m sl al)].
Qed.
Print Assumptions matrices_exact.

(* absorbing_state_vec: explicit flag, or the state has an available action, each available
   action returns to it with probability 1, and no non-zero-probability transition out of it
   carries a non-zero reward (dead ends are not absorbing) *)
Theorem absorbing_vec_exact : forall m sl al i,
  NoDup sl -> NoDup al -> (forall s a, NoDup (map fst (fnext m s a))) -> (i < length sl)%nat ->
  let s := nth i sl O in
  (nth i (m_abs (to_matrices m sl al)) false = true <->
   fabsorbing m s = true \/
   ((forall j, (j < length al)%nat -> mem (nth j al O) (factions m s) = true ->
               prob (fnext m s (nth j al O)) s == 1) /\
    (exists j, (j < length al)%nat /\ mem (nth j al O) (factions m s) = true) /\
    (forall j k, (j < length al)%nat -> (k < length sl)%nat ->
                 mem (nth j al O) (factions m s) = true ->
                 Qnz (prob (fnext m s (nth j al O)) (nth k sl O)) = true ->
                 freward m s (nth j al O) (nth k sl O) == 0))).
Proof. exact TabularTheory.absorbing_vec_exact. Qed.
Print Assumptions absorbing_vec_exact.

(* from_matrices(to_matrices(m)) has the same transition, reward, action, initial-state and
   absorbing arrays, lists and discount rate *)
Theorem from_to_matrices : forall m sl al,
  NoDup sl -> NoDup al ->
  (forall s a, NoDup (map fst (fnext m s a))) ->
  (forall s a e, In e (fnext m s a) -> 0 <= snd e) ->
  (forall e, In e (finit m) -> 0 <= snd e) ->
  let M := to_matrices m sl al in
  let M' := to_matrices (from_matrices M) sl al in
  (forall i j k, (i < length sl)%nat -> (j < length al)%nat -> (k < length sl)%nat ->
     get3 (m_tf M') i j k == get3 (m_tf M) i j k /\ get3 (m_rf M') i j k == get3 (m_rf M) i j k /\
     get2 (m_am M') i j == get2 (m_am M) i j /\ nth k (m_s0 M') 0 == nth k (m_s0 M) 0 /\
     nth i (m_abs M') false = nth i (m_abs M) false) /\
  m_sl M' = m_sl M /\ m_al M' = m_al M /\ m_gamma M' = m_gamma M /\
  dims3 (m_tf M') (length sl) (length al) (length sl) /\ dims3 (m_tf M) (length sl) (length al) (length sl) /\
  dims3 (m_rf M') (length sl) (length al) (length sl) /\ dims3 (m_rf M) (length sl) (length al) (length sl) /\
  dims2 (m_am M') (length sl) (length al) /\ dims2 (m_am M) (length sl) (length al) /\
  length (m_s0 M') = length (m_s0 M).
Proof.
  intros m sl al Hsl Hal Hkeys Hnn Hin. simpl. split.
  - intros i j k Hi Hj Hk.
    split; [exact (round_trip_tf m sl al Hsl Hal Hkeys Hnn i j k Hi Hj Hk) |].
    split; [exact (round_trip_rf m sl al Hsl Hal Hkeys Hnn i j k Hi Hj Hk) |].
    split; [exact (round_trip_am m sl al Hsl Hal i j Hi Hj) |].
    split; [exact (round_trip_s0 m sl al Hsl Hin k Hk) |].
    exact (round_trip_abs m sl al Hsl Hal Hkeys Hnn i Hi).
  - exact (round_trip_rest m sl al).
Qed.
Print Assumptions from_to_matrices.

(* wrapping the five functions in the quick constructor gives the same MDP, hence the same
   arrays, lists and (C01's models being functions of the arrays only) planning results *)
Theorem quick_equiv : forall m sl al,
  quick_wrap m = Some m /\
  (forall m', quick_wrap m = Some m' -> to_matrices m' sl al = to_matrices m sl al).
Proof.
  intros m sl al. split; [exact (quick_equiv_thm m) |].
  intros m' H. rewrite (quick_equiv_thm m) in H. inversion H. reflexivity.
Qed.
Print Assumptions quick_equiv.
