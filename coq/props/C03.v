(* C03 — LAO* with an admissible heuristic returns an optimal closed policy.

   Data (all exact rationals; any sizes nS, nA): the MDP (P Rw av ab ini g), what LAOStar.plan_on
   returned (conv = converged flag, ex = states with a node, V = state_value_map, Pi = the returned
   policy queried at EVERY state, iv = initial_value), the set C the harness computed as "reachable
   from the positive initial support under Pi" with the action pol played there, a table Vstar of
   optimal values and a table Nst (expected-steps certificate), tolerances tl.
   mR / oR = the real-valued MDP / result they denote.  Hypothesis of the C03_* theorems about a
   result: the checker model/LAOStar.v:c03_check, evaluated on exactly that data (what ./check C03 does
   with vm_compute on msdm's output), returned all-true.  Hypothesis of the run theorems: the run
   checker c03_run_raw on the recorded main-loop iterations returned all-true.

   "Optimal value" = ANY fixed point Vs of the optimality operator of the MDP with absorbing states
   masked (C01_optimal_value_unique: at most one when gamma < 1; main_optimum_exists: Vstar is one).
   "Exactly evaluated return of the policy" = ANY Vpi solving the policy-evaluation equations on C
   (poleval); avg m X = sum_s init(s) * X(s). *)
From Coq Require Import QArith Qreals Reals List Bool.
From MSDM Require Import base.Num base.NumInst model.MDP model.VI model.LAOStar theory.Bellman
     theory.VITheory theory.LAOStarTheory theory.LAOStarTransfer theory.LAOStarProper.
Import ListNotations.
Local Open Scope R_scope.

(* ---- LAO* reports convergence ---- *)
Theorem C03_converged :
  forall nS nA P Rw av ab ini g conv ex V C pol Pi iv tl Vstar Nst,
  @c03_check Q NumQ (mk_mdp nS nA P Rw av ab ini g) (mk_lao conv ex V C pol Pi iv) tl Vstar Nst = all_true11 ->
  conv = true.
Proof. exact main_converged. Qed.
Print Assumptions C03_converged.

(* ---- every value held for an explored state is an upper bound on its optimal value ---- *)
Theorem C03_explored_values_upper :
  forall nS nA P Rw av ab ini g conv ex V C pol Pi iv tl Vstar Nst,
  @c03_check Q NumQ (mk_mdp nS nA P Rw av ab ini g) (mk_lao conv ex V C pol Pi iv) tl Vstar Nst = all_true11 ->
  forall Vs, Q2R g < 1 -> fixpoint (mR nS nA P Rw av ab ini g) Vs ->
  forall s, (s < nS)%nat -> nthb ex s = true ->
    Vs s - Q2R (ups tl) <= lV (oR conv ex V C pol Pi iv) s.
Proof. exact main_explored_upper. Qed.
Print Assumptions C03_explored_values_upper.

(* ---- lao_final: on the closed solution set C the held values are the optimal values AND the
        policy's own values, so the policy is optimal there (slack ups + rho/(1-gamma)) ---- *)
Theorem C03_lao_final :
  forall nS nA P Rw av ab ini g conv ex V C pol Pi iv tl Vstar Nst,
  @c03_check Q NumQ (mk_mdp nS nA P Rw av ab ini g) (mk_lao conv ex V C pol Pi iv) tl Vstar Nst = all_true11 ->
  forall Vs Vpi, Q2R g < 1 -> 0 <= Q2R (rho tl) ->
  fixpoint (mR nS nA P Rw av ab ini g) Vs ->
  poleval (mR nS nA P Rw av ab ini g) (nthb C) (nthn pol) Vpi ->
  forall s, (s < nS)%nat -> nthb C s = true ->
    Vs s - Q2R (ups tl) <= lV (oR conv ex V C pol Pi iv) s <= Vs s + Q2R (rho tl) / (1 - Q2R g) /\
    Vs s - (Q2R (ups tl) + Q2R (rho tl) / (1 - Q2R g)) <= Vpi s <= Vs s /\
    Rabs (lV (oR conv ex V C pol Pi iv) s - Vpi s) <= Q2R (rho tl) / (1 - Q2R g).
Proof. exact main_final_discounted. Qed.
Print Assumptions C03_lao_final.

(* ---- the initial value is the optimal value of the initial distribution, and so is the exactly
        evaluated return of the returned policy ---- *)
Theorem C03_initial_value_and_return :
  forall nS nA P Rw av ab ini g conv ex V C pol Pi iv tl Vstar Nst,
  @c03_check Q NumQ (mk_mdp nS nA P Rw av ab ini g) (mk_lao conv ex V C pol Pi iv) tl Vstar Nst = all_true11 ->
  forall Vs Vpi, Q2R g < 1 -> 0 <= Q2R (rho tl) -> 0 <= Q2R (ups tl) ->
  fixpoint (mR nS nA P Rw av ab ini g) Vs ->
  poleval (mR nS nA P Rw av ab ini g) (nthb C) (nthn pol) Vpi ->
  Rabs (Q2R iv - avg (mR nS nA P Rw av ab ini g) Vs)
    <= Q2R (itol tl) + (Q2R (ups tl) + Q2R (rho tl) / (1 - Q2R g)) /\
  Rabs (avg (mR nS nA P Rw av ab ini g) Vpi - avg (mR nS nA P Rw av ab ini g) Vs)
    <= Q2R (ups tl) + Q2R (rho tl) / (1 - Q2R g).
Proof. exact main_initial_discounted. Qed.
Print Assumptions C03_initial_value_and_return.

(* ---- lao_policy_total: the returned policy is defined (a point mass on an available action,
        inside the explicit graph) on every state it can itself reach from the initial states ---- *)
Theorem C03_lao_policy_total :
  forall nS nA P Rw av ab ini g conv ex V C pol Pi iv tl Vstar Nst,
  @c03_check Q NumQ (mk_mdp nS nA P Rw av ab ini g) (mk_lao conv ex V C pol Pi iv) tl Vstar Nst = all_true11 ->
  forall s, preach (mR nS nA P Rw av ab ini g) (oR conv ex V C pol Pi iv) s ->
    nthb C s = true /\ nthb ex s = true /\ (nthn pol s < nA)%nat /\
    avail (mR nS nA P Rw av ab ini g) s (nthn pol s) = true /\
    forall a, (a < nA)%nat ->
      lPi (oR conv ex V C pol Pi iv) s a = if (a =? nthn pol s)%nat then 1 else 0.
Proof. exact main_policy_total. Qed.
Print Assumptions C03_lao_policy_total.

(* ---- at EVERY state (on or off the solution graph) only available actions get probability ---- *)
Theorem C03_policy_available :
  forall nS nA P Rw av ab ini g conv ex V C pol Pi iv tl Vstar Nst,
  @c03_check Q NumQ (mk_mdp nS nA P Rw av ab ini g) (mk_lao conv ex V C pol Pi iv) tl Vstar Nst = all_true11 ->
  forall s a, (s < nS)%nat -> (a < nA)%nat -> 0 < lPi (oR conv ex V C pol Pi iv) s a ->
    avail (mR nS nA P Rw av ab ini g) s a = true.
Proof. exact main_policy_available. Qed.
Print Assumptions C03_policy_available.

(* ---- undiscounted (any gamma <= 1).  PARTIAL: (i) that the policy reaches the absorbing set with
        probability 1 on C is certified per case by the expected-steps table Nst (checked clause
        c_steps: N >= 1 + gamma * P_pol N on C) instead of being derived from properness of the MDP;
        (ii) the optimum is the certified fixed point VsR Vstar (uniqueness of the fixed point is
        proved only for gamma < 1). ---- *)
Theorem C03_lao_final_undiscounted_partial :
  forall nS nA P Rw av ab ini g conv ex V C pol Pi iv tl Vstar Nst,
  @c03_check Q NumQ (mk_mdp nS nA P Rw av ab ini g) (mk_lao conv ex V C pol Pi iv) tl Vstar Nst = all_true11 ->
  fixpoint (mR nS nA P Rw av ab ini g) (VsR Vstar) /\
  forall Vpi, 0 <= Q2R (rho tl) ->
  poleval (mR nS nA P Rw av ab ini g) (nthb C) (nthn pol) Vpi ->
  forall s, (s < nS)%nat -> nthb C s = true ->
    VsR Vstar s - Q2R (ups tl) <= lV (oR conv ex V C pol Pi iv) s
      <= VsR Vstar s + Q2R (rho tl) * NR Nst s /\
    VsR Vstar s - (Q2R (ups tl) + Q2R (rho tl) * NR Nst s) <= Vpi s <= VsR Vstar s /\
    Rabs (lV (oR conv ex V C pol Pi iv) s - Vpi s) <= Q2R (rho tl) * NR Nst s.
Proof.
  intros nS nA P Rw av ab ini g conv ex V C pol Pi iv tl Vstar Nst H. split.
  - exact (main_optimum_exists nS nA P Rw av ab ini g conv ex V C pol Pi iv tl Vstar Nst H).
  - exact (main_final_general nS nA P Rw av ab ini g conv ex V C pol Pi iv tl Vstar Nst H).
Qed.
Print Assumptions C03_lao_final_undiscounted_partial.

Theorem C03_initial_value_and_return_undiscounted_partial :
  forall nS nA P Rw av ab ini g conv ex V C pol Pi iv tl Vstar Nst,
  @c03_check Q NumQ (mk_mdp nS nA P Rw av ab ini g) (mk_lao conv ex V C pol Pi iv) tl Vstar Nst = all_true11 ->
  forall Vpi B, 0 <= Q2R (rho tl) -> 0 <= Q2R (ups tl) ->
  (forall s, (s < nS)%nat -> nthb C s = true -> NR Nst s <= B) ->
  poleval (mR nS nA P Rw av ab ini g) (nthb C) (nthn pol) Vpi ->
  Rabs (Q2R iv - avg (mR nS nA P Rw av ab ini g) (VsR Vstar))
    <= Q2R (itol tl) + (Q2R (ups tl) + Q2R (rho tl) * B) /\
  Rabs (avg (mR nS nA P Rw av ab ini g) Vpi - avg (mR nS nA P Rw av ab ini g) (VsR Vstar))
    <= Q2R (ups tl) + Q2R (rho tl) * B.
Proof. exact main_initial_general. Qed.
Print Assumptions C03_initial_value_and_return_undiscounted_partial.

(* ================================================================== *)
(* The abstract machine (all runs, any MDP, any size).  A machine state is (expanded set, V, best
   action); one transition = expand a tip x and revise a set Z; step_ok is the guard.            *)
(* ================================================================== *)

(* submdp_upper: revising Z to a greedy (within r) fixed point of the sub-MDP whose boundary values
   are upper bounds (within r/(1-gamma)) of the optimum yields upper bounds on Z; nothing else moves *)
Theorem C03_submdp_upper :
  forall (m : mdp R), wf m -> forall r, 0 <= r -> forall Vs, fixpoint m Vs -> gamma m < 1 ->
  forall st x Z st', step_ok m (masktab m) r st x Z st' = true ->
  inv_upper m r Vs st -> inv_upper m r Vs st'.
Proof. exact step_upper. Qed.
Print Assumptions C03_submdp_upper.

(* lao_inv_upper: along every run of the machine, V >= V* - r/(1-gamma) at ALL states
   (the initial state satisfies it when the heuristic is admissible); no accumulation of slack *)
Theorem C03_lao_inv_upper :
  forall (m : mdp R), wf m -> forall r, 0 <= r -> forall Vs, fixpoint m Vs -> gamma m < 1 ->
  forall st l, run_ok m (masktab m) r st l = true ->
  inv_upper m r Vs st -> inv_upper m r Vs (run_last st l).
Proof. exact run_upper. Qed.
Print Assumptions C03_lao_inv_upper.

(* lao_inv_consistent: along every run, every expanded state is policy-consistent within r
   (any discount factor): a state outside Z keeps its action and has no best-action successor in Z *)
Theorem C03_lao_inv_consistent :
  forall (m : mdp R), wf m -> forall r st l, run_ok m (masktab m) r st l = true ->
  inv_cons m r st -> inv_cons m r (run_last st l).
Proof. exact run_cons. Qed.
Print Assumptions C03_lao_inv_consistent.

(* a recorded run that conforms to the machine, started from an admissible heuristic, whose last
   snapshot is the returned result with a tip-free closed solution set C: optimal WITHOUT comparing
   the final values to the optimum (only admissibility of h refers to it) *)
Theorem C03_run_final :
  forall nS nA P Rw av ab ini g conv ex V C pol Pi iv Vstar r h l,
  @c03_run_raw Q NumQ (mk_mdp nS nA P Rw av ab ini g) (mk_lao conv ex V C pol Pi iv) Vstar r h l = all_true6 ->
  forall Vs Vpi, Q2R g < 1 -> 0 <= Q2R r ->
  fixpoint (mR nS nA P Rw av ab ini g) Vs ->
  poleval (mR nS nA P Rw av ab ini g) (nthb C) (nthn pol) Vpi ->
  (forall s, (s < nS)%nat -> nthb ex s = true ->
     Vs s - Q2R r / (1 - Q2R g) <= lV (oR conv ex V C pol Pi iv) s) /\
  (forall s, (s < nS)%nat -> nthb C s = true ->
     Vs s - Q2R r / (1 - Q2R g) <= lV (oR conv ex V C pol Pi iv) s <= Vs s + Q2R r / (1 - Q2R g) /\
     Vs s - (Q2R r / (1 - Q2R g) + Q2R r / (1 - Q2R g)) <= Vpi s <= Vs s /\
     Rabs (lV (oR conv ex V C pol Pi iv) s - Vpi s) <= Q2R r / (1 - Q2R g)).
Proof. exact main_run_final. Qed.
Print Assumptions C03_run_final.

(* ---- update_ancestors_of (mirror model/LAOStar.v:anc_loop, a stack-based search with the parent
        sets iterated in an arbitrary order pord): the collected set is exactly the closure of the
        expanded state under "valid parent" (ancestors_closure), hence does not depend on the
        iteration order of parent_states (ancestors_order_indep; also used by C13), and it satisfies
        the closure clause of the machine's guard (ancestors_guard) ---- *)
Theorem C03_ancestors_closure :
  forall (vp : nat -> nat -> bool) (parents : nat -> nat -> Prop) (pord : nat -> list nat),
  (forall n p, In p (pord n) <-> parents n p) ->
  forall fuel x A, ancestors_of pord vp fuel x = Some A -> forall s, In s A <-> anc vp parents x s.
Proof. exact ancestors_closure. Qed.
Print Assumptions C03_ancestors_closure.

Theorem C03_ancestors_order_indep :
  forall (vp : nat -> nat -> bool) (parents : nat -> nat -> Prop) pord1 pord2 fuel1 fuel2 x A1 A2,
  (forall n p, In p (pord1 n) <-> parents n p) ->
  (forall n p, In p (pord2 n) <-> parents n p) ->
  ancestors_of pord1 vp fuel1 x = Some A1 -> ancestors_of pord2 vp fuel2 x = Some A2 ->
  forall s, In s A1 <-> In s A2.
Proof. exact ancestors_order_indep. Qed.
Print Assumptions C03_ancestors_order_indep.

Theorem C03_ancestors_guard :
  forall (m : mdp R) (E : nat -> bool) (pol : nat -> nat) (vp : nat -> nat -> bool)
         (parents : nat -> nat -> Prop) (x : nat) (Z : nat -> bool),
  (forall s ns, (s < nS m)%nat -> (ns < nS m)%nat -> E s = true -> 0 < Pm m s (pol s) ns ->
                parents ns s /\ vp s ns = true) ->
  (forall s, Z s = true <-> anc vp parents x s) ->
  forall s, (s < nS m)%nat -> E s = true -> Z s = false ->
  forall ns, (ns < nS m)%nat -> 0 < Pm m s (pol s) ns -> Z ns = false.
Proof. exact ancestors_guard. Qed.
Print Assumptions C03_ancestors_guard.

(* ---- non-vacuity: on a concrete 4-state MDP with stochastic branching, an ignored paying
        self-loop at the absorbing state and an explored-but-unexpanded state, both checkers accept
        LAO*'s result / 3-iteration run, an optimum exists, and the policy-evaluation hypothesis is
        satisfiable ---- *)
Theorem C03_nonvacuous :
  @c03_check Q NumQ (mk_mdp 4 2 exP exR exAv exAb exIni (1#2)%Q)
     (mk_lao true [true; true; true; true] exV exC exPol exPi (-3#2)%Q) exT exVs exN = all_true11 /\
  @c03_run_raw Q NumQ (mk_mdp 4 2 exP exR exAv exAb exIni (1#2)%Q)
     (mk_lao true [true; true; true; true] exV exC exPol exPi (-3#2)%Q) exVs 0%Q exH exTrace = all_true6 /\
  fixpoint (mR 4 2 exP exR exAv exAb exIni (1#2)%Q) (VsR exVs) /\
  poleval (mR 4 2 exP exR exAv exAb exIni (1#2)%Q) (nthb exC) (nthn exPol)
          (Vm (mR 4 2 exP exR exAv exAb exIni (1#2)%Q)
              (lV (oR true [true; true; true; true] exV exC exPol exPi (-3#2)%Q))).
Proof. exact (conj ex_check (conj ex_run ex_hyps)). Qed.
Print Assumptions C03_nonvacuous.

(* ================================================================== *)
(* Proper MDPs, ANY discount factor gamma <= 1 (in particular the undiscounted case) at full strength.
   "Every policy reaches an absorbing state with probability 1" is expressed, as in C04_proper_optimum_unique,
   by step-count weights for ALL policies:  w >= 0  and  1 + gamma * sum_ns Pm(s,a,ns) * w ns <= w s  for every
   state and every available action (proper_cert; per case: boolean c_proper evaluated in exact rationals on
   weights the harness computes as 1 + the largest expected number of steps).  Under it the optimum is
   UNIQUE, and w is an expected-steps certificate for every policy, so neither the per-case table Nst nor
   "a certified fixed point" appears any more: Vs is ANY fixed point = THE optimal value function.
   (Not proved: that every MDP whose policies all terminate with probability 1 admits such weights.)       *)
(* ================================================================== *)

Theorem C03_proper_optimum_unique :
  forall (m : mdp R), wf m -> forall w V1 V2, proper_cert m w -> fixpoint m V1 -> fixpoint m V2 ->
  forall s, (s < nS m)%nat -> V1 s = V2 s.
Proof. exact proper_unique. Qed.
Print Assumptions C03_proper_optimum_unique.

(* the weights bound the expected number of steps of EVERY deterministic policy on EVERY closed set *)
Theorem C03_proper_policy_steps :
  forall (m : mdp R) w inC pol, proper_cert m w -> closedC m inC pol -> steps_cert m inC pol w.
Proof. exact proper_steps. Qed.
Print Assumptions C03_proper_policy_steps.

Theorem C03_proper_optimum :
  forall nS nA P Rw av ab ini g conv ex V C pol Pi iv tl Vstar W,
  @c03_proper_check Q NumQ (mk_mdp nS nA P Rw av ab ini g) (mk_lao conv ex V C pol Pi iv) tl Vstar W = all_true11 ->
  conv = true /\
  proper_cert (mR nS nA P Rw av ab ini g) (WR W) /\
  fixpoint (mR nS nA P Rw av ab ini g) (VsR Vstar) /\
  forall V1 V2, fixpoint (mR nS nA P Rw av ab ini g) V1 -> fixpoint (mR nS nA P Rw av ab ini g) V2 ->
    forall s, (s < nS)%nat -> V1 s = V2 s.
Proof.
  intros nS nA P Rw av ab ini g conv ex V C pol Pi iv tl Vstar W H. split; [|split].
  - exact (main_proper_converged nS nA P Rw av ab ini g conv ex V C pol Pi iv tl Vstar W H).
  - exact (mR_proper nS nA P Rw av ab ini g conv ex V C pol Pi iv tl Vstar W H).
  - exact (main_proper_optimum nS nA P Rw av ab ini g conv ex V C pol Pi iv tl Vstar W H).
Qed.
Print Assumptions C03_proper_optimum.

Theorem C03_explored_values_upper_proper :
  forall nS nA P Rw av ab ini g conv ex V C pol Pi iv tl Vstar W,
  @c03_proper_check Q NumQ (mk_mdp nS nA P Rw av ab ini g) (mk_lao conv ex V C pol Pi iv) tl Vstar W = all_true11 ->
  forall Vs, fixpoint (mR nS nA P Rw av ab ini g) Vs ->
  forall s, (s < nS)%nat -> nthb ex s = true ->
    Vs s - Q2R (ups tl) <= lV (oR conv ex V C pol Pi iv) s.
Proof. exact main_proper_explored_upper. Qed.
Print Assumptions C03_explored_values_upper_proper.

Theorem C03_lao_final_proper :
  forall nS nA P Rw av ab ini g conv ex V C pol Pi iv tl Vstar W,
  @c03_proper_check Q NumQ (mk_mdp nS nA P Rw av ab ini g) (mk_lao conv ex V C pol Pi iv) tl Vstar W = all_true11 ->
  forall Vs Vpi, 0 <= Q2R (rho tl) ->
  fixpoint (mR nS nA P Rw av ab ini g) Vs ->
  poleval (mR nS nA P Rw av ab ini g) (nthb C) (nthn pol) Vpi ->
  forall s, (s < nS)%nat -> nthb C s = true ->
    Vs s - Q2R (ups tl) <= lV (oR conv ex V C pol Pi iv) s <= Vs s + Q2R (rho tl) * WR W s /\
    Vs s - (Q2R (ups tl) + Q2R (rho tl) * WR W s) <= Vpi s <= Vs s /\
    Rabs (lV (oR conv ex V C pol Pi iv) s - Vpi s) <= Q2R (rho tl) * WR W s.
Proof. exact main_proper_final. Qed.
Print Assumptions C03_lao_final_proper.

Theorem C03_initial_value_and_return_proper :
  forall nS nA P Rw av ab ini g conv ex V C pol Pi iv tl Vstar W,
  @c03_proper_check Q NumQ (mk_mdp nS nA P Rw av ab ini g) (mk_lao conv ex V C pol Pi iv) tl Vstar W = all_true11 ->
  forall Vs Vpi B, 0 <= Q2R (rho tl) -> 0 <= Q2R (ups tl) ->
  (forall s, (s < nS)%nat -> nthb C s = true -> WR W s <= B) ->
  fixpoint (mR nS nA P Rw av ab ini g) Vs ->
  poleval (mR nS nA P Rw av ab ini g) (nthb C) (nthn pol) Vpi ->
  Rabs (Q2R iv - avg (mR nS nA P Rw av ab ini g) Vs)
    <= Q2R (itol tl) + (Q2R (ups tl) + Q2R (rho tl) * B) /\
  Rabs (avg (mR nS nA P Rw av ab ini g) Vpi - avg (mR nS nA P Rw av ab ini g) Vs)
    <= Q2R (ups tl) + Q2R (rho tl) * B.
Proof. exact main_proper_initial. Qed.
Print Assumptions C03_initial_value_and_return_proper.

Theorem C03_policy_total_and_available_proper :
  forall nS nA P Rw av ab ini g conv ex V C pol Pi iv tl Vstar W,
  @c03_proper_check Q NumQ (mk_mdp nS nA P Rw av ab ini g) (mk_lao conv ex V C pol Pi iv) tl Vstar W = all_true11 ->
  (forall s, preach (mR nS nA P Rw av ab ini g) (oR conv ex V C pol Pi iv) s ->
     nthb C s = true /\ nthb ex s = true /\ (nthn pol s < nA)%nat /\
     avail (mR nS nA P Rw av ab ini g) s (nthn pol s) = true /\
     forall a, (a < nA)%nat ->
       lPi (oR conv ex V C pol Pi iv) s a = if (a =? nthn pol s)%nat then 1 else 0) /\
  (forall s a, (s < nS)%nat -> (a < nA)%nat -> 0 < lPi (oR conv ex V C pol Pi iv) s a ->
     avail (mR nS nA P Rw av ab ini g) s a = true).
Proof.
  intros nS nA P Rw av ab ini g conv ex V C pol Pi iv tl Vstar W H. split.
  - exact (main_proper_policy_total nS nA P Rw av ab ini g conv ex V C pol Pi iv tl Vstar W H).
  - exact (main_proper_policy_available nS nA P Rw av ab ini g conv ex V C pol Pi iv tl Vstar W H).
Qed.
Print Assumptions C03_policy_total_and_available_proper.

(* non-vacuity, UNDISCOUNTED: the 4-state example with gamma = 1, V* = (-2,-1,-2,0), weights (3,2,2,1) *)
Theorem C03_nonvacuous_proper :
  @c03_proper_check Q NumQ (mk_mdp 4 2 exP exR exAv exAb exIni 1%Q)
     (mk_lao true [true; true; true; true] exV1 exC exPol exPi (-2)%Q) exT exVs1 exW1 = all_true11 /\
  proper_cert (mR 4 2 exP exR exAv exAb exIni 1%Q) (WR exW1) /\
  fixpoint (mR 4 2 exP exR exAv exAb exIni 1%Q) (VsR exVs1) /\
  poleval (mR 4 2 exP exR exAv exAb exIni 1%Q) (nthb exC) (nthn exPol)
          (Vm (mR 4 2 exP exR exAv exAb exIni 1%Q)
              (lV (oR true [true; true; true; true] exV1 exC exPol exPi (-2)%Q))).
Proof. exact (conj ex_proper_check ex_proper_hyps). Qed.
Print Assumptions C03_nonvacuous_proper.
