(* C17 — R-MAX stays optimistic about what it has not tried often enough.

   Model: model/RMax.v (msdm/algorithms/rmax.py: _init_training, _observe, _value_iteration,
   _create_q, _create_policy), generic in the number type.  States/actions are positions in
   mdp.state_list / mdp.action_list; an experience is the list of (s, a, r, ns) the training loop
   went through (recorded by an RMAXEventListener in the check).

   Part A (C17_model_...): theorems about the model learner [train] over R, for ALL table sizes nS, nA,
   thresholds m >= 1, discounts in [0,1), tolerances, fuel, and ALL experience lists whose indices
   are in range and whose rewards are <= rmax.  [train] returns None only when the fuel of the inner
   value-iteration loop runs out (the Python loop would still be running); the statements are about
   normal termination.
   Part B (C17_cert_...): theorems about msdm's actual output: hypothesis = the certificate checker
   c17_check, evaluated on exactly the rational data the check feeds it (recorded episodes, the
   learner's tallies, the returned Q dict and policy), returned all-true; conclusion = the clauses
   of the property over R (utol/btol/ptol are the explicit float slacks the check passes).
   Part C: the mirror run ([train] executed on rationals is the real-valued [train]; closeness of its
   final q to msdm's), and non-vacuity. *)
From Coq Require Import QArith Qreals Reals List Bool.
From MSDM Require Import base.Num base.NumInst model.RMax theory.VITransfer theory.RMaxTheory
     theory.RMaxTransfer.
Import ListNotations.
Local Open Scope R_scope.

(* ---------------- Part A: the model learner ---------------- *)

(* every entry of the Q table is at most rmax/(1-gamma) ... *)
Theorem C17_model_upper :
  forall (nS nA m : nat) (gamma rmax tol : R), (1 <= m)%nat -> 0 <= gamma -> gamma < 1 ->
  forall (fuel : nat) (exp : list (@step R)) (L : learner R),
  Forall (valid_step nS nA rmax) exp ->
  @train R NumR nS nA m gamma rmax tol fuel exp = Some L ->
  forall s a, (s < nS)%nat -> (a < nA)%nat -> qf L s a <= rmax / (1 - gamma).
Proof. exact rmax_upper. Qed.
Print Assumptions C17_model_upper.

(* ... after every step of the experience, not only at the end *)
Theorem C17_model_upper_every_step :
  forall (nS nA m : nat) (gamma rmax tol : R), (1 <= m)%nat -> 0 <= gamma -> gamma < 1 ->
  forall (fuel : nat) (exp : list (@step R)) (L : learner R),
  Forall (valid_step nS nA rmax) exp ->
  @train R NumR nS nA m gamma rmax tol fuel exp = Some L ->
  forall k, exists Lk, @train R NumR nS nA m gamma rmax tol fuel (firstn k exp) = Some Lk /\
    forall s a, (s < nS)%nat -> (a < nA)%nat -> qf Lk s a <= rmax / (1 - gamma).
Proof. exact rmax_upper_every_step. Qed.
Print Assumptions C17_model_upper_every_step.

(* a pair counted fewer than m times still holds the initial optimistic entry rmax/(1-gamma) *)
Theorem C17_model_unknown_exact :
  forall (nS nA m : nat) (gamma rmax tol : R), (1 <= m)%nat -> 0 <= gamma -> gamma < 1 ->
  forall (fuel : nat) (exp : list (@step R)) (L : learner R),
  Forall (valid_step nS nA rmax) exp ->
  @train R NumR nS nA m gamma rmax tol fuel exp = Some L ->
  forall s a, (s < nS)%nat -> (a < nA)%nat -> (cntf L s a < m)%nat ->
  qf L s a = qf (@init_learner R NumR nS nA gamma rmax) s a /\ qf L s a = rmax / (1 - gamma).
Proof. exact rmax_unknown_exact. Qed.
Print Assumptions C17_model_unknown_exact.

(* count, reward tally and transition tallies of every pair are exactly those of the FIRST
   min(#occurrences, m) samples of that pair in the experience (firstm = firstn m of the pair's samples) *)
Theorem C17_model_counts_capped :
  forall (nS nA m : nat) (gamma rmax tol : R), (1 <= m)%nat ->
  forall (fuel : nat) (exp : list (@step R)) (L : learner R),
  @train R NumR nS nA m gamma rmax tol fuel exp = Some L ->
  forall s a, (s < nS)%nat -> (a < nA)%nat ->
    cntf L s a = length (firstm m exp s a) /\
    length (firstm m exp s a) = Nat.min m (length (hits exp s a)) /\
    rwf L s a = rsum (firstm m exp s a) /\
    (forall ns, (ns < nS)%nat -> trf L s a ns = ncount (firstm m exp s a) ns).
Proof. exact rmax_counts_capped. Qed.
Print Assumptions C17_model_counts_capped.

(* on normal termination the known pairs satisfy the Bellman equation of the empirical model
   (newq = r_hat + gamma * sum_ns T_hat(ns) * max_a' q(ns,a'), r_hat/T_hat = tallies/count, which by
   the previous theorem are the first m samples) strictly within the tolerance; the successors'
   values include unknown pairs at their optimistic entry *)
Theorem C17_model_bellman_known :
  forall (nS nA m : nat) (gamma rmax tol : R), (1 <= m)%nat -> 0 <= gamma -> gamma < 1 ->
  forall (fuel : nat) (exp : list (@step R)) (L : learner R),
  Forall (valid_step nS nA rmax) exp ->
  @train R NumR nS nA m gamma rmax tol fuel exp = Some L ->
  forall s a, (s < nS)%nat -> (a < nA)%nat -> (m <= cntf L s a)%nat ->
  Rabs (qf L s a - @newq R NumR nS nA m gamma L (l_q L) s a) < tol.
Proof. exact rmax_bellman_known. Qed.
Print Assumptions C17_model_bellman_known.

(* ... hence the returned table is within tol/(1-gamma) of the optimal Q of the OPTIMISTIC empirical
   model (bopt: known pairs backed up through the empirical model, unknown pairs are self-loops paying
   rmax), i.e. of any - by the same bound with tol = 0, the only - fixed point Qs of its backup *)
Theorem C17_model_near_empirical_optimum :
  forall (nS nA m : nat) (gamma rmax tol : R), (1 <= m)%nat -> 0 <= gamma -> gamma < 1 ->
  forall (fuel : nat) (exp : list (@step R)) (L : learner R) (Qs : list (list R)),
  Forall (valid_step nS nA rmax) exp ->
  @train R NumR nS nA m gamma rmax tol fuel exp = Some L -> 0 <= tol ->
  (forall s a, (s < nS)%nat -> (a < nA)%nat ->
     untab2 Qs s a = @bopt R NumR nS nA m gamma rmax L Qs s a) ->
  forall s a, (s < nS)%nat -> (a < nA)%nat -> Rabs (qf L s a - untab2 Qs s a) <= tol / (1 - gamma).
Proof. exact rmax_near_empirical_optimum. Qed.
Print Assumptions C17_model_near_empirical_optimum.

(* the policy built from a Q table is greedy: positive exactly on the row's maximisers, uniform *)
Theorem C17_model_policy_greedy :
  forall (nA : nat) (q : list (list R)) (s a : nat), (a < nA)%nat ->
  (0 < @greedy R NumR nA q s a <-> (forall a', (a' < nA)%nat -> untab2 q s a' <= untab2 q s a)) /\
  (0 < @greedy R NumR nA q s a ->
     @greedy R NumR nA q s a = 1 / INR (countb nA (@is_max R NumR nA q s))) /\
  (~ 0 < @greedy R NumR nA q s a -> @greedy R NumR nA q s a = 0).
Proof. exact rmax_policy_greedy. Qed.
Print Assumptions C17_model_policy_greedy.

(* ---------------- Part B: msdm's output, through the certificate checker ---------------- *)

(* every experienced step is a positive-probability transition of the MDP out of a non-absorbing
   state with the MDP's reward (<= rmax); episodes start in the support of the initial distribution,
   chain, and end in an absorbing state *)
Theorem C17_cert_valid_experience :
  forall nS nA m g rmax P Rw ab ini eps O pi ut bt pt,
  @c17_check Q NumQ nS nA m g rmax P Rw ab ini eps O pi ut bt pt = all_true6 ->
  Forall (episode_ok nS nA (Q2R rmax) (map3 Q2R P) (map3 Q2R Rw) ab (map Q2R ini)) (map epQR eps).
Proof. exact main_valid. Qed.
Print Assumptions C17_cert_valid_experience.

(* the learner's tallies are those of the first min(#occurrences, m) recorded samples of each pair *)
Theorem C17_cert_tallies :
  forall nS nA m g rmax P Rw ab ini eps O pi ut bt pt, (1 <= m)%nat ->
  @c17_check Q NumQ nS nA m g rmax P Rw ab ini eps O pi ut bt pt = all_true6 ->
  tally_spec nS nA m (learnerQR O) (experience (map epQR eps)).
Proof. exact main_tally. Qed.
Print Assumptions C17_cert_tallies.

Theorem C17_cert_upper :
  forall nS nA m g rmax P Rw ab ini eps O pi ut bt pt, Q2R g < 1 ->
  @c17_check Q NumQ nS nA m g rmax P Rw ab ini eps O pi ut bt pt = all_true6 ->
  forall s a, (s < nS)%nat -> (a < nA)%nat ->
  qf (learnerQR O) s a <= Q2R rmax / (1 - Q2R g) + Q2R ut.
Proof. exact main_upper. Qed.
Print Assumptions C17_cert_upper.

Theorem C17_cert_unknown_exact :
  forall nS nA m g rmax P Rw ab ini eps O pi ut bt pt, Q2R g < 1 ->
  @c17_check Q NumQ nS nA m g rmax P Rw ab ini eps O pi ut bt pt = all_true6 ->
  forall s a, (s < nS)%nat -> (a < nA)%nat -> (cntf (learnerQR O) s a < m)%nat ->
  qf (learnerQR O) s a = Q2R rmax / (1 - Q2R g).
Proof. exact main_unknown. Qed.
Print Assumptions C17_cert_unknown_exact.

(* known pairs: F = the first m recorded samples of the pair; the returned Q-value is within bt of
   mean reward of F + gamma * mean over F of the best returned Q-value at the sampled successor *)
Theorem C17_cert_bellman_known :
  forall nS nA m g rmax P Rw ab ini eps O pi ut bt pt, (1 <= m)%nat ->
  @c17_check Q NumQ nS nA m g rmax P Rw ab ini eps O pi ut bt pt = all_true6 ->
  forall s a, (s < nS)%nat -> (a < nA)%nat -> (m <= cntf (learnerQR O) s a)%nat ->
  let F := firstm m (experience (map epQR eps)) s a in
  length F = m /\
  Rabs (qf (learnerQR O) s a -
        (rsum F / INR m
         + Q2R g * sumf nS (fun ns => INR (ncount F ns) / INR m * @vmax R NumR nA (l_q (learnerQR O)) ns)))
    <= Q2R bt.
Proof. exact main_bellman. Qed.
Print Assumptions C17_cert_bellman_known.

(* with unknown pairs treated as optimistic self-loops: distance of the returned table to the optimal
   Q of the optimistic empirical model built from msdm's tallies *)
Theorem C17_cert_near_empirical_optimum :
  forall nS nA m g rmax P Rw ab ini eps O pi ut bt pt,
  (1 <= m)%nat -> 0 <= Q2R g -> Q2R g < 1 ->
  @c17_check Q NumQ nS nA m g rmax P Rw ab ini eps O pi ut bt pt = all_true6 ->
  forall Qs : list (list R), 0 <= Q2R ut -> 0 <= Q2R bt ->
  (forall s a, (s < nS)%nat -> (a < nA)%nat ->
     untab2 Qs s a = @bopt R NumR nS nA m (Q2R g) (Q2R rmax) (learnerQR O) Qs s a) ->
  forall s a, (s < nS)%nat -> (a < nA)%nat ->
  Rabs (qf (learnerQR O) s a - untab2 Qs s a) <= Rmax (Q2R bt) (Q2R g * Q2R ut) / (1 - Q2R g).
Proof. exact main_near_optimum. Qed.
Print Assumptions C17_cert_near_empirical_optimum.

Theorem C17_cert_policy_greedy :
  forall nS nA m g rmax P Rw ab ini eps O pi ut bt pt,
  @c17_check Q NumQ nS nA m g rmax P Rw ab ini eps O pi ut bt pt = all_true6 ->
  forall s a, (s < nS)%nat -> (a < nA)%nat ->
  (0 < untab2 (map2 Q2R pi) s a <->
     (forall a', (a' < nA)%nat -> qf (learnerQR O) s a' <= qf (learnerQR O) s a)) /\
  (0 < untab2 (map2 Q2R pi) s a ->
     Rabs (untab2 (map2 Q2R pi) s a * INR (countb nA (@is_max R NumR nA (l_q (learnerQR O)) s)) - 1)
       <= Q2R pt) /\
  (~ 0 < untab2 (map2 Q2R pi) s a -> untab2 (map2 Q2R pi) s a = 0).
Proof. exact main_policy. Qed.
Print Assumptions C17_cert_policy_greedy.

(* ---------------- Part C: mirror run and non-vacuity ---------------- *)

(* what vm_compute runs on rationals is the real-valued learner of Part A *)
Theorem C17_train_transfer :
  forall nS nA m g rmax tol fuel exp,
  @train R NumR nS nA m (Q2R g) (Q2R rmax) (Q2R tol) fuel (map stepQR exp) =
  option_map learnerQR (@train Q NumQ nS nA m g rmax tol fuel exp).
Proof. exact train_transfer. Qed.
Print Assumptions C17_train_transfer.

(* the harness' mirror term computes [train] (its action-rule flag is a side output) *)
Theorem C17_train_act_fst :
  forall nS nA m g rmax tol fuel (exp : list (@step Q)),
  fst (@train_act Q NumQ nS nA m g rmax tol fuel exp) = @train Q NumQ nS nA m g rmax tol fuel exp.
Proof. exact (@train_act_fst Q NumQ). Qed.
Print Assumptions C17_train_act_fst.

(* if the mirror ends within eps of msdm's Q table Qi, then Qi is within eps of a learner state
   satisfying the whole invariant of Part A (upper bound, unknown pairs exact, Bellman residual) *)
Theorem C17_mirror_close :
  forall nS nA m g rmax tol fuel exp LQ eps Qi,
  (1 <= m)%nat -> 0 <= Q2R g -> Q2R g < 1 ->
  Forall (valid_step nS nA (Q2R rmax)) (map stepQR exp) ->
  @train Q NumQ nS nA m g rmax tol fuel exp = Some LQ ->
  @q_close Q NumQ nS nA eps (l_q LQ) Qi = true ->
  exists LR, @train R NumR nS nA m (Q2R g) (Q2R rmax) (Q2R tol) fuel (map stepQR exp) = Some LR /\
             inv nS nA m (Q2R g) (Q2R rmax) (Q2R tol) LR /\
             forall s a, (s < nS)%nat -> (a < nA)%nat ->
                         Rabs (qf LR s a - untab2 (map2 Q2R Qi) s a) <= Q2R eps.
Proof. exact mirror_close. Qed.
Print Assumptions C17_mirror_close.

(* non-vacuity: on a concrete stochastic MDP the model learner terminates with known, partially
   tried and untried pairs, its output passes the checker, and the optimistic empirical model has an
   (exactly exhibited) optimal Q table *)
Theorem C17_nonvacuous :
  @train Q NumQ 3 2 2 (1#2)%Q 1%Q exTol 100 (experience exEps) = Some exO /\
  l_cnt exO = [[2; 2]; [1; 1]; [0; 0]]%nat /\
  @c17_check Q NumQ 3 2 2 (1#2)%Q 1%Q exP exRw exAb exIni exEps exO exPi 0%Q exTol 0%Q = all_true6 /\
  (forall s a, (s < 3)%nat -> (a < 2)%nat ->
     untab2 (map2 Q2R exQs) s a =
     @bopt R NumR 3 2 2 (Q2R (1#2)) (Q2R 1) (learnerQR exO) (map2 Q2R exQs) s a).
Proof. exact ex_all. Qed.
Print Assumptions C17_nonvacuous.
