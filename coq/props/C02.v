(* C02 — Exact policy evaluation (TabularPolicy.evaluate_on) solves the Bellman expectation equations.
   Every theorem is about an arbitrary finite MDP (any nS, nA) given by rational arrays, an arbitrary
   policy table `data` over the policy's own state/action lists psl/pal (restricted and reordered to
   the MDP's lists as the code does: piQ/piR), the evaluation result (V, Qv, Oc, iv: state values,
   action values, occupancies, initial value; entries Fin x / NInf / PInf / NaN) and the hypothesis
   that the certificate checker of model/PolicyEval.v — evaluated on exactly that data, which is what
   the check does with vm_compute on msdm's output — returned all-true.  mR/piR/eoR are the
   real-valued MDP, policy and result they denote.
   "Value of the policy" = fixed point Vpi of the policy operator T^pi of the MDP with absorbing
   states masked (fixpol); C02_value_exists_unique: there is exactly one; C02_value_is_limit: it is
   the limit of the k-step expected discounted returns Vn. *)
From Coq Require Import QArith Qreals Reals List Bool Relations.
From MSDM Require Import base.Num base.NumInst model.MDP model.VI model.PolicyEval theory.Bellman
     theory.PolicyEvalTheory theory.PolicyEvalUndisc theory.PolicyEvalLimit theory.PolicyEvalTransfer theory.PolicyEvalMain
     theory.PolicyEvalExample.
Local Open Scope R_scope.

(* ===================== discounted (gamma < 1) ===================== *)
Theorem C02_value_exists_unique :
  forall nS nA P Rw av ab ini g psl pal data V Qv Oc iv tl,
  @c02_disc Q NumQ (mQ nS nA P Rw av ab ini g) (piQ psl pal data) (mk_eout V Qv Oc iv) tl = all_true 10 ->
  exists Vpi, fixpol (mR nS nA P Rw av ab ini g) (piR psl pal data) Vpi /\
    forall V', fixpol (mR nS nA P Rw av ab ini g) (piR psl pal data) V' ->
    forall s, (s < nS)%nat -> V' s = Vpi s.
Proof. exact main_value_exists_unique. Qed.
Print Assumptions C02_value_exists_unique.

(* the fixed point is the limit of the k-step expected discounted return, geometric tail *)
Theorem C02_value_is_limit :
  forall nS nA P Rw av ab ini g psl pal data V Qv Oc iv tl,
  @c02_disc Q NumQ (mQ nS nA P Rw av ab ini g) (piQ psl pal data) (mk_eout V Qv Oc iv) tl = all_true 10 ->
  forall Vpi B, fixpol (mR nS nA P Rw av ab ini g) (piR psl pal data) Vpi ->
  (forall s, (s < nS)%nat -> Rabs (Vpi s) <= B) ->
  forall k s, (s < nS)%nat ->
    Rabs (Vpi s - Vn (mR nS nA P Rw av ab ini g) (piR psl pal data) k s) <= Q2R g ^ k * B.
Proof. exact main_value_is_limit. Qed.
Print Assumptions C02_value_is_limit.

Theorem C02_value_converges :
  forall nS nA P Rw av ab ini g psl pal data V Qv Oc iv tl,
  @c02_disc Q NumQ (mQ nS nA P Rw av ab ini g) (piQ psl pal data) (mk_eout V Qv Oc iv) tl = all_true 10 ->
  forall Vpi, fixpol (mR nS nA P Rw av ab ini g) (piR psl pal data) Vpi ->
  forall eps, 0 < eps -> exists N, forall k, (N <= k)%nat -> forall s, (s < nS)%nat ->
    Rabs (Vn (mR nS nA P Rw av ab ini g) (piR psl pal data) k s - Vpi s) <= eps.
Proof. exact main_value_converges. Qed.
Print Assumptions C02_value_converges.

(* reported state values are finite and within tolV/(1-gamma) of THE value of the policy *)
Theorem C02_values :
  forall nS nA P Rw av ab ini g psl pal data V Qv Oc iv tl,
  @c02_disc Q NumQ (mQ nS nA P Rw av ab ini g) (piQ psl pal data) (mk_eout V Qv Oc iv) tl = all_true 10 ->
  forall Vpi, 0 <= Q2R (tolV tl) -> fixpol (mR nS nA P Rw av ab ini g) (piR psl pal data) Vpi ->
  forall s, (s < nS)%nat ->
    Rabs (Vf (eoR V Qv Oc iv) s - Vpi s) <= Q2R (tolV tl) / (1 - Q2R g).
Proof. exact main_values. Qed.
Print Assumptions C02_values.

Theorem C02_values_finite :
  forall nS nA P Rw av ab ini g psl pal data V Qv Oc iv tl,
  @c02_disc Q NumQ (mQ nS nA P Rw av ab ini g) (piQ psl pal data) (mk_eout V Qv Oc iv) tl = all_true 10 ->
  forall s, (s < nS)%nat -> eV (eoR V Qv Oc iv) s = Fin (Vf (eoR V Qv Oc iv) s).
Proof. exact main_values_finite. Qed.
Print Assumptions C02_values_finite.

(* the Bellman expectation system as the code writes it: V = [not absorbing](r_pi + gamma P_pi V) *)
Theorem C02_bellman_v :
  forall nS nA P Rw av ab ini g psl pal data V Qv Oc iv tl,
  @c02_disc Q NumQ (mQ nS nA P Rw av ab ini g) (piQ psl pal data) (mk_eout V Qv Oc iv) tl = all_true 10 ->
  forall s, (s < nS)%nat ->
    Rabs (Vf (eoR V Qv Oc iv) s
          - (rpi (mR nS nA P Rw av ab ini g) (piR psl pal data) s
             + Q2R g * sumf nS (fun z => Ppi (mR nS nA P Rw av ab ini g) (piR psl pal data) s z
                                         * Vf (eoR V Qv Oc iv) z))) <= Q2R (tolV tl).
Proof. exact main_bellman_v. Qed.
Print Assumptions C02_bellman_v.

Theorem C02_absorbing_zero :
  forall nS nA P Rw av ab ini g psl pal data V Qv Oc iv tl,
  @c02_disc Q NumQ (mQ nS nA P Rw av ab ini g) (piQ psl pal data) (mk_eout V Qv Oc iv) tl = all_true 10 ->
  forall s, (s < nS)%nat -> absorbing (mR nS nA P Rw av ab ini g) s = true ->
    eV (eoR V Qv Oc iv) s = Fin 0.
Proof. exact main_absorbing_zero. Qed.
Print Assumptions C02_absorbing_zero.

(* unavailable actions are worth -inf, available ones are finite *)
Theorem C02_q_pattern :
  forall nS nA P Rw av ab ini g psl pal data V Qv Oc iv tl,
  @c02_disc Q NumQ (mQ nS nA P Rw av ab ini g) (piQ psl pal data) (mk_eout V Qv Oc iv) tl = all_true 10 ->
  forall s a, (s < nS)%nat -> (a < nA)%nat ->
    (avail (mR nS nA P Rw av ab ini g) s a = false <-> eQ (eoR V Qv Oc iv) s a = NInf) /\
    (avail (mR nS nA P Rw av ab ini g) s a = true <-> exists x, eQ (eoR V Qv Oc iv) s a = Fin x).
Proof. exact main_q_pattern. Qed.
Print Assumptions C02_q_pattern.

(* Q = R + gamma P V: with the reported values, and with the true value of the policy *)
Theorem C02_q :
  forall nS nA P Rw av ab ini g psl pal data V Qv Oc iv tl,
  @c02_disc Q NumQ (mQ nS nA P Rw av ab ini g) (piQ psl pal data) (mk_eout V Qv Oc iv) tl = all_true 10 ->
  forall Vpi s a, 0 <= Q2R (tolV tl) -> fixpol (mR nS nA P Rw av ab ini g) (piR psl pal data) Vpi ->
  (s < nS)%nat -> (a < nA)%nat -> absorbing (mR nS nA P Rw av ab ini g) s = false ->
  avail (mR nS nA P Rw av ab ini g) s a = true ->
  exists x, eQ (eoR V Qv Oc iv) s a = Fin x /\
    Rabs (x - (sa_reward (mR nS nA P Rw av ab ini g) s a
               + Q2R g * sumf nS (fun ns => MDP.P (mR nS nA P Rw av ab ini g) s a ns * Vf (eoR V Qv Oc iv) ns)))
      <= Q2R (tolQ tl) /\
    Rabs (x - (sa_reward (mR nS nA P Rw av ab ini g) s a
               + Q2R g * sumf nS (fun ns => MDP.P (mR nS nA P Rw av ab ini g) s a ns * Vpi ns)))
      <= Q2R (tolQ tl) + Q2R g * (Q2R (tolV tl) / (1 - Q2R g)).
Proof. exact main_q. Qed.
Print Assumptions C02_q.

(* occupancy: occ = init + gamma occ . P_pi *)
Theorem C02_occupancy_eq :
  forall nS nA P Rw av ab ini g psl pal data V Qv Oc iv tl,
  @c02_disc Q NumQ (mQ nS nA P Rw av ab ini g) (piQ psl pal data) (mk_eout V Qv Oc iv) tl = all_true 10 ->
  forall z, (z < nS)%nat ->
    Rabs (Of (eoR V Qv Oc iv) z
          - (init (mR nS nA P Rw av ab ini g) z
             + Q2R g * sumf nS (fun s => Of (eoR V Qv Oc iv) s
                                         * Ppi (mR nS nA P Rw av ab ini g) (piR psl pal data) s z)))
      <= Q2R (tolO tl).
Proof. exact main_occupancy_eq. Qed.
Print Assumptions C02_occupancy_eq.

(* ... hence L1-close to THE solution of the occupancy system, which is unique ... *)
Theorem C02_occupancy :
  forall nS nA P Rw av ab ini g psl pal data V Qv Oc iv tl,
  @c02_disc Q NumQ (mQ nS nA P Rw av ab ini g) (piQ psl pal data) (mk_eout V Qv Oc iv) tl = all_true 10 ->
  forall y, occfix (mR nS nA P Rw av ab ini g) (piR psl pal data) y ->
    l1 (mR nS nA P Rw av ab ini g) (fun z => Of (eoR V Qv Oc iv) z - y z)
      <= INR nS * Q2R (tolO tl) / (1 - Q2R g).
Proof. exact main_occupancy. Qed.
Print Assumptions C02_occupancy.

Theorem C02_occupancy_unique :
  forall nS nA P Rw av ab ini g psl pal data V Qv Oc iv tl,
  @c02_disc Q NumQ (mQ nS nA P Rw av ab ini g) (piQ psl pal data) (mk_eout V Qv Oc iv) tl = all_true 10 ->
  forall y1 y2, occfix (mR nS nA P Rw av ab ini g) (piR psl pal data) y1 ->
  occfix (mR nS nA P Rw av ab ini g) (piR psl pal data) y2 ->
  forall z, (z < nS)%nat -> y1 z = y2 z.
Proof. exact main_occupancy_unique. Qed.
Print Assumptions C02_occupancy_unique.

(* ... and which is the discounted visitation series sum_t gamma^t Pr_pi(s_t = z) *)
Theorem C02_occupancy_series :
  forall nS nA P Rw av ab ini g psl pal data V Qv Oc iv tl,
  @c02_disc Q NumQ (mQ nS nA P Rw av ab ini g) (piQ psl pal data) (mk_eout V Qv Oc iv) tl = all_true 10 ->
  forall y K, occfix (mR nS nA P Rw av ab ini g) (piR psl pal data) y ->
    l1 (mR nS nA P Rw av ab ini g)
       (fun z => y z - sumf K (fun t => Q2R g ^ t * dist (mR nS nA P Rw av ab ini g) (piR psl pal data) t z))
      <= Q2R g ^ K * l1 (mR nS nA P Rw av ab ini g) y.
Proof. exact main_occupancy_series. Qed.
Print Assumptions C02_occupancy_series.

(* initial value = init . V = occ . r_pi *)
Theorem C02_initial_value :
  forall nS nA P Rw av ab ini g psl pal data V Qv Oc iv tl,
  @c02_disc Q NumQ (mQ nS nA P Rw av ab ini g) (piQ psl pal data) (mk_eout V Qv Oc iv) tl = all_true 10 ->
  Rabs (fin0 (eInit (eoR V Qv Oc iv))
        - sumf nS (fun s => init (mR nS nA P Rw av ab ini g) s * Vf (eoR V Qv Oc iv) s)) <= Q2R (tolI tl) /\
  Rabs (fin0 (eInit (eoR V Qv Oc iv))
        - sumf nS (fun s => Of (eoR V Qv Oc iv) s * rpi (mR nS nA P Rw av ab ini g) (piR psl pal data) s))
    <= Q2R (tolJ tl).
Proof. exact main_initial_value. Qed.
Print Assumptions C02_initial_value.

Theorem C02_initial_value_true :
  forall nS nA P Rw av ab ini g psl pal data V Qv Oc iv tl,
  @c02_disc Q NumQ (mQ nS nA P Rw av ab ini g) (piQ psl pal data) (mk_eout V Qv Oc iv) tl = all_true 10 ->
  forall Vpi, 0 <= Q2R (tolV tl) -> fixpol (mR nS nA P Rw av ab ini g) (piR psl pal data) Vpi ->
  Rabs (fin0 (eInit (eoR V Qv Oc iv)) - sumf nS (fun s => init (mR nS nA P Rw av ab ini g) s * Vpi s))
    <= Q2R (tolI tl) + Q2R (tolV tl) / (1 - Q2R g).
Proof. exact main_initial_value_true. Qed.
Print Assumptions C02_initial_value_true.

Theorem C02_initial_value_duality :
  forall nS nA P Rw av ab ini g psl pal data V Qv Oc iv tl,
  @c02_disc Q NumQ (mQ nS nA P Rw av ab ini g) (piQ psl pal data) (mk_eout V Qv Oc iv) tl = all_true 10 ->
  forall Vpi y, fixpol (mR nS nA P Rw av ab ini g) (piR psl pal data) Vpi ->
  occfix (mR nS nA P Rw av ab ini g) (piR psl pal data) y ->
  sumf nS (fun s => init (mR nS nA P Rw av ab ini g) s * Vpi s)
  = sumf nS (fun s => y s * rpi (mR nS nA P Rw av ab ini g) (piR psl pal data) s).
Proof. exact main_initial_value_duality. Qed.
Print Assumptions C02_initial_value_duality.

(* certificate form, for any wf MDP and policy (no checker involved) *)
Theorem C02_residual_bound_pol :
  forall (m : mdp R) pi V Vpi delta,
  wf m -> wfpol m pi -> gamma m < 1 -> fixpol m pi Vpi -> 0 <= delta ->
  (forall s, (s < nS m)%nat -> Rabs (V s - Tpol m pi V s) <= delta) ->
  forall s, (s < nS m)%nat -> Rabs (V s - Vpi s) <= delta / (1 - gamma m).
Proof. exact residual_bound_pol. Qed.
Print Assumptions C02_residual_bound_pol.

(* ===================== undiscounted (gamma = 1), rewards <= 0 ===================== *)
(* the Warshall closure of the model is reflexive-transitive reachability, for every n *)
Theorem C02_warshall_correct :
  forall n (E : nat -> nat -> bool) i j, (i < n)%nat -> (j < n)%nat ->
  (bget (closure n E) i j = true <-> clos_refl_trans nat (step n E) i j).
Proof. exact warshall_correct. Qed.
Print Assumptions C02_warshall_correct.

(* a state's value is -inf EXACTLY when the policy can reach from it a closed non-absorbing class
   containing a state of negative expected reward (sound and complete) *)
Theorem C02_undisc_neginf :
  forall nS nA P Rw av ab ini g psl pal data V Qv Oc iv tl,
  @c02_undisc Q NumQ (mQ nS nA P Rw av ab ini g) (piQ psl pal data) (mk_eout V Qv Oc iv) tl = all_true 11 ->
  forall s, (s < nS)%nat ->
    (eV (eoR V Qv Oc iv) s = NInf <->
     exists j, clos_refl_trans nat (step nS (edge (mR nS nA P Rw av ab ini g) (piR psl pal data))) s j /\
               closed_class (mR nS nA P Rw av ab ini g) (piR psl pal data) j /\
               rpi (mR nS nA P Rw av ab ini g) (piR psl pal data) j < 0).
Proof. exact main_undisc_neginf. Qed.
Print Assumptions C02_undisc_neginf.

Theorem C02_closed_class_is_closed :
  forall (m : mdp R) pi j k, closed_class m pi j -> preach m pi j k ->
  closed_class m pi k /\ absorbing m k = false /\ preach m pi k j.
Proof. exact closed_class_is_closed. Qed.
Print Assumptions C02_closed_class_is_closed.

(* otherwise the value is finite, solves the transient system (residual <= tolV), and so do all its
   successors *)
Theorem C02_undisc_finite :
  forall nS nA P Rw av ab ini g psl pal data V Qv Oc iv tl,
  @c02_undisc Q NumQ (mQ nS nA P Rw av ab ini g) (piQ psl pal data) (mk_eout V Qv Oc iv) tl = all_true 11 ->
  forall s, (s < nS)%nat -> ~ reaches_negative_class (mR nS nA P Rw av ab ini g) (piR psl pal data) s ->
  exists v, eV (eoR V Qv Oc iv) s = Fin v /\
    Rabs (v - (rpi (mR nS nA P Rw av ab ini g) (piR psl pal data) s
               + sumf nS (fun z => Pt (mR nS nA P Rw av ab ini g) (piR psl pal data)
                                      (accM (mR nS nA P Rw av ab ini g) (piR psl pal data)) s z
                                   * Vf (eoR V Qv Oc iv) z))) <= Q2R (tolV tl) /\
    forall z, (z < nS)%nat -> 0 < Ppi (mR nS nA P Rw av ab ini g) (piR psl pal data) s z ->
      exists w, eV (eoR V Qv Oc iv) z = Fin w.
Proof. exact main_undisc_finite. Qed.
Print Assumptions C02_undisc_finite.

(* what the two cases MEAN, in terms of the k-step expected total reward Vnu of the policy
   (Vnu 0 = 0, Vnu (k+1) s = r_pi s + sum_z P_pi s z * Vnu k z; absorbing states stop the process):
   where -inf is reported, Vnu k s -> -inf ... *)
Theorem C02_undisc_kstep_diverges :
  forall nS nA P Rw av ab ini g psl pal data V Qv Oc iv tl,
  @c02_undisc Q NumQ (mQ nS nA P Rw av ab ini g) (piQ psl pal data) (mk_eout V Qv Oc iv) tl = all_true 11 ->
  forall s, (s < nS)%nat -> eV (eoR V Qv Oc iv) s = NInf ->
  forall M, exists K, forall k, (K <= k)%nat ->
    Vnu (mR nS nA P Rw av ab ini g) (piR psl pal data) k s < - M.
Proof. exact main_undisc_kstep_diverges. Qed.
Print Assumptions C02_undisc_kstep_diverges.

(* ... elsewhere Vnu k s converges to (any, hence the) solution of the transient system ... *)
Theorem C02_undisc_kstep_converges :
  forall nS nA P Rw av ab ini g psl pal data V Qv Oc iv tl,
  @c02_undisc Q NumQ (mQ nS nA P Rw av ab ini g) (piQ psl pal data) (mk_eout V Qv Oc iv) tl = all_true 11 ->
  forall W : nat -> R,
  (forall s, (s < nS)%nat ->
     neginf (mR nS nA P Rw av ab ini g) (piR psl pal data) (accM (mR nS nA P Rw av ab ini g) (piR psl pal data)) s = false ->
     W s = rpi (mR nS nA P Rw av ab ini g) (piR psl pal data) s
           + sumf nS (fun z => Pt (mR nS nA P Rw av ab ini g) (piR psl pal data)
                                  (accM (mR nS nA P Rw av ab ini g) (piR psl pal data)) s z * W z)) ->
  forall s, (s < nS)%nat -> ~ reaches_negative_class (mR nS nA P Rw av ab ini g) (piR psl pal data) s ->
    Un_cv (fun k => Vnu (mR nS nA P Rw av ab ini g) (piR psl pal data) k s) (W s).
Proof. exact main_undisc_kstep_converges. Qed.
Print Assumptions C02_undisc_kstep_converges.

(* ... and, given the absorption-time certificate tau (tau >= 1 + P_t tau off the -inf set; produced by
   the harness' exact solve and checked by c02_tau in the same vm_compute run), that limit W exists and
   the reported finite values are within tolV * tau of it: "the finite expected total reward" *)
Theorem C02_undisc_expected_total_reward :
  forall nS nA P Rw av ab ini g psl pal data V Qv Oc iv tl,
  @c02_undisc Q NumQ (mQ nS nA P Rw av ab ini g) (piQ psl pal data) (mk_eout V Qv Oc iv) tl = all_true 11 ->
  forall tau : list Q,
  @c02_tau Q NumQ (mQ nS nA P Rw av ab ini g) (piQ psl pal data) tau = true -> 0 <= Q2R (tolV tl) ->
  exists W : nat -> R,
    (forall s, (s < nS)%nat -> ~ reaches_negative_class (mR nS nA P Rw av ab ini g) (piR psl pal data) s ->
       Un_cv (fun k => Vnu (mR nS nA P Rw av ab ini g) (piR psl pal data) k s) (W s)) /\
    (forall s, (s < nS)%nat -> ~ reaches_negative_class (mR nS nA P Rw av ab ini g) (piR psl pal data) s ->
       exists v, eV (eoR V Qv Oc iv) s = Fin v /\
                 Rabs (v - W s) <= Q2R (tolV tl) * Q2R (untab tau s)).
Proof. exact main_undisc_expected_total_reward. Qed.
Print Assumptions C02_undisc_expected_total_reward.

Theorem C02_undisc_absorbing_zero :
  forall nS nA P Rw av ab ini g psl pal data V Qv Oc iv tl,
  @c02_undisc Q NumQ (mQ nS nA P Rw av ab ini g) (piQ psl pal data) (mk_eout V Qv Oc iv) tl = all_true 11 ->
  forall s, (s < nS)%nat -> absorbing (mR nS nA P Rw av ab ini g) s = true -> eV (eoR V Qv Oc iv) s = Fin 0.
Proof. exact main_undisc_absorbing_zero. Qed.
Print Assumptions C02_undisc_absorbing_zero.

(* action values: -inf iff unavailable or a positive-probability successor is worth -inf (the
   nan -> 0 convention); otherwise reward + expected successor value *)
Theorem C02_undisc_q :
  forall nS nA P Rw av ab ini g psl pal data V Qv Oc iv tl,
  @c02_undisc Q NumQ (mQ nS nA P Rw av ab ini g) (piQ psl pal data) (mk_eout V Qv Oc iv) tl = all_true 11 ->
  forall s a, (s < nS)%nat -> (a < nA)%nat -> absorbing (mR nS nA P Rw av ab ini g) s = false ->
  (eQ (eoR V Qv Oc iv) s a = NInf <->
     avail (mR nS nA P Rw av ab ini g) s a = false \/
     exists ns, (ns < nS)%nat /\ 0 < MDP.P (mR nS nA P Rw av ab ini g) s a ns /\ eV (eoR V Qv Oc iv) ns = NInf) /\
  (forall x, eQ (eoR V Qv Oc iv) s a = Fin x ->
     Rabs (x - (sa_reward (mR nS nA P Rw av ab ini g) s a
                + sumf nS (fun ns => MDP.P (mR nS nA P Rw av ab ini g) s a ns * Vf (eoR V Qv Oc iv) ns)))
       <= Q2R (tolQ tl)) /\
  (eQ (eoR V Qv Oc iv) s a = NInf \/ exists x, eQ (eoR V Qv Oc iv) s a = Fin x).
Proof. exact main_undisc_q. Qed.
Print Assumptions C02_undisc_q.

Theorem C02_undisc_q_unavailable :
  forall nS nA P Rw av ab ini g psl pal data V Qv Oc iv tl,
  @c02_undisc Q NumQ (mQ nS nA P Rw av ab ini g) (piQ psl pal data) (mk_eout V Qv Oc iv) tl = all_true 11 ->
  forall s a, (s < nS)%nat -> (a < nA)%nat -> avail (mR nS nA P Rw av ab ini g) s a = false ->
    eQ (eoR V Qv Oc iv) s a = NInf.
Proof. exact main_undisc_q_unavailable. Qed.
Print Assumptions C02_undisc_q_unavailable.

(* occupancy: +inf exactly at the closed classes the initial distribution can reach; elsewhere the
   expected-visits system *)
Theorem C02_undisc_occupancy :
  forall nS nA P Rw av ab ini g psl pal data V Qv Oc iv tl,
  @c02_undisc Q NumQ (mQ nS nA P Rw av ab ini g) (piQ psl pal data) (mk_eout V Qv Oc iv) tl = all_true 11 ->
  forall z, (z < nS)%nat ->
  (eOcc (eoR V Qv Oc iv) z = PInf <->
     closed_class (mR nS nA P Rw av ab ini g) (piR psl pal data) z /\
     exists s, (s < nS)%nat /\ 0 < init (mR nS nA P Rw av ab ini g) s /\
               preach (mR nS nA P Rw av ab ini g) (piR psl pal data) s z) /\
  (eOcc (eoR V Qv Oc iv) z = PInf \/
   exists x, eOcc (eoR V Qv Oc iv) z = Fin x /\
     Rabs (x - (init (mR nS nA P Rw av ab ini g) z
                + sumf nS (fun s => Of (eoR V Qv Oc iv) s
                                    * Pt (mR nS nA P Rw av ab ini g) (piR psl pal data)
                                         (accM (mR nS nA P Rw av ab ini g) (piR psl pal data)) s z)))
       <= Q2R (tolO tl)).
Proof. exact main_undisc_occupancy. Qed.
Print Assumptions C02_undisc_occupancy.

Theorem C02_undisc_initial_value :
  forall nS nA P Rw av ab ini g psl pal data V Qv Oc iv tl,
  @c02_undisc Q NumQ (mQ nS nA P Rw av ab ini g) (piQ psl pal data) (mk_eout V Qv Oc iv) tl = all_true 11 ->
  (eInit (eoR V Qv Oc iv) = NInf <->
     exists s, (s < nS)%nat /\ 0 < init (mR nS nA P Rw av ab ini g) s /\ eV (eoR V Qv Oc iv) s = NInf) /\
  (eInit (eoR V Qv Oc iv) = NInf \/
   exists x, eInit (eoR V Qv Oc iv) = Fin x /\
     Rabs (x - sumf nS (fun s => init (mR nS nA P Rw av ab ini g) s * Vf (eoR V Qv Oc iv) s)) <= Q2R (tolI tl) /\
     Rabs (x - sumf nS (fun s => Of (eoR V Qv Oc iv) s * rpi (mR nS nA P Rw av ab ini g) (piR psl pal data) s))
       <= Q2R (tolJ tl)).
Proof. exact main_undisc_initial_value. Qed.
Print Assumptions C02_undisc_initial_value.

(* ===================== non-vacuity ===================== *)
Theorem C02_nonvacuous_disc :
  @c02_disc Q NumQ (mQ 3 2 dP dR dAv dAb dIni (1#2)%Q) (piQ dPsl dPal dData)
            (mk_eout dV dQ dOc (Fin (4#3)%Q)) dT = all_true 10 /\
  fixpol (mR 3 2 dP dR dAv dAb dIni (1#2)%Q) (piR dPsl dPal dData) (untab (map Q2R dVpi)) /\
  occfix (mR 3 2 dP dR dAv dAb dIni (1#2)%Q) (piR dPsl dPal dData) (untab (map Q2R dOcc)).
Proof. exact (conj ex_disc_check (conj ex_disc_fix ex_disc_occfix)). Qed.
Print Assumptions C02_nonvacuous_disc.

Theorem C02_nonvacuous_undisc :
  @c02_undisc Q NumQ (mQ 5 2 uP uR uAv uAb uIni 1%Q) (piQ uPsl uPal uData)
              (mk_eout uV uQ uOc NInf) dT = all_true 11 /\
  reaches_negative_class (mR 5 2 uP uR uAv uAb uIni 1%Q) (piR uPsl uPal uData) 0 /\
  ~ reaches_negative_class (mR 5 2 uP uR uAv uAb uIni 1%Q) (piR uPsl uPal uData) 4 /\
  @c02_tau Q NumQ (mQ 5 2 uP uR uAv uAb uIni 1%Q) (piQ uPsl uPal uData) uTau = true.
Proof. exact (conj ex_undisc_check (conj ex_undisc_neginf (conj ex_undisc_finite ex_undisc_tau))). Qed.
Print Assumptions C02_nonvacuous_undisc.
