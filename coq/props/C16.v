(* C16 — Multichain policy iteration, when it reports convergence, is gain/value optimal.

   Certificate style (model/Multichain.v): the minimum-norm solve, row selection and recurrent-class
   detection are not mirrored; what is verified is the CLAIM made by a converged result
   (state_gain g, state_value h, policy pi, initial_gain, initial_value).  Every theorem is about an
   arbitrary finite MDP (any nS, nA) without action-less states given by rational arrays, and the
   hypothesis that the checker -- evaluated by vm_compute on exactly the rationals of msdm's floats,
   which is what ./check C16 does on every run -- returned all-true.  mR / ocR are the real-valued
   MDP and result those rationals denote (parametricity transfer, theory/MultichainTransfer.v).

   Dynamics: absorbing states are terminal (their rows/rewards are zeroed), nothing else is masked.

   Undiscounted (gamma = 1).  "Long-run average reward" is made explicit through the T-step expected
   total reward  Jn m pol T hist s  of an arbitrary HISTORY-DEPENDENT RANDOMISED policy pol
   (model/Multichain.v), for every horizon T:
     C16_gain_upper_bound :   Jn <= T*(gain s + slack) + W     for EVERY policy         (optimal)
     C16_gain_attained    :   Jn >= T*(gain s - slack) - W     for the returned policy evaluated exactly
                              (uniform on the support of the returned matrix)           (attained)
     C16_gain_attained_by_every_supported_policy : the same for EVERY policy inside the returned
                              support, under the extra per-action certificate c16_tight_check
   with W independent of T and of the policy; C16_gain_optimal is the limit form (averages).
   slack = |state_gain - g'| tolerance + certificate slack (both ~1e-8, the code works at 10
   decimals); with slack 0 the statement is exact optimality of the gain.
   The certificate (g', w, h') is supplied by the harness: (g', h') = exact gain and bias of the
   returned policy (exact linear algebra), w = h + M*g'; its origin is irrelevant to soundness.
   Proof: induction on T from LP dual feasibility; no ergodic theory.

   Discounted (gamma < 1).  "Optimal value" = any fixed point Vs of the optimality operator
   (at most one: C16_optimal_value_unique).

   Not claimed (not part of the property): bias-optimality of state_value when gamma = 1. *)
From Coq Require Import QArith Qreals Reals List Bool.
From MSDM Require Import base.Num base.NumInst model.MDP model.VI model.Multichain theory.Bellman
     theory.VITheory theory.VITransfer theory.VIMain theory.VIExample theory.MultichainTheory
     theory.MultichainTransfer.
Import ListNotations.
Local Open Scope R_scope.

(* ---------- the two mathematical cores, for any real-valued finite MDP ---------- *)
Theorem C16_dual_certificate_upper :
  forall (m : mdp R) g w d pol,
  wfa m -> wfh m pol -> 0 <= d -> gain_cert m g w d = true ->
  forall T hist s, (s < nS m)%nat ->
    Jn m pol T hist s <= INR T * (g s + d) + w s - En m pol T w hist s.
Proof. exact gain_upper. Qed.
Print Assumptions C16_dual_certificate_upper.

Theorem C16_tight_policy_lower :
  forall (m : mdp R) pi g h d pol,
  wfa m -> wfh m pol -> supported m pol pi -> 0 <= d -> gain_attained_cert m pi g h d = true ->
  forall T hist s, (s < nS m)%nat ->
    INR T * (g s - d) + h s - En m pol T h hist s <= Jn m pol T hist s.
Proof. exact gain_attained. Qed.
Print Assumptions C16_tight_policy_lower.

(* ---------- undiscounted: the reported gain is the optimal long-run average ---------- *)
Theorem C16_gain_upper_bound :
  forall nS nA P Rw av ab ini gm g h Pi ig iv g' w h' dup dlo gt pt it,
  @c16_gain_check Q NumQ (mk_mdp nS nA P Rw av ab ini gm) (mk_mc g h Pi ig iv)
                  (mk_gc g' w h' dup dlo gt pt it) = gain_all_true ->
  0 <= Q2R dup -> 0 <= Q2R gt ->
  exists W, 0 <= W /\
    forall pol, wfh (mR nS nA P Rw av ab ini gm) pol -> forall T hist s, (s < nS)%nat ->
      Jn (mR nS nA P Rw av ab ini gm) pol T hist s
        <= INR T * (og (ocR g h Pi ig iv) s + (Q2R gt + Q2R dup)) + W.
Proof. exact main_gain_upper. Qed.
Print Assumptions C16_gain_upper_bound.

Theorem C16_gain_attained :
  forall nS nA P Rw av ab ini gm g h Pi ig iv g' w h' dup dlo gt pt it,
  @c16_gain_check Q NumQ (mk_mdp nS nA P Rw av ab ini gm) (mk_mc g h Pi ig iv)
                  (mk_gc g' w h' dup dlo gt pt it) = gain_all_true ->
  0 <= Q2R dlo -> 0 <= Q2R gt ->
  exists W, 0 <= W /\
    forall T hist s, (s < nS)%nat ->
      INR T * (og (ocR g h Pi ig iv) s - (Q2R gt + Q2R dlo)) - W
        <= Jn (mR nS nA P Rw av ab ini gm)
              (stationary (upol (mR nS nA P Rw av ab ini gm) (ocR g h Pi ig iv))) T hist s.
Proof. exact main_gain_attained. Qed.
Print Assumptions C16_gain_attained.

(* stronger, under the additional (evaluated, non-gating) per-action certificate: every
   history-dependent policy that stays inside the returned support attains the gain *)
Theorem C16_gain_attained_by_every_supported_policy :
  forall nS nA P Rw av ab ini gm g h Pi ig iv g' w h' dup dlo gt pt it,
  @c16_gain_check Q NumQ (mk_mdp nS nA P Rw av ab ini gm) (mk_mc g h Pi ig iv)
                  (mk_gc g' w h' dup dlo gt pt it) = gain_all_true ->
  forall d,
  @c16_tight_check Q NumQ (mk_mdp nS nA P Rw av ab ini gm) (mk_mc g h Pi ig iv)
                   (mk_gc g' w h' dup dlo gt pt it) d = true ->
  0 <= Q2R d -> 0 <= Q2R gt ->
  exists W, 0 <= W /\
    forall pol, wfh (mR nS nA P Rw av ab ini gm) pol ->
      supported (mR nS nA P Rw av ab ini gm) pol (opi (ocR g h Pi ig iv)) ->
      forall T hist s, (s < nS)%nat ->
        INR T * (og (ocR g h Pi ig iv) s - (Q2R gt + Q2R d)) - W
          <= Jn (mR nS nA P Rw av ab ini gm) pol T hist s.
Proof. exact main_gain_attained_support. Qed.
Print Assumptions C16_gain_attained_by_every_supported_policy.

(* limit form: the returned policy, evaluated exactly (uniform on its support), is a policy of
   the MDP whose averages are eventually >= gain - slack - eps, while no policy's averages
   eventually exceed gain + slack + eps *)
Theorem C16_gain_optimal :
  forall nS nA P Rw av ab ini gm g h Pi ig iv g' w h' dup dlo gt pt it,
  @c16_gain_check Q NumQ (mk_mdp nS nA P Rw av ab ini gm) (mk_mc g h Pi ig iv)
                  (mk_gc g' w h' dup dlo gt pt it) = gain_all_true ->
  forall eps, 0 <= Q2R dup -> 0 <= Q2R dlo -> 0 <= Q2R gt -> 0 < eps ->
  wfh (mR nS nA P Rw av ab ini gm)
      (stationary (upol (mR nS nA P Rw av ab ini gm) (ocR g h Pi ig iv))) /\
  supported (mR nS nA P Rw av ab ini gm)
      (stationary (upol (mR nS nA P Rw av ab ini gm) (ocR g h Pi ig iv))) (opi (ocR g h Pi ig iv)) /\
  exists T0 : nat, forall T, (T0 <= T)%nat -> forall s, (s < nS)%nat ->
    (forall pol hist, wfh (mR nS nA P Rw av ab ini gm) pol ->
       Jn (mR nS nA P Rw av ab ini gm) pol T hist s
         <= INR T * (og (ocR g h Pi ig iv) s + (Q2R gt + Q2R dup) + eps)) /\
    (forall hist,
       INR T * (og (ocR g h Pi ig iv) s - (Q2R gt + Q2R dlo) - eps)
         <= Jn (mR nS nA P Rw av ab ini gm)
               (stationary (upol (mR nS nA P Rw av ab ini gm) (ocR g h Pi ig iv))) T hist s).
Proof. exact main_gain_optimal. Qed.
Print Assumptions C16_gain_optimal.

Theorem C16_gain_policy_available :
  forall nS nA P Rw av ab ini gm g h Pi ig iv g' w h' dup dlo gt pt it,
  @c16_gain_check Q NumQ (mk_mdp nS nA P Rw av ab ini gm) (mk_mc g h Pi ig iv)
                  (mk_gc g' w h' dup dlo gt pt it) = gain_all_true ->
  forall s a, (s < nS)%nat -> (a < nA)%nat -> 0 < opi (ocR g h Pi ig iv) s a ->
    avail (mR nS nA P Rw av ab ini gm) s a = true.
Proof. exact main_gain_policy_available. Qed.
Print Assumptions C16_gain_policy_available.

Theorem C16_gain_policy_uniform :
  forall nS nA P Rw av ab ini gm g h Pi ig iv g' w h' dup dlo gt pt it,
  @c16_gain_check Q NumQ (mk_mdp nS nA P Rw av ab ini gm) (mk_mc g h Pi ig iv)
                  (mk_gc g' w h' dup dlo gt pt it) = gain_all_true ->
  forall s a, (s < nS)%nat -> (a < nA)%nat ->
  (0 < opi (ocR g h Pi ig iv) s a ->
     Rabs (opi (ocR g h Pi ig iv) s a
           * INR (pcount (mR nS nA P Rw av ab ini gm) (opi (ocR g h Pi ig iv)) s) - 1) <= Q2R pt) /\
  (~ 0 < opi (ocR g h Pi ig iv) s a -> opi (ocR g h Pi ig iv) s a = 0).
Proof. exact main_gain_policy_uniform. Qed.
Print Assumptions C16_gain_policy_uniform.

Theorem C16_gain_initial :
  forall nS nA P Rw av ab ini gm g h Pi ig iv g' w h' dup dlo gt pt it,
  @c16_gain_check Q NumQ (mk_mdp nS nA P Rw av ab ini gm) (mk_mc g h Pi ig iv)
                  (mk_gc g' w h' dup dlo gt pt it) = gain_all_true ->
  Rabs (oig (ocR g h Pi ig iv)
        - sumf nS (fun s => init (mR nS nA P Rw av ab ini gm) s * og (ocR g h Pi ig iv) s)) <= Q2R it /\
  Rabs (oiv (ocR g h Pi ig iv)
        - sumf nS (fun s => init (mR nS nA P Rw av ab ini gm) s * oh (ocR g h Pi ig iv) s)) <= Q2R it.
Proof. exact main_gain_initial. Qed.
Print Assumptions C16_gain_initial.

(* ---------- discounted: state values are the optimal values, the policy attains them ---------- *)
Theorem C16_discounted_values :
  forall nS nA P Rw av ab ini gm g h Pi ig iv tl,
  @c16_disc_check Q NumQ (mk_mdp nS nA P Rw av ab ini gm) (mk_mc g h Pi ig iv) tl = gain_all_true ->
  forall Vs, 0 <= Q2R (d_eps tl) -> fixpoint (mR nS nA P Rw av ab ini gm) Vs ->
  forall s, (s < nS)%nat ->
    Rabs (oh (ocR g h Pi ig iv) s - Vs s) <= Q2R (d_eps tl) / (1 - Q2R gm).
Proof. exact main_disc_values. Qed.
Print Assumptions C16_discounted_values.

Theorem C16_optimal_value_unique :
  forall (m : mdp R) V1 V2, wf m -> gamma m < 1 -> fixpoint m V1 -> fixpoint m V2 ->
  forall s, (s < nS m)%nat -> V1 s = V2 s.
Proof. exact optimal_value_unique. Qed.
Print Assumptions C16_optimal_value_unique.

Theorem C16_discounted_policy_support :
  forall nS nA P Rw av ab ini gm g h Pi ig iv tl,
  @c16_disc_check Q NumQ (mk_mdp nS nA P Rw av ab ini gm) (mk_mc g h Pi ig iv) tl = gain_all_true ->
  forall Vs s a, 0 <= Q2R (d_eps tl) -> fixpoint (mR nS nA P Rw av ab ini gm) Vs ->
  (s < nS)%nat -> (a < nA)%nat -> 0 < opi (ocR g h Pi ig iv) s a ->
  avail (mR nS nA P Rw av ab ini gm) s a = true /\
  Vs s - d_loss (mR nS nA P Rw av ab ini gm) (dtolsR tl) <= Qval (mR nS nA P Rw av ab ini gm) Vs s a.
Proof. exact main_disc_support. Qed.
Print Assumptions C16_discounted_policy_support.

(* exact evaluation of the returned policy (uniform on its support) -- and of every stationary
   policy inside that support -- is within d_loss/(1-gamma) of optimal *)
Theorem C16_discounted_policy_return :
  forall nS nA P Rw av ab ini gm g h Pi ig iv tl,
  @c16_disc_check Q NumQ (mk_mdp nS nA P Rw av ab ini gm) (mk_mc g h Pi ig iv) tl = gain_all_true ->
  forall Vs Vpi, 0 <= Q2R (d_eps tl) -> 0 <= Q2R (d_eta tl) ->
  fixpoint (mR nS nA P Rw av ab ini gm) Vs ->
  fixpol (mR nS nA P Rw av ab ini gm) (upol (mR nS nA P Rw av ab ini gm) (ocR g h Pi ig iv)) Vpi ->
  forall s, (s < nS)%nat ->
    Rabs (Vpi s - Vs s) <= d_loss (mR nS nA P Rw av ab ini gm) (dtolsR tl) / (1 - Q2R gm).
Proof. exact main_disc_returned_policy. Qed.
Print Assumptions C16_discounted_policy_return.

Theorem C16_discounted_any_supported_policy :
  forall nS nA P Rw av ab ini gm g h Pi ig iv tl,
  @c16_disc_check Q NumQ (mk_mdp nS nA P Rw av ab ini gm) (mk_mc g h Pi ig iv) tl = gain_all_true ->
  forall Vs pi Vpi, 0 <= Q2R (d_eps tl) -> 0 <= Q2R (d_eta tl) ->
  fixpoint (mR nS nA P Rw av ab ini gm) Vs -> wfpol (mR nS nA P Rw av ab ini gm) pi ->
  (forall s a, (s < nS)%nat -> (a < nA)%nat -> 0 < pi s a -> 0 < opi (ocR g h Pi ig iv) s a) ->
  fixpol (mR nS nA P Rw av ab ini gm) pi Vpi ->
  forall s, (s < nS)%nat ->
    Rabs (Vpi s - Vs s) <= d_loss (mR nS nA P Rw av ab ini gm) (dtolsR tl) / (1 - Q2R gm).
Proof. exact main_disc_policy_return. Qed.
Print Assumptions C16_discounted_any_supported_policy.

Theorem C16_discounted_policy_available :
  forall nS nA P Rw av ab ini gm g h Pi ig iv tl,
  @c16_disc_check Q NumQ (mk_mdp nS nA P Rw av ab ini gm) (mk_mc g h Pi ig iv) tl = gain_all_true ->
  forall s a, (s < nS)%nat -> (a < nA)%nat -> 0 < opi (ocR g h Pi ig iv) s a ->
    avail (mR nS nA P Rw av ab ini gm) s a = true.
Proof. exact main_disc_policy_available. Qed.
Print Assumptions C16_discounted_policy_available.

Theorem C16_discounted_gain_zero :
  forall nS nA P Rw av ab ini gm g h Pi ig iv tl,
  @c16_disc_check Q NumQ (mk_mdp nS nA P Rw av ab ini gm) (mk_mc g h Pi ig iv) tl = gain_all_true ->
  forall s, (s < nS)%nat -> Rabs (og (ocR g h Pi ig iv) s) <= Q2R (d_gz tl).
Proof. exact main_disc_gain_zero. Qed.
Print Assumptions C16_discounted_gain_zero.

(* ---------- non-vacuity ---------- *)
(* a genuinely multichain MDP (two closed classes of different gain, a transient state, a terminal
   state; the dual vector needs M = 4 > 0) on which the undiscounted checker accepts; another
   well-formed policy exists (so the policy quantifier is not vacuous); and the discounted checker
   accepts on the stochastic MDP of C01's example, where an optimal value function exists *)
Theorem C16_nonvacuous :
  @c16_gain_check Q NumQ (mk_mdp 4 2 mxP mxR mxAv mxAb mxIni 1%Q)
     (mk_mc mxG mxH mxPi (3#2)%Q (-1 + (1#2000000000))%Q)
     (mk_gc mxG' mxW mxH' (1#100000000)%Q 0%Q (1#100000000)%Q (1#1000000000)%Q (1#100000000)%Q)
    = gain_all_true /\
  @c16_tight_check Q NumQ (mk_mdp 4 2 mxP mxR mxAv mxAb mxIni 1%Q)
     (mk_mc mxG mxH mxPi (3#2)%Q (-1 + (1#2000000000))%Q)
     (mk_gc mxG' mxW mxH' (1#100000000)%Q 0%Q (1#100000000)%Q (1#1000000000)%Q (1#100000000)%Q)
     (1#100000000)%Q = true /\
  wfh (mR 4 2 mxP mxR mxAv mxAb mxIni 1%Q)
      (stationary (fun s a => if Nat.eqb s 0 || Nat.eqb s 2 then (if Nat.eqb a 1 then 1 else 0)
                              else (if Nat.eqb a 0 then 1 else 0))) /\
  @c16_disc_check Q NumQ (mk_mdp 3 2 exP exR exAv exAb exIni (1#2)%Q)
     (mk_mc [(1#100000000000)%Q; 0%Q; 0%Q] exV exPi (1#200000000000)%Q ((3#2) + (1#2000000))%Q)
     (mkDT (1#100000)%Q (1#100000)%Q (1#1000000000)%Q (1#1000000000000)%Q (1#1000000)%Q)
    = gain_all_true /\
  fixpoint (mR 3 2 exP exR exAv exAb exIni (1#2)%Q) (untab (map Q2R exVs)).
Proof. exact (conj mx_check (conj mx_tight (conj mx_other_policy (conj dx_check ex_fix)))). Qed.
Print Assumptions C16_nonvacuous.
