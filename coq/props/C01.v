(* placeholder until theory/VITheory.v lands *)
From MSDM Require Import theory.Bellman.
Theorem c01_placeholder : True. Proof. exact I. Qed.
Print Assumptions c01_placeholder.
