(* C01 — Value iteration and policy iteration return optimal values and policies.
   Every theorem below is about an arbitrary finite MDP (any nS, nA) given by rational arrays, the
   planner result (V, Q, Pi, iv) given as rationals, and the hypothesis that the certificate checker
   of model/VI.v — evaluated on exactly that data, which is what the check does with vm_compute on
   msdm's output — returned all-true.  mR/oR are the real-valued MDP and result they denote.
   Discounted case (gamma < 1).  "Optimal value" = any fixed point Vs of the optimality operator of the
   MDP with absorbing states masked; optimal_value_unique shows there is at most one. *)
From Coq Require Import QArith Qreals Reals List Bool.
From MSDM Require Import base.Num base.NumInst model.MDP model.VI theory.Bellman theory.VITheory
     theory.VITransfer theory.VIUndisc theory.VIMain theory.VIExample theory.BellmanExistence.
Local Open Scope R_scope.

Theorem C01_values :
  forall nS nA P Rw av ab ini g V Qv Pi iv tl,
  @c01_check Q NumQ (mk_mdp nS nA P Rw av ab ini g) (mk_out V Qv Pi iv) tl = all_true ->
  forall Vs, Q2R g < 1 -> 0 <= Q2R (epsb tl) -> fixpoint (mR nS nA P Rw av ab ini g) Vs ->
  forall s, (s < nS)%nat ->
    Rabs (oV (oR V Qv Pi iv) s - Vs s) <= Q2R (epsb tl) / (1 - Q2R g).
Proof. exact main_values. Qed.
Print Assumptions C01_values.

Theorem C01_vi_implementations_agree :
  forall nS nA P Rw av ab ini g V1 Q1 Pi1 iv1 tl1 V2 Q2 Pi2 iv2 tl2 Vs,
  @c01_check Q NumQ (mk_mdp nS nA P Rw av ab ini g) (mk_out V1 Q1 Pi1 iv1) tl1 = all_true ->
  @c01_check Q NumQ (mk_mdp nS nA P Rw av ab ini g) (mk_out V2 Q2 Pi2 iv2) tl2 = all_true ->
  Q2R g < 1 -> 0 <= Q2R (epsb tl1) -> 0 <= Q2R (epsb tl2) -> fixpoint (mR nS nA P Rw av ab ini g) Vs ->
  forall s, (s < nS)%nat ->
    Rabs (oV (oR V1 Q1 Pi1 iv1) s - oV (oR V2 Q2 Pi2 iv2) s)
      <= (Q2R (epsb tl1) + Q2R (epsb tl2)) / (1 - Q2R g).
Proof. exact main_vi_agree. Qed.
Print Assumptions C01_vi_implementations_agree.

(* the optimal value function the statements refer to EXISTS (Banach iteration) for every
   well-formed discounted MDP, and so does the exact value of every stochastic policy *)
Theorem C01_optimal_value_exists :
  forall (m : mdp R), wf m -> gamma m < 1 -> exists Vs, fixpoint m Vs.
Proof. exact optimal_value_exists. Qed.
Print Assumptions C01_optimal_value_exists.

Theorem C01_policy_value_exists :
  forall (m : mdp R) pi, wf m -> gamma m < 1 -> wfpol m pi -> exists Vpi, fixpol m pi Vpi.
Proof. exact policy_value_exists. Qed.
Print Assumptions C01_policy_value_exists.

Theorem C01_optimal_value_unique :
  forall (m : mdp R) V1 V2, wf m -> gamma m < 1 -> fixpoint m V1 -> fixpoint m V2 ->
  forall s, (s < nS m)%nat -> V1 s = V2 s.
Proof. exact optimal_value_unique. Qed.
Print Assumptions C01_optimal_value_unique.

Theorem C01_absorbing_zero :
  forall nS nA P Rw av ab ini g V Qv Pi iv tl,
  @c01_check Q NumQ (mk_mdp nS nA P Rw av ab ini g) (mk_out V Qv Pi iv) tl = all_true ->
  forall s a, (s < nS)%nat -> (a < nA)%nat -> absorbing (mR nS nA P Rw av ab ini g) s = true ->
    oV (oR V Qv Pi iv) s = 0 /\
    (avail (mR nS nA P Rw av ab ini g) s a = true -> oQ (oR V Qv Pi iv) s a = Some 0).
Proof. exact main_absorbing_zero. Qed.
Print Assumptions C01_absorbing_zero.

Theorem C01_placeholder :
  forall nS nA P Rw av ab ini g V Qv Pi iv tl,
  @c01_check Q NumQ (mk_mdp nS nA P Rw av ab ini g) (mk_out V Qv Pi iv) tl = all_true ->
  forall s, (s < nS)%nat -> unable_to_reach (mR nS nA P Rw av ab ini g) s = true ->
    oV (oR V Qv Pi iv) s = Q2R (undef tl).
Proof. exact main_placeholder. Qed.
Print Assumptions C01_placeholder.

(* ... and there the policy is still a distribution over the state's own available actions *)
Theorem C01_placeholder_policy_available :
  forall nS nA P Rw av ab ini g V Qv Pi iv tl,
  @c01_check Q NumQ (mk_mdp nS nA P Rw av ab ini g) (mk_out V Qv Pi iv) tl = all_true ->
  forall s, (s < nS)%nat -> unable_to_reach (mR nS nA P Rw av ab ini g) s = true ->
    absorbing (mR nS nA P Rw av ab ini g) s = false ->
    (forall a, (a < nA)%nat -> 0 < oPi (oR V Qv Pi iv) s a -> avail (mR nS nA P Rw av ab ini g) s a = true) /\
    Rabs (sumf nA (oPi (oR V Qv Pi iv) s) - 1) <= Q2R (ptol tl).
Proof. exact main_placeholder_policy. Qed.
Print Assumptions C01_placeholder_policy_available.

(* the policy only plays available actions whose TRUE optimal action value is within eta of optimal *)
Theorem C01_policy_support :
  forall nS nA P Rw av ab ini g V Qv Pi iv tl,
  @c01_check Q NumQ (mk_mdp nS nA P Rw av ab ini g) (mk_out V Qv Pi iv) tl = all_true ->
  forall Vs s a, Q2R g < 1 -> 0 <= Q2R (epsb tl) -> fixpoint (mR nS nA P Rw av ab ini g) Vs ->
  (s < nS)%nat -> (a < nA)%nat -> masked (mR nS nA P Rw av ab ini g) s = false ->
  0 < oPi (oR V Qv Pi iv) s a ->
  exists mx, maxQ (mR nS nA P Rw av ab ini g) (oR V Qv Pi iv) s = Some mx /\
             avail (mR nS nA P Rw av ab ini g) s a = true /\
             Vs s - eta (mR nS nA P Rw av ab ini g) (tR tl) mx
               <= Qval (mR nS nA P Rw av ab ini g) Vs s a.
Proof. exact main_support. Qed.
Print Assumptions C01_policy_support.

(* ties are shared, and the support is played uniformly *)
Theorem C01_ties_shared :
  forall nS nA P Rw av ab ini g V Qv Pi iv tl,
  @c01_check Q NumQ (mk_mdp nS nA P Rw av ab ini g) (mk_out V Qv Pi iv) tl = all_true ->
  forall s a mx, (s < nS)%nat -> (a < nA)%nat -> masked (mR nS nA P Rw av ab ini g) s = false ->
  maxQ (mR nS nA P Rw av ab ini g) (oR V Qv Pi iv) s = Some mx ->
  avail (mR nS nA P Rw av ab ini g) s a = true ->
  mx - band_lo (tR tl) mx <= Qfin (oR V Qv Pi iv) s a -> 0 < oPi (oR V Qv Pi iv) s a.
Proof. exact main_ties_shared. Qed.
Print Assumptions C01_ties_shared.

Theorem C01_policy_uniform :
  forall nS nA P Rw av ab ini g V Qv Pi iv tl,
  @c01_check Q NumQ (mk_mdp nS nA P Rw av ab ini g) (mk_out V Qv Pi iv) tl = all_true ->
  forall s a, (s < nS)%nat -> (a < nA)%nat -> masked (mR nS nA P Rw av ab ini g) s = false ->
  (0 < oPi (oR V Qv Pi iv) s a ->
     Rabs (oPi (oR V Qv Pi iv) s a * INR (suppcount (mR nS nA P Rw av ab ini g) (oR V Qv Pi iv) s) - 1)
       <= Q2R (ptol tl)) /\
  (~ 0 < oPi (oR V Qv Pi iv) s a -> oPi (oR V Qv Pi iv) s a = 0).
Proof. exact main_uniform. Qed.
Print Assumptions C01_policy_uniform.

(* the exactly evaluated return of the reported policy (uniform on its support) is near-optimal *)
Theorem C01_policy_return :
  forall nS nA P Rw av ab ini g V Qv Pi iv tl,
  @c01_check Q NumQ (mk_mdp nS nA P Rw av ab ini g) (mk_out V Qv Pi iv) tl = all_true ->
  forall Vs Vpi B, Q2R g < 1 -> 0 <= Q2R (epsb tl) -> 0 <= Q2R (qtol tl) ->
  0 <= Q2R (atol_lo tl) -> 0 <= Q2R (rtol_lo tl) ->
  fixpoint (mR nS nA P Rw av ab ini g) Vs ->
  fixpol (mR nS nA P Rw av ab ini g) (upol (mR nS nA P Rw av ab ini g) (oR V Qv Pi iv)) Vpi ->
  0 <= B ->
  (forall s mx, (s < nS)%nat -> maxQ (mR nS nA P Rw av ab ini g) (oR V Qv Pi iv) s = Some mx ->
                band_hi (tR tl) mx <= B) ->
  forall s, (s < nS)%nat ->
    Rabs (Vpi s - Vs s) <=
    (B + 2 * Q2R (qtol tl) + 2 * (Q2R g * (Q2R (epsb tl) / (1 - Q2R g)))) / (1 - Q2R g).
Proof. exact main_policy_return. Qed.
Print Assumptions C01_policy_return.

Theorem C01_initial_value :
  forall nS nA P Rw av ab ini g V Qv Pi iv tl,
  @c01_check Q NumQ (mk_mdp nS nA P Rw av ab ini g) (mk_out V Qv Pi iv) tl = all_true ->
  Rabs (oInit (oR V Qv Pi iv)
        - sumf nS (fun s => init (mR nS nA P Rw av ab ini g) s * oV (oR V Qv Pi iv) s))
    <= Q2R (itol tl).
Proof. exact main_initial_value. Qed.
Print Assumptions C01_initial_value.

(* non-vacuity: the hypotheses are met by a concrete stochastic MDP and an optimum exists there *)
Theorem C01_nonvacuous :
  @c01_check Q NumQ (mk_mdp 3 2 exP exR exAv exAb exIni (1#2)%Q)
             (mk_out exV exQ exPi ((3#2) + (1#2000000))%Q) exT = all_true /\
  fixpoint (mR 3 2 exP exR exAv exAb exIni (1#2)%Q) (untab (map Q2R exVs)).
Proof. exact (conj ex_check ex_fix). Qed.
Print Assumptions C01_nonvacuous.

(* ---------------- undiscounted case (gamma <= 1, rewards <= 0) ----------------
   The optimal total reward is the limit of the decreasing value-iteration iterates T^k 0.
   For a result accepted by the checker (plus the three undiscounted clauses, with a checked
   expected-lossy-steps vector N of the reported policy) EVERY iterate is at least V - delta*N;
   the iterates decrease; and each iterate dominates every non-positive sub-solution of the
   optimality equation.  The mirror model's loops only ever return iterates (the check compares
   the implementation's values with them).  Hence the limit lies in [V - delta*N, T^k 0]. *)
Theorem C01_undiscounted_lower :
  forall nS nA P Rw av ab ini g V Qv Pi iv tl N,
  @c01_check Q NumQ (mk_mdp nS nA P Rw av ab ini g) (mk_out V Qv Pi iv) tl = all_true ->
  @c01_undisc_check Q NumQ (mk_mdp nS nA P Rw av ab ini g) (mk_out V Qv Pi iv) N = (true :: true :: true :: nil) ->
  forall B, 0 <= Q2R (epsb tl) -> 0 <= Q2R (qtol tl) -> 0 <= Q2R (atol_lo tl) -> 0 <= Q2R (rtol_lo tl) -> 0 <= B ->
  (forall s mx, (s < nS)%nat -> maxQ (mR nS nA P Rw av ab ini g) (oR V Qv Pi iv) s = Some mx ->
                band_hi (tR tl) mx <= B) ->
  forall k s, (s < nS)%nat ->
    Vz (mR nS nA P Rw av ab ini g) (oR V Qv Pi iv) s
      - (Q2R (epsb tl) + B + 2 * Q2R (qtol tl)) * untab (map Q2R N) s
    <= itT (mR nS nA P Rw av ab ini g) k s.
Proof. exact main_undisc_lower. Qed.
Print Assumptions C01_undiscounted_lower.

Theorem C01_undiscounted_iterates_decrease :
  forall nS nA P Rw av ab ini g V Qv Pi iv tl N,
  @c01_check Q NumQ (mk_mdp nS nA P Rw av ab ini g) (mk_out V Qv Pi iv) tl = all_true ->
  @c01_undisc_check Q NumQ (mk_mdp nS nA P Rw av ab ini g) (mk_out V Qv Pi iv) N = (true :: true :: true :: nil) ->
  forall j k s, (k <= j)%nat -> (s < nS)%nat ->
    itT (mR nS nA P Rw av ab ini g) j s <= itT (mR nS nA P Rw av ab ini g) k s.
Proof. exact main_undisc_antitone. Qed.
Print Assumptions C01_undiscounted_iterates_decrease.

Theorem C01_undiscounted_upper :
  forall nS nA P Rw av ab ini g V Qv Pi iv tl,
  @c01_check Q NumQ (mk_mdp nS nA P Rw av ab ini g) (mk_out V Qv Pi iv) tl = all_true ->
  forall U, (forall s, (s < nS)%nat -> U s <= 0) ->
  (forall s, (s < nS)%nat -> U s <= Top (mR nS nA P Rw av ab ini g) U s) ->
  forall k s, (s < nS)%nat -> U s <= itT (mR nS nA P Rw av ab ini g) k s.
Proof. intros nS nA P Rw av ab ini g V Qv Pi iv tl H. exact (main_undisc_upper nS nA P Rw av ab ini g V Qv Pi iv tl H). Qed.
Print Assumptions C01_undiscounted_upper.

Theorem C01_mirror_returns_iterates :
  forall (m : mdp R) mi eps,
  (exists k, fst (vi_vec m mi eps) = vi_iter m k) /\ (exists k, fst (vi_dict m mi eps) = vi_iter m k) /\
  (forall k s, (s < nS m)%nat -> untab (vi_iter m k) s = itT m k s).
Proof.
  intros m mi eps. split; [apply vi_vec_returns_iterate|]. split; [apply vi_dict_returns_iterate|].
  intros k s Hs. apply vi_iter_itT; exact Hs.
Qed.
Print Assumptions C01_mirror_returns_iterates.

(* ---------------- proper MDPs, ANY discount factor gamma <= 1 (in particular gamma = 1) ----------------
   "Every policy reaches an absorbing state with probability 1" is expressed, as in C04_proper_optimum_unique /
   C03_proper_optimum_unique, by step-count weights for ALL policies: w >= 0 and
   1 + gamma * sum_ns Pm(s,a,ns) * w ns <= w s for every state and every available action; per case the boolean
   c_proper (theory/LAOStarProper.v) is evaluated in exact rationals on weights W the harness computes
   (1 + the largest expected number of steps over all policies).  Then the optimum is unique, and the reported
   values are within epsb * W(s) of it: C01_values with 1/(1-gamma) replaced by the weight.  Vz reads the
   placeholder of never-terminating (masked) states as 0; elsewhere it is the reported value itself.
   (Not proved: that every MDP whose policies all terminate with probability 1 admits such weights.) *)
From MSDM Require Import model.LAOStar theory.LAOStarProper theory.VIProper.

Theorem C01_proper_optimum_unique :
  forall nS nA P Rw av ab ini g W,
  @c_proper Q NumQ (mk_mdp nS nA P Rw av ab ini g) (masktab (mk_mdp nS nA P Rw av ab ini g)) W = true ->
  wfb (mR nS nA P Rw av ab ini g) = true ->
  forall V1 V2, fixpoint (mR nS nA P Rw av ab ini g) V1 -> fixpoint (mR nS nA P Rw av ab ini g) V2 ->
  forall s, (s < nS)%nat -> V1 s = V2 s.
Proof.
  intros nS nA P Rw av ab ini g W HW Hwf V1 V2.
  exact (main_proper_unique nS nA P Rw av ab ini g W HW V1 V2 Hwf).
Qed.
Print Assumptions C01_proper_optimum_unique.

Theorem C01_proper_values :
  forall nS nA P Rw av ab ini g V Qv Pi iv tl W,
  @c_proper Q NumQ (mk_mdp nS nA P Rw av ab ini g) (masktab (mk_mdp nS nA P Rw av ab ini g)) W = true ->
  @c01_check Q NumQ (mk_mdp nS nA P Rw av ab ini g) (mk_out V Qv Pi iv) tl = all_true ->
  forall Vs, 0 <= Q2R (epsb tl) -> fixpoint (mR nS nA P Rw av ab ini g) Vs ->
  forall s, (s < nS)%nat ->
    Rabs (Vz (mR nS nA P Rw av ab ini g) (oR V Qv Pi iv) s - Vs s) <= Q2R (epsb tl) * WR W s /\
    (unable_to_reach (mR nS nA P Rw av ab ini g) s = false ->
       Rabs (oV (oR V Qv Pi iv) s - Vs s) <= Q2R (epsb tl) * WR W s).
Proof. exact main_proper_values. Qed.
Print Assumptions C01_proper_values.

(* non-vacuity at gamma = 1: 3-state proper MDP, V* = (-2,-2,0), weights (3,2,1); both hypotheses hold and the
   bound is a statement about a real optimum *)
Theorem C01_proper_nonvacuous :
  @c_proper Q NumQ (mk_mdp 3 2 pxP pxR pxAv pxAb pxIni 1%Q) (masktab (mk_mdp 3 2 pxP pxR pxAv pxAb pxIni 1%Q)) pxW = true /\
  @c01_check Q NumQ (mk_mdp 3 2 pxP pxR pxAv pxAb pxIni 1%Q) (mk_out pxVs pxQ pxPi (-2)%Q) exT = all_true /\
  fixpoint (mR 3 2 pxP pxR pxAv pxAb pxIni 1%Q) (untab (map Q2R pxVs)).
Proof. exact (conj px_proper (conj px_check px_fix)). Qed.
Print Assumptions C01_proper_nonvacuous.
