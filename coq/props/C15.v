(* C15 — augmented sub-tasks and options preserve the base MDP and stop at their goals.
   Statements only; proofs are in theory/OptionTheory.v, definitions in model/Option.v. *)
From Coq Require Import QArith List Bool String Arith.
From MSDM Require Import model.Option theory.OptionTheory.
Import ListNotations.
Local Open Scope string_scope.
Local Open Scope list_scope.
Local Open Scope nat_scope.

(* 1. FULL statement: every non-overridden component, the discount rate and (tabular MDPs)
      the state and action lists of augment(mdp, ...) equal the base MDP's - for ALL objects
      (whatever holds the attributes: instance dict, class, base class) and ALL override sets.
      Holds for augment as option.py writes it since /repo commit 29c9a36. *)
Theorem augment_preserves :
  forall o ov o', augment o ov = Some o' ->
  forall k, In k (components ++ ["discount_rate"] ++ (if is_tabular o then tab_components else [])) ->
            assoc k ov = None -> getattr o' k = getattr o k.
Proof. exact OptionTheory.augment_preserves. Qed.
Print Assumptions augment_preserves.

(* HISTORICAL: the variant before that commit (nothing but components and lists copied,
   augment_gen []) lost an instance-level discount_rate: witness 1/2 on the instance, class
   default 1.  This is what C15:augment:instance-level-discount_rate-lost reports. *)
Theorem augment_old_variant_loses_discount :
  exists o ov o' k,
    augment_gen [] o ov = Some o' /\ In k (preserved_keys o) /\ assoc k ov = None /\
    getattr o k = Some (VNum (1 # 2)%Q) /\ getattr o' k = Some (VNum 1%Q) /\
    getattr o' k <> getattr o k.
Proof. exact OptionTheory.augment_old_variant_loses_discount. Qed.
Print Assumptions augment_old_variant_loses_discount.

(* 2. The attribute-lookup picture behind it, for ALL objects and override sets: copied keys are
      preserved / overridden; any other attribute is looked up on the class chain with an empty
      instance dict (plain class-level attributes survive, instance-level ones do not). *)
Theorem augment_attribute_lookup : forall o ov o',
  augment o ov = Some o' ->
  (forall k, In k components \/ (is_tabular o = true /\ In k tab_components) ->
             assoc k ov = None -> getattr o' k = getattr o k) /\
  (forall k, In k components \/ (is_tabular o = true /\ In k tab_components) ->
             forall w, assoc k ov = Some w -> getattr o' k = Some w) /\
  (forall k, ~ In k (copied_keys copied_plain o) -> assoc k (inst o) = None ->
             (forall body, mro_lookup k (mro o) <> Some (CFun body)) ->
             getattr o' k = getattr o k) /\
  (forall k v, ~ In k (copied_keys copied_plain o) -> mro_lookup k (mro o) = Some (CVal v) ->
             getattr o' k = Some v).
Proof. exact OptionTheory.augment_preserves_partial. Qed.
Print Assumptions augment_attribute_lookup.

(* 3. More generally the full statement holds for every variant of augment that copies
      discount_rate (whatever else it copies). *)
Theorem augment_preserves_if_discount_copied : forall extra, In "discount_rate" extra ->
  forall o ov o', augment_gen extra o ov = Some o' ->
  forall k, In k (components ++ ["discount_rate"] ++ (if is_tabular o then tab_components else [])) ->
            assoc k ov = None -> getattr o' k = getattr o k.
Proof. exact OptionTheory.augment_gen_preserves. Qed.
Print Assumptions augment_preserves_if_discount_copied.

(* 4. The sub-goal option's sub-task: base dynamics, base reward clipped only at
      non-terminal successors, sub-goal absorbing set; base discount if copied / class-level. *)
Theorem subtask_discount_rewards : forall extra o so o',
  sub_task_gen extra o so = Some o' ->
  getattr o' "next_state_dist" = getattr o "next_state_dist" /\
  getattr o' "actions" = getattr o "actions" /\
  (exists rw, getattr o "reward" = Some (VRew rw) /\
              getattr o' "reward" = Some (VRew (clipped_reward so rw))) /\
  (exists ab, getattr o' "is_absorbing" = Some (VAbs ab) /\
              forall s, ab s = true <-> (memb s (so_subgoals so) = true \/
                 (so_include_abs so = true /\ exists ab0, getattr o "is_absorbing" = Some (VAbs ab0) /\ ab0 s = true))) /\
  getattr o' "initial_state_dist" = Some (VInit (uniform (so_initial so))) /\
  (In "discount_rate" extra -> getattr o' "discount_rate" = getattr o "discount_rate") /\
  (forall g, ~ In "discount_rate" extra -> mro_lookup "discount_rate" (mro o) = Some (CVal g) ->
             getattr o' "discount_rate" = Some g).
Proof. exact OptionTheory.subtask_gen_spec. Qed.
Print Assumptions subtask_discount_rewards.

Theorem clipped_reward_spec : forall so rw s a ns,
  (memb ns (so_subgoals so) = true -> clipped_reward so rw s a ns = rw s a ns) /\
  (so_maxr so = None -> clipped_reward so rw s a ns = rw s a ns) /\
  (forall m, so_maxr so = Some m -> memb ns (so_subgoals so) = false ->
     ((rw s a ns <= m)%Q -> clipped_reward so rw s a ns = rw s a ns) /\
     ((m < rw s a ns)%Q -> clipped_reward so rw s a ns = m)).
Proof. exact OptionTheory.clipped_reward_spec. Qed.
Print Assumptions clipped_reward_spec.

(* 5. Executing an option: ends exactly at the first terminal state of the stream's
      trajectory, or raises iff none of the states at times 0..max_steps-2 is terminal. *)
Theorem option_stops : forall o term ms ch s0 rw,
  getattr o "reward" = Some (VRew rw) ->
  augment o [("is_absorbing", VAbs term)] <> None ->
  (forall r, option_run_on o term ms ch s0 = Ret r ->
     let k := List.length (steps r) in
     k + 2 <= ms /\
     term (final r) = true /\ final r = state_at ch s0 k /\
     (forall j, j < k -> term (state_at ch s0 j) = false) /\
     (forall j, j < k -> nth_error (steps r) j = Some (step_at rw ch 0 s0 j))) /\
  (option_run_on o term ms ch s0 = RaiseMaxSteps <->
     forall j, j + 2 <= ms -> term (state_at ch s0 j) = false) /\
  ((exists r, option_run_on o term ms ch s0 = Ret r) <->
     exists k, k + 2 <= ms /\ term (state_at ch s0 k) = true /\
               forall j, j < k -> term (state_at ch s0 j) = false) /\
  option_run_on o term ms ch s0 <> RaiseOther.
Proof. exact OptionTheory.option_stops. Qed.
Print Assumptions option_stops.

(* 6. The semi-MDP's outcome distribution for an option. *)
Theorem smdp_outcome_empirical : forall m s op streams d,
  0 < sm_n m ->
  smdp_nstr m s (Opt op) streams = Ret d ->
  exists gamma sims,
    getattr (sm_mdp m) "discount_rate" = Some (VNum gamma) /\
    List.length sims = sm_n m /\
    (forall i, i < sm_n m ->
       option_run_on (sm_mdp m) (op_terminal op) (op_max_steps op) (nth i streams default_stream) s
         = Ret (nth i sims (mkSim [] 0))) /\
    (forall r, In r sims ->
       fst (fst (sim_outcome gamma r)) = final r /\
       snd (fst (sim_outcome gamma r)) = List.length (steps r) /\
       (snd (sim_outcome gamma r) == disc_sum gamma (map s_reward (steps r)))%Q) /\
    (forall P, respects okey_eqb P ->
       (mass P d == qnat (countb (fun r => P (sim_outcome gamma r)) sims) / qnat (sm_n m))%Q) /\
    keys_distinct okey_eqb (map fst d) /\
    (mass (fun _ => true) d == 1)%Q /\
    (forall P, respects nt_eqb P ->
       (mass P (smdp_marginal_nt d) == mass (fun k => P (fst k)) d)%Q) /\
    (forall P : nat -> bool,
       (mass P (smdp_marginal_n d) == mass (fun k => P (fst (fst k))) d)%Q) /\
    (smdp_expected_reward d == lsum (fun k => snd k) (map (sim_outcome gamma) sims) / qnat (sm_n m))%Q.
Proof. exact OptionTheory.smdp_outcome_empirical. Qed.
Print Assumptions smdp_outcome_empirical.

Theorem smdp_outcome_raises : forall m s op streams,
  smdp_nstr m s (Opt op) streams = RaiseMaxSteps ->
  exists i, i < sm_n m /\
    option_run_on (sm_mdp m) (op_terminal op) (op_max_steps op) (nth i streams default_stream) s = RaiseMaxSteps /\
    forall j, j < i -> exists r,
      option_run_on (sm_mdp m) (op_terminal op) (op_max_steps op) (nth j streams default_stream) s = Ret r.
Proof. exact OptionTheory.smdp_outcome_raises. Qed.
Print Assumptions smdp_outcome_raises.

(* 7. A primitive action yields its one-step outcomes with duration 1. *)
Theorem smdp_primitive : forall m s a streams acts tr rw,
  getattr (sm_mdp m) "actions" = Some (VActs acts) ->
  getattr (sm_mdp m) "next_state_dist" = Some (VTrans tr) ->
  getattr (sm_mdp m) "reward" = Some (VRew rw) ->
  (memb a (acts s) = false -> smdp_nstr m s (Prim a) streams = RaiseOther) /\
  (memb a (acts s) = true ->
   exists d, smdp_nstr m s (Prim a) streams = Ret d /\
     (forall k, In k (map fst d) ->
        exists ns, In ns (map fst (tr s a)) /\ k = (ns, 1, rw s a ns)) /\
     (forall P, respects okey_eqb P ->
        (mass P d == mass (fun ns => P (ns, 1%nat, rw s a ns)) (tr s a))%Q) /\
     keys_distinct okey_eqb (map fst d) /\
     (NoDup (map fst (tr s a)) ->
        d = map (fun ep => ((fst ep, 1, rw s a (fst ep)), snd ep)) (tr s a))).
Proof. exact OptionTheory.smdp_primitive. Qed.
Print Assumptions smdp_primitive.

(* 8. Multi-step use: whatever the base object has cached on its instance (matrices,
      absorbing vector, reachable set ... filled by using / planning on it), every tabular view
      of the derived MDP / sub-task is computed from ITS OWN components and lists. *)
Theorem derived_views_own : forall extra o ov o' fuel,
  augment_gen extra o ov = Some o' ->
  view_tf o' = compute_tf o' /\ view_am o' = compute_am o' /\ view_rf o' = compute_rf o' /\
  view_dead o' = compute_dead o' /\ view_absvec o' = compute_absvec o' /\
  view_s0 o' = compute_s0 o' /\ view_reachable fuel o' = compute_reachable fuel o'.
Proof. exact OptionTheory.derived_views_own. Qed.
Print Assumptions derived_views_own.

Theorem subtask_views_own : forall extra o so o' fuel,
  sub_task_gen extra o so = Some o' ->
  view_rf o' = compute_rf o' /\ view_absvec o' = compute_absvec o' /\ view_tf o' = compute_tf o' /\
  view_reachable fuel o' = compute_reachable fuel o'.
Proof. exact OptionTheory.subtask_views_own. Qed.
Print Assumptions subtask_views_own.
