(* placeholder until theory/OptionTheory.v lands *)
From MSDM Require Import model.Option.
Theorem c15_placeholder : True. Proof. exact I. Qed.
Print Assumptions c15_placeholder.
