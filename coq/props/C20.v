(* C20 — built-in domains define well-formed models for every layout and parameter.
   Models: model/GridWorld.v, model/Domains.v (executed by the harness on every run); proofs: theory/DomainsTheory.v.
   All statements: rectangular layouts of ANY size, all parameters in range. *)
From Coq Require Import ZArith QArith Qabs List Bool.
From MSDM Require Import model.GridWorld model.Domains theory.DomainsTheory theory.DomainsClosure.
Import ListNotations.
Local Open Scope Z_scope.

(* ---------------- plain grid world ---------------- *)
Theorem gw_normalised : forall (g : gwp) (s a : pos),
  prob_range (g_p g) ->
  (dmass (gw_next g s a) == 1)%Q /\ (forall ns pr, In (ns, pr) (gw_next g s a) -> (0 <= pr)%Q).
Proof. exact DomainsTheory.gw_normalised. Qed.
Print Assumptions gw_normalised.

Theorem gw_in_state_list : forall (g : gwp) (s a : pos),
  rect g -> In s (gw_states g) ->
  forall ns pr, In (ns, pr) (gw_next g s a) -> In ns (gw_states g).
Proof. exact DomainsTheory.gw_in_state_list. Qed.
Print Assumptions gw_in_state_list.

Theorem gw_at_most_one_cell : forall (g : gwp) (s a : pos),
  In a gw_actions ->
  forall ns pr, In (ns, pr) (gw_next g s a) -> ns <> term ->
    Z.abs (fst ns - fst s) + Z.abs (snd ns - snd s) <= 1.
Proof. exact DomainsTheory.gw_at_most_one_cell. Qed.
Print Assumptions gw_at_most_one_cell.

Theorem gw_only_as_commanded : forall (g : gwp) (s a : pos),
  forall ns pr, In (ns, pr) (gw_next g s a) ->
    ns = s \/ ns = padd s a \/ (ns = term /\ (s = term \/ abs_at g s = true)).
Proof. exact DomainsTheory.gw_only_as_commanded. Qed.
Print Assumptions gw_only_as_commanded.

Theorem gw_never_wall_or_off_grid : forall (g : gwp) (s a : pos),
  forall ns pr, In (ns, pr) (gw_next g s a) -> ns <> s -> ns <> term ->
    in_grid g ns = true /\ wall_at g ns = false.
Proof. exact DomainsTheory.gw_never_wall_or_off_grid. Qed.
Print Assumptions gw_never_wall_or_off_grid.

Theorem gw_success_prob_exact : forall (g : gwp) (s a : pos),
  rect g -> In s (grid_states g) -> In a gw_actions -> abs_at g s = false ->
  let t := padd s a in
  (in_grid g t = true -> wall_at g t = false -> t <> s ->
     (dprob (gw_next g s a) t == g_p g)%Q /\ (dprob (gw_next g s a) s == 1 - g_p g)%Q) /\
  (in_grid g t = false \/ wall_at g t = true \/ t = s ->
     (dprob (gw_next g s a) s == 1)%Q /\ forall u, u <> s -> (dprob (gw_next g s a) u == 0)%Q).
Proof. exact DomainsTheory.gw_success_prob_exact. Qed.
Print Assumptions gw_success_prob_exact.

Theorem gw_reward_def : forall (g : gwp) (s a ns : pos),
  s <> term -> ns <> term ->
  (gw_reward g s a ns == g_step g + feat_reward g ns)%Q.
Proof. exact DomainsTheory.gw_reward_def. Qed.
Print Assumptions gw_reward_def.

Theorem gw_absorbing_feature_to_terminal : forall (g : gwp) (s a : pos),
  abs_at g s = true \/ s = term ->
  gw_next g s a = [(term, 1%Q)] /\ (gw_reward g s a term == 0)%Q /\ gw_is_absorbing term = true.
Proof. exact DomainsTheory.gw_absorbing_feature_to_terminal. Qed.
Print Assumptions gw_absorbing_feature_to_terminal.

Theorem gw_actions_nonempty : forall (g : gwp) (s : pos), gw_actions <> [].
Proof. exact DomainsTheory.gw_actions_nonempty. Qed.
Print Assumptions gw_actions_nonempty.

Theorem gw_init_normalised : forall (g : gwp),
  gw_init_states g <> [] ->
  (dmass (gw_init g) == 1)%Q /\
  forall s p, In (s, p) (gw_init g) -> In s (gw_states g) /\ (0 < p)%Q /\ init_at g s = true.
Proof. exact DomainsTheory.gw_init_normalised. Qed.
Print Assumptions gw_init_normalised.

(* ---------------- certificate evaluated on msdm's output, all domains ---------------- *)
Theorem wf_check_sound : forall (nS nO : nat) (tol : Q) rows init obs,
  wf_check nS nO tol rows init obs = true ->
  length rows = nS /\
  (forall acts, In acts rows -> acts <> [] /\ forall d, In d acts -> dist_good nS tol d) /\
  dist_good nS tol init /\
  (forall d, In d obs -> dist_good nO tol d).
Proof. exact DomainsTheory.wf_check_sound. Qed.
Print Assumptions wf_check_sound.

(* ---------------- tiger ---------------- *)
Theorem tiger_wellformed : forall c : Q,
  prob_range c ->
  (forall s a, (tmass (tiger_next s a) == 1)%Q /\
               forall ns p, In (ns, p) (tiger_next s a) -> In ns tiger_states /\ (0 <= p)%Q) /\
  (forall a ns, (tmass (tiger_obs c a ns) == 1)%Q /\
                forall o p, In (o, p) (tiger_obs c a ns) -> In o tiger_states /\ (0 <= p)%Q) /\
  (tmass tiger_init == 1)%Q /\ (forall s p, In (s, p) tiger_init -> In s tiger_states /\ (0 < p)%Q) /\
  tiger_actions <> [].
Proof. exact DomainsTheory.tiger_wellformed. Qed.
Print Assumptions tiger_wellformed.

Theorem tiger_listen_accuracy : forall (c : Q) (ns : tside),
  exists p, In (ns, p) (tiger_obs c TAlisten ns) /\ (p == c)%Q.
Proof. exact DomainsTheory.tiger_listen_accuracy. Qed.
Print Assumptions tiger_listen_accuracy.

(* ---------------- load / unload, every size n >= 1 ---------------- *)
Theorem lu_wellformed : forall n : nat,
  (1 <= n)%nat ->
  (forall s d, In s (lu_states n) -> In d lu_actions -> In (lu_step (Z.of_nat n) s d) (lu_states n)) /\
  (forall s p, In (s, p) lu_init -> In s (lu_states n) /\ (p == 1)%Q) /\
  lu_actions <> [] /\ lu_states n <> [].
Proof. exact DomainsTheory.lu_wellformed. Qed.
Print Assumptions lu_wellformed.

(* ---------------- heaven or hell ---------------- *)
Theorem hh_next_wellformed : forall (g : layout) (s : hhstate) (a : Z * Z * bool),
  hh_free g s ->
  hh_next g s a = [(hh_step g s a, 1%Q)] /\ hh_free g (hh_step g s a) /\ snd (hh_step g s a) = snd s.
Proof. exact DomainsTheory.hh_next_wellformed. Qed.
Print Assumptions hh_next_wellformed.

Theorem hh_obs_normalised : forall (g : layout) (c : Q) (a : Z * Z * bool) (ns : hhstate),
  prob_range c ->
  (sumQ (map snd (hh_obs g c a ns)) == 1)%Q /\ Forall (fun e => 0 <= snd e)%Q (hh_obs g c a ns).
Proof. exact DomainsTheory.hh_obs_normalised. Qed.
Print Assumptions hh_obs_normalised.

Theorem hh_init_normalised : forall g : layout,
  hh_init g <> [] ->
  (sumQ (map snd (hh_init g)) == 1)%Q /\ Forall (fun e => 0 < snd e)%Q (hh_init g).
Proof. exact DomainsTheory.hh_init_normalised. Qed.
Print Assumptions hh_init_normalised.

Theorem hh_closed_check_sound : forall (g : layout) (skip : bool) (sl : list hhstate),
  hh_closed_check g skip sl = true ->
  forall s, In s sl -> skip && hh_is_absorbing g s = false ->
  forall a, In a hh_actions -> In (hh_step g s a) sl.
Proof. exact DomainsTheory.hh_closed_check_sound. Qed.
Print Assumptions hh_closed_check_sound.

(* closure in msdm's reachability-defined state list: proved for non-absorbing states only ... *)
Theorem hh_closed_partial : forall (g : layout) (s : hhstate) (a : Z * Z * bool),
  hh_reach g s -> hh_is_absorbing g s = false -> In a hh_actions -> hh_reach g (hh_step g s a).
Proof. exact DomainsTheory.hh_closed_partial. Qed.
Print Assumptions hh_closed_partial.

(* ... and REFUTED for absorbing states (layout "sg."): a reachable state with a probability-1 successor
   that is not in the reachable state list *)
Theorem hh_closure_refuted :
  exists g s a, hh_reach g s /\ In a hh_actions /\ hh_free g s /\
                hh_next g s a = [(hh_step g s a, 1%Q)] /\ ~ hh_reach g (hh_step g s a).
Proof. exact DomainsTheory.hh_closure_refuted. Qed.
Print Assumptions hh_closure_refuted.

(* ---------------- windy grid world ---------------- *)
Theorem windy_normalised : forall (w : windyp) (s a : pos),
  prob_range (w_wp w) ->
  (kmass (windy_nsr w s a) == 1)%Q /\ (kmass (windy_next w s a) == 1)%Q /\ knonneg (windy_next w s a).
Proof. exact DomainsTheory.windy_normalised. Qed.
Print Assumptions windy_normalised.

Theorem windy_in_grid : forall (w : windyp) (s a : pos),
  in_range (gm (w_rows w)) s ->
  kkeys (in_range (gm (w_rows w))) (windy_next w s a).
Proof. exact DomainsTheory.windy_in_grid. Qed.
Print Assumptions windy_in_grid.

Theorem windy_closed_check_sound : forall (w : windyp) (skip : bool) (sl : list pos),
  windy_closed_check w skip sl = true ->
  forall s, In s sl -> skip && windy_is_absorbing w s = false ->
  forall a, In a gm_actions ->
  forall ns p, In (ns, p) (windy_next w s a) -> ~ (p == 0)%Q -> In ns sl.
Proof. exact DomainsTheory.windy_closed_check_sound. Qed.
Print Assumptions windy_closed_check_sound.

(* ---------------- cliff walking (any GridMDP grid with a start cell) ---------------- *)
Theorem cliff_wellformed : forall (rows : layout) (s a : pos),
  gm_locations rows C_S <> [] -> 1 <= gm_w rows -> 1 <= gm_h rows ->
  (dmass (cliff_next rows s a) == 1)%Q /\
  forall ns p, In (ns, p) (cliff_next rows s a) -> in_range (gm rows) ns /\ (0 < p)%Q.
Proof. exact DomainsTheory.cliff_wellformed. Qed.
Print Assumptions cliff_wellformed.

Theorem cliff_reset : forall (rows : layout) (s a : pos),
  (gm_is rows (cliff_apply rows s a) C_X = true ->
     cliff_next rows s a = cliff_init rows /\ cliff_reward rows s a = (-100)%Q) /\
  (gm_is rows (cliff_apply rows s a) C_X = false ->
     cliff_next rows s a = [(cliff_apply rows s a, 1%Q)] /\ cliff_reward rows s a = (-1)%Q).
Proof. exact DomainsTheory.cliff_reset. Qed.
Print Assumptions cliff_reset.

(* ---------------- reachability-defined state lists (theory/DomainsClosure.v) ----------------
   windy_states / cliff_states are the executable iterated closures the harness evaluates and compares (as sets)
   with msdm's state_list on every run; windy_reach / cliff_reach are the inductive reachable sets
   (initial states expanded always, other states only when not absorbing, as MarkovDecisionProcess.reachable_states). *)
Theorem windy_reach_closed : forall (w : windyp) (s a ns : pos) (p : Q),
  In s (windy_states w) -> windy_is_absorbing w s = false -> In a gm_actions ->
  In (ns, p) (windy_next w s a) -> ~ (p == 0)%Q -> In ns (windy_states w).
Proof. exact DomainsClosure.windy_reach_closed. Qed.
Print Assumptions windy_reach_closed.

Theorem windy_reach_closed_init : forall (w : windyp) (s a ns : pos) (p : Q),
  In s (windy_init_states w) -> In a gm_actions ->
  In (ns, p) (windy_next w s a) -> ~ (p == 0)%Q -> In ns (windy_states w).
Proof. exact DomainsClosure.windy_reach_closed_init. Qed.
Print Assumptions windy_reach_closed_init.

Theorem windy_states_spec : forall (w : windyp) (s : pos), In s (windy_states w) <-> windy_reach w s.
Proof. exact DomainsClosure.windy_states_spec. Qed.
Print Assumptions windy_states_spec.

Theorem windy_states_wf : forall w : windyp,
  NoDup (windy_states w) /\ incl (windy_init_states w) (windy_states w) /\
  forall s, In s (windy_states w) -> in_range (gm (w_rows w)) s.
Proof. exact DomainsClosure.windy_states_wf. Qed.
Print Assumptions windy_states_wf.

(* REFUTED for absorbing states: layout "@$." — the listed goal cell (1,0) moves right with probability 1 to the
   grid cell (2,0), which is not in the state list (known finding C20:windygridworld:successor-of-absorbing-...) *)
Theorem windy_closure_refuted :
  exists w s a ns p,
    In s (windy_states w) /\ windy_is_absorbing w s = true /\ In a gm_actions /\
    In (ns, p) (windy_next w s a) /\ (p == 1)%Q /\ in_range (gm (w_rows w)) ns /\ ~ In ns (windy_states w).
Proof. exact DomainsClosure.windy_closure_refuted. Qed.
Print Assumptions windy_closure_refuted.

Theorem cliff_reach_closed : forall (rows : layout) (s a ns : pos) (p : Q),
  In s (cliff_states rows) -> cliff_is_absorbing rows s = false -> In a gm_actions ->
  In (ns, p) (cliff_next rows s a) -> ~ (p == 0)%Q -> In ns (cliff_states rows).
Proof. exact DomainsClosure.cliff_reach_closed. Qed.
Print Assumptions cliff_reach_closed.

Theorem cliff_states_spec : forall (rows : layout) (s : pos), In s (cliff_states rows) <-> cliff_reach rows s.
Proof. exact DomainsClosure.cliff_states_spec. Qed.
Print Assumptions cliff_states_spec.

(* the cliff dynamics on another GridMDP grid ("sg.") fail the absorbing-state clause in the same way; the
   CliffWalking instance itself is fully closed (Example cliff_grid_states_closed, evaluated) *)
Theorem cliff_closure_refuted :
  exists rows s a ns p,
    In s (cliff_states rows) /\ cliff_is_absorbing rows s = true /\ In a gm_actions /\
    In (ns, p) (cliff_next rows s a) /\ (p == 1)%Q /\ ~ In ns (cliff_states rows).
Proof. exact DomainsClosure.cliff_closure_refuted. Qed.
Print Assumptions cliff_closure_refuted.
