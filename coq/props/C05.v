(* C05 — A* and breadth-first search return valid minimum-cost / minimum-step paths.
   Graph g: states 0..g_n-1, g_succ s = [(action, next state, cost)], g_goal = is_absorbing.
   walk g s p u: p is a list of real transitions leading from s to u; verts = the states visited;
   map e_act p = the actions taken; cost p = the sum of the costs.
   ord k = order in which the k-th expansion enumerates the transitions (any permutation),
   tbs k = tie-break value of the k-th push (any values: lifo, fifo, random draws),
   hz = a finite heuristic cost (msdm's heuristic_value negated), consistent; the loop sees it as
   fun s => Some (hz s) (None would be +inf; infinite heuristic values are judged by the certificate
   and the mirror comparison only). *)
From Coq Require Import List ZArith Bool.
From MSDM Require Import model.Search theory.SearchTheory theory.SearchInv theory.SearchBFS theory.SearchAStar.
Local Open Scope Z_scope.

(* reference distance = least cost over all paths to any goal; None iff no goal reachable *)
Theorem bf_dist_correct : forall g s,
  wf_graph g -> (s < g_n g)%nat -> least_cost g s (bf_dist g s).
Proof. exact SearchTheory.bf_dist_correct. Qed.
Print Assumptions bf_dist_correct.

(* certificate run on msdm's A-star result: accepted => every clause of the property holds *)
Theorem path_cert_sound : forall g start r,
  wf_graph g -> (start < g_n g)%nat -> path_cert g start r = true -> valid_plan g start r.
Proof. exact SearchTheory.path_cert_sound. Qed.
Print Assumptions path_cert_sound.

(* certificate run on msdm's BFS result: accepted => real path to a goal with the fewest steps / no goal reachable *)
Theorem bfs_cert_sound : forall g start r,
  wf_graph g -> (start < g_n g)%nat -> bfs_cert g start r = true -> valid_bfs_plan g start r.
Proof. exact SearchTheory.bfs_cert_sound. Qed.
Print Assumptions bfs_cert_sound.

(* BFS loop: returned path starts at start, follows real transitions under the returned actions,
   ends at a goal, and no path to any goal has fewer steps *)
Theorem bfs_sound_shortest : forall g start ord path acts v vis,
  wf_graph g -> (start < g_n g)%nat -> ord_perm ord ->
  bfs g start ord = Found path acts v vis ->
  exists p u, walk g start p u /\ g_goal g u = true /\ verts start p = path /\ map e_act p = acts /\
              (forall p' u', walk g start p' u' -> g_goal g u' = true -> (length p <= length p')%nat).
Proof. exact SearchBFS.bfs_sound_shortest. Qed.
Print Assumptions bfs_sound_shortest.

(* BFS loop: "no plan" exactly when no goal is reachable; fuel n+2 always suffices *)
Theorem bfs_complete : forall g start ord,
  wf_graph g -> (start < g_n g)%nat -> ord_perm ord ->
  ((exists vis, bfs g start ord = NoPlan vis) <-> no_goal_reachable g start) /\
  bfs g start ord <> OutOfFuel /\ bfs g start ord <> Broken.
Proof. exact SearchBFS.bfs_complete_total. Qed.
Print Assumptions bfs_complete.

(* A-star loop: returned path is real, path_value is its total cost, and that cost is least *)
Theorem astar_sound_optimal : forall g start ord hz tbs path acts v vis,
  wf_graph g -> (start < g_n g)%nat -> consistent g hz -> ord_ok ord ->
  astar g start ord (fun s => Some (hz s)) tbs = Found path acts v vis ->
  exists p u, walk g start p u /\ g_goal g u = true /\ verts start p = path /\ map e_act p = acts /\
              cost p = v /\
              (forall p' u', walk g start p' u' -> g_goal g u' = true -> v <= cost p').
Proof. exact SearchAStar.astar_sound_optimal_found. Qed.
Print Assumptions astar_sound_optimal.

(* A-star loop: "no plan" exactly when no goal is reachable; fuel 2 + #transitions always suffices *)
Theorem astar_complete : forall g start ord hz tbs,
  wf_graph g -> (start < g_n g)%nat -> consistent g hz -> ord_ok ord ->
  ((exists vis, astar g start ord (fun s => Some (hz s)) tbs = NoPlan vis) <->
   (forall p u, walk g start p u -> g_goal g u = false)) /\
  astar g start ord (fun s => Some (hz s)) tbs <> OutOfFuel /\ astar g start ord (fun s => Some (hz s)) tbs <> Broken.
Proof. exact SearchAStar.astar_complete_total. Qed.
Print Assumptions astar_complete.

(* from_mdp accepts a deterministic MDP however its single-outcome distributions are represented
   (tuple, list or dict-keys support: read by iteration) *)
Theorem from_mdp_repr : forall d, from_mdp_read d = Some (dist_outcome d).
Proof. exact SearchTheory.from_mdp_repr. Qed.
Print Assumptions from_mdp_repr.

(* potential certificate (problems with thousands of states, where running bf_dist is too slow):
   accepted => the result is a plan and satisfies every clause of the property *)
Theorem pot_cert_sound : forall g start phi r,
  wf_graph g -> (start < g_n g)%nat -> pot_cert g start phi r = true -> r <> None /\ valid_plan g start r.
Proof. exact SearchAStar.pot_cert_sound. Qed.
Print Assumptions pot_cert_sound.

Theorem bfs_pot_cert_sound : forall g start phi r,
  wf_graph g -> (start < g_n g)%nat -> bfs_pot_cert g start phi r = true -> r <> None /\ valid_bfs_plan g start r.
Proof. exact SearchAStar.bfs_pot_cert_sound. Qed.
Print Assumptions bfs_pot_cert_sound.

(* non-vacuity witnesses: SearchTheory.ex_wf / ex_bf / ex_cert, SearchBFS.bfs_example, SearchAStar.astar_example *)
