(* C05 — A* and breadth-first search return valid minimum-cost / minimum-step paths *)
From Coq Require Import List ZArith Bool.
From MSDM Require Import model.Search theory.SearchTheory.
Local Open Scope Z_scope.

(* the reference distance is the least cost over all paths to any goal; None iff no goal is reachable *)
Theorem c05_bf_dist_correct : forall g s,
  wf_graph g -> (s < g_n g)%nat -> least_cost g s (bf_dist g s).
Proof. exact bf_dist_correct. Qed.
Print Assumptions c05_bf_dist_correct.

(* a result accepted by the certificate satisfies every clause of the property (A-star) *)
Theorem c05_path_cert_sound : forall g start r,
  wf_graph g -> (start < g_n g)%nat -> path_cert g start r = true -> valid_plan g start r.
Proof. exact path_cert_sound. Qed.
Print Assumptions c05_path_cert_sound.

(* ... (breadth-first search: minimum number of steps) *)
Theorem c05_bfs_cert_sound : forall g start r,
  wf_graph g -> (start < g_n g)%nat -> bfs_cert g start r = true -> valid_bfs_plan g start r.
Proof. exact bfs_cert_sound. Qed.
Print Assumptions c05_bfs_cert_sound.
