From MSDM Require Import model.PyVal model.Table theory.TableTheory.
Theorem c12_placeholder : True. Proof. exact placeholder_c12. Qed.
Print Assumptions c12_placeholder.
