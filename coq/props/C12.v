(* C12 — tables index like nested dictionaries over their field domains.

   Model: model/PyVal.v (Python values, `pyeq` = Python ==), model/Table.v (mirror of
   TableIndex._array_index/_updated_index, Table/ProbabilityTable/StateTable.__getitem__, get, keys,
   items, len, action_dist, and numpy's ndarray.__getitem__ for the indices these produce).
   The functions below are the very ones the correspondence harness runs by vm_compute.

   Vocabulary (theory/TableTheory.v):
     wf t                     t has >= 1 field, every domain ==-duplicate-free and hashable
     keys_at ks fs ps         k_i is a key of the i-th field of fs, found at position p_i
                              (dom_index k_i dom_i = Ok p_i: hashable and == to the p_i-th element)
     not_outer_element t s    s is not (== to) an element of the outermost domain
     plainkey k               k is not Ellipsis and not a slice
     selects t r ps           r is the scalar cell at ps when ps fixes every field, otherwise the
                              sub-table over the remaining fields with cell(out) = cell t (ps ++ out)
                              (class: TableDistribution for the last axis of a probability table)
     is_row_dist t r ps f     r is a TableDistribution over field f: support = domain of f,
                              prob(j-th event) = cell t (ps ++ [j]), prob(foreign scalar) = default
   Domains may be held in a domaintuple, a plain tuple or a plain list (fkind; TableIndex(fields=[Field(..)])
   keeps the caller's container): all theorems hold for every container kind,
   any number of fields and any domain sizes.                               *)
From Coq Require Import ZArith List Bool.
From MSDM Require Import model.PyVal model.Table theory.TableTheory.
Import ListNotations.

(* one key per field -> exactly the cell at the keys' positions *)
Theorem full_key_cell : forall t ks ps, wf t -> length ks = length (tix t) ->
  forallb plainkey ks = true -> keys_at ks (tix t) ps -> not_outer_element t (PTuple ks) ->
  getitem t (PTuple ks) = Ok (GScalar (tcell t ps)).
Proof. exact full_key_cell_thm. Qed.
Print Assumptions full_key_cell.

(* keys for a prefix of the fields -> the sub-table at those positions *)
Theorem prefix_key_subtable : forall t ks ps, wf t -> ks <> [] -> forallb plainkey ks = true ->
  keys_at ks (tix t) ps -> not_outer_element t (PTuple ks) ->
  selects t (getitem t (PTuple ks)) ps.
Proof. exact prefix_key_thm. Qed.
Print Assumptions prefix_key_subtable.

(* a selector that IS an element of the outermost domain selects that element, whatever else it
   could mean (a tuple of field keys, a whole domain, ...) *)
Theorem outer_element_wins : forall t sel i, wf t ->
  dom_index sel (dom0 (tix t)) = Ok i -> selects t (getitem t sel) [i].
Proof. exact outer_element_wins_thm. Qed.
Print Assumptions outer_element_wins.

(* t[k1][k2]...[kn] = t[(k1,...,kn)] = the cell *)
Theorem nested_eq_full : forall t ks ps, wf t -> length ks = length (tix t) ->
  forallb plainkey ks = true -> keys_at ks (tix t) ps -> not_outer_element t (PTuple ks) ->
  chain t ks = getitem t (PTuple ks) /\ chain t ks = Ok (GScalar (tcell t ps)).
Proof. exact nested_eq_full_thm. Qed.
Print Assumptions nested_eq_full.

(* nested indexing needs no side condition at all: every step hits the outermost domain first *)
Theorem nested_chain : forall ks t ps, wf t -> ks <> [] -> keys_at ks (tix t) ps ->
  match skipn (length ps) (tix t) with
  | [] => chain t ks = Ok (GScalar (tcell t ps))
  | rest => exists t', chain t ks = Ok (GTable t') /\ tix t' = rest /\
                       forall out, tcell t' out = tcell t (ps ++ out)
  end.
Proof. exact nested_chain_thm. Qed.
Print Assumptions nested_chain.

(* keys / len / items run over the outermost domain in order; items pairs the j-th key with t[key],
   which is the j-th slice *)
Theorem keys_items_len : forall t, wf t ->
  keys t = dom0 (tix t) /\ len t = length (dom0 (tix t)) /\
  items t = map (fun k => (k, getitem t k)) (dom0 (tix t)) /\
  forall j, j < len t -> selects t (getitem t (nth j (keys t) PNone)) [j].
Proof. exact keys_items_len_thm. Qed.
Print Assumptions keys_items_len.

(* a non-empty list of distinct outer keys -> the table restricted to those keys in the given order,
   other fields untouched (msdm returns the table itself when the list is the whole domain in order).
   NOT covered: the empty list (outer_list_empty_self: msdm returns the whole table) and lists with
   repeated keys (ValueError from Table._validate_table) *)
Theorem outer_list_subtable : forall t ks js, wf t -> ks <> [] -> forallb plainkey ks = true ->
  index_into_domain ks (dom0 (tix t)) = Ok js -> NoDup js ->
  exists t', (getitem t (PList ks) = Ok (GTable t') \/ (getitem t (PList ks) = Ok GSelf /\ t' = t)) /\
     tindex_eqb (tix t') (match tix t with f :: fs => mkField (fname f) (restrict (fdom f) js) DKDom :: fs | [] => [] end) = true /\
     forall j rest, j < length js -> tcell t' (j :: rest) = tcell t (nth j js 0 :: rest).
Proof. exact outer_list_subtable_thm. Qed.
Print Assumptions outer_list_subtable.

Theorem outer_list_empty_returns_whole_table : forall t, getitem t (PList []) = Ok GSelf.
Proof. exact outer_list_empty_self. Qed.
Print Assumptions outer_list_empty_returns_whole_table.

(* t[:] and t[...] are t; any other slice is a SliceError *)
Theorem slice_identity : forall t, plain_dom (dom0 (tix t)) ->
  getitem t (PSlice true) = Ok GSelf /\ getitem t PEllipsis = Ok GSelf /\
  getitem t (PSlice false) = Err ESlice.
Proof. exact slice_identity_thm. Qed.
Print Assumptions slice_identity.

Theorem slice_identity_wrapped : forall t s, (s = PSlice true \/ s = PEllipsis) ->
  not_outer_element t (PTuple [s]) ->
  getitem t (PTuple [s]) = Ok GSelf /\ getitem t (PList [s]) = Ok GSelf.
Proof. exact slice_identity_wrapped_thm. Qed.
Print Assumptions slice_identity_wrapped.

Theorem slice_tuple_identity : forall t m, m <= length (tix t) ->
  Forall (fun f => plain_dom (fdom f)) (tix t) ->
  not_outer_element t (PTuple (repeat (PSlice true) m)) ->
  getitem t (PTuple (repeat (PSlice true) m)) = Ok GSelf.
Proof. exact slice_tuple_identity_thm. Qed.
Print Assumptions slice_tuple_identity.

(* a row of a probability table is the distribution whose events are the last domain and whose
   probabilities are the row's entries *)
Theorem prob_row_dist : forall t ks ps f, wf t -> cls_prob (tcls t) = true ->
  ks <> [] -> forallb plainkey ks = true -> keys_at ks (tix t) ps ->
  skipn (length ps) (tix t) = [f] -> not_outer_element t (PTuple ks) ->
  is_row_dist t (getitem t (PTuple ks)) ps f.
Proof. exact prob_row_dist_thm. Qed.
Print Assumptions prob_row_dist.

(* TabularPolicy.action_dist(s) *)
Theorem policy_action_dist : forall t fs fa s i, wf t -> cls_prob (tcls t) = true ->
  tix t = [fs; fa] -> dom_index s (fdom fs) = Ok i ->
  is_row_dist t (action_dist t s) [i] fa.
Proof. exact policy_action_dist_thm. Qed.
Print Assumptions policy_action_dist.

(* foreign keys raise, and which error: never a value *)
Theorem foreign_key_raises_scalar : forall t k, is_seqval k = false -> plainkey k = true ->
  index_of k (dom0 (tix t)) = None ->
  getitem_raw t k = Err EKey /\
  getitem t k = Err (if cls_state (tcls t) then EStateAction else EKey) /\
  table_get t k = (if cls_state (tcls t) then Err EStateAction else Ok None).
Proof. exact foreign_scalar_raises_thm. Qed.
Print Assumptions foreign_key_raises_scalar.

Theorem foreign_key_raises_tuple : forall t ks ps k rest, wf t ->
  forallb plainkey (ks ++ k :: rest) = true -> keys_at ks (tix t) ps ->
  length (ks ++ k :: rest) <= length (tix t) ->
  is_seqval k = false ->
  index_of k (fdom (nth (length ps) (tix t) (mkField PNone [] DKDom))) = None ->
  not_outer_element t (PTuple (ks ++ k :: rest)) ->
  getitem_raw t (PTuple (ks ++ k :: rest)) = Err EIndex /\
  getitem t (PTuple (ks ++ k :: rest)) = Err (if cls_state (tcls t) then EStateAction else EIndex) /\
  table_get t (PTuple (ks ++ k :: rest)) = Err (if cls_state (tcls t) then EStateAction else EIndex).
Proof. exact foreign_tuple_raises_thm. Qed.
Print Assumptions foreign_key_raises_tuple.

Theorem foreign_key_raises_too_many : forall t ks, forallb plainkey ks = true ->
  length (tix t) < length ks -> not_outer_element t (PTuple ks) ->
  getitem t (PTuple ks) = Err (if cls_state (tcls t) then EStateAction else EIndexSize).
Proof. exact too_many_keys_raises_thm. Qed.
Print Assumptions foreign_key_raises_too_many.

Theorem foreign_key_raises_list : forall t ks k rest, forallb plainkey (ks ++ k :: rest) = true ->
  index_of k (dom0 (tix t)) = None ->
  getitem t (PList (ks ++ k :: rest)) = Err (if cls_state (tcls t) then EStateAction else EDomain).
Proof. exact foreign_list_raises_thm. Qed.
Print Assumptions foreign_key_raises_list.

(* the domaintuple quirk: a full key passed as a `domaintuple` is first looked up, component by
   component, in the OUTERMOST domain and raises DomainError if one component is not an outer key,
   although the same key as a plain tuple returns the cell (full_key_cell) *)
Theorem domaintuple_key_quirk : forall t ks k rest, forallb plainkey (ks ++ k :: rest) = true ->
  not_outer_element t (PDomTuple (ks ++ k :: rest)) ->
  index_of k (dom0 (tix t)) = None ->
  getitem_raw t (PDomTuple (ks ++ k :: rest)) = Err EDomain.
Proof. exact domtuple_key_quirk_thm. Qed.
Print Assumptions domaintuple_key_quirk.

(* Python == on the modelled universe is reflexive and symmetric (used for positions in domains) *)
Theorem pyeq_reflexive : forall v, pyeq v v = true.
Proof. exact pyeq_refl. Qed.
Print Assumptions pyeq_reflexive.
Theorem pyeq_symmetric : forall a b, pyeq a b = pyeq b a.
Proof. exact pyeq_sym. Qed.
Print Assumptions pyeq_symmetric.
