From MSDM Require Import model.Rollout theory.RolloutTheory.
Theorem c14_placeholder : True. Proof. exact I. Qed.
Print Assumptions c14_placeholder.
