(* C14 — policy roll-outs are valid trajectories and Monte-Carlo evaluation averages them.
   Statements only; proofs in theory/RolloutTheory.v, definitions in model/Rollout.v.
   Every theorem is for ALL MDPs/POMDPs (fmdp/fpomdp: arbitrary functions to distributions), ALL
   policies, start states, step caps, numbers of simulations and ALL generators (streams of
   random() values in [0,1)).  Non-vacuity: RolloutTheory.Examples. *)
From Coq Require Import QArith ZArith List Bool.
From MSDM Require Import model.Rollout theory.RolloutTheory.
Import ListNotations.
Local Open Scope Q_scope.

(* every draw yields an event of positive probability (CPython choices/choice rule) *)
Theorem sample_positive : forall d st,
  wf_dist d -> good_stream st ->
  0 < dweight d (fst (sample d st)) /\ good_stream (snd (sample d st)).
Proof. exact RolloutTheory.sample_pos. Qed.
Print Assumptions sample_positive.

(* Policy.run_on: starts at the given / a positive-probability initial state; each step is taken from a
   non-absorbing state with an action the policy gives positive probability, a successor of positive
   probability and the model's reward; consecutive steps chain; the final state is where the last step ended *)
Theorem rollout_valid : forall m pi, wf_setting m pi -> wf_dist (f_init m) ->
  forall s0 cap st tr fin st',
  good_stream st -> run_on m pi s0 cap st = (tr, fin, st') ->
  exists s, start_ok m s0 s /\ chain_ok m pi s tr fin /\ good_stream st'.
Proof. exact RolloutTheory.rollout_valid. Qed.
Print Assumptions rollout_valid.

(* the roll-out stops exactly at the first absorbing state or at the step cap:
   #steps = min(cap, index of the first absorbing state), #entries = that + 1, no step from an absorbing state *)
Theorem rollout_stops : forall m pi, wf_setting m pi -> wf_dist (f_init m) ->
  forall s0 cap st tr fin st',
  good_stream st -> run_on m pi s0 cap st = (tr, fin, st') ->
  Forall (fun x => f_abs m (st_s x) = false) tr /\
  (length tr <= cap)%nat /\
  ((length tr < cap)%nat -> f_abs m fin = true) /\
  length tr = Nat.min cap (first_abs m (t_states (tr, fin))) /\
  length (t_states (tr, fin)) = S (Nat.min cap (first_abs m (t_states (tr, fin)))).
Proof. exact RolloutTheory.rollout_stops. Qed.
Print Assumptions rollout_stops.

Theorem cap_zero : forall m pi s0 st tr fin st',
  run_on m pi s0 0 st = (tr, fin, st') ->
  tr = [] /\ fin = fst (match s0 with Some s => (s, st) | None => sample (f_init m) st end) /\
  t_states (tr, fin) = [fin] /\ t_rewards (tr, fin) = [0] /\ t_actions (tr, fin) = [None].
Proof. exact RolloutTheory.cap_zero. Qed.
Print Assumptions cap_zero.

(* a run that stopped before the cap is the run for every larger cap *)
Theorem run_cap_stable : forall m pi c s st tr fin st',
  run_from m pi c s st = (tr, fin, st') -> (length tr < c)%nat ->
  forall c', (c <= c')%nat -> run_from m pi c' s st = (tr, fin, st').
Proof. exact RolloutTheory.run_cap_stable. Qed.
Print Assumptions run_cap_stable.

(* POMDPPolicy.run_on: as above plus observations of positive probability and agent states that follow the
   policy's own update; holds whichever generator serves the initial state (flag) *)
Theorem prollout_valid : forall (AG : Type) (m : fpomdp) (pol : ppolicy AG),
  pwf_setting m pol -> wf_dist (f_init (fp_mdp m)) ->
  forall flag s0 ag0 cap gst st tr fin st' gst',
  good_stream st -> good_stream gst ->
  prun_on flag m pol s0 ag0 cap gst st = (tr, fin, st', gst') ->
  exists s,
    match s0 with Some s' => s = s' | None => 0 < dweight (f_init (fp_mdp m)) s end /\
    pchain_ok m pol s (match ag0 with Some a => a | None => pp_init pol end) tr fin /\
    Forall (fun x => f_abs (fp_mdp m) (ps_s x) = false) tr /\
    (length tr <= cap)%nat /\ ((length tr < cap)%nat -> f_abs (fp_mdp m) (fst fin) = true).
Proof. exact (@RolloutTheory.prollout_valid). Qed.
Print Assumptions prollout_valid.

(* Policy.calc_returns (triu(g^(j-i)) @ r) is the backward recursion *)
Theorem calc_returns_rec : forall rs g,
  length (calc_returns rs g) = length rs /\
  (forall i, (S i < length rs)%nat ->
     nth i (calc_returns rs g) 0 == nth i rs 0 + g * nth (S i) (calc_returns rs g) 0) /\
  (forall i, length rs = S i -> nth i (calc_returns rs g) 0 == nth i rs 0).
Proof. exact RolloutTheory.calc_returns_rec. Qed.
Print Assumptions calc_returns_rec.

(* Policy.evaluate_on: the tables are built from n valid roll-outs of its own ... *)
Theorem mc_evaluate_averages : forall m pi, wf_setting m pi -> wf_dist (f_init m) ->
  forall cap n st, good_stream st ->
  exists ts, length ts = n /\ Forall (valid_rollout m pi cap) ts /\
             ts = fst (sims m pi cap n st) /\
             mc_evaluate m pi cap n st = mc_tables (f_gamma m) n ts.
Proof. exact RolloutTheory.mc_evaluate_averages. Qed.
Print Assumptions mc_evaluate_averages.

(* ... and every reported number is the arithmetic mean of the stated samples of those roll-outs *)
Theorem mc_tables_averages : forall g n ts,
  let R := mc_tables g n ts in
  NoDup (map fst (mc_state_value R)) /\
  (forall s, In s (map fst (mc_state_value R)) <-> In s (map (fun v => fst (snd v)) (visits g ts))) /\
  (forall s v, In (s, v) (mc_state_value R) -> v = mean (returns_at g ts s) /\ returns_at g ts s <> []) /\
  map fst (mc_occupancy R) = map fst (mc_state_value R) /\
  (forall s o, In (s, o) (mc_occupancy R) -> o = qlen (returns_at g ts s) / inject_Z (Z.of_nat n)) /\
  NoDup (map fst (mc_action_value R)) /\
  (forall sa, In sa (map fst (mc_action_value R)) <-> In sa (map snd (visits g ts))) /\
  (forall sa v, In (sa, v) (mc_action_value R) -> v = mean (returns_at_sa g ts sa) /\ returns_at_sa g ts sa <> []) /\
  mc_initial_value R = mean (map (fun t => hd 0 (calc_returns (t_rewards t) g)) ts).
Proof. exact RolloutTheory.mc_tables_averages. Qed.
Print Assumptions mc_tables_averages.

(* deterministic policy on a deterministic MDP: each roll-out's return, and hence the reported initial
   value, is the exact evaluation truncated at the step cap — for every generator and every n > 0 *)
Theorem det_rollout_exact : forall m pi,
  (forall s, f_abs m s = false -> exists a, is_det (pi s) a) ->
  (forall s a, f_abs m s = false -> exists ns, is_det (f_next m s a) ns) ->
  forall cap s st tr fin st',
  good_stream st -> run_from m pi cap s st = (tr, fin, st') ->
  hd 0 (calc_returns (t_rewards (tr, fin)) (f_gamma m)) == Vn m pi cap s /\ good_stream st'.
Proof. exact RolloutTheory.det_run_from. Qed.
Print Assumptions det_rollout_exact.

Theorem mc_deterministic_exact : forall m pi,
  (forall s, f_abs m s = false -> exists a, is_det (pi s) a) ->
  (forall s a, f_abs m s = false -> exists ns, is_det (f_next m s a) ns) ->
  forall s0, is_det (f_init m) s0 ->
  forall cap n st, good_stream st -> (0 < n)%nat ->
  mc_initial_value (mc_evaluate m pi cap n st) == Vn m pi cap s0.
Proof. exact RolloutTheory.mc_deterministic_exact. Qed.
Print Assumptions mc_deterministic_exact.

Theorem det_rollout_same : forall m pi,
  (forall s, f_abs m s = false -> exists a, is_det (pi s) a) ->
  (forall s a, f_abs m s = false -> exists ns, is_det (f_next m s a) ns) ->
  forall cap s st st2 tr fin st' tr2 fin2 st2',
  good_stream st -> good_stream st2 ->
  run_from m pi cap s st = (tr, fin, st') -> run_from m pi cap s st2 = (tr2, fin2, st2') ->
  tr = tr2 /\ fin = fin2.
Proof. exact RolloutTheory.det_run_same. Qed.
Print Assumptions det_rollout_same.
