(* C07 — POMDP belief updates follow Bayes' rule and the belief MDP is consistent.
   m : pomdp R is an arbitrary finite POMDP (any nS, nA, nO) with stochastic transition rows
   P s a . and observation rows Ob a ns . (wfp), b any belief on the simplex (belief: b >= 0,
   sum b = 1, zero components allowed), a any action.  The functions estimator_dict / estimator_vec /
   pred_obs_dict / pred_obs_vec / belief_next / belief_reward / belief_absorbing / next_agentstate
   are the mirror models (model/POMDP.v) of msdm's code; the check runs them with vm_compute on Q
   against msdm's outputs on every run, and theory/POMDPTransfer.v shows that what is run on Q is
   the Q2R-preimage of the R functions below.
   Specification (theory/POMDPTheory.v):  joint o s ns = b s * P s a ns * Ob a ns o,
   Zm o = sum_{s,ns} joint,  bayes o ns = (sum_s joint o s ns) / Zm o,  predict ns = sum_s b s * P s a ns. *)
From Coq Require Import QArith Qreals Reals List Bool.
From MSDM Require Import base.Num base.NumInst model.MDP model.POMDP theory.POMDPTheory
     theory.POMDPTransfer theory.POMDPMain theory.POMDPExample.
Import ListNotations.
Local Open Scope R_scope.

(* posterior = Bayes posterior, normalised, zero entries dropped from the dictionary; empty / zero
   vector for an impossible observation.  o is any observation index whose likelihoods are
   non-negative: o < nO, or an observation the POMDP never emits (all likelihoods 0). *)
Theorem C07_estimator_bayes :
  forall m : pomdp R, wfp m -> forall b, belief (nS (base m)) b -> forall a, (a < nA (base m))%nat ->
  forall o, (forall ns, (ns < nS (base m))%nat -> 0 <= Ob m a ns o) ->
  0 <= Zm m b a o /\
  (0 < Zm m b a o ->
     (forall ns, (ns < nS (base m))%nat ->
        untab (estimator_vec m b a o) ns = bayes m b a o ns /\
        lookup (estimator_dict m b a o) ns = bayes m b a o ns /\
        untab (next_agentstate m b a o) ns = bayes m b a o ns /\
        0 <= bayes m b a o ns) /\
     sumf (nS (base m)) (bayes m b a o) = 1 /\
     (forall ns p, In (ns, p) (estimator_dict m b a o) -> (ns < nS (base m))%nat /\ 0 < p)) /\
  (Zm m b a o = 0 ->
     estimator_dict m b a o = [] /\
     (forall ns, (ns < nS (base m))%nat ->
        untab (estimator_vec m b a o) ns = 0 /\ untab (next_agentstate m b a o) ns = 0)).
Proof. exact estimator_bayes_obs. Qed.
Print Assumptions C07_estimator_bayes.

(* predicted observation distribution = exact marginal, sums to 1 (so msdm's assert holds) *)
Theorem C07_pred_obs_marginal :
  forall m : pomdp R, wfp m -> forall b, belief (nS (base m)) b -> forall a, (a < nA (base m))%nat ->
  (forall o, (o < nO m)%nat ->
     untab (pred_obs_vec m b a) o = Zm m b a o /\ lookup (pred_obs_dict m b a) o = Zm m b a o /\
     0 <= Zm m b a o) /\
  sumf (nO m) (Zm m b a) = 1 /\
  length (pred_obs_vec m b a) = nO m /\
  (forall o p, In (o, p) (pred_obs_dict m b a) -> (o < nO m)%nat /\ 0 < p /\ p = Zm m b a o).
Proof. exact pred_obs_marginal. Qed.
Print Assumptions C07_pred_obs_marginal.

(* dictionary and vectorised versions denote the same function (zero entries dropped on one side only) *)
Theorem C07_dict_vec_agree :
  forall m : pomdp R, wfp m -> forall b, belief (nS (base m)) b -> forall a, (a < nA (base m))%nat ->
  forall o, (forall ns, (ns < nS (base m))%nat -> 0 <= Ob m a ns o) ->
  forall ns, (ns < nS (base m))%nat ->
  lookup (estimator_dict m b a o) ns = untab (estimator_vec m b a o) ns.
Proof. exact dict_vec_agree_obs. Qed.
Print Assumptions C07_dict_vec_agree.

Theorem C07_pred_dict_vec_agree :
  forall m : pomdp R, wfp m -> forall b, belief (nS (base m)) b -> forall a, (a < nA (base m))%nat ->
  forall o, (o < nO m)%nat -> lookup (pred_obs_dict m b a) o = untab (pred_obs_vec m b a) o.
Proof. exact pred_dict_vec_agree. Qed.
Print Assumptions C07_pred_dict_vec_agree.

(* belief MDP: a normalised distribution (positive probabilities summing to 1) over pairwise distinct
   normalised beliefs, each the Bayes posterior of a positive-probability observation *)
Theorem C07_belief_next_normalised :
  forall m : pomdp R, wfp m -> forall b, belief (nS (base m)) b -> forall a, (a < nA (base m))%nat ->
  sumlist (map snd (belief_next m b a)) = 1 /\
  NoDup (map fst (belief_next m b a)) /\
  (forall nb p, In (nb, p) (belief_next m b a) ->
     0 < p /\ length nb = nS (base m) /\
     (forall ns, (ns < nS (base m))%nat -> 0 <= untab nb ns) /\
     sumf (nS (base m)) (untab nb) = 1 /\
     exists o, (o < nO m)%nat /\ 0 < Zm m b a o /\
               forall ns, (ns < nS (base m))%nat -> untab nb ns = bayes m b a o ns).
Proof. exact belief_next_normalised. Qed.
Print Assumptions C07_belief_next_normalised.

(* law of total probability through the merge of equal posteriors *)
Theorem C07_belief_next_mean :
  forall m : pomdp R, wfp m -> forall b, belief (nS (base m)) b -> forall a, (a < nA (base m))%nat ->
  forall ns, (ns < nS (base m))%nat ->
  sumlist (map (fun e => snd e * untab (fst e) ns) (belief_next m b a)) = predict m b a ns.
Proof. exact belief_next_mean. Qed.
Print Assumptions C07_belief_next_mean.

Theorem C07_belief_reward_expect :
  forall (m : pomdp R) b a,
  belief_reward m b a =
  sumf (nS (base m)) (fun s => sumf (nS (base m)) (fun ns => b s * P (base m) s a ns * Rw (base m) s a ns)).
Proof. exact belief_reward_expect. Qed.
Print Assumptions C07_belief_reward_expect.

(* absorbing exactly when all the mass is on absorbing states *)
Theorem C07_belief_absorbing_iff :
  forall (m : pomdp R) b, belief (nS (base m)) b ->
  belief_absorbing m b = true <->
  sumf (nS (base m)) (fun s => if absflag (base m) s then b s else 0) = 1.
Proof. exact belief_absorbing_iff. Qed.
Print Assumptions C07_belief_absorbing_iff.

(* executed = proved: the comparison the check evaluates on Q (on msdm's outputs, as exact rationals)
   is the R comparison against the functions above *)
Theorem C07_check_transfer :
  forall nS nA nO P Rw ab ini g Obl tol bl a ed ev nag pd pv bn rw,
  @check_ba Q NumQ (mQ nS nA nO P Rw ab ini g Obl) tol bl a ed ev nag pd pv bn rw =
  @check_ba R NumR (mR nS nA nO P Rw ab ini g Obl) (Q2R tol) (mapQ1 bl) a (mapQdd ed) (mapQ2 ev)
            (mapQ2 nag) (mapQd pd) (mapQ1 pv) (mapQbn bn) (Q2R rw).
Proof. exact check_ba_transfer. Qed.
Print Assumptions C07_check_transfer.

(* end to end: the booleans the check reads off vm_compute imply that msdm's numbers (ed / ev / nag =
   dictionary posterior, vector posterior, next_agentstate per observation; pd / pv = predictive
   distributions; rw = belief-MDP reward) are within the tolerance of the real-valued Bayes quantities;
   within t x y := |x - y| <= t*|y| (purely relative: posteriors of very rare observations are ratios of
   tiny numbers), within_abs t x y := |x - y| <= t + t*|y| (the signed reward sum) *)
Theorem C07_checked_outputs_are_bayes :
  forall nS nA nO P Rw ab ini g Obl tol bl a ed ev nag pd pv bn rw c,
  @wfpb Q NumQ (mQ nS nA nO P Rw ab ini g Obl) = true ->
  @beliefb Q NumQ (mQ nS nA nO P Rw ab ini g Obl) (untab bl) = true ->
  (a < nA)%nat -> 0 <= Q2R tol ->
  @check_ba Q NumQ (mQ nS nA nO P Rw ab ini g Obl) tol bl a ed ev nag pd pv bn rw =
    [true; true; true; true; true; true; c; true] ->
  let m := mR nS nA nO P Rw ab ini g Obl in
  let b := untab (mapQ1 bl) in
  let t := Q2R tol in
  (forall o ns, (o < nO)%nat -> (ns < nS)%nat ->
     (0 < Zm m b a o ->
        within t (untab (nth o (mapQ2 ev) []) ns) (bayes m b a o ns) /\
        within t (lookup (nth o (mapQdd ed) []) ns) (bayes m b a o ns) /\
        within t (untab (nth o (mapQ2 nag) []) ns) (bayes m b a o ns)) /\
     (Zm m b a o = 0 ->
        untab (nth o (mapQ2 ev) []) ns = 0 /\
        nth o (mapQdd ed) [] = [] /\
        untab (nth o (mapQ2 nag) []) ns = 0)) /\
  (forall o, (o < nO)%nat ->
     within t (untab (mapQ1 pv) o) (Zm m b a o) /\ within t (lookup (mapQd pd) o) (Zm m b a o)) /\
  within_abs t (Q2R rw)
         (sumf nS (fun s => sumf nS (fun ns => b s * MDP.P (base m) s a ns * MDP.Rw (base m) s a ns))).
Proof. exact main_checked. Qed.
Print Assumptions C07_checked_outputs_are_bayes.

Theorem C07_checked_absorbing :
  forall nS nA nO P Rw ab ini g Obl bl ia,
  @check_b Q NumQ (mQ nS nA nO P Rw ab ini g Obl) bl ia = [true; true] ->
  (ia = true <->
   sumf nS (fun s => if nth s ab false then untab (mapQ1 bl) s else 0) = 1).
Proof. exact main_absorbing. Qed.
Print Assumptions C07_checked_absorbing.

(* non-vacuity: a concrete 3-state, 2-action, 3-observation POMDP with zero entries and an asymmetric
   kernel satisfies wfp, a belief with a zero component satisfies belief, an impossible observation and
   a merge of equal posteriors both occur, and the checked-output hypotheses are met by concrete data *)
Theorem C07_nonvacuous : nonvacuous_statement.
Proof. exact nonvacuous. Qed.
Print Assumptions C07_nonvacuous.
