(* placeholder until the theory files land *)
From MSDM Require Import model.FactorTable model.GridGame.
Theorem c18_placeholder : True. Proof. exact I. Qed.
Print Assumptions c18_placeholder.
