(* C18 — grid-game transitions are normalised and respect the physical constraints;
   the factor-table algebra they are built from.
   Definitions: model/FactorTable.v, model/GridGame.v.  Proofs: theory/FactorTableTheory.v,
   theory/GridGameTheory.v.  Weights are exp(logit) as exact rationals; [ft_w t r] is the weight
   table t attaches to row r (0 = absent = logit -inf); [req] is dictionary equality of rows. *)
From Coq Require Import QArith List Bool ZArith.
From MSDM Require Import model.FactorTable model.GridGame theory.FactorTableTheory theory.GridGameTheory theory.GridGameMirror.
Import ListNotations.
Local Open Scope Q_scope.

(* The product of two tables over variable sets K1, K2 (shared, disjoint or overlapping) is the natural join:
   its rows are exactly the merges of matching pairs of rows whose weight product is not 0, each listed once,
   and the joined row carries the product of the two weights. *)
Theorem product_natural_join : forall K1 K2 t1 t2,
  table_over K1 t1 -> table_over K2 t2 ->
  rows_distinct (ft_rows (ft_product t1 t2)) /\
  (forall r w, In (r, w) (ft_product t1 t2) ->
     exists r1 r2, In r1 (ft_rows t1) /\ In r2 (ft_rows t2) /\ dict_match r1 r2 = true /\
                   r = dict_merge r1 r2 /\ w = ft_w t1 r1 * ft_w t2 r2 /\ ~ w == 0) /\
  (forall r1 r2, In r1 (ft_rows t1) -> In r2 (ft_rows t2) -> dict_match r1 r2 = true ->
     ft_w (ft_product t1 t2) (dict_merge r1 r2) == ft_w t1 r1 * ft_w t2 r2) /\
  (forall r, (forall r1 r2, In r1 (ft_rows t1) -> In r2 (ft_rows t2) -> dict_match r1 r2 = true ->
                            ~ req r (dict_merge r1 r2)) -> ft_w (ft_product t1 t2) r = 0).
Proof. exact product_natural_join_thm. Qed.
Print Assumptions product_natural_join.

(* ... and it is normalised: the probabilities the constructor attaches are weight / total, summing to 1
   (for ANY two tables with non-negative weights, whatever their variables). *)
Theorem product_normalised : forall t1 t2,
  ft_nonneg t1 -> ft_nonneg t2 -> ft_product t1 t2 <> [] ->
  qsum (ft_probs (ft_product t1 t2)) == 1 /\
  ft_probs (ft_product t1 t2) = map (fun e => snd e / ft_Z (ft_product t1 t2)) (ft_product t1 t2).
Proof. exact FactorTableTheory.product_normalised. Qed.
Print Assumptions product_normalised.

(* Independent tables (disjoint variables, each row listed once) combine into the product measure. *)
Theorem product_independent : forall K1 K2 t1 t2,
  table_over K1 t1 -> table_over K2 t2 -> (forall k, In k K1 -> ~ In k K2) ->
  rows_distinct (ft_rows t1) -> rows_distinct (ft_rows t2) ->
  ft_Z (ft_product t1 t2) == ft_Z t1 * ft_Z t2 /\
  forall r1 w1 r2 w2, In (r1, w1) t1 -> In (r2, w2) t2 ->
    dict_match r1 r2 = true /\
    ft_w (ft_product t1 t2) (dict_merge r1 r2) == w1 * w2 /\
    (0 < ft_Z t1 -> 0 < ft_Z t2 ->
     ft_w (ft_product t1 t2) (dict_merge r1 r2) / ft_Z (ft_product t1 t2) == (w1 / ft_Z t1) * (w2 / ft_Z t2)).
Proof. exact product_independent_thm. Qed.
Print Assumptions product_independent.

(* A mixture of two tables over the same variables adds their weights row by row. *)
Theorem mix_adds : forall K t1 t2,
  table_over K t1 -> table_over K t2 ->
  (forall r, ft_w (ft_mix t1 t2) r == ft_w t1 r + ft_w t2 r) /\
  (t1 <> [] -> t2 <> [] ->
   rows_distinct (ft_rows (ft_mix t1 t2)) /\ forall r w, In (r, w) (ft_mix t1 t2) -> ~ w == 0).
Proof. exact mix_adds_thm. Qed.
Print Assumptions mix_adds.

Theorem scale_def : forall c t,
  ft_rows (ft_scale c t) = ft_rows t /\
  (forall r, ft_w (ft_scale c t) r == ft_w t r * c) /\
  ft_Z (ft_scale c t) == ft_Z t * c /\
  (forall r, ft_w (ft_div c t) r == ft_w t r / c).
Proof. exact scale_def_thm. Qed.
Print Assumptions scale_def.

Theorem marginalize_sums : forall ks t, rows_distinct (ft_rows t) ->
  (forall m, ft_w (ft_marginalize ks t) m ==
             qsum (map (fun e => if row_eqb (restrict ks (fst e)) m then snd e else 0) t)) /\
  ft_Z (ft_marginalize ks t) == ft_Z t /\
  rows_distinct (ft_rows (ft_marginalize ks t)).
Proof. exact marginalize_sums_thm. Qed.
Print Assumptions marginalize_sums.

(* Soundness of the certificate checker run on every next_state_dist the implementation returns. *)
Theorem gg_check_sound : forall L tol s ja d rews,
  all_true (gg_check L tol s ja d rews) = true ->
  (1 - tol <= dsum d <= 1 + tol /\ forall ns p, In (ns, p) d -> 0 <= p) /\
  match s with
  | None =>
      (forall ns p, In (ns, p) d -> 0 < p -> ns = None) /\
      (forall rv x, In rv rews -> In x rv -> x == 0)
  | Some cur =>
      (on_own_goal L cur -> forall ns p, In (ns, p) d -> 0 < p -> ns = None) /\
      (~ on_own_goal L cur ->
         forall ns p, In (ns, p) d -> 0 < p -> exists pos, ns = Some pos /\ outcome_ok L cur ja pos)
  end.
Proof. exact gg_check_sound_thm. Qed.
Print Assumptions gg_check_sound.

(* The mirror of TabularGridGame.next_state_dist (model/GridGame.v, compared with msdm on every run), for ALL
   layouts of any size, any number of agents, every valid non-goal state and every joint action of unit steps:
   every listed outcome has positive probability and satisfies all the physical constraints
   (outcome_ok: in grid, off obstacles, no wall crossing in the blocked direction, displacement in {0, commanded}
   and at most one cell, no two agents on a cell that is not a goal of either, no swap) ... *)
Theorem gg_constraints : forall L cur ja,
  0 <= gFenceP L -> gFenceP L <= 1 -> cur <> [] ->
  state_valid L cur -> actions_unit ja -> walls_proper L ->
  is_absorbing L cur = false ->
  forall ns p, In (ns, p) (gg_next_state_dist L (Some cur) ja) ->
     0 < p /\ exists pos, ns = Some pos /\ outcome_ok L cur ja pos.
Proof. exact gg_constraints_thm. Qed.
Print Assumptions gg_constraints.

(* ... and the distribution sums to 1 (agents in distinct cells, as in every reachable non-terminal state). *)
Theorem gg_normalised : forall L cur ja,
  0 <= gFenceP L -> gFenceP L <= 1 -> cur <> [] ->
  state_valid L cur -> actions_unit ja -> walls_proper L ->
  is_absorbing L cur = false -> agents_apart cur ->
  dsum (gg_next_state_dist L (Some cur) ja) == 1.
Proof. exact gg_normalised_thm. Qed.
Print Assumptions gg_normalised.

Theorem gg_goal_to_terminal : forall L cur ja,
  on_own_goal L cur -> gg_next_state_dist L (Some cur) ja = [(None, 1)].
Proof. exact gg_goal_to_terminal_thm. Qed.
Print Assumptions gg_goal_to_terminal.

Theorem gg_terminal_absorbing : forall L ja, gg_next_state_dist L None ja = [(None, 1)].
Proof. exact gg_terminal_absorbing_thm. Qed.
Print Assumptions gg_terminal_absorbing.

(* The hypotheses "valid state, agents apart" are closed under the transitions: they hold of every reachable
   non-terminal, non-goal state when they hold initially. *)
Theorem gg_valid_closed : forall L cur ja pos,
  state_valid L cur -> outcome_ok L cur ja pos ->
  state_valid L pos /\ (~ on_own_goal L pos -> agents_apart pos).
Proof. exact gg_valid_closed_thm. Qed.
Print Assumptions gg_valid_closed.
