(* C19 — Entropy-regularised policy iteration converges to the soft Bellman fixed point.
   Model: model/EntReg.v (tensors as functions nat -> ... -> R, arbitrary nS, nA; per-state entropy
   weight lam; prior pi0).  wf = the property's quantifier: nA > 0, 0 <= gamma < 1, row-stochastic T,
   lam s > 0, pi0 s a > 0 summing to 1.  Rewards are arbitrary reals.
     lookahead v s a = sum_n T s a n * (Rw s a n + gam * v n)                (E1)
     softmax q s a   = pi0 s a * exp (q s a / lam s) / sum_b pi0 s b * exp (q s b / lam s)   (E2)
     lse q s         = lam s * ln (sum_a pi0 s a * exp (q s a / lam s))       (E3)
     eval_system pi v = the linear system the loop solves for its current policy pi
       (I - gam * P_pi) v = r_pi - lam * sum_a pi ln(pi/pi0), in the code's matrix form.
   The loop stops when pi is isclose to softmax(q) for q = lookahead v, v solving eval_system pi;
   it returns that pi, q, v.  The correspondence check proves E1_at / E2_at / E3_at on the returned
   floats of every converged run with coq-interval. *)
From Coq Require Import Reals.
From MSDM Require Import base.Num base.NumInst model.EntReg theory.EntRegTheory.
Local Open Scope R_scope.

(* stopping condition met exactly (pi is its own improvement): the three equations hold exactly;
   E1 and E2 are hypotheses of this form by construction of the loop, E3 is the content *)
Theorem C19_fixed_point :
  forall nS nA T Rw gam lam pi0, wf nS nA T gam lam pi0 ->
  forall pi v q,
  eval_system nS nA T Rw gam lam pi0 pi v ->
  (forall s a, (s < nS)%nat -> (a < nA)%nat -> q s a = lookahead nS T Rw gam v s a) ->
  (forall s a, (s < nS)%nat -> (a < nA)%nat -> pi s a = softmax nA lam pi0 q s a) ->
  forall s, (s < nS)%nat -> v s = lse nA lam pi0 q s.
Proof. exact entreg_fixed_point. Qed.
Print Assumptions C19_fixed_point.

(* any positive normalised pi: v is below the log-sum-exp by exactly lam * KL(pi || softmax q) *)
Theorem C19_value_gap :
  forall nS nA T Rw gam lam pi0, wf nS nA T gam lam pi0 ->
  forall pi v q,
  eval_system nS nA T Rw gam lam pi0 pi v ->
  (forall s a, (s < nS)%nat -> (a < nA)%nat -> q s a = lookahead nS T Rw gam v s a) ->
  (forall s a, (s < nS)%nat -> (a < nA)%nat -> 0 < pi s a) ->
  (forall s, (s < nS)%nat -> sumf nA (pi s) = 1) ->
  forall s, (s < nS)%nat ->
    v s = lse nA lam pi0 q s - lam s * kl nA pi (softmax nA lam pi0 q) s.
Proof. exact value_gap. Qed.
Print Assumptions C19_value_gap.

(* reported convergence, multiplicative band rho between pi and its improvement *)
Theorem C19_fixed_point_approx :
  forall nS nA T Rw gam lam pi0, wf nS nA T gam lam pi0 ->
  forall pi v q rho,
  eval_system nS nA T Rw gam lam pi0 pi v ->
  (forall s a, (s < nS)%nat -> (a < nA)%nat -> q s a = lookahead nS T Rw gam v s a) ->
  (forall s a, (s < nS)%nat -> (a < nA)%nat -> 0 < pi s a) ->
  (forall s, (s < nS)%nat -> sumf nA (pi s) = 1) ->
  0 <= rho ->
  (forall s a, (s < nS)%nat -> (a < nA)%nat -> pi s a <= (1 + rho) * softmax nA lam pi0 q s a) ->
  forall s, (s < nS)%nat -> lse nA lam pi0 q s - lam s * rho <= v s <= lse nA lam pi0 q s.
Proof. exact entreg_fixed_point_approx. Qed.
Print Assumptions C19_fixed_point_approx.

(* reported convergence, bound in terms of |pi - pi'| (chi-square form) *)
Theorem C19_fixed_point_chi2 :
  forall nS nA T Rw gam lam pi0, wf nS nA T gam lam pi0 ->
  forall pi v q,
  eval_system nS nA T Rw gam lam pi0 pi v ->
  (forall s a, (s < nS)%nat -> (a < nA)%nat -> q s a = lookahead nS T Rw gam v s a) ->
  (forall s a, (s < nS)%nat -> (a < nA)%nat -> 0 < pi s a) ->
  (forall s, (s < nS)%nat -> sumf nA (pi s) = 1) ->
  forall s, (s < nS)%nat ->
    lse nA lam pi0 q s
      - lam s * sumf nA (fun a => (pi s a - softmax nA lam pi0 q s a)
                                  * (pi s a - softmax nA lam pi0 q s a) / softmax nA lam pi0 q s a)
      <= v s <= lse nA lam pi0 q s.
Proof. exact entreg_fixed_point_chi2. Qed.
Print Assumptions C19_fixed_point_chi2.

(* the max-shifted forms evaluated by the generated goals are the unshifted equations *)
Theorem C19_goal_shift :
  forall nA lam pi0 c,
  (forall atol rtol q pi s a, lam s <> 0 -> 0 < Zsum_sh nA lam pi0 c q s ->
     E2sh_at nA lam pi0 c atol rtol q pi s a -> E2_at nA lam pi0 atol rtol q pi s a) /\
  (forall eps v q s, lam s <> 0 -> 0 < Zsum_sh nA lam pi0 c q s ->
     E3sh_at nA lam pi0 c eps v q s -> E3_at nA lam pi0 eps v q s).
Proof. exact (fun nA lam pi0 c => conj (E2_at_shift_gen nA lam pi0 c) (E3_at_shift_gen nA lam pi0 c)). Qed.
Print Assumptions C19_goal_shift.

(* soft versus hard backup: max_a q >= lse q >= max_a q + lam ln pi0(a* ) *)
Theorem C19_soft_vs_hard :
  forall nS nA T gam lam pi0, wf nS nA T gam lam pi0 ->
  forall q s, (s < nS)%nat ->
  exists astar, (astar < nA)%nat /\ q s astar = hardmax nA q s /\
    hardmax nA q s + lam s * ln (pi0 s astar) <= lse nA lam pi0 q s <= hardmax nA q s.
Proof. exact soft_vs_hard. Qed.
Print Assumptions C19_soft_vs_hard.

(* both optimality operators are gamma-contractions in sup norm *)
Theorem C19_soft_contraction :
  forall nS nA T Rw gam lam pi0, wf nS nA T gam lam pi0 ->
  forall v w d, 0 <= d -> (forall n, (n < nS)%nat -> Rabs (v n - w n) <= d) ->
  forall s, (s < nS)%nat ->
    Rabs (lse nA lam pi0 (lookahead nS T Rw gam v) s - lse nA lam pi0 (lookahead nS T Rw gam w) s) <= gam * d.
Proof. exact soft_contraction. Qed.
Print Assumptions C19_soft_contraction.

Theorem C19_hard_contraction :
  forall nS nA T Rw gam lam pi0, wf nS nA T gam lam pi0 ->
  forall v w d, 0 <= d -> (forall n, (n < nS)%nat -> Rabs (v n - w n) <= d) ->
  forall s, (s < nS)%nat ->
    Rabs (hardmax nA (lookahead nS T Rw gam v) s - hardmax nA (lookahead nS T Rw gam w) s) <= gam * d.
Proof. exact hard_contraction. Qed.
Print Assumptions C19_hard_contraction.

(* the soft fixed point the three equations describe is unique *)
Theorem C19_soft_fixed_unique :
  forall nS nA T Rw gam lam pi0, wf nS nA T gam lam pi0 ->
  forall v1 q1 v2 q2,
  soft_fixed nS nA T Rw gam lam pi0 v1 q1 -> soft_fixed nS nA T Rw gam lam pi0 v2 q2 ->
  forall s, (s < nS)%nat -> v1 s = v2 s.
Proof. exact soft_fixed_unique. Qed.
Print Assumptions C19_soft_fixed_unique.

(* from the equations WITH tolerances (what the generated goals establish on the floats) to the
   optimal values vs of the same MDP: explicit distance *)
Theorem C19_soft_to_hard_rate :
  forall nS nA T Rw gam lam pi0, wf nS nA T gam lam pi0 ->
  forall v q vs eps1 eps3 pmin lmax,
  E1 nS nA T Rw gam eps1 v q -> E3 nS nA lam pi0 eps3 v q ->
  hard_fixed nS nA T Rw gam vs ->
  0 <= eps1 -> 0 <= eps3 -> 0 < pmin -> pmin <= 1 ->
  (forall s a, (s < nS)%nat -> (a < nA)%nat -> pmin <= pi0 s a) ->
  (forall s, (s < nS)%nat -> lam s <= lmax) ->
  (forall s, (s < nS)%nat ->
     Rabs (v s - vs s) <= (eps1 + eps3 + lmax * ln (/ pmin)) / (1 - gam)) /\
  (forall s a, (s < nS)%nat -> (a < nA)%nat ->
     Rabs (q s a - lookahead nS T Rw gam vs s a)
       <= eps1 + gam * ((eps1 + eps3 + lmax * ln (/ pmin)) / (1 - gam))).
Proof. exact soft_to_hard_rate. Qed.
Print Assumptions C19_soft_to_hard_rate.

(* uniform prior, scalar weight l: ||q_l - Q*|| <= gamma * l * ln(nA) / (1 - gamma) *)
Theorem C19_rate_uniform :
  forall nS nA T Rw gam l v q vs,
  wf nS nA T gam (fun _ => 1) (fun _ _ => / INR nA) -> 0 < l ->
  soft_fixed nS nA T Rw gam (fun _ => l) (fun _ _ => / INR nA) v q ->
  hard_fixed nS nA T Rw gam vs ->
  forall s a, (s < nS)%nat -> (a < nA)%nat ->
    Rabs (q s a - lookahead nS T Rw gam vs s a) <= gam * l * ln (INR nA) / (1 - gam).
Proof. exact soft_hard_rate_uniform. Qed.
Print Assumptions C19_rate_uniform.

(* "as the entropy weight tends to 0 with a uniform prior, the action values tend to the optimal
   action values of the same MDP" *)
Theorem C19_limit :
  forall nS nA T Rw gam vs,
  wf nS nA T gam (fun _ => 1) (fun _ _ => / INR nA) -> hard_fixed nS nA T Rw gam vs ->
  forall eps, 0 < eps -> exists l0, 0 < l0 /\
    forall l v q, 0 < l -> l < l0 -> soft_fixed nS nA T Rw gam (fun _ => l) (fun _ _ => / INR nA) v q ->
    forall s a, (s < nS)%nat -> (a < nA)%nat ->
      Rabs (q s a - lookahead nS T Rw gam vs s a) <= eps.
Proof. exact soft_to_hard_limit. Qed.
Print Assumptions C19_limit.

(* non-vacuity: one state, two actions with rewards 0 and ln 3, gamma 1/2, weight 1, uniform prior
   meets wf, eval_system, the look-ahead and softmax hypotheses; it is a soft fixed point with
   distinct action values and a non-uniform policy, and the hard optimum 2 ln 3 exists *)
Theorem C19_nonvacuous : example_statement.
Proof. exact example_holds. Qed.
Print Assumptions C19_nonvacuous.
