(* C04 — LRTDP stays an upper bound and ends within the error margin of optimal.

   Three groups of theorems, all for arbitrary finite MDPs (any nS, nA), discounted or not.
   LRTDP's look-ahead is Qlr (0 at absorbing states, future 0 at absorbing successors whatever the
   heuristic says); "optimal value" = any solution of the optimality equations off the absorbing set
   (optfix); the property's hypothesis "every policy reaches an absorbing state with probability 1"
   enters as the checked weight certificate W (proper_weights; it exists iff the MDP is proper, and
   for gamma < 1 always: C04_discounted_proper) and makes the optimum unique.

   A. CERTIFICATE (C04_optimal_value_unique ... C04_returned_policy): hypothesis = the checker
      model/LRTDP.v:c04_check, evaluated by vm_compute on the rationals of msdm's final result
      (values with the heuristic as default, labels, the action returned at each labelled state — the
      greedy action recorded when the state was labelled —, Q, returned policy, initial value)
      and of the harness' exact side certificates, returned all-true.  lmR/loR/lcR are the real-valued
      MDP, result and certificates that data denotes.
   B. MACHINE (C04_lrtdp_upper, C04_lrtdp_solved_inv, C04_lrtdp_bound): every operation sequence
      accepted by the guards of the abstract machine (= every trial history, seed, action order) keeps
      the invariants, for EVERY ADMISSIBLE heuristic: values stay above the optimum, and the action
      recorded when a state is labelled keeps residual <= margin with labelled successors, hence the
      error bound for the returned policy.  This is the property at full strength for the code as
      repaired (the planner returns the recorded action).
      C04_lrtdp_greedy_stable_partial / C04_lrtdp_values_decrease_partial: with a MONOTONE heuristic
      (h >= T h, more than the property asks: hence _partial) the recorded action moreover stays THE
      greedy action of the final table and values only decrease.  C04_recomputed_greedy_refuted shows
      this cannot be had from admissibility alone: it is the witness against the OLD tear-down rule
      (greedy action recomputed from the final table), kept as a regression case in harness/c04.py.
   C. TRACE (C04_trace_is_run): the replay check accepted on the recorded log  ==>  the log IS
      such a run, ending in the implementation's labels, (up to tol) values, and returned actions.
   Not proved: termination ("LRTDP terminates with all initial states labelled") is a
   probability-1 statement over the sampled trials; it is observed per case by the harness. *)
From Coq Require Import QArith Qreals Reals List Bool.
From MSDM Require Import base.Num base.NumInst model.MDP model.VI model.LRTDP
     theory.LRTDPTheory theory.LRTDPMachine theory.LRTDPTransfer theory.LRTDPMain theory.LRTDPExample.
Import ListNotations.
Local Open Scope R_scope.

(* ---------------- A. certificate ---------------- *)
Theorem C04_optimal_value_unique :
  forall nS nA P Rw av ab ini g V sol tch pi Qv ret iv N Vpi Vs W tl,
  @c04_check Q NumQ (mk_mdp nS nA P Rw av ab ini g) (mk_lrout V sol tch pi Qv ret iv)
             (mk_cert N Vpi Vs W) tl = all_true13 ->
  forall V2, optfix (lmR nS nA P Rw av ab ini g) V2 ->
  forall s, (s < nS)%nat -> absflag (lmR nS nA P Rw av ab ini g) s = false ->
    V2 s = cVs (lcR N Vpi Vs W) s.
Proof. exact main_optimal_unique. Qed.
Print Assumptions C04_optimal_value_unique.

(* value estimates (stored, or the heuristic default) never fall below the optimal values *)
Theorem C04_upper_bound :
  forall nS nA P Rw av ab ini g V sol tch pi Qv ret iv N Vpi Vs W tl,
  @c04_check Q NumQ (mk_mdp nS nA P Rw av ab ini g) (mk_lrout V sol tch pi Qv ret iv)
             (mk_cert N Vpi Vs W) tl = all_true13 ->
  forall Vopt, optfix (lmR nS nA P Rw av ab ini g) Vopt ->
  forall s, (s < nS)%nat -> absflag (lmR nS nA P Rw av ab ini g) s = false ->
    Vopt s - Q2R (tu tl) <= lV (loR V sol tch pi Qv ret iv) s.
Proof. exact main_upper. Qed.
Print Assumptions C04_upper_bound.

(* at every labelled non-absorbing state: estimate within margin * (expected steps of the greedy
   policy) above the optimum, and the greedy policy's exact value within the same margin below it *)
Theorem C04_bound_state :
  forall nS nA P Rw av ab ini g V sol tch pi Qv ret iv N Vpi Vs W tl,
  @c04_check Q NumQ (mk_mdp nS nA P Rw av ab ini g) (mk_lrout V sol tch pi Qv ret iv)
             (mk_cert N Vpi Vs W) tl = all_true13 ->
  forall Vopt, 0 <= Q2R (teps tl) -> optfix (lmR nS nA P Rw av ab ini g) Vopt ->
  forall s, (s < nS)%nat -> live (lmR nS nA P Rw av ab ini g) (loR V sol tch pi Qv ret iv) s = true ->
    - Q2R (tu tl) <= lV (loR V sol tch pi Qv ret iv) s - Vopt s <= Q2R (teps tl) * cN (lcR N Vpi Vs W) s /\
    0 <= Vopt s - cVpi (lcR N Vpi Vs W) s <= Q2R (teps tl) * cN (lcR N Vpi Vs W) s + Q2R (tu tl).
Proof. exact main_bound_state. Qed.
Print Assumptions C04_bound_state.

(* the same from the initial distribution (absorbing initial states are worth 0), and the reported
   initial value *)
Theorem C04_bound_initial :
  forall nS nA P Rw av ab ini g V sol tch pi Qv ret iv N Vpi Vs W tl,
  @c04_check Q NumQ (mk_mdp nS nA P Rw av ab ini g) (mk_lrout V sol tch pi Qv ret iv)
             (mk_cert N Vpi Vs W) tl = all_true13 ->
  0 <= Q2R (teps tl) -> 0 <= Q2R (tu tl) ->
    - Q2R (tu tl) <= Einit (lmR nS nA P Rw av ab ini g) (lV (loR V sol tch pi Qv ret iv))
                     - Einit (lmR nS nA P Rw av ab ini g) (cVs (lcR N Vpi Vs W))
                  <= Q2R (teps tl) * Einit (lmR nS nA P Rw av ab ini g) (cN (lcR N Vpi Vs W)) /\
    0 <= Einit (lmR nS nA P Rw av ab ini g) (cVs (lcR N Vpi Vs W))
         - Einit (lmR nS nA P Rw av ab ini g) (cVpi (lcR N Vpi Vs W))
      <= Q2R (teps tl) * Einit (lmR nS nA P Rw av ab ini g) (cN (lcR N Vpi Vs W)) + Q2R (tu tl) /\
    Rabs (linit (loR V sol tch pi Qv ret iv)
          - Einit (lmR nS nA P Rw av ab ini g) (lV (loR V sol tch pi Qv ret iv))) <= Q2R (ti tl).
Proof. exact main_bound_initial. Qed.
Print Assumptions C04_bound_initial.

Theorem C04_initial_states_solved :
  forall nS nA P Rw av ab ini g V sol tch pi Qv ret iv N Vpi Vs W tl,
  @c04_check Q NumQ (mk_mdp nS nA P Rw av ab ini g) (mk_lrout V sol tch pi Qv ret iv)
             (mk_cert N Vpi Vs W) tl = all_true13 ->
  forall s, (s < nS)%nat -> 0 < init (lmR nS nA P Rw av ab ini g) s ->
    lsolved (loR V sol tch pi Qv ret iv) s = true.
Proof. exact main_initial_solved. Qed.
Print Assumptions C04_initial_states_solved.

(* absorbing states: read as 0 by every look-ahead whatever the table/heuristic holds there;
   stored value and reported Q are 0 *)
Theorem C04_absorbing_zero :
  forall nS nA P Rw av ab ini g V sol tch pi Qv ret iv N Vpi Vs W tl,
  @c04_check Q NumQ (mk_mdp nS nA P Rw av ab ini g) (mk_lrout V sol tch pi Qv ret iv)
             (mk_cert N Vpi Vs W) tl = all_true13 ->
  forall s a, (s < nS)%nat -> (a < nA)%nat -> absflag (lmR nS nA P Rw av ab ini g) s = true ->
  (forall V', zabs (lmR nS nA P Rw av ab ini g) V' s = 0 /\ Qlr (lmR nS nA P Rw av ab ini g) V' s a = 0) /\
  (ltouched (loR V sol tch pi Qv ret iv) s = true ->
     lV (loR V sol tch pi Qv ret iv) s = 0 /\
     (forall x, lQ (loR V sol tch pi Qv ret iv) s a = Some x -> x = 0)).
Proof. exact main_absorbing_zero. Qed.
Print Assumptions C04_absorbing_zero.

(* lrtdp_result: reported Q is the look-ahead of the reported values, on available actions only *)
Theorem C04_reported_q :
  forall nS nA P Rw av ab ini g V sol tch pi Qv ret iv N Vpi Vs W tl,
  @c04_check Q NumQ (mk_mdp nS nA P Rw av ab ini g) (mk_lrout V sol tch pi Qv ret iv)
             (mk_cert N Vpi Vs W) tl = all_true13 ->
  forall s a x, (s < nS)%nat -> (a < nA)%nat -> ltouched (loR V sol tch pi Qv ret iv) s = true ->
  lQ (loR V sol tch pi Qv ret iv) s a = Some x ->
  avail (lmR nS nA P Rw av ab ini g) s a = true /\
  Rabs (x - Qlr (lmR nS nA P Rw av ab ini g) (lV (loR V sol tch pi Qv ret iv)) s a) <= Q2R (tq tl).
Proof. exact main_reported_q. Qed.
Print Assumptions C04_reported_q.

(* Bellman residual (against the max) of the final values on labelled states *)
Theorem C04_residual_greedy :
  forall nS nA P Rw av ab ini g V sol tch pi Qv ret iv N Vpi Vs W tl,
  @c04_check Q NumQ (mk_mdp nS nA P Rw av ab ini g) (mk_lrout V sol tch pi Qv ret iv)
             (mk_cert N Vpi Vs W) tl = all_true13 ->
  forall s b, (s < nS)%nat -> live (lmR nS nA P Rw av ab ini g) (loR V sol tch pi Qv ret iv) s = true ->
  Blr (lmR nS nA P Rw av ab ini g) (lV (loR V sol tch pi Qv ret iv)) s = Some b ->
  Rabs (lV (loR V sol tch pi Qv ret iv) s - b) <= Q2R (teps tl) + Q2R (tgre tl) /\
  Qlr (lmR nS nA P Rw av ab ini g) (lV (loR V sol tch pi Qv ret iv)) s (lpi (loR V sol tch pi Qv ret iv) s) <= b.
Proof. exact main_residual. Qed.
Print Assumptions C04_residual_greedy.

(* the returned policy: ANY exact evaluation of res.policy on the labelled states coincides with
   the exact value cVpi of the greedy policy that C04_bound_state / C04_bound_initial speak about *)
Theorem C04_returned_policy :
  forall nS nA P Rw av ab ini g V sol tch pi Qv ret iv N Vpi Vs W tl,
  @c04_check Q NumQ (mk_mdp nS nA P Rw av ab ini g) (mk_lrout V sol tch pi Qv ret iv)
             (mk_cert N Vpi Vs W) tl = all_true13 ->
  forall Vret,
  (forall s, (s < nS)%nat -> live (lmR nS nA P Rw av ab ini g) (loR V sol tch pi Qv ret iv) s = true ->
     Vret s = Qmix (lmR nS nA P Rw av ab ini g) (lret (loR V sol tch pi Qv ret iv)) Vret s) ->
  forall s, (s < nS)%nat -> live (lmR nS nA P Rw av ab ini g) (loR V sol tch pi Qv ret iv) s = true ->
    Vret s = cVpi (lcR N Vpi Vs W) s.
Proof. exact main_returned_policy. Qed.
Print Assumptions C04_returned_policy.

(* discounted MDPs are proper: the weight certificate always exists when gamma < 1 *)
Theorem C04_discounted_proper :
  forall m : mdp R, lrwf m -> gamma m < 1 ->
  (forall s a, (s < nS m)%nat -> (a < nA m)%nat -> avail m s a = true -> sumf (nS m) (P m s a) <= 1) ->
  proper_weights m (fun _ => / (1 - gamma m)).
Proof. exact discounted_weights. Qed.
Print Assumptions C04_discounted_proper.

(* uniqueness of the optimum for proper MDPs, any gamma <= 1 (what "true optimal values" means) *)
Theorem C04_proper_optimum_unique :
  forall (m : mdp R) W V1 V2, lrwf m -> proper_weights m W -> optfix m V1 -> optfix m V2 ->
  forall s, (s < nS m)%nat -> absflag m s = false -> V1 s = V2 s.
Proof. exact optfix_unique. Qed.
Print Assumptions C04_proper_optimum_unique.

(* ---------------- B. abstract machine: all runs ---------------- *)
(* lrtdp_upper + lrtdp_solved_inv: admissible heuristic; every reachable state *)
Theorem C04_lrtdp_upper :
  forall (m : mdp R) eps ord, lrwf m ->
  forall Vs (h : list R) ops st,
  optfix m Vs -> length h = nS m ->
  (forall s, (s < nS m)%nat -> absflag m s = false -> Vs s <= untab h s) ->
  run m eps ord (init_state m h) ops = Some st ->
  forall s, (s < nS m)%nat -> absflag m s = false -> Vs s <= sV st s.
Proof. intros m eps ord Wf Vs h ops st Hf Hl Ha Hr. exact (inv_upper m eps Vs st (run_inv m eps ord Wf Vs h ops st Hf Hl Ha Hr)). Qed.
Print Assumptions C04_lrtdp_upper.

Theorem C04_lrtdp_solved_inv :
  forall (m : mdp R) eps ord, lrwf m ->
  forall Vs (h : list R) ops st,
  optfix m Vs -> length h = nS m ->
  (forall s, (s < nS m)%nat -> absflag m s = false -> Vs s <= untab h s) ->
  run m eps ord (init_state m h) ops = Some st ->
  forall s, (s < nS m)%nat -> sSol st s = true -> absflag m s = false ->
    (sAct st s < nA m)%nat /\ avail m s (sAct st s) = true /\
    Rabs (sV st s - Qlr m (sV st) s (sAct st s)) <= eps /\
    (forall ns, (ns < nS m)%nat -> 0 < P m s (sAct st s) ns -> sSol st ns = true).
Proof. intros m eps ord Wf Vs h ops st Hf Hl Ha Hr. exact (inv_solved m eps Vs st (run_inv m eps ord Wf Vs h ops st Hf Hl Ha Hr)). Qed.
Print Assumptions C04_lrtdp_solved_inv.

(* monotone heuristic: h >= T h stays true, the recorded action of a labelled state stays the
   greedy action (first maximiser in the fixed order), values never exceed the heuristic;
   _partial: monotonicity is more than the property's admissibility *)
Theorem C04_lrtdp_greedy_stable_partial :
  forall (m : mdp R) eps ord, lrwf m -> (forall s a, In a (ord s) -> (a < nA m)%nat) ->
  forall Vs (h : list R) ops st,
  optfix m Vs -> length h = nS m ->
  (forall s, (s < nS m)%nat -> absflag m s = false -> Vs s <= untab h s) ->
  supersol m (untab h) ->
  run m eps ord (init_state m h) ops = Some st ->
  supersol m (sV st) /\ greedy_rec m ord st /\
  (forall s, (s < nS m)%nat -> absflag m s = false -> sV st s <= untab h s).
Proof. exact run_mono_partial. Qed.
Print Assumptions C04_lrtdp_greedy_stable_partial.

(* one step with a monotone value table only lowers values *)
Theorem C04_lrtdp_values_decrease_partial :
  forall (m : mdp R) eps ord, lrwf m -> (forall s a, In a (ord s) -> (a < nA m)%nat) ->
  forall Vs st op st',
  inv m eps Vs st -> supersol m (sV st) -> greedy_rec m ord st -> step m eps ord st op = Some st' ->
  supersol m (sV st') /\ greedy_rec m ord st' /\
  (forall s, (s < nS m)%nat -> absflag m s = false -> sV st' s <= sV st s).
Proof. exact step_mono_partial. Qed.
Print Assumptions C04_lrtdp_values_decrease_partial.

(* lrtdp_bound: in every reachable machine state, every labelled state s obeys
   0 <= V s - V* s <= margin * N s  and  0 <= V* s - V^pi s <= margin * N s  *)
Theorem C04_lrtdp_bound :
  forall (m : mdp R) eps ord, lrwf m ->
  forall Vs (h : list R) ops st (N Vpi : nat -> R),
  0 <= eps -> optfix m Vs -> length h = nS m ->
  (forall s, (s < nS m)%nat -> absflag m s = false -> Vs s <= untab h s) ->
  run m eps ord (init_state m h) ops = Some st ->
  (forall s, (s < nS m)%nat -> 0 <= N s) ->
  (forall s, (s < nS m)%nat -> sSol st s = true -> absflag m s = false ->
     1 + gamma m * sumf (nS m) (fun ns => P m s (sAct st s) ns * zabs m N ns) <= N s) ->
  (forall s, (s < nS m)%nat -> sSol st s = true -> absflag m s = false ->
     Vpi s = Qlr m Vpi s (sAct st s)) ->
  forall s, (s < nS m)%nat -> sSol st s = true -> absflag m s = false ->
    0 <= sV st s - Vs s <= eps * N s /\ 0 <= Vs s - Vpi s <= eps * N s.
Proof. exact run_bound. Qed.
Print Assumptions C04_lrtdp_bound.

(* ---------------- C. trace conformance ---------------- *)
Theorem C04_trace_is_run :
  forall nS nA P Rw av ab ini g eps ordl tol h ops solI VI actI,
  @replay_check Q NumQ (mk_mdp nS nA P Rw av ab ini g) eps (ordf ordl) tol h ops solI VI actI = all_true5 ->
  exists st,
    run (tmR nS nA P Rw av ab ini g) (Q2R eps) (ordf ordl)
        (init_state (tmR nS nA P Rw av ab ini g) (map Q2R h)) (map fst ops) = Some st /\
    stSolved st = solI /\
    (forall s, (s < nS)%nat ->
      Rabs (sV st s - untab (map Q2R VI) s) <= Q2R tol) /\
    (forall s, (s < nS)%nat -> sSol st s = true -> absflag (tmR nS nA P Rw av ab ini g) s = false ->
      sAct st s = nth s actI 0%nat).
Proof. exact main_trace. Qed.
Print Assumptions C04_trace_is_run.

(* ---------------- the old tear-down rule (recomputed greedy action) is refuted ---------------- *)
(* LEMMA ABOUT THE OLD RULE, not about the repaired code.  With a heuristic that is admissible (h at
   least the optimum) but not monotone, a run of the machine (a real trial history of msdm's LRTDP,
   harness/c04.py regression case "regression-nonmonotone") labels every initial state, yet the greedy
   action RECOMPUTED from the final table at the labelled state 1 differs from the action recorded at
   labelling time, has residual > margin, leads to an unlabelled state and is worth -20 where the
   optimum is -10.  So C04_lrtdp_greedy_stable_partial cannot be strengthened to admissible
   heuristics, and a planner returning the recomputed action violates the property (msdm did, until
   fix 2bd631b); C04_lrtdp_solved_inv / C04_lrtdp_bound (recorded action) hold for all admissible
   heuristics. *)
Theorem C04_recomputed_greedy_refuted :
  exists (m : mdp Q) (eps : Q) (ord : nat -> list nat) (h Vs W : list Q) (ops : list lop),
  @lr_wfb Q NumQ m = true /\
  @c_vstar Q NumQ m (mk_cert [] [] Vs W) = true /\ @c_w Q NumQ m (mk_cert [] [] Vs W) = true /\
  forallbn (nS m) (fun s => Qle_bool (untab Vs s) (untab h s)) = true /\
  exists st : @lst Q,
    @run Q NumQ m eps ord (init_state m h) ops = Some st /\
    forallbn (nS m) (fun s => if Qle_bool (init m s) 0 then true else sSol st s) = true /\
    sSol st 1 = true /\ sAct st 1 = 0%nat /\
    @greedy Q NumQ m ord (sV st) 1 = Some 1%nat /\
    @nltb Q NumQ eps (@nabs Q NumQ (@nsub Q NumQ (sV st 1) (@Qlr Q NumQ m (sV st) 1 1))) = true /\
    sSol st 3 = false /\
    Qle_bool (@Qlr Q NumQ m (untab Vs) 1 1) (-20) = true.
Proof. exists nmM, (1#100)%Q, (ordf nmOrd), nmH, nmVs, nmW, nmOps. exact nm_refutes_ex. Qed.
Print Assumptions C04_recomputed_greedy_refuted.

(* ---------------- non-vacuity ---------------- *)
Theorem C04_nonvacuous :
  @c04_check Q NumQ (mk_mdp 3 2 lxP lxR lxAv lxAb lxIni 1%Q)
             (mk_lrout lxV lxSol lxTch lxPi lxQ lxRet lxIv) (mk_cert lxN lxVpi lxVs lxW) lxT = all_true13 /\
  optfix (lmR 3 2 lxP lxR lxAv lxAb lxIni 1%Q) (cVs (lcR lxN lxVpi lxVs lxW)) /\
  @replay_check Q NumQ (mk_mdp 3 2 lxP lxR lxAv lxAb lxIni 1%Q) (1#100)%Q (ordf lxOrd) (1#1000000000)%Q
                lxH lxOps [true; true; true] [(-2)%Q; (-2)%Q; 7%Q] [0%nat; 0%nat; 0%nat] = all_true5.
Proof. exact (conj lx_check (conj lx_optfix lx_replay)). Qed.
Print Assumptions C04_nonvacuous.
