(* PBVI.v — C08: point-based value iteration, alpha-vector policies and QMDP, generic in the
   number type.  Mirrors of
     msdm/algorithms/pointbasedvalueiteration.py  point_based_value_iteration  (pbvi_run)
     msdm/core/pomdp/alphavectorpolicy.py          value / action_value         (alpha_value, alpha_action_value)
     msdm/algorithms/qmdp.py                       QMDPPolicy.action_value/value (qmdp_action_value, qmdp_value)
     msdm/core/pomdp/policy.py                     action_dist                  (greedy_check)
   and the bracketing oracle Wopt (finite-horizon optimal POMDP value on unnormalised beliefs).
   The POMDP record is model/POMDP.v's; the matrices PBVI iterates on are the MASKED ones of
   model/MDP.v (Pm, Rm: rows of absorbing states zeroed) — for gamma < 1 `masked = absorbing`. *)
From Coq Require Import List Arith Bool.
From MSDM Require Import base.Num model.MDP model.POMDP.
Import ListNotations.

Section Generic.
Context {T : Type} {NT : Num T}.
Local Open Scope num_scope.

(* tabulate a function once, read it back by index (vm_compute shares the list) *)
Definition retab (n : nat) (f : nat -> T) : nat -> T :=
  let l := tab n f in fun i => nth i l n0.

(* first index of the maximum of f over 0..n-1 (np.argmax), with the maximum *)
Fixpoint argmaxf (n : nat) (f : nat -> T) : option (nat * T) :=
  match n with
  | O => None
  | S k => let x := f k in
           match argmaxf k f with
           | None => Some (k, x)
           | Some (i, v) => if nltb v x then Some (k, x) else Some (i, v)
           end
  end.

Fixpoint veqb (l1 l2 : list T) : bool :=
  match l1, l2 with
  | [], [] => true
  | x :: r1, y :: r2 => neqb x y && veqb r1 r2
  | _, _ => false
  end.

Variable p : pomdp T.
Notation m := (base p).
Notation nSp := (nS (base p)).
Notation nAp := (nA (base p)).

(* the two tables everything below iterates on; instantiated (end of file) either by their
   definition  tO a o s ns = Pm s a ns * Ob a ns o,  rM s a = Rm s a  or by a tabulation of it
   (same values at all in-range indices, computed once) *)
Variable tO : nat -> nat -> nat -> nat -> T.
Variable rM : nat -> nat -> T.

Definition dot (u al : nat -> T) : T := sumf nSp (fun s => u s * al s).
Definition norm1 (u : nat -> T) : T := sumf nSp (fun s => nabs (u s)).

(* u . T_a . diag(O_ao)   (masked transitions: what PBVI iterates on) *)
Definition stepf (u : nat -> T) (a o : nat) : nat -> T :=
  fun ns => sumf nSp (fun s => u s * tO a o s ns).
Definition step (u : nat -> T) (a o : nat) : nat -> T := retab nSp (stepf u a o).

(* finite-horizon optimal value of the (masked) POMDP on unnormalised beliefs *)
Fixpoint Wopt (k : nat) (u : nat -> T) : T :=
  match k with
  | O => n0
  | S k' => odflt n0 (maxf nAp (fun _ => true) (fun a =>
              dot u (fun s => rM s a) + gamma m * sumf (nO p) (fun o => Wopt k' (step u a o))))
  end.

(* k-step value iteration of the underlying MDP, tabulated *)
Fixpoint Vk (k : nat) : nat -> T :=
  match k with
  | O => fun _ => n0
  | S k' => let V := Vk k' in retab nSp (fun s => odflt n0 (maxf nAp (fun _ => true) (Qval m V s)))
  end.

(* ---------------- alpha-vector policy ---------------- *)
Definition alpha_value (G : list (list T)) (u : nat -> T) : option T :=
  maxf (length G) (fun _ => true) (fun i => dot u (untab (nth i G []))).

(* AlphaVectorPolicy.action_value: one-step reward and Bayes filter of the UNMASKED pomdp
   (pomdp.reward / next_state_dist / state_estimator), gamma * value(posterior) * Pr(o)
   = gamma * value(unnormalised posterior) since value is positively homogeneous *)
Definition stepU (u : nat -> T) (a o : nat) : nat -> T :=
  retab nSp (fun ns => sumf nSp (fun s => u s * P m s a ns) * Ob p a ns o).
Definition alpha_action_value (G : list (list T)) (u : nat -> T) (a : nat) : T :=
  dot u (fun s => sa_reward m s a) +
  gamma m * sumf (nO p) (fun o => odflt n0 (alpha_value G (stepU u a o))).

(* ---------------- QMDP ---------------- *)
Definition qmdp_action_value (Qt : nat -> nat -> T) (u : nat -> T) (a : nat) : T :=
  sumf nSp (fun s => Qt s a * u s).
Definition qmdp_value (Qt : nat -> nat -> T) (u : nat -> T) : option T :=
  maxf nAp (fun _ => true) (qmdp_action_value Qt u).

(* ---------------- action_dist: uniform over the exact maximisers ---------------- *)
Definition greedy_check (ptol : T) (n : nat) (av d : nat -> T) : bool :=
  match maxf n (fun _ => true) av with
  | None => false
  | Some mx =>
    let k := nofnat (countb n (fun a => neqb (av a) mx)) in
    forallbn n (fun a => if neqb (av a) mx then ncloseb ptol (d a * k) n1 else neqb (d a) n0)
  end.

(* ---------------- point_based_value_iteration ---------------- *)
Definition zerov : list T := tab nSp (fun _ => n0).

(* alpha vector of action a when observation o is followed by the vector ch o *)
Definition back_vec (a : nat) (ch : nat -> list T) : list T :=
  tab nSp (fun s => rM s a + gamma m * sumf (nO p) (fun o =>
     sumf nSp (fun ns => tO a o s ns * untab (ch o) ns))).

(* argmax over a list of candidate vectors of their value at u; the flag says that a candidate
   with a DIFFERENT vector is within amb of the maximum (float tie-breaking could differ) *)
Definition pick (amb : T) (cands : list (list T)) (u : nat -> T) : list T * bool :=
  let vals := map (fun c => dot u (untab c)) cands in
  match argmaxf (length cands) (fun i => nth i vals n0) with
  | None => (zerov, false)
  | Some (i, v) =>
    let best := nth i cands [] in
    (best, existsb (fun j => ((v - nth j vals n0) <=? amb) && negb (veqb (nth j cands []) best))
                   (seq 0 (length cands)))
  end.

Definition point_backup (amb : T) (G : list (list T)) (b : list T) : list T * bool :=
  let u := untab b in
  let per_a := map (fun a =>
      let chs := map (fun o => pick amb G (step u a o)) (seq 0 (nO p)) in
      (back_vec a (fun o => fst (nth o chs (zerov, false))), existsb snd chs)) (seq 0 nAp) in
  let r := pick amb (map fst per_a) u in
  (fst r, snd r || existsb snd per_a).

Definition sweep (amb : T) (B G : list (list T)) : list (list T) * bool :=
  let rs := map (point_backup amb G) B in (map fst rs, existsb snd rs).

(* np.abs(old_v - new_v).max() over the belief points *)
Definition vdelta (B G G' : list (list T)) : T :=
  odflt n0 (maxf (length B) (fun _ => true) (fun i =>
    let u := untab (nth i B []) in
    nabs (dot u (untab (nth i G [])) - dot u (untab (nth i G' []))))).

(* returns (alpha vectors, number of sweeps they went through, ambiguity flag) *)
Fixpoint pbvi_loop (fuel j : nat) (amb eps : T) (B G : list (list T)) (fl : bool)
  : list (list T) * nat * bool :=
  match fuel with
  | O => (G, j, fl)
  | S f =>
    let r := sweep amb B G in
    let d := vdelta B G (fst r) in
    let fl' := fl || snd r || (nabs (d - eps) <=? amb) in
    if nltb d eps then (G, j, fl') else pbvi_loop f (S j) amb eps B (fst r) fl'
  end.
Definition pbvi_run (horizon : nat) (amb eps : T) (B : list (list T)) :=
  pbvi_loop horizon 0 amb eps B (map (fun _ => zerov) B) false.


(* ---------------- one sweep, independent of tie-breaking ---------------- *)
(* value at u of the best action-a backup of the vectors G: whatever maximiser is picked per
   observation, the resulting vector has this value at u *)
Definition backup_value (G : list (list T)) (u : nat -> T) (a : nat) : T :=
  dot u (fun s => rM s a) +
  gamma m * sumf (nO p) (fun o => odflt n0 (alpha_value G (step u a o))).
(* the implementation's last sweep: cand[i][a] = its action-a vector at belief point B[i] (computed
   from Gprev), idx[i] = the action it selected.  Each candidate has the tie-independent value at its
   point, and the selected one is maximal there. *)
Definition chk_sweep (tol : T) (Gprev B : list (list T)) (cand : list (list (list T))) (idx : list nat)
  : bool :=
  forallbn (length B) (fun i =>
    let u := untab (nth i B []) in
    let cv := fun a => dot u (untab (nth a (nth i cand []) [])) in
    Nat.eqb (length (nth i cand [])) nAp &&
    forallbn nAp (fun a => ncloseb tol (cv a) (backup_value Gprev u a) &&
                           (cv a <=? cv (nth i idx 0) + tol))).

(* ---------------- the checks the harness evaluates on msdm's output ---------------- *)
Definition rmaxabs : T :=
  odflt n0 (maxf nSp (fun _ => true) (fun s =>
    odflt n0 (maxf nAp (fun _ => true) (fun a => nabs (rM s a))))).
Fixpoint npow (x : T) (k : nat) : T := match k with O => n1 | S k' => x * npow x k' end.
(* |Wopt k u - Wopt n u| <= tail k u for all n >= k  (theorem horizon_tail) *)
Definition tail (k : nat) (u : nat -> T) : T :=
  (norm1 u * npow (gamma m) k) * (rmaxabs / (n1 - gamma m)).

(* alpha vectors that went through j sweeps never exceed the optimum:
   value <= Wopt (min j k) + (tail k if j > k), k = the depth the harness can afford *)
Definition chk_pbvi_upper (tol : T) (k j : nat) (G : list (list T)) (u : nat -> T) : bool :=
  match alpha_value G u with
  | None => false
  | Some v => v <=? (Wopt (Nat.min j k) u + (if Nat.ltb k j then tail k u else n0)) + tol
  end.
(* ... and never exceed the j-step QMDP value *)
Definition chk_pbvi_le_qmdp (tol : T) (j : nat) (G : list (list T)) (u : nat -> T) : bool :=
  match alpha_value G u, j with
  | None, _ => false
  | Some v, O => v <=? tol
  | Some v, S j' => v <=? odflt n0 (qmdp_value (Qval m (Vk j')) u) + tol
  end.
(* QMDP value from the table Qt is at least the optimum (Wopt k - tail k <= W* ) *)
Definition chk_qmdp_lower (tol : T) (k : nat) (Qt : nat -> nat -> T) (u : nat -> T) : bool :=
  match qmdp_value Qt u with
  | None => false
  | Some v => (Wopt k u - tail k u) <=? v + tol
  end.
(* the Q table is the optimal one: Vs is an exact fixed point, Qt within qtol of its look-ahead *)
Definition chk_qtable (qtol : T) (Vs : list T) (Qt : nat -> nat -> T) : bool :=
  forallbn nSp (fun s =>
    match maxf nAp (fun _ => true) (Qval m (untab Vs) s) with
    | Some b => neqb (untab Vs s) b
    | None => false
    end &&
    forallbn nAp (fun a => ncloseb qtol (Qt s a) (Qval m (untab Vs) s a))).


(* PBVI (j sweeps) never exceeds QMDP (table Qt) by more than tail j *)
Definition chk_cross (tol : T) (j : nat) (G : list (list T)) (Qt : nat -> nat -> T) (u : nat -> T) : bool :=
  match alpha_value G u, qmdp_value Qt u with
  | Some v, Some w => v <=? (w + tail j u) + tol
  | _, _ => false
  end.
(* fully observable, belief set closed under successors: PBVI is exact at its belief points,
   i.e. also at least the j-step QMDP value (= Wopt j, theorem fullobs_qmdp_exact) *)
Definition chk_fullobs_ge (tol : T) (j : nat) (G : list (list T)) (u : nat -> T) : bool :=
  match alpha_value G u, j with
  | None, _ => false
  | Some v, O => n0 <=? v + tol
  | Some v, S j' => odflt n0 (qmdp_value (Qval m (Vk j')) u) <=? v + tol
  end.

(* elementwise comparison of two alpha-vector lists *)
Fixpoint vclose (tol : T) (l1 l2 : list T) : bool :=
  match l1, l2 with
  | [], [] => true
  | x :: r1, y :: r2 => ncloseb tol x y && vclose tol r1 r2
  | _, _ => false
  end.
Fixpoint gclose (tol : T) (G1 G2 : list (list T)) : bool :=
  match G1, G2 with
  | [], [] => true
  | x :: r1, y :: r2 => vclose tol x y && gclose tol r1 r2
  | _, _ => false
  end.

(* well-formedness as a boolean (each concrete case discharges it by computation) *)
Definition wfpomdpb : bool :=
  (n0 <=? gamma m) && nltb (gamma m) n1 && negb (Nat.eqb nAp 0) &&
  forallbn nSp (fun s => forallbn nAp (fun a =>
    avail m s a &&
    forallbn nSp (fun ns => n0 <=? P m s a ns) && neqb (sumf nSp (P m s a)) n1)) &&
  forallbn nAp (fun a => forallbn nSp (fun ns =>
    forallbn (nO p) (fun o => n0 <=? Ob p a ns o) && neqb (sumf (nO p) (Ob p a ns)) n1)).
Definition nonnegb (u : nat -> T) : bool := forallbn nSp (fun s => n0 <=? u s).

(* every observation reveals the state: nO = nS and Ob a ns o = [o = ns] *)
Definition fullobsb : bool :=
  Nat.eqb (nO p) nSp &&
  forallbn nAp (fun a => forallbn nSp (fun ns => forallbn (nO p) (fun o =>
    neqb (Ob p a ns o) (if Nat.eqb o ns then n1 else n0)))).

End Generic.

Arguments argmaxf {T NT} n f.

(* ---------------- instantiation of the tables ---------------- *)
Section Inst.
Context {T : Type} {NT : Num T}.
Local Open Scope num_scope.
Variable p : pomdp T.
Notation m := (base p).

Definition tO_def (a o s ns : nat) : T := Pm m s a ns * Ob p a ns o.
Definition rM_def (s a : nat) : T := Rm m s a.

Definition tO_tab : nat -> nat -> nat -> nat -> T :=
  let l := map (fun a => map (fun o => tab2 (nS m) (nS m) (fun s ns => tO_def a o s ns))
                             (seq 0 (nO p))) (seq 0 (nA m)) in
  fun a o s ns => untab2 (nth o (nth a l []) []) s ns.
Definition rM_tab : nat -> nat -> T :=
  let l := tab2 (nS m) (nA m) rM_def in fun s a => untab2 l s a.

(* what the harness evaluates (tabulated tables) *)
Definition WoptF (k : nat) (u : list T) : T := Wopt p tO_tab rM_tab k (untab u).
Definition pbvi_runF (horizon : nat) (amb eps : T) (B : list (list T)) :=
  pbvi_run p tO_tab rM_tab horizon amb eps B.
Definition chk_pbvi_upperF tol k j G (u : list T) := chk_pbvi_upper p tO_tab rM_tab tol k j G (untab u).
Definition chk_pbvi_le_qmdpF tol j G (u : list T) := chk_pbvi_le_qmdp p tol j G (untab u).
Definition chk_qmdp_lowerF tol k (Qt : list (list T)) (u : list T) :=
  chk_qmdp_lower p tO_tab rM_tab tol k (untab2 Qt) (untab u).
Definition chk_qtableF qtol Vs (Qt : list (list T)) := chk_qtable p qtol Vs (untab2 Qt).
Definition chk_crossF tol j G (Qt : list (list T)) (u : list T) :=
  chk_cross p rM_tab tol j G (untab2 Qt) (untab u).
Definition chk_fullobs_geF tol j G (u : list T) := chk_fullobs_ge p tol j G (untab u).
(* mirror run compared with the implementation's alpha vectors:
   (sweeps, ambiguity flag, all vectors within tol) *)
Definition mirror_cmp (horizon : nat) (amb eps : T) (B Gimpl : list (list T)) (tol : T) : nat * bool * bool :=
  let r := pbvi_runF horizon amb eps B in
  (snd (fst r), snd r, gclose tol (fst (fst r)) Gimpl).
Definition chk_sweepF tol Gprev B cand idx := chk_sweep p tO_tab rM_tab tol Gprev B cand idx.
Definition alpha_valueF G (u : list T) : T := odflt n0 (alpha_value p G (untab u)).
Definition alpha_avF G (u : list T) : list T := tab (nA m) (alpha_action_value p G (untab u)).
Definition qmdp_avF (Qt : list (list T)) (u : list T) : list T :=
  tab (nA m) (qmdp_action_value p (untab2 Qt) (untab u)).
Definition greedy_checkF ptol (av d : list T) : bool := greedy_check ptol (nA m) (untab av) (untab d).

End Inst.
