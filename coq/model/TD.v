(* TD.v — C10: the four temporal-difference learners of msdm/algorithms/tdlearning.py
   (QLearning, SARSA, ExpectedSARSA, DoubleQLearning) as folds of their update rule over an
   experience list, generic in the number type (executed on Q, reasoned about on R).

   Q-table = key list (insertion order of the lazily initialised defaultdict2: a state that is
   merely READ is present in the returned table) + total value function (an entry never written
   holds its initial value: 0 at absorbing states, initial_q(s,a) elsewhere).
   An experience is a list of events: EStart s0 (an episode begins in s0) and EStep e, where e
   carries (s, a, r, ns) and the learner-specific choice data: the next action na (SARSA), the
   coin and the argmax pick (double Q), the behaviour distribution (generic expected SARSA). *)
From Coq Require Import List Arith Bool.
From MSDM Require Import base.Num model.MDP.
Import ListNotations.

Record step (T : Type) := mkStep {
  st_s : nat; st_a : nat; st_r : T; st_ns : nat;
  st_na : nat;               (* SARSA: next action, sampled before the update *)
  st_coin : bool;            (* double Q: true = "rng.random() > .5" = the first table is updated *)
  st_pick : nat;             (* double Q: argmax(q_updated[ns], rng).pop() *)
  st_dist : list (nat * T)   (* generic expected SARSA: the distribution the expectation is taken under *)
}.
Arguments mkStep {T}. Arguments st_s {T}. Arguments st_a {T}. Arguments st_r {T}.
Arguments st_ns {T}. Arguments st_na {T}. Arguments st_coin {T}. Arguments st_pick {T}.
Arguments st_dist {T}.

Inductive event (T : Type) := EStart (s : nat) | EStep (e : step T).
Arguments EStart {T}. Arguments EStep {T}.

Record qtab (T : Type) := mkQ { qkeys : list nat; qval : nat -> nat -> T }.
Arguments mkQ {T}. Arguments qkeys {T}. Arguments qval {T}.

Inductive learner := LQ | LSarsa | LESarsa | LESarsaGen | LDouble.

Section TD.
Context {T : Type} {NT : Num T}.
Local Open Scope num_scope.
Variable m : mdp T.
Variable q0 : nat -> nat -> T.      (* the configured initial_q(s, a) *)
Variables alpha eps : T.            (* step_size, rand_choose *)

(* mdp.actions(s), in the order of the action ids *)
Definition acts (s : nat) : list nat := filter (avail m s) (seq 0 (nA m)).
Definition memb (s : nat) (l : list nat) : bool := existsb (Nat.eqb s) l.

(* _initial_q_table: 0.0 at absorbing states, initial_q(s, a) elsewhere *)
Definition q_init_val (s a : nat) : T := if absflag m s then n0 else q0 s a.
Definition q_empty : qtab T := mkQ [] q_init_val.
(* defaultdict2(initialize_defaults=True).__getitem__: reading creates the row *)
Definition q_touch (q : qtab T) (s : nat) : qtab T :=
  if memb s (qkeys q) then q else mkQ (qkeys q ++ [s]) (qval q).
Definition q_set (q : qtab T) (s a : nat) (v : T) : qtab T :=
  mkQ (qkeys q) (fun s' a' => if (s' =? s)%nat && (a' =? a)%nat then v else qval q s' a').
Definition q_row (q : qtab T) (s : nat) : list T := map (qval q s) (acts s).

(* max(d.values()) (0 for an empty row: msdm would raise) ; sum([...]) left to right from 0 *)
Definition maxl (l : list T) : T := match l with [] => n0 | x :: t => fold_left nmax t x end.
Definition suml (l : list T) : T := fold_left nadd l n0.
Definition half : T := n1 / (n1 + n1).

(* q[s][a] += step_size*(r + discount_rate*target - q[s][a]) *)
Definition upd (qsa r tgt : T) : T := qsa + alpha * (r + gamma m * tgt - qsa).

(* both rows read by a step exist afterwards *)
Definition touch2 (q : qtab T) (e : step T) : qtab T := q_touch (q_touch q (st_s e)) (st_ns e).
Definition write (q : qtab T) (e : step T) (tgt : T) : qtab T :=
  q_set q (st_s e) (st_a e) (upd (qval q (st_s e) (st_a e)) (st_r e) tgt).

(* ---- Q-learning: target max_a Q(ns, a) ---- *)
Definition ql_target (q : qtab T) (ns : nat) : T := maxl (q_row q ns).
Definition ql_step (q : qtab T) (e : step T) : qtab T :=
  let q1 := touch2 q e in write q1 e (ql_target q1 (st_ns e)).

(* ---- SARSA: target Q(ns, na) ---- *)
Definition sarsa_step (q : qtab T) (e : step T) : qtab T :=
  let q1 := touch2 q e in write q1 e (qval q1 (st_ns e) (st_na e)).

(* ---- expected SARSA: target sum_a pi(a | ns) Q(ns, a) ---- *)
(* epsilon_softmax_dist at temperature 0: uniform(all)*eps | uniform(maximisers)*(1-eps).
   (for eps = 0 msdm returns the second factor alone: same expectation, 0-weight terms dropped) *)
Definition is_max (row : list T) (v : T) : bool := neqb v (maxl row).
Definition nmaxim (row : list T) : nat := length (filter (is_max row) row).
Definition eg_prob (row : list T) (v : T) : T :=
  (n1 / nofnat (length row)) * eps +
  (if is_max row v then (n1 / nofnat (nmaxim row)) * (n1 - eps) else n0).
Definition eg_dist (q : qtab T) (ns : nat) : list (nat * T) :=
  map (fun a => (a, eg_prob (q_row q ns) (qval q ns a))) (acts ns).
Definition exp_target (q : qtab T) (ns : nat) (d : list (nat * T)) : T :=
  suml (map (fun ap => qval q ns (fst ap) * snd ap) d).
Definition esarsa_step (q : qtab T) (e : step T) : qtab T :=
  let q1 := touch2 q e in write q1 e (exp_target q1 (st_ns e) (eg_dist q1 (st_ns e))).
(* any behaviour distribution (softmax temperatures): supplied with the step *)
Definition esarsag_step (q : qtab T) (e : step T) : qtab T :=
  let q1 := touch2 q e in write q1 e (exp_target q1 (st_ns e) (st_dist e)).

(* ---- double Q-learning: coin picks the table to update; its argmax is evaluated in the other ---- *)
Definition dq_step (qq : qtab T * qtab T) (e : step T) : qtab T * qtab T :=
  let qa := touch2 (fst qq) e in
  let qb := touch2 (snd qq) e in
  if st_coin e then (write qa e (qval qb (st_ns e) (st_pick e)), qb)
  else (qa, write qb e (qval qa (st_ns e) (st_pick e))).
(* the pick is an available maximiser of the table being updated *)
Definition dq_pick_ok (qq : qtab T * qtab T) (e : step T) : bool :=
  let qsel := if st_coin e then fst qq else snd qq in
  memb (st_pick e) (acts (st_ns e)) &&
  is_max (q_row qsel (st_ns e)) (qval qsel (st_ns e) (st_pick e)).
(* returned table: q1[s][a]*.5 + q2[s][a]*.5 over the union of the key sets *)
Definition dq_mean (qq : qtab T * qtab T) : qtab T :=
  mkQ (qkeys (fst qq) ++ filter (fun s => negb (memb s (qkeys (fst qq)))) (qkeys (snd qq)))
      (fun s a => qval (fst qq) s a * half + qval (snd qq) s a * half).

(* ---- training = fold over the experience ---- *)
Definition on_step {S : Type} (f : S -> step T -> S) (st : S) (ev : event T) : S :=
  match ev with EStart _ => st | EStep e => f st e end.
(* SARSA reads q[s0] (first action) at the start of every episode, the others only inside the loop *)
Definition sarsa_event (q : qtab T) (ev : event T) : qtab T :=
  match ev with EStart s => q_touch q s | EStep e => sarsa_step q e end.

Definition ql_train (evs : list (event T)) : qtab T := fold_left (on_step ql_step) evs q_empty.
Definition sarsa_train (evs : list (event T)) : qtab T := fold_left sarsa_event evs q_empty.
Definition esarsa_train (evs : list (event T)) : qtab T := fold_left (on_step esarsa_step) evs q_empty.
Definition esarsag_train (evs : list (event T)) : qtab T := fold_left (on_step esarsag_step) evs q_empty.
Definition dq_train (evs : list (event T)) : qtab T * qtab T :=
  fold_left (on_step dq_step) evs (q_empty, q_empty).

Definition train (L : learner) (evs : list (event T)) : qtab T :=
  match L with
  | LQ => ql_train evs | LSarsa => sarsa_train evs | LESarsa => esarsa_train evs
  | LESarsaGen => esarsag_train evs | LDouble => dq_mean (dq_train evs)
  end.

(* all argmax picks along a double-Q run are legitimate *)
Fixpoint dq_picks_ok (qq : qtab T * qtab T) (evs : list (event T)) : bool :=
  match evs with
  | [] => true
  | EStart _ :: r => dq_picks_ok qq r
  | EStep e :: r => dq_pick_ok (touch2 (fst qq) e, touch2 (snd qq) e) e && dq_picks_ok (dq_step qq e) r
  end.

Definition dq_picks_ok_all (evs : list (event T)) : bool := dq_picks_ok (q_empty, q_empty) evs.

(* ---- the experience is made of real transitions ---- *)
Definition valid_step (e : step T) : bool :=
  (st_s e <? nS m)%nat && (st_ns e <? nS m)%nat && (st_a e <? nA m)%nat &&
  negb (absflag m (st_s e)) && avail m (st_s e) (st_a e) &&
  nltb n0 (P m (st_s e) (st_a e) (st_ns e)) &&
  neqb (st_r e) (Rw m (st_s e) (st_a e) (st_ns e)).
Definition valid_event (ev : event T) : bool :=
  match ev with EStart s => (s <? nS m)%nat | EStep e => valid_step e end.
Definition valid_experience (evs : list (event T)) : bool := forallb valid_event evs.

(* episodes chain: a step starts where the previous one ended (or at the episode's start state),
   an episode is over exactly when an absorbing state is entered; cur = None: between episodes;
   SARSA: the action taken is the next action sampled in the previous step *)
Fixpoint chain_ok (sarsa : bool) (cur : option (nat * option nat)) (evs : list (event T)) : bool :=
  match evs with
  | [] => match cur with None => true | Some (s, _) => absflag m s end
  | EStart s0 :: r =>
      match cur with None => true | Some (s, _) => absflag m s end && chain_ok sarsa (Some (s0, None)) r
  | EStep e :: r =>
      match cur with
      | None => false
      | Some (s, oa) =>
          (s =? st_s e)%nat &&
          match oa with Some a' => negb sarsa || (a' =? st_a e)%nat | None => true end &&
          (negb sarsa || memb (st_na e) (acts (st_ns e))) &&
          chain_ok sarsa (Some (st_ns e, Some (st_na e))) r
      end
  end.

(* the model's own episode generator: a choice stream of (action, successor) pairs is followed while
   it names an available action and a positive-probability successor *)
Fixpoint run_episode (s : nat) (choices : list (nat * nat)) : list (event T) :=
  match choices with
  | [] => []
  | (a, ns) :: r =>
      if (s <? nS m)%nat && (ns <? nS m)%nat && (a <? nA m)%nat &&
         negb (absflag m s) && avail m s a && nltb n0 (P m s a ns)
      then EStep (mkStep s a (Rw m s a ns) ns 0%nat false 0%nat []) :: run_episode ns r
      else []
  end.

(* ---- _create_policy: uniform over the exact maximisers at table states, all actions elsewhere ---- *)
Definition greedy_policy (q : qtab T) (s a : nat) : T :=
  if memb a (acts s) then
    if memb s (qkeys q) then
      (if is_max (q_row q s) (qval q s a) then n1 / nofnat (nmaxim (q_row q s)) else n0)
    else n1 / nofnat (length (acts s))
  else n0.

(* ---- comparison with the implementation's returned data ---- *)
Definition relclose (tol x y : T) : bool := nabs (x - y) <=? tol * (n1 + nabs y).
(* relative to the compared value plus an absolute term: float rounding of q + a*(r + g*t - q) is relative to the
   largest OPERAND of the run (q = 2^20 updated to -1.17 carries an absolute error ~1e-10), not to the result *)
Definition absrelclose (tol atol x y : T) : bool := nabs (x - y) <=? tol * (n1 + nabs y) + atol.
Definition keys_same (ordered : bool) (k1 k2 : list nat) : bool :=
  if ordered then forallb (fun p => (fst p =? snd p)%nat) (combine k1 k2) && (length k1 =? length k2)%nat
  else forallb (fun s => memb s k2) k1 && forallb (fun s => memb s k1) k2 && (length k1 =? length k2)%nat.
Definition table_close (tol atol : T) (q : qtab T) (iq : nat -> nat -> T) : bool :=
  forallb (fun s => forallb (fun a => absrelclose tol atol (iq s a) (qval q s a)) (acts s)) (qkeys q).
Definition policy_close (tol : T) (q : qtab T) (ipol : nat -> nat -> T) : bool :=
  forallbn (nS m) (fun s => forallbn (nA m) (fun a => relclose tol (ipol s a) (greedy_policy q s a))).

End TD.

(* the whole check on one run: [experience valid; episodes chain; argmax picks legitimate;
   key set equal; table equal up to tol; returned policy greedy w.r.t. the RETURNED table] *)
Definition c10_check {T} {NT : Num T} (m : mdp T) (q0 : list (list T)) (alpha eps : T) (L : learner)
           (evs : list (event T)) (ikeys : list nat) (iq ipol : list (list T)) (tol atol : T) : list bool :=
  let qm := train m (untab2 q0) alpha eps L evs in
  [ valid_experience m evs;
    chain_ok m (match L with LSarsa => true | _ => false end) None evs;
    match L with LDouble => dq_picks_ok_all m (untab2 q0) alpha evs | _ => true end;
    keys_same (match L with LDouble => false | _ => true end) (qkeys qm) ikeys;
    table_close m tol atol qm (untab2 iq);
    policy_close m tol (mkQ ikeys (untab2 iq)) (untab2 ipol) ].

(* the model's table at its keys (diagnostics / temperature checks) *)
Definition table_dump {T} {NT : Num T} (m : mdp T) (q : qtab T) : list (nat * list T) :=
  map (fun s => (s, q_row m q s)) (qkeys q).
