(* Dist.v — C11: finite distributions of msdm/core/distributions, mirrored one to one.

   A distribution is its `items()` sequence: an association list in insertion order, exactly
   what a Python dict (DictDistribution) or the generic FiniteDistribution.items() yields.
   Events are values of an arbitrary key type K compared by [keq] (the harness uses nat ids:
   Python events that are == and hash alike — 1, 1.0, True — are ONE id).  Numbers are generic
   in [Num T]: executed on Q by vm_compute, reasoned about on R (theory/DistTheory.v), tied by
   the parametricity transfer (theory/DistTransfer.v).

   Mirrored code: distributions.py FiniteDistribution (sample, items, probs, __and__, __or__,
   __mul__, marginalize, expectation, condition, chain, normalize, joint, is_normalized),
   dictdistribution.py (UniformDistribution, DeterministicDistribution, DictDistribution incl.
   from_pairs), table.py TableDistribution (a Table row read through the dict mix-in),
   random.choices of CPython (cumulative weights + bisect_right(cum, u*total, 0, n-1)).
   SoftmaxDistribution needs exp and lives on the R instance only: theory/DistTheory.v. *)
From Coq Require Import List Arith Bool.
From MSDM Require Import base.Num.
Import ListNotations.

(* ---------------------------------------------------------------------------------- *)
(* Python dict as insertion-ordered association list                                   *)
(* ---------------------------------------------------------------------------------- *)
Section Dict.
Context {K V : Type} (keq : K -> K -> bool).

(* d.get(k) *)
Fixpoint dget (d : list (K * V)) (k : K) : option V :=
  match d with
  | [] => None
  | kv :: r => if keq k (fst kv) then Some (snd kv) else dget r k
  end.

(* d[k] = f(old value or None): an existing key keeps its position AND its key object,
   a new key is appended *)
Fixpoint dupd (d : list (K * V)) (k : K) (f : option V -> V) : list (K * V) :=
  match d with
  | [] => [(k, f None)]
  | kv :: r => if keq k (fst kv) then (fst kv, f (Some (snd kv))) :: r
               else kv :: dupd r k f
  end.

Definition dset (d : list (K * V)) (k : K) (v : V) : list (K * V) := dupd d k (fun _ => v).

(* dict(pairs) / a dict comprehension: later duplicates overwrite the value in place *)
Definition of_pairs (l : list (K * V)) : list (K * V) :=
  fold_left (fun acc kv => dset acc (fst kv) (snd kv)) l [].

Definition memk (k : K) (l : list K) : bool := existsb (keq k) l.

Fixpoint kindex (k : K) (l : list K) : option nat :=
  match l with
  | [] => None
  | x :: r => if keq k x then Some O else option_map S (kindex k r)
  end.
End Dict.

Definition pair_eqb {A B} (ea : A -> A -> bool) (eb : B -> B -> bool) (x y : A * B) : bool :=
  ea (fst x) (fst y) && eb (snd x) (snd y).

(* ---------------------------------------------------------------------------------- *)
Section Dist.
Context {T : Type} {NT : Num T}.
Local Open Scope num_scope.

Definition dist (K : Type) := list (K * T).

Definition keys {K} (d : dist K) : list K := map fst d.       (* support *)
Definition vals {K} (d : dist K) : list T := map snd d.       (* values() *)

(* Python's sum(xs): starts at 0, adds left to right *)
Definition psum (l : list T) : T := fold_left nadd l n0.
Definition mass {K} (d : dist K) : T := psum (vals d).

(* DictDistribution.prob: self.get(e, 0.0) *)
Definition prob {K} (keq : K -> K -> bool) (d : dist K) (k : K) : T :=
  match dget keq d k with Some v => v | None => n0 end.

(* defaultdict(float): newdist[k] += v   (absent key: 0.0 + v) *)
Definition dadd {K} (keq : K -> K -> bool) (d : dist K) (k : K) (v : T) : dist K :=
  dupd keq d k (fun o => match o with Some x => x + v | None => n0 + v end).

(* DictDistribution.from_pairs *)
Definition from_pairs {K} (keq : K -> K -> bool) (l : list (K * T)) : dist K :=
  fold_left (fun acc kv => dadd keq acc (fst kv) (snd kv)) l [].

(* FiniteDistribution.marginalize *)
Definition marginalize {K K2} (keq2 : K2 -> K2 -> bool) (f : K -> K2) (d : dist K) : dist K2 :=
  fold_left (fun acc kv => dadd keq2 acc (f (fst kv)) (snd kv)) d [].

(* FiniteDistribution.chain: cum_dist[new_e] += p*new_p, outer loop over self.items(),
   inner loop over function(e).items() *)
Definition chain {K K2} (keq2 : K2 -> K2 -> bool) (kern : K -> dist K2) (d : dist K) : dist K2 :=
  fold_left (fun acc kv =>
     fold_left (fun acc2 kv2 => dadd keq2 acc2 (fst kv2) (snd kv * snd kv2)) (kern (fst kv)) acc)
     d [].

(* FiniteDistribution.condition: keep weight > 0, dist[e] = p*weight; norm += dist[e];
   then {e: p/norm}.  The comprehension runs over a dict (unique keys): a map. *)
Definition condition_acc {K} (keq : K -> K -> bool) (w : K -> T) (d : dist K) : dist K * T :=
  fold_left (fun st kv =>
     let wt := w (fst kv) in
     if nltb n0 wt then
       let x := snd kv * wt in (dset keq (fst st) (fst kv) x, snd st + x)
     else st) d ([], n0).
Definition condition {K} (keq : K -> K -> bool) (w : K -> T) (d : dist K) : dist K :=
  let st := condition_acc keq w d in
  map (fun kv => (fst kv, snd kv / snd st)) (fst st).

(* FiniteDistribution.joint: {(a, b): pa*pb for a, pa in self.items() for b, pb in other.items()} *)
Definition joint_list {K1 K2} (d1 : dist K1) (d2 : dist K2) : list ((K1 * K2) * T) :=
  flat_map (fun a => map (fun b => ((fst a, fst b), snd a * snd b)) d2) d1.
Definition joint {K1 K2} (keq1 : K1 -> K1 -> bool) (keq2 : K2 -> K2 -> bool)
           (d1 : dist K1) (d2 : dist K2) : dist (K1 * K2) :=
  of_pairs (pair_eqb keq1 keq2) (joint_list d1 d2).

(* __mul__: {e: p*num for e, p in self.items()} *)
Definition scale {K} (keq : K -> K -> bool) (d : dist K) (c : T) : dist K :=
  of_pairs keq (map (fun kv => (fst kv, snd kv * c)) d).

(* __or__ *)
Definition mix {K} (keq : K -> K -> bool) (d1 d2 : dist K) : dist K :=
  fold_left (fun acc kv => dadd keq acc (fst kv) (snd kv)) d2
    (fold_left (fun acc kv => dadd keq acc (fst kv) (snd kv)) d1 []).

(* __and__ in PRODUCT form.  msdm iterates set(self.support) & set(other.support) — a hash
   order, given here as the list [es] (the theorems hold for every enumeration) — and works
   through log/exp: newdist[e] = log p1 + log p2, norm += exp(newdist[e]), result
   exp(l - log norm).  DistTheory.conj_logexp_eq shows the log/exp form equal to this one on R. *)
Definition conj_on {K} (keq : K -> K -> bool) (es : list K) (d1 d2 : dist K) : dist K :=
  let xs := map (fun e => (e, prob keq d1 e * prob keq d2 e)) es in
  let norm := psum (map snd xs) in
  map (fun kv => (fst kv, snd kv / norm)) xs.
(* one enumeration of the common support *)
Definition common {K} (keq : K -> K -> bool) (d1 d2 : dist K) : list K :=
  filter (fun e => memk keq e (keys d2)) (keys d1).

(* expectation: tot = 0; tot += real_function(e)*p *)
Definition expectation {K} (f : K -> T) (d : dist K) : T :=
  fold_left (fun tot kv => tot + f (fst kv) * snd kv) d n0.

(* normalize: total = sum(self.values()); {e: p/total for e, p in self.items()} *)
Definition normalize {K} (keq : K -> K -> bool) (d : dist K) : dist K :=
  let total := mass d in
  of_pairs keq (map (fun kv => (fst kv, snd kv / total)) d).

(* is_normalized: math.isclose(sum(self.probs), 1, rel_tol, abs_tol)
   = |s - 1| <= max(rel_tol * max(|s|, |1|), abs_tol) *)
Definition is_normalized {K} (rtol atol : T) (d : dist K) : bool :=
  let s := mass d in
  nabs (s - n1) <=? nmax (rtol * nmax (nabs s) (nabs n1)) atol.

(* ---- random.choices(population, weights) for one draw u = rng.random() ---- *)
(* itertools.accumulate: first element as is, then running sums *)
Fixpoint accum_from (acc : T) (l : list T) : list T :=
  match l with [] => [] | w :: r => let a := acc + w in a :: accum_from a r end.
Definition accumulate (l : list T) : list T :=
  match l with [] => [] | w :: r => w :: accum_from w r end.

(* bisect.bisect_right(a, x, lo, hi): the binary search itself
     while lo < hi: mid = (lo+hi)//2;  if x < a[mid]: hi = mid  else: lo = mid+1 *)
Fixpoint bisect_right (fuel : nat) (a : list T) (x : T) (lo hi : nat) : nat :=
  match fuel with
  | O => lo
  | S fuel' =>
    if lo <? hi then
      let mid := Nat.div (lo + hi) 2 in
      if nltb x (nth mid a n0) then bisect_right fuel' a x lo mid
      else bisect_right fuel' a x (S mid) hi
    else lo
  end.

(* None = the exception random.choices raises (empty population, length mismatch, total <= 0) *)
Definition sample_choices {K} (pop : list K) (ws : list T) (u : T) : option K :=
  let cum := accumulate ws in
  let n := length pop in
  if negb (length cum =? n) then None else
  match n with
  | O => None
  | S hi =>
    let total := nth hi cum n0 in
    if total <=? n0 then None
    else nth_error pop (bisect_right n cum (u * total) 0 hi)
  end.

(* FiniteDistribution.sample (k = 1): a one-element support is returned without touching the
   generator; otherwise rng.choices(population=support, weights=tuple(self.probs)) *)
Definition sample {K} (keq : K -> K -> bool) (d : dist K) (u : T) : option K :=
  match keys d with
  | [e] => Some e
  | sup => sample_choices sup (map (prob keq d) sup) u
  end.
Definition sample_seq {K} (keq : K -> K -> bool) (d : dist K) (us : list T) : list (option K) :=
  map (sample keq d) us.

(* ---- the provided kinds, each with its own prob / items / sample ---- *)
Inductive kind (K : Type) :=
| KDict (pairs : list (K * T))            (* DictDistribution(dict(pairs)) *)
| KPairs (pairs : list (K * T))           (* DictDistribution.from_pairs(pairs) *)
| KUniform (supp : list K)                (* UniformDistribution(supp) *)
| KDet (v : K)                            (* DeterministicDistribution(v) *)
| KTable (dom : list K) (data : list T).  (* TableDistribution(data, index over dom) *)
Arguments KDict {K}. Arguments KPairs {K}. Arguments KUniform {K}. Arguments KDet {K}.
Arguments KTable {K}.

(* UniformDistribution.prob *)
Definition uprob {K} (keq : K -> K -> bool) (supp : list K) (e : K) : T :=
  if memk keq e supp then n1 / nofnat (length supp) else n0.
(* DeterministicDistribution.prob *)
Definition detprob {K} (keq : K -> K -> bool) (v e : K) : T := if keq e v then n1 else n0.
(* TableDistribution.prob = self.get(e, 0.0) for events looked up in the (single) field domain *)
Definition tprob {K} (keq : K -> K -> bool) (dom : list K) (data : list T) (e : K) : T :=
  match kindex keq e dom with Some i => nth i data n0 | None => n0 end.

(* each kind's own prob method *)
Definition kprob {K} (keq : K -> K -> bool) (k : kind K) (e : K) : T :=
  match k with
  | KDict l => prob keq (of_pairs keq l) e
  | KPairs l => prob keq (from_pairs keq l) e
  | KUniform s => uprob keq s e
  | KDet v => detprob keq v e
  | KTable dom data => tprob keq dom data e
  end.

(* each kind's items(): what every generic operation iterates *)
Definition items {K} (keq : K -> K -> bool) (k : kind K) : dist K :=
  match k with
  | KDict l => of_pairs keq l
  | KPairs l => from_pairs keq l
  | KUniform s => map (fun e => (e, uprob keq s e)) s
  | KDet v => [(v, n1)]
  | KTable dom data => map (fun e => (e, tprob keq dom data e)) dom
  end.

(* rng.choice(support): the generator's choice of an index is external; i is that index *)
Definition uniform_sample {K} (supp : list K) (i : nat) : option K := nth_error supp i.

(* sample per kind: u is the value of rng.random() (choices), i the index drawn by rng.choice *)
Definition ksample {K} (keq : K -> K -> bool) (k : kind K) (u : T) (i : nat) : option K :=
  match k with
  | KUniform s => uniform_sample s i
  | KDet v => Some v
  | _ => sample keq (items keq k) u
  end.

End Dist.

Arguments KDict {T K}. Arguments KPairs {T K}. Arguments KUniform {T K}. Arguments KDet {T K}.
Arguments KTable {T K}.
