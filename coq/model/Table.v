(* Table — executable mirror of msdm's table indexing
     msdm/core/table/tableindex.py : TableIndex._array_index / _index_into_fields /
                                     _index_into_domain / _pad_out_ellipses / _updated_index
     msdm/core/table/table.py      : Table.__getitem__, ProbabilityTable.__getitem__,
                                     Table._validate_table, keys, __len__, AbstractTable.items / get
     msdm/core/mdp/tables.py       : StateTable.__getitem__ (catch set -> StateActionIndexError)
     msdm/core/mdp/tabularpolicy.py: TabularPolicy.action_dist
   plus the part of numpy's ndarray.__getitem__ these reach (integers, full slices and at most one
   integer sequence, including numpy's rule that the broadcast axis of advanced indices that are
   separated by a slice moves to the front).

   A table is an index (named fields with domains) and a cell function from position lists to
   integers (the harness uses pairwise distinct cells).  The data shape of a constructed table
   always equals the lengths of its domains (Table._validate_table), so it is not stored.        *)
From Coq Require Import ZArith List Bool Arith.
From MSDM Require Import model.PyVal.
Import ListNotations.

(* ---- errors -------------------------------------------------------------------------------- *)
Inductive err :=
| EKey            (* KeyError *)
| EIndex          (* IndexError  "Unrecognized field selector" *)
| EIndexSize      (* IndexSizeError   (an IndexError) *)
| EMultiple       (* MultipleIndexError (an IndexError) *)
| ESlice          (* SliceError (a ValueError) *)
| EDomain         (* DomainError (a BaseException) *)
| EValue          (* ValueError from Table._validate_table *)
| EAssert         (* AssertionError: two ellipses *)
| EType           (* TypeError: unhashable key reaching a dict lookup *)
| EStateAction.   (* StateActionIndexError (an IndexError) *)

Inductive res (A : Type) := Ok (a : A) | Err (e : err).
Arguments Ok {A} a.
Arguments Err {A} e.

(* ---- index --------------------------------------------------------------------------------- *)
(* the Python container that holds a field's domain: msdm's domaintuple (TableIndex(field_names, field_domains),
   every classmethod constructor, every restricted field), or the plain tuple / list the caller put into a
   Field passed through TableIndex(fields=[...]).  It matters where msdm compares a selector or another index
   with the domain by ==  (tuple == list is False in Python). *)
Inductive domkind := DKDom | DKTuple | DKList.
Record field := mkField { fname : pv; fdom : list pv; fkind : domkind }.
Definition domval (f : field) : pv :=
  match fkind f with
  | DKDom => PDomTuple (fdom f)
  | DKTuple => PTuple (fdom f)
  | DKList => PList (fdom f)
  end.
Definition tindex := list field.

Definition dom0 (ix : tindex) : list pv := match ix with f :: _ => fdom f | [] => [] end.
Definition shape_of (ix : tindex) : list nat := map (fun f => length (fdom f)) ix.

(* domaintuple.index : dict lookup; TypeError on unhashable, KeyError if absent *)
Definition dom_index (k : pv) (dom : list pv) : res nat :=
  if hashable k then
    match index_of k dom with Some i => Ok i | None => Err EKey end
  else Err EType.

(* what one entry of the resolved numpy index is *)
Inductive seqkind := SList | STuple | SDomTuple.
Inductive aent :=
| AInt (i : nat)
| ASlice
| ASeq (k : seqkind) (l : list nat).

(* what _array_index returns *)
Inductive aidx :=
| AISlice                 (* slice(None) itself *)
| AIEllipsis              (* ... itself *)
| AIOne                   (* the 1-element list/tuple holding slice(None) or ... *)
| AIList (l : list nat)   (* a Python list of positions in the outermost domain *)
| AITuple (es : list aent).

(* _index_into_domain: every element must be found; any KeyError/TypeError -> DomainError *)
Fixpoint index_into_domain (l : list pv) (dom : list pv) : res (list nat) :=
  match l with
  | [] => Ok []
  | e :: r =>
      match dom_index e dom with
      | Ok i => match index_into_domain r dom with
                | Ok js => Ok (i :: js)
                | Err x => Err x
                end
      | Err _ => Err EDomain
      end
  end.

Fixpoint find_ellipsis (l : list pv) : nat :=
  match l with
  | [] => 0
  | x :: r => if is_ellipsis x then 0 else S (find_ellipsis r)
  end.

(* _pad_out_ellipses for an index with n fields *)
Definition pad_out (l : list pv) (n : nat) : res (list pv) :=
  if existsb is_ellipsis l then
    if Nat.eqb (length (filter is_ellipsis l)) 1 then
      let i := find_ellipsis l in
      Ok (firstn i l ++ repeat (PSlice true) (n + 1 - length l) ++ skipn (S i) l)
    else Err EAssert
  else Ok l.

Definition seqkind_of (v : pv) : option (seqkind * list pv) :=
  match v with
  | PList l => Some (SList, l)
  | PTuple l => Some (STuple, l)
  | PDomTuple l => Some (SDomTuple, l)
  | _ => None
  end.

(* the loop of _index_into_fields; cs = contains_sequence *)
Fixpoint iif (sels : list pv) (fs : list field) (cs : bool) : res (list aent) :=
  match sels, fs with
  | s :: sels', f :: fs' =>
      let dom := fdom f in
      let continue (e : aent) (cs' : bool) :=
        match iif sels' fs' cs' with Ok es => Ok (e :: es) | Err x => Err x end in
      if pin s dom then
        match dom_index s dom with Ok i => continue (AInt i) cs | Err x => Err x end
      else if pyeq s (domval f) then
        if cs then Err EMultiple else continue ASlice true
      else
        match seqkind_of s with
        | Some (k, l) =>
            if cs then Err EMultiple else
            match index_into_domain l dom with
            | Ok js => continue (ASeq k js) true
            | Err x => Err x
            end
        | None =>
            match s with
            | PSlice full => if full then continue ASlice cs else Err ESlice
            | _ => Err EIndex
            end
        end
  | _, _ => Ok []
  end.

Definition index_into_fields (ix : tindex) (l : list pv) : res (list aent) :=
  match pad_out l (length ix) with
  | Err e => Err e
  | Ok l' => if Nat.ltb (length ix) (length l') then Err EIndexSize else iif l' ix false
  end.

(* `len(selector) == 1` with a slice or ellipsis inside:
   Some false -> SliceError, Some true -> return the selector itself, None -> go on *)
Definition one_special (l : list pv) : option bool :=
  match l with
  | [PSlice full] => Some full
  | [PEllipsis] => Some true
  | _ => None
  end.

Definition array_index (ix : tindex) (sel : pv) : res aidx :=
  match dom_index sel (dom0 ix) with
  | Ok i => Ok (AITuple [AInt i])
  | Err _ =>                                   (* KeyError / TypeError swallowed *)
      match sel with
      | PSlice full => if full then Ok AISlice else Err ESlice
      | PEllipsis => Ok AIEllipsis
      | PList l =>
          match one_special l with
          | Some false => Err ESlice
          | Some true => Ok AIOne
          | None => match index_into_domain l (dom0 ix) with
                    | Ok js => Ok (AIList js)
                    | Err x => Err x
                    end
          end
      | PDomTuple l =>
          match one_special l with
          | Some false => Err ESlice
          | Some true => Ok AIOne
          | None => match index_into_domain l (dom0 ix) with     (* result is then overwritten *)
                    | Ok _ => match index_into_fields ix l with
                              | Ok es => Ok (AITuple es)
                              | Err x => Err x
                              end
                    | Err x => Err x
                    end
          end
      | PTuple l =>
          match one_special l with
          | Some false => Err ESlice
          | Some true => Ok AIOne
          | None => match index_into_fields ix l with
                    | Ok es => Ok (AITuple es)
                    | Err x => Err x
                    end
          end
      | _ => Err EKey
      end
  end.

(* ---- _updated_index ------------------------------------------------------------------------ *)
Definition restrict (dom : list pv) (js : list nat) : list pv := map (fun i => nth i dom PNone) js.

Definition is_aslice (e : aent) : bool := match e with ASlice => true | _ => false end.

Fixpoint upd_fields (es : list aent) (fs : list field) : list field :=
  match es, fs with
  | [], _ => fs
  | _, [] => []
  | e :: es', f :: fs' =>
      match e with
      | AInt _ => upd_fields es' fs'
      | ASlice => f :: upd_fields es' fs'
      | ASeq STuple _ => upd_fields es' fs'          (* a plain tuple of positions is "a singleton" *)
      | ASeq _ l => mkField (fname f) (restrict (fdom f) l) DKDom :: upd_fields es' fs'
      end
  end.

(* None = `return self` *)
Definition updated_index (ix : tindex) (ai : aidx) : option tindex :=
  match ai with
  | AISlice | AIEllipsis | AIOne => None
  | AIList [] => None                               (* all(...) over an empty list *)
  | AIList l =>
      match ix with
      | f :: fs => Some (mkField (fname f) (restrict (fdom f) l) DKDom :: fs)
      | [] => Some []
      end
  | AITuple es => if forallb is_aslice es then None else Some (upd_fields es ix)
  end.

Definition field_eqb (f g : field) : bool :=
  pyeq (fname f) (fname g) && pyeq (domval f) (domval g).      (* Field is a NamedTuple: (name, domain) == (name, domain) *)
Fixpoint tindex_eqb (a b : tindex) : bool :=
  match a, b with
  | [], [] => true
  | f :: a', g :: b' => field_eqb f g && tindex_eqb a' b'
  | _, _ => false
  end.

(* ---- numpy: data[array_index] ---------------------------------------------------------------- *)
Definition is_aseq (e : aent) : bool := match e with ASeq _ _ => true | _ => false end.
Fixpoint drop_slices (es : list aent) : list aent :=
  match es with ASlice :: r => drop_slices r | _ => es end.
(* are the advanced indices (integers and the sequence) next to each other? *)
Definition adv_adjacent (es : list aent) : bool :=
  forallb (fun e => negb (is_aslice e)) (drop_slices (rev (drop_slices es))).

Fixpoint oshape_inorder (es : list aent) (shape : list nat) : list nat :=
  match es, shape with
  | [], _ => shape
  | _ :: _, [] => []
  | e :: es', d :: shape' =>
      match e with
      | AInt _ => oshape_inorder es' shape'
      | ASlice => d :: oshape_inorder es' shape'
      | ASeq _ l => length l :: oshape_inorder es' shape'
      end
  end.
Fixpoint src_inorder (es : list aent) (out : list nat) : list nat :=
  match es with
  | [] => out
  | AInt i :: es' => i :: src_inorder es' out
  | ASlice :: es' => hd 0 out :: src_inorder es' (tl out)
  | ASeq _ l :: es' => nth (hd 0 out) l 0 :: src_inorder es' (tl out)
  end.

Fixpoint oshape_slices (es : list aent) (shape : list nat) : list nat :=
  match es, shape with
  | [], _ => shape
  | _ :: _, [] => []
  | e :: es', d :: shape' =>
      match e with
      | ASlice => d :: oshape_slices es' shape'
      | _ => oshape_slices es' shape'
      end
  end.
Fixpoint seq_len (es : list aent) : nat :=
  match es with
  | [] => 0
  | ASeq _ l :: _ => length l
  | _ :: r => seq_len r
  end.
Fixpoint src_sf (es : list aent) (j : nat) (out : list nat) : list nat :=
  match es with
  | [] => out
  | AInt i :: es' => i :: src_sf es' j out
  | ASlice :: es' => hd 0 out :: src_sf es' j (tl out)
  | ASeq _ l :: es' => nth j l 0 :: src_sf es' j out
  end.

Definition np_get (es : list aent) (shape : list nat) (cell : list nat -> Z)
  : list nat * (list nat -> Z) :=
  if existsb is_aseq es && negb (adv_adjacent es)
  then (seq_len es :: oshape_slices es shape, fun out => cell (src_sf es (hd 0 out) (tl out)))
  else (oshape_inorder es shape, fun out => cell (src_inorder es out)).

(* ---- tables ---------------------------------------------------------------------------------- *)
Inductive cls := CTable | CProb | CDist | CState | CStateAction | CSAN | CPolicy.
(* ProbabilityTable.__getitem__ in the MRO *)
Definition cls_prob (c : cls) : bool := match c with CProb | CPolicy => true | _ => false end.
(* StateTable.__getitem__ in the MRO *)
Definition cls_state (c : cls) : bool :=
  match c with CState | CStateAction | CSAN | CPolicy => true | _ => false end.

Record table := mkTable { tcls : cls; tix : tindex; tcell : list nat -> Z }.

(* Table._validate_table : data_shape == coords_shape == unique_shape *)
Fixpoint natlist_eqb (a b : list nat) : bool :=
  match a, b with
  | [], [] => true
  | x :: a', y :: b' => Nat.eqb x y && natlist_eqb a' b'
  | _, _ => false
  end.
Definition validate (osh : list nat) (nix : tindex) : bool :=
  natlist_eqb osh (shape_of nix) && forallb (fun f => dupfreeb (fdom f)) nix.

Inductive gres := GSelf | GScalar (z : Z) | GTable (t : table).

Definition entries_of (ai : aidx) : list aent :=
  match ai with AIList l => [ASeq SList l] | AITuple es => es | _ => [] end.

(* Table.__getitem__ / ProbabilityTable.__getitem__ *)
Definition getitem_raw (t : table) (sel : pv) : res gres :=
  match array_index (tix t) sel with
  | Err e => Err e
  | Ok ai =>
      match updated_index (tix t) ai with
      | None => Ok GSelf
      | Some nix =>
          if tindex_eqb nix (tix t) then Ok GSelf else
          let r := np_get (entries_of ai) (shape_of (tix t)) (tcell t) in
          match fst r with
          | [] => Ok (GScalar (snd r []))
          | osh =>
              let c := if cls_prob (tcls t) && Nat.leb (length osh) 1 then CDist else tcls t in
              if validate osh nix then Ok (GTable (mkTable c nix (snd r))) else Err EValue
          end
      end
  end.

(* except (KeyError, IndexError, DomainError) in StateTable.__getitem__ *)
Definition catches_state (e : err) : bool :=
  match e with
  | EKey | EIndex | EIndexSize | EMultiple | EDomain | EStateAction => true
  | _ => false
  end.

Definition getitem (t : table) (sel : pv) : res gres :=
  match getitem_raw t sel with
  | Err e => if cls_state (tcls t) && catches_state e then Err EStateAction else Err e
  | r => r
  end.

(* AbstractTable.get : except KeyError -> default (None here) *)
Definition table_get (t : table) (sel : pv) : res (option gres) :=
  match getitem t sel with
  | Ok r => Ok (Some r)
  | Err EKey => Ok None
  | Err e => Err e
  end.

Definition keys (t : table) : list pv := dom0 (tix t).
Definition len (t : table) : nat := length (dom0 (tix t)).
Definition items (t : table) : list (pv * res gres) := map (fun k => (k, getitem t k)) (keys t).
Definition action_dist (t : table) (s : pv) : res gres := getitem t s.

(* t[s1][s2]...  (a `self` result continues with the same table) *)
Fixpoint chain (t : table) (sels : list pv) : res gres :=
  match sels with
  | [] => Ok GSelf
  | s :: r =>
      match getitem t s with
      | Err e => Err e
      | Ok GSelf => match r with [] => Ok GSelf | _ => chain t r end
      | Ok (GTable t') => match r with [] => Ok (GTable t') | _ => chain t' r end
      | Ok (GScalar z) => match r with [] => Ok (GScalar z) | _ => Err EType end
      end
  end.

(* ---- observations printed for the correspondence harness -------------------------------------- *)
Fixpoint all_ix (shape : list nat) : list (list nat) :=
  match shape with
  | [] => [[]]
  | d :: r => flat_map (fun i => map (cons i) (all_ix r)) (seq 0 d)
  end.

Inductive obs :=
| OSelf
| OScalar (z : Z)
| OTable (c : cls) (names : list pv) (doms : list (list pv)) (data : list Z) (probs : list obs) (kinds : list domkind)
         (ks : list pv) (n : nat)      (* keys() and len() of the returned table itself *)
| OErr (e : err)
| ODefault
| OEarly.

Definition obs_of_get (r : res (option gres)) : obs :=
  match r with
  | Err e => OErr e
  | Ok None => ODefault
  | Ok (Some GSelf) => OSelf
  | Ok (Some (GScalar z)) => OScalar z
  | Ok (Some (GTable t)) => OTable (tcls t) [] [] [] [] [] [] 0
  end.

(* a returned table: class, names, domains, row-major data; for a TableDistribution also
   [prob(e) for e in support] through DictDistribution.prob = self.get(e, 0.0) *)
Definition obs_table (t : table) : obs :=
  OTable (tcls t) (map fname (tix t)) (map fdom (tix t))
         (map (tcell t) (all_ix (shape_of (tix t))))
         (match tcls t with
          | CDist => map (fun e => obs_of_get (table_get t e)) (keys t)
          | _ => []
          end)
         (map fkind (tix t)) (keys t) (len t).

Definition obs_of (r : res gres) : obs :=
  match r with
  | Err e => OErr e
  | Ok GSelf => OSelf
  | Ok (GScalar z) => OScalar z
  | Ok (GTable t) => obs_table t
  end.

Definition obs_get (r : res (option gres)) : obs :=
  match r with
  | Err e => OErr e
  | Ok None => ODefault
  | Ok (Some g) => obs_of (Ok g)
  end.

Fixpoint chain_obs (t : table) (sels : list pv) : list obs :=
  match sels with
  | [] => []
  | s :: r =>
      match getitem t s with
      | Err e => [OErr e]
      | Ok GSelf => OSelf :: chain_obs t r
      | Ok (GScalar z) => OScalar z :: match r with [] => [] | _ => [OEarly] end
      | Ok (GTable t') => obs_table t' :: chain_obs t' r
      end
  end.

(* row-major arange cells, as the harness builds them *)
Fixpoint ravel (shape ixs : list nat) (acc : nat) : nat :=
  match shape, ixs with
  | d :: shape', i :: ixs' => ravel shape' ixs' (acc * d + i)
  | _, _ => acc
  end.
Definition arange_table (c : cls) (fs : list (pv * list pv)) : table :=
  let ix := map (fun p => mkField (fst p) (snd p) DKDom) fs in
  mkTable c ix (fun ixs => Z.of_nat (ravel (shape_of ix) ixs 0)).

(* everything the harness observes about one table: keys, len, items, then per selector chain
   the chain of results, get(sel) of the first selector, and (policies) action_dist *)
Definition run_case (t : table) (chains : list (list pv))
  : list pv * nat * list obs * list (list obs * obs) :=
  (keys t, len t, map (fun kv => obs_of (snd kv)) (items t),
   map (fun ch => (chain_obs t ch,
                   match ch with s :: _ => obs_get (table_get t s) | [] => OEarly end)) chains).
