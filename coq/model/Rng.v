(* model/Rng.v — generator discipline of msdm's randomised components (property C13).

   Executable definitions only.  Three things are modelled:

   1. the TABLE of randomness / hash-order sites that harness/extract_sites.py regenerates from the
      current msdm source on every run (gen/Sites.v : list site), and its classification;
   2. PROGRAMS as resumptions over four sources of non-determinism of a Python process
        GPriv  the private generator made from the seed (or the equally seeded generator passed in)
        GGlob  the process-global generators (random, numpy.random, torch)
        GHash  the per-process string-hash salt (set / dict-of-str iteration order, hash(..))
        GEnt   operating-system entropy (a generator constructed without a seed)
        GCarry state left behind by EARLIER calls: an object-level generator, the problem's own containers permuted in place,
               or class-level state (instance counters) advanced by earlier constructions
      with `run` threading one stream per source;
   3. the seed derivation  obj_seed = digest o hash  over a small universe of Python values. *)
From Coq Require Import String List Bool Arith ZArith.
Import ListNotations.

(* ------------------------------------------------------------------ 1. sites *)
Inductive kind :=
| KPrivate              (* draw on a generator-bound name / seeded construction / sample(rng=<generator>) *)
| KParamDefaultGlobal   (* parameter default  rng=random : global only when the caller passes no generator *)
| KGlobalIfSeedNone     (* global draw / global generator guarded by  seed is None *)
| KAuditedOrderFree     (* set iteration audited (trusted) to produce an order-independent result *)
| KGlobal               (* unconditional use of a process-global generator *)
| KGlobalIfSeedFalsy    (* `seed or <global draw>` : global generator whenever the seed is falsy (0) *)
| KUnseeded             (* generator constructed without a seed *)
| KHashOrder            (* iteration over a set (hash order) *)
| KHash                 (* hash(..) of an arbitrary object *)
| KHashDerivedSeed      (* seed computed from hash(..) (obj_seed) *)
| KShufflesCallerObject   (* in-place shuffle of an object that may be the CALLER's (not provably a fresh copy): the problem's
                             own container is permuted, so state carries over to the next run on the same problem object *)
| KHashOfInstanceCounter  (* hash(obj) of an object whose __hash__ reads state derived from a class-level instance counter: the
                             value depends on how many objects the process constructed earlier *)
| KPersistentAcrossCalls. (* generator constructed OUTSIDE the per-call entry point (in __init__ / a cached property) and
                             consumed by plan_on / train_on: its state carries over to the next call on the same object *)

Record site := mkSite { s_comp : string; s_file : string; s_line : nat; s_kind : kind; s_what : string }.

Inductive gen := GPriv | GGlob | GHash | GEnt | GCarry.

Definition gen_eqb (a b : gen) : bool :=
  match a, b with
  | GPriv, GPriv | GGlob, GGlob | GHash, GHash | GEnt, GEnt | GCarry, GCarry => true
  | _, _ => false
  end.

(* how a component is used *)
Record config := mkConfig { seed_given : bool;      (* a seed (not None) is passed *)
                            seed_falsy : bool;      (* ... and it is falsy, i.e. 0 *)
                            rng_given : bool }.     (* roll-outs: a generator is passed as rng= *)

(* which source a site reads under a configuration *)
Definition resolve (c : config) (k : kind) : gen :=
  match k with
  | KPrivate => GPriv
  | KParamDefaultGlobal => if rng_given c then GPriv else GGlob
  | KGlobalIfSeedNone => if seed_given c then GPriv else GGlob
  | KAuditedOrderFree => GPriv
  | KGlobal => GGlob
  | KGlobalIfSeedFalsy => if seed_given c && negb (seed_falsy c) then GPriv else GGlob
  | KUnseeded => GEnt
  | KHashOrder | KHash | KHashDerivedSeed => GHash
  | KPersistentAcrossCalls | KShufflesCallerObject | KHashOfInstanceCounter => GCarry
  end.

Definition uses_global (k : kind) : bool :=
  match k with KGlobal | KGlobalIfSeedFalsy | KUnseeded => true | _ => false end.
Definition uses_hash (k : kind) : bool :=
  match k with KHashOrder | KHash | KHashDerivedSeed => true | _ => false end.
Definition uses_carried (k : kind) : bool :=
  match k with KPersistentAcrossCalls | KShufflesCallerObject | KHashOfInstanceCounter => true | _ => false end.
Definition is_private (k : kind) : bool := negb (uses_global k || uses_hash k || uses_carried k).

Definition site_private (s : site) : bool := is_private (s_kind s).
Definition site_global (s : site) : bool := uses_global (s_kind s).
Definition site_hash (s : site) : bool := uses_hash (s_kind s).
Definition site_carried (s : site) : bool := uses_carried (s_kind s).

Definition sites_of (tbl : list site) (c : string) : list site :=
  filter (fun s => String.eqb (s_comp s) c) tbl.

Definition kind_code (k : kind) : nat :=
  match k with
  | KPrivate => 0 | KParamDefaultGlobal => 1 | KGlobalIfSeedNone => 2 | KAuditedOrderFree => 3
  | KGlobal => 4 | KGlobalIfSeedFalsy => 5 | KUnseeded => 6 | KHashOrder => 7 | KHash => 8 | KHashDerivedSeed => 9
  | KPersistentAcrossCalls => 10 | KShufflesCallerObject => 11 | KHashOfInstanceCounter => 12
  end.

(* what the harness prints for a component: (all private?, uses a global generator?, depends on hash order?,
   number of sites, the offending sites) *)
Definition offenders (tbl : list site) (c : string) : list (string * nat * nat * string) :=
  map (fun s => (s_file s, s_line s, kind_code (s_kind s), s_what s))
      (filter (fun s => negb (site_private s)) (sites_of tbl c)).

Definition component_report (tbl : list site) (c : string) :=
  let l := sites_of tbl c in
  (forallb site_private l, existsb site_global l, existsb site_hash l, existsb site_carried l, length l, offenders tbl c).

(* ------------------------------------------------------------------ 2. programs *)
Definition stream := nat -> nat.
Definition shd (s : stream) : nat := s 0.
Definition stl (s : stream) : stream := fun n => s (S n).

Definition world := gen -> stream.
Definition upd (w : world) (g : gen) (s : stream) : world :=
  fun g' => if gen_eqb g g' then s else w g'.

(* a program is a tree of draws, each made at a site of the table *)
Inductive prog (A : Type) : Type :=
| Ret (a : A)
| Draw (s : site) (k : nat -> prog A).
Arguments Ret {A} a.
Arguments Draw {A} s k.

Fixpoint run {A : Type} (c : config) (p : prog A) (w : world) : A * world :=
  match p with
  | Ret a => (a, w)
  | Draw s k =>
      let g := resolve c (s_kind s) in
      run c (k (shd (w g))) (upd w g (stl (w g)))
  end.

(* typing judgement: every draw of the program goes through a site of the table *)
Fixpoint uses {A : Type} (p : prog A) (tbl : list site) : Prop :=
  match p with
  | Ret _ => True
  | Draw s k => In s tbl /\ forall d, uses (k d) tbl
  end.

(* ------------------------------------------------------------------ 3. obj_seed *)
Inductive pv := PInt (z : Z) | PNone | PStr (s : string) | PTup (l : list pv).

Section ObjSeed.
  Variable salt : Type.                       (* PYTHONHASHSEED *)
  Variable str_hash : salt -> string -> Z.    (* the only salted hash of CPython (str / bytes) *)
  Variable int_hash : Z -> Z.                 (* hash of an int: reduction modulo 2^61-1, unsalted *)
  Variable none_hash : Z.                     (* hash(None): a constant since 3.12 *)
  Variable mix : Z -> Z -> Z.                 (* tuple hash combinator (xxHash rounds), unsalted *)
  Variable digest : Z -> Z.                   (* int(sha1(h.to_bytes(8,'big',signed=True)).hexdigest(), 16) *)

  Fixpoint pv_hash (sl : salt) (v : pv) : Z :=
    match v with
    | PInt z => int_hash z
    | PNone => none_hash
    | PStr s => str_hash sl s
    | PTup l => (fix go (l : list pv) (acc : Z) : Z :=
                   match l with [] => acc | x :: r => go r (mix acc (pv_hash sl x)) end) l 0%Z
    end.

  Fixpoint no_str (v : pv) : bool :=
    match v with
    | PStr _ => false
    | PTup l => (fix all (l : list pv) : bool := match l with [] => true | x :: r => no_str x && all r end) l
    | _ => true
    end.

  Definition obj_seed (sl : salt) (v : pv) : Z := digest (pv_hash sl v).
End ObjSeed.
