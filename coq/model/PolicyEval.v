(* PolicyEval.v — C02: what TabularPolicy.evaluate_on returns
   (msdm/core/mdp/tabularpolicy.py), as certificate checkers over the returned
   tables, for the discounted branch (_evaluate_on_discounted) and the
   undiscounted non-positive-reward branch (_evaluate_on_undiscounted), plus the
   table plumbing in front of them: Policy.to_tabular (policy.py) and the
   restriction/reordering `self[mdp.state_list,][:,mdp.action_list]`.
   Generic in the number type; executed on Q, reasoned about on R. *)
From Coq Require Import List Arith Bool.
From MSDM Require Import base.Num model.MDP model.VI.
Import ListNotations.

(* ------------------------------------------------------------------ *)
(* bool matrices and the Floyd-Warshall closure (number-free)          *)
(* ------------------------------------------------------------------ *)
Definition btab2 (n : nat) (f : nat -> nat -> bool) : list (list bool) :=
  map (fun i => map (f i) (seq 0 n)) (seq 0 n).
Definition bget (M : list (list bool)) (i j : nat) : bool := nth j (nth i M []) false.

(* for k in range(n): reach[i][j] |= reach[i][k] & reach[k][j] *)
Fixpoint wars (n k : nat) (M0 : list (list bool)) : list (list bool) :=
  match k with
  | O => M0
  | S k' => let M := wars n k' M0 in
            btab2 n (fun i j => bget M i j || (bget M i k' && bget M k' j))
  end.

(* scipy floyd_warshall(adj) < inf : distance 0 on the diagonal *)
Definition closure (n : nat) (E : nat -> nat -> bool) : list (list bool) :=
  wars n n (btab2 n (fun i j => Nat.eqb i j || E i j)).

Definition existsbn (n : nat) (p : nat -> bool) : bool := existsb p (seq 0 n).

(* extended values as numpy reports them *)
Inductive ext (T : Type) : Type := Fin (x : T) | NInf | PInf | NaN.
Arguments Fin {T}. Arguments NInf {T}. Arguments PInf {T}. Arguments NaN {T}.

Definition isfin {T} (x : ext T) : bool := match x with Fin _ => true | _ => false end.
Definition isninf {T} (x : ext T) : bool := match x with NInf => true | _ => false end.
Definition ispinf {T} (x : ext T) : bool := match x with PInf => true | _ => false end.

Section C02.
Context {T : Type} {NT : Num T}.
Local Open Scope num_scope.

Definition fin0 (x : ext T) : T := match x with Fin v => v | _ => n0 end.

(* ---- Policy.to_tabular: rows of (action index in action_list, probability) ---- *)
Fixpoint assoc (a : nat) (l : list (nat * T)) : T :=
  match l with
  | [] => n0
  | (b, p) :: l' => if Nat.eqb a b then p else assoc a l'
  end.
(* psl / pal: the state_list / action_list handed to to_tabular, as indices;
   dist s = items of action_dist(s), actions as indices into the MDP's action list *)
Definition to_tab (psl pal : list nat) (dist : nat -> list (nat * T)) : list (list T) :=
  map (fun s => map (fun a => assoc a (dist s)) pal) psl.

(* ---- self[mdp.state_list,][:, mdp.action_list] ----
   psl/pal: the policy table's own state/action lists written as MDP indices
   (indices >= nS are states the MDP does not have) *)
Fixpoint index_of (x : nat) (l : list nat) : nat :=
  match l with
  | [] => O
  | y :: l' => if Nat.eqb x y then O else S (index_of x l')
  end.
Definition restrict (psl pal : list nat) (data : list (list T)) (s a : nat) : T :=
  untab2 data (index_of s psl) (index_of a pal).

Variable m : mdp T.
Variable pi : nat -> nat -> T.      (* policy matrix in the MDP's index order *)

(* state_rewards, markov_process (absorbing rows zeroed) *)
Definition rpi (s : nat) : T :=
  if absorbing m s then n0 else sumf (nA m) (fun a => pi s a * sa_reward m s a).
Definition Ppi (s z : nat) : T :=
  if absorbing m s then n0 else sumf (nA m) (fun a => pi s a * P m s a z).

(* the policy is a distribution over the available actions of every state *)
Definition wfpolb : bool :=
  forallbn (nS m) (fun s =>
    neqb (sumf (nA m) (pi s)) n1 &&
    forallbn (nA m) (fun a => (n0 <=? pi s a) && (avail m s a || neqb (pi s a) n0))).

Definition wfinitb : bool :=
  neqb (sumf (nS m) (init m)) n1 && forallbn (nS m) (fun s => n0 <=? init m s).

(* ---- the evaluation result, by index ---- *)
Record evalout := mkEOut {
  eV : nat -> ext T;            (* state_value *)
  eQ : nat -> nat -> ext T;     (* action_value *)
  eOcc : nat -> ext T;          (* state_occupancy *)
  eInit : ext T                 (* initial_value *)
}.
Record etols := mkETols {
  tolV : T;    (* residual of the state-value system *)
  tolQ : T;    (* |Q - lookahead(V)| *)
  tolO : T;    (* residual of the occupancy system *)
  tolI : T;    (* |initial_value - init . V| *)
  tolJ : T     (* |initial_value - occupancy . r_pi| *)
}.

Variable o : evalout.
Variable t : etols.

Definition Vf (s : nat) : T := fin0 (eV o s).
Definition Of (s : nat) : T := fin0 (eOcc o s).

(* absorbing states are worth exactly 0 *)
Definition c_abs0 : bool :=
  forallbn (nS m) (fun s => if absorbing m s then
     match eV o s with Fin x => neqb x n0 | _ => false end else true).

(* ================= discounted branch ================= *)
Definition d_disc : bool := nltb (gamma m) n1.

Definition d_fin : bool :=
  forallbn (nS m) (fun s => isfin (eV o s) && isfin (eOcc o s)) && isfin (eInit o).

(* V = T^pi V  (Qpol of model/MDP.v: masked rewards/transitions, i.e. absorbing rows zero) *)
Definition d_v : bool :=
  forallbn (nS m) (fun s => ncloseb (tolV t) (Vf s) (Qpol m pi Vf s)).

(* Q = R + gamma P V at non-absorbing states and available actions;
   -inf exactly at the unavailable actions (all states) *)
Definition d_q : bool :=
  forallbn (nS m) (fun s => forallbn (nA m) (fun a =>
    match eQ o s a with
    | Fin x => avail m s a && (absorbing m s || ncloseb (tolQ t) x (Qval m Vf s a))
    | NInf => negb (avail m s a)
    | _ => false
    end)).

(* occ = init + gamma * occ . P_pi *)
Definition d_occ : bool :=
  forallbn (nS m) (fun z =>
    ncloseb (tolO t) (Of z) (init m z + gamma m * sumf (nS m) (fun s => Of s * Ppi s z))).

Definition d_init : bool :=
  ncloseb (tolI t) (fin0 (eInit o)) (sumf (nS m) (fun s => init m s * Vf s)) &&
  ncloseb (tolJ t) (fin0 (eInit o)) (sumf (nS m) (fun s => Of s * rpi s)).

Definition c02_disc : list bool :=
  [wfb m; wfpolb; wfinitb; d_disc; d_fin; c_abs0; d_v; d_q; d_occ; d_init].

(* ================= undiscounted branch (rewards <= 0) ================= *)
Definition u_undisc : bool := neqb (gamma m) n1.
Definition u_nonpos : bool :=
  forallbn (nS m) (fun s => forallbn (nA m) (fun a => sa_reward m s a <=? n0)).

Definition edge (s z : nat) : bool := nltb n0 (Ppi s z).
Definition accM : list (list bool) := closure (nS m) edge.

Section WithAcc.
Variable A : list (list bool).          (* accessibility matrix *)
Definition rowsum (s : nat) : T := sumf (nS m) (Ppi s).
Definition transient (s : nat) : bool :=
  (existsbn (nS m) (fun j => bget A s j && negb (bget A j s)) || nltb (rowsum s) n1)
  && negb (absorbing m s).
Definition recurrent (s : nat) : bool := negb (transient s) && negb (absorbing m s).
Definition negrec (s : nat) : bool := recurrent s && nltb (rpi s) n0.
(* negative_recurrent_accessible_states *)
Definition neginf (s : nat) : bool := existsbn (nS m) (fun j => bget A s j && negrec j).
(* initial_accessible_recurrent_states *)
Definition occinf (z : nat) : bool :=
  existsbn (nS m) (fun s => nltb n0 (init m s) && bget A s z) && recurrent z.
(* markov_process[recurrent_states] = 0 *)
Definition Pt (s z : nat) : T := if recurrent s then n0 else Ppi s z.

(* the -inf pattern of the state values is exactly neginf *)
Definition u_pat : bool :=
  forallbn (nS m) (fun s =>
    match eV o s with
    | NInf => neginf s
    | Fin _ => negb (neginf s)
    | _ => false
    end).

(* finite values solve the transient system V = r_pi + P_t V *)
Definition u_v : bool :=
  forallbn (nS m) (fun s =>
    if neginf s then true
    else ncloseb (tolV t) (Vf s) (rpi s + sumf (nS m) (fun z => Pt s z * Vf z))).

(* future_action_value with the nan -> 0 convention: -inf iff some
   positive-probability successor is worth -inf *)
Definition qfut (s a : nat) : ext T :=
  if existsbn (nS m) (fun ns => nltb n0 (P m s a ns) && isninf (eV o ns)) then NInf
  else Fin (sumf (nS m) (fun ns => P m s a ns * Vf ns)).

Definition u_q : bool :=
  forallbn (nS m) (fun s => forallbn (nA m) (fun a =>
    match eQ o s a with
    | Fin x => avail m s a &&
               (absorbing m s ||
                match qfut s a with
                | Fin y => ncloseb (tolQ t) x (sa_reward m s a + y)
                | _ => false
                end)
    | NInf => negb (avail m s a) || absorbing m s || isninf (qfut s a)
    | _ => false
    end)).

(* occupancy: +inf exactly at the initially accessible recurrent states; elsewhere
   occ = init + occ . P_t (rows of recurrent states are zero, so their entries do not feed in) *)
Definition u_occ : bool :=
  forallbn (nS m) (fun z =>
    if occinf z then ispinf (eOcc o z)
    else isfin (eOcc o z) &&
         ncloseb (tolO t) (Of z) (init m z + sumf (nS m) (fun s => Of s * Pt s z))).

Definition u_init : bool :=
  if existsbn (nS m) (fun s => nltb n0 (init m s) && neginf s) then isninf (eInit o)
  else isfin (eInit o) &&
       ncloseb (tolI t) (fin0 (eInit o)) (sumf (nS m) (fun s => init m s * Vf s)) &&
       ncloseb (tolJ t) (fin0 (eInit o)) (sumf (nS m) (fun s => Of s * rpi s)).

Definition undisc_clauses : list bool :=
  [wfb m; wfpolb; wfinitb; u_undisc; u_nonpos; c_abs0; u_pat; u_v; u_q; u_occ; u_init].
End WithAcc.

Definition c02_undisc : list bool := undisc_clauses accM.

(* what the harness shows next to a rejected case: the model's classification *)
Definition classes : list (bool * bool * bool * bool) :=
  let A := accM in
  map (fun s => (absorbing m s, transient A s, negrec A s, neginf A s)) (seq 0 (nS m)).

End C02.

Definition mk_eout {T} {NT : Num T} (V : list (ext T)) (Qv : list (list (ext T)))
           (Oc : list (ext T)) (iv : ext T) : evalout :=
  mkEOut (fun s => nth s V NaN) (fun s a => nth a (nth s Qv []) NaN) (fun s => nth s Oc NaN) iv.

(* exact certificates used by the non-vacuity examples and the harness' oracle:
   V is an exact fixed point of the policy operator; occ an exact solution of the occupancy system *)
Definition fixpolb {T} {NT : Num T} (m : mdp T) (pi : nat -> nat -> T) (V : list T) : bool :=
  forallbn (nS m) (fun s => neqb (untab V s) (Qpol m pi (untab V) s)).
Definition occfixb {T} {NT : Num T} (m : mdp T) (pi : nat -> nat -> T) (Oc : list T) : bool :=
  forallbn (nS m) (fun z =>
    neqb (untab Oc z) (nadd (init m z) (nmul (gamma m) (sumf (nS m) (fun s => nmul (untab Oc s) (Ppi m pi s z)))))).

(* certificate that the transient part of the chain is left in finite expected time, off the -inf set:
   tau >= 1 + P_t tau, tau >= 0 (supplied by the harness' exact solve, checked here).  With it the
   finite reported values are within tolV * tau of the limit of the k-step expected total reward
   (theory/PolicyEvalLimit.v). *)
Definition c02_tau {T} {NT : Num T} (m : mdp T) (pi : nat -> nat -> T) (tau : list T) : bool :=
  let A := accM m pi in
  forallbn (nS m) (fun x =>
    if neginf m pi A x then true
    else nleb (nadd n1 (sumf (nS m) (fun z => nmul (Pt m pi A x z) (untab tau z)))) (untab tau x)
         && nleb n0 (untab tau x)).
