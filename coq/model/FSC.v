(* FSC.v — C09: stochastic finite-state controllers on tabular POMDPs.
   Mirrors
     msdm/algorithms/fscgradientascent.py   stochastic_fsc_policy_evaluation_exact
     msdm/core/pomdp/finitestatecontroller.py StochasticFiniteStateController
     msdm/core/pomdp/policy.py               POMDPPolicy.run_on (episode convention)
     msdm/algorithms/fscboundedpolicyiteration.py (node-improvement constraint, result value)
   States / actions / observations / controller nodes are positions in msdm's
   state_list / action_list / observation_list / rows of the strategy arrays.
   Generic in the number type: executed on Q (vm_compute), reasoned about on R. *)
From Coq Require Import List Arith Bool.
From MSDM Require Import base.Num.
Import ListNotations.

Record pomdp (T : Type) := mkPOMDP {
  pS : nat; pA : nat; pO : nat;
  pT : nat -> nat -> nat -> T;     (* transition_matrix[s, a, t] *)
  pOb : nat -> nat -> nat -> T;    (* observation_matrix[a, t, o] *)
  pR : nat -> nat -> T;            (* state_action_reward_matrix[s, a] *)
  pabs : nat -> bool;              (* pomdp.is_absorbing(s): what run_on tests *)
  ps0 : nat -> T;                  (* initial_state_vec *)
  pgamma : T                       (* discount_rate *)
}.
Arguments mkPOMDP {T}. Arguments pS {T}. Arguments pA {T}. Arguments pO {T}.
Arguments pT {T}. Arguments pOb {T}. Arguments pR {T}. Arguments pabs {T}.
Arguments ps0 {T}. Arguments pgamma {T}.

Record fsc (T : Type) := mkFSC {
  fN : nat;                                   (* number of controller nodes *)
  fpi : nat -> nat -> T;                      (* action_strategy[n, a] *)
  fom : nat -> nat -> nat -> nat -> T;        (* observation_strategy[n, a, o, m] *)
  finit : nat -> T                            (* initial_state_dist[n] *)
}.
Arguments mkFSC {T}. Arguments fN {T}. Arguments fpi {T}. Arguments fom {T}. Arguments finit {T}.

Definition nomask (_ : nat) : bool := false.

Section Generic.
Context {T : Type} {NT : Num T}.
Local Open Scope num_scope.
Variable p : pomdp T.
Variable f : fsc T.

(* ------------------------------------------------------------------ *)
(* the code's evaluator: cross-product chain and its linear system     *)
(* ------------------------------------------------------------------ *)
(* Tmu = einsum('na,sat,ato,naom->nsmt', fsc_action, T, O, fsc_state) *)
Definition Tmu (n s m t : nat) : T :=
  sumf (pA p) (fun a => sumf (pO p) (fun o =>
    fpi f n a * pT p s a t * pOb p a t o * fom f n a o m)).
(* Cmu = fsc_action @ R.T *)
Definition Cmu (n s : nat) : T := sumf (pA p) (fun a => fpi f n a * pR p s a).

(* right-hand side of  V = Cmu + gamma * Tmu V ; [msk] selects the states treated as
   terminal (value 0).  The code solves the system with msk = nomask. *)
Definition chain_backup (msk : nat -> bool) (V : nat -> nat -> T) (n s : nat) : T :=
  if msk s then n0 else
  Cmu n s + pgamma p * sumf (fN f) (fun m => sumf (pS p) (fun t => Tmu n s m t * V m t)).

(* the linear system as a boolean residual checker on a returned table *)
Definition fsc_eval_system (msk : nat -> bool) (tol : T) (V : nat -> nat -> T) : bool :=
  forallbn (fN f) (fun n => forallbn (pS p) (fun s =>
    ncloseb tol (V n s) (chain_backup msk V n s))).

(* ------------------------------------------------------------------ *)
(* run semantics (POMDPPolicy.run_on with a latent controller node)     *)
(* ------------------------------------------------------------------ *)
(* one step from (node n, state s): nothing is paid in a terminal state; otherwise the
   node draws a, the world moves to t and pays reward(s,a,t) (expectation pR s a, paid
   also when t is terminal), emits o, the node moves to m, and the episode continues
   from (m, t) discounted -- W is 0 at terminal t because this very clause put it there *)
Definition run_step (msk : nat -> bool) (W : nat -> nat -> T) (n s : nat) : T :=
  if msk s then n0 else
  sumf (pA p) (fun a => fpi f n a *
    (pR p s a + pgamma p *
      sumf (pS p) (fun t => pT p s a t *
        sumf (pO p) (fun o => pOb p a t o *
          sumf (fN f) (fun m => fom f n a o m * W m t))))).

(* k-step expected discounted return, tabulated level by level *)
Fixpoint ret_tab (msk : nat -> bool) (k : nat) : list (list T) :=
  match k with
  | O => tab2 (fN f) (pS p) (fun _ _ => n0)
  | S k' => let W := ret_tab msk k' in tab2 (fN f) (pS p) (run_step msk (untab2 W))
  end.
Definition fsc_return (k n s : nat) : T := untab2 (ret_tab (pabs p) k) n s.

(* the side condition under which masking is immaterial:
   terminal states are zero-reward and never left *)
Definition abs_benign : bool :=
  forallbn (pS p) (fun s =>
    if pabs p s then
      forallbn (pA p) (fun a => neqb (pR p s a) n0 &&
        forallbn (pS p) (fun t => Nat.eqb t s || neqb (pT p s a t) n0))
    else true).

(* ------------------------------------------------------------------ *)
(* the controller object                                                *)
(* ------------------------------------------------------------------ *)
(* action_dist(ag) = ag @ action_strategy *)
Definition ctrl_action_dist (ag : nat -> T) (a : nat) : T :=
  sumf (fN f) (fun n => ag n * fpi f n a).
(* next_agentstate(ag, a, o) = ag @ observation_strategy[:, a, o] *)
Definition ctrl_next_agentstate (ag : nat -> T) (a o : nat) (m : nat) : T :=
  sumf (fN f) (fun n => ag n * fom f n a o m).

(* probability the object assigns to the action sequence of h given its observations:
   what run_on samples from (the world's factors T, O are common to both sides) *)
Fixpoint hist_prob_from (ag : nat -> T) (h : list (nat * nat)) : T :=
  match h with
  | [] => n1
  | (a, o) :: h' => ctrl_action_dist ag a * hist_prob_from (ctrl_next_agentstate ag a o) h'
  end.
Definition hist_prob_impl (h : list (nat * nat)) : T := hist_prob_from (finit f) h.

(* latent-node semantics (the chain the evaluator evaluates): node n plays a with
   fpi n a, and on o moves to m with fom n a o m *)
Fixpoint node_hist_prob (h : list (nat * nat)) (n : nat) : T :=
  match h with
  | [] => n1
  | (a, o) :: h' => fpi f n a * sumf (fN f) (fun m => fom f n a o m * node_hist_prob h' m)
  end.
Definition hist_prob_spec (h : list (nat * nat)) : T :=
  sumf (fN f) (fun n => finit f n * node_hist_prob h n).

(* ------------------------------------------------------------------ *)
(* validity of controllers, reported value, BPI steps                   *)
(* ------------------------------------------------------------------ *)
Definition row_ok (tol : T) (k : nat) (r : nat -> T) : bool :=
  forallbn k (fun i => (n0 - tol) <=? r i) && ncloseb tol (sumf k r) n1.
Definition fsc_rows_valid (tol : T) : bool :=
  forallbn (fN f) (fun n =>
    row_ok tol (pA p) (fpi f n) &&
    forallbn (pA p) (fun a => forallbn (pO p) (fun o => row_ok tol (fN f) (fom f n a o)))) &&
  row_ok tol (fN f) (finit f).

Definition abs_row_le (kap : T) (k : nat) (r : nat -> T) : bool :=
  sumf k (fun i => nabs (r i)) <=? kap.
(* row-wise l1 bounds: kpi for action rows, kom for node-transition rows *)
Definition fsc_bounded (kpi kom : T) : bool :=
  (n0 <=? kpi) && (n0 <=? kom) &&
  forallbn (fN f) (fun n =>
    abs_row_le kpi (pA p) (fpi f n) &&
    forallbn (pA p) (fun a => forallbn (pO p) (fun o => abs_row_le kom (fN f) (fom f n a o)))).
Definition cfac (kpi kom : T) : T := pgamma p * kpi * kom.

Definition pomdp_wfb : bool :=
  (n0 <=? pgamma p) &&
  forallbn (pS p) (fun s => forallbn (pA p) (fun a =>
    forallbn (pS p) (fun t => n0 <=? pT p s a t) && (sumf (pS p) (pT p s a) <=? n1))) &&
  forallbn (pA p) (fun a => forallbn (pS p) (fun t =>
    forallbn (pO p) (fun o => n0 <=? pOb p a t o) && (sumf (pO p) (pOb p a t) <=? n1))).

(* proper controller: exactly row-stochastic (generated controllers) *)
Definition dist_row (k : nat) (r : nat -> T) : bool :=
  forallbn k (fun i => n0 <=? r i) && neqb (sumf k r) n1.
Definition fsc_wfb : bool :=
  forallbn (fN f) (fun n =>
    dist_row (pA p) (fpi f n) &&
    forallbn (pA p) (fun a => forallbn (pO p) (fun o => dist_row (fN f) (fom f n a o)))) &&
  dist_row (fN f) (finit f).

(* value at the initial distributions: fsc_initial_state @ V @ s0 *)
Definition init_value (V : nat -> nat -> T) : T :=
  sumf (fN f) (fun n => finit f n * sumf (pS p) (fun s => V n s * ps0 p s)).
Definition value_ok (tol rep : T) (V : nat -> nat -> T) : bool := ncloseb tol rep (init_value V).

Definition vbound (M : T) (V : nat -> nat -> T) : bool :=
  forallbn (fN f) (fun n => forallbn (pS p) (fun s => nabs (V n s) <=? M)).

(* f is the controller AFTER node n was replaced by an LP solution, V the value table
   BEFORE: the LP's value-improvement constraint with slack eps *)
Definition bpi_node_feasible (msk : nat -> bool) (tol : T) (V : nat -> nat -> T) (n : nat) (eps : T) : bool :=
  (n0 <=? eps) &&
  forallbn (pS p) (fun s => if msk s then true else
     (V n s + eps) <=? (chain_backup msk V n s + tol)).

(* sharing an action row / deterministic controllers (where the object is right) *)
Definition shared_rows : bool :=
  forallbn (fN f) (fun n => forallbn (pA p) (fun a => neqb (fpi f n a) (fpi f 0 a))).
Definition is01 (x : T) : bool := neqb x n0 || neqb x n1.
Definition det_ctrl : bool :=
  forallbn (fN f) (fun n => is01 (finit f n) &&
    forallbn (pA p) (fun a => forallbn (pO p) (fun o => forallbn (fN f) (fun m => is01 (fom f n a o m))))).

End Generic.

(* node-by-node monotonicity of recorded value tables (tables may gain rows: escape nodes) *)
Definition mono_ok {T} {NT : Num T} (tol : T) (N S : nat) (V W : nat -> nat -> T) : bool :=
  forallbn N (fun n => forallbn S (fun s => nleb (V n s) (nadd (W n s) tol))).
Fixpoint mono_chain {T} {NT : Num T} (tol : T) (S : nat) (l : list (list (list T))) : bool :=
  match l with
  | V :: tl =>
    match tl with
    | W :: _ => mono_ok tol (length V) S (untab2 V) (untab2 W) && mono_chain tol S tl
    | [] => true
    end
  | [] => true
  end.

(* all action/observation histories of length k, a-major order *)
Definition hsteps (A O : nat) : list (nat * nat) :=
  flat_map (fun a => map (fun o => (a, o)) (seq 0 O)) (seq 0 A).
Fixpoint hists (A O k : nat) : list (list (nat * nat)) :=
  match k with
  | O => [[]]
  | S k' => flat_map (fun st => map (cons st) (hists A O k')) (hsteps A O)
  end.

(* constructing the models from the arrays the implementation exposes *)
Definition mk_pomdp {T} {NT : Num T} (nS nA nO : nat) (Tl Ol : list (list (list T)))
           (Rl : list (list T)) (ab : list bool) (s0 : list T) (g : T) : pomdp T :=
  mkPOMDP nS nA nO (untab3 Tl) (untab3 Ol) (untab2 Rl) (fun s => nth s ab false) (untab s0) g.
Definition mk_fsc {T} {NT : Num T} (N : nat) (pil : list (list T))
           (oml : list (list (list (list T)))) (ini : list T) : fsc T :=
  mkFSC N (untab2 pil) (fun n a o m => untab3 (nth n oml []) a o m) (untab ini).

(* ---- the checkers the harness evaluates ---- *)
(* evaluator case: generated POMDP + generated controller + the table msdm returned *)
Definition c09_eval_check {T} {NT : Num T} (p : pomdp T) (f : fsc T) (V : list (list T))
           (rep tol vtol M : T) : list bool :=
  [pomdp_wfb p; fsc_wfb p f; abs_benign p;
   fsc_eval_system p f (pabs p) tol (untab2 V);
   fsc_eval_system p f nomask tol (untab2 V);
   vbound p f M (untab2 V);
   value_ok p f vtol rep (untab2 V)].

(* learner result: returned controller (floats), its value table, reported value *)
Definition c09_learn_check {T} {NT : Num T} (p : pomdp T) (f : fsc T) (V : list (list T))
           (rep rtol kpi kom tol vtol : T) : list bool :=
  [pomdp_wfb p; fsc_rows_valid p f rtol; fsc_bounded p f kpi kom; nltb (cfac p kpi kom) n1;
   abs_benign p;
   fsc_eval_system p f (pabs p) tol (untab2 V);
   fsc_eval_system p f nomask tol (untab2 V);
   value_ok p f vtol rep (untab2 V)].

(* controller object: mirror and semantics on every history of length k *)
Definition c09_hist_tables {T} {NT : Num T} (A O : nat) (f : fsc T) (k : nat) : list T * list T :=
  let hs := hists A O k in
  (map (hist_prob_impl f) hs, map (hist_prob_spec f) hs).
