(* POMDP.v — C07: tabular POMDPs over index sets, generic in the number type.
   Mirrors of
     msdm/core/pomdp/pomdp.py        state_estimator, predictive_observation_dist   (dictionary versions)
     msdm/core/pomdp/tabularpomdp.py observation_matrix, state_estimator_vec, predictive_observation_vec
     msdm/core/pomdp/beliefmdp.py    BeliefMDP.next_state_dist / reward / is_absorbing
     msdm/core/pomdp/policy.py       ValueBasedTabularPOMDPPolicy.next_agentstate
   States / actions / observations are positions in state_list / action_list / observation_list.
   A belief is a function nat -> T (dense vector over state_list); dictionaries are association
   lists in index order (the harness sorts msdm's dictionaries by key before comparing). *)
From Coq Require Import List Arith Bool.
From MSDM Require Import base.Num model.MDP.
Import ListNotations.

Record pomdp (T : Type) := mkPOMDP {
  base : mdp T;                      (* transitions P s a ns, rewards, absorbing flags, ... *)
  nO : nat;
  Ob : nat -> nat -> nat -> T        (* Ob a ns o = observation_matrix[a, ns, o] *)
}.
Arguments mkPOMDP {T}. Arguments base {T}. Arguments nO {T}. Arguments Ob {T}.

Section Generic.
Context {T : Type} {NT : Num T}.
Local Open Scope num_scope.

Definition npos (x : T) : bool := nltb n0 x.       (* x > 0.0 *)
Definition nzero (x : T) : bool := neqb x n0.      (* x == 0.0 *)

(* dict.get(k, 0.0) / DictDistribution.prob(k) on an association list *)
Definition lookup (d : list (nat * T)) (k : nat) : T :=
  match find (fun e => Nat.eqb (fst e) k) d with Some e => snd e | None => n0 end.

Variable m : pomdp T.
Notation nSm := (nS (base m)).
Notation nAm := (nA (base m)).
Notation Tr := (P (base m)).

(* ---------------- pomdp.py: dictionary Bayes filter ---------------- *)
(* ns_dist[ns] += o_prob*s_prob*ns_prob, skipping s with b(s) == 0 *)
Definition w_dict (b : nat -> T) (a o ns : nat) : T :=
  sumf nSm (fun s => if nzero (b s) then n0 else (Ob m a ns o * b s) * Tr s a ns).
Definition tot_dict (b : nat -> T) (a o : nat) : T := sumf nSm (w_dict b a o).
(* {} if tot == 0 else {ns: p/tot for p > 0} *)
Definition estimator_dict (b : nat -> T) (a o : nat) : list (nat * T) :=
  let tot := tot_dict b a o in
  if nzero tot then []
  else map (fun ns => (ns, w_dict b a o ns / tot))
           (filter (fun ns => npos (w_dict b a o ns)) (seq 0 nSm)).

(* o_dist[o] += s_prob*ns_prob*o_prob ; zero entries dropped *)
Definition z_dict (b : nat -> T) (a o : nat) : T :=
  sumf nSm (fun s => sumf nSm (fun ns => (b s * Tr s a ns) * Ob m a ns o)).
Definition pred_obs_dict (b : nat -> T) (a : nat) : list (nat * T) :=
  map (fun o => (o, z_dict b a o)) (filter (fun o => npos (z_dict b a o)) (seq 0 (nO m))).

(* ---------------- tabularpomdp.py: vectorised versions ---------------- *)
(* einsum('s,sn,n->n', b, T[:,a,:], Ob[a,:,o]) : predict, then weight by the likelihood *)
Definition w_vec (b : nat -> T) (a o ns : nat) : T :=
  sumf nSm (fun s => b s * Tr s a ns) * Ob m a ns o.
Definition estimator_vec (b : nat -> T) (a o : nat) : list T :=
  let tot := sumf nSm (w_vec b a o) in
  if nzero tot then tab nSm (w_vec b a o) else tab nSm (fun ns => w_vec b a o ns / tot).
(* einsum('s,sn,no->o', b, T[:,a,:], Ob[a]) *)
Definition z_vec (b : nat -> T) (a o : nat) : T :=
  sumf nSm (fun ns => sumf nSm (fun s => b s * Tr s a ns) * Ob m a ns o).
Definition pred_obs_vec (b : nat -> T) (a : nat) : list T := tab (nO m) (z_vec b a).

(* ---------------- beliefmdp.py ---------------- *)
(* [nb.get(e, 0.0) for e in state_list] *)
Definition dense (d : list (nat * T)) : list T := tab nSm (lookup d).

Fixpoint eqlistb (l1 l2 : list T) : bool :=
  match l1, l2 with
  | [], [] => true
  | x :: r1, y :: r2 => neqb x y && eqlistb r1 r2
  | _, _ => false
  end.

(* nb_dist[nb] += o_prob on an insertion-ordered dictionary keyed by the belief tuple *)
Fixpoint merge_add (nb : list T) (p : T) (acc : list (list T * T)) : list (list T * T) :=
  match acc with
  | [] => [(nb, p)]
  | e :: rest => if eqlistb nb (fst e) then (fst e, snd e + p) :: rest
                 else e :: merge_add nb p rest
  end.

Definition posterior (b : nat -> T) (a o : nat) : list T := dense (estimator_dict b a o).

Definition bn_step (b : nat -> T) (a : nat) (acc : list (list T * T)) (e : nat * T) :=
  if npos (snd e) then merge_add (posterior b a (fst e)) (snd e) acc else acc.
Definition belief_next (b : nat -> T) (a : nat) : list (list T * T) :=
  fold_left (bn_step b a) (pred_obs_dict b a) [].

(* r += (sum_ns reward(s,a,ns)*ns_prob) * s_prob *)
Definition belief_reward (b : nat -> T) (a : nat) : T :=
  sumf nSm (fun s => sumf nSm (fun ns => Rw (base m) s a ns * Tr s a ns) * b s).

(* no state with prob > 0 that is not absorbing (the declared flag pomdp.is_absorbing) *)
Definition belief_absorbing (b : nat -> T) : bool :=
  forallbn nSm (fun s => negb (npos (b s) && negb (absflag (base m) s))).

(* policy.py: Belief(ss, tuple(ns_dist.prob(ns) for ns in ss)) *)
Definition next_agentstate (b : nat -> T) (a o : nat) : list T := posterior b a o.

(* ---------------- hypotheses of the theorems, as boolean tests ---------------- *)
Definition wfpb : bool :=
  forallbn nSm (fun s => forallbn nAm (fun a =>
    forallbn nSm (fun ns => n0 <=? Tr s a ns) && neqb (sumf nSm (Tr s a)) n1)) &&
  forallbn nAm (fun a => forallbn nSm (fun ns =>
    forallbn (nO m) (fun o => n0 <=? Ob m a ns o) && neqb (sumf (nO m) (Ob m a ns)) n1)).
Definition beliefb (b : nat -> T) : bool :=
  forallbn nSm (fun s => n0 <=? b s) && neqb (sumf nSm b) n1.

(* ---------------- comparison with the implementation's outputs ---------------- *)
(* probabilities are compared with a purely RELATIVE tolerance (posteriors of very rare observations
   are ratios of tiny numbers; an exact 0 must be matched by an exact 0); the signed reward sum with
   an absolute + relative one *)
Definition close (tol x y : T) : bool := nabs (x - y) <=? tol * nabs y.   (* |x-y| <= tol*|y| *)
Definition close_abs (tol x y : T) : bool := niscloseb tol tol x y.       (* |x-y| <= tol + tol*|y| *)
Fixpoint close_list (tol : T) (l1 l2 : list T) : bool :=
  match l1, l2 with
  | [], [] => true
  | x :: r1, y :: r2 => close tol x y && close_list tol r1 r2
  | _, _ => false
  end.
Fixpoint close_dict (tol : T) (d1 d2 : list (nat * T)) : bool :=
  match d1, d2 with
  | [], [] => true
  | e1 :: r1, e2 :: r2 => Nat.eqb (fst e1) (fst e2) && close tol (snd e1) (snd e2) && close_dict tol r1 r2
  | _, _ => false
  end.
Fixpoint forall2b {A B} (p : A -> B -> bool) (l1 : list A) (l2 : list B) : bool :=
  match l1, l2 with
  | [], [] => true
  | x :: r1, y :: r2 => p x y && forall2b p r1 r2
  | _, _ => false
  end.

(* distributions over belief tuples: every implementation entry is matched (posterior within tol)
   to an entry of the model, and the implementation mass matched to each model entry is within
   tol of the model's probability *)
Fixpoint find_close (tol : T) (nb : list T) (mdl : list (list T * T)) (j : nat) : option nat :=
  match mdl with
  | [] => None
  | e :: r => if close_list tol nb (fst e) then Some j else find_close tol nb r (S j)
  end.
Definition mass_on (tol : T) (impl mdl : list (list T * T)) (j : nat) : T :=
  sumlist (map (fun e => match find_close tol (fst e) mdl 0 with
                         | Some k => if Nat.eqb k j then snd e else n0
                         | None => n0 end) impl).
Definition close_bdist (tol : T) (impl mdl : list (list T * T)) : bool :=
  forallb (fun e => match find_close tol (fst e) mdl 0 with Some _ => true | None => false end) impl &&
  forallb (fun j => close tol (mass_on tol impl mdl j) (snd (nth j mdl ([], n0))))
          (seq 0 (length mdl)).

(* observation_matrix, exactly *)
Definition obs_matrix_eq (om : list (list (list T))) : bool :=
  Nat.eqb (length om) nAm &&
  forallbn nAm (fun a => Nat.eqb (length (nth a om [])) nSm &&
    forallbn nSm (fun ns => Nat.eqb (length (nth ns (nth a om []) [])) (nO m) &&
      forallbn (nO m) (fun o => neqb (untab3 om a ns o) (Ob m a ns o)))).

(* everything msdm returns for one (belief, action): per observation index 0..nO (index nO is an
   observation the POMDP never emits) the dictionary posterior and next_agentstate, per observation
   index < nO the vector posterior; both predictive distributions; the belief-MDP transition and
   reward.  Result: one boolean per compared quantity. *)
Definition check_ba (tol : T) (bl : list T) (a : nat)
           (ed : list (list (nat * T))) (ev : list (list T)) (nag : list (list T))
           (pd : list (nat * T)) (pv : list T) (bn : list (list T * T)) (rw : T) : list bool :=
  let b := untab bl in
  let mbn := belief_next b a in
  [ forall2b (fun o d => close_dict tol d (estimator_dict b a o)) (seq 0 (S (nO m))) ed;
    forall2b (fun o v => close_list tol v (estimator_vec b a o)) (seq 0 (nO m)) ev;
    forall2b (fun o v => close_list tol v (next_agentstate b a o)) (seq 0 (S (nO m))) nag;
    close_dict tol pd (pred_obs_dict b a);
    close_list tol pv (pred_obs_vec b a);
    close_bdist tol bn mbn;
    Nat.eqb (length bn) (length mbn);
    close_abs tol rw (belief_reward b a) ].

(* per belief: inside the quantifier? ; is_absorbing agrees *)
Definition check_b (bl : list T) (ia : bool) : list bool :=
  [ beliefb (untab bl);
    if ia then belief_absorbing (untab bl) else negb (belief_absorbing (untab bl)) ].

End Generic.

Definition mk_pomdp {T} {NT : Num T} (nS nA nO : nat) (P R : list (list (list T)))
           (ab : list bool) (ini : list T) (g : T) (Obl : list (list (list T))) : pomdp T :=
  mkPOMDP (mkMDP nS nA (untab3 P) (untab3 R) (fun _ _ => true) (fun s => nth s ab false) (untab ini) g)
          nO (untab3 Obl).
