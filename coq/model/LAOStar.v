(* LAOStar.v — C03: what msdm's LAOStar.plan_on returns and how it gets there.
   (1) certificate checker [c03_check] over the FINAL result (explicit graph values, returned
       policy queried at every state, closed greedy solution set C, convergence flag, initial
       value) together with an exact optimal-value table and an expected-steps table;
   (2) abstract machine: one transition per main-loop iteration = expand one tip [x] and revise
       the ancestor set [Z]; [step_ok] is the guard that msdm/algorithms/laostar.py
       (expand_at, update_ancestors_of, _state_nodes_to_matrices, _policy_iteration,
       dynamic_programming) has to satisfy, [run_ok] checks a recorded run.
   Generic in the number type; executed on Q (vm_compute), reasoned about on R. *)
From Coq Require Import List Arith Bool.
From MSDM Require Import base.Num model.MDP model.VI.
Import ListNotations.

Definition beqb (a b : bool) : bool := if a then b else negb b.

Section C03.
Context {T : Type} {NT : Num T}.
Local Open Scope num_scope.
Variable m : mdp T.

(* values as the look-ahead sees them: a successor with is_absorbing = True contributes its reward
   only (laostar.py:347-350; inside the sub-MDP absorbing rows jump to the 0-valued terminal).
   LAO* only knows the declared flag; a state that is absorbing implicitly (certain zero-reward
   self-loop) is an ordinary node whose revised value is 0 anyway: Qval is 0 at every masked state *)
Definition Vm (V : nat -> T) (s : nat) : T := if absflag m s then n0 else V s.

(* the masked model of MDP.v (Pm, Rm, Qval) with the mask looked up in a table computed once;
   theory/LAOStarTheory.v: PmT_eq, QvalT_eq show these ARE Pm / Qval when mk = masktab *)
Definition masktab : list bool := map (masked m) (seq 0 (nS m)).
Variable mk : list bool.
Definition PmT (s a ns : nat) : T := if nth s mk false then n0 else P m s a ns.
Definition QvalT (V : nat -> T) (s a : nat) : T :=
  if nth s mk false then n0
  else sa_reward m s a + gamma m * sumf (nS m) (fun ns => P m s a ns * V ns).
Definition fixbT (V : list T) : bool :=
  forallbn (nS m) (fun s =>
    match maxf (nA m) (avail m s) (QvalT (untab V) s) with
    | Some b => neqb (untab V s) b
    | None => false
    end).

(* ------------------------------------------------------------------ *)
(* 1. final result                                                      *)
(* ------------------------------------------------------------------ *)
Record laoout := mkLao {
  lConv : bool;               (* PlanningResult.converged *)
  lExp : nat -> bool;         (* state has a node in the explicit graph *)
  lV : nat -> T;              (* state_value_map (0 where there is no node) *)
  lC : nat -> bool;           (* states reachable from the initial support under the returned policy *)
  lPol : nat -> nat;          (* the action the returned policy plays on C *)
  lPi : nat -> nat -> T;      (* returned policy, queried at EVERY state *)
  lInit : T                   (* initial_value *)
}.

Record ltols := mkLtols {
  rho : T;     (* policy-consistency residual (covers the 10-decimal rounding of the arg-max) *)
  ups : T;     (* slack of the upper-bound clause *)
  itol : T;    (* initial value *)
  ptol : T     (* |sum_a pi(s,a) - 1| off C *)
}.

Variable o : laoout.
Variable t : ltols.
Variable Vstar : list T.      (* exact optimal values (harness: exact policy iteration) *)
Variable Nst : list T.        (* expected-steps certificate for the policy on C *)

Definition c_conv : bool := lConv o.

Definition c_initdist : bool :=
  forallbn (nS m) (fun s => n0 <=? init m s) && neqb (sumf (nS m) (init m)) n1.

(* C contains the initial support, is closed under the positive-probability successors of the
   policy's action, lies inside the explicit graph, and the action is available *)
Definition c_closed : bool :=
  forallbn (nS m) (fun s =>
    (if nltb n0 (init m s) then lC o s else true) &&
    (if lC o s then
       lExp o s && (lPol o s <? nA m) && avail m s (lPol o s) &&
       forallbn (nS m) (fun ns => if nltb n0 (PmT s (lPol o s) ns) then lC o ns else true)
     else true)).

(* on C the returned policy is the point mass on lPol *)
Definition c_det : bool :=
  forallbn (nS m) (fun s =>
    if lC o s then
      forallbn (nA m) (fun a => neqb (lPi o s a) (if a =? lPol o s then n1 else n0))
    else true).

(* everywhere: a probability vector (up to ptol) supported on available actions *)
Definition c_avail : bool :=
  forallbn (nS m) (fun s =>
    forallbn (nA m) (fun a =>
      (n0 <=? lPi o s a) && (if nltb n0 (lPi o s a) then avail m s a else true)) &&
    ncloseb (ptol t) (sumf (nA m) (lPi o s)) n1).

(* policy consistency on C (absorbing states: the look-ahead is 0, so |V s| <= rho) *)
Definition c_cons : bool :=
  forallbn (nS m) (fun s =>
    if lC o s then ncloseb (rho t) (lV o s) (QvalT (Vm (lV o)) s (lPol o s)) else true).

(* the table Vstar is a fixed point of the optimality operator ... *)
Definition c_fix : bool := fixbT Vstar.
(* ... and every value held for an explored state is an upper bound on it *)
Definition c_upper : bool :=
  forallbn (nS m) (fun s => if lExp o s then (untab Vstar s - ups t) <=? lV o s else true).

Definition c_init : bool :=
  ncloseb (itol t) (lInit o) (sumf (nS m) (fun s => init m s * lV o s)).

(* expected-steps certificate: N >= 0 and N s >= 1 + gamma * sum_ns P(s, pol s, ns) N ns on C *)
Definition c_steps : bool :=
  forallbn (nS m) (fun s =>
    (n0 <=? untab Nst s) &&
    (if lC o s then
       (n1 + gamma m * sumf (nS m) (fun ns => PmT s (lPol o s) ns * untab Nst ns)) <=? untab Nst s
     else true)).

Definition c03_clauses : list bool :=
  [wfb m; c_initdist; c_conv; c_closed; c_det; c_avail; c_cons; c_fix; c_upper; c_init; c_steps].

(* ------------------------------------------------------------------ *)
(* 2. abstract machine                                                  *)
(* ------------------------------------------------------------------ *)
Record snap := mkSnap {
  sE : nat -> bool;     (* expanded *)
  sV : nat -> T;        (* node value; heuristic value where no node exists yet *)
  sPol : nat -> nat     (* optimal_action (meaningful on expanded states) *)
}.

(* one main-loop iteration: expand x (not yet expanded), revise Z *)
Definition step_ok (r : T) (st : snap) (x : nat) (Z : nat -> bool) (st' : snap) : bool :=
  (x <? nS m) && negb (sE st x) && Z x &&
  forallbn (nS m) (fun s =>
    beqb (sE st' s) (sE st s || (s =? x)) &&
    (if Z s then
       sE st' s && (sPol st' s <? nA m) && avail m s (sPol st' s) &&
       ncloseb r (sV st' s) (QvalT (Vm (sV st')) s (sPol st' s)) &&
       forallbn (nA m) (fun a =>
         if avail m s a then (QvalT (Vm (sV st')) s a - r) <=? sV st' s else true)
     else
       neqb (sV st' s) (sV st s) &&
       (if sE st s then
          (sPol st' s =? sPol st s) &&
          forallbn (nS m) (fun ns => if nltb n0 (PmT s (sPol st s) ns) then negb (Z ns) else true)
        else true))).

Record lstep := mkStep { tX : nat; tZ : nat -> bool; tS : snap }.

Fixpoint run_ok (r : T) (st : snap) (l : list lstep) : bool :=
  match l with
  | [] => true
  | k :: l' => step_ok r st (tX k) (tZ k) (tS k) && run_ok r (tS k) l'
  end.

Fixpoint run_last (st : snap) (l : list lstep) : snap :=
  match l with [] => st | k :: l' => run_last (tS k) l' end.

(* the heuristic never under-estimates the optimal value *)
Definition admissibleb (h : nat -> T) : bool :=
  forallbn (nS m) (fun s => untab Vstar s <=? h s).

(* the final result is what the last snapshot holds *)
Definition sync_ok (st : snap) : bool :=
  forallbn (nS m) (fun s =>
    (if lExp o s then neqb (lV o s) (sV st s) else true) &&
    (if lC o s then sE st s && (lPol o s =? sPol st s) else true)).

Definition c03_run_clauses (r : T) (h : nat -> T) (l : list lstep) : list bool :=
  let st0 := mkSnap (fun _ => false) h (fun _ => 0) in
  [wfb m; c_closed; c_fix; admissibleb h; run_ok r st0 l; sync_ok (run_last st0 l)].

End C03.

(* entry points: the mask table is computed once (vm_compute is call-by-value) *)
Definition c03_check {T} {NT : Num T} (m : mdp T) (o : laoout) (t : ltols) (Vstar Nst : list T) : list bool :=
  let mk := masktab m in c03_clauses m mk o t Vstar Nst.
Definition c03_run {T} {NT : Num T} (m : mdp T) (o : laoout) (Vstar : list T) (r : T) (h : nat -> T)
           (l : list lstep) : list bool :=
  let mk := masktab m in c03_run_clauses m mk o Vstar r h l.

(* constructors from the lists the harness prints *)
Definition nthb (l : list bool) (i : nat) : bool := nth i l false.
Definition nthn (l : list nat) (i : nat) : nat := nth i l 0.

Definition mk_lao {T} {NT : Num T} (conv : bool) (ex : list bool) (V : list T) (C : list bool)
           (pol : list nat) (Pi : list (list T)) (iv : T) : laoout :=
  mkLao conv (nthb ex) (untab V) (nthb C) (nthn pol) (untab2 Pi) iv.

Definition mk_snap {T} {NT : Num T} (E : list bool) (V : list T) (pol : list nat) : snap :=
  mkSnap (nthb E) (untab V) (nthn pol).

Definition mk_step {T} {NT : Num T} (x : nat) (Z : list bool) (E : list bool) (V : list T)
           (pol : list nat) : lstep :=
  mkStep x (nthb Z) (mk_snap E V pol).

(* a recorded run as raw data: (expanded state, Z, expanded flags, values, optimal actions) *)
Definition rawstep (T : Type) : Type := (nat * list bool * list bool * list T * list nat)%type.
Definition mk_steps {T} {NT : Num T} (l : list (rawstep T)) : list lstep :=
  map (fun k => match k with (x, Z, E, V, pol) => mk_step x Z E V pol end) l.

Definition c03_run_raw {T} {NT : Num T} (m : mdp T) (o : laoout) (Vstar : list T) (r : T)
           (h : list T) (l : list (rawstep T)) : list bool :=
  c03_run m o Vstar r (untab h) (mk_steps l).

(* ------------------------------------------------------------------ *)
(* 3. mirror of ExplicitStateGraph.update_ancestors_of (laostar.py:248-268): depth-first
      collection, from the expanded node, of "valid parents" = parents whose CURRENT optimal
      action lists the child.  [pord n] is n.parent_states in the order Python's set iteration
      yields it (unspecified: theory/LAOStarTheory.v ancestors_order_indep shows the resulting
      SET does not depend on it); [vp p n] = n in p.action_nextstates[p.optimal_action].
      The frontier is a stack (list.pop() takes the last appended element); a node may sit in
      the frontier several times, exactly as in the Python loop.  None = fuel exhausted. *)
(* ------------------------------------------------------------------ *)
Section Ancestors.
Variable pord : nat -> list nat.
Variable vp : nat -> nat -> bool.

Definition memn (x : nat) (l : list nat) : bool := existsb (Nat.eqb x) l.

Fixpoint anc_loop (fuel : nat) (fr A : list nat) : option (list nat) :=
  match fr with
  | [] => Some A
  | n :: fr' =>
    match fuel with
    | O => None
    | S f =>
      let A' := if memn n A then A else n :: A in
      let new := filter (fun p => negb (memn p A') && vp p n) (pord n) in
      anc_loop f (rev new ++ fr') A'
    end
  end.

Definition ancestors_of (fuel x : nat) : option (list nat) := anc_loop fuel [x] [].
End Ancestors.

(* harness entry: parents / listed best-action successors as lists; compares with the recorded Z *)
Definition anc_chk (nS : nat) (plist succ : list (list nat)) (x : nat) (Z : list bool) : bool :=
  match ancestors_of (fun n => nth n plist []) (fun p n => memn n (nth p succ [])) (nS * nS + 1) x with
  | Some A => forallb (fun s => beqb (memn s A) (nthb Z s)) (seq 0 nS)
  | None => false
  end.
