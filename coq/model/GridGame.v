(* GridGame.v — C18: msdm.domains.gridgame.TabularGridGame.next_state_dist

   (i)  [gg_check]: a certificate checker evaluated on the distribution the implementation
        returns for one (layout, state, joint action): every clause of property C18.
        Soundness: theory/GridGameTheory... (props/C18.v: gg_check_sound).
   (ii) [gg_next_state_dist]: a mirror of the code, composed from the factor-table
        combinators of model/FactorTable.v exactly as tabulargridgame.py composes them.

   Layout facts: grid width/height, obstacle cells, walls and fences as (start cell, end cell)
   (a wall symbol in cell c with direction d blocks the move c -> c+d only), goals as
   (cell, owner agent indices).  Agents are indexed in the order of gg.agent_names (sorted).
   A state is None (the terminal state {"isTerminal": True}) or Some [cell of agent 0; ...]. *)
From Coq Require Import QArith Qabs List Bool ZArith Arith.
From MSDM Require Import model.FactorTable.
Import ListNotations.
Local Open Scope Q_scope.

Definition cell := (Z * Z)%type.
Definition action := (Z * Z)%type.
Definition cell_eqb (a b : cell) : bool := Z.eqb (fst a) (fst b) && Z.eqb (snd a) (snd b).
Definition cell0 : cell := (0%Z, 0%Z).

Record layout := mkLayout {
  gW : Z; gH : Z;
  gObst : list cell;
  gWalls : list (cell * cell);
  gFences : list (cell * cell);
  gGoals : list (cell * list nat);
  gFenceP : Q;              (* fence_success_prob *)
  gHack : bool              (* collision_prob is None: "if any collision is possible nobody moves" *)
}.

Definition gstate := option (list cell).
Definition dist := list (gstate * Q).

Definition nat_mem (i : nat) (l : list nat) : bool := existsb (Nat.eqb i) l.
Definition cell_mem (c : cell) (l : list cell) : bool := existsb (cell_eqb c) l.
Definition edge_mem (a b : cell) (l : list (cell * cell)) : bool :=
  existsb (fun e => cell_eqb a (fst e) && cell_eqb b (snd e)) l.

(* TabularGridGame.is_absorbing: some agent stands on a goal it owns *)
Definition is_absorbing (L : layout) (pos : list cell) : bool :=
  existsb (fun i => existsb (fun g => cell_eqb (nth i pos cell0) (fst g) && nat_mem i (snd g)) (gGoals L))
          (seq 0 (length pos)).

(* i < j in the order of itertools.combinations(agent_names, 2) *)
Definition pairs (n : nat) : list (nat * nat) :=
  flat_map (fun i => map (fun j => (i, j)) (seq (S i) (n - S i))) (seq 0 n).

(* ============================== certificate checker ============================== *)
Definition in_grid (L : layout) (c : cell) : bool :=
  Z.leb 0 (fst c) && Z.ltb (fst c) (gW L) && Z.leb 0 (snd c) && Z.ltb (snd c) (gH L).

(* a goal of agent i or of agent j lies on cell c *)
Definition goal_of_pair (L : layout) (i j : nat) (c : cell) : bool :=
  existsb (fun g => cell_eqb c (fst g) && (nat_mem i (snd g) || nat_mem j (snd g))) (gGoals L).

Definition dsum (d : dist) : Q := qsum (map snd d).
Definition ppos (p : Q) : bool := negb (Qle_bool p 0).

(* clause f holds of every outcome with positive probability *)
Definition forall_pos (d : dist) (f : gstate -> bool) : bool :=
  forallb (fun e => if ppos (snd e) then f (fst e) else true) d.

Definition on_pos (f : list cell -> bool) (ns : gstate) : bool :=
  match ns with Some pos => f pos | None => true end.

Definition forall_agents (n : nat) (f : nat -> bool) : bool := forallb f (seq 0 n).

Section Checker.
Variable L : layout.
Variable tol : Q.
Variable cur : list cell.          (* the (non-terminal) current state *)
Variable ja : list action.
Variable d : dist.

Definition n_agents := length cur.
Definition at_ (l : list cell) (i : nat) : cell := nth i l cell0.

Definition c_norm : bool := Qle_bool (1 - tol) (dsum d) && Qle_bool (dsum d) (1 + tol).
Definition c_nonneg : bool := forallb (fun e => Qle_bool 0 (snd e)) d.
Definition c_shape : bool :=
  forall_pos d (fun ns => match ns with Some pos => Nat.eqb (length pos) n_agents | None => false end).
Definition c_grid : bool :=
  forall_pos d (on_pos (fun pos => forall_agents n_agents (fun i => in_grid L (at_ pos i)))).
Definition c_obst : bool :=
  forall_pos d (on_pos (fun pos => forall_agents n_agents (fun i => negb (cell_mem (at_ pos i) (gObst L))))).
Definition c_wall : bool :=
  forall_pos d (on_pos (fun pos => forall_agents n_agents (fun i => negb (edge_mem (at_ cur i) (at_ pos i) (gWalls L))))).
Definition step_ok (c a c' : cell) : bool :=
  (cell_eqb c' c || cell_eqb c' (fst c + fst a, snd c + snd a)%Z) &&
  Z.leb (Z.abs (fst c' - fst c) + Z.abs (snd c' - snd c)) 1.
Definition c_step : bool :=
  forall_pos d (on_pos (fun pos => forall_agents n_agents (fun i => step_ok (at_ cur i) (nth i ja cell0) (at_ pos i)))).
Definition c_shared : bool :=
  forall_pos d (on_pos (fun pos => forallb (fun p => let i := fst p in let j := snd p in
      negb (cell_eqb (at_ pos i) (at_ pos j)) || goal_of_pair L i j (at_ pos i)) (pairs n_agents))).
Definition c_swap : bool :=
  forall_pos d (on_pos (fun pos => forallb (fun p => let i := fst p in let j := snd p in
      negb (cell_eqb (at_ pos i) (at_ cur j) && cell_eqb (at_ pos j) (at_ cur i) && negb (cell_eqb (at_ cur i) (at_ cur j))))
      (pairs n_agents))).
Definition c_to_terminal : bool :=
  forall_pos d (fun ns => match ns with None => true | Some _ => false end).

(* non-terminal, non-goal state *)
Definition gg_check_move : list bool :=
  [c_norm; c_nonneg; c_shape; c_grid; c_obst; c_wall; c_step; c_shared; c_swap].
(* state with an agent on its own goal *)
Definition gg_check_goal : list bool := [c_norm; c_nonneg; c_to_terminal].
End Checker.

Definition all_true (l : list bool) : bool := forallb (fun b => b) l.

(* terminal state: absorbing, and every reward vector reported for its transitions is zero *)
Definition gg_check_terminal (tol : Q) (d : dist) (rews : list (list Q)) : list bool :=
  [c_norm tol d; c_nonneg d; c_to_terminal d; forallb (forallb qzero) rews].

Definition gg_check (L : layout) (tol : Q) (s : gstate) (ja : list action) (d : dist) (rews : list (list Q)) : list bool :=
  match s with
  | None => gg_check_terminal tol d rews
  | Some cur => if is_absorbing L cur then gg_check_goal tol d else gg_check_move L tol cur ja d
  end.

(* ============================== mirror of next_state_dist ============================== *)
Definition EPS : Q := 1 # 100000.

(* {an: {'type': 'agent', 'name': an, 'x': x, 'y': y}} flattened: paths 4i..4i+3 *)
Definition agent_row (i : nat) (c : cell) : row :=
  [((4 * i)%nat, 0%Z); ((4 * i + 1)%nat, Z.of_nat i); ((4 * i + 2)%nat, fst c); ((4 * i + 3)%nat, snd c)].
Definition zget (k : key) (r : row) : Z := match rget k r with Some v => v | None => 0%Z end.
Definition row_cell (i : nat) (r : row) : cell := (zget (4 * i + 2)%nat r, zget (4 * i + 3)%nat r).
Definition row_cells (n : nat) (r : row) : list cell := map (fun i => row_cell i r) (seq 0 n).

Definition moved (L : layout) (c : cell) (a : action) : cell :=
  (Z.max (Z.min (fst c + fst a) (gW L - 1)) 0, Z.max (Z.min (snd c + snd a) (gH L - 1)) 0)%Z.

Definition constraint (i : nat) (c c' : cell) : table := [(agent_row i c, 1); (agent_row i c', 0)].

Definition agent_move (L : layout) (i : nat) (c : cell) (a : action) : table :=
  let c' := moved L c a in
  let m0 : table := [(agent_row i c, EPS); (agent_row i c', 1 - EPS)] in
  let m1 := fold_left (fun m f =>
              if cell_eqb c (fst f) && cell_eqb c' (snd f)
              then ft_mix (ft_scale (gFenceP L) m) (ft_scale (1 - gFenceP L) [(agent_row i c, 1)])
              else m) (gFences L) m0 in
  let m2 := fold_left (fun m o => if cell_eqb c' o then ft_product m (constraint i c c') else m) (gObst L) m1 in
  fold_left (fun m w => if cell_eqb c (fst w) && cell_eqb c' (snd w) then ft_product m (constraint i c c') else m)
            (gWalls L) m2.

Definition agent_moves (L : layout) (cur : list cell) (ja : list action) : list table :=
  map (fun i => agent_move L i (nth i cur cell0) (nth i ja cell0)) (seq 0 (length cur)).

(* reduce(lambda a, b: a & b, agentMoveDists) *)
Definition joint_moves (ms : list table) : table :=
  match ms with [] => [] | m :: rest => fold_left ft_product rest m end.

Definition pair_skip (L : layout) (i j : nat) (ci cj : cell) : bool :=
  existsb (fun g => (nat_mem i (snd g) || nat_mem j (snd g)) && (cell_eqb (fst g) ci || cell_eqb (fst g) cj)) (gGoals L).

(* for one outcome row: (is its interaction logit -inf?, colliding pairs it contributes) *)
Definition pair_collides (L : layout) (r : row) (p : nat * nat) : bool :=
  let ci := row_cell (fst p) r in let cj := row_cell (snd p) r in
  negb (pair_skip L (fst p) (snd p) ci cj) && cell_eqb ci cj.
Definition pair_swaps (cur : list cell) (r : row) (p : nat * nat) : bool :=
  cell_eqb (row_cell (fst p) r) (nth (snd p) cur cell0) && cell_eqb (row_cell (snd p) r) (nth (fst p) cur cell0).
Definition inter_dead (L : layout) (cur : list cell) (r : row) : bool :=
  existsb (fun p => pair_collides L r p || pair_swaps cur r p) (pairs (length cur)).
Definition row_collisions (L : layout) (cur : list cell) (r : row) : list (nat * nat) :=
  filter (pair_collides L r) (pairs (length cur)).
Definition someone_moved (cur : list cell) (r : row) (p : nat * nat) : bool :=
  negb (cell_eqb (row_cell (fst p) r) (nth (fst p) cur cell0)) || negb (cell_eqb (row_cell (snd p) r) (nth (snd p) cur cell0)).

Definition interaction_table (L : layout) (cur : list cell) (joint : table) : table :=
  let rows := ft_rows joint in
  let collisions := flat_map (row_collisions L cur) rows in
  map (fun r =>
         let dead := inter_dead L cur r || (gHack L && existsb (someone_moved cur r) collisions) in
         (r, if dead then 0 else 1)) rows.

Definition gg_table (L : layout) (cur : list cell) (ja : list action) : table :=
  let joint := joint_moves (agent_moves L cur ja) in
  ft_product joint (interaction_table L cur joint).

Definition gg_next_state_dist (L : layout) (s : gstate) (ja : list action) : dist :=
  match s with
  | None => [(None, 1)]
  | Some cur =>
    if is_absorbing L cur then [(None, 1)]
    else let t := gg_table L cur ja in
         combine (map (fun r => Some (row_cells (length cur) r)) (ft_rows t)) (ft_probs t)
  end.
