(* Search.v — C05: deterministic shortest-path problems as finite graphs, a
   Bellman-Ford reference distance, a path certificate evaluated on what msdm's
   AStarSearch / BreadthFirstSearch return, and mirror models of the two loops
   of msdm/algorithms/search.py.

   Discrete property: plain nat / Z / list / bool.  Executable definitions only;
   the proofs are in theory/SearchTheory.v (and theory/SearchBFS.v, SearchAStar.v).

   Encoding.  States are 0..n-1.  `g_succ s` lists the outgoing transitions of s
   in the order of `mdp.actions(s)`: (action, next_state(s,action), cost) with
   cost = -reward(s,action,next_state).  `g_goal` is `is_absorbing`. *)
From Coq Require Import List Arith ZArith Bool.
Import ListNotations.
Local Open Scope Z_scope.

Definition edge := (nat * nat * Z)%type.          (* action, successor, cost *)
Definition mkE (a t : nat) (c : Z) : edge := (a, t, c).
Definition e_act (e : edge) : nat := fst (fst e).
Definition e_dst (e : edge) : nat := snd (fst e).
Definition e_cost (e : edge) : Z := snd e.

Record graph := mkGraph {
  g_n : nat;
  g_succ : nat -> list edge;
  g_goal : nat -> bool
}.

(* how the harness writes a graph down *)
Definition graph_of (succs : list (list edge)) (goals : list bool) : graph :=
  mkGraph (length succs) (fun s => nth s succs []) (fun s => nth s goals false).

(* successors inside 0..n-1, costs non-negative *)
Definition wf_graphb (g : graph) : bool :=
  forallb (fun s => forallb (fun e => (e_dst e <? g_n g)%nat && (0 <=? e_cost e))
                            (g_succ g s))
          (seq 0 (g_n g)).

(* the same graph with every edge costing 1: minimum cost there = minimum number of steps *)
Definition unit_edge (e : edge) : edge := (e_act e, e_dst e, 1).
Definition unit_graph (g : graph) : graph :=
  mkGraph (g_n g) (fun s => map unit_edge (g_succ g s)) (g_goal g).

Definition cost (p : list edge) : Z := fold_right (fun e acc => e_cost e + acc) 0 p.
Definition verts (s : nat) (p : list edge) : list nat := s :: map e_dst p.

(* ------------------------------------------------------------------------- *)
(* Bellman-Ford distance to the goal set (None = no goal reachable)          *)
(* ------------------------------------------------------------------------- *)
Definition omin (a b : option Z) : option Z :=
  match a, b with
  | None, x => x
  | x, None => x
  | Some x, Some y => Some (Z.min x y)
  end.
Definition oadd (c : Z) (a : option Z) : option Z :=
  match a with Some x => Some (c + x) | None => None end.

Definition bf_step (g : graph) (d : nat -> option Z) (s : nat) : option Z :=
  fold_right (fun e acc => omin (oadd (e_cost e) (d (e_dst e))) acc) (d s) (g_succ g s).

Definition bf_init (g : graph) : list (option Z) :=
  map (fun s => if g_goal g s then Some 0 else None) (seq 0 (g_n g)).
Definition bf_round (g : graph) (d : list (option Z)) : list (option Z) :=
  map (bf_step g (fun t => nth t d None)) (seq 0 (g_n g)).
Fixpoint bf_iter (g : graph) (k : nat) : list (option Z) :=
  match k with O => bf_init g | S k' => bf_round g (bf_iter g k') end.
Definition bf_table (g : graph) : list (option Z) := bf_iter g (g_n g).
Definition bf_dist (g : graph) (s : nat) : option Z := nth s (bf_table g) None.

(* ------------------------------------------------------------------------- *)
(* Path certificate                                                          *)
(* ------------------------------------------------------------------------- *)
Fixpoint find_edge (a t : nat) (es : list edge) : option edge :=
  match es with
  | [] => None
  | e :: es' => if (e_act e =? a)%nat && (e_dst e =? t)%nat then Some e else find_edge a t es'
  end.

(* the edges of a reported path: state s, then `rest`, taking actions `acts` *)
Fixpoint path_edges (g : graph) (s : nat) (rest acts : list nat) : option (list edge) :=
  match rest, acts with
  | [], [] => Some []
  | t :: rest', a :: acts' =>
      match find_edge a t (g_succ g s) with
      | Some e => match path_edges g t rest' acts' with
                  | Some p => Some (e :: p)
                  | None => None
                  end
      | None => None
      end
  | _, _ => None
  end.

Definition oZeqb (a : option Z) (v : Z) : bool :=
  match a with Some d => d =? v | None => false end.

(* what A* reports: None (no plan) or (path, policy actions along the path, path_value) *)
Definition plan := option (list nat * list nat * Z).

(* clause by clause, so that the harness can name what failed:
   (starts at start, follows real transitions, ends at a goal,
    value = sum of costs, value = least cost) *)
Definition cert_clauses (g : graph) (start : nat) (r : plan) : bool * bool * bool * bool * bool :=
  match r with
  | None => let ok := match bf_dist g start with None => true | Some _ => false end in
            (true, true, true, true, ok)
  | Some (path, acts, v) =>
      match path with
      | [] => (false, false, false, false, false)
      | s0 :: rest =>
          let c_start := (s0 =? start)%nat in
          match path_edges g s0 rest acts with
          | None => (c_start, false, false, false, false)
          | Some p => (c_start, true, g_goal g (last path s0), cost p =? v,
                       oZeqb (bf_dist g start) v)
          end
      end
  end.

Definition all5 (c : bool * bool * bool * bool * bool) : bool :=
  let '(a, b, c, d, e) := c in a && b && c && d && e.

Definition path_cert (g : graph) (start : nat) (r : plan) : bool :=
  all5 (cert_clauses g start r).

(* BFS reports (path, actions); "value" is the number of steps, judged on the unit-cost graph *)
Definition bfs_plan := option (list nat * list nat).
Definition plan_of_bfs (r : bfs_plan) : plan :=
  match r with
  | None => None
  | Some (path, acts) => Some (path, acts, Z.of_nat (length acts))
  end.
Definition bfs_cert_clauses (g : graph) (start : nat) (r : bfs_plan) :=
  cert_clauses (unit_graph g) start (plan_of_bfs r).
Definition bfs_cert (g : graph) (start : nat) (r : bfs_plan) : bool :=
  path_cert (unit_graph g) start (plan_of_bfs r).

(* ------------------------------------------------------------------------- *)
(* Mirror models of search.py                                                *)
(* ------------------------------------------------------------------------- *)
Inductive sresult :=
| OutOfFuel
| Broken                                                    (* reconstruct_path failed: proved impossible *)
| NoPlan (visited : list nat)                               (* loop fell through: plan_on returns None *)
| Found (path acts : list nat) (value : Z) (visited : list nat).

Definition memn (x : nat) (l : list nat) : bool := existsb (Nat.eqb x) l.

Fixpoint lookup {A : Type} (k : nat) (l : list (nat * A)) : option A :=
  match l with
  | [] => None
  | (k', v) :: l' => if (k =? k')%nat then Some v else lookup k l'
  end.
Definition del {A : Type} (k : nat) (l : list (nat * A)) : list (nat * A) :=
  filter (fun kv => negb (k =? fst kv)%nat) l.

(* reconstruct_path + the policy's actions along it (camefrom: state -> (previous state, action)) *)
Fixpoint recon (fuel : nat) (cf : list (nat * (nat * nat))) (start t : nat)
  : option (list nat * list nat) :=
  match fuel with
  | O => None
  | S f =>
      if (t =? start)%nat then Some ([start], [])
      else match lookup t cf with
           | None => None
           | Some (x, a) =>
               match recon f cf start x with
               | None => None
               | Some (p, acts) => Some (p ++ [t], acts ++ [a])
               end
           end
  end.

Section Mirror.
Variable g : graph.
Variable start : nat.
(* order in which the k-th expansion enumerates the outgoing transitions
   (identity, or the recorded rnd.shuffle when randomize_action_order) *)
Variable ord : nat -> list edge -> list edge.

(* ---- BreadthFirstSearch.plan_on ----
   queue / visited entries carry a ghost depth (never read by the control flow). *)
Record bstate := mkB {
  b_queue : list (nat * Z);
  b_visited : list (nat * Z);
  b_came : list (nat * (nat * nat))
}.

Definition bfs_push (s : nat) (d : Z) (st : bstate) (e : edge) : bstate :=
  let t := e_dst e in
  if memn t (map fst (b_visited st)) || memn t (map fst (b_queue st)) then st
  else mkB (b_queue st ++ [(t, d + 1)]) (b_visited st) ((t, (s, e_act e)) :: b_came st).

Definition bfs_expand (s : nat) (d : Z) (st : bstate) (es : list edge) : bstate :=
  fold_left (bfs_push s d) es st.

Fixpoint bfs_loop (fuel : nat) (st : bstate) : sresult :=
  match fuel with
  | O => OutOfFuel
  | S fuel' =>
      match b_queue st with
      | [] => NoPlan (map fst (b_visited st))
      | (s, d) :: q =>
          if g_goal g s then
            match recon (S (length (b_visited st))) (b_came st) start s with
            | Some (p, acts) => Found p acts d (map fst (b_visited st))
            | None => Broken
            end
          else
            let st1 := mkB q ((s, d) :: b_visited st) (b_came st) in
            bfs_loop fuel' (bfs_expand s d st1 (ord (length (b_visited st)) (g_succ g s)))
      end
  end.

Definition bfs_init : bstate := mkB [(start, 0)] [] [].
Definition bfs : sresult := bfs_loop (S (S (g_n g))) bfs_init.

(* ---- AStarSearch.plan_on ----
   h = heuristic cost (= - heuristic_value), None = +inf; tbs k = tie_break of the k-th push
   (lifo: -(k+1), fifo: k+1, random: the recorded rnd.random()). *)
Variable h : nat -> option Z.
Variable tbs : nat -> Z.

(* keys in Z + {+inf}: None = float('inf') *)
Definition oplus (c : Z) (a : option Z) : option Z := match a with Some x => Some (c + x) | None => None end.
Definition olt (a b : option Z) : bool :=
  match a, b with
  | Some x, Some y => x <? y
  | Some _, None => true
  | None, _ => false
  end.
Definition oeqb (a b : option Z) : bool :=
  match a, b with
  | Some x, Some y => x =? y
  | None, None => true
  | _, _ => false
  end.

Definition node := (option Z * Z * Z * nat)%type.    (* heuristic_cost, tie_break, cost_from_start, state *)
Definition nd_f (x : node) : option Z := fst (fst (fst x)).
Definition nd_tb (x : node) : Z := snd (fst (fst x)).
Definition nd_g (x : node) : Z := snd (fst x).
Definition nd_s (x : node) : nat := snd x.

(* tuple comparison, as heapq does on the NamedTuple *)
Definition node_leb (x y : node) : bool :=
  if olt (nd_f x) (nd_f y) then true else if olt (nd_f y) (nd_f x) then false else
  if nd_tb x <? nd_tb y then true else if nd_tb y <? nd_tb x then false else
  if nd_g x <? nd_g y then true else if nd_g y <? nd_g x then false else
  (nd_s x <=? nd_s y)%nat.

(* `best_in_queue_by_state[s] is node` (distinct pushes never carry equal tuples: same state => different cost) *)
Definition node_eqb (x y : node) : bool :=
  oeqb (nd_f x) (nd_f y) && (nd_tb x =? nd_tb y) && (nd_g x =? nd_g y) && (nd_s x =? nd_s y)%nat.

(* heappop: a least element leaves the queue *)
Fixpoint pop_min (q : list node) : option (node * list node) :=
  match q with
  | [] => None
  | x :: q' =>
      match pop_min q' with
      | None => Some (x, [])
      | Some (m, r) => if node_leb x m then Some (x, q') else Some (m, x :: r)
      end
  end.

Record astate := mkA {
  a_queue : list node;
  a_best : list (nat * node);            (* best_in_queue_by_state *)
  a_visited : list (nat * Z);            (* visited, with the cost_from_start the state was closed at *)
  a_came : list (nat * (nat * nat));
  a_pushes : nat
}.

Definition a_push (st : astate) (f : option Z) (gc : Z) (t : nat) : astate :=
  let nd : node := (f, tbs (a_pushes st), gc, t) in
  mkA (nd :: a_queue st) ((t, nd) :: a_best st) (a_visited st) (a_came st) (S (a_pushes st)).

Definition a_relax (s : nat) (gs : Z) (st : astate) (e : edge) : astate :=
  let t := e_dst e in
  if memn t (map fst (a_visited st)) then st else
  let g' := gs + e_cost e in
  let skip := match lookup t (a_best st) with
              | Some b => nd_g b <=? g'
              | None => false
              end in
  if skip then st else
  let st' := a_push st (oplus g' (h t)) g' t in
  mkA (a_queue st') (a_best st') (a_visited st') ((t, (s, e_act e)) :: a_came st') (a_pushes st').

Definition a_expand (s : nat) (gs : Z) (st : astate) (es : list edge) : astate :=
  fold_left (a_relax s gs) es st.

Fixpoint astar_loop (fuel : nat) (st : astate) : sresult :=
  match fuel with
  | O => OutOfFuel
  | S fuel' =>
      match pop_min (a_queue st) with
      | None => NoPlan (map fst (a_visited st))
      | Some (nd, q') =>
          let s := nd_s nd in
          if memn s (map fst (a_visited st)) then
            astar_loop fuel' (mkA q' (a_best st) (a_visited st) (a_came st) (a_pushes st))
          else if negb (match lookup s (a_best st) with Some b => node_eqb b nd | None => false end) then
            (* a cheaper node of s is still queued: stale; only possible when the keys tie at +inf
               (the code asserts that; a finite key here is an AssertionError = Broken) *)
            match nd_f nd with
            | None => astar_loop fuel' (mkA q' (a_best st) (a_visited st) (a_came st) (a_pushes st))
            | Some _ => Broken
            end
          else
            let best' := del s (a_best st) in
            if g_goal g s then
              match recon (S (length (a_visited st))) (a_came st) start s with
              | Some (p, acts) => Found p acts (nd_g nd) (map fst (a_visited st))
              | None => Broken
              end
            else
              let st1 := mkA q' best' ((s, nd_g nd) :: a_visited st) (a_came st) (a_pushes st) in
              astar_loop fuel' (a_expand s (nd_g nd) st1 (ord (length (a_visited st)) (g_succ g s)))
      end
  end.

Definition astar_init : astate := a_push (mkA [] [] [] [] O) (oplus 0 (h start)) 0 start.

(* every push is popped once; at most one push per edge plus the initial one *)
Definition total_deg : nat := fold_right (fun s acc => (length (g_succ g s) + acc)%nat) O (seq 0 (g_n g)).
Definition astar : sresult := astar_loop (S (S total_deg)) astar_init.

End Mirror.

(* ---- helpers for the harness ---- *)
(* the order recorded from rnd.shuffle: the list of actions in shuffled order *)
Definition reorder (acts : list nat) (es : list edge) : list edge :=
  flat_map (fun a => filter (fun e => (e_act e =? a)%nat) es) acts.
Definition ord_of (orders : list (list nat)) (k : nat) (es : list edge) : list edge :=
  match nth_error orders k with
  | Some acts => reorder acts es
  | None => es
  end.
Definition tbs_of (l : list Z) (k : nat) : Z := nth k l 0.
Definition tbs_lifo (k : nat) : Z := - Z.of_nat (S k).
Definition tbs_fifo (k : nat) : Z := Z.of_nat (S k).
Definition h_of (l : list (option Z)) (s : nat) : option Z := nth s l (Some 0).   (* with +inf entries *)
Definition hz_of (l : list Z) (s : nat) : Z := nth s l 0.                         (* finite heuristics *)

(* consistent heuristic (cost convention, values in Z + {+inf}): h u <= c + h v along every edge, h = 0 on goals *)
Definition oleb (a b : option Z) : bool :=
  match a, b with
  | Some x, Some y => x <=? y
  | _, None => true
  | None, Some _ => false
  end.
Definition consistentb (g : graph) (h : nat -> option Z) : bool :=
  forallb (fun s => (if g_goal g s then oeqb (h s) (Some 0) else true) &&
                    forallb (fun e => oleb (h s) (oplus (e_cost e) (h (e_dst e)))) (g_succ g s))
          (seq 0 (g_n g)).

(* ------------------------------------------------------------------------- *)
(* Potential certificate: the same clauses as cert_clauses, but minimality is *)
(* witnessed by a potential phi supplied with the result (phi u <= c + phi v  *)
(* along every transition, phi = 0 on goals, value = phi start) instead of    *)
(* by running bf_dist.  Linear in the size of the graph: used for problems    *)
(* with thousands of states.  It cannot certify "no plan".                    *)
(* ------------------------------------------------------------------------- *)
Definition pot_clauses (g : graph) (start : nat) (phi : nat -> Z) (r : plan)
  : bool * bool * bool * bool * bool :=
  match r with
  | None => (true, true, true, true, false)
  | Some (path, acts, v) =>
      match path with
      | [] => (false, false, false, false, false)
      | s0 :: rest =>
          let c_start := (s0 =? start)%nat in
          match path_edges g s0 rest acts with
          | None => (c_start, false, false, false, false)
          | Some p => (c_start, true, g_goal g (last path s0), cost p =? v,
                       consistentb g (fun s => Some (phi s)) && (phi start =? v))
          end
      end
  end.
Definition pot_cert (g : graph) (start : nat) (phi : nat -> Z) (r : plan) : bool :=
  all5 (pot_clauses g start phi r).
Definition bfs_pot_clauses (g : graph) (start : nat) (phi : nat -> Z) (r : bfs_plan) :=
  pot_clauses (unit_graph g) start phi (plan_of_bfs r).
Definition bfs_pot_cert (g : graph) (start : nat) (phi : nat -> Z) (r : bfs_plan) : bool :=
  pot_cert (unit_graph g) start phi (plan_of_bfs r).

(* literals for big problems: numbers written in binary *)
Definition mkEz (a t c : Z) : edge := (Z.to_nat a, Z.to_nat t, c).
Definition zplan (r : option (list Z * list Z * Z)) : plan :=
  match r with None => None | Some (p, a, v) => Some (map Z.to_nat p, map Z.to_nat a, v) end.
Definition zbfs_plan (r : option (list Z * list Z)) : bfs_plan :=
  match r with None => None | Some (p, a) => Some (map Z.to_nat p, map Z.to_nat a) end.

(* ------------------------------------------------------------------------- *)
(* DeterministicShortestPathProblem.from_mdp: how the single outcome of an   *)
(* initial / next-state distribution is read:  sup = dist.support;           *)
(* assert len(sup) == 1; return next(iter(sup)).                             *)
(* DeterministicDistribution.support is a tuple, UniformDistribution.support *)
(* a list, DictDistribution.support a dict keys view: all three have len and *)
(* are iterable (only tuple and list are subscriptable).  None = the read    *)
(* raises.                                                                   *)
(* ------------------------------------------------------------------------- *)
Inductive support_repr := SupTuple (l : list nat) | SupList (l : list nat) | SupKeys (l : list nat).
Definition sup_len (s : support_repr) : nat :=
  match s with SupTuple l | SupList l | SupKeys l => length l end.
Definition sup_iter (s : support_repr) : list nat :=
  match s with SupTuple l | SupList l | SupKeys l => l end.
Definition sup_index0 (s : support_repr) : option nat :=          (* s[0]: what the code did before 9090d34 *)
  match s with SupTuple l | SupList l => hd_error l | SupKeys _ => None end.
Inductive dist_repr := DDet (x : nat) | DDict (x : nat) | DUnif (x : nat).
Definition dist_support (d : dist_repr) : support_repr :=
  match d with DDet x => SupTuple [x] | DDict x => SupKeys [x] | DUnif x => SupList [x] end.
Definition dist_outcome (d : dist_repr) : nat := match d with DDet x | DDict x | DUnif x => x end.
Definition from_mdp_read (d : dist_repr) : option nat :=
  let s := dist_support d in if (sup_len s =? 1)%nat then hd_error (sup_iter s) else None.
Definition from_mdp_read_index0 (d : dist_repr) : option nat :=   (* historical *)
  let s := dist_support d in if (sup_len s =? 1)%nat then sup_index0 s else None.
