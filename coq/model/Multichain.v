(* Multichain.v — C16: what a converged result of msdm's MultichainPolicyIteration CLAIMS,
   as boolean certificate checkers over the returned tables (gain g, bias h, policy pi,
   initial_gain, initial_value).  The minimum-norm solve, the determinant-based row selection
   and the recurrent-class detection are NOT mirrored: they are bypassed by the certificate.
   Generic in the number type; executed on Q by vm_compute, reasoned about on R.

   Dynamics the algorithm iterates on (multichainpolicyiteration.py:117,132,190): absorbing
   states are terminal -- their transition rows and rewards are zeroed -- and, unlike value
   iteration, nothing else is masked (no "unable to reach an absorbing state" placeholder). *)
From Coq Require Import List Arith Bool.
From MSDM Require Import base.Num model.MDP model.VI.
Import ListNotations.

Section C16.
Context {T : Type} {NT : Num T}.
Local Open Scope num_scope.
Variable m : mdp T.

Definition Pa (s a ns : nat) : T := if absorbing m s then n0 else P m s a ns.
Definition Ra (s a : nat) : T := if absorbing m s then n0 else sa_reward m s a.
(* (P_a f)(s) *)
Definition Ex (f : nat -> T) (s a : nat) : T := sumf (nS m) (fun ns => Pa s a ns * f ns).

(* ---- T-step expected total reward of an arbitrary history-dependent randomised policy ----
   pol hist s a = probability of a in state s after the (reversed) history hist of
   (state, action) pairs.  Stationary policies ignore hist.  Entering an absorbing state ends
   the episode (zero row).  [Jn] is the specification object of the theorems; it is never
   evaluated by the check. *)
Definition hpolicy := list (nat * nat) -> nat -> nat -> T.

Fixpoint Jn (pol : hpolicy) (k : nat) (hist : list (nat * nat)) (s : nat) : T :=
  match k with
  | O => n0
  | S k' => sumf (nA m) (fun a => pol hist s a *
              (Ra s a + sumf (nS m) (fun ns => Pa s a ns * Jn pol k' ((s, a) :: hist) ns)))
  end.

(* expectation of f(state after k steps), 0 once the episode has ended *)
Fixpoint En (pol : hpolicy) (k : nat) (f : nat -> T) (hist : list (nat * nat)) (s : nat) : T :=
  match k with
  | O => f s
  | S k' => sumf (nA m) (fun a => pol hist s a *
              sumf (nS m) (fun ns => Pa s a ns * En pol k' f ((s, a) :: hist) ns))
  end.

Definition stationary (pi : nat -> nat -> T) : hpolicy := fun _ s a => pi s a.

(* ------------------------------------------------------------------ *)
(* undiscounted certificates                                           *)
(* ------------------------------------------------------------------ *)
(* dual feasibility of the multichain linear program (Puterman 9.3), slack d on the second family:
     g s >= (P_a g) s            and      g s + w s + d >= r(s,a) + (P_a w) s
   for every available (s,a) *)
Definition gain_cert (g w : nat -> T) (d : T) : bool :=
  forallbn (nS m) (fun s => forallbn (nA m) (fun a =>
    if avail m s a then
      (Ex g s a <=? g s) && (Ra s a + Ex w s a <=? g s + w s + d)
    else true)).

(* along the support of pi: actions are available, conserve the gain, and are bias-tight up to d *)
Definition gain_attained_cert (pi : nat -> nat -> T) (g h : nat -> T) (d : T) : bool :=
  forallbn (nS m) (fun s => forallbn (nA m) (fun a =>
    if nltb n0 (pi s a) then
      avail m s a && (g s <=? Ex g s a) && (g s + h s <=? Ra s a + Ex h s a + d)
    else true)).

(* the policy matrix is (up to ptol) the uniform distribution on its support *)
Definition psupp (pi : nat -> nat -> T) (s a : nat) : bool := nltb n0 (pi s a).
Definition pcount (pi : nat -> nat -> T) (s : nat) : nat := countb (nA m) (psupp pi s).
(* the returned policy "evaluated exactly": exactly uniform on the support of the float matrix *)
Definition upolT (pi : nat -> nat -> T) (s a : nat) : T :=
  if psupp pi s a then n1 / nofnat (pcount pi s) else n0.

(* the stationary policy pi conserves the gain and satisfies the evaluation equation of (g, h)
   from below, in aggregate (this is what exact evaluation of a randomised policy yields):
     g s <= sum_a pi(s,a) (P_a g) s     and     g s + h s <= sum_a pi(s,a) (r(s,a) + (P_a h) s) + d *)
Definition gain_attained_agg (pi : nat -> nat -> T) (g h : nat -> T) (d : T) : bool :=
  forallbn (nS m) (fun s =>
    (g s <=? sumf (nA m) (fun a => pi s a * Ex g s a)) &&
    (g s + h s <=? sumf (nA m) (fun a => pi s a * (Ra s a + Ex h s a)) + d)).

(* positive probability only on available actions *)
Definition c_avail (pi : nat -> nat -> T) : bool :=
  forallbn (nS m) (fun s => forallbn (nA m) (fun a =>
    if psupp pi s a then avail m s a else true)).
Definition c_dist (pi : nat -> nat -> T) (ptol : T) : bool :=
  forallbn (nS m) (fun s =>
    Nat.ltb 0 (pcount pi s) &&
    forallbn (nA m) (fun a =>
      if psupp pi s a then ncloseb ptol (pi s a * nofnat (pcount pi s)) n1
      else neqb (pi s a) n0)).

Definition c_close (tol : T) (x y : nat -> T) : bool :=
  forallbn (nS m) (fun s => ncloseb tol (x s) (y s)).

Definition c_initv (itol : T) (iv : T) (v : nat -> T) : bool :=
  ncloseb itol iv (sumf (nS m) (fun s => init m s * v s)).

(* ---- the reported result and the harness-supplied certificate ---- *)
Record mcout := mkMC {
  og : nat -> T;            (* state_gain *)
  oh : nat -> T;            (* state_value (bias) *)
  opi : nat -> nat -> T;    (* policy matrix *)
  oig : T;                  (* initial_gain *)
  oiv : T                   (* initial_value *)
}.

Record gcert := mkGC {
  cg : nat -> T;            (* exact gain vector (harness: exact evaluation of the returned policy) *)
  cw : nat -> T;            (* dual vector w = h + M*g *)
  ch : nat -> T;            (* exact bias of the returned policy (evaluation equation) *)
  d_up : T;                 (* slack of the dual certificate *)
  d_lo : T;                 (* slack of the evaluation equation along the policy *)
  c_gtol : T;               (* |state_gain - cg| *)
  c_ptol : T;
  c_itol : T
}.

Variable o : mcout.

Definition c16_gain_check (c : gcert) : list bool :=
  [ wfb m; neqb (gamma m) n1;
    gain_cert (cg c) (cw c) (d_up c);
    gain_attained_agg (upolT (opi o)) (cg c) (ch c) (d_lo c) && c_avail (opi o);
    c_close (c_gtol c) (og o) (cg c);
    c_dist (opi o) (c_ptol c);
    c_initv (c_itol c) (oig o) (og o) && c_initv (c_itol c) (oiv o) (oh o) ].

(* optional, stronger (not part of the gate): every action of the support is gain-conserving and
   bias-tight for the REPORTED bias, so every policy inside the support attains the gain *)
Definition c16_tight_check (c : gcert) (d : T) : bool :=
  gain_attained_cert (opi o) (cg c) (oh o) d.

(* ------------------------------------------------------------------ *)
(* discounted certificate                                              *)
(* ------------------------------------------------------------------ *)
Record dtols := mkDT {
  d_eps : T;     (* Bellman residual of state_value (the improvement test's tolerance) *)
  d_eta : T;     (* support: look-ahead of state_value within d_eta of the backup *)
  d_gz : T;      (* |state_gain| (the gain is 0 in a discounted problem) *)
  d_ptol : T;
  d_itol : T
}.

(* h = T h within d_eps at EVERY state (absorbing states: backup = 0) *)
Definition d_res (eps : T) : bool :=
  forallbn (nS m) (fun s =>
    match backup m (oh o) s with
    | Some b => ncloseb eps (oh o s) b
    | None => false
    end).

(* support of the policy: available actions whose look-ahead is within eta of the backup *)
Definition d_pol (eta : T) : bool :=
  forallbn (nS m) (fun s =>
    match backup m (oh o) s with
    | Some b =>
      forallbn (nA m) (fun a =>
        if psupp (opi o) s a then avail m s a && (b - eta <=? Qval m (oh o) s a) else true)
    | None => false
    end).

Definition c16_disc_check (t : dtols) : list bool :=
  [ wfb m; nltb (gamma m) n1;
    d_res (d_eps t);
    d_pol (d_eta t);
    c_close (d_gz t) (og o) (fun _ => n0);
    c_dist (opi o) (d_ptol t);
    c_initv (d_itol t) (oig o) (og o) && c_initv (d_itol t) (oiv o) (oh o) ].

End C16.

Definition mk_mc {T} {NT : Num T} (g h : list T) (Pi : list (list T)) (ig iv : T) : mcout :=
  mkMC (untab g) (untab h) (untab2 Pi) ig iv.
Definition mk_gc {T} {NT : Num T} (g w hh : list T) (dup dlo gt pt it : T) : gcert :=
  mkGC (untab g) (untab w) (untab hh) dup dlo gt pt it.
