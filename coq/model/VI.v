(* VI.v — C01: what msdm's ValueIteration (vectorized and dict) and
   PolicyIteration return, as (i) a certificate checker over the returned
   tables and (ii) mirror models of the two value-iteration loops.
   Generic in the number type; executed on Q / bigQ, reasoned about on R. *)
From Coq Require Import List Arith Bool.
From MSDM Require Import base.Num model.MDP.
Import ListNotations.

Section C01.
Context {T : Type} {NT : Num T}.
Local Open Scope num_scope.
Variable m : mdp T.

(* ---- the planner's reported result, by index ---- *)
Record planout := mkOut {
  oV : nat -> T;                 (* state_value *)
  oQ : nat -> nat -> option T;   (* action_value, None = -inf *)
  oPi : nat -> nat -> T;         (* policy matrix *)
  oInit : T                      (* initial_value *)
}.

(* tolerances the checker is run with (all supplied by the harness, see harness/c01.py) *)
Record tols := mkTols {
  epsb : T;      (* allowed Bellman residual of the reported values *)
  qtol : T;      (* allowed |Q - lookahead(V)| *)
  rtol_hi : T; atol_hi : T;   (* isclose band, rounded up: in support  => within band_hi of max *)
  rtol_lo : T; atol_lo : T;   (* isclose band, rounded down: within band_lo of max => in support *)
  ptol : T;      (* |pi*count - 1| *)
  itol : T;      (* initial value *)
  undef : T      (* undefined_value placeholder *)
}.

Variable o : planout.
Variable t : tols.

(* values as the iteration sees them: placeholder states count as 0 *)
Definition Vz (s : nat) : T := if unable_to_reach m s then n0 else oV o s.

Definition Qfin (s a : nat) : T := match oQ o s a with Some x => x | None => n0 end.
Definition maxQ (s : nat) : option T := maxf (nA m) (avail m s) (Qfin s).
Definition insupp (s a : nat) : bool := nltb n0 (oPi o s a).
Definition suppcount (s : nat) : nat := countb (nA m) (insupp s).
Definition band_hi (mx : T) : T := atol_hi t + rtol_hi t * nabs mx.
Definition band_lo (mx : T) : T := atol_lo t + rtol_lo t * nabs mx.

(* absorbing states are worth 0, and so are their available actions *)
Definition c_abs : bool :=
  forallbn (nS m) (fun s =>
    if absorbing m s then
      neqb (oV o s) n0 &&
      forallbn (nA m) (fun a => if avail m s a then
                                  match oQ o s a with Some x => neqb x n0 | None => false end
                                else true)
    else true).

(* placeholder at states that can never reach an absorbing state (only when gamma >= 1) *)
Definition c_mask : bool :=
  forallbn (nS m) (fun s => if unable_to_reach m s then neqb (oV o s) (undef t) else true).

(* Bellman residual of the reported values *)
Definition c_res : bool :=
  forallbn (nS m) (fun s =>
    if masked m s then true else
    match backup m Vz s with
    | Some b => ncloseb (epsb t) (oV o s) b
    | None => false
    end).

(* reported action values are the one-step look-ahead of the reported values;
   unavailable actions are -inf *)
Definition c_q : bool :=
  forallbn (nS m) (fun s =>
    if masked m s then true else
    forallbn (nA m) (fun a =>
      match oQ o s a with
      | Some x => avail m s a && ncloseb (qtol t) x (Qval m Vz s a)
      | None => negb (avail m s a)
      end)).

(* policy: uniform over exactly the available near-maximal actions *)
Definition c_pol : bool :=
  forallbn (nS m) (fun s =>
    if masked m s then true else
    match maxQ s with
    | None => false
    | Some mx =>
      let k := nofnat (suppcount s) in
      forallbn (nA m) (fun a =>
        if insupp s a then
          avail m s a && ((mx - band_hi mx) <=? Qfin s a) &&
          ncloseb (ptol t) (oPi o s a * k) n1
        else
          neqb (oPi o s a) n0 &&
          (negb (avail m s a) || nltb (Qfin s a) (mx - band_lo mx)))
    end).

(* placeholder states (not absorbing, can never reach an absorbing state): the policy row is still a
   distribution over the state's own available actions (a structural clause: it does not depend on convergence) *)
Definition c_polu : bool :=
  forallbn (nS m) (fun s =>
    if masked m s && negb (absorbing m s) then
       forallbn (nA m) (fun a => if insupp s a then avail m s a else true) &&
       ncloseb (ptol t) (sumf (nA m) (oPi o s)) n1
    else true).

Definition c_init : bool :=
  ncloseb (itol t) (oInit o) (sumf (nS m) (fun s => init m s * oV o s)).

(* well-formedness of the MDP the implementation was given (boolean, so each
   concrete case discharges it by computation) *)
Definition wfb : bool :=
  (n0 <=? gamma m) && (gamma m <=? n1) &&
  forallbn (nS m) (fun s =>
    existsb (fun a => avail m s a) (seq 0 (nA m)) &&
    forallbn (nA m) (fun a =>
      forallbn (nS m) (fun ns => n0 <=? P m s a ns) &&
      (if avail m s a then neqb (sumf (nS m) (P m s a)) n1
       else forallbn (nS m) (fun ns => neqb (P m s a ns) n0)))).

(* ---- undiscounted case (gamma = 1, rewards <= 0): extra clauses ---- *)
(* the reported policy, idealised to exactly uniform on its support *)
Definition upolT (s a : nat) : T :=
  if masked m s then (if avail m s a then n1 / nofnat (countb (nA m) (avail m s)) else n0)
  else (if insupp s a then n1 / nofnat (suppcount s) else n0).
Definition c_nonpos : bool := forallbn (nS m) (fun s => Vz s <=? n0).
Definition c_rnonpos : bool :=
  forallbn (nS m) (fun s => forallbn (nA m) (fun a => negb (avail m s a) || (Rm m s a <=? n0))).
(* states at which following the reported policy for one step may lose value *)
Definition lossy (s : nat) : bool := negb (Vz s <=? Qpol m upolT Vz s).
(* expected-number-of-lossy-steps certificate N for the reported policy *)
Definition c_N (N : nat -> T) : bool :=
  forallbn (nS m) (fun s =>
    (n0 <=? N s) &&
    ((if lossy s then n1 else n0) +
       sumf (nA m) (fun a => upolT s a * sumf (nS m) (fun ns => Pm m s a ns * N ns))
     <=? N s)).

Definition c01_undisc_check (N : list T) : list bool := [c_nonpos; c_rnonpos; c_N (untab N)].

Definition c01_check : list bool := [wfb; c_abs; c_mask; c_res; c_q; c_pol; c_init; c_polu].

(* ------------------------------------------------------------------ *)
(* mirror models of the loops                                          *)
(* ------------------------------------------------------------------ *)
Definition sweep (V : list T) : list T :=
  tab (nS m) (fun s => odflt n0 (backup m (untab V) s)).

Fixpoint vi_iter (k : nat) : list T :=
  match k with O => tab (nS m) (fun _ => n0) | S k' => sweep (vi_iter k') end.

Definition allclose (eps : T) (V W : list T) : bool :=
  forallbn (nS m) (fun s => ncloseb eps (untab V s) (untab W s)).
Definition maxdiff (V W : list T) : T :=
  fold_right nmax n0 (map (fun s => nabs (untab V s - untab W s)) (seq 0 (nS m))).

(* value_iteration_vectorized: returns the OLD values and the index i at break *)
Fixpoint vi_vec_loop (fuel i : nat) (eps : T) (V : list T) : list T * nat :=
  match fuel with
  | O => (V, pred i)
  | S f => let nx := sweep V in
           if allclose eps V nx then (V, i) else vi_vec_loop f (S i) eps nx
  end.
Definition vi_vec (max_iter : nat) (eps : T) : list T * nat :=
  vi_vec_loop max_iter 0 eps (vi_iter 0).

(* value_iteration_tabular: returns the NEW values; strict stop test *)
Fixpoint vi_dict_loop (fuel i : nat) (eps : T) (V : list T) : list T * nat :=
  match fuel with
  | O => (V, pred i)
  | S f => let nx := sweep V in
           if nltb (maxdiff V nx) eps then (nx, i) else vi_dict_loop f (S i) eps nx
  end.
Definition vi_dict (max_iter : nat) (eps : T) : list T * nat :=
  vi_dict_loop max_iter 0 eps (vi_iter 0).

End C01.

(* exact optimality certificate: V is a fixed point of the (masked) optimality operator.
   Used (i) for the non-vacuity examples and (ii) by the harness' violation search, which
   finds V* by exact policy iteration in Python and has Coq confirm it here. *)
Definition fixb {T} {NT : Num T} (m : mdp T) (V : list T) : bool :=
  forallbn (nS m) (fun s =>
    match backup m (untab V) s with
    | Some b => neqb (untab V s) b
    | None => false
    end).

(* constructing the model from the arrays the implementation exposes *)
Definition mk_mdp {T} {NT : Num T} (nS nA : nat) (P R : list (list (list T)))
           (av : list (list bool)) (absf : list bool) (ini : list T) (g : T) : mdp T :=
  mkMDP nS nA (untab3 P) (untab3 R)
        (fun s a => nth a (nth s av []) false) (fun s => nth s absf false) (untab ini) g.

Definition mk_out {T} {NT : Num T} (V : list T) (Qv : list (list (option T)))
           (Pi : list (list T)) (iv : T) : planout :=
  mkOut (untab V) (fun s a => nth a (nth s Qv []) None) (untab2 Pi) iv.
