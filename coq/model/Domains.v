(* model/Domains.v — executable mirrors of the remaining built-in msdm domains (DISCRETE style) and the
   well-formedness certificate checker that is evaluated on what msdm returns.

     wf_check       certificate: normalisation / closure in the state list / finite rewards / >= 1 action
     tiger_*        msdm/domains/tiger.py
     lu_*           msdm/domains/loadunload.py
     hh_*           msdm/domains/heavenorhell.py
     cliff_*        msdm/domains/cliffwalking.py          (GridMDP, any grid over {., s, x, g})
     windy_*        msdm/domains/gridmdp/windygridworld.py (wind -> action -> walls -> features by `chain`)
   The plain grid world is in model/GridWorld.v. *)
From Coq Require Import ZArith QArith List Bool Lia.
From MSDM Require Import model.GridWorld.
Import ListNotations.
Local Open Scope Z_scope.

(* ------------------------------------------------------------------------------------------ *)
(* certificate checker                                                                          *)
(* ------------------------------------------------------------------------------------------ *)
(* one entry of a distribution reported by msdm: index of the successor in the state list (None when it is
   not in the list), probability, reward of the transition (None when not finite) *)
Definition entry := (option nat * Q * option Q)%type.
Definition e_idx (e : entry) := fst (fst e).
Definition e_p (e : entry) : Q := snd (fst e).
Definition e_r (e : entry) := snd e.

Definition sumQ (l : list Q) : Q := fold_right Qplus 0%Q l.
Definition qabs_le (x tol : Q) : bool := Qle_bool x tol && Qle_bool (- tol) x.
Definition is_some {A} (o : option A) : bool := match o with Some _ => true | None => false end.

Definition entry_ok (nS : nat) (e : entry) : bool :=
  Qle_bool 0 (e_p e) &&
  (Qeq_bool (e_p e) 0 ||
   (match e_idx e with Some k => Nat.ltb k nS | None => false end && is_some (e_r e))).
Definition dist_ok (nS : nat) (tol : Q) (d : list entry) : bool :=
  forallb (entry_ok nS) d && qabs_le (sumQ (map e_p d) - 1) tol.
Definition state_ok (nS : nat) (tol : Q) (acts : list (list entry)) : bool :=
  negb (Nat.eqb (length acts) 0) && forallb (dist_ok nS tol) acts.
(* rows: per state, per available action, the next-state distribution; init: initial distribution;
   obs: every observation distribution (indices into the observation list of length nO) *)
Definition wf_check (nS nO : nat) (tol : Q) (rows : list (list (list entry))) (init : list entry)
           (obs : list (list entry)) : bool :=
  Nat.eqb (length rows) nS && forallb (state_ok nS tol) rows && dist_ok nS tol init
  && forallb (dist_ok nO tol) obs.

(* ------------------------------------------------------------------------------------------ *)
(* Tiger                                                                                         *)
(* ------------------------------------------------------------------------------------------ *)
Inductive tside := TL | TR.                       (* states and observations: 'left' / 'right' *)
Inductive tact := TAleft | TAright | TAlisten.
Definition tside_eqb (a b : tside) := match a, b with TL, TL | TR, TR => true | _, _ => false end.
Definition tiger_states := [TL; TR].
Definition tiger_actions := [TAleft; TAright; TAlisten].
Definition tiger_init : list (tside * Q) := [(TL, 1 # 2); (TR, 1 # 2)]%Q.
Definition tiger_next (s : tside) (a : tact) : list (tside * Q) :=
  match a with TAlisten => [(s, 1%Q)] | _ => tiger_init end.
Definition tiger_reward (s : tside) (a : tact) (ns : tside) : Q :=
  match a, s with
  | TAlisten, _ => (-1)%Q
  | TAleft, TL | TAright, TR => (-100)%Q
  | _, _ => 10%Q
  end.
Definition tiger_obs (c : Q) (a : tact) (ns : tside) : list (tside * Q) :=
  match a with
  | TAlisten => let pl := match ns with TL => c | TR => (1 - c)%Q end in [(TL, pl); (TR, (1 - pl)%Q)]
  | _ => [(TL, 1 # 2); (TR, 1 # 2)]%Q
  end.
Definition tmass (d : list (tside * Q)) : Q := sumQ (map snd d).

(* ------------------------------------------------------------------------------------------ *)
(* Load / unload                                                                                 *)
(* ------------------------------------------------------------------------------------------ *)
Definition lustate := (Z * bool)%type.
Inductive luobs := OLoad | OUnload | OOther.
Definition lu_actions : list Z := [-1; 1].
Definition lu_init : list (lustate * Q) := [((0, false), 1%Q)].
Definition lu_step (n : Z) (s : lustate) (d : Z) : lustate :=
  let l := Z.min (Z.max (fst s + d) 0) (n - 1) in
  let ld1 := if l =? 0 then false else snd s in
  let ld2 := if l =? n - 1 then true else ld1 in
  (l, ld2).
Definition lu_next (n : Z) (s : lustate) (d : Z) : list (lustate * Q) := [(lu_step n s d, 1%Q)].
Definition lu_reward (s ns : lustate) : Q := if snd s && negb (snd ns) then 1%Q else 0%Q.
Definition lu_obs (n : Z) (ns : lustate) : list (luobs * Q) :=
  [(if fst ns =? 0 then OUnload else if fst ns =? n - 1 then OLoad else OOther, 1%Q)].
(* the state list msdm computes (reachable states, sorted) *)
Definition lu_states (n : nat) : list lustate :=
  (0, false) :: flat_map (fun i => [(i, false); (i, true)]) (map (fun k => Z.of_nat k) (seq 1 (n - 2)))
  ++ [(Z.of_nat n - 1, true)].
Definition lu_eqb (a b : lustate) := (fst a =? fst b) && Bool.eqb (snd a) (snd b).

(* ------------------------------------------------------------------------------------------ *)
(* Heaven or hell: rows top-to-bottom, y = row index (NOT flipped), (x, y) -> character          *)
(* ------------------------------------------------------------------------------------------ *)
Definition C_HASH : sym := 35%nat.  Definition C_G : sym := 103%nat.  Definition C_H : sym := 104%nat.
Definition C_S : sym := 115%nat.    Definition C_C : sym := 99%nat.   Definition C_SP : sym := 32%nat.
Definition C_X : sym := 120%nat.
Definition hhstate := (Z * Z * bool)%type.     (* x, y, (heaven = 'g', hell = 'h') ? *)
Definition hh_cell (g : layout) (x y : Z) : option sym :=
  if (0 <=? x) && (0 <=? y) then
    match nth_error g (Z.to_nat y) with Some row => nth_error row (Z.to_nat x) | None => None end
  else None.
Definition hh_heaven (s : hhstate) : sym := if snd s then C_G else C_H.
Definition hh_hell (s : hhstate) : sym := if snd s then C_H else C_G.
Definition hh_actions : list (Z * Z * bool) :=
  [(0, -1, false); (0, 1, false); (-1, 0, false); (1, 0, false); (0, 0, true)].
Definition hh_blocked (g : layout) (x y : Z) : bool :=
  match hh_cell g x y with Some c => Nat.eqb c C_HASH | None => true end.
Definition hh_step (g : layout) (s : hhstate) (a : Z * Z * bool) : hhstate :=
  let '(x, y, hv) := s in
  let '(dx, dy, _) := a in
  if hh_blocked g (x + dx) (y + dy) then (x, y, hv) else (x + dx, y + dy, hv).
Definition hh_next (g : layout) (s : hhstate) (a : Z * Z * bool) : list (hhstate * Q) := [(hh_step g s a, 1%Q)].
Definition hh_celleq (g : layout) (s : hhstate) (c : sym) : bool :=
  match hh_cell g (fst (fst s)) (snd (fst s)) with Some f => Nat.eqb f c | None => false end.
Definition hh_reward (g : layout) (stepc hr lr : Q) (ns : hhstate) : Q :=
  (stepc + (if hh_celleq g ns (hh_heaven ns) then hr else if hh_celleq g ns (hh_hell ns) then lr else 0))%Q.
Definition hh_is_absorbing (g : layout) (s : hhstate) : bool :=
  hh_celleq g s (hh_heaven s) || hh_celleq g s (hh_hell s).
(* observation = (x, y, symbol) *)
Definition hh_obs (g : layout) (c : Q) (a : Z * Z * bool) (ns : hhstate) : list (Z * Z * sym * Q) :=
  let '(x, y, _) := ns in
  if snd a && hh_celleq g ns C_C then [((x, y, hh_heaven ns), c); ((x, y, hh_hell ns), (1 - c)%Q)]
  else [((x, y, C_SP), 1%Q)].
(* first 's' in reading order *)
Fixpoint find_col (row : list sym) (c : sym) (x : Z) : option Z :=
  match row with [] => None | f :: t => if Nat.eqb f c then Some x else find_col t c (x + 1) end.
Fixpoint find_first (g : layout) (c : sym) (y : Z) : option (Z * Z) :=
  match g with
  | [] => None
  | row :: t => match find_col row c 0 with Some x => Some (x, y) | None => find_first t c (y + 1) end
  end.
Definition hh_init (g : layout) : list (hhstate * Q) :=
  match find_first g C_S 0 with
  | Some (x, y) => [((x, y, true), 1 # 2); ((x, y, false), 1 # 2)]%Q
  | None => []
  end.
Definition hh_eqb (a b : hhstate) : bool :=
  (fst (fst a) =? fst (fst b)) && (snd (fst a) =? snd (fst b)) && Bool.eqb (snd a) (snd b).
Definition hh_mem (s : hhstate) (l : list hhstate) : bool := existsb (hh_eqb s) l.
(* closure certificate on msdm's own state list; [skip_abs]: successors of absorbing states not required *)
Definition hh_closed_check (g : layout) (skip_abs : bool) (sl : list hhstate) : bool :=
  forallb (fun s => (skip_abs && hh_is_absorbing g s) ||
                    forallb (fun a => hh_mem (hh_step g s a) sl) hh_actions) sl.

(* ------------------------------------------------------------------------------------------ *)
(* GridMDP grids (cliff walking, windy grid world): rows top-to-bottom, y flipped; every character,  *)
(* including '.', is a feature.  We reuse GridWorld.cell through a parameter record holding the rows. *)
(* ------------------------------------------------------------------------------------------ *)
Definition gm (rows : layout) : gwp := mkGW rows [] [] [] [] 0 1.
Definition gm_feat (rows : layout) (s : pos) : option sym := cell (gm rows) s.
Definition gm_w (rows : layout) : Z := g_w (gm rows).
Definition gm_h (rows : layout) : Z := g_h (gm rows).
Definition gm_is (rows : layout) (s : pos) (c : sym) : bool :=
  match gm_feat rows s with Some f => Nat.eqb f c | None => false end.
(* locations_with(c): dictionary order of location_feature_dict = y ascending, then x ascending *)
Definition gm_locations (rows : layout) (c : sym) : list pos :=
  filter (fun s => gm_is rows s c)
         (flat_map (fun y => map (fun x => (x, y)) (zrange (length (hd [] rows)))) (zrange (length rows))).
Definition gm_actions : list pos := [(0, -1); (0, 1); (1, 0); (-1, 0)].
Definition uniform (l : list pos) : list (pos * Q) := map (fun s => (s, (1 # Pos.of_nat (length l))%Q)) l.

(* ---- cliff walking ---- *)
Definition cliff_grid : layout :=
  let d := 46%nat in let x := C_X in
  [ repeat d 12; repeat d 12; repeat d 12; C_S :: repeat x 10 ++ [C_G] ].
Definition cliff_apply (rows : layout) (s a : pos) : pos :=
  (Z.max (Z.min (fst s + fst a) (gm_w rows - 1)) 0, Z.max (Z.min (snd s + snd a) (gm_h rows - 1)) 0).
Definition cliff_next (rows : layout) (s a : pos) : list (pos * Q) :=
  let ns := cliff_apply rows s a in
  if gm_is rows ns C_X then uniform (gm_locations rows C_S) else [(ns, 1%Q)].
Definition cliff_reward (rows : layout) (s a : pos) : Q :=
  if gm_is rows (cliff_apply rows s a) C_X then (-100)%Q else (-1)%Q.
Definition cliff_is_absorbing (rows : layout) (s : pos) : bool := gm_is rows s C_G.
Definition cliff_init (rows : layout) : list (pos * Q) := uniform (gm_locations rows C_S).

(* ---- windy grid world ---- *)
Record windyp := mkWindy {
  w_rows : layout; w_frew : list (sym * Q); w_step : Q; w_bump : Q; w_wp : Q;
  w_start : list sym; w_goal : list sym; w_wallf : list sym }.
Definition C_UP : sym := 94%nat.  Definition C_DOWN : sym := 118%nat.
Definition C_LEFT : sym := 60%nat. Definition C_RIGHT : sym := 62%nat.
Definition nsr := (pos * Q)%type.                     (* (location, accumulated reward) *)
Definition nsr_eqb (a b : nsr) : bool := pos_eqb (fst a) (fst b) && Qeq_bool (snd a) (snd b).
(* defaultdict(float) accumulation, first-insertion order *)
Fixpoint dadd {K} (eqb : K -> K -> bool) (k : K) (p : Q) (d : list (K * Q)) : list (K * Q) :=
  match d with
  | [] => [(k, p)]
  | (k', p') :: t => if eqb k' k then (k', (p' + p)%Q) :: t else (k', p') :: dadd eqb k p t
  end.
(* FiniteDistribution.chain *)
Definition dchain {K L} (eqb : L -> L -> bool) (d : list (K * Q)) (f : K -> list (L * Q)) : list (L * Q) :=
  fold_left (fun acc ep => fold_left (fun acc2 ep2 => dadd eqb (fst ep2) (snd ep * snd ep2)%Q acc2) (f (fst ep)) acc)
            d [].
(* FiniteDistribution.marginalize *)
Definition dmarg {K L} (eqb : L -> L -> bool) (d : list (K * Q)) (f : K -> L) : list (L * Q) :=
  fold_left (fun acc ep => dadd eqb (f (fst ep)) (snd ep) acc) d [].

Definition windy_wind (w : windyp) (e : nsr) : list (nsr * Q) :=
  let (s, r) := e in
  match gm_feat (w_rows w) s with
  | None => [((s, r), 1%Q)]
  | Some f =>
      if Nat.eqb f C_RIGHT then [((s, r), (1 - w_wp w)%Q); ((padd s (1, 0), r), w_wp w)]
      else if Nat.eqb f C_LEFT then [((s, r), (1 - w_wp w)%Q); ((padd s (-1, 0), r), w_wp w)]
      else if Nat.eqb f C_UP then [((s, r), (1 - w_wp w)%Q); ((padd s (0, 1), r), w_wp w)]
      else if Nat.eqb f C_DOWN then [((s, r), (1 - w_wp w)%Q); ((padd s (0, -1), r), w_wp w)]
      else [((s, r), 1%Q)]
  end.
Definition windy_action (w : windyp) (a : pos) (e : nsr) : list (nsr * Q) :=
  [((padd (fst e) a, w_step w), 1%Q)].
Definition windy_is (w : windyp) (l : list sym) (s : pos) : bool :=
  match gm_feat (w_rows w) s with Some f => memb f l | None => false end.
Definition windy_walls (w : windyp) (s0 : pos) (e : nsr) : list (nsr * Q) :=
  let (ns, r) := e in
  if windy_is w (w_wallf w) ns then [((s0, (r + w_bump w)%Q), 1%Q)]
  else
    let xo := (fst ns <? 0) || (gm_w (w_rows w) - 1 <? fst ns) in
    let yo := (snd ns <? 0) || (gm_h (w_rows w) - 1 <? snd ns) in
    let r1 := if xo then (r + w_bump w)%Q else r in
    let r2 := if yo then (r1 + w_bump w)%Q else r1 in
    [(((if xo then fst s0 else fst ns, if yo then snd s0 else snd ns), r2), 1%Q)].
Definition windy_features (w : windyp) (e : nsr) : list (nsr * Q) :=
  let (s, r) := e in
  [((s, (r + match gm_feat (w_rows w) s with Some f => lookupQ f (w_frew w) | None => 0 end)%Q), 1%Q)].
Definition windy_nsr (w : windyp) (s a : pos) : list (nsr * Q) :=
  let d0 := [((s, 0%Q), 1%Q)] in
  let d1 := dchain nsr_eqb d0 (windy_wind w) in
  let d2 := dchain nsr_eqb d1 (windy_action w a) in
  let d3 := dchain nsr_eqb d2 (windy_walls w s) in
  dchain nsr_eqb d3 (windy_features w).
Definition windy_next (w : windyp) (s a : pos) : list (pos * Q) := dmarg pos_eqb (windy_nsr w s a) fst.
(* reward(s, a, ns): conditional expectation of the accumulated reward given the landing cell *)
Definition windy_reward (w : windyp) (s a ns : pos) : Q :=
  let d := filter (fun ep => pos_eqb (fst (fst ep)) ns) (windy_nsr w s a) in
  let norm := sumQ (map snd d) in
  sumQ (map (fun ep => (snd (fst ep) * (snd ep / norm))%Q) d).
Definition windy_is_absorbing (w : windyp) (s : pos) : bool := windy_is w (w_goal w) s.
Definition windy_init (w : windyp) : list (pos * Q) :=
  uniform (flat_map (fun c => gm_locations (w_rows w) c) (w_start w)).
Definition pos_mem (s : pos) (l : list pos) : bool := existsb (pos_eqb s) l.
Definition windy_closed_check (w : windyp) (skip_abs : bool) (sl : list pos) : bool :=
  forallb (fun s => (skip_abs && windy_is_absorbing w s) ||
     forallb (fun a => forallb (fun nsp => Qeq_bool (snd nsp) 0 || pos_mem (fst nsp) sl) (windy_next w s a))
             gm_actions) sl.
