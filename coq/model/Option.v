(* Option.v — model of msdm/core/semimdp/option.py and semimdp.py (property C15).

   DISCRETE style: states and actions are nat ids, rewards / probabilities / discount are
   exact rationals (Q); nothing here is generic in a number class, so the theorems of
   theory/OptionTheory.v are about the very functions that vm_compute runs in the harness.

   Part A  Python objects as a three-level attribute store (instance dict, class dict,
           base-class dicts along the MRO) with Python's lookup rule, and `augment`
           exactly as option.py:123-175 writes it.
   Part B  Policy.run_on / Option.run_on as a roll-out driven by an explicit choice stream
           (the stream stands for the rng: element t is the (action, next state) sampled
           at step t), with the exact max_steps off-by-one of the code.
   Part C  SemiMarkovDecisionProcess: run_simulations, the outcome loop of
           next_state_transit_time_reward_dist, its marginals, and the primitive-action case.
*)
From Coq Require Import QArith List Bool String Arith.
Import ListNotations.
Local Open Scope string_scope.
Local Open Scope list_scope.

(* ------------------------------------------------------------------ *)
(** * Part A — attribute store and augment *)

Definition key := string.
Definition dist (A : Type) := list (A * Q).      (* DictDistribution: items in dict order *)

(* cached tabular views (numpy arrays / sets that cached_property and method_cache store
   on the INSTANCE under "_cached_<name>" / "_cache_<name>") *)
Inductive tabview : Type :=
| TQ3 (m : list (list (list Q)))                 (* transition_matrix, reward_matrix *)
| TB2 (m : list (list bool))                     (* action_matrix *)
| TB1 (v : list bool)                            (* absorbing_state_vec, dead_end_state_vec *)
| TQ1 (v : list Q)                               (* initial_state_vec *)
| TN1 (v : list nat).                            (* reachable_states() (a set) *)

(* What an attribute can evaluate to.  A callable component is represented by its
   (already bound) behaviour. *)
Inductive value : Type :=
| VNum (q : Q)                                   (* discount_rate *)
| VNats (l : list nat)                           (* state_list / action_list *)
| VInit (d : dist nat)                           (* initial_state_dist() *)
| VActs (f : nat -> list nat)                    (* actions(s) *)
| VTrans (f : nat -> nat -> dist nat)            (* next_state_dist(s, a) *)
| VRew (f : nat -> nat -> nat -> Q)              (* reward(s, a, ns) *)
| VAbs (f : nat -> bool)                         (* is_absorbing(s) *)
| VTab (t : tabview).                            (* a cached tabular view *)

Fixpoint assoc {A : Type} (k : key) (l : list (key * A)) : option A :=
  match l with
  | [] => None
  | (k', v) :: r => if String.eqb k k' then Some v else assoc k r
  end.

(* What `self.<name>` gives inside a method body for DATA attributes. *)
Definition selfview := key -> option value.

(* A class-dict entry is either a plain value (class attribute, staticmethod, an
   already-bound method object stored on a class: none of these is re-bound on access)
   or a function / property defined in the class body, whose result depends on the
   instance it is looked up through (descriptor rule: `self` is bound at access). *)
(* A CVal is never re-bound on access.  That is right for data, bound methods and
   staticmethod objects; it would be wrong for a plain function stored un-wrapped on a class
   (Python binds it as a method).  augment never does that: overrides are stored as
   staticmethod(f) and, since /repo commit b30f659, so are the copies staticmethod(mdp.x) of the
   non-overridden components (before it, augment of an augmented MDP stored a previously
   overridden f un-wrapped and every call raised TypeError: harness signature
   C15:augment:of-derived-mdp:overridden-component-unusable). *)
Inductive centry : Type :=
| CVal (v : value)
| CFun (body : selfview -> option value).

Record pyclass := mkClass { cname : string; cdict : list (key * centry) }.

(* inst = obj.__dict__ ; mro = type(obj).__mro__ (class first, then its bases, linearised) *)
Record obj := mkObj { inst : list (key * value); mro : list pyclass }.

Fixpoint mro_lookup (k : key) (cs : list pyclass) : option centry :=
  match cs with
  | [] => None
  | c :: r => match assoc k (cdict c) with Some e => Some e | None => mro_lookup k r end
  end.

(* self.k for data attributes: instance dict, then plain class attributes along the MRO.
   (Method bodies that call other methods of self are outside this model.) *)
Definition data_lookup (o : obj) : selfview := fun k =>
  match assoc k (inst o) with
  | Some v => Some v
  | None => match mro_lookup k (mro o) with Some (CVal v) => Some v | _ => None end
  end.

(* getattr(o, k): instance dict first, then the first class along the MRO that defines k;
   a function found on a class is bound to o.  None = AttributeError.
   (Python gives data descriptors priority over the instance dict; an instance dict can
   never hold a key that one of its classes defines as a setter-less property, so the
   order below agrees with Python on every object that can exist.) *)
Definition getattr (o : obj) (k : key) : option value :=
  match assoc k (inst o) with
  | Some v => Some v
  | None => match mro_lookup k (mro o) with
            | Some (CVal v) => Some v
            | Some (CFun body) => body (data_lookup o)
            | None => None
            end
  end.

Definition isinstance (o : obj) (cn : string) : bool :=
  existsb (fun c => String.eqb (cname c) cn) (mro o).
Definition tabular_name := "TabularMarkovDecisionProcess".
Definition is_tabular (o : obj) : bool := isinstance o tabular_name.

(* the five functional components, in the order option.py assigns them *)
Definition components : list key :=
  ["initial_state_dist"; "actions"; "next_state_dist"; "reward"; "is_absorbing"].
Definition tab_components : list key := ["state_list"; "action_list"].

(* overrides: keyword arguments of augment that are not None *)
Definition overrides := list (key * value).

(* One assignment `AugmentedMDP.k = staticmethod(ov[k])`  or  `AugmentedMDP.k = mdp.k`.
   `mdp.k` is evaluated NOW through getattr on the base object: the stored thing is the
   base object's bound method / current value, a plain class attribute of the new class. *)
Definition aug_entry (o : obj) (ov : overrides) (k : key) : option (key * centry) :=
  match assoc k ov with
  | Some v => Some (k, CVal v)
  | None => match getattr o k with Some v => Some (k, CVal v) | None => None end
  end.

Fixpoint aug_entries (o : obj) (ov : overrides) (ks : list key) : option (list (key * centry)) :=
  match ks with
  | [] => Some []
  | k :: r => match aug_entry o ov k, aug_entries o ov r with
              | Some e, Some es => Some (e :: es)
              | _, _ => None
              end
  end.

Definition has_key {A : Type} (k : key) (l : list (key * A)) : bool :=
  match assoc k l with Some _ => true | None => false end.

(* augment, parametrised by the list `extra` of further attributes copied from the base
   object by value.  option.py copies none: see [augment] below.  [None] = the call raises
   (the assert, or AttributeError on a missing base component). *)
Definition augment_gen (extra : list key) (o : obj) (ov : overrides) : option obj :=
  if (has_key "state_list" ov || has_key "action_list" ov) && negb (is_tabular o) then None
  else
    match aug_entries o ov components,
          (if is_tabular o then aug_entries o ov tab_components else Some []),
          aug_entries o [] extra with
    | Some es, Some ts, Some xs =>
        (* class AugmentedMDP(mdp.__class__): def __init__(self): pass ; return AugmentedMDP() *)
        Some (mkObj [] (mkClass "AugmentedMDP" (es ++ ts ++ xs) :: mro o))
    | _, _, _ => None
    end.

(* THE CODE AS IT IS (option.py after /repo commit 29c9a36 "augment keeps the base MDP's
   discount rate"): besides the five components and, for tabular MDPs, the two lists,
   `AugmentedMDP.discount_rate = mdp.discount_rate` is assigned before the return.
   (Before that commit this list was empty: augment_gen [] is the OLD variant, about which
   theory/OptionTheory.v keeps a historical refutation.) *)
Definition copied_plain : list key := ["discount_rate"].
Definition augment : obj -> overrides -> option obj := augment_gen copied_plain.

(* --- PlanToSubgoalOption.sub_task ---------------------------------- *)
Definition memb (n : nat) (l : list nat) : bool := existsb (Nat.eqb n) l.
Definition qnat (n : nat) : Q := inject_Z (Z.of_nat n).
Definition uniform (l : list nat) : dist nat := map (fun s => (s, 1 / qnat (List.length l))) l.

Record subgoal_option := mkSubgoal {
  so_initial : list nat;            (* initial_states *)
  so_subgoals : list nat;           (* subgoals *)
  so_include_abs : bool;            (* include_mdp_absorbing_states *)
  so_maxr : option Q                (* max_nonterminal_pseudoreward; None = +inf *)
}.

Definition clipped_reward (so : subgoal_option) (rw : nat -> nat -> nat -> Q) : nat -> nat -> nat -> Q :=
  fun s a ns =>
    let r := rw s a ns in
    if memb ns (so_subgoals so) then r
    else match so_maxr so with
         | Some m => if negb (Qle_bool r m) then m else r      (* real_reward > max *)
         | None => r
         end.

(* The closures of sub_task call self.mdp.reward / self.mdp.is_absorbing when invoked; the
   model resolves them when sub_task is built (a missing base component is reported as a
   raise here instead of at the first call). *)
Definition sub_task_gen (extra : list key) (o : obj) (so : subgoal_option) : option obj :=
  match getattr o "reward" with
  | Some (VRew rw) =>
      let term := fun s => memb s (so_subgoals so) in
      let absf :=
        if so_include_abs so then
          match getattr o "is_absorbing" with
          | Some (VAbs ab) => Some (fun s => term s || ab s)
          | _ => None
          end
        else Some term in
      match absf with
      | Some ab =>
          augment_gen extra o [("is_absorbing", VAbs ab);
                               ("reward", VRew (clipped_reward so rw));
                               ("initial_state_dist", VInit (uniform (so_initial so)))]
      | None => None
      end
  | _ => None
  end.
Definition sub_task : obj -> subgoal_option -> option obj := sub_task_gen copied_plain.

(* ------------------------------------------------------------------ *)
(** * Part A' — tabular views (tabularmdp.py) and their per-instance caches *)

(* cached_property / method_cache: `if not hasattr(self, "_cached_x"): setattr(self, ...)`.
   The cache entries only ever live in instance dicts (setattr on self; no class defines
   these names), so a FRESH instance recomputes every view from its own components. *)
Definition cached (o : obj) (attr : key) (compute : option tabview) : option tabview :=
  match assoc attr (inst o) with
  | Some (VTab t) => Some t
  | Some _ => None
  | None => compute
  end.

Definition comp_init (o : obj) := match getattr o "initial_state_dist" with Some (VInit d) => Some d | _ => None end.
Definition comp_acts (o : obj) := match getattr o "actions" with Some (VActs f) => Some f | _ => None end.
Definition comp_trans (o : obj) := match getattr o "next_state_dist" with Some (VTrans f) => Some f | _ => None end.
Definition comp_rew (o : obj) := match getattr o "reward" with Some (VRew f) => Some f | _ => None end.
Definition comp_abs (o : obj) := match getattr o "is_absorbing" with Some (VAbs f) => Some f | _ => None end.
Definition comp_lists (o : obj) : option (list nat * list nat) :=
  match getattr o "state_list", getattr o "action_list" with
  | Some (VNats sl), Some (VNats al) => Some (sl, al)
  | _, _ => None
  end.

Fixpoint dprob (d : dist nat) (x : nat) : option Q :=       (* dict lookup *)
  match d with
  | [] => None
  | (e, p) :: r => if Nat.eqb e x then Some p else dprob r x
  end.
Definition dprob0 (d : dist nat) (x : nat) : Q := match dprob d x with Some p => p | None => 0%Q end.

(* transition_matrix: tf[si, ai, nsi] = p for a in actions(s), (ns, p) in next_state_dist(s, a), p != 0.
   (A successor with p != 0 outside state_list makes the code raise; not modelled.) *)
Definition compute_tf (o : obj) : option tabview :=
  match comp_lists o, comp_acts o, comp_trans o with
  | Some (sl, al), Some acts, Some tr =>
      Some (TQ3 (map (fun s => map (fun a => map (fun ns =>
                 if memb a (acts s) then dprob0 (tr s a) ns else 0%Q) sl) al) sl))
  | _, _, _ => None
  end.
Definition view_tf (o : obj) := cached o "_cached_transition_matrix" (compute_tf o).

Definition compute_am (o : obj) : option tabview :=
  match comp_lists o, comp_acts o with
  | Some (sl, al), Some acts => Some (TB2 (map (fun s => map (fun a => memb a (acts s)) al) sl))
  | _, _ => None
  end.
Definition view_am (o : obj) := cached o "_cached_action_matrix" (compute_am o).

Definition compute_rf (o : obj) : option tabview :=
  match comp_lists o, comp_acts o, comp_trans o, comp_rew o with
  | Some (sl, al), Some acts, Some tr, Some rw =>
      Some (TQ3 (map (fun s => map (fun a => map (fun ns =>
                 if memb a (acts s) && negb (Qeq_bool (dprob0 (tr s a) ns) 0)
                 then rw s a ns else 0%Q) sl) al) sl))
  | _, _, _, _ => None
  end.
Definition view_rf (o : obj) := cached o "_cached_reward_matrix" (compute_rf o).

Definition compute_dead (o : obj) : option tabview :=
  match view_am o with
  | Some (TB2 am) => Some (TB1 (map (fun row => forallb negb row) am))
  | _ => None
  end.
Definition view_dead (o : obj) := cached o "_cached_dead_end_state_vec" (compute_dead o).

(* absorbing_state_vec = (self_looping & zero_reward) | [is_absorbing(s) for s in state_list];
   it reads self.transition_matrix / action_matrix / reward_matrix / dead_end_state_vec,
   i.e. THEIR caches when present *)
Definition compute_absvec (o : obj) : option tabview :=
  match comp_lists o, comp_abs o, view_tf o, view_am o, view_rf o, view_dead o with
  | Some (sl, _), Some ab, Some (TQ3 tf), Some (TB2 am), Some (TQ3 rf), Some (TB1 dead) =>
      Some (TB1 (map (fun si =>
        let tfs := nth si tf [] in
        let ams := nth si am [] in
        let self_looping :=
          forallb (fun ai => Qeq_bool (nth si (nth ai tfs []) 0%Q) 1 || negb (nth ai ams false))
                  (seq 0 (List.length ams)) && negb (nth si dead false) in
        let zero_reward := forallb (fun row => forallb (fun x => Qeq_bool x 0) row) (nth si rf []) in
        (self_looping && zero_reward) || ab (nth si sl O)) (seq 0 (List.length sl))))
  | _, _, _, _, _, _ => None
  end.
Definition view_absvec (o : obj) := cached o "_cached_absorbing_state_vec" (compute_absvec o).

Definition compute_s0 (o : obj) : option tabview :=
  match comp_lists o, comp_init o with
  | Some (sl, _), Some d => Some (TQ1 (map (dprob0 d) sl))
  | _, _ => None
  end.
Definition view_s0 (o : obj) := cached o "_cached_initial_state_vec" (compute_s0 o).

(* MarkovDecisionProcess.reachable_states() (method_cache, "_cache_reachable_states"): initial
   support is expanded; a newly seen successor is expanded only if not is_absorbing *)
Fixpoint reach_loop (acts : nat -> list nat) (tr : nat -> nat -> dist nat) (ab : nat -> bool)
         (fuel : nat) (visited frontier : list nat) : list nat :=
  match fuel with
  | O => visited
  | S f =>
      match frontier with
      | [] => visited
      | s :: fr =>
          let succ := flat_map (fun a => map fst (filter (fun ep => negb (Qeq_bool (snd ep) 0)) (tr s a))) (acts s) in
          let vf := fold_left (fun vf ns =>
                      if memb ns (fst vf) then vf
                      else (fst vf ++ [ns], if ab ns then snd vf else snd vf ++ [ns]))
                    succ (visited, fr) in
          reach_loop acts tr ab f (fst vf) (snd vf)
      end
  end.
Fixpoint dedup (l : list nat) : list nat :=
  match l with [] => [] | x :: r => if memb x r then dedup r else x :: dedup r end.
Definition compute_reachable (fuel : nat) (o : obj) : option tabview :=
  match comp_init o, comp_acts o, comp_trans o, comp_abs o with
  | Some d, Some acts, Some tr, Some ab =>
      let s0 := dedup (map fst (filter (fun ep => negb (Qle_bool (snd ep) 0)) d)) in
      Some (TN1 (reach_loop acts tr ab fuel s0 s0))
  | _, _, _, _ => None
  end.
Definition view_reachable (fuel : nat) (o : obj) := cached o "_cache_reachable_states" (compute_reachable fuel o).

(* using an object: every view gets computed and stored on the instance *)
Definition cache_entry (attr : key) (v : option tabview) : list (key * value) :=
  match v with Some t => [(attr, VTab t)] | None => [] end.
Definition touch (fuel : nat) (o : obj) : obj :=
  mkObj (inst o ++ cache_entry "_cached_transition_matrix" (view_tf o)
                ++ cache_entry "_cached_action_matrix" (view_am o)
                ++ cache_entry "_cached_reward_matrix" (view_rf o)
                ++ cache_entry "_cached_dead_end_state_vec" (view_dead o)
                ++ cache_entry "_cached_absorbing_state_vec" (view_absvec o)
                ++ cache_entry "_cached_initial_state_vec" (view_s0 o)
                ++ cache_entry "_cache_reachable_states" (view_reachable fuel o))
        (mro o).

(* ------------------------------------------------------------------ *)
(** * Part B — roll-outs *)

Record step := mkStep { s_state : nat; s_action : nat; s_next : nat; s_reward : Q }.
(* SimulationResult(traj): the full steps followed by the closing Step(state=final);
   len(result) = length steps + 1 *)
Record sim := mkSim { steps : list step; final : nat }.

(* element t of the stream: (action sampled by the policy, next state sampled) at step t *)
Definition stream := nat -> nat * nat.

(* Policy.run_on(mdp, initial_state, max_steps, rng):
     for t in range(max_steps): if mdp.is_absorbing(s): break ; a ~ ; ns ~ ; r = reward ; s = ns
     traj.append(Step(state=s))                                                         *)
Fixpoint policy_run_on (absb : nat -> bool) (rew : nat -> nat -> nat -> Q) (ch : stream)
         (max_steps t s : nat) : sim :=
  match max_steps with
  | O => mkSim [] s
  | S m =>
      if absb s then mkSim [] s
      else let a := fst (ch t) in
           let ns := snd (ch t) in
           let r := policy_run_on absb rew ch m (S t) ns in
           mkSim (mkStep s a ns (rew s a ns) :: steps r) (final r)
  end.

Inductive res (A : Type) : Type :=
| Ret (x : A)
| RaiseMaxSteps            (* AlgorithmException("... reached max steps ...") *)
| RaiseOther.              (* any other exception (AttributeError, ValueError, assert) *)
Arguments Ret {A}. Arguments RaiseMaxSteps {A}. Arguments RaiseOther {A}.

Definition sim_len (r : sim) : nat := S (List.length (steps r)).

(* Option.run_on(mdp, initial_state, rng) for an option with termination predicate
   `term` and step limit `max_steps` *)
Definition option_run_on (o : obj) (term : nat -> bool) (max_steps : nat) (ch : stream) (s0 : nat)
  : res sim :=
  match augment o [("is_absorbing", VAbs term)] with
  | None => RaiseOther
  | Some sub =>
      match getattr sub "is_absorbing", getattr sub "reward" with
      | Some (VAbs ab), Some (VRew rw) =>
          let r := policy_run_on ab rw ch max_steps 0 s0 in
          if Nat.leb max_steps (sim_len r) then RaiseMaxSteps else Ret r     (* len(result) >= max_steps *)
      | _, _ => RaiseOther
      end
  end.

(* were the recorded choices possible?  (action in the support of the option policy,
   next state in the support of the sub-MDP's next_state_dist) *)
Definition in_support (x : nat) (d : dist nat) : bool := existsb (fun ep => Nat.eqb (fst ep) x) d.
Definition sim_valid (pol : nat -> dist nat) (tr : nat -> nat -> dist nat) (r : sim) : bool :=
  forallb (fun st => in_support (s_action st) (pol (s_state st)) &&
                     in_support (s_next st) (tr (s_state st) (s_action st))) (steps r).

(* ------------------------------------------------------------------ *)
(** * Part C — the semi-MDP *)

Record poption := mkOption {
  op_policy : nat -> dist nat;
  op_initial : nat -> bool;
  op_terminal : nat -> bool;
  op_max_steps : nat
}.

Record smdp := mkSMDP {
  sm_mdp : obj;
  sm_options : list poption;
  sm_n : nat;                      (* n_option_simulations *)
  sm_include : bool                (* include_mdp_actions *)
}.

Inductive saction := Prim (a : nat) | Opt (op : poption).

(* SemiMarkovDecisionProcess.actions *)
Definition smdp_actions (m : smdp) (s : nat) : option (list saction) :=
  let avail := map Opt (filter (fun op => op_initial op s) (sm_options m)) in
  if sm_include m then
    match getattr (sm_mdp m) "actions" with
    | Some (VActs f) => Some (map Prim (f s) ++ avail)
    | _ => None
    end
  else Some avail.

(* run_simulations: n roll-outs sharing one rng; stream i drives simulation i; the first
   raise aborts the whole call *)
Definition default_stream : stream := fun _ => (O, O).
Fixpoint run_simulations (o : obj) (op : poption) (s : nat) (n : nat) (streams : list stream)
  : res (list sim) :=
  match n with
  | O => Ret []
  | S m =>
      match option_run_on o (op_terminal op) (op_max_steps op) (hd default_stream streams) s with
      | Ret r => match run_simulations o op s m (tl streams) with
                 | Ret rs => Ret (r :: rs)
                 | RaiseMaxSteps => RaiseMaxSteps
                 | RaiseOther => RaiseOther
                 end
      | RaiseMaxSteps => RaiseMaxSteps
      | RaiseOther => RaiseOther
      end
  end.

(* zip(sim.next_state, sim.reward): the closing step has next_state None and reward 0 *)
Definition sim_rows (r : sim) : list (option nat * Q) :=
  map (fun st => (Some (s_next st), s_reward st)) (steps r) ++ [(None, 0%Q)].
(* sim.state[0] *)
Definition sim_first_state (r : sim) : nat :=
  match steps r with st :: _ => s_state st | [] => final r end.

(* the inner loop of next_state_transit_time_reward_dist *)
Fixpoint outcome_loop (gamma : Q) (rows : list (option nat * Q)) (ns t : nat) (disc cum : Q)
  : nat * nat * Q :=
  match rows with
  | [] => (ns, t, cum)
  | (nso, r) :: rest =>
      let cum' := (cum + r * disc)%Q in
      let disc' := (disc * gamma)%Q in
      match nso with
      | Some n => outcome_loop gamma rest n (S t) disc' cum'
      | None => outcome_loop gamma rest ns t disc' cum'
      end
  end.

Definition okey := (nat * nat * Q)%type.       (* (end state, primitive steps, cumulative reward) *)
Definition sim_outcome (gamma : Q) (r : sim) : okey :=
  outcome_loop gamma (sim_rows r) (sim_first_state r) 0 1%Q 0%Q.

Definition okey_eqb (x y : okey) : bool :=
  Nat.eqb (fst (fst x)) (fst (fst y)) && Nat.eqb (snd (fst x)) (snd (fst y)) && Qeq_bool (snd x) (snd y).

(* counts[(ns, t, cum_reward)] += 1   (dict: first-occurrence order) *)
Fixpoint count_add {K : Type} (eqb : K -> K -> bool) (k : K) (cs : list (K * nat)) : list (K * nat) :=
  match cs with
  | [] => [(k, 1%nat)]
  | (k', c) :: r => if eqb k k' then (k', S c) :: r else (k', c) :: count_add eqb k r
  end.
Definition count_all {K : Type} (eqb : K -> K -> bool) (ks : list K) : list (K * nat) :=
  fold_left (fun cs k => count_add eqb k cs) ks [].

(* {ns_t_r: c / self.n_option_simulations} *)
Definition smdp_outcome (gamma : Q) (n : nat) (sims : list sim) : dist okey :=
  map (fun kc => (fst kc, (qnat (snd kc) / qnat n)%Q)) (count_all okey_eqb (map (sim_outcome gamma) sims)).

(* FiniteDistribution.marginalize / expectation *)
Fixpoint madd {K : Type} (eqb : K -> K -> bool) (k : K) (p : Q) (acc : dist K) : dist K :=
  match acc with
  | [] => [(k, p)]
  | (k', p') :: r => if eqb k k' then (k', (p' + p)%Q) :: r else (k', p') :: madd eqb k p r
  end.
Definition marginalize {A K : Type} (eqb : K -> K -> bool) (f : A -> K) (d : dist A) : dist K :=
  fold_left (fun acc ep => madd eqb (f (fst ep)) (snd ep) acc) d [].
Definition expectation {A : Type} (f : A -> Q) (d : dist A) : Q :=
  fold_left (fun tot ep => (tot + f (fst ep) * snd ep)%Q) d 0%Q.

Definition nt_eqb (x y : nat * nat) : bool := Nat.eqb (fst x) (fst y) && Nat.eqb (snd x) (snd y).

(* next_state_transit_time_reward_dist(s, a) *)
Definition smdp_nstr (m : smdp) (s : nat) (a : saction) (streams : list stream) : res (dist okey) :=
  let o := sm_mdp m in
  match a with
  | Prim a =>
      match getattr o "actions", getattr o "next_state_dist", getattr o "reward" with
      | Some (VActs acts), Some (VTrans tr), Some (VRew rw) =>
          if memb a (acts s)
          then Ret (marginalize okey_eqb (fun ns => (ns, 1%nat, rw s a ns)) (tr s a))
          else RaiseOther                                   (* ValueError: not a ground action or option *)
      | _, _, _ => RaiseOther
      end
  | Opt op =>
      match run_simulations o op s (sm_n m) streams with
      | Ret sims =>
          match getattr o "discount_rate" with
          | Some (VNum g) => Ret (smdp_outcome g (sm_n m) sims)
          | _ => RaiseOther
          end
      | RaiseMaxSteps => RaiseMaxSteps
      | RaiseOther => RaiseOther
      end
  end.

(* the three derived views *)
Definition smdp_marginal_nt (d : dist okey) : dist (nat * nat) := marginalize nt_eqb (fun k => fst k) d.
Definition smdp_marginal_n (d : dist okey) : dist nat := marginalize Nat.eqb (fun k => fst (fst k)) d.
Definition smdp_expected_reward (d : dist okey) : Q := expectation (fun k => snd k) d.
