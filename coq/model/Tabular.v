(* Tabular.v — C06: the matrix / table / wrapper views of a tabular MDP.

   Mirrors msdm/core/mdp/mdp.py (reachable_states), msdm/core/mdp/tabularmdp.py
   (state_list, action_list, transition_matrix, action_matrix, reward_matrix,
   state_action_reward_matrix, initial_state_vec, absorbing_state_vec,
   dead_end_state_vec, _unable_to_reach_absorbing, from_matrices) and
   msdm/core/mdp/quickmdp.py (QuickMDP.__init__).

   States and actions are nat ids; the harness keeps the table id <-> Python
   label (ints, strings, tuples, frozendicts) and assigns ids so that the nat
   order extends Python's `<` wherever `<` is defined on the labels.
   Distributions are association lists = `dict.items()` of a DictDistribution
   (zero-probability entries included).  Numbers are exact rationals (Q);
   generated numbers are dyadic so the floats msdm stores are the same numbers. *)
From Coq Require Import List Arith Bool QArith Sorting.Mergesort.
Import ListNotations.
Local Open Scope Q_scope.

(* ------------------------------------------------------------------ *)
(* finite sets of ids as duplicate-free lists (insertion order)        *)
(* ------------------------------------------------------------------ *)
Definition mem (x : nat) (l : list nat) : bool := existsb (Nat.eqb x) l.
Definition add (x : nat) (l : list nat) : list nat := if mem x l then l else l ++ [x].
Fixpoint del (x : nat) (l : list nat) : list nat :=
  match l with
  | [] => []
  | y :: t => if Nat.eqb x y then del x t else y :: del x t
  end.
(* list.index / dict lookup position; = length l when absent (Python: KeyError) *)
Fixpoint index (x : nat) (l : list nat) : nat :=
  match l with
  | [] => O
  | y :: t => if Nat.eqb x y then O else S (index x t)
  end.

Definition Qnz (p : Q) : bool := negb (Qeq_bool p 0).     (* p != 0 *)
Definition Qpos (p : Q) : bool := negb (Qle_bool p 0).    (* p > 0  *)

(* ------------------------------------------------------------------ *)
(* the functional interface                                            *)
(* ------------------------------------------------------------------ *)
Definition dist := list (nat * Q).
(* DictDistribution.prob = dict.get(e, 0.0) *)
Definition prob (d : dist) (s : nat) : Q :=
  match find (fun e => Nat.eqb (fst e) s) d with
  | Some e => snd e
  | None => 0
  end.

Record fmdp := mkF {
  finit : dist;                         (* initial_state_dist().items() *)
  factions : nat -> list nat;           (* actions(s) *)
  fnext : nat -> nat -> dist;           (* next_state_dist(s, a).items() *)
  freward : nat -> nat -> nat -> Q;     (* reward(s, a, ns) *)
  fabsorbing : nat -> bool;             (* is_absorbing(s) *)
  fgamma : Q                            (* discount_rate *)
}.

(* ------------------------------------------------------------------ *)
(* reachable_states(max_states)                                        *)
(* ------------------------------------------------------------------ *)
(* S0 = {e for e, p in initial_state_dist().items() if p > 0} *)
Definition init_support (m : fmdp) : list nat :=
  fold_left (fun acc e => if Qpos (snd e) then add (fst e) acc else acc) (finit m) [].

(* for a in actions(s): for ns, prob in next_state_dist(s, a).items() *)
Definition succs (m : fmdp) (s : nat) : dist :=
  flat_map (fun a => fnext m s a) (factions m s).

(* loop body for one (ns, prob) *)
Definition expand1 (m : fmdp) (st : list nat * list nat) (e : nat * Q) : list nat * list nat :=
  if Qnz (snd e) then
    let ns := fst e in
    ((if negb (mem ns (snd st)) && negb (fabsorbing m ns) then add ns (fst st) else fst st),
     add ns (snd st))
  else st.

Definition cut (maxs : option nat) (vis : list nat) : bool :=
  match maxs with Some k => Nat.leb k (length vis) | None => false end.

(* `pick k frontier` is what the k-th `frontier.pop()` returns: the built-in set pops
   in an order that depends on hashes and history, so it is a parameter.  A pick
   outside the frontier falls back to the oldest frontier element.
   Returns (visited, popped states in order). *)
Definition popped (pick : nat -> list nat -> nat) (k : nat) (fr : list nat) : nat :=
  let s := pick k fr in if mem s fr then s else hd O fr.

Fixpoint reach_loop (m : fmdp) (pick : nat -> list nat -> nat) (maxs : option nat)
         (fuel k : nat) (fr vis pops : list nat) : list nat * list nat :=
  match fuel with
  | O => (vis, pops)
  | S f =>
    match fr with
    | [] => (vis, pops)
    | _ =>
      if cut maxs vis then (vis, pops) else
      let s := popped pick k fr in
      let st := fold_left (expand1 m) (succs m s) (del s fr, vis) in
      reach_loop m pick maxs f (S k) (fst st) (snd st) (pops ++ [s])
    end
  end.

Definition reach_run (m : fmdp) pick maxs fuel : list nat * list nat :=
  let s0 := init_support m in reach_loop m pick maxs fuel O s0 s0 [].
Definition reachable (m : fmdp) pick maxs fuel : list nat := fst (reach_run m pick maxs fuel).

(* pick strategies used by the harness: replay of a recorded pop sequence, oldest, newest *)
Definition pick_trace (tr : list nat) : nat -> list nat -> nat := fun k _ => nth k tr O.
Definition pick_head : nat -> list nat -> nat := fun _ fr => hd O fr.
Definition pick_last : nat -> list nat -> nat := fun _ fr => last fr O.

(* ------------------------------------------------------------------ *)
(* state_list / action_list                                            *)
(* ------------------------------------------------------------------ *)
(* explicit: mdp._state_list given.  cmp x y: Python's `x < y` between the two labels is
   defined (does not raise TypeError); `sorted(states)` succeeds iff all pairs of distinct elements are
   comparable, and then the nat order of the ids is Python's order (harness invariant).
   ord: iteration order of the built-in set (a permutation). *)
Definition sortable (cmp : nat -> nat -> bool) (l : list nat) : bool :=
  forallb (fun x => forallb (fun y => Nat.eqb x y || cmp x y) l) l.
Definition order_set (cmp : nat -> nat -> bool) (ord : list nat -> list nat) (l : list nat) : list nat :=
  if sortable cmp l then NatSort.sort l else ord l.

Definition state_list (m : fmdp) (explicit : option (list nat)) (cmp : nat -> nat -> bool)
           (ord : list nat -> list nat) pick fuel : list nat :=
  match explicit with
  | Some l => l
  | None => order_set cmp ord (reachable m pick None fuel)
  end.

Definition action_set (m : fmdp) (sl : list nat) : list nat :=
  fold_left (fun acc s => fold_left (fun acc a => add a acc) (factions m s) acc) sl [].

Definition action_list (m : fmdp) (sl : list nat) (explicit : option (list nat)) (cmp : nat -> nat -> bool)
           (ord : list nat -> list nat) : list nat :=
  match explicit with
  | Some l => l
  | None => order_set cmp ord (action_set m sl)
  end.

(* ------------------------------------------------------------------ *)
(* arrays, filled by assignment like the numpy code                    *)
(* ------------------------------------------------------------------ *)
Fixpoint upd {A} (i : nat) (f : A -> A) (l : list A) : list A :=
  match l, i with
  | [], _ => []
  | x :: t, O => f x :: t
  | x :: t, S i' => x :: upd i' f t
  end.
Definition zeros3 (a b c : nat) : list (list (list Q)) := repeat (repeat (repeat 0 c) b) a.
Definition zeros2 (a b : nat) : list (list Q) := repeat (repeat 0 b) a.
Definition set3 (M : list (list (list Q))) (i j k : nat) (v : Q) :=
  upd i (upd j (upd k (fun _ => v))) M.
Definition set2 (M : list (list Q)) (i j : nat) (v : Q) := upd i (upd j (fun _ => v)) M.
Definition get3 (M : list (list (list Q))) (i j k : nat) : Q := nth k (nth j (nth i M []) []) 0.
Definition get2 (M : list (list Q)) (i j : nat) : Q := nth j (nth i M []) 0.
Definition enum {A} (l : list A) : list (nat * A) := combine (seq 0 (length l)) l.

Definition fill3 (ws : list (nat * nat * nat * Q)) (M : list (list (list Q))) :=
  fold_left (fun M w => match w with (i, j, k, v) => set3 M i j k v end) ws M.
Definition fill2 (ws : list (nat * nat * Q)) (M : list (list Q)) :=
  fold_left (fun M w => match w with (i, j, v) => set2 M i j v end) ws M.

(* the assignments `tf[si, ai, nsi] = nsp` in loop order; an index outside the array
   (Python: KeyError from .index) makes the assignment a no-op here, see `defined` *)
Definition writes_tf (m : fmdp) (sl al : list nat) : list (nat * nat * nat * Q) :=
  flat_map (fun ss => flat_map (fun a => flat_map (fun e =>
      if Qnz (snd e) then [(fst ss, index a al, index (fst e) sl, snd e)] else [])
    (fnext m (snd ss) a)) (factions m (snd ss))) (enum sl).
Definition writes_rf (m : fmdp) (sl al : list nat) : list (nat * nat * nat * Q) :=
  flat_map (fun ss => flat_map (fun a => flat_map (fun e =>
      if Qnz (snd e) then [(fst ss, index a al, index (fst e) sl, freward m (snd ss) a (fst e))] else [])
    (fnext m (snd ss) a)) (factions m (snd ss))) (enum sl).
Definition writes_am (m : fmdp) (sl al : list nat) : list (nat * nat * Q) :=
  flat_map (fun ss => map (fun a => (fst ss, index a al, 1)) (factions m (snd ss))) (enum sl).

Definition transition_matrix m sl al := fill3 (writes_tf m sl al) (zeros3 (length sl) (length al) (length sl)).
Definition reward_matrix m sl al := fill3 (writes_rf m sl al) (zeros3 (length sl) (length al) (length sl)).
Definition action_matrix m sl al := fill2 (writes_am m sl al) (zeros2 (length sl) (length al)).
Definition initial_state_vec (m : fmdp) (sl : list nat) : list Q := map (prob (finit m)) sl.

(* the .index calls of the three loops all succeed *)
Definition defined (m : fmdp) (sl al : list nat) : bool :=
  forallb (fun s => forallb (fun a => mem a al &&
     forallb (fun e => negb (Qnz (snd e)) || mem (fst e) sl) (fnext m s a)) (factions m s)) sl.

(* einsum("san,san->sa", rf, tf) *)
Definition dot (x y : list Q) : Q := fold_left Qplus (map (fun p => fst p * snd p) (combine x y)) 0.
Definition sa_reward_matrix (rf tf : list (list (list Q))) : list (list Q) :=
  map (fun p => map (fun q => dot (fst q) (snd q)) (combine (fst p) (snd p))) (combine rf tf).

Definition dead_end_vec (am : list (list Q)) : list bool :=
  map (fun row => forallb (fun x => Qeq_bool x 0) row) am.

Definition absorbing_vec (m : fmdp) (sl : list nat) (tf : list (list (list Q))) (am : list (list Q))
           (rf : list (list (list Q))) : list bool :=
  map (fun ss =>
    let i := fst ss in
    let self_looping :=
      forallb (fun j => Qeq_bool (get3 tf i j i) 1 || Qeq_bool (get2 am i j) 0) (seq 0 (length (nth i am [])))
      && negb (nth i (dead_end_vec am) false) in
    let zero_reward := forallb (fun row => forallb (fun x => Qeq_bool x 0) row) (nth i rf []) in
    (self_looping && zero_reward) || fabsorbing m (snd ss)) (enum sl).

(* _unable_to_reach_absorbing: floyd_warshall on (tf > 0) & action_matrix *)
Definition adjacent (tf : list (list (list Q))) (am : list (list Q)) (i k : nat) : bool :=
  existsb (fun j => Qpos (get3 tf i j k) && Qnz (get2 am i j)) (seq 0 (length (nth i am []))).
Fixpoint can_reach (tf : list (list (list Q))) (am : list (list Q)) (ab : list bool) (n : nat) : list bool :=
  match n with
  | O => ab
  | S n' => let r := can_reach tf am ab n' in
            map (fun i => nth i r false ||
                          existsb (fun k => adjacent tf am i k && nth k r false) (seq 0 (length ab)))
                (seq 0 (length ab))
  end.
Definition unable_vec (g : Q) (tf : list (list (list Q))) (am : list (list Q)) (ab : list bool) : list bool :=
  if Qpos (1 - g) then map (fun _ => false) ab
  else map negb (can_reach tf am ab (length ab)).

Record mats := mkM {
  m_sl : list nat; m_al : list nat;
  m_s0 : list Q; m_tf : list (list (list Q)); m_am : list (list Q);
  m_rf : list (list (list Q)); m_abs : list bool; m_gamma : Q
}.

Definition to_matrices (m : fmdp) (sl al : list nat) : mats :=
  let tf := transition_matrix m sl al in
  let am := action_matrix m sl al in
  let rf := reward_matrix m sl al in
  mkM sl al (initial_state_vec m sl) tf am rf (absorbing_vec m sl tf am rf) (fgamma m).

(* ------------------------------------------------------------------ *)
(* TabularMarkovDecisionProcess.from_matrices                          *)
(* ------------------------------------------------------------------ *)
Definition from_matrices (M : mats) : fmdp :=
  let sl := m_sl M in let al := m_al M in
  mkF (filter (fun e => Qpos (snd e)) (combine sl (m_s0 M)))
      (fun s => map fst (filter (fun e => Qnz (snd e)) (combine al (nth (index s sl) (m_am M) []))))
      (fun s a => filter (fun e => Qpos (snd e))
                         (combine sl (nth (index a al) (nth (index s sl) (m_tf M) []) [])))
      (fun s a ns => get3 (m_rf M) (index s sl) (index a al) (index ns sl))
      (fun s => nth (index s sl) (m_abs M) false)
      (m_gamma M).

(* ------------------------------------------------------------------ *)
(* QuickMDP.__init__                                                   *)
(* ------------------------------------------------------------------ *)
Inductive qreward := RConst (r : Q) | RFun (f : nat -> nat -> nat -> Q).
Inductive qactions := AConst (l : list nat) | AFun (f : nat -> list nat).
Inductive qinit := IDist (d : dist) | IFun (f : unit -> dist).
Definition deterministic (v : nat) : dist := [(v, 1)].    (* DeterministicDistribution.items() *)

(* None = one of the two assertions fails *)
Definition quick (next_state_dist : option (nat -> nat -> dist)) (reward : qreward)
           (actions : qactions) (initial_state_dist : option qinit) (is_absorbing : nat -> bool)
           (next_state : option (nat -> nat -> nat)) (initial_state : option nat)
           (discount_rate : Q) : option fmdp :=
  let nsd := match next_state with
             | Some f => Some (fun s a => deterministic (f s a))
             | None => next_state_dist
             end in
  let ini := match initial_state with
             | Some s => Some (deterministic s)
             | None => match initial_state_dist with
                       | Some (IFun f) => Some (f tt)
                       | Some (IDist d) => Some d
                       | None => None
                       end
             end in
  match nsd, ini with
  | Some nx, Some i0 =>
    Some (mkF i0
              (match actions with AConst l => fun _ => l | AFun f => f end)
              nx
              (match reward with RConst r => fun _ _ _ => r | RFun f => f end)
              is_absorbing discount_rate)
  | _, _ => None
  end.

(* wrapping the five functions of an MDP *)
Definition quick_wrap (m : fmdp) : option fmdp :=
  quick (Some (fnext m)) (RFun (freward m)) (AFun (factions m)) (Some (IFun (fun _ => finit m)))
        (fabsorbing m) None None (fgamma m).

(* ------------------------------------------------------------------ *)
(* case files: functions given by finite tables                        *)
(* ------------------------------------------------------------------ *)
Definition lookup2 {A} (d : A) (t : list (nat * nat * A)) (s a : nat) : A :=
  match find (fun e => Nat.eqb (fst (fst e)) s && Nat.eqb (snd (fst e)) a) t with
  | Some e => snd e | None => d end.
Definition lookup3 (t : list (nat * nat * nat * Q)) (s a ns : nat) : Q :=
  match find (fun e => Nat.eqb (fst (fst (fst e))) s && Nat.eqb (snd (fst (fst e))) a
                       && Nat.eqb (snd (fst e)) ns) t with
  | Some e => snd e | None => 0 end.
Definition mk_fmdp (ini : dist) (acts : list (list nat)) (tr : list (nat * nat * dist))
           (rw : list (nat * nat * nat * Q)) (ab : list bool) (g : Q) : fmdp :=
  mkF ini (fun s => nth s acts []) (lookup2 [] tr) (lookup3 rw) (fun s => nth s ab false) g.
