(* MDP.v — finite MDPs over index sets, generic in the number type.
   States/actions are positions in msdm's state_list/action_list (property C06
   justifies that encoding).  Mirrors the matrix view of
   msdm/core/mdp/tabularmdp.py: transition_matrix, reward_matrix,
   state_action_reward_matrix, action_matrix, absorbing_state_vec (explicit flag
   OR zero-reward certain self-loop), dead_end_state_vec,
   _unable_to_reach_absorbing. *)
From Coq Require Import List Arith Bool.
From MSDM Require Import base.Num.
Import ListNotations.

Record mdp (T : Type) := mkMDP {
  nS : nat; nA : nat;
  P : nat -> nat -> nat -> T;        (* P s a ns ; 0 rows for unavailable actions *)
  Rw : nat -> nat -> nat -> T;       (* reward s a ns ; 0 where P = 0 *)
  avail : nat -> nat -> bool;        (* action_matrix *)
  absflag : nat -> bool;             (* is_absorbing(s) as declared *)
  init : nat -> T;                   (* initial_state_vec *)
  gamma : T
}.
Arguments mkMDP {T}. Arguments nS {T}. Arguments nA {T}. Arguments P {T}.
Arguments Rw {T}. Arguments avail {T}. Arguments absflag {T}.
Arguments init {T}. Arguments gamma {T}.

Section Generic.
Context {T : Type} {NT : Num T}.
Local Open Scope num_scope.
Variable m : mdp T.

(* state_action_reward_matrix = einsum("san,san->sa", rf, tf) *)
Definition sa_reward (s a : nat) : T := sumf (nS m) (fun ns => Rw m s a ns * P m s a ns).

Definition dead_end (s : nat) : bool := forallbn (nA m) (fun a => negb (avail m s a)).

(* absorbing_state_vec *)
Definition self_looping (s : nat) : bool :=
  forallbn (nA m) (fun a => neqb (P m s a s) n1 || negb (avail m s a)) && negb (dead_end s).
Definition zero_reward (s : nat) : bool :=
  forallbn (nA m) (fun a => forallbn (nS m) (fun ns => neqb (Rw m s a ns) n0)).
Definition absorbing (s : nat) : bool :=
  (self_looping s && zero_reward s) || absflag m s.

(* adjacency of _unable_to_reach_absorbing: (tf > 0) & action_matrix, any over a *)
Definition adj (s ns : nat) : bool :=
  existsb (fun a => avail m s a && nltb n0 (P m s a ns)) (seq 0 (nA m)).

(* reach_tab k: for each state, whether an absorbing state is accessible in <= k steps
   (floyd_warshall has distance 0 on the diagonal: an absorbing state reaches itself);
   tabulated level by level so that evaluation is polynomial *)
Fixpoint reach_tab (k : nat) : list bool :=
  match k with
  | O => map absorbing (seq 0 (nS m))
  | S k' => let r := reach_tab k' in
            map (fun s => nth s r false ||
                          existsb (fun ns => adj s ns && nth ns r false) (seq 0 (nS m)))
                (seq 0 (nS m))
  end.
Definition can_reach (k s : nat) : bool := nth s (reach_tab k) false.
Definition unable_to_reach (s : nat) : bool :=
  if nltb (gamma m) n1 then false else negb (can_reach (nS m) s).

Definition masked (s : nat) : bool := unable_to_reach s || absorbing s.

(* the masked matrices value/policy iteration actually iterate on *)
Definition Pm (s a ns : nat) : T := if masked s then n0 else P m s a ns.
Definition Rm (s a : nat) : T := if masked s then n0 else sa_reward s a.

(* one-step look-ahead and the optimality backup *)
Definition Qval (V : nat -> T) (s a : nat) : T :=
  Rm s a + gamma m * sumf (nS m) (fun ns => Pm s a ns * V ns).
Definition backup (V : nat -> T) (s : nat) : option T :=
  maxf (nA m) (avail m s) (Qval V s).

(* policy operator: pi s a is a probability on available actions *)
Definition Qpol (pi : nat -> nat -> T) (V : nat -> T) (s : nat) : T :=
  sumf (nA m) (fun a => pi s a * Qval V s a).

End Generic.
