(* PyVal — the universe of Python values msdm indexes its tables by, with Python's `==`.

   Scope (what the tables / domains / selectors of msdm can hold in the verified properties):
     int, bool, float (finite, exact rational num/den), str, None, Ellipsis, slice,
     tuple, msdm's `domaintuple` (a tuple subclass), list, frozenset.
   `pyeq` is Python `==` on this universe:
     * numbers compare by value across int/bool/float        (1 == 1.0 == True)
     * tuple == domaintuple element-wise (domaintuple subclasses tuple, inherits __eq__)
     * list == list element-wise, list != tuple
     * frozenset == frozenset as sets
     * None, Ellipsis, str only equal to themselves
     * slice: only the distinction "slice(None)" / "any other slice" is kept (PSlice full);
       slices never occur inside domains, the only comparison msdm makes is `!= slice(None)`.
   `hashable` : list is unhashable, containers are hashable iff their elements are
   (slice is hashable from CPython 3.12 on; msdm catches TypeError and KeyError alike).
   Python's hash is consistent with == on this universe, so a dict lookup `d[k]` over a
   ==-duplicate-free key sequence is "the position of the element == k" (index_of).        *)
From Coq Require Import ZArith List Bool String.
Import ListNotations.

Inductive pv : Type :=
| PInt (z : Z)
| PBool (b : bool)
| PFloat (num : Z) (den : positive)
| PStr (s : string)
| PNone
| PEllipsis
| PSlice (full : bool)
| PTuple (l : list pv)
| PDomTuple (l : list pv)
| PList (l : list pv)
| PFrozenset (l : list pv).

Definition num_of (v : pv) : option (Z * positive) :=
  match v with
  | PInt z => Some (z, 1%positive)
  | PBool b => Some ((if b then 1 else 0)%Z, 1%positive)
  | PFloat n d => Some (n, d)
  | _ => None
  end.

Definition numeq (x y : Z * positive) : bool :=
  Z.eqb (fst x * Zpos (snd y)) (fst y * Zpos (snd x)).

Fixpoint pyeq (a b : pv) {struct a} : bool :=
  let leq := fix leq (l m : list pv) {struct l} : bool :=
               match l, m with
               | [], [] => true
               | x :: l', y :: m' => pyeq x y && leq l' m'
               | _, _ => false
               end in
  match a with
  | PInt _ | PBool _ | PFloat _ _ =>
      match num_of a, num_of b with Some x, Some y => numeq x y | _, _ => false end
  | PStr s => match b with PStr t => String.eqb s t | _ => false end
  | PNone => match b with PNone => true | _ => false end
  | PEllipsis => match b with PEllipsis => true | _ => false end
  | PSlice f => match b with PSlice g => Bool.eqb f g | _ => false end
  | PTuple l | PDomTuple l =>
      match b with PTuple m | PDomTuple m => leq l m | _ => false end
  | PList l => match b with PList m => leq l m | _ => false end
  | PFrozenset l =>
      match b with
      | PFrozenset m =>
          forallb (fun x => existsb (fun y => pyeq x y) m) l
          && forallb (fun y => existsb (fun x => pyeq x y) l) m
      | _ => false
      end
  end.

(* element-wise == of two sequences (what tuple.__eq__ does) *)
Fixpoint pyeq_list (l m : list pv) : bool :=
  match l, m with
  | [], [] => true
  | x :: l', y :: m' => pyeq x y && pyeq_list l' m'
  | _, _ => false
  end.

Fixpoint hashable (v : pv) : bool :=
  match v with
  | PList _ => false
  | PTuple l | PDomTuple l | PFrozenset l => forallb hashable l
  | _ => true
  end.

Definition is_ellipsis (v : pv) : bool := match v with PEllipsis => true | _ => false end.
Definition is_seqval (v : pv) : bool :=
  match v with PTuple _ | PDomTuple _ | PList _ => true | _ => false end.

(* "plain key": what the property's quantifier allows as a key / domain element at top level
   (ints, strings, tuples, frozensets, None, floats) — i.e. not Ellipsis, not a slice. *)
Definition plainkey (v : pv) : bool :=
  match v with PEllipsis | PSlice _ => false | _ => true end.

(* position of the first element of dom that == k   (dict lookup on a duplicate-free domain) *)
Fixpoint index_of (k : pv) (dom : list pv) : option nat :=
  match dom with
  | [] => None
  | e :: r => if pyeq e k then Some 0 else option_map S (index_of k r)
  end.

(* `k in dom` for a tuple: linear scan with == *)
Definition pin (k : pv) (dom : list pv) : bool := existsb (fun e => pyeq e k) dom.

(* len(set(dom)) == len(dom) : no two elements are == *)
Fixpoint dupfreeb (dom : list pv) : bool :=
  match dom with
  | [] => true
  | x :: r => negb (existsb (fun y => pyeq x y) r) && dupfreeb r
  end.
