(* EntReg.v — entropy-regularised policy iteration (msdm/algorithms/entregpolicyiteration.py)
   as equations over R with exp / ln.  Tensors are plain functions nat -> ... -> R indexed
   below nS / nA (any sizes); the entropy weight is per state (a scalar weight is the constant
   function, exactly as the code broadcasts a 1-element tensor); the prior is per state and
   action (a (1 x A) prior is broadcast by the harness).

   There is no executable mirror of the loop (LAPACK solve, torch softmax): the model is
     - the regularised evaluation system the loop solves for the current policy (eval_system),
     - the improvement step (softmax),
     - the three fixed-point equations of property C19 as predicates with tolerances
       (E1 look-ahead, E2 softmax inside the isclose band, E3 log-sum-exp),
     - max-shifted forms of softmax / log-sum-exp (what the generated goals evaluate; the
       shift lemmas are in theory/EntRegTheory.v),
     - the hard (max) optimality operator the lambda -> 0 clause compares with. *)
From Coq Require Import Reals List.
From MSDM Require Import base.Num base.NumInst.
Import ListNotations.
Local Open Scope R_scope.

(* tensors given as nested lists (generated correspondence goals) *)
Definition t1 (l : list R) (i : nat) : R := nth i l 0.
Definition t2 (l : list (list R)) (i j : nat) : R := nth j (nth i l []) 0.
Definition t3 (l : list (list (list R))) (i j k : nat) : R := nth k (nth j (nth i l []) []) 0.

Section EntReg.
Variables nS nA : nat.
Variables T Rw : nat -> nat -> nat -> R.    (* transition_matrix, reward_matrix (broadcast) *)
Variable gam : R.                           (* discount_rate *)
Variable lam : nat -> R.                    (* entropy_weight, per state *)
Variable pi0 : nat -> nat -> R.             (* policy_prior (broadcast) *)

(* q = (tf * (rf + discount_rate * v[None,None,:])).sum(-1) *)
Definition lookahead (v : nat -> R) (s a : nat) : R :=
  sumf nS (fun n => T s a n * (Rw s a n + gam * v n)).

(* new_pi = softmax(q / entropy_weight + log pi0) *)
Definition Zsum (q : nat -> nat -> R) (s : nat) : R :=
  sumf nA (fun b => pi0 s b * exp (q s b / lam s)).
Definition softmax (q : nat -> nat -> R) (s a : nat) : R :=
  pi0 s a * exp (q s a / lam s) / Zsum q s.
(* prior-weighted log-sum-exp at temperature lam *)
Definition lse (q : nat -> nat -> R) (s : nat) : R := lam s * ln (Zsum q s).

(* the same, shifted by an arbitrary c s (the generated goals take c s = max_a q s a so that
   every exponent is <= 0) *)
Definition Zsum_sh (c : nat -> R) (q : nat -> nat -> R) (s : nat) : R :=
  sumf nA (fun b => pi0 s b * exp ((q s b - c s) / lam s)).
Definition softmax_sh (c : nat -> R) (q : nat -> nat -> R) (s a : nat) : R :=
  pi0 s a * exp ((q s a - c s) / lam s) / Zsum_sh c q s.
Definition lse_sh (c : nat -> R) (q : nat -> nat -> R) (s : nat) : R :=
  c s + lam s * ln (Zsum_sh c q s).

(* ---- the evaluation step of the loop, in the code's matrix form ---- *)
(* s_ent = nansum(log(pi/pi0)*pi, dim=1) *)
Definition s_ent (pi : nat -> nat -> R) (s : nat) : R :=
  sumf nA (fun a => ln (pi s a / pi0 s a) * pi s a).
(* s_rf = einsum("san,san,sa->s", rf, tf, pi) *)
Definition s_rf (pi : nat -> nat -> R) (s : nat) : R :=
  sumf nA (fun a => sumf nS (fun n => Rw s a n * T s a n * pi s a)).
(* mp = (pi[:,:,None]*tf).sum(dim=1) *)
Definition mp (pi : nat -> nat -> R) (s n : nat) : R :=
  sumf nA (fun a => pi s a * T s a n).
(* v = solve(eye - discount_rate*mp, s_rf - entropy_weight*s_ent) *)
Definition eval_system (pi : nat -> nat -> R) (v : nat -> R) : Prop :=
  forall s, (s < nS)%nat ->
    v s - gam * sumf nS (fun n => mp pi s n * v n) = s_rf pi s - lam s * s_ent pi s.

(* KL(pi s || pi' s) *)
Definition kl (pi pi' : nat -> nat -> R) (s : nat) : R :=
  sumf nA (fun a => pi s a * ln (pi s a / pi' s a)).

(* ---- the three equations of C19, pointwise, with tolerances ---- *)
Definition E1_at (eps : R) (v : nat -> R) (q : nat -> nat -> R) (s a : nat) : Prop :=
  Rabs (q s a - lookahead v s a) <= eps.
(* torch.isclose(pi, new_pi): |pi - new_pi| <= atol + rtol*|new_pi| *)
Definition E2_at (atol rtol : R) (q pi : nat -> nat -> R) (s a : nat) : Prop :=
  Rabs (pi s a - softmax q s a) <= atol + rtol * softmax q s a.
Definition E3_at (eps : R) (v : nat -> R) (q : nat -> nat -> R) (s : nat) : Prop :=
  Rabs (v s - lse q s) <= eps.
Definition E2sh_at (c : nat -> R) (atol rtol : R) (q pi : nat -> nat -> R) (s a : nat) : Prop :=
  Rabs (pi s a - softmax_sh c q s a) <= atol + rtol * softmax_sh c q s a.
Definition E3sh_at (c : nat -> R) (eps : R) (v : nat -> R) (q : nat -> nat -> R) (s : nat) : Prop :=
  Rabs (v s - lse_sh c q s) <= eps.

Definition E1 eps v q := forall s a, (s < nS)%nat -> (a < nA)%nat -> E1_at eps v q s a.
Definition E2 atol rtol q pi := forall s a, (s < nS)%nat -> (a < nA)%nat -> E2_at atol rtol q pi s a.
Definition E3 eps v q := forall s, (s < nS)%nat -> E3_at eps v q s.

(* exact soft fixed point: q is the look-ahead of v, v the log-sum-exp of q *)
Definition soft_fixed (v : nat -> R) (q : nat -> nat -> R) : Prop := E1 0 v q /\ E3 0 v q.

(* ---- hard optimality operator of the same MDP ---- *)
Definition hardmax (q : nat -> nat -> R) (s : nat) : R :=
  odflt 0 (maxf nA (fun _ => true) (q s)).
Definition hard_fixed (vs : nat -> R) : Prop :=
  forall s, (s < nS)%nat -> vs s = hardmax (lookahead vs) s.

(* well-formedness: the property's quantifier *)
Record wf : Prop := {
  wf_nA : (0 < nA)%nat;
  wf_g0 : 0 <= gam;
  wf_g1 : gam < 1;
  wf_Tnn : forall s a n, (s < nS)%nat -> (a < nA)%nat -> (n < nS)%nat -> 0 <= T s a n;
  wf_Tsum : forall s a, (s < nS)%nat -> (a < nA)%nat -> sumf nS (T s a) = 1;
  wf_lam : forall s, (s < nS)%nat -> 0 < lam s;
  wf_pi0 : forall s a, (s < nS)%nat -> (a < nA)%nat -> 0 < pi0 s a;
  wf_pi0sum : forall s, (s < nS)%nat -> sumf nA (pi0 s) = 1
}.

End EntReg.
