(* FactorTable.v — C18: msdm.core.distributions.DiscreteFactorTable in WEIGHT space.

   A table of msdm is (support rows, scores, probs).  Here a table is the list of
   (row, weight) with weight = exp(score) >= 0 as an exact rational; the `probs`
   attribute the constructor derives from the scores is the function [ft_probs].
   Rows are (nested) dictionaries flattened to association lists path |-> value
   (paths interned to nat by the harness, values to Z), in Python's insertion order.
   Row equality is Python's dict equality (extensional, order-insensitive): [row_eqb].

   Mirrors, line by line:
     dictutils.dict_match / dict_merge                      [dict_match] [dict_merge]
     DiscreteFactorTable.logit(e) (first index in support)  [ft_w]
     .product  (&)                                          [ft_product]
     .mix      (|)                                          [ft_mix]
     .__mul__ / .__truediv__ / .Z / .normalize              [ft_scale] [ft_div] [ft_Z] [ft_normalize]
     .marginalize (projection = restriction to variables)   [ft_marginalize]
     constructor: probs = softmax(scores), zeros when sum(scores) = -inf   [ft_probs]
   No proofs here; see theory/FactorTableTheory.v. *)
From Coq Require Import QArith List Bool ZArith Arith.
Import ListNotations.
Local Open Scope Q_scope.

Definition key := nat.
Definition val := Z.
Definition row := list (key * val).
Definition table := list (row * Q).

(* ---- rows as dictionaries ---- *)
Fixpoint rget (k : key) (r : row) : option val :=
  match r with
  | [] => None
  | (k', v) :: t => if Nat.eqb k k' then Some v else rget k t
  end.

(* res[k] = v : overwrite in place, or append as the newest key *)
Fixpoint rset (k : key) (v : val) (r : row) : row :=
  match r with
  | [] => [(k, v)]
  | (k', v') :: t => if Nat.eqb k k' then (k, v) :: t else (k', v') :: rset k v t
  end.

Definition opt_eqb (a b : option val) : bool :=
  match a, b with
  | Some x, Some y => Z.eqb x y
  | None, None => true
  | _, _ => false
  end.

(* Python's  d1 == d2  on dicts *)
Definition row_eqb (r1 r2 : row) : bool :=
  forallb (fun k => opt_eqb (rget k r1) (rget k r2)) (map fst r1 ++ map fst r2).

(* Python's  r in list_of_rows *)
Definition row_mem (r : row) (rs : list row) : bool := existsb (row_eqb r) rs.

(* dictutils.dict_match(left, right): every key of right that left also has carries the same value *)
Definition dict_match (l r : row) : bool :=
  forallb (fun kv => match rget (fst kv) l with
                     | Some v => Z.eqb v (snd kv)
                     | None => true
                     end) r.

(* dictutils.dict_merge(dct, merge_dct): copy of dct, then every item of merge_dct written into it *)
Definition dict_merge (l r : row) : row :=
  fold_left (fun acc kv => rset (fst kv) (snd kv) acc) r l.

(* ---- tables ---- *)
Definition ft_make (rows : list row) (ws : list Q) : table := combine rows ws.
Definition ft_uniform (rows : list row) : table := map (fun r => (r, 1)) rows.
Definition ft_rows (t : table) : list row := map fst t.
Definition ft_weights (t : table) : list Q := map snd t.

(* exp(self.logit(e)) : weight of the FIRST row equal to e, 0 (= exp -inf) when absent *)
Fixpoint ft_w (t : table) (r : row) : Q :=
  match t with
  | [] => 0
  | (r', w) :: t' => if row_eqb r' r then w else ft_w t' r
  end.

Definition qsum (l : list Q) : Q := fold_right Qplus 0 l.
Definition ft_Z (t : table) : Q := qsum (ft_weights t).

Definition qzero (x : Q) : bool := Qeq_bool x 0.

(* probs as the constructor computes them from scores:
   np.sum(scores) == -inf (some weight is 0)  ->  all zeros ;  else softmax *)
Definition ft_probs (t : table) : list Q :=
  if existsb qzero (ft_weights t) then map (fun _ => 0) t
  else let z := ft_Z t in map (fun e => snd e / z) t.

(* probability attached to a row by .prob(e): first index again *)
Definition ft_prob (t : table) (r : row) : Q := ft_w (combine (ft_rows t) (ft_probs t)) r.

(* ---- product ---- *)
Definition prod_step (t1 t2 : table) (acc : table) (p : row * row) : table :=
  let si := fst p in let oi := snd p in
  if dict_match si oi then
    let soi := dict_merge si oi in
    if row_mem soi (ft_rows acc) then acc
    else let w := ft_w t1 si * ft_w t2 oi in
         if qzero w then acc else acc ++ [(soi, w)]
  else acc.

Definition ft_product (t1 t2 : table) : table :=
  fold_left (prod_step t1 t2) (list_prod (ft_rows t1) (ft_rows t2)) [].

(* ---- mixture ---- *)
Record mixst := mkMix { mx_tab : table; mx_matched : list row; mx_unmatched : list row }.

Definition mix_step (t1 t2 : table) (st : mixst) (p : row * row) : mixst :=
  let si := fst p in let oi := snd p in
  if dict_match si oi then
    let matched := mx_matched st ++ [si; oi] in
    let soi := dict_merge si oi in
    if row_mem soi (ft_rows (mx_tab st)) then mkMix (mx_tab st) matched (mx_unmatched st)
    else let w := ft_w t1 si + ft_w t2 oi in
         if qzero w then mkMix (mx_tab st) matched (mx_unmatched st)
         else mkMix (mx_tab st ++ [(soi, w)]) matched (mx_unmatched st)
  else mkMix (mx_tab st) (mx_matched st) (mx_unmatched st ++ [si; oi]).

Definition mix_outer (t1 t2 : table) (matched : list row) (acc : table) (i : row) : table :=
  if row_mem i matched || row_mem i (ft_rows acc) then acc
  else let w := ft_w t1 i + ft_w t2 i in
       if qzero w then acc else acc ++ [(i, w)].

Definition ft_mix (t1 t2 : table) : table :=
  match t1, t2 with
  | [], _ => t2
  | _, [] => t1
  | _, _ =>
    let st := fold_left (mix_step t1 t2) (list_prod (ft_rows t1) (ft_rows t2)) (mkMix [] [] []) in
    fold_left (mix_outer t1 t2 (mx_matched st)) (mx_unmatched st) (mx_tab st)
  end.

(* the asserts at the top of .mix: every row of self lists the same keys, in the same order,
   as self's first row AND as other's first row (the second loop of the code iterates self again) *)
Definition keys_eqb (a b : list key) : bool :=
  Nat.eqb (length a) (length b) && forallb (fun p => Nat.eqb (fst p) (snd p)) (combine a b).
Definition ft_mix_defined (t1 t2 : table) : bool :=
  match t1, t2 with
  | [], _ => true
  | _, [] => true
  | (s0, _) :: _, (o0, _) :: _ =>
    forallb (fun r => keys_eqb (map fst r) (map fst s0)) (ft_rows t1) &&
    forallb (fun r => keys_eqb (map fst r) (map fst o0)) (ft_rows t1)
  end.

(* ---- scaling ---- *)
Definition ft_scale (c : Q) (t : table) : table := map (fun e => (fst e, snd e * c)) t.
Definition ft_div (c : Q) (t : table) : table := map (fun e => (fst e, snd e / c)) t.
Definition ft_normalize (t : table) : table := ft_div (ft_Z t) t.

(* ---- marginalisation onto a list of variables ---- *)
Definition restrict (ks : list key) (r : row) : row :=
  flat_map (fun k => match rget k r with Some v => [(k, v)] | None => [] end) ks.

Fixpoint tab_add (m : row) (w : Q) (acc : table) : table :=
  match acc with
  | [] => [(m, 0 + w)]
  | (r, x) :: t => if row_eqb r m then (r, x + w) :: t else (r, x) :: tab_add m w t
  end.

Definition ft_marginalize (ks : list key) (t : table) : table :=
  fold_left (fun acc e => tab_add (restrict ks (fst e)) (ft_w t (fst e)) acc) t [].
