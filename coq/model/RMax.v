(* RMax.v — C17: msdm/algorithms/rmax.py as an executable model, generic in the number type.

     learner state  = (reward tallies, visit counts, transition tallies, q)   over nS x nA (x nS)
     tally          = the bookkeeping half of RMAX._observe (only while count < m)
     vi_loop        = RMAX._value_iteration (masked sweeps on the empirical model, fuelled)
     observe        = RMAX._observe,   train = fold of observe over the experienced steps
     greedy         = RMAX._create_policy (uniform over the exact maximisers of a row)
     c17_check      = certificate checker run on msdm's OUTPUT (experience, tallies, Q, policy)

   States/actions are positions in mdp.state_list / mdp.action_list.  Counts are integers (numpy
   stores them as floats; the harness checks integrality before converting). *)
From Coq Require Import List Arith Bool.
From MSDM Require Import base.Num.
Import ListNotations.

(* ---- integer tables ---- *)
Definition tabn (n : nat) (f : nat -> nat) : list nat := map f (seq 0 n).
Definition untabn (l : list nat) (i : nat) : nat := nth i l 0.
Definition tabn2 (n m : nat) (f : nat -> nat -> nat) : list (list nat) :=
  map (fun i => tabn m (f i)) (seq 0 n).
Definition untabn2 (l : list (list nat)) (i j : nat) : nat := untabn (nth i l []) j.
Definition tabn3 (n m k : nat) (f : nat -> nat -> nat -> nat) : list (list (list nat)) :=
  map (fun i => tabn2 m k (f i)) (seq 0 n).
Definition untabn3 (l : list (list (list nat))) (i j k : nat) : nat := untabn2 (nth i l []) j k.
Fixpoint sumn (n : nat) (f : nat -> nat) : nat :=
  match n with O => 0 | S k => sumn k f + f k end.

Record learner (T : Type) := mkL {
  l_rw : list (list T);            (* self.rewards      : summed rewards of the counted samples *)
  l_cnt : list (list nat);         (* self.s_a_counts   : number of counted samples (<= m) *)
  l_tr : list (list (list nat));   (* self.transitions  : counted samples per successor *)
  l_q : list (list T)              (* self.q_matrix *)
}.
Arguments mkL {T}. Arguments l_rw {T}. Arguments l_cnt {T}. Arguments l_tr {T}. Arguments l_q {T}.

Section RMax.
Context {T : Type} {NT : Num T}.
Local Open Scope num_scope.

(* one experienced time step: (state, action, reward, next state) *)
Definition step : Type := (nat * nat * T * nat)%type.

Variables (nS nA : nat).
Variable m : nat.                  (* num_transition_samples *)
Variables (gamma rmax tol : T).    (* discount_rate, rmax, bellman_convergence_diff *)

Definition rwf (L : learner T) (s a : nat) : T := untab2 (l_rw L) s a.
Definition cntf (L : learner T) (s a : nat) : nat := untabn2 (l_cnt L) s a.
Definition trf (L : learner T) (s a ns : nat) : nat := untabn3 (l_tr L) s a ns.
Definition qf (L : learner T) (s a : nat) : T := untab2 (l_q L) s a.

(* q_matrix = ones * rmax * 1/(1-gamma) *)
Definition q0 : T := rmax / (n1 - gamma).

Definition init_learner : learner T :=
  mkL (tab2 nS nA (fun _ _ => n0)) (tabn2 nS nA (fun _ _ => 0))
      (tabn3 nS nA nS (fun _ _ _ => 0)) (tab2 nS nA (fun _ _ => q0)).

(* ---- _observe, bookkeeping part ---- *)
Definition tally (L : learner T) (e : step) : learner T :=
  let '(s, a, r, ns) := e in
  if cntf L s a <? m then
    mkL (tab2 nS nA (fun s' a' => if (s' =? s) && (a' =? a) then rwf L s' a' + r else rwf L s' a'))
        (tabn2 nS nA (fun s' a' => if (s' =? s) && (a' =? a) then S (cntf L s' a') else cntf L s' a'))
        (tabn3 nS nA nS (fun s' a' n' => if (s' =? s) && (a' =? a) && (n' =? ns)
                                          then S (trf L s' a' n') else trf L s' a' n'))
        (l_q L)
  else L.

Definition tallies (exp : list step) : learner T := fold_left tally exp init_learner.

(* ---- _value_iteration ---- *)
Definition known (L : learner T) (s a : nat) : bool := Nat.leb m (cntf L s a).          (* mask *)
Definition pcount (L : learner T) (s a : nat) : nat :=
  if cntf L s a =? 0 then 1 else cntf L s a.                                       (* pseudo_count *)
Definition rhat (L : learner T) (s a : nat) : T := rwf L s a / nofnat (pcount L s a).
Definition that (L : learner T) (s a ns : nat) : T :=
  if known L s a then nofnat (trf L s a ns) / nofnat (pcount L s a)
  else if ns =? s then n1 else n0.                                                 (* self-loop *)
Definition vmax (q : list (list T)) (s : nat) : T :=
  odflt n0 (maxf nA (fun _ => true) (fun a => untab2 q s a)).                      (* np.max(q, -1) *)
Definition newq (L : learner T) (q : list (list T)) (s a : nat) : T :=
  rhat L s a + gamma * sumf nS (fun ns => that L s a ns * vmax q ns).
(* q_matrix[mask] = new_q[mask] *)
Definition sweep (L : learner T) (q : list (list T)) : list (list T) :=
  tab2 nS nA (fun s a => if known L s a then newq L q s a else untab2 q s a).
(* np.all(np.abs(q[mask] - new_q[mask]) < tol) *)
Definition conv (L : learner T) (q nq : list (list T)) : bool :=
  forallbn nS (fun s => forallbn nA (fun a =>
    if known L s a then nltb (nabs (untab2 q s a - untab2 nq s a)) tol else true)).
(* None = fuel exhausted (the Python loop would still be running) *)
Fixpoint vi_loop (fuel : nat) (L : learner T) (q : list (list T)) : option (list (list T)) :=
  match fuel with
  | O => None
  | S f => let nq := sweep L q in
           if conv L q nq then Some q else vi_loop f L nq
  end.

(* ---- the optimistic empirical model the property speaks of: known pairs use the empirical
   rewards/transitions, unknown pairs are self-loops paying rmax; [bopt] is its optimality backup
   on Q tables and [bopt_fixb] tests that a table is an exact fixed point of it ---- *)
Definition bopt (L : learner T) (q : list (list T)) (s a : nat) : T :=
  if known L s a then newq L q s a else rmax + gamma * vmax q s.
Definition bopt_fixb (L : learner T) (q : list (list T)) : bool :=
  forallbn nS (fun s => forallbn nA (fun a => neqb (untab2 q s a) (bopt L q s a))).

(* ---- _observe ---- *)
Definition observe (fuel : nat) (L : learner T) (e : step) : option (learner T) :=
  let '(s, a, _, _) := e in
  if cntf L s a <? m then
    let L' := tally L e in
    if cntf L' s a =? m then
      match vi_loop fuel L' (l_q L') with
      | Some q => Some (mkL (l_rw L') (l_cnt L') (l_tr L') q)
      | None => None
      end
    else Some L'
  else Some L.

Definition obs_opt (fuel : nat) (oL : option (learner T)) (e : step) : option (learner T) :=
  match oL with Some L => observe fuel L e | None => None end.
Definition train_from (fuel : nat) (exp : list step) (oL : option (learner T)) : option (learner T) :=
  fold_left (obs_opt fuel) exp oL.
Definition train (fuel : nat) (exp : list step) : option (learner T) :=
  train_from fuel exp (Some init_learner).

(* ---- _act: random if the whole row equals its first entry, else np.argmax (first maximiser) ---- *)
Definition row_flat (q : list (list T)) (s : nat) : bool :=
  forallbn nA (fun a => neqb (untab2 q s a) (untab2 q s 0)).
Definition is_argmax (q : list (list T)) (s a : nat) : bool :=
  neqb (untab2 q s a) (vmax q s) &&
  forallbn a (fun a' => negb (neqb (untab2 q s a') (vmax q s))).
Definition act_ok (q : list (list T)) (s a : nat) : bool :=
  (a <? nA) && (row_flat q s || is_argmax q s a).
(* training with the action-selection rule checked at every step against the current q *)
Definition obs_act (fuel : nat) (st : option (learner T) * bool) (e : step) : option (learner T) * bool :=
  match fst st with
  | Some L => let '(s, a, _, _) := e in (observe fuel L e, snd st && act_ok (l_q L) s a)
  | None => st
  end.
Definition train_act (fuel : nat) (exp : list step) : option (learner T) * bool :=
  fold_left (obs_act fuel) exp (Some init_learner, true).

(* ---- _create_policy: uniform over the exact maximisers ---- *)
Definition is_max (q : list (list T)) (s a : nat) : bool := neqb (untab2 q s a) (vmax q s).
Definition greedy (q : list (list T)) (s a : nat) : T :=
  if is_max q s a then n1 / nofnat (countb nA (is_max q s)) else n0.

(* ------------------------------------------------------------------------------------ *)
(* certificate over the implementation's output                                          *)
(* ------------------------------------------------------------------------------------ *)
Variables (P Rw : list (list (list T))) (ab : list bool) (ini : list T).   (* the MDP, by index *)

Definition absorbing (s : nat) : bool := nth s ab false.
Definition next_start (rest : list step) (fin : nat) : nat :=
  match rest with [] => fin | (s, _, _, _) :: _ => s end.

(* every step is a positive-probability transition of the MDP from a non-absorbing state with
   the MDP's reward (<= rmax), and steps chain up to the state the episode ended in *)
Fixpoint chain (steps : list step) (fin : nat) : bool :=
  match steps with
  | [] => true
  | (s, a, r, ns) :: rest =>
      (s <? nS) && (a <? nA) && (ns <? nS) && negb (absorbing s) &&
      nltb n0 (untab3 P s a ns) && neqb r (untab3 Rw s a ns) && (r <=? rmax) &&
      (ns =? next_start rest fin) && chain rest fin
  end.
Definition episode : Type := (list step * nat)%type.
Definition valid_episode (ep : episode) : bool :=
  let st := next_start (fst ep) (snd ep) in
  (st <? nS) && nltb n0 (untab ini st) && chain (fst ep) (snd ep) && absorbing (snd ep).
Definition experience (eps : list episode) : list step := flat_map fst eps.

Variable eps : list episode.       (* recorded by the event listener *)
Variable O : learner T.            (* learner.rewards/s_a_counts/transitions + returned Q dict *)
Variable pi : list (list T).       (* returned policy, as a matrix *)
Variables (utol btol ptol : T).    (* float slack: upper bound, Bellman residual, |pi*k - 1| *)

Definition c_valid : bool := forallb valid_episode eps.

(* the learner's tallies are what the bookkeeping model computes from the recorded experience *)
Definition c_tally : bool :=
  let L := tallies (experience eps) in
  forallbn nS (fun s => forallbn nA (fun a =>
    neqb (rwf O s a) (rwf L s a) && (cntf O s a =? cntf L s a) &&
    forallbn nS (fun ns => trf O s a ns =? trf L s a ns))).

Definition c_upper : bool :=
  forallbn nS (fun s => forallbn nA (fun a => qf O s a <=? q0 + utol)).

Definition c_unknown : bool :=
  forallbn nS (fun s => forallbn nA (fun a =>
    if known O s a then true else neqb (qf O s a) q0)).

Definition c_bellman : bool :=
  forallbn nS (fun s => forallbn nA (fun a =>
    if known O s a then ncloseb btol (qf O s a) (newq O (l_q O) s a) else true)).

Definition insupp (s a : nat) : bool := nltb n0 (untab2 pi s a).
Definition c_policy : bool :=
  forallbn nS (fun s =>
    let k := nofnat (countb nA (insupp s)) in
    forallbn nA (fun a =>
      if insupp s a then is_max (l_q O) s a && ncloseb ptol (untab2 pi s a * k) n1
      else neqb (untab2 pi s a) n0 && negb (is_max (l_q O) s a))).

Definition c17_check : list bool := [c_valid; c_tally; c_upper; c_unknown; c_bellman; c_policy].

End RMax.

(* comparison of the mirror's final q with the implementation's, |x - y| <= eps entrywise *)
Definition q_close {T} {NT : Num T} (nS nA : nat) (eps : T) (q1 q2 : list (list T)) : bool :=
  forallbn nS (fun s => forallbn nA (fun a => ncloseb eps (untab2 q1 s a) (untab2 q2 s a))).
