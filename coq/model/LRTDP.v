(* LRTDP.v — C04: msdm/algorithms/lrtdp.py (Labeled RTDP) as
   (i)  a certificate checker over the planner's final result (values with the heuristic as
        default, solved labels, the action returned at labelled states, reported Q / policy /
        initial value) and exact
        side certificates supplied by the harness (expected steps N, policy value, optimal value,
        all-policy weights W), and
   (ii) an abstract machine  (V, solved, recorded greedy action)  with the three operations the
        code performs — Bellman update of an unlabelled state, "absorbing successor is solved",
        labelling a closed set — each with the guard under which the code performs it, plus a
        fuelled mirror of _check_solved that predicts the operation from the state.
   Generic in the number type; executed on Q, reasoned about on R (theory/LRTDPTheory.v).

   LRTDP's own look-ahead (lrtdp.py:215-224):  Q(s,a) = 0 at absorbing s, and
   sum_ns p * (r + gamma * future), future = 0 at absorbing ns, V[ns] otherwise —
   whatever the heuristic says about absorbing states.  "Absorbing" is mdp.is_absorbing,
   i.e. the declared flag [absflag] (not the matrix view's implicit-absorbing test). *)
From Coq Require Import List Arith Bool.
From MSDM Require Import base.Num model.MDP.
Import ListNotations.

Definition setnth {A} (l : list A) (i : nat) (x : A) : list A :=
  firstn i l ++ match skipn i l with [] => [] | _ :: r => x :: r end.

Definition inb (x : nat) (l : list nat) : bool := existsb (Nat.eqb x) l.

Section LR.
Context {T : Type} {NT : Num T}.
Local Open Scope num_scope.
Variable m : mdp T.

Definition zabs (V : nat -> T) (s : nat) : T := if absflag m s then n0 else V s.

Definition Qlr (V : nat -> T) (s a : nat) : T :=
  if absflag m s then n0
  else sumf (nS m) (fun ns => P m s a ns * (Rw m s a ns + gamma m * zabs V ns)).

(* _bellman_update: max over mdp.actions(s) *)
Definition Blr (V : nat -> T) (s : nat) : option T := maxf (nA m) (avail m s) (Qlr V s).

(* Python's max(action_list, key=f): the FIRST maximal element of the list *)
Fixpoint argmax_first (l : list nat) (f : nat -> T) : option nat :=
  match l with
  | [] => None
  | a :: r => match argmax_first r f with
              | None => Some a
              | Some b => if f b <=? f a then Some a else Some b
              end
  end.

(* LRTDP.policy: fixed per-state action order (recorded in res.action_orders) *)
Definition greedy (ord : nat -> list nat) (V : nat -> T) (s : nat) : option nat :=
  argmax_first (ord s) (Qlr V s).

(* ------------------------------------------------------------------ *)
(* (i) certificate on the final result                                 *)
(* ------------------------------------------------------------------ *)
Record lrout := mkLR {
  lV : nat -> T;                   (* res.V[s] (the heuristic where nothing was stored) *)
  lsolved : nat -> bool;           (* res.solved[s] *)
  ltouched : nat -> bool;          (* s in res.V.keys() *)
  lpi : nat -> nat;                (* action the planner returns at a labelled state: the greedy
                                      action recorded when the state was labelled *)
  lQ : nat -> nat -> option T;     (* res.Q[s][a] where reported *)
  lret : nat -> nat -> T;          (* res.policy.action_dist(s) *)
  linit : T                        (* res.initial_value *)
}.

(* exact side certificates (harness: Fractions; every one is CHECKED below) *)
Record lrcert := mkCert {
  cN : nat -> T;      (* expected number of steps of the greedy policy *)
  cVpi : nat -> T;    (* exactly evaluated value of the greedy policy *)
  cVs : nat -> T;     (* optimal values *)
  cW : nat -> T       (* weights: max expected number of steps over all policies (properness) *)
}.

Record lrtols := mkLTol {
  teps : T;    (* Bellman error margin + float slack *)
  tgre : T;    (* greediness slack *)
  tq : T;      (* |reported Q - lookahead| *)
  ti : T;      (* initial value *)
  tu : T       (* upper-bound slack *)
}.

Variable o : lrout.
Variable c : lrcert.
Variable t : lrtols.

Definition live (s : nat) : bool := lsolved o s && negb (absflag m s).

Definition lr_wfb : bool :=
  (n0 <=? gamma m) && (gamma m <=? n1) && neqb (sumf (nS m) (init m)) n1 &&
  forallbn (nS m) (fun s =>
    existsb (avail m s) (seq 0 (nA m)) && (n0 <=? init m s) &&
    forallbn (nA m) (fun a =>
      forallbn (nS m) (fun ns => n0 <=? P m s a ns) &&
      (if avail m s a then neqb (sumf (nS m) (P m s a)) n1 else true))).

(* (a) every initial state of positive probability is labelled solved *)
Definition c_initsolved : bool :=
  forallbn (nS m) (fun s => if nltb n0 (init m s) then lsolved o s else true).

(* (b) labelled non-absorbing states: residual of the greedy action within the margin and
       every positive-probability successor of the greedy action labelled *)
Definition c_solved : bool :=
  forallbn (nS m) (fun s =>
    if live s then
      (lpi o s <? nA m) && avail m s (lpi o s) &&
      ncloseb (teps t) (lV o s) (Qlr (lV o) s (lpi o s)) &&
      forallbn (nS m) (fun ns => if nltb n0 (P m s (lpi o s) ns) then lsolved o ns else true)
    else true).

(* the action is greedy for the final values *)
Definition c_greedy : bool :=
  forallbn (nS m) (fun s =>
    if live s then
      forallbn (nA m) (fun a =>
        if avail m s a then Qlr (lV o) s a <=? (Qlr (lV o) s (lpi o s) + tgre t) else true)
    else true).

(* N >= 0 and N >= 1 + gamma * P_pi N off the absorbing set, on the labelled states *)
Definition c_N : bool :=
  forallbn (nS m) (fun s =>
    (n0 <=? cN c s) &&
    (if live s then
       (n1 + gamma m * sumf (nS m) (fun ns => P m s (lpi o s) ns * zabs (cN c) ns)) <=? cN c s
     else true)).

(* exact policy evaluation equations on the labelled states *)
Definition c_vpi : bool :=
  forallbn (nS m) (fun s =>
    if live s then neqb (cVpi c s) (Qlr (cVpi c) s (lpi o s)) else true).

(* exact optimality equations at every non-absorbing state *)
Definition c_vstar : bool :=
  forallbn (nS m) (fun s =>
    if absflag m s then true else
    match Blr (cVs c) s with Some b => neqb (cVs c s) b | None => false end).

(* properness certificate: W >= 0, W >= 1 + gamma * P_a W for EVERY available action *)
Definition c_w : bool :=
  forallbn (nS m) (fun s =>
    (n0 <=? cW c s) &&
    (if absflag m s then true else
     forallbn (nA m) (fun a =>
       if avail m s a then
         (n1 + gamma m * sumf (nS m) (fun ns => P m s a ns * zabs (cW c) ns)) <=? cW c s
       else true))).

(* value estimates never fall below the optimal values *)
Definition c_upper : bool :=
  forallbn (nS m) (fun s => if absflag m s then true else (cVs c s - tu t) <=? lV o s).

(* absorbing states: stored value and reported Q are 0 *)
Definition c_abs : bool :=
  forallbn (nS m) (fun s =>
    if absflag m s && ltouched o s then
      neqb (lV o s) n0 &&
      forallbn (nA m) (fun a => match lQ o s a with Some x => neqb x n0 | None => true end)
    else true).

(* reported Q is the look-ahead of the reported values, for exactly the available actions *)
Definition c_q : bool :=
  forallbn (nS m) (fun s =>
    if ltouched o s then
      forallbn (nA m) (fun a =>
        match lQ o s a with
        | Some x => avail m s a && ncloseb (tq t) x (Qlr (lV o) s a)
        | None => negb (avail m s a)
        end)
    else true).

(* initial value: expectation of the values, absorbing states counting 0 *)
Definition c_init : bool :=
  ncloseb (ti t) (linit o) (sumf (nS m) (fun s => init m s * zabs (lV o) s)).

(* the returned policy plays the greedy action at every labelled non-absorbing state *)
Definition c_ret : bool :=
  forallbn (nS m) (fun s =>
    if live s then
      forallbn (nA m) (fun a => neqb (lret o s a) (if a =? lpi o s then n1 else n0))
    else true).

Definition c04_check : list bool :=
  [lr_wfb; c_initsolved; c_solved; c_greedy; c_N; c_vpi; c_vstar; c_w; c_upper;
   c_abs; c_q; c_init; c_ret].

End LR.

(* ------------------------------------------------------------------ *)
(* (ii) abstract machine                                               *)
(* ------------------------------------------------------------------ *)
Inductive lop := OUpd (s : nat) | OAbs (s : nat) | OLabel (C : list nat).

Section Machine.
Context {T : Type} {NT : Num T}.
Local Open Scope num_scope.
Variable m : mdp T.
Variable eps : T.                     (* margin (+ slack) *)
Variable ord : nat -> list nat.       (* res.action_orders *)

Record lst := mkSt { stV : list T; stSolved : list bool; stAct : list nat }.

Definition sV (st : lst) (s : nat) : T := untab (stV st) s.
Definition sSol (st : lst) (s : nat) : bool := nth s (stSolved st) false.
Definition sAct (st : lst) (s : nat) : nat := nth s (stAct st) 0.

Definition init_state (h : list T) : lst :=
  mkSt h (repeat false (nS m)) (repeat 0 (nS m)).

(* guard of labelling s as part of the set C (lrtdp.py:186-200) *)
Definition label_ok1 (st : lst) (C : list nat) (s : nat) : bool :=
  (s <? nS m) && negb (sSol st s) &&
  (if absflag m s then true else
   match greedy m ord (sV st) s with
   | None => false
   | Some a =>
     (a <? nA m) && avail m s a &&
     ncloseb eps (sV st s) (Qlr m (sV st) s a) &&
     forallbn (nS m) (fun ns => if nltb n0 (P m s a ns) then sSol st ns || inb ns C else true)
   end).

Definition do_label (st : lst) (C : list nat) : lst :=
  mkSt (stV st)
       (fold_left (fun l s => setnth l s true) C (stSolved st))
       (fold_left (fun l s => match greedy m ord (sV st) s with
                              | Some a => setnth l s a | None => l end) C (stAct st)).

Definition step (st : lst) (op : lop) : option lst :=
  match op with
  | OUpd s =>
    if (s <? nS m) && negb (sSol st s) then
      match Blr m (sV st) s with
      | Some b => Some (mkSt (setnth (stV st) s b) (stSolved st) (stAct st))
      | None => None
      end
    else None
  | OAbs s =>
    if (s <? nS m) && absflag m s
    then Some (mkSt (stV st) (setnth (stSolved st) s true) (stAct st)) else None
  | OLabel C =>
    if forallb (label_ok1 st C) C then Some (do_label st C) else None
  end.

Fixpoint run (st : lst) (ops : list lop) : option lst :=
  match ops with
  | [] => Some st
  | op :: r => match step st op with Some st' => run st' r | None => None end
  end.

(* run + comparison of every value written with the value the implementation wrote *)
(* ABSOLUTE tolerance: the float error of a written value is a few ulps of the LARGEST operand that entered
   the update (huge rewards of opposite sign can cancel to a small value), so the harness passes
   tol = 1e-13 * (largest magnitude among rewards / heuristic / values), not a bound relative to the value *)
Definition vclose (tol x y : T) : bool := nabs (x - y) <=? tol.

Fixpoint run_cmp (tol : T) (st : lst) (ops : list (lop * T)) : option (lst * bool) :=
  match ops with
  | [] => Some (st, true)
  | (op, v) :: r =>
    match step st op with
    | None => None
    | Some st' =>
      let okv := match op with OUpd s => vclose tol (sV st' s) v | _ => true end in
      match run_cmp tol st' r with
      | Some (st2, b) => Some (st2, okv && b)
      | None => None
      end
    end
  end.

Definition beqb (a b : bool) : bool := if a then b else negb b.
Definition beqlist (a b : list bool) : bool :=
  (length a =? length b) && forallb (fun p => beqb (fst p) (snd p)) (combine a b).

(* [guards hold along the whole log; every written value agrees; final labels agree;
    final values agree; the action recorded when a state was labelled is the action the
    implementation returns there (res.solved_action / res.policy)] *)
Definition replay_check (tol : T) (h : list T) (ops : list (lop * T))
           (solvedI : list bool) (VI : list T) (actI : list nat) : list bool :=
  match run_cmp tol (init_state h) ops with
  | None => [false; false; false; false; false]
  | Some (st, b) =>
    [true; b; beqlist (stSolved st) solvedI;
     forallbn (nS m) (fun s => vclose tol (sV st s) (untab VI s));
     forallbn (nS m) (fun s => if sSol st s && negb (absflag m s)
                               then sAct st s =? nth s actI 0 else true)]
  end.

(* diagnostic (not used by any theorem): index of the first op whose guard fails (code 1)
   or whose value differs (code 2); (length, 0) when the whole log replays *)
Fixpoint replay_diag (tol : T) (i : nat) (st : lst) (ops : list (lop * T)) : nat * nat :=
  match ops with
  | [] => (i, 0)
  | (op, v) :: r =>
    match step st op with
    | None => (i, 1)
    | Some st' =>
      if match op with OUpd s => vclose tol (sV st' s) v | _ => true end
      then replay_diag tol (S i) st' r else (i, 2)
    end
  end.

(* ---- mirror of _check_solved (lrtdp.py:181-205): predicts flag and closed list ---- *)
(* supp s a = next_state_dist(s,a).support in the implementation's iteration order *)
Variable supp : nat -> nat -> list nat.

Fixpoint cs_loop (fuel : nat) (st : lst) (open closed : list nat) (flag : bool)
  : option (bool * list nat) :=
  match fuel with
  | O => None
  | S f =>
    match open with
    | [] => Some (flag, rev closed)
    | s :: open' =>                               (* open.pop(): head = top of the stack *)
      let closed' := s :: closed in               (* closed kept reversed *)
      match greedy m ord (sV st) s with
      | None => None
      | Some a =>
        let res := sV st s - Qlr m (sV st) s a in
        if nltb eps (nabs res) then cs_loop f st open' closed' false
        else
          let open2 :=
            fold_left (fun op ns =>
                         if negb (sSol st ns) && negb (inb ns op) && negb (inb ns closed')
                         then ns :: op else op)
                      (supp s a) open' in
          cs_loop f st open2 closed' flag
      end
    end
  end.

Definition check_solved (st : lst) (s : nat) : option (bool * list nat) :=
  cs_loop (S (S (nS m))) st (if sSol st s then [] else [s]) [] true.

(* the machine operations a _check_solved call amounts to *)
Definition check_ops (flag : bool) (closed : list nat) : list lop :=
  if flag then [OLabel closed] else map OUpd (rev closed).

End Machine.

(* constructing certificate inputs from lists *)
Definition mk_lrout {T} {NT : Num T} (V : list T) (solved touched : list bool) (pi : list nat)
           (Qv : list (list (option T))) (ret : list (list T)) (iv : T) : @lrout T :=
  mkLR (untab V) (fun s => nth s solved false) (fun s => nth s touched false)
       (fun s => nth s pi 0) (fun s a => nth a (nth s Qv []) None) (untab2 ret) iv.

Definition mk_cert {T} {NT : Num T} (N Vpi Vs W : list T) : @lrcert T :=
  mkCert (untab N) (untab Vpi) (untab Vs) (untab W).
