(* Rollout.v — executable model of policy roll-outs and Monte-Carlo evaluation (property C14).

   Mirrors  msdm/core/mdp/policy.py   (Policy.run_on, Policy.evaluate_on, Policy.calc_returns,
                                       SimulationResult accessors)
            msdm/core/pomdp/policy.py (POMDPPolicy.run_on)
            msdm/core/distributions   (the three `sample` methods that roll-outs call).

   States, actions, observations are nat ids.  Randomness is DATA: a generator is the list of the
   floats its `random()` method returns (as exact rationals); a roll-out is a deterministic function
   of that list.  Theorems quantify over all such lists, i.e. over all generators/seeds/histories.
   A stream that runs out reads as 0 (the harness never lets that happen on the implementation side).

   How a distribution turns draws into an event is CPython's `random` module:
     DictDistribution / TableDistribution   FiniteDistribution.sample: a one-element support is returned
                                            without touching the generator, otherwise
                                            rng.choices(population=support, weights=probs)[0]
                                            = population[bisect(cum_weights, random()*total, 0, n-1)]
     UniformDistribution                    rng.choice(support) = support[_randbelow(n)], and for a
                                            generator that only supplies random():
                                            r = random(); while r >= limit: r = random();
                                            floor(r * 2^53) % n      (limit = (2^53 - 2^53 % n) / 2^53)
     DeterministicDistribution              no draw.                                                   *)
From Coq Require Import QArith Qround ZArith List Bool Arith Lia.
Import ListNotations.
Local Open Scope Q_scope.

(* ------------------------------------------------------------------ distributions and draws *)
Inductive dist : Type :=
| DDict (l : list (nat * Q))      (* support in presentation order, with weights (zeros allowed) *)
| DUnif (l : list nat)
| DDet (x : nat).

Definition stream := list Q.

Definition draw (st : stream) : Q * stream :=
  match st with [] => (0, []) | u :: r => (u, r) end.

(* sums are reduced to lowest terms after every addition (same value; keeps vm_compute fast) *)
Definition qsum (l : list Q) : Q := fold_right (fun x acc => Qred (x + acc)) 0 l.

(* bisect_right(cum_weights, x, 0, n-1) for cum_weights = running sums of ws: on a sorted list it is
   the number of leading running sums <= x among the first n-1; comparing w0 <= x, then
   w1 <= x - w0, ... is the same test on running sums *)
Fixpoint pick (ws : list Q) (x : Q) : nat :=
  match ws with
  | [] => 0%nat
  | w :: rest =>
      match rest with
      | [] => 0%nat
      | _ => if Qle_bool w x then S (pick rest (x - w)) else 0%nat
      end
  end.

Definition maxsize : Z := (2 ^ 53)%Z.

(* Random._randbelow_without_getrandbits *)
Fixpoint randbelow (n : Z) (st : stream) : Z * stream :=
  match st with
  | [] => (0%Z, [])
  | u :: r =>
      let rem := (maxsize mod n)%Z in
      if Qle_bool (inject_Z (maxsize - rem) / inject_Z maxsize) u
      then randbelow n r
      else ((Qfloor (u * inject_Z maxsize) mod n)%Z, r)
  end.

Definition sample (d : dist) (st : stream) : nat * stream :=
  match d with
  | DDet x => (x, st)
  | DUnif l =>
      let (k, st') := randbelow (Z.of_nat (length l)) st in
      (nth (Z.to_nat k) l 0%nat, st')
  | DDict l =>
      match l with
      | [(x, _)] => (x, st)
      | _ =>
          let (u, st') := draw st in
          let ws := map snd l in
          (fst (nth (pick ws (u * qsum ws)) l (0%nat, 0)), st')
      end
  end.

(* what msdm's  dist.prob(e)  returns *)
Fixpoint wkey (x : nat) (l : list (nat * Q)) : Q :=
  match l with
  | [] => 0
  | (y, w) :: r => (if Nat.eqb x y then w else 0) + wkey x r
  end.

Definition dweight (d : dist) (x : nat) : Q :=
  match d with
  | DDict l => wkey x l
  | DUnif l => if existsb (Nat.eqb x) l then 1 / inject_Z (Z.of_nat (length l)) else 0
  | DDet y => if Nat.eqb x y then 1 else 0
  end.

(* expectation; zero-weight entries are skipped (same value, and evaluation of deterministic
   chains stays linear) *)
Definition dexpect (d : dist) (f : nat -> Q) : Q :=
  match d with
  | DDict l => qsum (map (fun xw => if Qeq_bool (snd xw) 0 then 0 else snd xw * f (fst xw)) l)
               / qsum (map snd l)
  | DUnif l => qsum (map f l) / inject_Z (Z.of_nat (length l))
  | DDet x => f x
  end.

(* ------------------------------------------------------------------ MDP roll-out *)
Record fmdp : Type := mkF {
  f_init : dist;                         (* initial_state_dist() *)
  f_next : nat -> nat -> dist;           (* next_state_dist(s, a) *)
  f_rew : nat -> nat -> nat -> Q;        (* reward(s, a, ns) *)
  f_abs : nat -> bool;                   (* is_absorbing(s) *)
  f_gamma : Q                            (* discount_rate *)
}.

Definition policy := nat -> dist.        (* action_dist(s) *)

Record step : Type := mkStep { st_s : nat; st_a : nat; st_ns : nat; st_r : Q }.

(* the loop of Policy.run_on from state s with `cap` iterations left;
   result: the Steps, the state of the final state-only Step, the unread part of the stream *)
Fixpoint run_from (m : fmdp) (pi : policy) (cap : nat) (s : nat) (st : stream)
  : list step * nat * stream :=
  match cap with
  | O => ([], s, st)
  | S c =>
      if f_abs m s then ([], s, st)
      else
        let (a, st1) := sample (pi s) st in
        let (ns, st2) := sample (f_next m s a) st1 in
        let r := f_rew m s a ns in
        let '(tr, fin, st3) := run_from m pi c ns st2 in
        (mkStep s a ns r :: tr, fin, st3)
  end.

Definition run_on (m : fmdp) (pi : policy) (s0 : option nat) (cap : nat) (st : stream)
  : list step * nat * stream :=
  match s0 with
  | Some s => run_from m pi cap s st
  | None => let (s, st0) := sample (f_init m) st in run_from m pi cap s st0
  end.

(* ------------------------------------------------------------------ POMDP roll-out *)
Record fpomdp : Type := mkFP {
  fp_mdp : fmdp;
  fp_obs : nat -> nat -> dist            (* observation_dist(a, ns) *)
}.

Record ppolicy (AG : Type) : Type := mkPP {
  pp_init : AG;                          (* initial_agentstate() *)
  pp_act : AG -> dist;                   (* action_dist(ag) *)
  pp_next : AG -> nat -> nat -> AG       (* next_agentstate(ag, a, o) *)
}.
Arguments mkPP {AG}. Arguments pp_init {AG}. Arguments pp_act {AG}. Arguments pp_next {AG}.

Record pstep (AG : Type) : Type := mkPStep {
  ps_s : nat; ps_ag : AG; ps_a : nat; ps_ns : nat; ps_r : Q; ps_o : nat; ps_nag : AG }.
Arguments mkPStep {AG}. Arguments ps_s {AG}. Arguments ps_ag {AG}. Arguments ps_a {AG}.
Arguments ps_ns {AG}. Arguments ps_r {AG}. Arguments ps_o {AG}. Arguments ps_nag {AG}.

Fixpoint prun_from {AG} (m : fpomdp) (pol : ppolicy AG) (cap : nat) (s : nat) (ag : AG) (st : stream)
  : list (pstep AG) * (nat * AG) * stream :=
  match cap with
  | O => ([], (s, ag), st)
  | S c =>
      if f_abs (fp_mdp m) s then ([], (s, ag), st)
      else
        let (a, st1) := sample (pp_act pol ag) st in
        let (ns, st2) := sample (f_next (fp_mdp m) s a) st1 in
        let r := f_rew (fp_mdp m) s a ns in
        let (o, st3) := sample (fp_obs m a ns) st2 in
        let nag := pp_next pol ag a o in
        let '(tr, fin, st4) := prun_from m pol c ns nag st3 in
        (mkPStep s ag a ns r o nag :: tr, fin, st4)
  end.

(* POMDPPolicy.run_on.  The initial state is sampled with `.sample()` — no rng argument — so
   it is drawn from the process-global generator, modelled as a second stream `gst`.
   `init_from_rng` = true is the variant that passes rng=rng; the harness observes which
   generator was asked and sets the flag accordingly.  Result also returns the unread global stream. *)
Definition prun_on {AG} (init_from_rng : bool) (m : fpomdp) (pol : ppolicy AG)
           (s0 : option nat) (ag0 : option AG) (cap : nat) (gst st : stream)
  : list (pstep AG) * (nat * AG) * stream * stream :=
  let '(s, gst', st') :=
    match s0 with
    | Some s => (s, gst, st)
    | None => if init_from_rng
              then let (s, st') := sample (f_init (fp_mdp m)) st in (s, gst, st')
              else let (s, gst') := sample (f_init (fp_mdp m)) gst in (s, gst', st)
    end in
  let ag := match ag0 with Some a => a | None => pp_init pol end in
  (prun_from m pol cap s ag st', gst').

(* ------------------------------------------------------------------ returns *)
(* np.triu(np.power(g, j - i)) @ rs *)
Definition disc_entry (g : Q) (i j : nat) : Q :=
  if Nat.leb i j then g ^ Z.of_nat (j - i) else 0.

Definition calc_returns (rs : list Q) (g : Q) : list Q :=
  let n := length rs in
  map (fun i => qsum (map (fun j => disc_entry g i j * nth j rs 0) (seq 0 n))) (seq 0 n).

(* ------------------------------------------------------------------ SimulationResult accessors *)
Definition traj := (list step * nat)%type.
Definition t_states (t : traj) : list nat := map st_s (fst t) ++ [snd t].
Definition t_actions (t : traj) : list (option nat) := map (fun x => Some (st_a x)) (fst t) ++ [None].
Definition t_rewards (t : traj) : list Q := map st_r (fst t) ++ [0].
Definition t_next_states (t : traj) : list (option nat) := map (fun x => Some (st_ns x)) (fst t) ++ [None].

(* ------------------------------------------------------------------ Monte-Carlo evaluation *)
(* defaultdict(list) with append, as an association list in first-insertion order *)
Section AL.
Context {K V : Type} (keq : K -> K -> bool).
Fixpoint al_append (k : K) (v : V) (d : list (K * list V)) : list (K * list V) :=
  match d with
  | [] => [(k, [v])]
  | (k', vs) :: r => if keq k k' then (k', vs ++ [v]) :: r else (k', vs) :: al_append k v r
  end.
Fixpoint al_get (k : K) (d : list (K * list V)) : list V :=
  match d with
  | [] => []
  | (k', vs) :: r => if keq k k' then vs else al_get k r
  end.
End AL.

Definition oeqb (a b : option nat) : bool :=
  match a, b with
  | Some x, Some y => Nat.eqb x y
  | None, None => true
  | _, _ => false
  end.
Definition sa_eqb (x y : nat * option nat) : bool := Nat.eqb (fst x) (fst y) && oeqb (snd x) (snd y).

Definition qlen {A} (l : list A) : Q := inject_Z (Z.of_nat (length l)).
Definition mean (l : list Q) : Q := qsum l / qlen l.

(* n successive roll-outs from sampled initial states on ONE generator *)
Fixpoint sims (m : fmdp) (pi : policy) (cap : nat) (n : nat) (st : stream) : list traj * stream :=
  match n with
  | O => ([], st)
  | S k =>
      let '(tr, fin, st1) := run_on m pi None cap st in
      let (rest, st2) := sims m pi cap k st1 in
      ((tr, fin) :: rest, st2)
  end.

(* zip(rets, res.state, res.action): the final state-only step takes part, with return 0 and action None *)
Definition visits_of (g : Q) (t : traj) : list (Q * (nat * option nat)) :=
  combine (calc_returns (t_rewards t) g) (combine (t_states t) (t_actions t)).

Record mc_result : Type := mkMC {
  mc_state_value : list (nat * Q);
  mc_action_value : list ((nat * option nat) * Q);
  mc_initial_value : Q;
  mc_occupancy : list (nat * Q)
}.

Definition sv_samples (vis : list (Q * (nat * option nat))) : list (nat * list Q) :=
  fold_left (fun d v => al_append Nat.eqb (fst (snd v)) (fst v) d) vis [].
Definition av_samples (vis : list (Q * (nat * option nat))) : list ((nat * option nat) * list Q) :=
  fold_left (fun d v => al_append sa_eqb (snd v) (fst v) d) vis [].

Definition mc_tables (g : Q) (n : nat) (ts : list traj) : mc_result :=
  let vis := flat_map (visits_of g) ts in
  let svs := sv_samples vis in
  let avs := av_samples vis in
  let ivs := map (fun t => hd 0 (calc_returns (t_rewards t) g)) ts in
  mkMC (map (fun kv => (fst kv, mean (snd kv))) svs)
       (map (fun kv => (fst kv, mean (snd kv))) avs)
       (mean ivs)
       (map (fun kv => (fst kv, qlen (snd kv) / inject_Z (Z.of_nat n))) svs).

Definition mc_evaluate (m : fmdp) (pi : policy) (cap n : nat) (st : stream) : mc_result :=
  mc_tables (f_gamma m) n (fst (sims m pi cap n st)).

(* ------------------------------------------------------------------ exact evaluation truncated at the cap *)
Fixpoint Vn (m : fmdp) (pi : policy) (cap : nat) (s : nat) : Q :=
  match cap with
  | O => 0
  | S c =>
      if f_abs m s then 0
      else dexpect (pi s) (fun a =>
             dexpect (f_next m s a) (fun ns => f_rew m s a ns + f_gamma m * Vn m pi c ns))
  end.

(* ------------------------------------------------------------------ table-backed instances (harness) *)
Fixpoint rew_lookup (tbl : list (nat * nat * nat * Q)) (s a ns : nat) : Q :=
  match tbl with
  | [] => 0
  | (s', a', ns', r) :: rest =>
      if Nat.eqb s s' && Nat.eqb a a' && Nat.eqb ns ns' then r else rew_lookup rest s a ns
  end.

Definition mk_fmdp (ini : dist) (next : list (list dist)) (rew : list (nat * nat * nat * Q))
           (ab : list bool) (g : Q) : fmdp :=
  mkF ini (fun s a => nth a (nth s next []) (DDet 0)) (rew_lookup rew) (fun s => nth s ab false) g.

Definition mk_pol (l : list dist) : policy := fun s => nth s l (DDet 0).

Definition mk_fpomdp (m : fmdp) (obs : list (list dist)) : fpomdp :=
  mkFP m (fun a ns => nth ns (nth a obs []) (DDet 0)).

(* controller with nat nodes: action distribution per node, next node per (node, action, observation) *)
Definition mk_ctrl (ini : nat) (act : list dist) (nxt : list (list (list nat))) : ppolicy nat :=
  mkPP ini (fun n => nth n act (DDet 0))
       (fun n a o => nth o (nth a (nth n nxt []) []) 0%nat).

(* StochasticFiniteStateController: agent state = distribution over nodes (vector);
   action_dist(ag) = {a: (ag @ A)[a]}, next_agentstate = ag @ O[:, a, o] *)
Definition vdot (u v : list Q) : Q := qsum (map (fun p => fst p * snd p) (combine u v)).
Definition mk_sfsc (ini : list Q) (A : list (list Q)) (O : list (list (list (list Q)))) (nA : nat)
  : ppolicy (list Q) :=
  let nN := length A in
  mkPP ini
       (fun ag => DDict (map (fun a => (a, Qred (vdot ag (map (fun row => nth a row 0) A)))) (seq 0 nA)))
       (fun ag a o => map (fun n' => Qred (vdot ag (map (fun n => nth n' (nth o (nth a (nth n O []) []) []) 0) (seq 0 nN))))
                          (seq 0 nN)).

(* printable forms (Q values as explicit numerator/denominator: Coq prints some Q literals in
   decimal/hexadecimal notation otherwise) *)
Inductive qo : Type := QO (n : Z) (d : positive).
Definition qo_of (x : Q) : qo := let y := Qred x in QO (Qnum y) (Qden y).
Definition step_out (x : step) := (st_s x, st_a x, st_ns x, qo_of (st_r x)).
Definition run_out (r : list step * nat * stream) (st : stream) :=
  let '(tr, fin, rest) := r in (map step_out tr, fin, (length st - length rest)%nat).
Definition pstep_out {AG B} (agout : AG -> B) (x : pstep AG) :=
  (ps_s x, agout (ps_ag x), ps_a x, ps_ns x, qo_of (ps_r x), ps_o x, agout (ps_nag x)).
Definition prun_out {AG B} (agout : AG -> B) (r : list (pstep AG) * (nat * AG) * stream * stream) (gst st : stream) :=
  let '(tr, fin, rest, grest) := r in
  (map (pstep_out agout) tr, (fst fin, agout (snd fin)), (length st - length rest)%nat, (length gst - length grest)%nat).
Definition mc_out (r : mc_result) :=
  (map (fun kv => (fst kv, qo_of (snd kv))) (mc_state_value r),
   map (fun kv => (fst kv, qo_of (snd kv))) (mc_action_value r),
   qo_of (mc_initial_value r),
   map (fun kv => (fst kv, qo_of (snd kv))) (mc_occupancy r)).
