(* model/GridWorld.v — executable mirror of msdm/domains/gridworld/mdp.py (GridWorld), DISCRETE style.

   layout      : rows top-to-bottom exactly as in the tile string, one symbol (ascii code, nat) per cell
   state       : (x, y) : Z * Z, y counted from the bottom row;   TERMINALSTATE = (-1, -1)
   action      : (dx, dy) : Z * Z
   probability : Q  (harness draws dyadic parameters so msdm's floats are exact)

   mdp.py lines mirrored:
     36-56   parsing: the '.' cell has no feature (elementsep "."), every other character c has feature c;
             initial / absorbing / wall cells by membership of the feature in the three feature tuples
     57-67   actions sorted by (dx, dy); states sorted by (x, y), TERMINALSTATE first
     122-151 next_state_dist          153-157 reward          159-163 actions, initial_state_dist *)
From Coq Require Import ZArith QArith List Bool Lia.
Import ListNotations.
Local Open Scope Z_scope.

Definition sym := nat.
Definition layout := list (list sym).
Definition pos := (Z * Z)%type.
Definition DOT : sym := 46%nat.

Record gwp := mkGW {
  g_rows : layout;            (* tile_array *)
  g_abs  : list sym;          (* absorbing_features *)
  g_wall : list sym;          (* wall_features *)
  g_ini  : list sym;          (* initial_features *)
  g_frew : list (sym * Q);    (* feature_rewards *)
  g_step : Q;                 (* step_cost *)
  g_p    : Q }.               (* success_prob *)

Definition term : pos := (-1, -1).
Definition pos_eqb (a b : pos) : bool := (fst a =? fst b) && (snd a =? snd b).
Definition padd (s a : pos) : pos := (fst s + fst a, snd s + snd a).

Definition g_h (g : gwp) : Z := Z.of_nat (length (g_rows g)).
Definition g_w (g : gwp) : Z := Z.of_nat (length (hd [] (g_rows g))).

(* the character at (x, y); None outside the grid *)
Definition cell (g : gwp) (s : pos) : option sym :=
  let (x, y) := s in
  if (0 <=? x) && (0 <=? y) && (y <? g_h g) then
    match nth_error (g_rows g) (Z.to_nat (g_h g - 1 - y)) with
    | Some row => nth_error row (Z.to_nat x)
    | None => None
    end
  else None.

Definition in_grid (g : gwp) (s : pos) : bool :=
  match cell g s with Some _ => true | None => false end.

(* _locFeatures.get(s): '.' cells have no feature *)
Definition feature (g : gwp) (s : pos) : option sym :=
  match cell g s with
  | Some c => if Nat.eqb c DOT then None else Some c
  | None => None
  end.

Definition memb (f : sym) (l : list sym) : bool := existsb (Nat.eqb f) l.

Definition has_feat (g : gwp) (l : list sym) (s : pos) : bool :=
  match feature g s with Some f => memb f l | None => false end.
Definition wall_at (g : gwp) (s : pos) : bool := has_feat g (g_wall g) s.
Definition abs_at  (g : gwp) (s : pos) : bool := has_feat g (g_abs g) s.
Definition init_at (g : gwp) (s : pos) : bool := has_feat g (g_ini g) s.

Fixpoint lookupQ (f : sym) (l : list (sym * Q)) : Q :=
  match l with
  | [] => 0%Q
  | (k, v) :: t => if Nat.eqb k f then v else lookupQ f t
  end.

(* _featureRewards.get(_locFeatures.get(ns, ""), 0.0) *)
Definition feat_reward (g : gwp) (s : pos) : Q :=
  match feature g s with Some f => lookupQ f (g_frew g) | None => 0%Q end.

Definition zrange (n : nat) : list Z := map Z.of_nat (seq 0 n).

(* sorted by (x, y): x-major; rectangular layouts (width = length of the first row, as mdp.py:81) *)
Definition grid_states (g : gwp) : list pos :=
  flat_map (fun x => map (fun y => (x, y)) (zrange (length (g_rows g))))
           (zrange (length (hd [] (g_rows g)))).
Definition gw_states (g : gwp) : list pos := term :: grid_states g.

(* `ns in self._states` *)
Definition in_states (g : gwp) (s : pos) : bool := pos_eqb s term || in_grid g s.

Definition gw_actions : list pos := [(-1, 0); (0, -1); (0, 0); (0, 1); (1, 0)].

Definition gw_is_absorbing (s : pos) : bool := pos_eqb s term.

Definition gw_next (g : gwp) (s a : pos) : list (pos * Q) :=
  if gw_is_absorbing s then [(term, 1%Q)]
  else if abs_at g s then [(term, 1%Q)]
  else
    let ns := padd s a in
    if negb (in_states g ns) then [(s, 1%Q)]
    else if wall_at g ns then [(s, 1%Q)]
    else if pos_eqb ns s then [(s, 1%Q)]
    else if negb (Qeq_bool (g_p g) 1) then [(s, (1 - g_p g)%Q); (ns, g_p g)]
    else [(ns, 1%Q)].

Definition gw_reward (g : gwp) (s a ns : pos) : Q :=
  if gw_is_absorbing s || gw_is_absorbing ns then 0%Q
  else (feat_reward g ns + g_step g)%Q.

Definition gw_init_states (g : gwp) : list pos := filter (init_at g) (grid_states g).

(* UniformDistribution(initial_states) *)
Definition gw_init (g : gwp) : list (pos * Q) :=
  let l := gw_init_states g in
  map (fun s => (s, (1 # Pos.of_nat (length l))%Q)) l.

(* probability a distribution (association list, keys possibly repeated) gives to x *)
Fixpoint dprob (d : list (pos * Q)) (x : pos) : Q :=
  match d with
  | [] => 0%Q
  | (k, p) :: t => ((if pos_eqb k x then p else 0) + dprob t x)%Q
  end.
Fixpoint dmass (d : list (pos * Q)) : Q :=
  match d with [] => 0%Q | (_, p) :: t => (p + dmass t)%Q end.

(* everything the correspondence harness compares, in one value *)
Definition qz (q : Q) : Z * Z := let r := Qred q in (Qnum r, Zpos (Qden r)).
Definition gw_dump (g : gwp) :=
  ( gw_states g,
    map (fun s => (gw_is_absorbing s,
           map (fun a => map (fun nsp => (fst nsp, qz (snd nsp), qz (gw_reward g s a (fst nsp))))
                             (gw_next g s a)) gw_actions))
        (gw_states g),
    map (fun sp => (fst sp, qz (snd sp))) (gw_init g),
    (filter (wall_at g) (grid_states g), filter (abs_at g) (grid_states g)) ).
