(* PolicyEvalTransfer.v — C02: what vm_compute evaluates on Q (checkers c02_disc / c02_undisc, the
   policy-table plumbing restrict / to_tab, the exact certificates fixpolb / occfixb) is the
   real-valued function the theorems of PolicyEvalTheory.v / PolicyEvalUndisc.v are about. *)
From Coq Require Import QArith Qreals Reals List Bool.
From Param Require Import Param.
From MSDM Require Import base.Num base.NumInst base.Transfer model.MDP model.VI model.PolicyEval
     theory.VITransfer.
Import ListNotations.

Parametricity Recursive ext.
Parametricity Recursive mk_eout.
Parametricity Recursive restrict.
Parametricity Recursive to_tab.
Parametricity Recursive c02_disc.
Parametricity Recursive c02_undisc.
Parametricity Recursive fixpolb.
Parametricity Recursive occfixb.
Parametricity Recursive c02_tau.

Definition extmap {A B} (f : A -> B) (x : ext A) : ext B :=
  match x with Fin v => Fin (f v) | NInf => NInf | PInf => PInf | NaN => NaN end.

Lemma ext_R_map (x : ext Q) : ext_R Q R QR x (extmap Q2R x).
Proof. destruct x; constructor. reflexivity. Qed.
Lemma list_R_ext1 (l : list (ext Q)) : list_R _ _ (ext_R Q R QR) l (map (extmap Q2R) l).
Proof. apply list_R_map. intros a. apply ext_R_map. Qed.
Lemma list_R_ext2 (l : list (list (ext Q))) :
  list_R _ _ (list_R _ _ (ext_R Q R QR)) l (map2 (extmap Q2R) l).
Proof. apply list_R_map. intros a. apply list_R_ext1. Qed.

Definition etolsR (t : @etols Q) : @etols R :=
  mkETols (Q2R (tolV t)) (Q2R (tolQ t)) (Q2R (tolO t)) (Q2R (tolI t)) (Q2R (tolJ t)).

Section Transfer.
Variables (nS nA : nat) (P Rw : list (list (list Q))) (av : list (list bool)) (ab : list bool)
          (ini : list Q) (g : Q) (psl pal : list nat) (data : list (list Q)).

Definition mQ : mdp Q := mk_mdp nS nA P Rw av ab ini g.
Definition piQ : nat -> nat -> Q := @restrict Q NumQ psl pal data.
Definition mR : mdp R := mk_mdp nS nA (map3 Q2R P) (map3 Q2R Rw) av ab (map Q2R ini) (Q2R g).
Definition piR : nat -> nat -> R := @restrict R NumR psl pal (map2 Q2R data).
Definition eoR (V : list (ext Q)) (Qv : list (list (ext Q))) (Oc : list (ext Q)) (iv : ext Q) : @evalout R :=
  mk_eout (map (extmap Q2R) V) (map2 (extmap Q2R) Qv) (map (extmap Q2R) Oc) (extmap Q2R iv).

Lemma mdp_rel : mdp_R Q R QR mQ mR.
Proof.
  apply (mk_mdp_R Q R QR NumQ NumR NumQR); try apply nat_R_refl;
    auto using list_R_map1, list_R_map2, list_R_map3, list_R_bool_refl, list_R_bool2_refl.
  reflexivity.
Qed.

Lemma pi_rel : forall s1 s2, nat_R s1 s2 -> forall a1 a2, nat_R a1 a2 -> QR (piQ s1 a1) (piR s2 a2).
Proof.
  apply (restrict_R Q R QR NumQ NumR NumQR); auto using list_R_nat_refl, list_R_map2.
Qed.

Lemma eout_rel V Qv Oc iv : evalout_R Q R QR (mk_eout V Qv Oc iv) (eoR V Qv Oc iv).
Proof.
  apply (mk_eout_R Q R QR NumQ NumR NumQR); auto using list_R_ext1, list_R_ext2, ext_R_map.
Qed.

Lemma etols_rel tl : etols_R Q R QR tl (etolsR tl).
Proof. destruct tl. constructor; reflexivity. Qed.

Theorem c02_disc_transfer V Qv Oc iv (tl : @etols Q) :
  @c02_disc Q NumQ mQ piQ (mk_eout V Qv Oc iv) tl = @c02_disc R NumR mR piR (eoR V Qv Oc iv) (etolsR tl).
Proof.
  apply list_R_bool_eq.
  apply (c02_disc_R Q R QR NumQ NumR NumQR); auto using mdp_rel, pi_rel, eout_rel, etols_rel.
Qed.

Theorem c02_undisc_transfer V Qv Oc iv (tl : @etols Q) :
  @c02_undisc Q NumQ mQ piQ (mk_eout V Qv Oc iv) tl = @c02_undisc R NumR mR piR (eoR V Qv Oc iv) (etolsR tl).
Proof.
  apply list_R_bool_eq.
  apply (c02_undisc_R Q R QR NumQ NumR NumQR); auto using mdp_rel, pi_rel, eout_rel, etols_rel.
Qed.

Theorem fixpolb_transfer (V : list Q) :
  @fixpolb Q NumQ mQ piQ V = @fixpolb R NumR mR piR (map Q2R V).
Proof.
  apply bool_R_inv.
  apply (fixpolb_R Q R QR NumQ NumR NumQR); auto using mdp_rel, pi_rel, list_R_map1.
Qed.

Theorem occfixb_transfer (Oc : list Q) :
  @occfixb Q NumQ mQ piQ Oc = @occfixb R NumR mR piR (map Q2R Oc).
Proof.
  apply bool_R_inv.
  apply (occfixb_R Q R QR NumQ NumR NumQR); auto using mdp_rel, pi_rel, list_R_map1.
Qed.

Theorem c02_tau_transfer (tau : list Q) :
  @c02_tau Q NumQ mQ piQ tau = @c02_tau R NumR mR piR (map Q2R tau).
Proof.
  apply bool_R_inv.
  apply (c02_tau_R Q R QR NumQ NumR NumQR); auto using mdp_rel, pi_rel, list_R_map1.
Qed.

(* Policy.to_tabular's model commutes with the embedding too (the functional-policy route
   hands the checker  restrict psl pal (to_tab psl' pal' dist)) *)
Theorem to_tab_transfer (psl' pal' : list nat) (dl : list (list (nat * Q))) :
  list_R _ _ (list_R Q R QR)
    (@to_tab Q NumQ psl' pal' (fun s => nth s dl []))
    (@to_tab R NumR psl' pal' (fun s => nth s (map (map (fun p => (fst p, Q2R (snd p)))) dl) [])).
Proof.
  apply (to_tab_R Q R QR NumQ NumR NumQR); auto using list_R_nat_refl.
  intros s1 s2 Hs. apply nat_R_eq in Hs. subst s2.
  revert s1. induction dl as [|row dl' IH]; intros s1.
  - destruct s1; constructor.
  - destruct s1; simpl; [|apply IH].
    induction row as [|[a p] row IHr]; simpl; constructor; auto.
    constructor; [apply nat_R_refl|reflexivity].
Qed.

End Transfer.
Print Assumptions c02_disc_transfer.
