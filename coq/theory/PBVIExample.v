(* PBVIExample.v — non-vacuity for C08: a concrete 3-state, 2-action, 2-observation POMDP (noisy
   observations, one absorbing state whose self-loop pays 5 and must be ignored, gamma = 1/2) on which
   the boolean hypotheses hold, the mirror accepts a slightly perturbed alpha-vector list, the table
   check accepts a slightly perturbed Q table against the exact optimum V* = (1, 2, 0), and W* exists. *)
From Coq Require Import QArith Qreals Reals Lra Lia List Bool.
From Bignums Require Import BigQ.
From MSDM Require Import base.Num base.NumInst base.NumR base.Transfer model.MDP model.POMDP model.PBVI
     theory.Bellman theory.PBVITheory theory.PBVITransfer theory.PBVIMain.
Import ListNotations.
Local Open Scope Q_scope.

Definition exP : list (list (list Q)) :=
  [ [[0; 1#2; 1#2]; [1; 0; 0]]; [[0; 0; 1]; [1; 0; 0]]; [[0; 0; 1]; [0; 0; 1]] ].
Definition exR : list (list (list Q)) :=
  [ [[0; 1; 0]; [0; 0; 0]]; [[0; 0; 2]; [0; 0; 0]]; [[0; 0; 5]; [0; 0; 5]] ].
Definition exO : list (list (list Q)) :=
  [ [[3#4; 1#4]; [1#4; 3#4]; [1#2; 1#2]]; [[3#4; 1#4]; [1#4; 3#4]; [1#2; 1#2]] ].
Definition exAb := [false; false; true].
Definition exIni : list Q := [1#2; 1#2; 0].
Definition exB : list (list Q) := [[1#2; 1#2; 0]; [1#4; 3#4; 0]; [0; 0; 1]].
Definition exG : list (list Q) := [[1 + (1#10000000000); 2; 0]; [1; 2; 0]; [1; 2 - (1#10000000000); 0]].
Definition exVs : list Q := [1; 2; 0].
Definition exQt : list (list Q) := [[1; (1#2) + (1#1000000)]; [2; 1#2]; [0; 0]].
Definition b1 := map BigQ.of_Q.
Definition b2 := map b1.
Definition b3 := map b2.

Example ex_wfB : @wfpomdpb bigQ NumB (pB 3 2 2 exAb (b3 exP) (b3 exR) (b1 exIni) (BigQ.of_Q (1#2)) (b3 exO)) = true.
Proof. vm_compute. reflexivity. Qed.
Example ex_mirror :
  @mirror_cmp bigQ NumB (pB 3 2 2 exAb (b3 exP) (b3 exR) (b1 exIni) (BigQ.of_Q (1#2)) (b3 exO))
     6 (BigQ.of_Q (1#1000000000)) (BigQ.of_Q (1#100)) (b2 exB) (b2 exG) (BigQ.of_Q (1#1000000000))
  = (2%nat, true, true).
Proof. vm_compute. reflexivity. Qed.

Example ex_wfQ : @wfpomdpb Q NumQ (pQ 3 2 2 exAb exP exR exIni (1#2) exO) = true.
Proof. vm_compute. reflexivity. Qed.
Example ex_qtable : @chk_qtableF Q NumQ (pQ 3 2 2 exAb exP exR exIni (1#2) exO) (1#100000) exVs exQt = true.
Proof. vm_compute. reflexivity. Qed.

(* the hypotheses of the R-level theorems are met and the optimum they speak about exists *)
Example ex_wfp :
  let p := pQR 3 2 2 exAb exP exR exIni (1#2) exO in wfp p (tO_tab p) (rM_tab p).
Proof.
  cbv zeta. apply wfpomdpb_wfp_tab. unfold pQR.
  rewrite <- (t_wf Q QR NumQ NumQR Q2R QR_refl). exact ex_wfQ.
Qed.
Example ex_Wstar :
  let p := pQR 3 2 2 exAb exP exR exIni (1#2) exO in
  exists Ws, is_Wstar p (tO_tab p) (rM_tab p) (rmaxabs p (rM_tab p)) (untab (map Q2R exIni)) Ws.
Proof.
  cbv zeta. pose proof ex_wfp as W. cbv zeta in W.
  destruct (rmaxabs_bound _ (rM_tab (pQR 3 2 2 exAb exP exR exIni (1#2) exO)) (wp_nA _ _ _ W)) as [H0 Hb].
  apply Wstar_exists; auto.
  intros s Hs. change (s < 3)%nat in Hs. unfold untab.
  destruct s as [|[|[|s]]]; cbn [map nth exIni]; unfold Q2R; simpl; try lra. lia.
Qed.
