(* MultichainTheory.v — C16: soundness of the certificate checkers of model/Multichain.v on the
   R instance, for every finite MDP (any nS, nA) without action-less states.

   Undiscounted: induction on the horizon T, no ergodic theory.  For EVERY history-dependent
   randomised policy the T-step expected total reward satisfies
        J_T(s) <= T*(g s + d) + w s - E[w(s_T)]         (dual certificate  => upper bound)
   and for every policy supported in the returned policy's support
        J_T(s) >= T*(g s - d) + h s - E[h(s_T)]         (tightness along pi => attainment)
   so that g is the optimal long-run average reward up to the slacks, with explicit O(1/T) error.
   Discounted: Bellman residual => sup-norm distance to the optimal values (theory/Bellman.v). *)
From Coq Require Import Reals Lra Lia List Arith Bool.
From MSDM Require Import base.Num base.NumInst base.NumR model.MDP model.VI model.Multichain
     theory.Bellman theory.VITheory.
Import ListNotations.
Local Open Scope R_scope.

(* ---------- averages under a probability vector ---------- *)
Lemma pavg_le n (p x : nat -> R) C :
  (forall a, (a < n)%nat -> 0 <= p a) -> sumf n p = 1 ->
  (forall a, (a < n)%nat -> 0 < p a -> x a <= C) ->
  sumf n (fun a => p a * x a) <= C.
Proof.
  intros Hp Hs Hx.
  apply Rle_trans with (sumf n (fun a => p a * C)).
  - apply sumf_le. intros a Ha. cbv beta.
    destruct (Rle_lt_or_eq_dec 0 (p a) (Hp a Ha)) as [Hpos|Hz].
    + apply Rmult_le_compat_l; [lra|auto].
    + rewrite <- Hz. lra.
  - rewrite sumf_scal_r, Hs. lra.
Qed.
Lemma pavg_ge n (p x : nat -> R) C :
  (forall a, (a < n)%nat -> 0 <= p a) -> sumf n p = 1 ->
  (forall a, (a < n)%nat -> 0 < p a -> C <= x a) ->
  C <= sumf n (fun a => p a * x a).
Proof.
  intros Hp Hs Hx.
  apply Rle_trans with (sumf n (fun a => p a * C)).
  - rewrite sumf_scal_r, Hs. lra.
  - apply sumf_le. intros a Ha. cbv beta.
    destruct (Rle_lt_or_eq_dec 0 (p a) (Hp a Ha)) as [Hpos|Hz].
    + apply Rmult_le_compat_l; [lra|auto].
    + rewrite <- Hz. lra.
Qed.
Lemma wsum_abs_bound n (w x : nat -> R) d :
  (forall i, (i < n)%nat -> 0 <= w i) -> (forall i, (i < n)%nat -> Rabs (x i) <= d) ->
  Rabs (sumf n (fun i => w i * x i)) <= sumf n w * d.
Proof.
  intros Hw Hx. apply Rabs_le. split.
  - replace (- (sumf n w * d)) with (sumf n w * - d) by lra.
    apply wsum_ge_min; auto. intros i Hi. specialize (Hx i Hi). apply Rabs_le_inv' in Hx. lra.
  - apply wsum_le_max; auto. intros i Hi. specialize (Hx i Hi). apply Rabs_le_inv' in Hx. lra.
Qed.

Section MC.
Variable m : mdp R.

(* the absorbing-masked dynamics are sub-stochastic, and every state has an action *)
Record wfa : Prop := {
  wa_nn : forall s a ns, (s < nS m)%nat -> (a < nA m)%nat -> (ns < nS m)%nat -> 0 <= Pa m s a ns;
  wa_sub : forall s a, (s < nS m)%nat -> (a < nA m)%nat -> sumf (nS m) (Pa m s a) <= 1;
  wa_act : forall s, (s < nS m)%nat -> exists a, (a < nA m)%nat /\ avail m s a = true
}.

Lemma wfb_wfa : wfb m = true -> wfa.
Proof.
  unfold wfb. rewrite !andb_true_iff, forallbn_spec. intros [[G0 G1] H].
  assert (HP : forall s a ns, (s < nS m)%nat -> (a < nA m)%nat -> (ns < nS m)%nat -> 0 <= P m s a ns).
  { intros s a ns Hs Ha Hns. specialize (H s Hs). apply andb_true_iff in H as [_ H].
    rewrite forallbn_spec in H. specialize (H a Ha). apply andb_true_iff in H as [H _].
    rewrite forallbn_spec in H. apply nleb_Rle. apply H; auto. }
  constructor.
  - intros s a ns Hs Ha Hns. unfold Pa. destruct (absorbing m s); [numR; lra|auto].
  - intros s a Hs Ha. unfold Pa. destruct (absorbing m s).
    + rewrite sumf_0; [lra|auto].
    + specialize (H s Hs). apply andb_true_iff in H as [_ H].
      rewrite forallbn_spec in H. specialize (H a Ha). apply andb_true_iff in H as [_ H].
      destruct (avail m s a).
      * apply neqb_Req in H. numR. change (sumf (nS m) (P m s a) <= 1). rewrite H. lra.
      * rewrite forallbn_spec in H. rewrite sumf_0; [lra|]. intros ns Hns. apply neqb_Req. auto.
  - intros s Hs. specialize (H s Hs). apply andb_true_iff in H as [H _].
    apply existsb_seq in H. exact H.
Qed.

(* history-dependent randomised policies over available actions *)
Record wfh (pol : @hpolicy R) : Prop := {
  wh_nn : forall hist s a, (s < nS m)%nat -> (a < nA m)%nat -> 0 <= pol hist s a;
  wh_sum : forall hist s, (s < nS m)%nat -> sumf (nA m) (pol hist s) = 1;
  wh_av : forall hist s a, (s < nS m)%nat -> (a < nA m)%nat -> avail m s a = false -> pol hist s a = 0
}.

(* pol only plays actions the matrix pi gives positive probability *)
Definition supported (pol : @hpolicy R) (pi : nat -> nat -> R) : Prop :=
  forall hist s a, (s < nS m)%nat -> (a < nA m)%nat -> 0 < pol hist s a -> 0 < pi s a.

Lemma Jn_S pol k hist s :
  Jn m pol (S k) hist s =
  sumf (nA m) (fun a => pol hist s a *
     (Ra m s a + sumf (nS m) (fun ns => Pa m s a ns * Jn m pol k ((s, a) :: hist) ns))).
Proof. reflexivity. Qed.
Lemma En_S pol k f hist s :
  En m pol (S k) f hist s =
  sumf (nA m) (fun a => pol hist s a *
     sumf (nS m) (fun ns => Pa m s a ns * En m pol k f ((s, a) :: hist) ns)).
Proof. reflexivity. Qed.
Lemma Ex_R f s a : Ex m f s a = sumf (nS m) (fun ns => Pa m s a ns * f ns).
Proof. reflexivity. Qed.

(* sum_ns P(s,a,ns) * (c*(g ns + e) + w ns) = c * P_a g + c*e*rowsum + P_a w *)
Lemma Ex_affine s a c e (g w : nat -> R) :
  sumf (nS m) (fun ns => Pa m s a ns * (c * (g ns + e) + w ns)) =
  c * Ex m g s a + c * e * sumf (nS m) (Pa m s a) + Ex m w s a.
Proof.
  rewrite !Ex_R. rewrite <- (sumf_scal _ c), <- (sumf_scal _ (c * e)), <- !sumf_plus.
  apply sumf_ext. intros ns _. lra.
Qed.

(* |E f(s_k)| <= sup |f| : the k-step kernel is sub-stochastic *)
Lemma En_bound pol f W :
  wfa -> wfh pol -> 0 <= W -> (forall s, (s < nS m)%nat -> Rabs (f s) <= W) ->
  forall k hist s, (s < nS m)%nat -> Rabs (En m pol k f hist s) <= W.
Proof.
  intros Wa Wh HW Hf. induction k; intros hist s Hs; [apply Hf; auto|].
  rewrite En_S.
  eapply Rle_trans.
  - apply wsum_abs_bound with (d := W).
    + intros a Ha. apply (wh_nn _ Wh); auto.
    + intros a Ha. eapply Rle_trans.
      * apply wsum_abs_bound with (d := W).
        -- intros ns Hns. apply (wa_nn Wa); auto.
        -- intros ns Hns. apply IHk; auto.
      * pose proof (wa_sub Wa s a Hs Ha). nra.
  - rewrite (wh_sum _ Wh hist s Hs). lra.
Qed.

(* ---------- certificates as propositions ---------- *)
Lemma gain_cert_spec g w d s a :
  gain_cert m g w d = true -> (s < nS m)%nat -> (a < nA m)%nat -> avail m s a = true ->
  Ex m g s a <= g s /\ Ra m s a + Ex m w s a <= g s + w s + d.
Proof.
  unfold gain_cert. rewrite forallbn_spec. intros H Hs Ha Hav. specialize (H s Hs).
  rewrite forallbn_spec in H. specialize (H a Ha). rewrite Hav in H.
  apply andb_true_iff in H as [H1 H2]. apply nleb_Rle in H1. apply nleb_Rle in H2. split; assumption.
Qed.
Lemma gain_attained_cert_spec pi g h d s a :
  gain_attained_cert m pi g h d = true -> (s < nS m)%nat -> (a < nA m)%nat -> 0 < pi s a ->
  avail m s a = true /\ g s <= Ex m g s a /\ g s + h s <= Ra m s a + Ex m h s a + d.
Proof.
  unfold gain_attained_cert. rewrite forallbn_spec. intros H Hs Ha Hp. specialize (H s Hs).
  rewrite forallbn_spec in H. specialize (H a Ha).
  assert (E : @nltb R NumR n0 (pi s a) = true) by (apply nltb_R; numR; exact Hp).
  rewrite E in H. rewrite !andb_true_iff in H. destruct H as [[H0 H1] H2].
  apply nleb_Rle in H1. apply nleb_Rle in H2. repeat split; assumption.
Qed.

(* ================================================================== *)
(* 1. upper bound: no policy beats g                                   *)
(* ================================================================== *)
Theorem gain_upper g w d pol :
  wfa -> wfh pol -> 0 <= d -> gain_cert m g w d = true ->
  forall T hist s, (s < nS m)%nat ->
    Jn m pol T hist s <= INR T * (g s + d) + w s - En m pol T w hist s.
Proof.
  intros Wa Wh Hd Hc. induction T; intros hist s Hs.
  - simpl. numR. lra.
  - rewrite Jn_S, En_S, S_INR.
    cut (sumf (nA m) (fun a => pol hist s a *
           ((Ra m s a + sumf (nS m) (fun ns => Pa m s a ns * Jn m pol T ((s, a) :: hist) ns))
            + sumf (nS m) (fun ns => Pa m s a ns * En m pol T w ((s, a) :: hist) ns)))
         <= (INR T + 1) * (g s + d) + w s).
    { intros Hcut.
      assert (E : forall (x y : nat -> R),
                 sumf (nA m) (fun a => pol hist s a * (x a + y a)) =
                 sumf (nA m) (fun a => pol hist s a * x a) + sumf (nA m) (fun a => pol hist s a * y a)).
      { intros x y. rewrite <- sumf_plus. apply sumf_ext. intros; lra. }
      rewrite E in Hcut. lra. }
    apply pavg_le.
    + intros a Ha. apply (wh_nn _ Wh); auto.
    + apply (wh_sum _ Wh); auto.
    + intros a Ha Hpos.
      assert (Hav : avail m s a = true).
      { destruct (avail m s a) eqn:E; [reflexivity|].
        rewrite (wh_av _ Wh hist s a Hs Ha E) in Hpos. lra. }
      destruct (gain_cert_spec g w d s a Hc Hs Ha Hav) as [H1 H2].
      rewrite Rplus_assoc, <- sumf_plus.
      assert (Hs1 : sumf (nS m) (fun ns => Pa m s a ns * Jn m pol T ((s, a) :: hist) ns
                                          + Pa m s a ns * En m pol T w ((s, a) :: hist) ns)
                    <= sumf (nS m) (fun ns => Pa m s a ns * (INR T * (g ns + d) + w ns))).
      { apply sumf_le. intros ns Hns. specialize (IHT ((s, a) :: hist) ns Hns).
        pose proof (wa_nn Wa s a ns Hs Ha Hns) as Hp.
        rewrite <- Rmult_plus_distr_l. apply Rmult_le_compat_l; [auto|lra]. }
      rewrite Ex_affine in Hs1.
      pose proof (wa_sub Wa s a Hs Ha) as Hsub.
      pose proof (pos_INR T) as HT.
      assert (INR T * Ex m g s a <= INR T * g s) by (apply Rmult_le_compat_l; auto).
      assert (INR T * d * sumf (nS m) (Pa m s a) <= INR T * d).
      { rewrite <- (Rmult_1_r (INR T * d)) at 2. apply Rmult_le_compat_l; [nra|auto]. }
      lra.
Qed.

(* uniform constant: W bounds |w| on the states *)
Corollary gain_upper_W g w d W pol :
  wfa -> wfh pol -> 0 <= d -> gain_cert m g w d = true ->
  0 <= W -> (forall s, (s < nS m)%nat -> Rabs (w s) <= W) ->
  forall T hist s, (s < nS m)%nat -> Jn m pol T hist s <= INR T * (g s + d) + 2 * W.
Proof.
  intros Wa Wh Hd Hc HW Hw T hist s Hs.
  pose proof (gain_upper g w d pol Wa Wh Hd Hc T hist s Hs) as H.
  pose proof (En_bound pol w W Wa Wh HW Hw T hist s Hs) as HE. apply Rabs_le_inv' in HE.
  pose proof (Hw s Hs) as H1. apply Rabs_le_inv' in H1. lra.
Qed.

(* ================================================================== *)
(* 2. attainment: policies inside the returned support achieve g       *)
(* ================================================================== *)
Theorem gain_attained pi g h d pol :
  wfa -> wfh pol -> supported pol pi -> 0 <= d -> gain_attained_cert m pi g h d = true ->
  forall T hist s, (s < nS m)%nat ->
    INR T * (g s - d) + h s - En m pol T h hist s <= Jn m pol T hist s.
Proof.
  intros Wa Wh Hsup Hd Hc. induction T; intros hist s Hs.
  - simpl. numR. lra.
  - rewrite Jn_S, En_S, S_INR.
    cut ((INR T + 1) * (g s - d) + h s <=
         sumf (nA m) (fun a => pol hist s a *
           ((Ra m s a + sumf (nS m) (fun ns => Pa m s a ns * Jn m pol T ((s, a) :: hist) ns))
            + sumf (nS m) (fun ns => Pa m s a ns * En m pol T h ((s, a) :: hist) ns)))).
    { intros Hcut.
      assert (E : forall (x y : nat -> R),
                 sumf (nA m) (fun a => pol hist s a * (x a + y a)) =
                 sumf (nA m) (fun a => pol hist s a * x a) + sumf (nA m) (fun a => pol hist s a * y a)).
      { intros x y. rewrite <- sumf_plus. apply sumf_ext. intros; lra. }
      rewrite E in Hcut. lra. }
    apply pavg_ge.
    + intros a Ha. apply (wh_nn _ Wh); auto.
    + apply (wh_sum _ Wh); auto.
    + intros a Ha Hpos.
      destruct (gain_attained_cert_spec pi g h d s a Hc Hs Ha (Hsup hist s a Hs Ha Hpos))
        as (Hav & H1 & H2).
      rewrite Rplus_assoc, <- sumf_plus.
      assert (Hs1 : sumf (nS m) (fun ns => Pa m s a ns * (INR T * (g ns + - d) + h ns))
                    <= sumf (nS m) (fun ns => Pa m s a ns * Jn m pol T ((s, a) :: hist) ns
                                          + Pa m s a ns * En m pol T h ((s, a) :: hist) ns)).
      { apply sumf_le. intros ns Hns. specialize (IHT ((s, a) :: hist) ns Hns).
        pose proof (wa_nn Wa s a ns Hs Ha Hns) as Hp.
        rewrite <- Rmult_plus_distr_l. apply Rmult_le_compat_l; [auto|lra]. }
      rewrite Ex_affine in Hs1.
      pose proof (wa_sub Wa s a Hs Ha) as Hsub.
      pose proof (pos_INR T) as HT.
      assert (INR T * g s <= INR T * Ex m g s a) by (apply Rmult_le_compat_l; auto).
      assert (INR T * d * sumf (nS m) (Pa m s a) <= INR T * d).
      { rewrite <- (Rmult_1_r (INR T * d)) at 2. apply Rmult_le_compat_l; [nra|auto]. }
      lra.
Qed.

Corollary gain_attained_W pi g h d W pol :
  wfa -> wfh pol -> supported pol pi -> 0 <= d -> gain_attained_cert m pi g h d = true ->
  0 <= W -> (forall s, (s < nS m)%nat -> Rabs (h s) <= W) ->
  forall T hist s, (s < nS m)%nat -> INR T * (g s - d) - 2 * W <= Jn m pol T hist s.
Proof.
  intros Wa Wh Hsup Hd Hc HW Hh T hist s Hs.
  pose proof (gain_attained pi g h d pol Wa Wh Hsup Hd Hc T hist s Hs) as H.
  pose proof (En_bound pol h W Wa Wh HW Hh T hist s Hs) as HE. apply Rabs_le_inv' in HE.
  pose proof (Hh s Hs) as H1. apply Rabs_le_inv' in H1. lra.
Qed.

(* the same for ONE stationary randomised policy whose evaluation equations hold in aggregate
   (exact evaluation of a mixed policy gives exactly this, with d = 0) *)
Lemma gain_attained_agg_spec pi g h d s :
  gain_attained_agg m pi g h d = true -> (s < nS m)%nat ->
  g s <= sumf (nA m) (fun a => pi s a * Ex m g s a) /\
  g s + h s <= sumf (nA m) (fun a => pi s a * (Ra m s a + Ex m h s a)) + d.
Proof.
  unfold gain_attained_agg. rewrite forallbn_spec. intros H Hs. specialize (H s Hs).
  apply andb_true_iff in H as [H1 H2]. apply nleb_Rle in H1. apply nleb_Rle in H2. split; assumption.
Qed.

Theorem gain_attained_stationary pi g h d :
  wfa -> wfh (stationary pi) -> 0 <= d -> gain_attained_agg m pi g h d = true ->
  forall T hist s, (s < nS m)%nat ->
    INR T * (g s - d) + h s - En m (stationary pi) T h hist s <= Jn m (stationary pi) T hist s.
Proof.
  intros Wa Wh Hd Hc. induction T; intros hist s Hs.
  - simpl. numR. lra.
  - rewrite Jn_S, En_S, S_INR. unfold stationary at 1 3.
    destruct (gain_attained_agg_spec pi g h d s Hc Hs) as [H1 H2].
    pose proof (pos_INR T) as HT.
    assert (Hnn : forall a, (a < nA m)%nat -> 0 <= pi s a) by (intros a Ha; apply (wh_nn _ Wh [] s a Hs Ha)).
    assert (Hsum : sumf (nA m) (pi s) = 1) by (apply (wh_sum _ Wh [] s Hs)).
    set (X := fun a => (Ra m s a + Ex m h s a) + INR T * Ex m g s a + - (INR T * d)).
    (* per action: X a <= (r + P J) + P E *)
    assert (HX : sumf (nA m) (fun a => pi s a * X a) <=
                 sumf (nA m) (fun a => pi s a *
                   ((Ra m s a + sumf (nS m) (fun ns => Pa m s a ns * Jn m (stationary pi) T ((s, a) :: hist) ns))
                    + sumf (nS m) (fun ns => Pa m s a ns * En m (stationary pi) T h ((s, a) :: hist) ns)))).
    { apply sumf_le. intros a Ha. cbv beta. apply Rmult_le_compat_l; [auto|].
      rewrite Rplus_assoc, <- sumf_plus.
      assert (Hs1 : sumf (nS m) (fun ns => Pa m s a ns * (INR T * (g ns + - d) + h ns))
                    <= sumf (nS m) (fun ns => Pa m s a ns * Jn m (stationary pi) T ((s, a) :: hist) ns
                                          + Pa m s a ns * En m (stationary pi) T h ((s, a) :: hist) ns)).
      { apply sumf_le. intros ns Hns. specialize (IHT ((s, a) :: hist) ns Hns).
        pose proof (wa_nn Wa s a ns Hs Ha Hns) as Hp.
        rewrite <- Rmult_plus_distr_l. apply Rmult_le_compat_l; [auto|lra]. }
      rewrite Ex_affine in Hs1.
      pose proof (wa_sub Wa s a Hs Ha) as Hsub.
      assert (INR T * d * sumf (nS m) (Pa m s a) <= INR T * d).
      { rewrite <- (Rmult_1_r (INR T * d)) at 2. apply Rmult_le_compat_l; [nra|auto]. }
      unfold X. lra. }
    (* sum_a pi_a X_a in closed form *)
    assert (HE : sumf (nA m) (fun a => pi s a * X a) =
                 sumf (nA m) (fun a => pi s a * (Ra m s a + Ex m h s a))
                 + INR T * sumf (nA m) (fun a => pi s a * Ex m g s a) - INR T * d).
    { unfold X.
      rewrite (sumf_ext _ _ (fun a => (pi s a * (Ra m s a + Ex m h s a) + INR T * (pi s a * Ex m g s a))
                                      - pi s a * (INR T * d))) by (intros a _; lra).
      rewrite sumf_minus, sumf_plus, sumf_scal, sumf_scal_r, Hsum. lra. }
    assert (E : forall (x y : nat -> R),
               sumf (nA m) (fun a => pi s a * (x a + y a)) =
               sumf (nA m) (fun a => pi s a * x a) + sumf (nA m) (fun a => pi s a * y a)).
    { intros x y. rewrite <- sumf_plus. apply sumf_ext. intros; lra. }
    rewrite E in HX.
    assert (INR T * g s <= INR T * sumf (nA m) (fun a => pi s a * Ex m g s a))
      by (apply Rmult_le_compat_l; auto).
    lra.
Qed.

(* limit forms: for every eps > 0 the averages are eventually within eps *)
Lemma eventually_small C eps : 0 < eps -> exists T0 : nat, forall T, (T0 <= T)%nat -> C <= INR T * eps.
Proof.
  intros He. destruct (archimed (C / eps)) as [Hup _].
  exists (Z.to_nat (up (C / eps))). intros T HT.
  assert (H1 : C / eps <= INR T).
  { apply le_INR in HT. rewrite INR_IZR_INZ in HT.
    destruct (Z_le_gt_dec 0 (up (C / eps))) as [Hz|Hz].
    - rewrite Z2Nat.id in HT by exact Hz. lra.
    - apply Z.gt_lt in Hz. apply IZR_lt in Hz. pose proof (pos_INR T). lra. }
  apply Rmult_le_compat_r with (r := eps) in H1; [|lra].
  unfold Rdiv in H1. rewrite Rmult_assoc, Rinv_l in H1; lra.
Qed.

(* ================================================================== *)
(* 3. the idealised returned policy: exactly uniform on its support    *)
(* ================================================================== *)
Variable o : @mcout R.

Definition upol : nat -> nat -> R := upolT m (opi o).

Lemma upol_unfold s a :
  (0 < pcount m (opi o) s)%nat ->
  upol s a = if psupp (opi o) s a then 1 / INR (pcount m (opi o) s) else 0.
Proof.
  intros Hc. unfold upol, upolT. destruct (psupp (opi o) s a); [|reflexivity].
  numR. rewrite nofnat_R. apply Rdivg_nz. apply lt_0_INR in Hc. lra.
Qed.

Lemma psupp_pos s a : psupp (opi o) s a = true <-> 0 < opi o s a.
Proof. unfold psupp. rewrite nltb_R. numR. tauto. Qed.

Lemma c_dist_spec tol s :
  c_dist m (opi o) tol = true -> (s < nS m)%nat ->
  (0 < pcount m (opi o) s)%nat /\
  forall a, (a < nA m)%nat ->
    (psupp (opi o) s a = true -> Rabs (opi o s a * INR (pcount m (opi o) s) - 1) <= tol) /\
    (psupp (opi o) s a = false -> opi o s a = 0).
Proof.
  unfold c_dist. rewrite forallbn_spec. intros H Hs. specialize (H s Hs).
  apply andb_true_iff in H as [H0 H]. apply Nat.ltb_lt in H0. split; [exact H0|].
  rewrite forallbn_spec in H. intros a Ha. specialize (H a Ha).
  destruct (psupp (opi o) s a); split; try discriminate; intros _.
  - apply ncloseb_R in H. rewrite nofnat_R in H. exact H.
  - now apply neqb_Req in H.
Qed.

Lemma upol_pos s a : 0 < upol s a -> 0 < opi o s a.
Proof.
  unfold upol, upolT. destruct (psupp (opi o) s a) eqn:E; [intros _; now apply psupp_pos|numR; lra].
Qed.

(* on R: availability of the support implies the stationary idealised policy is well-formed *)
Lemma upol_wfh tol :
  c_dist m (opi o) tol = true ->
  (forall s a, (s < nS m)%nat -> (a < nA m)%nat -> 0 < opi o s a -> avail m s a = true) ->
  wfh (stationary upol).
Proof.
  intros Hd Hav. constructor; unfold stationary.
  - intros _ s a Hs Ha. destruct (c_dist_spec tol s Hd Hs) as [Hc _].
    rewrite (upol_unfold s a Hc). destruct (psupp (opi o) s a); [|lra].
    apply lt_0_INR in Hc. apply Rlt_le. apply Rdiv_lt_0_compat; lra.
  - intros _ s Hs. destruct (c_dist_spec tol s Hd Hs) as [Hc _].
    rewrite (sumf_ext _ _ (fun a => if psupp (opi o) s a then 1 / INR (pcount m (opi o) s) else 0))
      by (intros a _; apply upol_unfold; exact Hc).
    rewrite (sumf_indicator (nA m) (psupp (opi o) s)).
    apply lt_0_INR in Hc. unfold pcount in *. field. lra.
  - intros _ s a Hs Ha Hna. unfold upol, upolT. destruct (psupp (opi o) s a) eqn:E; [|reflexivity].
    apply psupp_pos in E. rewrite (Hav s a Hs Ha E) in Hna. discriminate.
Qed.

Lemma upol_supported : supported (stationary upol) (opi o).
Proof. intros hist s a Hs Ha Hp. now apply upol_pos. Qed.

(* ================================================================== *)
(* 4. the undiscounted checker: g is the optimal gain, pi attains it   *)
(* ================================================================== *)
Variable c : @gcert R.

Definition gain_all_true : list bool := [true; true; true; true; true; true; true].

Section Undiscounted.
Hypothesis Hchk : c16_gain_check m o c = gain_all_true.

Lemma gclauses :
  wfb m = true /\ gamma m = 1 /\ gain_cert m (cg c) (cw c) (d_up c) = true /\
  (gain_attained_agg m upol (cg c) (ch c) (d_lo c) = true /\ c_avail m (opi o) = true) /\
  c_close m (c_gtol c) (og o) (cg c) = true /\ c_dist m (opi o) (c_ptol c) = true /\
  c_initv m (c_itol c) (oig o) (og o) = true /\ c_initv m (c_itol c) (oiv o) (oh o) = true.
Proof.
  pose proof Hchk as H. unfold c16_gain_check, gain_all_true in H.
  injection H as H1 H2 H3 H4 H5 H6 H7.
  apply andb_true_iff in H7 as [H7 H8]. apply andb_true_iff in H4 as [H4 H4'].
  apply neqb_Req in H2. repeat split; try assumption.
Qed.

Lemma c_close_spec tol x y s :
  c_close m tol x y = true -> (s < nS m)%nat -> Rabs (x s - y s) <= tol.
Proof. unfold c_close. rewrite forallbn_spec. intros H Hs. apply ncloseb_R. auto. Qed.

Theorem mcpi_gain_policy_available s a :
  (s < nS m)%nat -> (a < nA m)%nat -> 0 < opi o s a -> avail m s a = true.
Proof.
  intros Hs Ha Hp. destruct gclauses as (_ & _ & _ & (_ & H) & _).
  unfold c_avail in H. rewrite forallbn_spec in H. specialize (H s Hs).
  rewrite forallbn_spec in H. specialize (H a Ha). apply psupp_pos in Hp. now rewrite Hp in H.
Qed.

Lemma upol_ok : wfh (stationary upol).
Proof.
  destruct gclauses as (_ & _ & _ & _ & _ & Hd & _).
  apply (upol_wfh _ Hd). intros; eapply mcpi_gain_policy_available; eauto.
Qed.

(* (a) every policy's T-step reward is at most T*(reported gain + slack) + constant *)
Theorem mcpi_gain_upper :
  0 <= d_up c -> 0 <= c_gtol c ->
  exists W, 0 <= W /\
    forall pol, wfh pol -> forall T hist s, (s < nS m)%nat ->
      Jn m pol T hist s <= INR T * (og o s + (c_gtol c + d_up c)) + W.
Proof.
  intros Hd Hg. destruct gclauses as (Hwf & _ & Hc & _ & Hcl & _).
  destruct (finite_sup (nS m) (cw c)) as (W & HW0 & HWle & _).
  exists (2 * W). split; [lra|]. intros pol Wh T hist s Hs.
  pose proof (gain_upper_W _ _ _ W pol (wfb_wfa Hwf) Wh Hd Hc HW0 HWle T hist s Hs) as H.
  pose proof (c_close_spec _ _ _ s Hcl Hs) as Hx. apply Rabs_le_inv' in Hx.
  pose proof (pos_INR T) as HT.
  assert (INR T * (cg c s + d_up c) <= INR T * (og o s + (c_gtol c + d_up c)))
    by (apply Rmult_le_compat_l; lra).
  lra.
Qed.

(* (b) the returned policy evaluated exactly (uniform on its support) collects at least
       T*(reported gain - slack) - constant *)
Theorem mcpi_gain_attained :
  0 <= d_lo c -> 0 <= c_gtol c ->
  exists W, 0 <= W /\
    forall T hist s, (s < nS m)%nat ->
      INR T * (og o s - (c_gtol c + d_lo c)) - W <= Jn m (stationary upol) T hist s.
Proof.
  intros Hd Hg. destruct gclauses as (Hwf & _ & _ & (Hc & _) & Hcl & _).
  destruct (finite_sup (nS m) (ch c)) as (W & HW0 & HWle & _).
  exists (2 * W). split; [lra|]. intros T hist s Hs.
  pose proof (gain_attained_stationary _ _ _ _ (wfb_wfa Hwf) upol_ok Hd Hc T hist s Hs) as H.
  pose proof (En_bound _ (ch c) W (wfb_wfa Hwf) upol_ok HW0 HWle T hist s Hs) as HE.
  apply Rabs_le_inv' in HE.
  pose proof (HWle s Hs) as H1. apply Rabs_le_inv' in H1.
  pose proof (c_close_spec _ _ _ s Hcl Hs) as Hx. apply Rabs_le_inv' in Hx.
  pose proof (pos_INR T) as HT.
  assert (INR T * (og o s - (c_gtol c + d_lo c)) <= INR T * (cg c s - d_lo c))
    by (apply Rmult_le_compat_l; lra).
  lra.
Qed.

(* (b') stronger, when additionally every action of the support is gain-conserving and bias-tight
        for the REPORTED bias (c16_tight_check, evaluated but not gating): EVERY history-dependent
        policy inside the returned support attains the gain *)
Theorem mcpi_gain_attained_support d :
  c16_tight_check m o c d = true -> 0 <= d -> 0 <= c_gtol c ->
  exists W, 0 <= W /\
    forall pol, wfh pol -> supported pol (opi o) -> forall T hist s, (s < nS m)%nat ->
      INR T * (og o s - (c_gtol c + d)) - W <= Jn m pol T hist s.
Proof.
  intros Hc Hd Hg. unfold c16_tight_check in Hc. destruct gclauses as (Hwf & _ & _ & _ & Hcl & _).
  destruct (finite_sup (nS m) (oh o)) as (W & HW0 & HWle & _).
  exists (2 * W). split; [lra|]. intros pol Wh Hsup T hist s Hs.
  pose proof (gain_attained_W _ _ _ _ W pol (wfb_wfa Hwf) Wh Hsup Hd Hc HW0 HWle T hist s Hs) as H.
  pose proof (c_close_spec _ _ _ s Hcl Hs) as Hx. apply Rabs_le_inv' in Hx.
  pose proof (pos_INR T) as HT.
  assert (INR T * (og o s - (c_gtol c + d)) <= INR T * (cg c s - d))
    by (apply Rmult_le_compat_l; lra).
  lra.
Qed.

(* (c) together, as long-run averages: for every eps > 0, from some horizon on,
       every policy averages at most   gain + slack + eps   and
       the returned policy averages at least   gain - slack - eps *)
Theorem mcpi_gain_optimal eps :
  0 <= d_up c -> 0 <= d_lo c -> 0 <= c_gtol c -> 0 < eps ->
  wfh (stationary upol) /\ supported (stationary upol) (opi o) /\
  exists T0 : nat, forall T, (T0 <= T)%nat -> forall s, (s < nS m)%nat ->
    (forall pol hist, wfh pol ->
       Jn m pol T hist s <= INR T * (og o s + (c_gtol c + d_up c) + eps)) /\
    (forall hist,
       INR T * (og o s - (c_gtol c + d_lo c) - eps) <= Jn m (stationary upol) T hist s).
Proof.
  intros Hdu Hdl Hg He. split; [apply upol_ok|]. split; [apply upol_supported|].
  destruct (mcpi_gain_upper Hdu Hg) as (W1 & HW1 & Hup).
  destruct (mcpi_gain_attained Hdl Hg) as (W2 & HW2 & Hlo).
  destruct (eventually_small (W1 + W2) eps He) as (T0 & HT0).
  exists T0. intros T HT s Hs. specialize (HT0 T HT). split.
  - intros pol hist Wh. specialize (Hup pol Wh T hist s Hs). lra.
  - intros hist. specialize (Hlo T hist s Hs). lra.
Qed.

Theorem mcpi_gain_initial :
  Rabs (oig o - sumf (nS m) (fun s => init m s * og o s)) <= c_itol c /\
  Rabs (oiv o - sumf (nS m) (fun s => init m s * oh o s)) <= c_itol c.
Proof.
  destruct gclauses as (_ & _ & _ & _ & _ & _ & H1 & H2).
  unfold c_initv in *. apply ncloseb_R in H1. apply ncloseb_R in H2. split; assumption.
Qed.

(* the returned matrix is the idealised policy up to ptol / |support| *)
Theorem mcpi_gain_policy_uniform s a :
  (s < nS m)%nat -> (a < nA m)%nat ->
  (0 < opi o s a -> Rabs (opi o s a * INR (pcount m (opi o) s) - 1) <= c_ptol c) /\
  (~ 0 < opi o s a -> opi o s a = 0).
Proof.
  intros Hs Ha. destruct gclauses as (_ & _ & _ & _ & _ & Hd & _).
  destruct (c_dist_spec _ s Hd Hs) as [_ H]. specialize (H a Ha). split; intros Hp.
  - apply H. now apply psupp_pos.
  - apply H. destruct (psupp (opi o) s a) eqn:E; [|reflexivity]. apply psupp_pos in E. contradiction.
Qed.

End Undiscounted.

(* ================================================================== *)
(* 5. the discounted checker                                           *)
(* ================================================================== *)
Variable t : @dtols R.

Section Discounted.
Hypothesis Hchk : c16_disc_check m o t = gain_all_true.

Lemma dclauses :
  wfb m = true /\ gamma m < 1 /\ d_res m o (d_eps t) = true /\ d_pol m o (d_eta t) = true /\
  c_close m (d_gz t) (og o) (fun _ => 0) = true /\ c_dist m (opi o) (d_ptol t) = true /\
  c_initv m (d_itol t) (oig o) (og o) = true /\ c_initv m (d_itol t) (oiv o) (oh o) = true.
Proof.
  pose proof Hchk as H. unfold c16_disc_check, gain_all_true in H.
  injection H as H1 H2 H3 H4 H5 H6 H7.
  apply andb_true_iff in H7 as [H7 H8].
  apply nltb_R in H2. repeat split; try assumption.
Qed.

Lemma d_wf : wf m.
Proof. apply wfb_wf. apply dclauses. Qed.

Lemma d_res_spec s : (s < nS m)%nat -> Rabs (oh o s - Top m (oh o) s) <= d_eps t.
Proof.
  intros Hs. destruct dclauses as (_ & _ & H & _). unfold d_res in H.
  rewrite forallbn_spec in H. specialize (H s Hs).
  rewrite (backup_some m (oh o) s d_wf Hs) in H. now apply ncloseb_R in H.
Qed.

Lemma d_pol_spec s a :
  (s < nS m)%nat -> (a < nA m)%nat -> 0 < opi o s a ->
  avail m s a = true /\ Top m (oh o) s - d_eta t <= Qval m (oh o) s a.
Proof.
  intros Hs Ha Hp. destruct dclauses as (_ & _ & _ & H & _). unfold d_pol in H.
  rewrite forallbn_spec in H. specialize (H s Hs).
  rewrite (backup_some m (oh o) s d_wf Hs) in H. rewrite forallbn_spec in H. specialize (H a Ha).
  apply psupp_pos in Hp. rewrite Hp in H. apply andb_true_iff in H as [H1 H2].
  apply nleb_Rle in H2. numR. split; assumption.
Qed.

(* state values = THE optimal discounted values, up to the residual bound *)
Theorem mcpi_disc_values Vs :
  0 <= d_eps t -> fixpoint m Vs ->
  forall s, (s < nS m)%nat -> Rabs (oh o s - Vs s) <= d_eps t / (1 - gamma m).
Proof.
  intros He Hfix s Hs. destruct dclauses as (_ & G & _).
  apply (residual_bound m (oh o) Vs (d_eps t) d_wf G Hfix He); auto.
  intros s' Hs'. now apply d_res_spec.
Qed.

Theorem mcpi_disc_policy_available s a :
  (s < nS m)%nat -> (a < nA m)%nat -> 0 < opi o s a -> avail m s a = true.
Proof. intros Hs Ha Hp. now destruct (d_pol_spec s a Hs Ha Hp). Qed.

Definition d_loss : R := d_eta t + 2 * (gamma m * (d_eps t / (1 - gamma m))).

(* every action in the support is near-optimal for the TRUE optimal action values *)
Theorem mcpi_disc_support Vs s a :
  0 <= d_eps t -> fixpoint m Vs -> (s < nS m)%nat -> (a < nA m)%nat -> 0 < opi o s a ->
  avail m s a = true /\ Vs s - d_loss <= Qval m Vs s a.
Proof.
  intros He Hfix Hs Ha Hp. destruct (d_pol_spec s a Hs Ha Hp) as [Hav Hq]. split; [exact Hav|].
  destruct dclauses as (_ & G & _). pose proof d_wf as Wf.
  set (D := d_eps t / (1 - gamma m)).
  assert (HD0 : 0 <= D).
  { unfold D. apply Rmult_le_pos; [lra|]. left. apply Rinv_0_lt_compat. lra. }
  assert (HD : forall ns, (ns < nS m)%nat -> Rabs (oh o ns - Vs ns) <= D)
    by (intros; now apply mcpi_disc_values).
  pose proof (Qval_diff m (oh o) Vs s a D Wf Hs Ha HD HD0) as H1. apply Rabs_le_inv' in H1.
  pose proof (Top_contraction m (oh o) Vs D Wf HD0 HD s Hs) as H2. apply Rabs_le_inv' in H2.
  rewrite (Hfix s Hs). unfold d_loss. fold D. lra.
Qed.

(* exact evaluation of any stationary policy inside the returned support *)
Theorem mcpi_disc_policy_return Vs pi Vpi :
  0 <= d_eps t -> 0 <= d_eta t -> fixpoint m Vs -> wfpol m pi ->
  (forall s a, (s < nS m)%nat -> (a < nA m)%nat -> 0 < pi s a -> 0 < opi o s a) ->
  fixpol m pi Vpi ->
  forall s, (s < nS m)%nat -> Rabs (Vpi s - Vs s) <= d_loss / (1 - gamma m).
Proof.
  intros He Het Hfix Wp Hsup Hfp. destruct dclauses as (_ & G & _). pose proof d_wf as Wf.
  pose proof (wf_gamma0 m Wf) as G0.
  assert (HD0 : 0 <= d_eps t / (1 - gamma m)).
  { apply Rmult_le_pos; [lra|]. left. apply Rinv_0_lt_compat. lra. }
  apply (greedy_loss m pi Vs Vpi d_loss Wf G Wp Hfix Hfp).
  - unfold d_loss. assert (0 <= gamma m * (d_eps t / (1 - gamma m))) by (apply Rmult_le_pos; auto). lra.
  - intros s a Hs Ha Hp. apply (mcpi_disc_support Vs s a He Hfix Hs Ha (Hsup s a Hs Ha Hp)).
Qed.

(* the idealised returned policy is such a policy *)
Lemma upol_wfpol : wfpol m upol.
Proof.
  destruct dclauses as (_ & _ & _ & _ & _ & Hd & _).
  pose proof (upol_wfh _ Hd mcpi_disc_policy_available) as [H1 H2 H3].
  constructor.
  - intros s a. apply (H1 []).
  - intros s. apply (H2 []).
  - intros s a. apply (H3 []).
Qed.

Theorem mcpi_disc_returned_policy Vs Vpi :
  0 <= d_eps t -> 0 <= d_eta t -> fixpoint m Vs -> fixpol m upol Vpi ->
  forall s, (s < nS m)%nat -> Rabs (Vpi s - Vs s) <= d_loss / (1 - gamma m).
Proof.
  intros He Het Hfix Hfp.
  apply (mcpi_disc_policy_return Vs upol Vpi He Het Hfix upol_wfpol); auto.
  intros s a _ _. apply upol_pos.
Qed.

Theorem mcpi_disc_gain_zero s : (s < nS m)%nat -> Rabs (og o s) <= d_gz t.
Proof.
  intros Hs. destruct dclauses as (_ & _ & _ & _ & H & _).
  unfold c_close in H. rewrite forallbn_spec in H.
  specialize (H s Hs). apply ncloseb_R in H. numR. now rewrite Rminus_0_r in H.
Qed.

End Discounted.
End MC.
