(* RMaxTransfer.v — C17: what vm_compute evaluates on exact rationals (the certificate checker on
   msdm's output, and the mirror learner [train] on the recorded experience) is the Q2R-preimage of
   the real-valued function the theorems of RMaxTheory.v are about (parametricity translation). *)
From Coq Require Import QArith Qreals Reals List Bool.
From Param Require Import Param.
From MSDM Require Import base.Num base.NumInst base.Transfer model.RMax theory.VITransfer.
Import ListNotations.

Parametricity Recursive c17_check.
Parametricity Recursive train.
Parametricity Recursive q_close.
Parametricity Recursive bopt_fixb.

(* the real-valued data denoted by rational data *)
Definition stepQR (e : @step Q) : @step R := let '(s, a, r, ns) := e in (s, a, Q2R r, ns).
Definition epQR (ep : @episode Q) : @episode R := (map stepQR (fst ep), snd ep).
Definition learnerQR (L : learner Q) : learner R :=
  mkL (map2 Q2R (l_rw L)) (l_cnt L) (l_tr L) (map2 Q2R (l_q L)).

Lemma list_R_nat2_refl (l : list (list nat)) :
  list_R (list nat) (list nat) (list_R nat nat nat_R) l l.
Proof. induction l; constructor; auto using list_R_nat_refl. Qed.
Lemma list_R_nat3_refl (l : list (list (list nat))) :
  list_R _ _ (list_R (list nat) (list nat) (list_R nat nat nat_R)) l l.
Proof. induction l; constructor; auto using list_R_nat2_refl. Qed.

Lemma step_rel (e : @step Q) : step_R Q R QR e (stepQR e).
Proof.
  destruct e as [[[s a] r] ns]. unfold stepQR.
  repeat constructor; try apply nat_R_refl.
Qed.
Lemma steps_rel (l : list (@step Q)) : list_R _ _ (step_R Q R QR) l (map stepQR l).
Proof. apply list_R_map. apply step_rel. Qed.
Lemma episode_rel (ep : @episode Q) : episode_R Q R QR ep (epQR ep).
Proof. destruct ep as [st fin]. unfold epQR. constructor; [apply steps_rel|apply nat_R_refl]. Qed.
Lemma episodes_rel (l : list (@episode Q)) : list_R _ _ (episode_R Q R QR) l (map epQR l).
Proof. apply list_R_map. apply episode_rel. Qed.
Lemma learner_rel (L : learner Q) : learner_R Q R QR L (learnerQR L).
Proof.
  destruct L. unfold learnerQR. simpl.
  constructor; auto using list_R_map2, list_R_nat2_refl, list_R_nat3_refl.
Qed.

(* (1) the certificate checker *)
Theorem c17_check_transfer nS nA m g rmax P Rw ab ini eps O pi ut bt pt :
  @c17_check Q NumQ nS nA m g rmax P Rw ab ini eps O pi ut bt pt =
  @c17_check R NumR nS nA m (Q2R g) (Q2R rmax) (map3 Q2R P) (map3 Q2R Rw) ab (map Q2R ini)
             (map epQR eps) (learnerQR O) (map2 Q2R pi) (Q2R ut) (Q2R bt) (Q2R pt).
Proof.
  apply list_R_bool_eq.
  apply (c17_check_R Q R QR NumQ NumR NumQR); try apply nat_R_refl; try reflexivity;
    auto using list_R_map1, list_R_map2, list_R_map3, list_R_bool_refl, episodes_rel, learner_rel.
Qed.
Print Assumptions c17_check_transfer.

(* (2) the mirror learner *)
Lemma list_R_QR_inv l l' : list_R Q R QR l l' -> l' = map Q2R l.
Proof. induction 1 as [|? ? H ? ? ? IH]; simpl; [reflexivity|]. unfold QR in H. now rewrite H, IH. Qed.
Lemma list_R_QR2_inv l l' : list_R _ _ (list_R Q R QR) l l' -> l' = map2 Q2R l.
Proof.
  induction 1 as [|? ? H ? ? ? IH]; simpl; [reflexivity|].
  apply list_R_QR_inv in H. unfold map2 in *. simpl. now rewrite H, IH.
Qed.
Lemma list_R_nat_inv l l' : list_R nat nat nat_R l l' -> l' = l.
Proof. induction 1 as [|? ? H ? ? ? IH]; simpl; [reflexivity|]. apply nat_R_eq in H. now rewrite H, IH. Qed.
Lemma list_R_nat2_inv l l' : list_R _ _ (list_R nat nat nat_R) l l' -> l' = l.
Proof. induction 1 as [|? ? H ? ? ? IH]; simpl; [reflexivity|]. apply list_R_nat_inv in H. now rewrite H, IH. Qed.
Lemma list_R_nat3_inv l l' : list_R _ _ (list_R _ _ (list_R nat nat nat_R)) l l' -> l' = l.
Proof. induction 1 as [|? ? H ? ? ? IH]; simpl; [reflexivity|]. apply list_R_nat2_inv in H. now rewrite H, IH. Qed.
Lemma learner_R_inv L L' : learner_R Q R QR L L' -> L' = learnerQR L.
Proof.
  intros H. destruct H as [rw rw' Hrw cnt cnt' Hcnt tr tr' Htr q q' Hq]. unfold learnerQR. simpl.
  apply list_R_QR2_inv in Hrw, Hq. apply list_R_nat2_inv in Hcnt. apply list_R_nat3_inv in Htr.
  now subst.
Qed.

Theorem train_transfer nS nA m g rmax tol fuel exp :
  @train R NumR nS nA m (Q2R g) (Q2R rmax) (Q2R tol) fuel (map stepQR exp) =
  option_map learnerQR (@train Q NumQ nS nA m g rmax tol fuel exp).
Proof.
  pose proof (train_R Q R QR NumQ NumR NumQR nS nS (nat_R_refl nS) nA nA (nat_R_refl nA)
                m m (nat_R_refl m) g (Q2R g) eq_refl rmax (Q2R rmax) eq_refl tol (Q2R tol) eq_refl
                fuel fuel (nat_R_refl fuel) exp (map stepQR exp) (steps_rel exp)) as H.
  destruct H as [L L' HL|]; simpl; [|reflexivity].
  f_equal. now apply learner_R_inv.
Qed.
Print Assumptions train_transfer.

(* (3) the comparison the harness applies to the mirror's final q *)
Theorem q_close_transfer nS nA eps q1 q2 :
  @q_close Q NumQ nS nA eps q1 q2 = @q_close R NumR nS nA (Q2R eps) (map2 Q2R q1) (map2 Q2R q2).
Proof.
  apply bool_R_inv.
  apply (q_close_R Q R QR NumQ NumR NumQR); try apply nat_R_refl; try reflexivity;
    auto using list_R_map2.
Qed.

(* (4) the exact fixed-point test of the optimistic empirical backup (used for non-vacuity) *)
Theorem bopt_fixb_transfer nS nA m g rmax L Qs :
  @bopt_fixb Q NumQ nS nA m g rmax L Qs =
  @bopt_fixb R NumR nS nA m (Q2R g) (Q2R rmax) (learnerQR L) (map2 Q2R Qs).
Proof.
  apply bool_R_inv.
  apply (bopt_fixb_R Q R QR NumQ NumR NumQR); try apply nat_R_refl; try reflexivity;
    auto using list_R_map2, learner_rel.
Qed.

(* ------------------------------------------------------------------------------------ *)
(* End-to-end: if c17_check, as executed by vm_compute on the exact rationals of the      *)
(* implementation output, returned all-true, the clauses of the property hold over R.     *)
(* ------------------------------------------------------------------------------------ *)
From Coq Require Import Lra Lia Arith.
From MSDM Require Import base.NumR theory.RMaxTheory.
Local Open Scope R_scope.

Definition all_true6 : list bool := [true; true; true; true; true; true].

Section Main.
Variables (nS nA m : nat) (g rmax : Q) (P Rw : list (list (list Q))) (ab : list bool) (ini : list Q)
          (eps : list (@episode Q)) (O : learner Q) (pi : list (list Q)) (ut bt pt : Q).
Hypothesis Hm : (1 <= m)%nat.
Hypothesis Hg0 : 0 <= Q2R g.
Hypothesis Hg1 : Q2R g < 1.
Hypothesis Hchk : @c17_check Q NumQ nS nA m g rmax P Rw ab ini eps O pi ut bt pt = all_true6.

(* the real-valued MDP, recorded experience and learner output denoted by the rational data *)
Definition PR := map3 Q2R P.
Definition RwR := map3 Q2R Rw.
Definition iniR := map Q2R ini.
Definition epsR := map epQR eps.
Definition OR := learnerQR O.
Definition piR := map2 Q2R pi.

Lemma clauses :
  @c_valid R NumR nS nA (Q2R rmax) PR RwR ab iniR epsR = true /\
  @c_tally R NumR nS nA m (Q2R g) (Q2R rmax) epsR OR = true /\
  @c_upper R NumR nS nA (Q2R g) (Q2R rmax) OR (Q2R ut) = true /\
  @c_unknown R NumR nS nA m (Q2R g) (Q2R rmax) OR = true /\
  @c_bellman R NumR nS nA m (Q2R g) OR (Q2R bt) = true /\
  @c_policy R NumR nS nA OR piR (Q2R pt) = true.
Proof.
  pose proof Hchk as H. rewrite c17_check_transfer in H. unfold c17_check, all_true6 in H.
  unfold PR, RwR, iniR, epsR, OR, piR. inversion H as [[H1 H2 H3 H4 H5 H6]].
  repeat split; first [assumption | reflexivity | congruence].
Qed.

(* every experienced step is a real transition of the MDP with the MDP's reward; episodes start in
   the support of the initial distribution, chain, and end in an absorbing state *)
Theorem main_valid : Forall (episode_ok nS nA (Q2R rmax) PR RwR ab iniR) epsR.
Proof. apply cert_valid. apply clauses. Qed.

(* the learner's tallies hold exactly the first min(count, m) samples of each pair *)
Theorem main_tally : tally_spec nS nA m OR (experience epsR).
Proof. apply (cert_tally nS nA m (Q2R g) (Q2R rmax) Hm). apply clauses. Qed.

Theorem main_upper s a :
  (s < nS)%nat -> (a < nA)%nat -> qf OR s a <= Q2R rmax / (1 - Q2R g) + Q2R ut.
Proof. apply (cert_upper nS nA (Q2R g) (Q2R rmax) Hg1). apply clauses. Qed.

Theorem main_unknown s a :
  (s < nS)%nat -> (a < nA)%nat -> (cntf OR s a < m)%nat -> qf OR s a = Q2R rmax / (1 - Q2R g).
Proof. apply (cert_unknown nS nA m (Q2R g) (Q2R rmax) Hg1). apply clauses. Qed.

Theorem main_bellman s a :
  (s < nS)%nat -> (a < nA)%nat -> (m <= cntf OR s a)%nat ->
  let F := firstm m (experience epsR) s a in
  length F = m /\
  Rabs (qf OR s a - (rsum F / INR m
        + Q2R g * sumf nS (fun ns => INR (ncount F ns) / INR m * @vmax R NumR nA (l_q OR) ns)))
    <= Q2R bt.
Proof.
  apply (cert_bellman_explicit nS nA m (Q2R g) (Q2R rmax) Hm epsR OR (Q2R bt)); apply clauses.
Qed.

Theorem main_policy s a :
  (s < nS)%nat -> (a < nA)%nat ->
  (0 < untab2 piR s a <-> (forall a', (a' < nA)%nat -> qf OR s a' <= qf OR s a)) /\
  (0 < untab2 piR s a ->
     Rabs (untab2 piR s a * INR (countb nA (@is_max R NumR nA (l_q OR) s)) - 1) <= Q2R pt) /\
  (~ 0 < untab2 piR s a -> untab2 piR s a = 0).
Proof. apply (cert_policy nS nA OR piR (Q2R pt)). apply clauses. Qed.

(* the returned table is close to the optimal Q of the optimistic empirical model (any fixed point
   Qs of its backup; bopt_residual_bound with delta = 0 shows there is at most one) *)
Theorem main_near_optimum (Qs : list (list R)) :
  0 <= Q2R ut -> 0 <= Q2R bt ->
  (forall s a, (s < nS)%nat -> (a < nA)%nat ->
     untab2 Qs s a = @bopt R NumR nS nA m (Q2R g) (Q2R rmax) OR Qs s a) ->
  forall s a, (s < nS)%nat -> (a < nA)%nat ->
  Rabs (qf OR s a - untab2 Qs s a) <= Rmax (Q2R bt) (Q2R g * Q2R ut) / (1 - Q2R g).
Proof.
  intros Hu Hb Hfix.
  apply (cert_near_empirical_optimum nS nA m (Q2R g) (Q2R rmax) Hm Hg0 Hg1 PR RwR ab iniR epsR OR
           (Q2R ut) (Q2R bt) Qs Hu Hb); try apply clauses. exact Hfix.
Qed.

End Main.

(* the mirror run: when the model learner, executed on the recorded experience over exact rationals,
   ends within eps of msdm's Q, msdm's Q is within eps of a learner state to which every model-level
   theorem (rmax_upper, rmax_unknown_exact, rmax_bellman_known, train_counts_capped) applies *)
Theorem mirror_close nS nA m g rmax tol fuel exp LQ eps Qi :
  (1 <= m)%nat -> 0 <= Q2R g -> Q2R g < 1 ->
  Forall (valid_step nS nA (Q2R rmax)) (map stepQR exp) ->
  @train Q NumQ nS nA m g rmax tol fuel exp = Some LQ ->
  @q_close Q NumQ nS nA eps (l_q LQ) Qi = true ->
  exists LR, @train R NumR nS nA m (Q2R g) (Q2R rmax) (Q2R tol) fuel (map stepQR exp) = Some LR /\
             inv nS nA m (Q2R g) (Q2R rmax) (Q2R tol) LR /\
             forall s a, (s < nS)%nat -> (a < nA)%nat ->
                         Rabs (qf LR s a - untab2 (map2 Q2R Qi) s a) <= Q2R eps.
Proof.
  intros Hm Hg0 Hg1 Hv Ht Hc. exists (learnerQR LQ).
  assert (HtR : @train R NumR nS nA m (Q2R g) (Q2R rmax) (Q2R tol) fuel (map stepQR exp)
                = Some (learnerQR LQ)) by (rewrite train_transfer, Ht; reflexivity).
  split; [exact HtR|]. split.
  - eapply train_inv; eauto.
  - intros s a Hs Ha. rewrite q_close_transfer in Hc. unfold q_close in Hc.
    rewrite forallbn_spec in Hc. specialize (Hc s Hs). rewrite forallbn_spec in Hc.
    specialize (Hc a Ha). apply ncloseb_R in Hc. exact Hc.
Qed.

(* ------------------------------------------------------------------------------------ *)
(* Non-vacuity: a concrete 3-state, 2-action MDP (state 2 absorbing, stochastic branching), *)
(* m = 2, four recorded episodes after which two pairs are known, two are partially tried *)
(* and two were never tried.  The model learner terminates on it, its output passes the   *)
(* checker, and so every hypothesis of the theorems above is satisfiable.                 *)
(* ------------------------------------------------------------------------------------ *)
Local Open Scope Q_scope.
Definition exP : list (list (list Q)) :=
  [ [[0; 1#2; 1#2]; [1#2; 0; 1#2]]; [[0; 0; 1]; [1#2; 0; 1#2]]; [[0; 0; 1]; [0; 0; 1]] ].
Definition exRw : list (list (list Q)) :=
  [ [[0; 1; 0]; [0; 0; 0]]; [[0; 0; 1#2]; [0; 0; 0]]; [[0; 0; 0]; [0; 0; 0]] ].
Definition exAb := [false; false; true].
Definition exIni : list Q := [1; 0; 0].
Definition st (s a : nat) (r : Q) (ns : nat) : @step Q := (s, a, r, ns).
Definition exEps : list (@episode Q) :=
  [ ([st 0 0 1 1; st 1 0 (1#2) 2], 2%nat);
    ([st 0 0 1 1; st 1 1 0 0; st 0 1 0 2], 2%nat);
    ([st 0 0 0 2], 2%nat);
    ([st 0 1 0 0; st 0 1 0 2], 2%nat) ].
Definition exTol : Q := 1#100000.
Definition exO : learner Q :=
  match @train Q NumQ 3 2 2 (1#2) 1 exTol 100 (experience exEps) with
  | Some L => L | None => @init_learner Q NumQ 3 2 (1#2) 1 end.
Definition exPi : list (list Q) := tab2 3 2 (@greedy Q NumQ 2 (l_q exO)).

Example ex_train : @train Q NumQ 3 2 2 (1#2) 1 exTol 100 (experience exEps) = Some exO.
Proof. vm_compute. reflexivity. Qed.
Example ex_counts : l_cnt exO = [[2; 2]; [1; 1]; [0; 0]]%nat.
Proof. vm_compute. reflexivity. Qed.
Definition exQs : list (list Q) := [[2; 1]; [2; 2]; [2; 2]].
Example ex_fix : @bopt_fixb Q NumQ 3 2 2 (1#2) 1 exO exQs = true.
Proof. vm_compute. reflexivity. Qed.
Example ex_check :
  @c17_check Q NumQ 3 2 2 (1#2) 1 exP exRw exAb exIni exEps exO exPi 0 exTol 0 = all_true6.
Proof. vm_compute. reflexivity. Qed.
Example ex_all :
  @train Q NumQ 3 2 2 (1#2) 1 exTol 100 (experience exEps) = Some exO /\
  l_cnt exO = [[2; 2]; [1; 1]; [0; 0]]%nat /\
  @c17_check Q NumQ 3 2 2 (1#2) 1 exP exRw exAb exIni exEps exO exPi 0 exTol 0 = all_true6 /\
  (forall s a, (s < 3)%nat -> (a < 2)%nat ->
     untab2 (map2 Q2R exQs) s a =
     @bopt R NumR 3 2 2 (Q2R (1#2)) (Q2R 1) (learnerQR exO) (map2 Q2R exQs) s a).
Proof.
  split; [exact ex_train|]. split; [exact ex_counts|]. split; [exact ex_check|].
  apply bopt_fixb_spec. rewrite <- bopt_fixb_transfer. exact ex_fix.
Qed.
