(* TDTransfer.v — C10: what vm_compute evaluates on Q (the TD folds, the comparison with msdm's
   returned table and policy, the validity test of the experience) is the R-instance function the
   theorems of TDTheory.v are about: parametricity translation + NumQR.  Then the end-to-end
   statement: "the check returned all-true on msdm's data" ==> clauses of the property over R. *)
From Coq Require Import QArith Qreals Reals Lra List Bool.
From Param Require Import Param.
From MSDM Require Import base.Num base.NumInst base.NumR base.Transfer model.MDP model.VI model.TD
     theory.VITransfer theory.TDTheory.
Import ListNotations.

Parametricity Recursive c10_check.
Parametricity Recursive train.
Parametricity Recursive dq_train.

(* the real-valued experience denoted by a rational one *)
Definition distR (d : list (nat * Q)) : list (nat * R) := map (fun ap => (fst ap, Q2R (snd ap))) d.
Definition stepR (e : step Q) : step R :=
  mkStep (st_s e) (st_a e) (Q2R (st_r e)) (st_ns e) (st_na e) (st_coin e) (st_pick e) (distR (st_dist e)).
Definition eventR (ev : event Q) : event R :=
  match ev with EStart s => EStart s | EStep e => EStep (stepR e) end.

Lemma list_R_nat_eq l1 l2 : list_R nat nat nat_R l1 l2 -> l1 = l2.
Proof. induction 1 as [|? ? H ? ? ? IH]; [reflexivity|]. f_equal; [now apply nat_R_eq|exact IH]. Qed.

Lemma dist_R_map d : list_R (nat * Q) (nat * R) (prod_R nat nat nat_R Q R QR) d (distR d).
Proof.
  unfold distR. apply list_R_map. intros [a p]. constructor; [apply nat_R_refl|reflexivity].
Qed.
Lemma step_R_map e : step_R Q R QR e (stepR e).
Proof.
  destruct e. unfold stepR. cbn. constructor; try apply nat_R_refl; try reflexivity.
  - now apply bool_R_eq.
  - apply dist_R_map.
Qed.
Lemma event_R_map ev : event_R Q R QR ev (eventR ev).
Proof. destruct ev; cbn; constructor; [apply nat_R_refl|apply step_R_map]. Qed.
Lemma events_R_map evs : list_R _ _ (event_R Q R QR) evs (map eventR evs).
Proof. apply list_R_map. apply event_R_map. Qed.
Lemma learner_R_refl L : learner_R L L.
Proof. destruct L; constructor. Qed.

Section Main.
Variables (nS nA : nat) (P Rw : list (list (list Q))) (av : list (list bool)) (ab : list bool)
          (ini : list Q) (g : Q) (q0 : list (list Q)) (alpha eps : Q) (L : learner)
          (evs : list (event Q)) (ikeys : list nat) (iq ipol : list (list Q)) (tol atol : Q).

Definition mQ : mdp Q := mk_mdp nS nA P Rw av ab ini g.
Definition mR : mdp R := mk_mdp nS nA (map3 Q2R P) (map3 Q2R Rw) av ab (map Q2R ini) (Q2R g).
Definition evsR : list (event R) := map eventR evs.
Definition q0R : nat -> nat -> R := untab2 (map2 Q2R q0).
(* the table the theorems speak about: the update rule folded over the experience, over R *)
Definition qR : qtab R := train mR q0R (Q2R alpha) (Q2R eps) L evsR.
Definition iqR : nat -> nat -> R := untab2 (map2 Q2R iq).
Definition ipolR : nat -> nat -> R := untab2 (map2 Q2R ipol).

Lemma mdp_rel : mdp_R Q R QR mQ mR.
Proof.
  apply (mk_mdp_R Q R QR NumQ NumR NumQR); try apply nat_R_refl;
    auto using list_R_map1, list_R_map2, list_R_map3, list_R_bool_refl, list_R_bool2_refl.
  reflexivity.
Qed.

Lemma untab2_rel (t : list (list Q)) :
  forall s1 s2, nat_R s1 s2 -> forall a1 a2, nat_R a1 a2 ->
  QR (untab2 t s1 a1) (untab2 (map2 Q2R t) s2 a2).
Proof.
  intros s1 s2 Hs a1 a2 Ha.
  apply (untab2_R Q R QR NumQ NumR NumQR); auto. apply list_R_map2.
Qed.

(* executed = proved: the boolean verdicts *)
Theorem c10_check_transfer :
  @c10_check Q NumQ mQ q0 alpha eps L evs ikeys iq ipol tol atol =
  @c10_check R NumR mR (map2 Q2R q0) (Q2R alpha) (Q2R eps) L evsR ikeys (map2 Q2R iq) (map2 Q2R ipol) (Q2R tol) (Q2R atol).
Proof.
  apply list_R_bool_eq.
  apply (c10_check_R Q R QR NumQ NumR NumQR); try reflexivity;
    auto using mdp_rel, list_R_map2, learner_R_refl, list_R_nat_refl.
  apply events_R_map.
Qed.

(* executed = proved: the folded table itself (same keys, Q2R of every entry) *)
Theorem train_transfer :
  qkeys (train mQ (untab2 q0) alpha eps L evs) = qkeys qR /\
  forall s a, Q2R (qval (train mQ (untab2 q0) alpha eps L evs) s a) = qval qR s a.
Proof.
  assert (H : qtab_R Q R QR (train mQ (untab2 q0) alpha eps L evs) qR).
  { apply (train_R Q R QR NumQ NumR NumQR); try reflexivity;
      auto using mdp_rel, learner_R_refl; [apply untab2_rel|apply events_R_map]. }
  destruct H as [k1 k2 Hk v1 v2 Hv]. cbn [qkeys qval]. split.
  - now apply list_R_nat_eq.
  - intros s a. apply Hv; apply nat_R_refl.
Qed.

Definition all_true6 : list bool := [true; true; true; true; true; true].

Hypothesis Hchk : @c10_check Q NumQ mQ q0 alpha eps L evs ikeys iq ipol tol atol = all_true6.

Lemma chkR :
  @c10_check R NumR mR (map2 Q2R q0) (Q2R alpha) (Q2R eps) L evsR ikeys (map2 Q2R iq) (map2 Q2R ipol) (Q2R tol) (Q2R atol)
  = all_true6.
Proof. rewrite <- c10_check_transfer. exact Hchk. Qed.

(* each experienced step is a real transition; the returned table is the fold of the update rule;
   the returned policy is greedy (uniform over maximisers / all actions) w.r.t. the returned table *)
Theorem c10_main :
  valid_experience mR evsR = true /\
  (match L with LDouble => forall s, In s (qkeys qR) <-> In s ikeys | _ => qkeys qR = ikeys end) /\
  (forall s a, In s (qkeys qR) -> In a (acts mR s) ->
     (Rabs (iqR s a - qval qR s a) <= Q2R tol * (1 + Rabs (qval qR s a)) + Q2R atol)%R) /\
  (forall s a, (s < nS)%nat -> (a < nA)%nat ->
     (Rabs (ipolR s a - greedy_policy mR (mkQ ikeys iqR) s a)
      <= Q2R tol * (1 + Rabs (greedy_policy mR (mkQ ikeys iqR) s a)))%R).
Proof.
  pose proof chkR as H. unfold c10_check, all_true6 in H.
  injection H as H1 H2 H3 H4 H5 H6. unfold qR, q0R, iqR, ipolR.
  split; [exact H1|]. split; [|split].
  - destruct L; try (apply keys_same_ordered; exact H4). apply keys_same_set. exact H4.
  - apply table_close_spec. exact H5.
  - intros s a Hs Ha. apply (policy_close_spec mR (Q2R tol) _ _ H6 s a); assumption.
Qed.

End Main.

(* ================================================================== *)
(* non-vacuity: a concrete stochastic MDP and experience                *)
(* ================================================================== *)
(* s0: a0 -> s1 (1/2, reward 1) | s2 (1/2, reward -1);  a1 -> s0 (1/2) | s2 (1/2), reward 0;
   s1: a0 -> s2, reward 2;  s2 absorbing.  gamma = 1/2, step size 1/2, epsilon 1/20,
   initial_q = [[1;3];[2;.];[5;.]] (the 5 sits at the absorbing state and must be ignored).
   Three episodes: s0 -a1-> s0 -a0-> s1 -a0-> s2 ; one that starts in the absorbing s2 ; s0 -a0-> s2. *)
Local Open Scope Q_scope.
Definition exP : list (list (list Q)) :=
  [ [[0; 1#2; 1#2]; [1#2; 0; 1#2]]; [[0; 0; 1]; [0; 0; 0]]; [[0; 0; 1]; [0; 0; 0]] ].
Definition exRw : list (list (list Q)) :=
  [ [[0; 1; -1]; [0; 0; 0]]; [[0; 0; 2]; [0; 0; 0]]; [[0; 0; 0]; [0; 0; 0]] ].
Definition exAv := [[true; true]; [true; false]; [true; false]].
Definition exAb := [false; false; true].
Definition exIni : list Q := [1#2; 0; 1#2].
Definition exQ0 : list (list Q) := [[1; 3]; [2; 0]; [5; 0]].
Definition exStep (s a : nat) (r : Q) (ns na : nat) (c : bool) (p : nat) : event Q :=
  EStep (mkStep s a r ns na c p []).
Definition exEvs : list (event Q) :=
  [ EStart 0%nat; exStep 0 1 0 0 1 true 1; exStep 0 0 1 1 0 false 0; exStep 1 0 2 2 0 true 0;
    EStart 2%nat; EStart 0%nat; exStep 0 0 (-1) 2 0 true 0 ].
Definition exM : mdp Q := mQ 3 2 exP exRw exAv exAb exIni (1#2).
Definition exKeys := [0%nat; 1%nat; 2%nat].
(* what a correct implementation returns (slightly perturbed, as floats would be) *)
Definition exIQ : list (list Q) := [[(1#4) + (1#10000000000000000); 9#4]; [2; 0]; [0; 0]].
Definition exPol : list (list Q) := [[0; 1]; [1; 0]; [1; 0]].
Definition exIQD : list (list Q) := [[3#4; 21#8]; [2; 0]; [0; 0]].
Definition exKeysD := [2%nat; 0%nat; 1%nat].

Example ex_check_q :
  @c10_check Q NumQ exM exQ0 (1#2) (1#20) LQ exEvs exKeys exIQ exPol (1#1000000000000) 0 = all_true6.
Proof. vm_compute. reflexivity. Qed.
Example ex_check_double :
  @c10_check Q NumQ exM exQ0 (1#2) (1#20) LDouble exEvs exKeysD exIQD exPol (1#1000000000000) 0 = all_true6.
Proof. vm_compute. reflexivity. Qed.

Local Open Scope R_scope.
Lemma Q2R_half : Q2R (1#2) = 1/2. Proof. unfold Q2R; simpl; lra. Qed.

Example ex_events_ok : Forall (ev_ok (-1) 2) (evsR exEvs).
Proof.
  assert (S0 : subprob (distR [])) by (split; [intros ? []|simpl; lra]).
  unfold evsR, exEvs, exStep. cbn [map eventR]. unfold stepR. cbn [st_r st_dist ev_ok].
  repeat (apply Forall_cons; [first [exact I|split; [unfold Q2R; simpl; lra|exact S0]]|]).
  apply Forall_nil.
Qed.

(* hypotheses of the interval theorem hold on the example, with I = [-2, 4] *)
Example ex_interval L :
  forall s a, -2 <= qval (qR 3 2 exP exRw exAv exAb exIni (1#2) exQ0 (1#2) (1#20) L exEvs) s a <= 4.
Proof.
  unfold qR.
  apply (train_in (mR 3 2 exP exRw exAv exAb exIni (1#2)) (q0R exQ0) (Q2R (1#2)) (Q2R (1#20)) (-2) 4 (-1) 2)
    with (q_lo := 0) (q_hi := 3).
  - rewrite Q2R_half. lra.
  - cbn. rewrite Q2R_half. lra.
  - constructor; cbn [gamma mR mk_mdp]; rewrite ?Q2R_half; lra.
  - unfold Q2R; simpl; lra.
  - lra.
  - lra.
  - intros s a Hs. unfold q0R, untab2, untab.
    destruct s as [|[|[|s]]]; cbn in Hs; try discriminate.
    + destruct a as [|[|a]]; cbn; try (unfold Q2R; simpl; lra). destruct a; cbn; lra.
    + destruct a as [|[|a]]; cbn; try (unfold Q2R; simpl; lra). destruct a; cbn; lra.
    + cbn. destruct s; destruct a; cbn; lra.
  - apply ex_events_ok.
Qed.

(* ... and the experience is valid, so absorbing entries stay 0 although initial_q says 5 there *)
Example ex_valid : valid_experience (mR 3 2 exP exRw exAv exAb exIni (1#2)) (evsR exEvs) = true.
Proof.
  pose proof (c10_main 3 2 exP exRw exAv exAb exIni (1#2) exQ0 (1#2) (1#20) LQ exEvs exKeys exIQ exPol _ _ ex_check_q) as H.
  apply H.
Qed.

(* the fold really moves the table: SARSA's Q(s0,a0) went from 1 to 1/4 *)
Example ex_moved :
  qval (qR 3 2 exP exRw exAv exAb exIni (1#2) exQ0 (1#2) (1#20) LSarsa exEvs) 0%nat 0%nat = 1/4.
Proof.
  rewrite <- (proj2 (train_transfer 3 2 exP exRw exAv exAb exIni (1#2) exQ0 (1#2) (1#20) LSarsa exEvs)).
  replace (qval (train (mQ 3 2 exP exRw exAv exAb exIni (1#2)) (untab2 exQ0) (1#2) (1#20) LSarsa exEvs) 0%nat 0%nat)
    with (1#4)%Q by (vm_compute; reflexivity).
  unfold Q2R; simpl; lra.
Qed.

Theorem ex_nonvacuous :
  @c10_check Q NumQ exM exQ0 (1#2)%Q (1#20)%Q LQ exEvs exKeys exIQ exPol (1#1000000000000)%Q 0%Q = all_true6 /\
  @c10_check Q NumQ exM exQ0 (1#2)%Q (1#20)%Q LDouble exEvs exKeysD exIQD exPol (1#1000000000000)%Q 0%Q = all_true6 /\
  Forall (ev_ok (-1) 2) (evsR exEvs) /\
  valid_experience (mR 3 2 exP exRw exAv exAb exIni (1#2)%Q) (evsR exEvs) = true /\
  (forall L s a, -2 <= qval (qR 3 2 exP exRw exAv exAb exIni (1#2)%Q exQ0 (1#2)%Q (1#20)%Q L exEvs) s a <= 4) /\
  qval (qR 3 2 exP exRw exAv exAb exIni (1#2)%Q exQ0 (1#2)%Q (1#20)%Q LSarsa exEvs) 0%nat 0%nat = 1/4.
Proof.
  split; [exact ex_check_q|]. split; [exact ex_check_double|]. split; [exact ex_events_ok|].
  split; [exact ex_valid|]. split; [exact ex_interval|exact ex_moved].
Qed.
