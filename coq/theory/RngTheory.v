(* theory/RngTheory.v — proofs about model/Rng.v (property C13). *)
From Coq Require Import String List Bool Arith ZArith Lia.
From MSDM Require Import model.Rng.
Import ListNotations.

Definition seq (s1 s2 : stream) : Prop := forall n, s1 n = s2 n.

(* hypothesis of the property: a seed is given (any value, 0 included) and roll-outs get a generator *)
Definition hyp (c : config) : Prop := seed_given c = true /\ rng_given c = true.

Lemma seq_refl s : seq s s.
Proof. intro n; reflexivity. Qed.

Lemma seq_stl s1 s2 : seq s1 s2 -> seq (stl s1) (stl s2).
Proof. intros H n; unfold stl; apply H. Qed.

(* ------------------------------------------------------------------ classification *)
Lemma is_private_sound k c : is_private k = true -> hyp c -> resolve c k = GPriv.
Proof.
  intros Hk [Hs Hr]; destruct k; simpl in *; try discriminate; try reflexivity.
  - rewrite Hr; reflexivity.
  - rewrite Hs; reflexivity.
Qed.

Definition c_seed0 : config := mkConfig true true true.   (* seed = 0 passed, generator passed *)

Lemma hyp_seed0 : hyp c_seed0.
Proof. split; reflexivity. Qed.

Lemma is_private_complete k : is_private k = false -> resolve c_seed0 k <> GPriv.
Proof. destruct k; simpl; intros H; try discriminate; intro E; discriminate. Qed.

Lemma site_private_in tbl s : forallb site_private tbl = true -> In s tbl -> is_private (s_kind s) = true.
Proof. intros H Hin; rewrite forallb_forall in H; exact (H s Hin). Qed.

(* ------------------------------------------------------------------ isolation *)
Lemma run_private :
  forall (A : Type) (p : prog A) (c : config) (tbl : list site),
    forallb site_private tbl = true -> hyp c -> uses p tbl ->
    forall w1 w2, seq (w1 GPriv) (w2 GPriv) ->
      fst (run c p w1) = fst (run c p w2)
      /\ seq (snd (run c p w1) GPriv) (snd (run c p w2) GPriv)
      /\ (forall g, g <> GPriv -> snd (run c p w1) g = w1 g)
      /\ (forall g, g <> GPriv -> snd (run c p w2) g = w2 g).
Proof.
  intros A p c tbl Htbl Hc; induction p as [a | s k IH]; intros Hu w1 w2 Hseq.
  - simpl; repeat split; auto.
  - simpl in Hu; destruct Hu as [Hin Hk].
    pose proof (is_private_sound _ _ (site_private_in _ _ Htbl Hin) Hc) as Hres.
    simpl; rewrite Hres.
    assert (Hd : shd (w1 GPriv) = shd (w2 GPriv)) by (unfold shd; apply Hseq).
    rewrite <- Hd.
    destruct (IH (shd (w1 GPriv)) (Hk _) (upd w1 GPriv (stl (w1 GPriv))) (upd w2 GPriv (stl (w2 GPriv))))
      as (Hr & Hp & Hg1 & Hg2).
    + unfold upd; simpl; apply seq_stl; exact Hseq.
    + repeat split; auto.
      * intros g Hne; rewrite (Hg1 g Hne); unfold upd; destruct g; simpl; try reflexivity; congruence.
      * intros g Hne; rewrite (Hg2 g Hne); unfold upd; destruct g; simpl; try reflexivity; congruence.
Qed.

(* THE theorem: for every table all of whose sites are private, every configuration inside the property's
   hypothesis, every program that only draws at sites of the table, and every two worlds whose PRIVATE streams
   agree (arbitrary global generator states, hash salts and entropy): the results are equal, the private
   generators end in the same state, and the global generators / salt / entropy are untouched. *)
Theorem isolation_thm :
  forall (tbl : list site), forallb site_private tbl = true ->
  forall (c : config), hyp c ->
  forall (A : Type) (p : prog A), uses p tbl ->
  forall w1 w2 : world, seq (w1 GPriv) (w2 GPriv) ->
    fst (run c p w1) = fst (run c p w2)
    /\ seq (snd (run c p w1) GPriv) (snd (run c p w2) GPriv)
    /\ (forall g, g <> GPriv -> snd (run c p w1) g = w1 g)
    /\ (forall g, g <> GPriv -> snd (run c p w2) g = w2 g).
Proof. intros; eapply run_private; eauto. Qed.

(* reproducibility as the property words it: same seed => same private stream => same result in any two
   processes (worlds), whatever their global generator states and hash salts are *)
Corollary seeded_reproducible_thm :
  forall (mk : nat -> stream) (seed : nat) (tbl : list site), forallb site_private tbl = true ->
  forall c, hyp c -> forall (A : Type) (p : prog A), uses p tbl ->
  forall w1 w2 : world,
    fst (run c p (upd w1 GPriv (mk seed))) = fst (run c p (upd w2 GPriv (mk seed))).
Proof.
  intros mk seed tbl Ht c Hc A p Hu w1 w2.
  apply (isolation_thm tbl Ht c Hc A p Hu); unfold upd; simpl; apply seq_refl.
Qed.

(* ------------------------------------------------------------------ the classification is tight *)
Definition w_zero : world := fun _ _ => 0.
Definition w_one_at (g : gen) : world := fun g' => if gen_eqb g g' then (fun _ => 1) else (fun _ => 0).

(* a single non-private site suffices to break isolation, for the configuration "seed 0 given, generator given" *)
Theorem nonprivate_breaks_thm :
  forall s : site, site_private s = false ->
    hyp c_seed0 /\
    exists (p : prog nat) (w1 w2 : world),
      uses p [s] /\ seq (w1 GPriv) (w2 GPriv) /\ fst (run c_seed0 p w1) <> fst (run c_seed0 p w2).
Proof.
  intros s Hs; split; [exact hyp_seed0|].
  pose proof (is_private_complete _ Hs) as Hne.
  exists (Draw s (fun d => Ret d)), w_zero, (w_one_at (resolve c_seed0 (s_kind s))).
  split; [simpl; auto|].
  split.
  - intro n; unfold w_zero, w_one_at.
    destruct (resolve c_seed0 (s_kind s)); simpl; try reflexivity; congruence.
  - simpl; unfold shd, w_zero, w_one_at.
    destruct (resolve c_seed0 (s_kind s)); simpl; congruence.
Qed.

(* a site that resolves to the global generator disturbs it *)
Theorem global_site_disturbs_thm :
  forall (s : site) (c : config), resolve c (s_kind s) = GGlob ->
    exists w : world, snd (run c (Draw s (fun d => Ret d)) w) GGlob 0 <> w GGlob 0.
Proof.
  intros s c Hr; exists (fun _ n => n); simpl; rewrite Hr; simpl; unfold stl; discriminate.
Qed.

(* the two idioms found in msdm, as instances *)
Lemma seed_or_global_is_global_for_seed0 : resolve c_seed0 KGlobalIfSeedFalsy = GGlob.
Proof. reflexivity. Qed.

Lemma seed_none_guard_is_private_under_hyp c : hyp c -> resolve c KGlobalIfSeedNone = GPriv.
Proof. intros [H _]; simpl; rewrite H; reflexivity. Qed.

(* ------------------------------------------------------------------ non-vacuity *)
Definition ex_tbl : list site :=
  [ mkSite "demo" "demo.py" 1 KPrivate "rng.random()";
    mkSite "demo" "demo.py" 2 KGlobalIfSeedNone "random.randint(..) if seed is None";
    mkSite "demo" "demo.py" 3 KParamDefaultGlobal "rng=random" ].
Definition ex_prog : prog nat :=
  Draw (mkSite "demo" "demo.py" 1 KPrivate "rng.random()")
       (fun a => Draw (mkSite "demo" "demo.py" 2 KGlobalIfSeedNone "random.randint(..) if seed is None")
                      (fun b => Ret (10 * a + b))).

Example ex_all_private : forallb site_private ex_tbl = true.
Proof. reflexivity. Qed.
Example ex_uses : uses ex_prog ex_tbl.
Proof. simpl; intuition. Qed.
(* the result really depends on the private stream (3, 4, ...) and on nothing else *)
Example ex_run : fst (run c_seed0 ex_prog (fun g n => match g with GPriv => 3 + n | _ => 100 + n end)) = 34.
Proof. reflexivity. Qed.
Example ex_global_untouched :
  snd (run c_seed0 ex_prog (fun g n => match g with GPriv => 3 + n | _ => 100 + n end)) GGlob 0 = 100.
Proof. reflexivity. Qed.

(* ------------------------------------------------------------------ obj_seed *)
Section ObjSeedTheory.
  Variable salt : Type.
  Variable str_hash : salt -> string -> Z.
  Variable int_hash : Z -> Z.
  Variable none_hash : Z.
  Variable mix : Z -> Z -> Z.
  Variable digest : Z -> Z.

  Notation H := (pv_hash salt str_hash int_hash none_hash mix).
  Notation OS := (obj_seed salt str_hash int_hash none_hash mix digest).

  Fixpoint pv_size (v : pv) : nat :=
    match v with
    | PTup l => S ((fix sz (l : list pv) : nat := match l with [] => 0 | x :: r => pv_size x + sz r end) l)
    | _ => 1
    end.

  Lemma pv_size_pos v : 0 < pv_size v.
  Proof. destruct v; simpl; lia. Qed.

  (* the seed is a function of hash(obj) alone *)
  Lemma obj_seed_factor_thm : forall s1 s2 v, H s1 v = H s2 v -> OS s1 v = OS s2 v.
  Proof. intros s1 s2 v E; unfold obj_seed; rewrite E; reflexivity. Qed.

  (* values containing no string hash identically under every salt *)
  Lemma hash_stable_no_str_thm : forall v, no_str v = true -> forall s1 s2, H s1 v = H s2 v.
  Proof.
    intro v; remember (pv_size v) as n eqn:Hn.
    revert v Hn; induction n as [n IH] using lt_wf_ind; intros v Hn Hv s1 s2.
    destruct v as [z | | s | l]; simpl in *; try reflexivity; try discriminate.
    assert (Hl : forall x, In x l -> no_str x = true -> H s1 x = H s2 x).
    { intros x Hin Hx. apply (IH (pv_size x)); auto. subst n.
      clear - Hin. induction l as [|y r IHr]; simpl in *; [contradiction|].
      destruct Hin as [-> | Hin]; [lia|]. specialize (IHr Hin). pose proof (pv_size_pos y). lia. }
    clear IH Hn.
    generalize 0%Z as acc.
    induction l as [|x r IHr]; intros acc; simpl in *; [reflexivity|].
    apply andb_true_iff in Hv; destruct Hv as [Hx Hr].
    rewrite (Hl x (or_introl eq_refl) Hx).
    apply IHr; auto.
  Qed.

  Theorem obj_seed_stable_no_str_thm : forall v, no_str v = true -> forall s1 s2, OS s1 v = OS s2 v.
  Proof. intros v Hv s1 s2; apply obj_seed_factor_thm, hash_stable_no_str_thm; exact Hv. Qed.

  (* conversely a salted string anywhere the digest separates shows through: the semi-MDP's simulation seed
     obj_seed((state, option, seed)) differs between two processes as soon as the digest of the two hashes differ *)
  Theorem obj_seed_salted_thm :
    forall s1 s2 v, digest (H s1 v) <> digest (H s2 v) -> OS s1 v <> OS s2 v.
  Proof. intros s1 s2 v Hd; exact Hd. Qed.
End ObjSeedTheory.

(* non-vacuity of the obj_seed lemmas: a concrete salted hash for which an all-int key is stable and a key with a
   string is not *)
Definition demo_str_hash (sl : Z) (s : string) : Z := (sl + Z.of_nat (String.length s))%Z.
Definition demo_mix (a b : Z) : Z := (31 * a + b)%Z.
Example ex_obj_seed_int_stable :
  obj_seed Z demo_str_hash (fun z => z) 7%Z demo_mix (fun h => h) 0%Z (PTup [PInt 1; PInt 2; PInt 5])
  = obj_seed Z demo_str_hash (fun z => z) 7%Z demo_mix (fun h => h) 1%Z (PTup [PInt 1; PInt 2; PInt 5]).
Proof. reflexivity. Qed.
Example ex_obj_seed_str_unstable :
  obj_seed Z demo_str_hash (fun z => z) 7%Z demo_mix (fun h => h) 0%Z (PTup [PStr "s0"; PStr "opt"; PInt 5])
  <> obj_seed Z demo_str_hash (fun z => z) 7%Z demo_mix (fun h => h) 1%Z (PTup [PStr "s0"; PStr "opt"; PInt 5]).
Proof. vm_compute; discriminate. Qed.
