(* PolicyEvalExample.v — C02 non-vacuity: concrete MDPs/policies on which the checkers accept a
   (slightly perturbed) result, so the hypotheses of the C02 theorems are satisfiable; the exact
   value function / occupancy exist there (exhibited exactly). *)
From Coq Require Import QArith Qreals Reals Lra List Bool.
From MSDM Require Import base.Num base.NumInst base.NumR base.Transfer model.MDP model.VI model.PolicyEval
     theory.Bellman theory.VITheory theory.VITransfer theory.PolicyEvalTheory theory.PolicyEvalUndisc
     theory.PolicyEvalLimit theory.PolicyEvalTransfer theory.PolicyEvalMain.
Import ListNotations.
Local Open Scope Q_scope.

(* ---- discounted: the 3-state MDP of VIExample (s2 absorbing with an ignored self-loop reward 5),
   gamma = 1/2, policy s0: (1/2, 1/2), s1/s2: action 0; the policy table lives on its own permuted,
   larger lists.  V^pi = (2/3, 2, 0), occupancy = (2/3, 7/12, 3/8), initial value 4/3. ---- *)
Definition dP : list (list (list Q)) :=
  [ [[0; 1#2; 1#2]; [1; 0; 0]]; [[0; 0; 1]; [0; 0; 0]]; [[0; 0; 1]; [0; 0; 0]] ].
Definition dR : list (list (list Q)) :=
  [ [[0; 1; 0]; [0; 0; 0]]; [[0; 0; 2]; [0; 0; 0]]; [[0; 0; 5]; [0; 0; 0]] ].
Definition dAv := [[true; true]; [true; false]; [true; false]].
Definition dAb := [false; false; true].
Definition dIni : list Q := [1#2; 1#2; 0].
Definition dPsl := [2; 0; 1; 5]%nat.
Definition dPal := [1; 0]%nat.
Definition dData : list (list Q) := [[0; 1]; [1#2; 1#2]; [0; 1]; [1; 0]].
Definition dV : list (ext Q) := [Fin ((2#3) + (1#1000000000)); Fin 2; Fin 0].
Definition dQ : list (list (ext Q)) := [[Fin 1; Fin (1#3)]; [Fin 2; NInf]; [Fin 5; NInf]].
Definition dOc : list (ext Q) := [Fin (2#3); Fin ((7#12) - (1#1000000000)); Fin (3#8)].
Definition dT : @etols Q := mkETols (1#10000000) (1#10000000) (1#10000000) (1#10000000) (1#10000000).
Definition dVpi : list Q := [2#3; 2; 0].
Definition dOcc : list Q := [2#3; 7#12; 3#8].

Example ex_disc_check :
  @c02_disc Q NumQ (mQ 3 2 dP dR dAv dAb dIni (1#2)) (piQ dPsl dPal dData)
            (mk_eout dV dQ dOc (Fin (4#3))) dT = all_true 10.
Proof. vm_compute. reflexivity. Qed.

Example ex_disc_fix :
  fixpol (mR 3 2 dP dR dAv dAb dIni (1#2)) (piR dPsl dPal dData) (untab (map Q2R dVpi)).
Proof. apply fixpolb_fixpol. rewrite <- fixpolb_transfer. vm_compute. reflexivity. Qed.

Example ex_disc_occfix :
  occfix (mR 3 2 dP dR dAv dAb dIni (1#2)) (piR dPsl dPal dData) (untab (map Q2R dOcc)).
Proof. apply occfixb_occfix. rewrite <- occfixb_transfer. vm_compute. reflexivity. Qed.

(* so the conclusion of main_values is a statement about a real value function *)
Example ex_disc_values_bound :
  forall s, (s < 3)%nat ->
  (Rabs (Vf (eoR dV dQ dOc (Fin (4#3))) s - untab (map Q2R dVpi) s)
   <= Q2R (1#10000000) / (1 - Q2R (1#2)))%R.
Proof.
  intros s Hs.
  apply (main_values 3 2 dP dR dAv dAb dIni (1#2) dPsl dPal dData dV dQ dOc (Fin (4#3)) dT ex_disc_check).
  - unfold Q2R; simpl; lra.
  - apply ex_disc_fix.
  - exact Hs.
Qed.

(* ---- undiscounted, rewards <= 0: s0 -(a0)-> s1 | s3, -(a1)-> s3;  {s1, s2} a closed class paying -1 per
   step;  s3 absorbing;  s4 -> s3 | s4.   Policy s0: (1/2, 1/2).   Values (-inf, -inf, -inf, 0, -2),
   occupancy (1/2, +inf, +inf, 7/8, 1), initial distribution (1/2 on s0, 1/2 on s4): initial value -inf ---- *)
Definition uP : list (list (list Q)) :=
  [ [[0; 1#2; 0; 1#2; 0]; [0; 0; 0; 1; 0]];
    [[0; 0; 1; 0; 0]; [0; 0; 0; 0; 0]];
    [[0; 1; 0; 0; 0]; [0; 0; 0; 0; 0]];
    [[0; 0; 0; 1; 0]; [0; 0; 0; 0; 0]];
    [[0; 0; 0; 1#2; 1#2]; [0; 0; 0; 0; 0]] ].
Definition uR : list (list (list Q)) :=
  [ [[0; (-1)#1; 0; (-1)#1; 0]; [0; 0; 0; (-2)#1; 0]];
    [[0; 0; (-1)#1; 0; 0]; [0; 0; 0; 0; 0]];
    [[0; (-1)#1; 0; 0; 0]; [0; 0; 0; 0; 0]];
    [[0; 0; 0; 0; 0]; [0; 0; 0; 0; 0]];
    [[0; 0; 0; (-1)#1; (-1)#1]; [0; 0; 0; 0; 0]] ].
Definition uAv := [[true; true]; [true; false]; [true; false]; [true; false]; [true; false]].
Definition uAb := [false; false; false; true; false].
Definition uIni : list Q := [1#2; 0; 0; 0; 1#2].
Definition uPsl := [0; 1; 2; 3; 4]%nat.
Definition uPal := [0; 1]%nat.
Definition uData : list (list Q) := [[1#2; 1#2]; [1; 0]; [1; 0]; [1; 0]; [1; 0]].
Definition uV : list (ext Q) := [NInf; NInf; NInf; Fin 0; Fin (((-2)#1) + (1#1000000000))].
Definition uQ : list (list (ext Q)) :=
  [[NInf; Fin ((-2)#1)]; [NInf; NInf]; [NInf; NInf]; [Fin 0; NInf]; [Fin ((-2)#1); NInf]].
Definition uOc : list (ext Q) := [Fin (1#2); PInf; PInf; Fin (7#8); Fin 1].

Example ex_undisc_check :
  @c02_undisc Q NumQ (mQ 5 2 uP uR uAv uAb uIni 1) (piQ uPsl uPal uData)
              (mk_eout uV uQ uOc NInf) dT = all_true 11.
Proof. vm_compute. reflexivity. Qed.

(* the -inf rule fires at s0 for the stated reason, and s4 is off the -inf set *)
Example ex_undisc_neginf :
  reaches_negative_class (mR 5 2 uP uR uAv uAb uIni 1) (piR uPsl uPal uData) 0.
Proof.
  apply (main_undisc_neginf 5 2 uP uR uAv uAb uIni 1 uPsl uPal uData uV uQ uOc NInf dT ex_undisc_check 0%nat).
  - repeat constructor.
  - reflexivity.
Qed.
Example ex_undisc_finite :
  ~ reaches_negative_class (mR 5 2 uP uR uAv uAb uIni 1) (piR uPsl uPal uData) 4.
Proof.
  intro H.
  apply (main_undisc_neginf 5 2 uP uR uAv uAb uIni 1 uPsl uPal uData uV uQ uOc NInf dT ex_undisc_check 4%nat) in H.
  - discriminate H.
  - repeat constructor.
Qed.

(* absorption-time certificate for the same example (states off the -inf set: s3, s4) *)
Definition uTau : list Q := [0; 0; 0; 1; 3].
Example ex_undisc_tau :
  @c02_tau Q NumQ (mQ 5 2 uP uR uAv uAb uIni 1) (piQ uPsl uPal uData) uTau = true.
Proof. vm_compute. reflexivity. Qed.
