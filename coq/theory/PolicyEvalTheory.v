(* PolicyEvalTheory.v — C02, discounted part: theory of the policy operator T^pi and of the
   occupancy operator (R instance, all sizes), and soundness of the certificate checker
   model/PolicyEval.v:c02_disc. *)
From Coq Require Import Reals Lra Lia List Arith Bool.
From MSDM Require Import base.Num base.NumInst base.NumR model.MDP model.VI model.PolicyEval
     theory.Bellman theory.VITheory.
Import ListNotations.
Local Open Scope R_scope.

(* ------------------------------------------------------------------ *)
(* small general facts                                                  *)
(* ------------------------------------------------------------------ *)
Lemma Rabs_zero_of_small x : (forall eps, 0 < eps -> Rabs x <= eps) -> x = 0.
Proof.
  intros H. destruct (Req_dec x 0) as [|Hne]; [auto|].
  pose proof (Rabs_pos_lt x Hne) as Hp. specialize (H (Rabs x / 2)). lra.
Qed.

Lemma sumf_shift n (f : nat -> R) : sumf (S n) f = f 0%nat + sumf n (fun t => f (S t)).
Proof.
  induction n; [rewrite !sumf_S; simpl; numR; lra|].
  rewrite sumf_S, IHn, (sumf_S n). lra.
Qed.

Lemma finite_choice n (Pr : nat -> R -> Prop) :
  (forall i, (i < n)%nat -> exists x, Pr i x) -> exists f, forall i, (i < n)%nat -> Pr i (f i).
Proof.
  induction n; intros H.
  - exists (fun _ => 0). intros; lia.
  - destruct IHn as (f & Hf); [intros; apply H; lia|].
    destruct (H n) as (x & Hx); [lia|].
    exists (fun i => if Nat.eqb i n then x else f i). intros i Hi.
    destruct (Nat.eqb_spec i n) as [->|Hne]; [auto|apply Hf; lia].
Qed.

Lemma pow_small g C eps : 0 <= g < 1 -> 0 < eps -> exists N, forall k, (N <= k)%nat -> g ^ k * C <= eps.
Proof.
  intros Hg He.
  destruct (Rle_dec C 0) as [HC|HC].
  - exists 0%nat. intros k _. assert (0 <= g ^ k) by (apply pow_le; lra). nra.
  - assert (HCp : 0 < C) by lra.
    destruct (pow_lt_1_zero g) with (y := eps / C) as (N & HN).
    + rewrite Rabs_right; lra.
    + apply Rdiv_lt_0_compat; lra.
    + exists N. intros k Hk. specialize (HN k Hk). rewrite Rabs_right in HN.
      * apply Rlt_le. apply Rmult_lt_reg_r with (/ C); [apply Rinv_0_lt_compat; lra|].
        rewrite Rmult_assoc, Rinv_r by lra. unfold Rdiv in HN. lra.
      * apply Rle_ge, pow_le; lra.
Qed.

Section PolicyTheory.
Variable m : mdp R.
Variable pi : nat -> nat -> R.

Notation rpi := (rpi m pi).
Notation Ppi := (Ppi m pi).

(* ------------------------------------------------------------------ *)
(* A. the policy operator                                               *)
(* ------------------------------------------------------------------ *)
Theorem residual_bound_pol V Vpi delta :
  wf m -> wfpol m pi -> gamma m < 1 -> fixpol m pi Vpi -> 0 <= delta ->
  (forall s, (s < nS m)%nat -> Rabs (V s - Tpol m pi V s) <= delta) ->
  forall s, (s < nS m)%nat -> Rabs (V s - Vpi s) <= delta / (1 - gamma m).
Proof.
  intros Wf Wp G1 Hfix Hd0 Hres.
  pose proof (wf_gamma0 m Wf) as G0.
  destruct (finite_sup (nS m) (fun s => V s - Vpi s)) as (D & HD0 & HDle & HDat).
  assert (HD : D <= delta / (1 - gamma m)).
  { destruct HDat as [->|(i & Hi & He)].
    - apply Rmult_le_pos; [lra|]. left. apply Rinv_0_lt_compat. lra.
    - cbv beta in He.
      assert (H1 : D <= delta + gamma m * D).
      { assert (Hc : Rabs (Tpol m pi V i - Tpol m pi Vpi i) <= gamma m * D)
          by (apply Tpol_diff; auto).
        pose proof (Hres i Hi) as Hr. pose proof (Hfix i Hi) as Hf.
        apply Rabs_le_inv' in Hc. apply Rabs_le_inv' in Hr.
        rewrite <- He at 1. apply Rabs_le. lra. }
      apply Rmult_le_reg_r with (1 - gamma m); [lra|].
      unfold Rdiv. rewrite Rmult_assoc, Rinv_l; lra. }
  intros s Hs. eapply Rle_trans; [apply HDle; auto|exact HD].
Qed.

Corollary fixpol_unique V1 V2 :
  wf m -> wfpol m pi -> gamma m < 1 -> fixpol m pi V1 -> fixpol m pi V2 ->
  forall s, (s < nS m)%nat -> V1 s = V2 s.
Proof.
  intros Wf Wp G1 H1 H2 s Hs.
  assert (H : Rabs (V1 s - V2 s) <= 0 / (1 - gamma m)).
  { apply residual_bound_pol; auto; [lra|]. intros s' Hs'. rewrite <- (H1 s' Hs').
    replace (V1 s' - V1 s') with 0 by lra. rewrite Rabs_R0; lra. }
  unfold Rdiv in H. rewrite Rmult_0_l in H.
  pose proof (Rabs_pos (V1 s - V2 s)).
  destruct (Req_dec (V1 s - V2 s) 0) as [|Hne]; [lra|].
  apply Rabs_no_R0 in Hne. lra.
Qed.

(* k-step expected discounted return of the policy (absorbing states stop the process) *)
Fixpoint Vn (k : nat) : nat -> R :=
  match k with O => fun _ => 0 | S k' => Tpol m pi (Vn k') end.

(* the fixed point is the limit of the k-step returns, with a geometric tail *)
Theorem Vn_tail Vpi B :
  wf m -> wfpol m pi -> fixpol m pi Vpi ->
  (forall s, (s < nS m)%nat -> Rabs (Vpi s) <= B) ->
  forall k s, (s < nS m)%nat -> Rabs (Vpi s - Vn k s) <= gamma m ^ k * B.
Proof.
  intros Wf Wp Hfix HB. pose proof (wf_gamma0 m Wf) as G0.
  induction k; intros s Hs.
  - simpl. rewrite Rminus_0_r, Rmult_1_l. auto.
  - rewrite (Hfix s Hs). simpl Vn. simpl pow. rewrite Rmult_assoc.
    apply Tpol_diff; auto.
    specialize (HB s Hs). pose proof (Rabs_pos (Vpi s)).
    apply Rmult_le_pos; [apply pow_le; auto|lra].
Qed.

Corollary Vn_limit Vpi :
  wf m -> wfpol m pi -> gamma m < 1 -> fixpol m pi Vpi ->
  forall eps, 0 < eps -> exists N, forall k, (N <= k)%nat ->
    forall s, (s < nS m)%nat -> Rabs (Vn k s - Vpi s) <= eps.
Proof.
  intros Wf Wp G1 Hfix eps He. pose proof (wf_gamma0 m Wf) as G0.
  destruct (finite_sup (nS m) Vpi) as (B & HB0 & HB & _).
  destruct (pow_small (gamma m) B eps) as (N & HN); [lra|auto|].
  exists N. intros k Hk s Hs. rewrite Rabs_minus_sym.
  eapply Rle_trans; [apply (Vn_tail Vpi B); auto|auto].
Qed.

(* ---- existence: the k-step returns converge, and the limit is a fixed point ---- *)
Lemma Vn_bounded C :
  wf m -> wfpol m pi -> gamma m < 1 ->
  (forall s, (s < nS m)%nat -> Rabs (Tpol m pi (fun _ => 0) s) <= (1 - gamma m) * C) -> 0 <= C ->
  forall p s, (s < nS m)%nat -> Rabs (Vn p s) <= C.
Proof.
  intros Wf Wp G1 HB HC. pose proof (wf_gamma0 m Wf) as G0.
  induction p; intros s Hs.
  - simpl. rewrite Rabs_R0. auto.
  - simpl Vn.
    assert (H : Rabs (Tpol m pi (Vn p) s - Tpol m pi (fun _ => 0) s) <= gamma m * C).
    { apply Tpol_diff; auto. intros ns Hns. rewrite Rminus_0_r. auto. }
    specialize (HB s Hs). apply Rabs_le_inv' in H. apply Rabs_le_inv' in HB. apply Rabs_le. lra.
Qed.

Lemma Vn_shift C :
  wf m -> wfpol m pi ->
  (forall p s, (s < nS m)%nat -> Rabs (Vn p s) <= C) -> 0 <= C ->
  forall k p s, (s < nS m)%nat -> Rabs (Vn (k + p) s - Vn k s) <= gamma m ^ k * C.
Proof.
  intros Wf Wp HB HC. pose proof (wf_gamma0 m Wf) as G0.
  induction k; intros p s Hs.
  - simpl. rewrite Rminus_0_r, Rmult_1_l. auto.
  - simpl plus. simpl Vn. simpl pow. rewrite Rmult_assoc. apply Tpol_diff; auto.
    apply Rmult_le_pos; [apply pow_le; auto|auto].
Qed.

Theorem fixpol_exists :
  wf m -> wfpol m pi -> gamma m < 1 -> exists Vpi, fixpol m pi Vpi.
Proof.
  intros Wf Wp G1. pose proof (wf_gamma0 m Wf) as G0.
  destruct (finite_sup (nS m) (Tpol m pi (fun _ => 0))) as (B1 & HB10 & HB1 & _).
  set (C := B1 / (1 - gamma m)).
  assert (HC0 : 0 <= C). { apply Rmult_le_pos; [lra|]. left. apply Rinv_0_lt_compat. lra. }
  assert (HCB : (1 - gamma m) * C = B1). { unfold C. field. lra. }
  assert (Hbd : forall p s, (s < nS m)%nat -> Rabs (Vn p s) <= C).
  { apply Vn_bounded; auto. intros s Hs. rewrite HCB. auto. }
  pose proof (Vn_shift C Wf Wp Hbd HC0) as Hsh.
  (* pointwise limits *)
  assert (Hlim : forall s, (s < nS m)%nat -> exists l, Un_cv (fun k => Vn k s) l).
  { intros s Hs. destruct (R_complete (fun k => Vn k s)) as (l & Hl); [|eauto].
    intros eps He.
    destruct (pow_small (gamma m) C (eps / 4)) as (N & HN); [lra|lra|].
    exists N. intros n1 n2 Hn1 Hn2. unfold R_dist.
    replace n1 with (N + (n1 - N))%nat by lia. replace n2 with (N + (n2 - N))%nat by lia.
    pose proof (Hsh N (n1 - N)%nat s Hs) as H1. pose proof (Hsh N (n2 - N)%nat s Hs) as H2.
    specialize (HN N (Nat.le_refl N)).
    apply Rabs_le_inv' in H1. apply Rabs_le_inv' in H2.
    apply Rabs_def1; lra. }
  destruct (finite_choice (nS m) (fun s l => Un_cv (fun k => Vn k s) l) Hlim) as (V & HV).
  exists V.
  (* |V s - Vn k s| <= gamma^k C *)
  assert (Hclose : forall k s, (s < nS m)%nat -> Rabs (V s - Vn k s) <= gamma m ^ k * C).
  { intros k s Hs. apply Rnot_lt_le. intro Hgt.
    set (e := (Rabs (V s - Vn k s) - gamma m ^ k * C) / 2).
    assert (He : 0 < e) by (unfold e; lra).
    destruct (HV s Hs e He) as (N & HN).
    specialize (HN (k + N)%nat ltac:(lia)). unfold R_dist in HN.
    pose proof (Hsh k N s Hs) as H1.
    apply Rabs_def2 in HN. apply Rabs_le_inv' in H1.
    assert (Rabs (V s - Vn k s) <= e + gamma m ^ k * C) by (apply Rabs_le; lra).
    unfold e in *. lra. }
  intros s Hs.
  assert (Hz : V s - Tpol m pi V s = 0).
  { apply Rabs_zero_of_small. intros eps He.
    destruct (pow_small (gamma m) C (eps / 2)) as (N & HN); [lra|lra|].
    pose proof (Hclose (S N) s Hs) as H1. simpl Vn in H1.
    assert (H2 : Rabs (Tpol m pi V s - Tpol m pi (Vn N) s) <= gamma m * (gamma m ^ N * C)).
    { assert (0 <= gamma m ^ N * C) by (apply Rmult_le_pos; [apply pow_le|]; auto).
      apply Tpol_diff; auto. }
    pose proof (HN N (Nat.le_refl N)) as H3. pose proof (HN (S N) ltac:(lia)) as H4.
    assert (gamma m * (gamma m ^ N * C) <= eps / 2) by (simpl in H4; lra).
    apply Rabs_le_inv' in H1. apply Rabs_le_inv' in H2. apply Rabs_le. lra. }
  lra.
Qed.

(* ------------------------------------------------------------------ *)
(* the linear-system reading:  T^pi V = r_pi + gamma * P_pi V           *)
(* ------------------------------------------------------------------ *)
Hypothesis Hmask : forall s, masked m s = absorbing m s.

Lemma Ppi_Pm s z : Ppi s z = sumf (nA m) (fun a => pi s a * Pm m s a z).
Proof.
  unfold PolicyEval.Ppi, Pm. rewrite Hmask. destruct (absorbing m s).
  - rewrite sumf_0; [reflexivity|]. intros; numR; lra.
  - reflexivity.
Qed.
Lemma rpi_Rm s : rpi s = sumf (nA m) (fun a => pi s a * Rm m s a).
Proof.
  unfold PolicyEval.rpi, Rm. rewrite Hmask. destruct (absorbing m s).
  - rewrite sumf_0; [reflexivity|]. intros; numR; lra.
  - reflexivity.
Qed.

Lemma Tpol_linear V s :
  Tpol m pi V s = rpi s + gamma m * sumf (nS m) (fun z => Ppi s z * V z).
Proof.
  unfold Tpol, Qpol.
  transitivity (sumf (nA m) (fun a => pi s a * Rm m s a
                    + gamma m * sumf (nS m) (fun ns => pi s a * Pm m s a ns * V ns))).
  - apply sumf_ext. intros a Ha. rewrite Qval_R. rewrite <- sumf_scal.
    replace (pi s a * (Rm m s a + sumf (nS m) (fun i => gamma m * (Pm m s a i * V i))))
      with (pi s a * Rm m s a + pi s a * sumf (nS m) (fun i => gamma m * (Pm m s a i * V i))) by lra.
    f_equal. rewrite <- !sumf_scal. apply sumf_ext. intros; lra.
  - rewrite sumf_plus, rpi_Rm. f_equal.
    rewrite sumf_scal. f_equal. rewrite sumf_swap. apply sumf_ext. intros z Hz.
    rewrite Ppi_Pm, <- sumf_scal_r. reflexivity.
Qed.

Lemma Ppi_nonneg s z :
  wf m -> wfpol m pi -> (s < nS m)%nat -> (z < nS m)%nat -> 0 <= Ppi s z.
Proof.
  intros Wf Wp Hs Hz. rewrite Ppi_Pm. apply sumf_nonneg. intros a Ha.
  apply Rmult_le_pos; [apply (wp_nn m pi Wp)|apply (wf_Pnn m Wf)]; auto.
Qed.
Lemma Ppi_rowsum s :
  wf m -> wfpol m pi -> (s < nS m)%nat -> sumf (nS m) (Ppi s) <= 1.
Proof.
  intros Wf Wp Hs.
  rewrite (sumf_ext _ _ (fun z => sumf (nA m) (fun a => pi s a * Pm m s a z))) by (intros; apply Ppi_Pm).
  rewrite sumf_swap.
  rewrite (sumf_ext _ _ (fun a => pi s a * sumf (nS m) (Pm m s a))) by (intros; now rewrite sumf_scal).
  eapply Rle_trans.
  - apply (wsum_le_max (nA m) (pi s) (fun a => sumf (nS m) (Pm m s a)) 1).
    + intros a Ha. apply (wp_nn m pi Wp); auto.
    + intros a Ha. apply (wf_Psub m Wf); auto.
  - rewrite (wp_sum m pi Wp s Hs). lra.
Qed.

(* ------------------------------------------------------------------ *)
(* B. the occupancy operator  x |-> init + gamma * x . P_pi   (L1)       *)
(* ------------------------------------------------------------------ *)
Definition occ_op (x : nat -> R) (z : nat) : R :=
  init m z + gamma m * sumf (nS m) (fun s => x s * Ppi s z).
Definition occfix (y : nat -> R) : Prop := forall z, (z < nS m)%nat -> y z = occ_op y z.
Definition l1 (x : nat -> R) : R := sumf (nS m) (fun z => Rabs (x z)).

Lemma l1_nonneg x : 0 <= l1 x.
Proof. apply sumf_nonneg. intros; apply Rabs_pos. Qed.

(* sum_z | sum_s d s * P s z | <= sum_s |d s| *)
Lemma flow_l1 d :
  wf m -> wfpol m pi ->
  sumf (nS m) (fun z => Rabs (sumf (nS m) (fun s => d s * Ppi s z))) <= l1 d.
Proof.
  intros Wf Wp.
  eapply Rle_trans.
  - apply (sumf_le (nS m) _ (fun z => sumf (nS m) (fun s => Rabs (d s) * Ppi s z))).
    intros z Hz. eapply Rle_trans; [apply sumf_abs|]. apply sumf_le. intros s Hs.
    rewrite Rabs_mult, (Rabs_right (Ppi s z)); [lra|]. apply Rle_ge, Ppi_nonneg; auto.
  - rewrite sumf_swap. unfold l1. apply sumf_le. intros s Hs. rewrite sumf_scal.
    pose proof (Ppi_rowsum s Wf Wp Hs). pose proof (Rabs_pos (d s)). nra.
Qed.

Lemma occ_op_contract x y :
  wf m -> wfpol m pi ->
  l1 (fun z => occ_op x z - occ_op y z) <= gamma m * l1 (fun s => x s - y s).
Proof.
  intros Wf Wp. pose proof (wf_gamma0 m Wf) as G0. unfold l1 at 1.
  rewrite (sumf_ext _ _ (fun z => gamma m * Rabs (sumf (nS m) (fun s => (x s - y s) * Ppi s z)))).
  - rewrite sumf_scal. apply Rmult_le_compat_l; auto. apply (flow_l1 (fun s => x s - y s)); auto.
  - intros z Hz. unfold occ_op.
    replace (init m z + gamma m * sumf (nS m) (fun s => x s * Ppi s z)
             - (init m z + gamma m * sumf (nS m) (fun s => y s * Ppi s z)))
      with (gamma m * (sumf (nS m) (fun s => x s * Ppi s z) - sumf (nS m) (fun s => y s * Ppi s z))) by lra.
    rewrite <- sumf_minus, Rabs_mult, (Rabs_right (gamma m)) by lra.
    f_equal. f_equal. apply sumf_ext. intros; lra.
Qed.

Theorem occ_residual_bound x y delta :
  wf m -> wfpol m pi -> gamma m < 1 -> occfix y ->
  (forall z, (z < nS m)%nat -> Rabs (x z - occ_op x z) <= delta) ->
  l1 (fun z => x z - y z) <= INR (nS m) * delta / (1 - gamma m).
Proof.
  intros Wf Wp G1 Hy Hres. pose proof (wf_gamma0 m Wf) as G0.
  set (D := l1 (fun z => x z - y z)).
  assert (H : D <= INR (nS m) * delta + gamma m * D).
  { eapply Rle_trans; [|apply Rplus_le_compat_l, (occ_op_contract x y Wf Wp)].
    rewrite <- sumf_const. unfold D, l1. rewrite <- sumf_plus. apply sumf_le. intros z Hz.
    specialize (Hres z Hz). rewrite (Hy z Hz) at 1.
    replace (x z - occ_op y z) with ((x z - occ_op x z) + (occ_op x z - occ_op y z)) by lra.
    eapply Rle_trans; [apply Rabs_triang|]. lra. }
  apply Rmult_le_reg_r with (1 - gamma m); [lra|].
  unfold Rdiv. rewrite Rmult_assoc, Rinv_l; lra.
Qed.

Corollary occfix_unique y1 y2 :
  wf m -> wfpol m pi -> gamma m < 1 -> occfix y1 -> occfix y2 ->
  forall z, (z < nS m)%nat -> y1 z = y2 z.
Proof.
  intros Wf Wp G1 H1 H2 z Hz.
  assert (H : l1 (fun z => y1 z - y2 z) <= INR (nS m) * 0 / (1 - gamma m)).
  { apply occ_residual_bound; auto. intros z' Hz'. rewrite <- (H1 z' Hz').
    replace (y1 z' - y1 z') with 0 by lra. rewrite Rabs_R0; lra. }
  replace (INR (nS m) * 0 / (1 - gamma m)) with 0 in H by (unfold Rdiv; lra).
  (* every term of a zero l1 norm is zero *)
  assert (Hall : forall n, (n <= nS m)%nat -> sumf n (fun z => Rabs (y1 z - y2 z)) <= 0 ->
                 forall i, (i < n)%nat -> y1 i = y2 i).
  { induction n; intros Hn Hsum i Hi; [lia|]. rewrite sumf_S in Hsum.
    assert (0 <= sumf n (fun z => Rabs (y1 z - y2 z))) by (apply sumf_nonneg; intros; apply Rabs_pos).
    pose proof (Rabs_pos (y1 n - y2 n)).
    destruct (Nat.eq_dec i n) as [->|Hne].
    - destruct (Req_dec (y1 n - y2 n) 0) as [|Hnz]; [lra|]. apply Rabs_pos_lt in Hnz. lra.
    - apply IHn; [lia|lra|lia]. }
  apply (Hall (nS m)); auto.
Qed.

(* K-step truncated occupancy and its meaning: sum_{t<K} gamma^t Pr(s_t = z) *)
Fixpoint occn (K : nat) : nat -> R :=
  match K with O => fun _ => 0 | S K' => occ_op (occn K') end.
(* state distribution after t steps of the policy's chain (absorbing states stop it) *)
Fixpoint dist (t : nat) : nat -> R :=
  match t with O => init m | S t' => fun z => sumf (nS m) (fun s => dist t' s * Ppi s z) end.

Theorem occn_series K z :
  occn K z = sumf K (fun t => gamma m ^ t * dist t z).
Proof.
  revert z. induction K; intros z; [reflexivity|].
  simpl occn. unfold occ_op. rewrite sumf_shift. simpl pow. simpl dist at 1. rewrite Rmult_1_l. f_equal.
  rewrite (sumf_ext _ _ (fun s => sumf K (fun t => gamma m ^ t * dist t s * Ppi s z))).
  2:{ intros s Hs. rewrite IHK, <- sumf_scal_r. reflexivity. }
  rewrite sumf_swap, <- sumf_scal. apply sumf_ext. intros t Ht. simpl pow. simpl dist.
  replace (sumf (nS m) (fun s => gamma m ^ t * dist t s * Ppi s z))
    with (gamma m ^ t * sumf (nS m) (fun s => dist t s * Ppi s z)); [ring|].
  rewrite <- sumf_scal. apply sumf_ext. intros; lra.
Qed.

Theorem occn_tail y :
  wf m -> wfpol m pi -> occfix y ->
  forall K, l1 (fun z => y z - occn K z) <= gamma m ^ K * l1 y.
Proof.
  intros Wf Wp Hy. pose proof (wf_gamma0 m Wf) as G0.
  induction K.
  - simpl. rewrite Rmult_1_l. unfold l1. apply Req_le. apply sumf_ext. intros; f_equal; lra.
  - simpl occn. simpl pow. rewrite Rmult_assoc.
    eapply Rle_trans; [|apply Rmult_le_compat_l; [exact G0|exact IHK]].
    eapply Rle_trans; [|apply (occ_op_contract y (occn K) Wf Wp)].
    unfold l1. apply Req_le. apply sumf_ext. intros z Hz. now rewrite <- (Hy z Hz).
Qed.

(* initial value two ways: init . V = occ . r_pi *)
Theorem initial_value_duality V y :
  fixpol m pi V -> occfix y ->
  sumf (nS m) (fun s => init m s * V s) = sumf (nS m) (fun s => y s * rpi s).
Proof.
  intros HV Hy.
  assert (H1 : sumf (nS m) (fun s => y s * rpi s)
               = sumf (nS m) (fun s => y s * V s)
                 - gamma m * sumf (nS m) (fun s => sumf (nS m) (fun z => y s * Ppi s z * V z))).
  { rewrite <- sumf_scal, <- sumf_minus. apply sumf_ext. intros s Hs.
    pose proof (HV s Hs) as E. rewrite Tpol_linear in E.
    assert (X : sumf (nS m) (fun z => y s * Ppi s z * V z) = y s * sumf (nS m) (fun z => Ppi s z * V z)).
    { rewrite <- sumf_scal. apply sumf_ext. intros; lra. }
    rewrite X. set (S := sumf (nS m) (fun z => Ppi s z * V z)) in *. rewrite E. ring. }
  assert (H2 : sumf (nS m) (fun s => init m s * V s)
               = sumf (nS m) (fun z => y z * V z)
                 - gamma m * sumf (nS m) (fun z => sumf (nS m) (fun s => y s * Ppi s z * V z))).
  { rewrite <- sumf_scal, <- sumf_minus. apply sumf_ext. intros z Hz.
    pose proof (Hy z Hz) as E. unfold occ_op in E.
    assert (X : sumf (nS m) (fun s => y s * Ppi s z * V z) = sumf (nS m) (fun s => y s * Ppi s z) * V z).
    { rewrite <- sumf_scal_r. reflexivity. }
    rewrite X. set (S := sumf (nS m) (fun s => y s * Ppi s z)) in *. rewrite E. ring. }
  rewrite H1, H2. f_equal. f_equal. apply sumf_swap.
Qed.

End PolicyTheory.

(* ------------------------------------------------------------------ *)
(* C. soundness of the discounted checker c02_disc                      *)
(* ------------------------------------------------------------------ *)
Definition all_true (n : nat) : list bool := repeat true n.

Lemma wfpolb_wfpol (m : mdp R) pi : wfpolb m pi = true -> wfpol m pi.
Proof.
  unfold wfpolb. rewrite forallbn_spec. intros H. constructor.
  - intros s a Hs Ha. specialize (H s Hs). apply andb_true_iff in H as [_ H].
    rewrite forallbn_spec in H. specialize (H a Ha). apply andb_true_iff in H as [H _].
    now apply nleb_Rle in H.
  - intros s Hs. specialize (H s Hs). apply andb_true_iff in H as [H _]. now apply neqb_Req in H.
  - intros s a Hs Ha Hav. specialize (H s Hs). apply andb_true_iff in H as [_ H].
    rewrite forallbn_spec in H. specialize (H a Ha). apply andb_true_iff in H as [_ H].
    rewrite Hav in H. simpl in H. now apply neqb_Req in H.
Qed.

Lemma wfinitb_spec (m : mdp R) :
  wfinitb m = true -> sumf (nS m) (init m) = 1 /\ forall s, (s < nS m)%nat -> 0 <= init m s.
Proof.
  unfold wfinitb. rewrite andb_true_iff, forallbn_spec. intros [H1 H2]. split.
  - now apply neqb_Req in H1.
  - intros s Hs. apply nleb_Rle. auto.
Qed.

Section DiscChecker.
Variable m : mdp R.
Variable pi : nat -> nat -> R.
Variable o : @evalout R.
Variable t : @etols R.
Hypothesis Hchk : c02_disc m pi o t = all_true 10.

Notation Vf := (Vf o).
Notation Of := (Of o).

Lemma disc_clauses :
  wfb m = true /\ wfpolb m pi = true /\ wfinitb m = true /\ d_disc m = true /\ d_fin m o = true /\
  c_abs0 m o = true /\ d_v m pi o t = true /\ d_q m o t = true /\ d_occ m pi o t = true /\
  d_init m pi o t = true.
Proof. unfold c02_disc, all_true in Hchk. simpl in Hchk. inversion Hchk. repeat split; reflexivity. Qed.

Lemma disc_wf : wf m.
Proof. apply wfb_wf, disc_clauses. Qed.
Lemma disc_wfpol : wfpol m pi.
Proof. apply wfpolb_wfpol, disc_clauses. Qed.
Lemma disc_gamma : gamma m < 1.
Proof. destruct disc_clauses as (_ & _ & _ & H & _). unfold d_disc in H. apply nltb_R in H. exact H. Qed.
Lemma disc_mask s : masked m s = absorbing m s.
Proof. apply masked_disc, disc_gamma. Qed.

Lemma disc_V_fin s : (s < nS m)%nat -> eV o s = Fin (Vf s).
Proof.
  intros Hs. destruct disc_clauses as (_ & _ & _ & _ & H & _). unfold d_fin in H.
  apply andb_true_iff in H as [H _]. rewrite forallbn_spec in H. specialize (H s Hs).
  apply andb_true_iff in H as [H _]. unfold PolicyEval.Vf. destruct (eV o s); try discriminate. reflexivity.
Qed.
Lemma disc_occ_fin s : (s < nS m)%nat -> eOcc o s = Fin (Of s).
Proof.
  intros Hs. destruct disc_clauses as (_ & _ & _ & _ & H & _). unfold d_fin in H.
  apply andb_true_iff in H as [H _]. rewrite forallbn_spec in H. specialize (H s Hs).
  apply andb_true_iff in H as [_ H]. unfold PolicyEval.Of. destruct (eOcc o s); try discriminate. reflexivity.
Qed.
Lemma disc_init_fin : eInit o = Fin (fin0 (eInit o)).
Proof.
  destruct disc_clauses as (_ & _ & _ & _ & H & _). unfold d_fin in H.
  apply andb_true_iff in H as [_ H]. destruct (eInit o); try discriminate. reflexivity.
Qed.

Lemma disc_residual s : (s < nS m)%nat -> Rabs (Vf s - Tpol m pi Vf s) <= tolV t.
Proof.
  intros Hs. destruct disc_clauses as (_ & _ & _ & _ & _ & _ & H & _). unfold d_v in H.
  rewrite forallbn_spec in H. specialize (H s Hs). now apply ncloseb_R in H.
Qed.

(* 1. state values: within tolV/(1-gamma) of THE value function of the policy *)
Theorem eval_values Vpi :
  0 <= tolV t -> fixpol m pi Vpi ->
  forall s, (s < nS m)%nat -> Rabs (Vf s - Vpi s) <= tolV t / (1 - gamma m).
Proof.
  intros Ht Hfix.
  apply (residual_bound_pol m pi Vf Vpi (tolV t) disc_wf disc_wfpol disc_gamma Hfix Ht).
  intros s Hs. apply disc_residual; auto.
Qed.

(* the system the reported values solve (up to tolV), as the code writes it *)
Theorem eval_bellman_v s :
  (s < nS m)%nat ->
  Rabs (Vf s - (rpi m pi s + gamma m * sumf (nS m) (fun z => Ppi m pi s z * Vf z))) <= tolV t.
Proof.
  intros Hs. rewrite <- (Tpol_linear m pi disc_mask). apply disc_residual; auto.
Qed.

(* 2. absorbing states are worth exactly 0 *)
Theorem eval_absorbing_zero s :
  (s < nS m)%nat -> absorbing m s = true -> eV o s = Fin 0.
Proof.
  intros Hs Hab. destruct disc_clauses as (_ & _ & _ & _ & _ & H & _). unfold c_abs0 in H.
  rewrite forallbn_spec in H. specialize (H s Hs). rewrite Hab in H.
  destruct (eV o s); try discriminate. apply neqb_Req in H. now subst.
Qed.

(* 3. action values *)
Lemma Qval_unmasked V s a :
  absorbing m s = false ->
  Qval m V s a = sa_reward m s a + gamma m * sumf (nS m) (fun ns => P m s a ns * V ns).
Proof. intros Hab. rewrite Qval_R. unfold Rm, Pm. rewrite disc_mask, Hab. reflexivity. Qed.

Theorem eval_q_pattern s a :
  (s < nS m)%nat -> (a < nA m)%nat ->
  (avail m s a = false <-> eQ o s a = NInf) /\ (avail m s a = true <-> exists x, eQ o s a = Fin x).
Proof.
  intros Hs Ha. destruct disc_clauses as (_ & _ & _ & _ & _ & _ & _ & H & _). unfold d_q in H.
  rewrite forallbn_spec in H. specialize (H s Hs). rewrite forallbn_spec in H. specialize (H a Ha).
  destruct (eQ o s a) eqn:E; try discriminate.
  - apply andb_true_iff in H as [H _]. rewrite H. split; split; try discriminate; eauto.
  - apply negb_true_iff in H. rewrite H. split; split; try discriminate; auto.
    intros (x & Hx). discriminate.
Qed.

Theorem eval_q Vpi s a :
  0 <= tolV t -> fixpol m pi Vpi ->
  (s < nS m)%nat -> (a < nA m)%nat -> absorbing m s = false -> avail m s a = true ->
  exists x, eQ o s a = Fin x /\
    Rabs (x - (sa_reward m s a + gamma m * sumf (nS m) (fun ns => P m s a ns * Vf ns))) <= tolQ t /\
    Rabs (x - (sa_reward m s a + gamma m * sumf (nS m) (fun ns => P m s a ns * Vpi ns)))
      <= tolQ t + gamma m * (tolV t / (1 - gamma m)).
Proof.
  intros Ht Hfix Hs Ha Hab Hav.
  destruct disc_clauses as (_ & _ & _ & _ & _ & _ & _ & H & _). unfold d_q in H.
  rewrite forallbn_spec in H. specialize (H s Hs). rewrite forallbn_spec in H. specialize (H a Ha).
  destruct (eQ o s a) eqn:E; try discriminate.
  2:{ rewrite Hav in H. discriminate. }
  exists x. split; [reflexivity|].
  apply andb_true_iff in H as [_ H]. rewrite Hab, orb_false_l in H. apply ncloseb_R in H.
  rewrite <- (Qval_unmasked Vf s a Hab), <- (Qval_unmasked Vpi s a Hab). split; [exact H|].
  assert (HD0 : 0 <= tolV t / (1 - gamma m)).
  { apply Rmult_le_pos; [lra|]. left. apply Rinv_0_lt_compat. pose proof disc_gamma. lra. }
  pose proof (Qval_diff m Vf Vpi s a _ disc_wf Hs Ha (eval_values Vpi Ht Hfix) HD0) as HQ.
  apply Rabs_le_inv' in H. apply Rabs_le_inv' in HQ. apply Rabs_le. lra.
Qed.

(* 4. occupancy *)
Theorem eval_occupancy_eq z :
  (z < nS m)%nat ->
  Rabs (Of z - (init m z + gamma m * sumf (nS m) (fun s => Of s * Ppi m pi s z))) <= tolO t.
Proof.
  intros Hz. destruct disc_clauses as (_ & _ & _ & _ & _ & _ & _ & _ & H & _). unfold d_occ in H.
  rewrite forallbn_spec in H. specialize (H z Hz). now apply ncloseb_R in H.
Qed.

Theorem eval_occupancy y :
  occfix m pi y ->
  l1 m (fun z => Of z - y z) <= INR (nS m) * tolO t / (1 - gamma m).
Proof.
  intros Hy.
  apply (occ_residual_bound m pi disc_mask Of y (tolO t) disc_wf disc_wfpol disc_gamma Hy).
  intros z Hz. apply eval_occupancy_eq; auto.
Qed.

(* 5. initial value *)
Theorem eval_initial_value :
  Rabs (fin0 (eInit o) - sumf (nS m) (fun s => init m s * Vf s)) <= tolI t /\
  Rabs (fin0 (eInit o) - sumf (nS m) (fun s => Of s * rpi m pi s)) <= tolJ t.
Proof.
  destruct disc_clauses as (_ & _ & _ & _ & _ & _ & _ & _ & _ & H). unfold d_init in H.
  apply andb_true_iff in H as [H1 H2]. apply ncloseb_R in H1. apply ncloseb_R in H2. auto.
Qed.

Theorem eval_initial_value_true Vpi :
  0 <= tolV t -> fixpol m pi Vpi ->
  Rabs (fin0 (eInit o) - sumf (nS m) (fun s => init m s * Vpi s)) <= tolI t + tolV t / (1 - gamma m).
Proof.
  intros Ht Hfix. destruct eval_initial_value as [H1 _].
  destruct disc_clauses as (_ & _ & Hi & _). apply wfinitb_spec in Hi as [Hi1 Hi0].
  assert (H2 : Rabs (sumf (nS m) (fun s => init m s * Vf s) - sumf (nS m) (fun s => init m s * Vpi s))
               <= sumf (nS m) (init m) * (tolV t / (1 - gamma m))).
  { apply wsum_diff_bound; auto. apply eval_values; auto. }
  rewrite Hi1 in H2. apply Rabs_le_inv' in H1. apply Rabs_le_inv' in H2. apply Rabs_le. lra.
Qed.

End DiscChecker.

Lemma fixpolb_fixpol (m : mdp R) pi (V : list R) : fixpolb m pi V = true -> fixpol m pi (untab V).
Proof.
  unfold fixpolb. rewrite forallbn_spec. intros H s Hs. specialize (H s Hs).
  apply neqb_Req in H. exact H.
Qed.
Lemma occfixb_occfix (m : mdp R) pi (Oc : list R) : occfixb m pi Oc = true -> occfix m pi (untab Oc).
Proof.
  unfold occfixb. rewrite forallbn_spec. intros H z Hz. specialize (H z Hz).
  apply neqb_Req in H. exact H.
Qed.
