(* SearchInv.v — C05: the invariant shared by the proofs of the two search loops
   (closed list with optimal costs, open set, predecessor map), for an arbitrary
   edge weight w (w = e_cost for A-star, w = 1 for breadth-first search). *)
From Coq Require Import List Arith ZArith Bool Lia.
From MSDM Require Import model.Search theory.SearchTheory.
Import ListNotations.
Local Open Scope Z_scope.

(* ---- association lists ---- *)
Lemma memn_In x l : memn x l = true <-> In x l.
Proof.
  unfold memn. rewrite existsb_exists. split.
  - intros [y [Hy E]]. apply Nat.eqb_eq in E. now subst.
  - intros H. exists x. split; auto. apply Nat.eqb_refl.
Qed.

Lemma memn_false x l : memn x l = false <-> ~ In x l.
Proof. rewrite <- memn_In. destruct (memn x l); split; congruence. Qed.

Lemma lookup_cons_eq {A} k (v : A) l : lookup k ((k, v) :: l) = Some v.
Proof. simpl. now rewrite Nat.eqb_refl. Qed.

Lemma lookup_cons_neq {A} k k' (v : A) l : k <> k' -> lookup k ((k', v) :: l) = lookup k l.
Proof. intros H. simpl. apply Nat.eqb_neq in H. now rewrite H. Qed.

Lemma lookup_del_eq {A} k (l : list (nat * A)) : lookup k (del k l) = None.
Proof.
  induction l as [|[k' v] l IH]; simpl; auto.
  destruct (k =? k')%nat eqn:E; simpl; auto. now rewrite E.
Qed.

Lemma lookup_del_neq {A} k k' (l : list (nat * A)) : k <> k' -> lookup k (del k' l) = lookup k l.
Proof.
  intros H. induction l as [|[k2 v] l IH]; simpl; auto.
  destruct (k' =? k2)%nat eqn:E; simpl.
  - apply Nat.eqb_eq in E. subst k2. apply Nat.eqb_neq in H. now rewrite H.
  - destruct (k =? k2)%nat; auto.
Qed.

Lemma in_map_fst {A B} (x : A) (y : B) l : In (x, y) l -> In x (map fst l).
Proof. intros H. apply in_map_iff. exists (x, y). auto. Qed.

Lemma NoDup_fst_unique {A B} (l : list (A * B)) x y1 y2 :
  NoDup (map fst l) -> In (x, y1) l -> In (x, y2) l -> y1 = y2.
Proof.
  induction l as [|[a b] l IH]; simpl; intros N H1 H2; [contradiction|].
  inversion N; subst. destruct H1 as [E1 | H1], H2 as [E2 | H2].
  - congruence.
  - inversion E1; subst. exfalso. apply H3. eapply in_map_fst; eauto.
  - inversion E2; subst. exfalso. apply H3. eapply in_map_fst; eauto.
  - eauto.
Qed.

Section Generic.
Variable g : graph.
Variable start : nat.
Variable w : edge -> Z.

Definition wcost (p : list edge) : Z := fold_right (fun e acc => w e + acc) 0 p.

Lemma wcost_app p q : wcost (p ++ q) = wcost p + wcost q.
Proof. induction p as [|e p IH]; simpl; [lia|]. rewrite IH. lia. Qed.

Definition came := list (nat * (nat * nat)).

(* t, reached at cost gt, hangs off a closed state through its predecessor entry *)
Definition linked (C : came) (V : list (nat * Z)) (t : nat) (gt : Z) : Prop :=
  exists x a gx e, lookup t C = Some (x, a) /\ In (x, gx) V /\ In e (g_succ g x) /\
                   e_act e = a /\ e_dst e = t /\ gt = gx + w e /\ t <> start.

(* the closed list, newest first: every entry hangs off an older one *)
Inductive chain (C : came) : list (nat * Z) -> Prop :=
| chain_nil : chain C []
| chain_start : chain C [(start, 0)]
| chain_cons : forall t gt rest,
    chain C rest -> linked C rest t gt -> ~ In t (map fst rest) -> chain C ((t, gt) :: rest).

Lemma linked_weaken C V z t gt : linked C V t gt -> linked C (z :: V) t gt.
Proof.
  intros [x [a [gx [e [H1 [H2 H3]]]]]]. exists x, a, gx, e. split; auto. split; auto. now right.
Qed.

Lemma linked_ext C V t gt k v : k <> t -> linked C V t gt -> linked ((k, v) :: C) V t gt.
Proof.
  intros Hk [x [a [gx [e [H1 H2]]]]]. exists x, a, gx, e. split; auto.
  rewrite lookup_cons_neq; auto.
Qed.

Lemma chain_nodup C V : chain C V -> NoDup (map fst V).
Proof.
  induction 1; simpl.
  - constructor.
  - constructor; [intros [] | constructor].
  - constructor; auto.
Qed.

Lemma chain_ext C V k v : chain C V -> ~ In k (map fst V) -> chain ((k, v) :: C) V.
Proof.
  induction 1; intros Hk.
  - constructor.
  - constructor.
  - simpl in Hk. constructor; auto.
    apply linked_ext; auto.
Qed.

Lemma verts_snoc s p e : verts s (p ++ [e]) = verts s p ++ [e_dst e].
Proof. unfold verts. rewrite map_app. reflexivity. Qed.

Lemma recon_step C V t gt fuel :
  (forall x gx, In (x, gx) V ->
     exists p, recon fuel C start x = Some (verts start p, map e_act p) /\ walk g start p x /\ wcost p = gx) ->
  linked C V t gt ->
  exists p, recon (S fuel) C start t = Some (verts start p, map e_act p) /\ walk g start p t /\ wcost p = gt.
Proof.
  intros IH [x [a [gx [e [L [Hx [He [Ea [Ed [Eg Hne]]]]]]]]]].
  destruct (IH _ _ Hx) as [p [R [W Cst]]].
  exists (p ++ [e]). simpl. apply Nat.eqb_neq in Hne. rewrite Hne, L, R.
  rewrite verts_snoc, map_app. simpl. rewrite Ea, Ed. split; auto. split.
  - rewrite <- Ed. eapply walk_snoc; eauto.
  - rewrite wcost_app. simpl. lia.
Qed.

(* reconstruct_path succeeds on closed states and returns a real walk of the recorded cost *)
Lemma recon_chain C V : chain C V -> forall t gt fuel, In (t, gt) V -> (length V <= fuel)%nat ->
  exists p, recon fuel C start t = Some (verts start p, map e_act p) /\ walk g start p t /\ wcost p = gt.
Proof.
  induction 1 as [| | t0 g0 rest Hc IH Hl Hn]; intros t gt fuel Hin Hf.
  - contradiction.
  - destruct Hin as [E | []]. inversion E; subst. simpl in Hf.
    destruct fuel; [lia|]. exists []. simpl. rewrite Nat.eqb_refl. repeat split. constructor.
  - simpl in Hf. destruct fuel as [|fuel]; [lia|]. destruct Hin as [E | Hin].
    + inversion E; subst. apply recon_step with (V := rest); auto.
      intros x gx Hx. apply IH; auto. lia.
    + apply IH; auto. lia.
Qed.

Lemma recon_open C V t gt : chain C V -> linked C V t gt ->
  exists p, recon (S (length V)) C start t = Some (verts start p, map e_act p) /\ walk g start p t /\ wcost p = gt.
Proof.
  intros Hc Hl. apply recon_step with (V := V); auto.
  intros x gx Hx. eapply recon_chain; eauto.
Qed.

(* ---- the invariant ----
   C predecessor map, V closed list (state, cost), Op open set (state, cost),
   (ps, pend): the state under expansion and its transitions still to be relaxed *)
Record sinv (C : came) (V : list (nat * Z)) (Op : nat -> Z -> Prop) (ps : nat) (pend : list edge) : Prop := {
  s_ch : chain C V;
  s_opr : forall t gt, Op t gt -> (V = [] /\ t = start /\ gt = 0) \/ linked C V t gt;
  s_opv : forall t gt, Op t gt -> ~ In t (map fst V);
  s_st : (V = [] /\ Op start 0) \/ In (start, 0) V;
  s_ed : forall x gx e, In (x, gx) V -> In e (g_succ g x) ->
           (exists gy, In (e_dst e, gy) V /\ gy <= gx + w e) \/
           (exists gy, Op (e_dst e) gy /\ gy <= gx + w e) \/
           (x = ps /\ In e pend);
  s_opt : forall x gx p, In (x, gx) V -> walk g start p x -> gx <= wcost p
}.

Lemma closed_realised C V Op ps pend x gx :
  sinv C V Op ps pend -> In (x, gx) V -> exists p, walk g start p x /\ wcost p = gx.
Proof.
  intros I Hx. destruct (recon_chain C V (s_ch _ _ _ _ _ I) x gx (length V) Hx (le_n _)) as [p [_ [W E]]].
  eauto.
Qed.

Lemma closed_edge_bound C V Op ps pend x gx e gy :
  sinv C V Op ps pend -> In (x, gx) V -> In e (g_succ g x) -> In (e_dst e, gy) V -> gy <= gx + w e.
Proof.
  intros I Hx He Hy. destruct (closed_realised _ _ _ _ _ _ _ I Hx) as [p [W E]].
  pose proof (s_opt _ _ _ _ _ I _ _ (p ++ [e]) Hy (walk_snoc _ _ _ _ _ W He)) as H.
  rewrite wcost_app in H. simpl in H. lia.
Qed.

(* every walk from the start to a state that is not closed crosses the open set, and the open
   entry it crosses costs no more than the part of the walk before it *)
Lemma frontier_gen C V Op ps : sinv C V Op ps [] ->
  forall v p u, walk g v p u -> forall K gv, (In (v, gv) V \/ Op v gv) -> gv <= K -> ~ In u (map fst V) ->
  exists p1 p2 y gy, p = p1 ++ p2 /\ walk g v p1 y /\ walk g y p2 u /\ Op y gy /\ gy <= K + wcost p1.
Proof.
  intros I v p u W. induction W as [v | v e p u He W IH]; intros K gv Hv Hle Hu.
  - destruct Hv as [Hv | Hv].
    + exfalso. apply Hu. eapply in_map_fst; eauto.
    + exists [], [], v, gv. simpl. repeat split; try constructor; auto. lia.
  - destruct Hv as [Hv | Hv].
    + destruct (s_ed _ _ _ _ _ I _ _ _ Hv He) as [[gy [Hy Hb]] | [[gy [Hy Hb]] | [_ []]]].
      * destruct (IH (K + w e) gy (or_introl Hy)) as [p1 [p2 [y [gy' [E [W1 [W2 [O B]]]]]]]]; auto; [lia|].
        exists (e :: p1), p2, y, gy'. simpl. rewrite E. repeat split; auto; [constructor; auto | lia].
      * destruct (IH (K + w e) gy (or_intror Hy)) as [p1 [p2 [y [gy' [E [W1 [W2 [O B]]]]]]]]; auto; [lia|].
        exists (e :: p1), p2, y, gy'. simpl. rewrite E. repeat split; auto; [constructor; auto | lia].
    + exists [], (e :: p), v, gv. simpl. repeat split; try constructor; auto. lia.
Qed.

Lemma frontier C V Op ps : sinv C V Op ps [] ->
  forall p u, walk g start p u -> ~ In u (map fst V) ->
  exists p1 p2 y gy, p = p1 ++ p2 /\ walk g start p1 y /\ walk g y p2 u /\ Op y gy /\ gy <= wcost p1.
Proof.
  intros I p u W Hu.
  assert (Hs : In (start, 0) V \/ Op start 0).
  { destruct (s_st _ _ _ _ _ I) as [[_ H] | H]; auto. }
  destruct (frontier_gen _ _ _ _ I _ _ _ W 0 0 Hs (Z.le_refl _) Hu) as [p1 [p2 [y [gy [E [W1 [W2 [O B]]]]]]]].
  exists p1, p2, y, gy. repeat split; auto.
Qed.

(* closing an open state whose cost is below every walk to it *)
Lemma sinv_close C V Op ps s gs (Op' : nat -> Z -> Prop) pend :
  sinv C V Op ps [] -> Op s gs ->
  (forall p, walk g start p s -> gs <= wcost p) ->
  (forall t gt, Op' t gt <-> Op t gt /\ t <> s) ->
  (forall e, In e (g_succ g s) -> In e pend) ->
  sinv C ((s, gs) :: V) Op' s pend.
Proof.
  intros I Hs Hmin HO Hp.
  assert (Hsv : (V = [] /\ s = start /\ gs = 0) \/ linked C V s gs) by (eapply s_opr; eauto).
  assert (Hempty : V = [] -> s = start /\ gs = 0).
  { intros E. destruct Hsv as [[_ H] | [x [a [gx [e [_ [Hx _]]]]]]]; auto. subst V. contradiction. }
  constructor.
  - destruct Hsv as [[E [E1 E2]] | L].
    + subst. constructor.
    + constructor; auto. apply (s_ch _ _ _ _ _ I). eapply s_opv; eauto.
  - intros t gt Ht. apply HO in Ht. destruct Ht as [Ht Hne]. right.
    destruct (s_opr _ _ _ _ _ I _ _ Ht) as [[E [E1 E2]] | L].
    + destruct (Hempty E). congruence.
    + apply linked_weaken; auto.
  - intros t gt Ht. apply HO in Ht. destruct Ht as [Ht Hne]. simpl. intros [E | Hin]; [congruence|].
    eapply s_opv; eauto.
  - right. destruct (s_st _ _ _ _ _ I) as [[E _] | H]; [|now right].
    destruct (Hempty E) as [-> ->]. now left.
  - intros x gx e Hx He. destruct Hx as [E | Hx].
    + inversion E; subst. right. right. auto.
    + destruct (s_ed _ _ _ _ _ I _ _ _ Hx He) as [[gy [Hy Hb]] | [[gy [Hy Hb]] | [_ []]]].
      * left. exists gy. split; auto. now right.
      * destruct (Nat.eq_dec (e_dst e) s) as [E | Hne].
        -- left. exists gs. split; [left; now rewrite E|].
           destruct (closed_realised _ _ _ _ _ _ _ I Hx) as [p [W Ec]].
           assert (W' : walk g start (p ++ [e]) s) by (rewrite <- E; eapply walk_snoc; eauto).
           specialize (Hmin _ W'). rewrite wcost_app in Hmin. simpl in Hmin. lia.
        -- right. left. exists gy. split; auto. apply HO. auto.
  - intros x gx p Hx W. destruct Hx as [E | Hx].
    + inversion E; subst. auto.
    + eapply s_opt; eauto.
Qed.

(* the transition at the head of the pending list needs no push *)
Lemma sinv_discharge C V Op s gs e pend :
  sinv C V Op s (e :: pend) -> In (s, gs) V -> In e (g_succ g s) ->
  (In (e_dst e) (map fst V) \/ exists gy, Op (e_dst e) gy /\ gy <= gs + w e) ->
  sinv C V Op s pend.
Proof.
  intros I Hs He Hd. constructor; try apply I.
  intros x gx e' Hx He'.
  destruct (s_ed _ _ _ _ _ I _ _ _ Hx He') as [H | [H | [Ex [Ee | Hin]]]]; auto.
  subst e' x.
  assert (gx = gs) by (eapply NoDup_fst_unique; eauto; eapply chain_nodup; apply I). subst gx.
  destruct Hd as [Hd | Hd]; auto.
  left. apply in_map_iff in Hd. destruct Hd as [[y gy] [Ey Hy]]. simpl in Ey. subst y.
  exists gy. split; auto. eapply closed_edge_bound; eauto.
Qed.

(* ... or it is pushed: a new (or strictly better) open entry for its target *)
Lemma sinv_push C V Op s gs e pend (Op' : nat -> Z -> Prop) :
  sinv C V Op s (e :: pend) -> In (s, gs) V -> In e (g_succ g s) ->
  ~ In (e_dst e) (map fst V) ->
  (forall gy, Op (e_dst e) gy -> gs + w e <= gy) ->
  Op' (e_dst e) (gs + w e) ->
  (forall gt, Op' (e_dst e) gt -> gt = gs + w e) ->
  (forall y gy, y <> e_dst e -> (Op' y gy <-> Op y gy)) ->
  sinv ((e_dst e, (s, e_act e)) :: C) V Op' s pend.
Proof.
  intros I Hs He Hnv Himp Hnew Hfun Hoth.
  assert (Hst : In (start, 0) V).
  { destruct (s_st _ _ _ _ _ I) as [[E _] | H]; auto. subst V. contradiction. }
  assert (Hne : e_dst e <> start).
  { intros E. apply Hnv. rewrite E. eapply in_map_fst; eauto. }
  constructor.
  - apply chain_ext; auto. apply I.
  - intros t gt Ht. right. destruct (Nat.eq_dec t (e_dst e)) as [E | Hn].
    + subst t. apply Hfun in Ht. subst gt.
      exists s, (e_act e), gs, e. rewrite lookup_cons_eq. repeat split; auto.
    + apply Hoth in Ht; auto. destruct (s_opr _ _ _ _ _ I _ _ Ht) as [[E _] | L].
      * subst V. contradiction.
      * apply linked_ext; auto.
  - intros t gt Ht. destruct (Nat.eq_dec t (e_dst e)) as [E | Hn].
    + now subst t.
    + apply Hoth in Ht; auto. eapply s_opv; eauto.
  - now right.
  - intros x gx e' Hx He'.
    destruct (s_ed _ _ _ _ _ I _ _ _ Hx He') as [H | [[gy [Hy Hb]] | [Ex [Ee | Hin]]]]; auto.
    + right. left. destruct (Nat.eq_dec (e_dst e') (e_dst e)) as [E | Hn].
      * exists (gs + w e). rewrite E. split; auto. rewrite E in Hy. specialize (Himp _ Hy). lia.
      * exists gy. split; auto. apply Hoth; auto.
    + subst e' x.
      assert (gx = gs) by (eapply NoDup_fst_unique; eauto; eapply chain_nodup; apply I). subst gx.
      right. left. exists (gs + w e). split; auto. lia.
  - apply I.
Qed.

End Generic.
