(* GridGameMirror.v — C18: theorems about the mirror model/GridGame.v:gg_next_state_dist,
   for ALL layouts (any size, any obstacles/walls/fences/goals), any number of agents,
   all valid states and all joint actions made of unit steps. *)
From Coq Require Import QArith Qabs List Bool ZArith Arith Lia Lqa.
From MSDM Require Import model.FactorTable model.GridGame theory.FactorTableTheory theory.GridGameTheory.
Import ListNotations.
Local Open Scope Q_scope.

(* ================================================================== agent rows *)
Definition akeys (i : nat) : list key := [(4 * i)%nat; (4 * i + 1)%nat; (4 * i + 2)%nat; (4 * i + 3)%nat].

Lemma akeys_spec i k : In k (akeys i) <-> (4 * i <= k < 4 * i + 4)%nat.
Proof. unfold akeys. simpl. lia. Qed.

Lemma rget_agent_row i c k :
  rget k (agent_row i c) =
    if Nat.eqb k (4 * i) then Some 0%Z
    else if Nat.eqb k (4 * i + 1) then Some (Z.of_nat i)
    else if Nat.eqb k (4 * i + 2) then Some (fst c)
    else if Nat.eqb k (4 * i + 3) then Some (snd c) else None.
Proof. reflexivity. Qed.

Ltac neqb :=
  repeat match goal with
  | |- context [Nat.eqb ?a ?b] =>
      first [ replace (Nat.eqb a b) with true by (symmetry; apply Nat.eqb_eq; lia)
            | replace (Nat.eqb a b) with false by (symmetry; apply Nat.eqb_neq; lia) ]
  end.

Lemma row_cell_agent_row i c : row_cell i (agent_row i c) = c.
Proof.
  unfold row_cell, zget. rewrite !rget_agent_row. neqb. destruct c; reflexivity.
Qed.

Lemma row_cell_req i r r' : req r r' -> row_cell i r = row_cell i r'.
Proof. intro E. unfold row_cell, zget. now rewrite !E. Qed.

Lemma agent_row_wf i c : row_wf (agent_row i c).
Proof.
  unfold row_wf, agent_row. simpl map.
  repeat constructor; simpl; intuition lia.
Qed.

Lemma agent_row_keys i c : has_keys (akeys i) (agent_row i c).
Proof. intro k. unfold akeys, agent_row. simpl. tauto. Qed.

Lemma has_keys_req K r r' : req r r' -> has_keys K r -> has_keys K r'.
Proof.
  intros E H k. rewrite (H k).
  assert (A : forall s : row, In k (map fst s) <-> rget k s <> None).
  { intro s. rewrite rget_none. destruct (in_dec Nat.eq_dec k (map fst s)); tauto. }
  rewrite !A, E. tauto.
Qed.

Lemma rget_other_agent i c k : ~ In k (akeys i) -> rget k (agent_row i c) = None.
Proof. intro N. apply rget_none. intro I. apply N. now apply (agent_row_keys i c). Qed.

(* ================================================================== tables about one agent *)
Definition atab (i : nat) (P : cell -> Prop) (t : table) : Prop :=
  forall r w, In (r, w) t -> row_wf r /\ exists c, P c /\ req r (agent_row i c).

Lemma atab_weaken i (P P' : cell -> Prop) t : (forall c, P c -> P' c) -> atab i P t -> atab i P' t.
Proof.
  intros Imp H r w I. destruct (H r w I) as [W [c [Pc E]]]. split; [exact W|]. exists c. auto.
Qed.

Lemma atab_over i P t : atab i P t -> table_over (akeys i) t.
Proof.
  intros H r I. apply in_map_iff in I. destruct I as [[r0 w] [<- I]]. simpl.
  destruct (H r0 w I) as [W [c [_ E]]]. split; [|exact W].
  apply (has_keys_req _ (agent_row i c) r0); [now symmetry | apply agent_row_keys].
Qed.

Lemma arow_match i r1 r2 c1 c2 : row_wf r2 ->
  req r1 (agent_row i c1) -> req r2 (agent_row i c2) -> dict_match r1 r2 = true ->
  c1 = c2 /\ req r1 r2 /\ req (dict_merge r1 r2) r1.
Proof.
  intros W2 E1 E2 M.
  assert (H1 : has_keys (akeys i) r1) by (apply (has_keys_req _ (agent_row i c1)); [now symmetry | apply agent_row_keys]).
  assert (H2 : has_keys (akeys i) r2) by (apply (has_keys_req _ (agent_row i c2)); [now symmetry | apply agent_row_keys]).
  pose proof (proj1 (match_same_keys _ _ _ H1 H2 W2) M) as E.
  split; [|split; [exact E | now apply merge_req_l]].
  rewrite <- (row_cell_agent_row i c1), <- (row_cell_agent_row i c2).
  rewrite <- (row_cell_req i _ _ E1), <- (row_cell_req i _ _ E2). now apply row_cell_req.
Qed.

Lemma atab_scale i P c t : atab i P t -> atab i P (ft_scale c t).
Proof.
  intros H r w I. unfold ft_scale in I. apply in_map_iff in I. destruct I as [[r0 w0] [E I]].
  inversion E; subst. simpl. eapply H; eauto.
Qed.

Lemma in_rows_entry (t : table) r : In r (ft_rows t) -> exists w, In (r, w) t.
Proof. intro I. apply in_map_iff in I. destruct I as [[r0 w] [<- I]]. now exists w. Qed.

Lemma atab_mix i P t1 t2 : atab i P t1 -> atab i P t2 -> atab i P (ft_mix t1 t2).
Proof.
  intros H1 H2. destruct t1 as [|e1 t1'] eqn:E1; [exact H2|]. destruct t2 as [|e2 t2'] eqn:E2; [exact H1|].
  rewrite <- E1, <- E2 in *. intros r w I.
  destruct (mix_rows t1 t2 (ltac:(rewrite E1; discriminate)) (ltac:(rewrite E2; discriminate)) r w I)
    as [_ [[a [b [Ia [Ib [M [-> _]]]]]]|[[Ir|Ir] _]]].
  - destruct (in_rows_entry _ _ Ia) as [wa Ja]. destruct (in_rows_entry _ _ Ib) as [wb Jb].
    destruct (H1 a wa Ja) as [Wa [ca [Pa Ea]]]. destruct (H2 b wb Jb) as [Wb [cb [Pb Eb]]].
    destruct (arow_match i a b ca cb Wb Ea Eb M) as [_ [_ Em]].
    split; [now apply row_wf_merge|]. exists ca. split; [exact Pa|]. now rewrite Em.
  - destruct (in_rows_entry _ _ Ir) as [wr Jr]. exact (H1 r wr Jr).
  - destruct (in_rows_entry _ _ Ir) as [wr Jr]. exact (H2 r wr Jr).
Qed.

Lemma ft_w_constraint_mv i c c' : c <> c' -> ft_w (constraint i c c') (agent_row i c') = 0.
Proof.
  intro N. unfold constraint. simpl.
  destruct (row_eqb (agent_row i c) (agent_row i c')) eqn:E.
  - apply row_eqb_spec in E. exfalso. apply N.
    rewrite <- (row_cell_agent_row i c), <- (row_cell_agent_row i c'). now apply row_cell_req.
  - rewrite row_eqb_refl. reflexivity.
Qed.

(* multiplying by the [1, 0] constraint leaves only "stay" rows *)
Lemma atab_constraint i (P : cell -> Prop) c c' t :
  atab i P t -> atab i (fun x => P x /\ x = c) (ft_product t (constraint i c c')).
Proof.
  intros H r w I.
  destruct (product_rows _ _ r w I) as [r1 [r2 [I1 [I2 [M [-> [Ew NZ]]]]]]].
  destruct (in_rows_entry _ _ I1) as [w1 J1]. destruct (H r1 w1 J1) as [W1 [c1 [P1 E1]]].
  split; [now apply row_wf_merge|].
  assert (Hc : c1 = c /\ req (dict_merge r1 r2) r1).
  { simpl in I2. destruct I2 as [<-|[<-|[]]].
    - destruct (arow_match i r1 (agent_row i c) c1 c (agent_row_wf i c) E1 (req_refl _) M) as [-> [_ Em]]. auto.
    - destruct (arow_match i r1 (agent_row i c') c1 c' (agent_row_wf i c') E1 (req_refl _) M) as [-> [_ Em]].
      split; [|exact Em]. destruct (cell_eqb c' c) eqn:Ec; [now apply cell_eqb_spec in Ec|].
      apply cell_eqb_false in Ec. exfalso. apply NZ. rewrite Ew.
      rewrite (ft_w_constraint_mv i c c') by congruence. ring. }
  destruct Hc as [-> Em]. exists c. split; [auto|]. now rewrite Em.
Qed.

(* a fold that multiplies by the constraint whenever a test fires *)
Lemma atab_constraint_fold {A} (test : A -> bool) i c c' (l : list A) : forall (P : cell -> Prop) t,
  atab i P t ->
  atab i (fun x => P x /\ (existsb test l = true -> x = c))
       (fold_left (fun m x => if test x then ft_product m (constraint i c c') else m) l t).
Proof.
  induction l as [|a l IH]; intros P t H; simpl.
  - eapply atab_weaken; [|exact H]. intros x Px. split; [exact Px | discriminate].
  - destruct (test a) eqn:T; simpl.
    + eapply atab_weaken; [|apply (IH (fun x => P x /\ x = c)); now apply atab_constraint].
      simpl. intros x [[Px Ex] _]. auto.
    + apply IH. exact H.
Qed.

(* ================================================================== one agent's move table *)
Lemma fold_cond_inv {A} (Inv : table -> Prop) (test : A -> bool) (op : table -> table) (l : list A) :
  (forall m, Inv m -> Inv (op m)) ->
  forall m, Inv m -> Inv (fold_left (fun m x => if test x then op m else m) l m).
Proof.
  intro Hop. induction l as [|x l IH]; intros m H; simpl; [exact H|].
  apply IH. destruct (test x); auto.
Qed.

Section Agent.
Variables (L : layout) (i : nat) (c : cell) (a : action).
Hypothesis Pge : 0 <= gFenceP L.
Hypothesis Ple : gFenceP L <= 1.

Definition Pm (x : cell) : Prop := x = c \/ x = moved L c a.
Definition Pfin (x : cell) : Prop :=
  (x = c \/ x = moved L c a) /\
  (cell_mem (moved L c a) (gObst L) = true -> x = c) /\
  (edge_mem c (moved L c a) (gWalls L) = true -> x = c).

Definition m0 : table := [(agent_row i c, EPS); (agent_row i (moved L c a), 1 - EPS)].
Definition fence_op (m : table) : table :=
  ft_mix (ft_scale (gFenceP L) m) (ft_scale (1 - gFenceP L) [(agent_row i c, 1)]).
Definition cons_op (m : table) : table := ft_product m (constraint i c (moved L c a)).

Lemma agent_move_unfold :
  agent_move L i c a =
  fold_left (fun m w => if cell_eqb c (fst w) && cell_eqb (moved L c a) (snd w) then cons_op m else m) (gWalls L)
   (fold_left (fun m o => if cell_eqb (moved L c a) o then cons_op m else m) (gObst L)
     (fold_left (fun m f => if cell_eqb c (fst f) && cell_eqb (moved L c a) (snd f) then fence_op m else m) (gFences L) m0)).
Proof. reflexivity. Qed.

Lemma m0_atab : atab i Pm m0.
Proof.
  intros r w I. simpl in I. destruct I as [I|[I|[]]]; inversion I; subst; (split; [apply agent_row_wf|]).
  - exists c. split; [now left | reflexivity].
  - exists (moved L c a). split; [now right | reflexivity].
Qed.

Lemma stay_tab_atab x : atab i Pm [(agent_row i c, x)].
Proof.
  intros r w I. destruct I as [I|[]]. inversion I; subst. split; [apply agent_row_wf|].
  exists c. split; [now left | reflexivity].
Qed.

Lemma fence_atab m : atab i Pm m -> atab i Pm (fence_op m).
Proof. intro H. apply atab_mix; apply atab_scale; [exact H | apply stay_tab_atab]. Qed.

Lemma agent_move_atab : atab i Pfin (agent_move L i c a).
Proof.
  rewrite agent_move_unfold.
  set (m1 := fold_left _ (gFences L) m0).
  assert (H1 : atab i Pm m1).
  { unfold m1. apply (fold_cond_inv (atab i Pm)); [apply fence_atab | apply m0_atab]. }
  pose proof (atab_constraint_fold (fun o => cell_eqb (moved L c a) o) i c (moved L c a) (gObst L) Pm m1 H1) as H2.
  pose proof (atab_constraint_fold (fun w => cell_eqb c (fst w) && cell_eqb (moved L c a) (snd w)) i c (moved L c a) (gWalls L) _ _ H2) as H3.
  eapply atab_weaken; [|exact H3]. simpl. intros x [[Px Ho] Hw]. unfold Pfin. repeat split; auto.
Qed.

(* the "stay" row keeps a positive weight through every step; all weights stay non-negative *)
Definition minv (m : table) : Prop :=
  atab i Pm m /\ 0 < ft_w m (agent_row i c) /\ ft_nonneg m.

Lemma EPS_bounds : 0 < EPS /\ 0 < 1 - EPS.
Proof. unfold EPS. split; reflexivity. Qed.

Lemma m0_minv : minv m0.
Proof.
  split; [apply m0_atab|]. split.
  - unfold m0. simpl. rewrite row_eqb_refl. apply EPS_bounds.
  - intros r w I. simpl in I. destruct I as [I|[I|[]]]; inversion I; subst; apply Qlt_le_weak, EPS_bounds.
Qed.

Lemma fence_minv m : minv m -> minv (fence_op m).
Proof.
  intros [Ha [Hs Hn]]. split; [now apply fence_atab|]. split.
  - unfold fence_op.
    destruct (mix_adds_thm (akeys i) (ft_scale (gFenceP L) m) (ft_scale (1 - gFenceP L) [(agent_row i c, 1)])) as [A _].
    + apply (atab_over i Pm). now apply atab_scale.
    + apply (atab_over i Pm). apply atab_scale, stay_tab_atab.
    + rewrite A, !ft_w_scale. simpl. rewrite row_eqb_refl.
      assert (0 <= ft_w m (agent_row i c) * gFenceP L) by (apply Qmult_le_0_compat; lra).
      destruct (Qlt_le_dec (gFenceP L) 1) as [Lt|Ge]; [lra|].
      assert (E : gFenceP L == 1) by lra. rewrite E. lra.
  - unfold fence_op. apply mix_nonneg; apply scale_nonneg; auto; try lra.
    intros r w I. destruct I as [I|[]]. inversion I; subst. lra.
Qed.

Lemma constraint_over : table_over (akeys i) (constraint i c (moved L c a)).
Proof.
  intros r I. simpl in I. destruct I as [<-|[<-|[]]]; split; try apply agent_row_keys; apply agent_row_wf.
Qed.

Lemma constraint_nonneg : ft_nonneg (constraint i c (moved L c a)).
Proof. intros r w I. simpl in I. destruct I as [I|[I|[]]]; inversion I; subst; lra. Qed.

Lemma cons_minv m : minv m -> minv (cons_op m).
Proof.
  intros [Ha [Hs Hn]]. split; [|split].
  - eapply atab_weaken; [|apply atab_constraint; exact Ha]. simpl. tauto.
  - unfold cons_op.
    assert (NZ : ~ ft_w m (agent_row i c) == 0) by lra.
    destruct (ft_w_pos_mem m _ NZ) as [r [w [I [E W]]]].
    assert (Ir : In r (ft_rows m)) by (change r with (fst (r, w)); now apply in_map).
    assert (Hr : has_keys (akeys i) r) by (apply (has_keys_req _ (agent_row i c)); [now symmetry | apply agent_row_keys]).
    assert (M : dict_match r (agent_row i c) = true)
      by (apply (match_same_keys (akeys i)); auto using agent_row_keys, agent_row_wf).
    pose proof (product_weight_pair m (constraint i c (moved L c a))
                  (coherent_over (akeys i) (akeys i) _ _ (atab_over i Pm m Ha) constraint_over)
                  (r, agent_row i c)) as X.
    unfold mg, pmatch, pw in X. simpl fst in X; simpl snd in X.
    assert (Em : req (dict_merge r (agent_row i c)) (agent_row i c)).
    { rewrite (merge_req_l r (agent_row i c) (agent_row_wf i c) E). exact E. }
    rewrite <- (ft_w_req _ _ _ Em). rewrite X.
    + rewrite (ft_w_req m r _ E). unfold constraint. simpl. rewrite row_eqb_refl. lra.
    + apply in_prod_iff. split; [exact Ir | simpl; now left].
    + exact M.
  - apply positive_nonneg, product_positive; [exact Hn | apply constraint_nonneg].
Qed.

Lemma agent_move_minv : minv (agent_move L i c a).
Proof.
  rewrite agent_move_unfold.
  apply (fold_cond_inv minv); [apply cons_minv|].
  apply (fold_cond_inv minv); [apply cons_minv|].
  apply (fold_cond_inv minv); [apply fence_minv | apply m0_minv].
Qed.
End Agent.

(* ================================================================== the joint table *)
Definition agrees (i : nat) (c : cell) (r : row) : Prop :=
  forall k, In k (akeys i) -> rget k r = rget k (agent_row i c).

Lemma agrees_req i c r r' : req r r' -> agrees i c r -> agrees i c r'.
Proof. intros E H k I. rewrite <- E. now apply H. Qed.

Lemma agrees_of_req i c r : req r (agent_row i c) -> agrees i c r.
Proof. intros E k _. apply E. Qed.

Lemma agrees_cell i c r : agrees i c r -> row_cell i r = c.
Proof.
  intro H. rewrite <- (row_cell_agent_row i c). unfold row_cell, zget.
  rewrite !H by (apply akeys_spec; lia). reflexivity.
Qed.

Lemma agrees_merge_l i c r1 r2 k : row_wf r2 -> has_keys (akeys k) r2 -> (i < k)%nat ->
  agrees i c r1 -> agrees i c (dict_merge r1 r2).
Proof.
  intros W H Lt A key I. rewrite rget_merge by assumption.
  assert (N : rget key r2 = None).
  { apply rget_none. intro X. apply H in X. apply akeys_spec in X, I. lia. }
  rewrite N. now apply A.
Qed.

Lemma agrees_merge_r k c r1 r2 : row_wf r2 -> req r2 (agent_row k c) -> agrees k c (dict_merge r1 r2).
Proof.
  intros W E key I. rewrite rget_merge by assumption. rewrite E.
  destruct (rget key (agent_row k c)) eqn:G; [reflexivity|].
  apply rget_none in G. exfalso. apply G. now apply agent_row_keys.
Qed.

Section Joint.
Variables (L : layout) (cur : list cell) (ja : list action).
Hypothesis Pge : 0 <= gFenceP L.
Hypothesis Ple : gFenceP L <= 1.

Definition cur_ (i : nat) : cell := nth i cur cell0.
Definition ja_ (i : nat) : action := nth i ja cell0.
Definition PF (i : nat) : cell -> Prop := Pfin L (cur_ i) (ja_ i).
Definition mv_tab (i : nat) : table := agent_move L i (cur_ i) (ja_ i).

Definition jrow (k : nat) (r : row) : Prop :=
  row_wf r /\ (forall key, In key (map fst r) <-> (key < 4 * k)%nat) /\
  forall i, (i < k)%nat -> exists c, PF i c /\ agrees i c r.

(* invariant of the running product of the first k move tables *)
Record jinv (k : nat) (J : table) : Prop := {
  ji_rows : forall r w, In (r, w) J -> jrow k r;
  ji_nonneg : ft_nonneg J;
  ji_stay : exists r, In r (ft_rows J) /\ 0 < ft_w J r /\ forall i, (i < k)%nat -> agrees i (cur_ i) r }.

Lemma PF_stay i : PF i (cur_ i).
Proof. unfold PF, Pfin. tauto. Qed.

Lemma Pm_of_Pfin i x : PF i x -> Pm L (cur_ i) (ja_ i) x.
Proof. unfold PF, Pfin, Pm. tauto. Qed.

Lemma stay_row_in i : exists r, In r (ft_rows (mv_tab i)) /\ req r (agent_row i (cur_ i)) /\ 0 < ft_w (mv_tab i) r.
Proof.
  destruct (agent_move_minv L i (cur_ i) (ja_ i) Pge Ple) as [_ [Hs _]].
  assert (NZ : ~ ft_w (mv_tab i) (agent_row i (cur_ i)) == 0) by (unfold mv_tab; lra).
  destruct (ft_w_pos_mem _ _ NZ) as [r [w [I [E W]]]]. exists r. split; [|split; [exact E|]].
  - change r with (fst (r, w)). now apply in_map.
  - rewrite (ft_w_req _ _ _ E). exact Hs.
Qed.

Lemma jinv_base : jinv 1 (mv_tab 0).
Proof.
  pose proof (agent_move_atab L 0 (cur_ 0) (ja_ 0)) as Ha.
  destruct (agent_move_minv L 0 (cur_ 0) (ja_ 0) Pge Ple) as [_ [_ Hn]].
  split.
  - intros r w I. destruct (Ha r w I) as [W [c [Pc E]]]. split; [exact W|]. split.
    + intro key. pose proof (has_keys_req _ _ r (req_sym _ _ E) (agent_row_keys 0 c) key) as X.
      rewrite <- X, akeys_spec. lia.
    + intros i Hi. assert (i = 0)%nat by lia. subst. exists c. split; [exact Pc | now apply agrees_of_req].
  - exact Hn.
  - destruct (stay_row_in 0) as [r [I [E P]]]. exists r. split; [exact I|]. split; [exact P|].
    intros i Hi. assert (i = 0)%nat by lia. subst. now apply agrees_of_req.
Qed.

Lemma jinv_step k J : jinv k J -> jinv (S k) (ft_product J (mv_tab k)).
Proof.
  intros [Hr Hn [rs [Irs [Prs Ars]]]].
  pose proof (agent_move_atab L k (cur_ k) (ja_ k)) as Ha.
  destruct (agent_move_minv L k (cur_ k) (ja_ k) Pge Ple) as [_ [_ Hmn]].
  fold (mv_tab k) in Ha, Hmn.
  assert (Keys2 : forall r2 c, req r2 (agent_row k c) -> has_keys (akeys k) r2).
  { intros r2 c E. apply (has_keys_req _ (agent_row k c)); [now symmetry | apply agent_row_keys]. }
  assert (RowOK : forall r1 r2 c, jrow k r1 -> row_wf r2 -> PF k c -> req r2 (agent_row k c) ->
                                  jrow (S k) (dict_merge r1 r2)).
  { intros r1 r2 c [W1 [K1 A1]] W2 Pc E2. split; [now apply row_wf_merge|]. split.
    - intro key. rewrite keys_merge, K1. rewrite <- (Keys2 r2 c E2 key), akeys_spec. lia.
    - intros i Hi. destruct (Nat.eq_dec i k) as [->|Ne].
      + exists c. split; [exact Pc | now apply agrees_merge_r].
      + destruct (A1 i) as [ci [Pi Ai]]; [lia|]. exists ci. split; [exact Pi|].
        apply (agrees_merge_l i ci r1 r2 k); eauto; lia. }
  split.
  - intros r w I. destruct (product_rows _ _ r w I) as [r1 [r2 [I1 [I2 [M [-> _]]]]]].
    destruct (in_rows_entry _ _ I1) as [w1 J1]. destruct (in_rows_entry _ _ I2) as [w2 J2].
    destruct (Ha r2 w2 J2) as [W2 [c [Pc E2]]]. apply (RowOK r1 r2 c); auto. eapply Hr; eauto.
  - apply positive_nonneg, product_positive; assumption.
  - destruct (stay_row_in k) as [r2 [I2 [E2 P2]]].
    destruct (in_rows_entry _ _ Irs) as [ws Js]. destruct (in_rows_entry _ _ I2) as [w2 J2].
    destruct (Ha r2 w2 J2) as [W2 _].
    pose proof (Hr rs ws Js) as [Ws [Ks As]].
    assert (M : dict_match rs r2 = true).
    { apply dict_match_spec. intros key v v' Iv G. exfalso.
      assert (X1 : In key (map fst rs)).
      { destruct (in_dec Nat.eq_dec key (map fst rs)) as [Y|Y]; [exact Y|]. apply rget_none in Y. congruence. }
      assert (X2 : In key (map fst r2)) by (change key with (fst (key, v)); now apply in_map).
      apply Ks in X1. apply (Keys2 r2 _ E2), akeys_spec in X2. lia. }
    assert (NZ : ~ pw J (mv_tab k) (rs, r2) == 0).
    { unfold pw. simpl. assert (0 < ft_w J rs * ft_w (mv_tab k) r2) by (apply Qmult_lt_0_compat; assumption). lra. }
    pose proof (pi_complete _ _ _ _ (ft_product_inv J (mv_tab k)) (rs, r2)
                  (proj2 (in_prod_iff _ _ rs r2) (conj Irs I2)) M NZ) as Mem.
    apply row_mem_spec in Mem. destruct Mem as [r' [I' E']]. unfold mg in E'. simpl in E'.
    exists r'. split; [exact I'|]. split.
    + destruct (in_rows_entry _ _ I') as [w' J'].
      rewrite (ft_w_own _ _ _ (product_distinct J (mv_tab k)) J').
      apply (product_positive J (mv_tab k) Hn Hmn r' w' J').
    + intros i Hi. apply (agrees_req i _ _ _ E'). destruct (Nat.eq_dec i k) as [->|Ne].
      * now apply agrees_merge_r.
      * apply (agrees_merge_l i _ rs r2 k); eauto; [|apply Ars]; lia.
Qed.

Lemma jinv_fold len : forall k J, jinv k J ->
  jinv (k + len) (fold_left ft_product (map mv_tab (seq k len)) J).
Proof.
  induction len as [|len IH]; intros k J H; simpl.
  - now rewrite Nat.add_0_r.
  - replace (k + S len)%nat with (S k + len)%nat by lia. apply IH. now apply jinv_step.
Qed.

Lemma agent_moves_eq : agent_moves L cur ja = map mv_tab (seq 0 (length cur)).
Proof. reflexivity. Qed.

Lemma joint_jinv : cur <> [] -> jinv (length cur) (joint_moves (agent_moves L cur ja)).
Proof.
  intro NE. rewrite agent_moves_eq. destruct (length cur) as [|n] eqn:El.
  - destruct cur; [congruence | discriminate].
  - simpl. change (S n) with (1 + n)%nat. apply jinv_fold. apply jinv_base.
Qed.
End Joint.

(* ================================================================== interactions and the final table *)
Lemma existsb_ext_in {A} (f g : A -> bool) l : (forall x, In x l -> f x = g x) -> existsb f l = existsb g l.
Proof.
  induction l as [|x t IH]; simpl; intro H; [reflexivity|].
  rewrite (H x) by now left. rewrite IH; [reflexivity | intros; apply H; now right].
Qed.

Lemma existsb_false {A} (f : A -> bool) l : existsb f l = false -> forall x, In x l -> f x = false.
Proof.
  intros H x I. destruct (f x) eqn:E; [|reflexivity].
  assert (existsb f l = true) by (apply existsb_exists; eauto). congruence.
Qed.

Lemma existsb_all_false {A} (f : A -> bool) l : (forall x, In x l -> f x = false) -> existsb f l = false.
Proof.
  intro H. destruct (existsb f l) eqn:E; [|reflexivity].
  apply existsb_exists in E. destruct E as [x [I Fx]]. rewrite (H x I) in Fx. discriminate.
Qed.

Lemma nth_row_cells n r i : (i < n)%nat -> nth i (row_cells n r) cell0 = row_cell i r.
Proof.
  intro Hi. unfold row_cells.
  rewrite (nth_indep _ cell0 (row_cell 0 r)) by (rewrite map_length, seq_length; lia).
  rewrite (map_nth (fun i => row_cell i r)), seq_nth by lia. reflexivity.
Qed.

Lemma map_snd_combine {A B} (l1 : list A) (l2 : list B) : length l1 = length l2 -> map snd (combine l1 l2) = l2.
Proof.
  revert l2. induction l1 as [|a l1 IH]; intros [|b l2] H; simpl in *; try discriminate; [reflexivity|].
  f_equal. apply IH. lia.
Qed.

Lemma ft_rows_tag (f : row -> Q) rows : ft_rows (map (fun r => (r, f r)) rows) = rows.
Proof. unfold ft_rows. rewrite map_map. simpl. apply map_id. Qed.

Definition state_valid (L : layout) (cur : list cell) : Prop :=
  forall i, (i < length cur)%nat ->
    (0 <= fst (nth i cur cell0) < gW L)%Z /\ (0 <= snd (nth i cur cell0) < gH L)%Z /\
    ~ In (nth i cur cell0) (gObst L).
Definition actions_unit (ja : list action) : Prop :=
  forall i, (Z.abs (fst (nth i ja cell0)) + Z.abs (snd (nth i ja cell0)) <= 1)%Z.
Definition walls_proper (L : layout) : Prop := forall w, In w (gWalls L) -> fst w <> snd w.
Definition agents_apart (cur : list cell) : Prop :=
  forall i j, (i < j < length cur)%nat -> nth i cur cell0 <> nth j cur cell0.

Section Final.
Variables (L : layout) (cur : list cell) (ja : list action).
Hypothesis Pge : 0 <= gFenceP L.
Hypothesis Ple : gFenceP L <= 1.
Hypothesis NE : cur <> [].

Definition Jt : table := joint_moves (agent_moves L cur ja).
Definition collisions : list (nat * nat) := flat_map (row_collisions L cur) (ft_rows Jt).
Definition deadf (r : row) : bool :=
  inter_dead L cur r || (gHack L && existsb (someone_moved cur r) collisions).
Definition wI (r : row) : Q := if deadf r then 0 else 1.

Lemma interaction_table_eq : interaction_table L cur Jt = map (fun r => (r, wI r)) (ft_rows Jt).
Proof. reflexivity. Qed.

Lemma gg_table_eq : gg_table L cur ja = ft_product Jt (interaction_table L cur Jt).
Proof. reflexivity. Qed.

Lemma deadf_req r r' : req r r' -> deadf r = deadf r'.
Proof.
  intro E. unfold deadf, inter_dead. f_equal; [|f_equal]; apply existsb_ext_in; intros p _.
  - unfold pair_collides, pair_swaps. now rewrite !(row_cell_req _ r r' E).
  - unfold someone_moved. now rewrite !(row_cell_req _ r r' E).
Qed.

Lemma wI_req r r' : req r r' -> wI r = wI r'.
Proof. intro E. unfold wI. now rewrite (deadf_req r r' E). Qed.

Lemma jrow_has_keys k r : jrow L cur ja k r -> has_keys (seq 0 (4 * k)) r.
Proof. intros [_ [K _]] key. rewrite K, in_seq. lia. Qed.

Lemma Jt_inv : jinv L cur ja (length cur) Jt.
Proof. apply joint_jinv; assumption. Qed.

(* every row of the final table is (as a dictionary) a row of the joint table that survived the interactions *)
Lemma gg_table_rows r w : In (r, w) (gg_table L cur ja) ->
  exists r2, jrow L cur ja (length cur) r2 /\ req r r2 /\ deadf r2 = false.
Proof.
  rewrite gg_table_eq. intro I.
  destruct (product_rows _ _ r w I) as [r1 [r2 [I1 [I2 [M [-> [Ew NZ]]]]]]].
  rewrite interaction_table_eq, ft_rows_tag in I2.
  destruct (in_rows_entry _ _ I1) as [w1 J1]. destruct (in_rows_entry _ _ I2) as [w2 J2].
  pose proof (ji_rows _ _ _ _ _ Jt_inv r1 w1 J1) as R1.
  pose proof (ji_rows _ _ _ _ _ Jt_inv r2 w2 J2) as R2.
  assert (W2 : row_wf r2) by apply R2.
  pose proof (proj1 (match_same_keys _ r1 r2 (jrow_has_keys _ _ R1) (jrow_has_keys _ _ R2) W2) M) as E.
  exists r2. split; [exact R2|]. split.
  - rewrite (merge_req_l r1 r2 W2 E). exact E.
  - destruct (deadf r2) eqn:D; [|reflexivity]. exfalso. apply NZ. rewrite Ew.
    rewrite interaction_table_eq, (ft_w_map wI (ft_rows Jt) r2 wI_req I2). unfold wI. rewrite D. ring.
Qed.

Hypothesis SV : state_valid L cur.
Hypothesis AU : actions_unit ja.
Hypothesis WP : walls_proper L.

Lemma moved_cases c a : (0 <= fst c < gW L)%Z -> (0 <= snd c < gH L)%Z ->
  (Z.abs (fst a) + Z.abs (snd a) <= 1)%Z ->
  ((0 <= fst (moved L c a) < gW L)%Z /\ (0 <= snd (moved L c a) < gH L)%Z) /\
  (moved L c a = c \/ moved L c a = cell_add c a) /\
  (Z.abs (fst (moved L c a) - fst c) + Z.abs (snd (moved L c a) - snd c) <= 1)%Z.
Proof.
  destruct c as [x y], a as [ax ay]. unfold moved, cell_add. simpl. intros Hx Hy Ha.
  split; [lia|]. split; [|lia].
  assert ((Z.max (Z.min (x + ax) (gW L - 1)) 0 = x /\ Z.max (Z.min (y + ay) (gH L - 1)) 0 = y) \/
          (Z.max (Z.min (x + ax) (gW L - 1)) 0 = x + ax /\ Z.max (Z.min (y + ay) (gH L - 1)) 0 = y + ay))%Z as [[-> ->]|[-> ->]] by lia;
    [left | right]; reflexivity.
Qed.

(* PHYSICAL CONSTRAINTS hold of every row of the mirror's final table *)
Theorem gg_table_outcome_ok r w : In (r, w) (gg_table L cur ja) ->
  outcome_ok L cur ja (row_cells (length cur) r).
Proof.
  intro I. destruct (gg_table_rows r w I) as [r2 [[W2 [K2 A2]] [E D]]].
  assert (Cell : forall i, (i < length cur)%nat ->
            nth i (row_cells (length cur) r) cell0 = row_cell i r2 /\ PF L cur ja i (row_cell i r2)).
  { intros i Hi. rewrite nth_row_cells by assumption. rewrite (row_cell_req i r r2 E). split; [reflexivity|].
    destruct (A2 i Hi) as [c [Pc Ac]]. now rewrite (agrees_cell i c r2 Ac). }
  apply orb_false_iff in D. destruct D as [D _]. unfold inter_dead in D.
  split.
  - unfold row_cells. now rewrite map_length, seq_length.
  - intros i Hi. destruct (Cell i Hi) as [-> [[Ec|Ec] _]]; rewrite Ec.
    + destruct (SV i Hi) as [X [Y _]]. fold (cur_ cur i) in X, Y. tauto.
    + destruct (SV i Hi) as [X [Y _]]. apply (moved_cases (cur_ cur i) (ja_ ja i) X Y (AU i)).
  - intros i Hi Hin. destruct (Cell i Hi) as [Eq [Pc [Ho _]]]. rewrite Eq in Hin.
    assert (Key : row_cell i r2 = cur_ cur i).
    { destruct Pc as [Ec|Ec]; [exact Ec|]. apply Ho. apply cell_mem_spec. rewrite <- Ec. exact Hin. }
    rewrite Key in Hin. destruct (SV i Hi) as [_ [_ X]]. contradiction.
  - intros i Hi Hin. destruct (Cell i Hi) as [Eq [Pc [_ Hw]]]. rewrite Eq in Hin.
    assert (Key : row_cell i r2 = cur_ cur i).
    { destruct Pc as [Ec|Ec]; [exact Ec|]. apply Hw. apply edge_mem_spec. rewrite <- Ec. exact Hin. }
    rewrite Key in Hin. apply WP in Hin. apply Hin. reflexivity.
  - intros i Hi. destruct (Cell i Hi) as [-> [[Ec|Ec] _]]; rewrite Ec.
    + split; [now left|]. fold (cur_ cur i). rewrite !Z.sub_diag. simpl. lia.
    + destruct (SV i Hi) as [X [Y _]].
      destruct (moved_cases (cur_ cur i) (ja_ ja i) X Y (AU i)) as [_ [M1 M2]]. split; [|exact M2].
      destruct M1 as [M1|M1]; [left | right]; exact M1.
  - intros i j Hij Eq.
    destruct (Cell i ltac:(lia)) as [Ei _]. destruct (Cell j ltac:(lia)) as [Ej _].
    rewrite Ei, Ej in Eq. rewrite Ei.
    pose proof (existsb_false _ _ D (i, j) (proj2 (pairs_spec _ i j) Hij)) as X.
    apply orb_false_iff in X. destruct X as [X _]. unfold pair_collides in X. simpl in X.
    rewrite <- Eq, cell_eqb_refl, andb_true_r in X. apply negb_false_iff in X.
    unfold pair_skip in X. apply existsb_exists in X. destruct X as [g [Ig X]].
    apply andb_true_iff in X. destruct X as [X1 X2]. exists g. split; [exact Ig|]. split.
    + apply orb_true_iff in X2. destruct X2 as [X2|X2]; apply cell_eqb_spec in X2; exact X2.
    + apply orb_true_iff in X1. destruct X1 as [X1|X1]; apply nat_mem_spec in X1; tauto.
  - intros i j Hij [E1 [E2 _]].
    destruct (Cell i ltac:(lia)) as [Ei _]. destruct (Cell j ltac:(lia)) as [Ej _].
    rewrite Ei in E1. rewrite Ej in E2.
    pose proof (existsb_false _ _ D (i, j) (proj2 (pairs_spec _ i j) Hij)) as X.
    apply orb_false_iff in X. destruct X as [_ X]. unfold pair_swaps in X. simpl in X.
    rewrite E1, E2, !cell_eqb_refl in X. discriminate.
Qed.

Lemma interaction_nonneg : ft_nonneg (interaction_table L cur Jt).
Proof.
  rewrite interaction_table_eq. intros r w I. apply in_map_iff in I. destruct I as [x [Ex _]].
  inversion Ex; subst. unfold wI. destruct (deadf _); lra.
Qed.

Lemma gg_table_positive : ft_positive (gg_table L cur ja).
Proof.
  rewrite gg_table_eq. apply product_positive; [apply (ji_nonneg _ _ _ _ _ Jt_inv) | apply interaction_nonneg].
Qed.

(* NORMALISATION *)
Hypothesis AA : agents_apart cur.

Lemma collisions_sub p : In p collisions -> In p (pairs (length cur)).
Proof.
  unfold collisions. rewrite in_flat_map. intros [r [_ I]]. unfold row_collisions in I.
  apply filter_In in I. tauto.
Qed.

Lemma gg_table_nonempty_positive : gg_table L cur ja <> [] /\ ft_positive (gg_table L cur ja).
Proof.
  destruct Jt_inv as [Hr Hn [rs [Irs [Prs Ars]]]].
  assert (HnI : ft_nonneg (interaction_table L cur Jt)).
  { rewrite interaction_table_eq. intros r w I. apply in_map_iff in I. destruct I as [x [Ex _]].
    inversion Ex; subst. unfold wI. destruct (deadf _); lra. }
  split; [|rewrite gg_table_eq; now apply product_positive].
  destruct (in_rows_entry _ _ Irs) as [ws Js]. pose proof (Hr rs ws Js) as Rs.
  assert (Cs : forall i, (i < length cur)%nat -> row_cell i rs = cur_ cur i)
    by (intros i Hi; apply agrees_cell, Ars, Hi).
  assert (D : deadf rs = false).
  { unfold deadf. apply orb_false_iff. split.
    - unfold inter_dead. apply existsb_all_false. intros [i j] Ip. apply pairs_spec in Ip.
      unfold pair_collides, pair_swaps. simpl. rewrite (Cs i), (Cs j) by lia.
      assert (X : cell_eqb (cur_ cur i) (cur_ cur j) = false) by (apply cell_eqb_false, AA; lia).
      unfold cur_ in *. rewrite X. rewrite andb_false_r. reflexivity.
    - apply andb_false_iff. right. apply existsb_all_false. intros [i j] Ip.
      apply collisions_sub, pairs_spec in Ip. unfold someone_moved. simpl.
      rewrite (Cs i), (Cs j) by lia. unfold cur_. now rewrite !cell_eqb_refl. }
  assert (M : dict_match rs rs = true).
  { apply (match_same_keys _ rs rs (jrow_has_keys _ _ Rs) (jrow_has_keys _ _ Rs)); [apply Rs | reflexivity]. }
  assert (IrsI : In rs (ft_rows (interaction_table L cur Jt))) by (rewrite interaction_table_eq, ft_rows_tag; exact Irs).
  assert (NZ : ~ pw Jt (interaction_table L cur Jt) (rs, rs) == 0).
  { unfold pw. simpl. rewrite interaction_table_eq, (ft_w_map wI (ft_rows Jt) rs wI_req Irs).
    unfold wI. rewrite D. lra. }
  pose proof (pi_complete _ _ _ _ (ft_product_inv Jt (interaction_table L cur Jt)) (rs, rs)
                (proj2 (in_prod_iff _ _ rs rs) (conj Irs IrsI)) M NZ) as Mem.
  rewrite gg_table_eq. intro Emp. rewrite Emp in Mem. discriminate.
Qed.

Theorem gg_table_normalised :
  qsum (ft_probs (gg_table L cur ja)) == 1 /\
  ft_probs (gg_table L cur ja) = map (fun e => snd e / ft_Z (gg_table L cur ja)) (gg_table L cur ja) /\
  0 < ft_Z (gg_table L cur ja).
Proof.
  destruct gg_table_nonempty_positive as [N P].
  destruct (ft_probs_normalised _ P N) as [A B]. split; [exact B|]. split; [exact A|].
  now apply ft_Z_pos.
Qed.
End Final.

(* ================================================================== the mirror's next-state distribution *)
Lemma ft_probs_length t : length (ft_probs t) = length t.
Proof. unfold ft_probs. destruct (existsb qzero (ft_weights t)); now rewrite map_length. Qed.

Theorem gg_mirror_thm L cur ja :
  0 <= gFenceP L -> gFenceP L <= 1 -> cur <> [] ->
  state_valid L cur -> actions_unit ja -> walls_proper L ->
  is_absorbing L cur = false ->
  (* every listed outcome has positive probability and satisfies the physical constraints *)
  (forall ns p, In (ns, p) (gg_next_state_dist L (Some cur) ja) ->
     0 < p /\ exists pos, ns = Some pos /\ outcome_ok L cur ja pos) /\
  (* and, when no two agents start in the same cell, the probabilities sum to 1 *)
  (agents_apart cur -> dsum (gg_next_state_dist L (Some cur) ja) == 1).
Proof.
  intros Pge Ple NE SV AU WP NA. unfold gg_next_state_dist. rewrite NA.
  pose proof (gg_table_positive L cur ja Pge Ple NE) as Pos.
  split.
  - intros ns p I. pose proof (in_combine_l _ _ _ _ I) as I1. pose proof (in_combine_r _ _ _ _ I) as I2.
    split.
    + assert (NEt : gg_table L cur ja <> []).
      { intro Emp. rewrite Emp in I. destruct I. }
      destruct (ft_probs_normalised _ Pos NEt) as [Eq _]. rewrite Eq in I2.
      apply in_map_iff in I2. destruct I2 as [[r w] [<- Ie]]. simpl.
      pose proof (ft_Z_pos _ Pos NEt). pose proof (Pos r w Ie).
      apply Qlt_shift_div_l; lra.
    + apply in_map_iff in I1. destruct I1 as [r [<- Ir]]. destruct (in_rows_entry _ _ Ir) as [w Ie].
      eexists. split; [reflexivity|]. apply (gg_table_outcome_ok L cur ja Pge Ple NE SV AU WP r w Ie).
  - intro AA. unfold dsum. rewrite map_snd_combine.
    + apply (gg_table_normalised L cur ja Pge Ple NE AA).
    + rewrite map_length. unfold ft_rows. now rewrite map_length, ft_probs_length.
Qed.

Theorem gg_goal_to_terminal_thm L cur ja :
  on_own_goal L cur -> gg_next_state_dist L (Some cur) ja = [(None, 1)].
Proof. intro H. apply is_absorbing_spec in H. unfold gg_next_state_dist. now rewrite H. Qed.

Theorem gg_terminal_absorbing_thm L ja : gg_next_state_dist L None ja = [(None, 1)].
Proof. reflexivity. Qed.

(* non-vacuity: the hypotheses of gg_mirror_thm hold of the example layout of GridGameTheory.v
   (3 x 2 grid, obstacle, wall, goal) in a state where both agents move *)
Example gg_mirror_nonvacuous :
  let cur := [(0, 1)%Z; (2, 0)%Z] in
  0 <= gFenceP ex_L /\ gFenceP ex_L <= 1 /\ cur <> [] /\ state_valid ex_L cur /\ actions_unit ex_ja /\
  walls_proper ex_L /\ is_absorbing ex_L cur = false /\ agents_apart cur /\
  length (gg_next_state_dist ex_L (Some cur) ex_ja) = 4%nat.
Proof.
  simpl. split; [unfold Qle; simpl; lia|]. split; [unfold Qle; simpl; lia|]. split; [discriminate|].
  split; [|split; [|split; [|split; [|split]]]].
  - intros i Hi. destruct i as [|[|i]]; simpl in *; try lia;
      (split; [lia|]; split; [lia|]; intros [E|[]]; discriminate).
  - intros i. destruct i as [|[|[|i]]]; simpl; lia.
  - intros w [<-|[]]. simpl. discriminate.
  - reflexivity.
  - intros i j Hij. simpl in Hij. assert (i = 0 /\ j = 1)%nat as [-> ->] by lia. simpl. discriminate.
  - reflexivity.
Qed.

Lemma gg_constraints_thm L cur ja :
  0 <= gFenceP L -> gFenceP L <= 1 -> cur <> [] ->
  state_valid L cur -> actions_unit ja -> walls_proper L ->
  is_absorbing L cur = false ->
  forall ns p, In (ns, p) (gg_next_state_dist L (Some cur) ja) ->
     0 < p /\ exists pos, ns = Some pos /\ outcome_ok L cur ja pos.
Proof. intros H1 H2 H3 H4 H5 H6 H7. exact (proj1 (gg_mirror_thm L cur ja H1 H2 H3 H4 H5 H6 H7)). Qed.

Lemma gg_normalised_thm L cur ja :
  0 <= gFenceP L -> gFenceP L <= 1 -> cur <> [] ->
  state_valid L cur -> actions_unit ja -> walls_proper L ->
  is_absorbing L cur = false -> agents_apart cur ->
  dsum (gg_next_state_dist L (Some cur) ja) == 1.
Proof. intros H1 H2 H3 H4 H5 H6 H7. exact (proj2 (gg_mirror_thm L cur ja H1 H2 H3 H4 H5 H6 H7)). Qed.

(* the hypotheses of gg_mirror_thm are closed under the transitions it describes: from a valid state every
   outcome is a valid state, and unless an agent then stands on its own goal (so that the next step is the
   terminal one) the agents are again in distinct cells.  Hence they hold of every reachable non-terminal,
   non-goal state of a game whose initial state is valid with the agents apart. *)
Theorem gg_valid_closed_thm L cur ja pos :
  state_valid L cur -> outcome_ok L cur ja pos ->
  state_valid L pos /\ (~ on_own_goal L pos -> agents_apart pos).
Proof.
  intros SV [Len Gr Ob _ _ Sh _]. split.
  - intros i Hi. rewrite Len in Hi. destruct (Gr i Hi) as [X Y]. repeat split; try lia. now apply Ob.
  - intros NG i j Hij E. rewrite Len in Hij. destruct (Sh i j Hij E) as [g [Ig [Eg [Oi|Oj]]]]; apply NG.
    + exists i, g. rewrite Len. repeat split; auto; lia.
    + exists j, g. rewrite Len. repeat split; auto; try lia. now rewrite <- E.
Qed.
