(* DistTransfer.v — C11: what vm_compute evaluates on Q (the correspondence harness) is the
   real-valued function the theorems of DistTheory.v are about, by the parametricity translation.
   Keys are related by equality, numbers by QR q r := Q2R q = r. *)
From Coq Require Import QArith Qreals Reals List Bool.
From Param Require Import Param.
From MSDM Require Import base.Num base.NumInst base.Transfer model.Dist.
Import ListNotations.

Parametricity Recursive prob.
Parametricity Recursive mass.
Parametricity Recursive from_pairs.
Parametricity Recursive marginalize.
Parametricity Recursive chain.
Parametricity Recursive condition.
Parametricity Recursive joint.
Parametricity Recursive scale.
Parametricity Recursive mix.
Parametricity Recursive conj_on.
Parametricity Recursive common.
Parametricity Recursive expectation.
Parametricity Recursive normalize.
Parametricity Recursive is_normalized.
Parametricity Recursive sample.
Parametricity Recursive sample_seq.
Parametricity Recursive kind.
Parametricity Recursive kprob.
Parametricity Recursive items.
Parametricity Recursive ksample.

(* Q2R on the weights *)
Definition mapR {K} (d : list (K * Q)) : list (K * R) := map (fun kv => (fst kv, Q2R (snd kv))) d.
Definition kindQR {K} (k : @kind Q K) : @kind R K :=
  match k with
  | KDict l => KDict (mapR l)
  | KPairs l => KPairs (mapR l)
  | KUniform s => KUniform s
  | KDet v => KDet v
  | KTable dom data => KTable dom (map Q2R data)
  end.

Section T.
Context {K : Type}.
Definition KR (a b : K) : Type := a = b.

Lemma keq_rel (keq : K -> K -> bool) :
  forall a a', KR a a' -> forall b b', KR b b' -> bool_R (keq a b) (keq a' b').
Proof. unfold KR. intros a a' -> b b' ->. now apply bool_R_eq. Qed.

Lemma dR_intro (d : list (K * Q)) : dist_R Q R QR K K KR d (mapR d).
Proof.
  induction d as [|[k v] r IH]; simpl; constructor; [|exact IH].
  constructor; [reflexivity|reflexivity].
Qed.
Lemma dR_elim (d : list (K * Q)) (r : list (K * R)) : dist_R Q R QR K K KR d r -> mapR d = r.
Proof.
  induction 1 as [|x y Hxy l1 l2 Hl IH]; [reflexivity|]. simpl. rewrite IH. f_equal.
  destruct Hxy as [k1 k2 Hk v1 v2 Hv]. unfold KR in Hk. unfold QR in Hv. simpl. now subst.
Qed.
Lemma listK_R (l : list K) : list_R K K KR l l.
Proof. induction l; constructor; auto. reflexivity. Qed.
Lemma listQ_R (l : list Q) : list_R Q R QR l (map Q2R l).
Proof. apply list_R_map. intros a. reflexivity. Qed.
Lemma optK_elim (a b : option K) : option_R K K KR a b -> a = b.
Proof. destruct 1 as [x y H|]; [unfold KR in H; now subst|reflexivity]. Qed.
Lemma kind_rel (k : @kind Q K) : kind_R Q R QR K K KR k (kindQR k).
Proof.
  destruct k; simpl; constructor; try apply dR_intro; try apply listK_R; try apply listQ_R; reflexivity.
Qed.
End T.

Section Transfer.
Context {K K2 : Type} (keq : K -> K -> bool) (keq2 : K2 -> K2 -> bool).
Notation NQ := (NumQR).

Theorem prob_transfer (d : list (K * Q)) k :
  Q2R (@prob Q NumQ K keq d k) = @prob R NumR K keq (mapR d) k.
Proof.
  apply (prob_R Q R QR NumQ NumR NQ K K KR keq keq (keq_rel keq) d (mapR d) (dR_intro d) k k eq_refl).
Qed.
Theorem mass_transfer (d : list (K * Q)) : Q2R (@mass Q NumQ K d) = @mass R NumR K (mapR d).
Proof. apply (mass_R Q R QR NumQ NumR NQ K K KR d (mapR d) (dR_intro d)). Qed.
Theorem items_transfer (k : @kind Q K) :
  mapR (@items Q NumQ K keq k) = @items R NumR K keq (kindQR k).
Proof.
  apply dR_elim. apply (items_R Q R QR NumQ NumR NQ K K KR keq keq (keq_rel keq)). apply kind_rel.
Qed.
Theorem kprob_transfer (k : @kind Q K) e :
  Q2R (@kprob Q NumQ K keq k e) = @kprob R NumR K keq (kindQR k) e.
Proof.
  apply (kprob_R Q R QR NumQ NumR NQ K K KR keq keq (keq_rel keq) k (kindQR k) (kind_rel k) e e eq_refl).
Qed.
Theorem marginalize_transfer (f : K -> K2) (d : list (K * Q)) :
  mapR (@marginalize Q NumQ K K2 keq2 f d) = @marginalize R NumR K K2 keq2 f (mapR d).
Proof.
  apply dR_elim.
  apply (marginalize_R Q R QR NumQ NumR NQ K K KR K2 K2 KR keq2 keq2 (keq_rel keq2) f f).
  - unfold KR. now intros a b ->.
  - apply dR_intro.
Qed.
Theorem chain_transfer (kern : K -> list (K2 * Q)) (d : list (K * Q)) :
  mapR (@chain Q NumQ K K2 keq2 kern d) = @chain R NumR K K2 keq2 (fun x => mapR (kern x)) (mapR d).
Proof.
  apply dR_elim.
  apply (chain_R Q R QR NumQ NumR NQ K K KR K2 K2 KR keq2 keq2 (keq_rel keq2) kern (fun x => mapR (kern x))).
  - unfold KR. intros a b ->. apply dR_intro.
  - apply dR_intro.
Qed.
Theorem condition_transfer (w : K -> Q) (d : list (K * Q)) :
  mapR (@condition Q NumQ K keq w d) = @condition R NumR K keq (fun x => Q2R (w x)) (mapR d).
Proof.
  apply dR_elim.
  apply (condition_R Q R QR NumQ NumR NQ K K KR keq keq (keq_rel keq) w (fun x => Q2R (w x))).
  - unfold KR, QR. now intros a b ->.
  - apply dR_intro.
Qed.
Theorem joint_transfer (d1 : list (K * Q)) (d2 : list (K2 * Q)) :
  mapR (@joint Q NumQ K K2 keq keq2 d1 d2) = @joint R NumR K K2 keq keq2 (mapR d1) (mapR d2).
Proof.
  pose proof (joint_R Q R QR NumQ NumR NQ K K KR K2 K2 KR keq keq (keq_rel keq) keq2 keq2 (keq_rel keq2)
                _ _ (dR_intro d1) _ _ (dR_intro d2)) as H.
  revert H. generalize (@joint Q NumQ K K2 keq keq2 d1 d2) (@joint R NumR K K2 keq keq2 (mapR d1) (mapR d2)).
  intros l1 l2. induction 1 as [|x y Hxy t1 t2 Ht IH]; [reflexivity|]. simpl. rewrite IH. f_equal.
  destruct Hxy as [k1 k2 Hk v1 v2 Hv]. destruct Hk as [a1 a2 Ha b1 b2 Hb].
  unfold KR in *. unfold QR in Hv. simpl. now subst.
Qed.
Theorem scale_transfer (d : list (K * Q)) c :
  mapR (@scale Q NumQ K keq d c) = @scale R NumR K keq (mapR d) (Q2R c).
Proof.
  apply dR_elim.
  apply (scale_R Q R QR NumQ NumR NQ K K KR keq keq (keq_rel keq) _ _ (dR_intro d) c (Q2R c) eq_refl).
Qed.
Theorem mix_transfer (d1 d2 : list (K * Q)) :
  mapR (@mix Q NumQ K keq d1 d2) = @mix R NumR K keq (mapR d1) (mapR d2).
Proof.
  apply dR_elim.
  apply (mix_R Q R QR NumQ NumR NQ K K KR keq keq (keq_rel keq) _ _ (dR_intro d1) _ _ (dR_intro d2)).
Qed.
Theorem conj_on_transfer (es : list K) (d1 d2 : list (K * Q)) :
  mapR (@conj_on Q NumQ K keq es d1 d2) = @conj_on R NumR K keq es (mapR d1) (mapR d2).
Proof.
  apply dR_elim.
  apply (conj_on_R Q R QR NumQ NumR NQ K K KR keq keq (keq_rel keq) es es (listK_R es)
           _ _ (dR_intro d1) _ _ (dR_intro d2)).
Qed.
Theorem expectation_transfer (f : K -> Q) (d : list (K * Q)) :
  Q2R (@expectation Q NumQ K f d) = @expectation R NumR K (fun x => Q2R (f x)) (mapR d).
Proof.
  apply (expectation_R Q R QR NumQ NumR NQ K K KR f (fun x => Q2R (f x))).
  - unfold KR, QR. now intros a b ->.
  - apply dR_intro.
Qed.
Theorem normalize_transfer (d : list (K * Q)) :
  mapR (@normalize Q NumQ K keq d) = @normalize R NumR K keq (mapR d).
Proof.
  apply dR_elim.
  apply (normalize_R Q R QR NumQ NumR NQ K K KR keq keq (keq_rel keq) _ _ (dR_intro d)).
Qed.
Theorem is_normalized_transfer rtol atol (d : list (K * Q)) :
  @is_normalized Q NumQ K rtol atol d = @is_normalized R NumR K (Q2R rtol) (Q2R atol) (mapR d).
Proof.
  apply bool_R_inv.
  apply (is_normalized_R Q R QR NumQ NumR NQ K K KR rtol (Q2R rtol) eq_refl atol (Q2R atol) eq_refl
           _ _ (dR_intro d)).
Qed.
Theorem sample_transfer (d : list (K * Q)) u :
  @sample Q NumQ K keq d u = @sample R NumR K keq (mapR d) (Q2R u).
Proof.
  apply optK_elim.
  apply (sample_R Q R QR NumQ NumR NQ K K KR keq keq (keq_rel keq) _ _ (dR_intro d) u (Q2R u) eq_refl).
Qed.
Theorem ksample_transfer (k : @kind Q K) u i :
  @ksample Q NumQ K keq k u i = @ksample R NumR K keq (kindQR k) (Q2R u) i.
Proof.
  apply optK_elim.
  apply (ksample_R Q R QR NumQ NumR NQ K K KR keq keq (keq_rel keq) k (kindQR k) (kind_rel k)
           u (Q2R u) eq_refl i i (nat_R_refl i)).
Qed.
End Transfer.
