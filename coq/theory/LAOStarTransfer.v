(* LAOStarTransfer.v — C03: what vm_compute evaluates on Q is the checker / run checker the theorems
   of LAOStarTheory.v are about (R instance), by the parametricity translation. *)
From Coq Require Import QArith Qreals Reals List Bool.
From Param Require Import Param.
From MSDM Require Import base.Num base.NumInst base.Transfer model.MDP model.VI model.LAOStar
     theory.VITransfer.
Import ListNotations.

Parametricity Recursive mk_lao.
Parametricity Recursive c03_check.
Parametricity Recursive c03_run_raw.

Definition ltolsR (t : @ltols Q) : @ltols R :=
  mkLtols (Q2R (rho t)) (Q2R (ups t)) (Q2R (itol t)) (Q2R (ptol t)).

Definition stepR (k : rawstep Q) : rawstep R :=
  match k with (x, Z, E, V, pol) => (x, Z, E, map Q2R V, pol) end.

Lemma mk_lao_rel conv ex V C pol Pi iv :
  laoout_R Q R QR (mk_lao conv ex V C pol Pi iv)
                  (mk_lao conv ex (map Q2R V) C pol (map2 Q2R Pi) (Q2R iv)).
Proof.
  apply (mk_lao_R Q R QR NumQ NumR NumQR);
    auto using list_R_map1, list_R_map2, list_R_bool_refl, list_R_nat_refl, bool_R_eq.
  reflexivity.
Qed.

Lemma mk_mdp_rel nS nA P Rw av ab ini g :
  mdp_R Q R QR (mk_mdp nS nA P Rw av ab ini g)
               (mk_mdp nS nA (map3 Q2R P) (map3 Q2R Rw) av ab (map Q2R ini) (Q2R g)).
Proof.
  apply (mk_mdp_R Q R QR NumQ NumR NumQR); try apply nat_R_refl;
    auto using list_R_map1, list_R_map2, list_R_map3, list_R_bool_refl, list_R_bool2_refl.
  reflexivity.
Qed.

Theorem c03_check_transfer nS nA P Rw av ab ini g conv ex V C pol Pi iv (tl : @ltols Q) Vstar Nst :
  @c03_check Q NumQ (mk_mdp nS nA P Rw av ab ini g) (mk_lao conv ex V C pol Pi iv) tl Vstar Nst =
  @c03_check R NumR
     (mk_mdp nS nA (map3 Q2R P) (map3 Q2R Rw) av ab (map Q2R ini) (Q2R g))
     (mk_lao conv ex (map Q2R V) C pol (map2 Q2R Pi) (Q2R iv))
     (ltolsR tl) (map Q2R Vstar) (map Q2R Nst).
Proof.
  apply list_R_bool_eq.
  apply (c03_check_R Q R QR NumQ NumR NumQR).
  - apply mk_mdp_rel.
  - apply mk_lao_rel.
  - destruct tl. constructor; reflexivity.
  - apply list_R_map1.
  - apply list_R_map1.
Qed.

Theorem c03_run_transfer nS nA P Rw av ab ini g conv ex V C pol Pi iv Vstar (r : Q) h l :
  @c03_run_raw Q NumQ (mk_mdp nS nA P Rw av ab ini g) (mk_lao conv ex V C pol Pi iv) Vstar r h l =
  @c03_run_raw R NumR
     (mk_mdp nS nA (map3 Q2R P) (map3 Q2R Rw) av ab (map Q2R ini) (Q2R g))
     (mk_lao conv ex (map Q2R V) C pol (map2 Q2R Pi) (Q2R iv))
     (map Q2R Vstar) (Q2R r) (map Q2R h) (map stepR l).
Proof.
  apply list_R_bool_eq.
  apply (c03_run_raw_R Q R QR NumQ NumR NumQR).
  - apply mk_mdp_rel.
  - apply mk_lao_rel.
  - apply list_R_map1.
  - reflexivity.
  - apply list_R_map1.
  - apply list_R_map. intros [[[[x Z] E] V0] pol0]. simpl.
    repeat constructor; auto using nat_R_refl, list_R_bool_refl, list_R_map1, list_R_nat_refl.
Qed.
Print Assumptions c03_check_transfer.
Print Assumptions c03_run_transfer.
