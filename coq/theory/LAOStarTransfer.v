(* LAOStarTransfer.v — C03: what vm_compute evaluates on Q is the checker / run checker the theorems
   of LAOStarTheory.v are about (R instance), by the parametricity translation. *)
From Coq Require Import QArith Qreals Reals List Bool.
From Param Require Import Param.
From MSDM Require Import base.Num base.NumInst base.Transfer model.MDP model.VI model.LAOStar
     theory.VITransfer.
Import ListNotations.

Parametricity Recursive mk_lao.
Parametricity Recursive c03_check.
Parametricity Recursive c03_run_raw.

Definition ltolsR (t : @ltols Q) : @ltols R :=
  mkLtols (Q2R (rho t)) (Q2R (ups t)) (Q2R (itol t)) (Q2R (ptol t)).

Definition stepR (k : rawstep Q) : rawstep R :=
  match k with (x, Z, E, V, pol) => (x, Z, E, map Q2R V, pol) end.

Lemma mk_lao_rel conv ex V C pol Pi iv :
  laoout_R Q R QR (mk_lao conv ex V C pol Pi iv)
                  (mk_lao conv ex (map Q2R V) C pol (map2 Q2R Pi) (Q2R iv)).
Proof.
  apply (mk_lao_R Q R QR NumQ NumR NumQR);
    auto using list_R_map1, list_R_map2, list_R_bool_refl, list_R_nat_refl, bool_R_eq.
  reflexivity.
Qed.

Lemma mk_mdp_rel nS nA P Rw av ab ini g :
  mdp_R Q R QR (mk_mdp nS nA P Rw av ab ini g)
               (mk_mdp nS nA (map3 Q2R P) (map3 Q2R Rw) av ab (map Q2R ini) (Q2R g)).
Proof.
  apply (mk_mdp_R Q R QR NumQ NumR NumQR); try apply nat_R_refl;
    auto using list_R_map1, list_R_map2, list_R_map3, list_R_bool_refl, list_R_bool2_refl.
  reflexivity.
Qed.

Theorem c03_check_transfer nS nA P Rw av ab ini g conv ex V C pol Pi iv (tl : @ltols Q) Vstar Nst :
  @c03_check Q NumQ (mk_mdp nS nA P Rw av ab ini g) (mk_lao conv ex V C pol Pi iv) tl Vstar Nst =
  @c03_check R NumR
     (mk_mdp nS nA (map3 Q2R P) (map3 Q2R Rw) av ab (map Q2R ini) (Q2R g))
     (mk_lao conv ex (map Q2R V) C pol (map2 Q2R Pi) (Q2R iv))
     (ltolsR tl) (map Q2R Vstar) (map Q2R Nst).
Proof.
  apply list_R_bool_eq.
  apply (c03_check_R Q R QR NumQ NumR NumQR).
  - apply mk_mdp_rel.
  - apply mk_lao_rel.
  - destruct tl. constructor; reflexivity.
  - apply list_R_map1.
  - apply list_R_map1.
Qed.

Theorem c03_run_transfer nS nA P Rw av ab ini g conv ex V C pol Pi iv Vstar (r : Q) h l :
  @c03_run_raw Q NumQ (mk_mdp nS nA P Rw av ab ini g) (mk_lao conv ex V C pol Pi iv) Vstar r h l =
  @c03_run_raw R NumR
     (mk_mdp nS nA (map3 Q2R P) (map3 Q2R Rw) av ab (map Q2R ini) (Q2R g))
     (mk_lao conv ex (map Q2R V) C pol (map2 Q2R Pi) (Q2R iv))
     (map Q2R Vstar) (Q2R r) (map Q2R h) (map stepR l).
Proof.
  apply list_R_bool_eq.
  apply (c03_run_raw_R Q R QR NumQ NumR NumQR).
  - apply mk_mdp_rel.
  - apply mk_lao_rel.
  - apply list_R_map1.
  - reflexivity.
  - apply list_R_map1.
  - apply list_R_map. intros [[[[x Z] E] V0] pol0]. simpl.
    repeat constructor; auto using nat_R_refl, list_R_bool_refl, list_R_map1, list_R_nat_refl.
Qed.
Print Assumptions c03_check_transfer.
Print Assumptions c03_run_transfer.

(* ================================================================== *)
(* End-to-end statements: "the checkers, as executed by vm_compute on the exact rationals of
   msdm's output, returned all-true"  ==>  the clauses of property C03 over R.                  *)
(* ================================================================== *)
From Coq Require Import Lra Lia.
From MSDM Require Import base.NumR theory.Bellman theory.VITheory theory.LAOStarTheory.
Local Open Scope R_scope.

Definition all_true11 : list bool := [true; true; true; true; true; true; true; true; true; true; true].
Definition all_true6 : list bool := [true; true; true; true; true; true].

Section Main.
Variables (nS nA : nat) (P Rw : list (list (list Q))) (av : list (list bool)) (ab : list bool)
          (ini : list Q) (g : Q).
Variables (conv : bool) (ex : list bool) (V : list Q) (C : list bool) (pol : list nat)
          (Pi : list (list Q)) (iv : Q) (tl : @ltols Q) (Vstar Nst : list Q).

Definition mR : mdp R := mk_mdp nS nA (map3 Q2R P) (map3 Q2R Rw) av ab (map Q2R ini) (Q2R g).
Definition oR : @laoout R := mk_lao conv ex (map Q2R V) C pol (map2 Q2R Pi) (Q2R iv).
Definition tR : @ltols R := ltolsR tl.
Definition VsR : nat -> R := untab (map Q2R Vstar).
Definition NR : nat -> R := untab (map Q2R Nst).

Section Final.
Hypothesis Hchk :
  @c03_check Q NumQ (mk_mdp nS nA P Rw av ab ini g) (mk_lao conv ex V C pol Pi iv) tl Vstar Nst
  = all_true11.

Lemma clauses :
  wfb mR = true /\ c_initdist mR = true /\ c_conv oR = true /\ c_closed mR (masktab mR) oR = true /\
  c_det mR oR = true /\ c_avail mR oR tR = true /\ c_cons mR (masktab mR) oR tR = true /\
  c_fix mR (masktab mR) (map Q2R Vstar) = true /\ c_upper mR oR tR (map Q2R Vstar) = true /\
  c_init mR oR tR = true /\ c_steps mR (masktab mR) oR (map Q2R Nst) = true.
Proof.
  pose proof Hchk as H. rewrite c03_check_transfer in H.
  unfold c03_check, c03_clauses, all_true11 in H. injection H; intros. repeat split; assumption.
Qed.

Theorem main_converged : conv = true.
Proof. destruct clauses as (_ & _ & H & _). exact H. Qed.

Theorem main_optimum_exists : fixpoint mR VsR.
Proof. destruct clauses as (_ & _ & _ & _ & _ & _ & _ & H & _). apply fixbT_fixpoint. exact H. Qed.

Theorem main_explored_upper Vs :
  Q2R g < 1 -> fixpoint mR Vs ->
  forall s, (s < nS)%nat -> nthb ex s = true -> Vs s - Q2R (ups tl) <= lV oR s.
Proof.
  intros G HVs s Hs He. destruct clauses as (Hwf & _ & _ & _ & _ & _ & _ & Hfix & Hup & _).
  apply (explored_upper mR oR tR (map Q2R Vstar) Vs Hwf Hfix Hup G HVs s Hs He).
Qed.

Theorem main_final_discounted Vs Vpi :
  Q2R g < 1 -> 0 <= Q2R (rho tl) -> fixpoint mR Vs -> poleval mR (nthb C) (nthn pol) Vpi ->
  forall s, (s < nS)%nat -> nthb C s = true ->
    Vs s - Q2R (ups tl) <= lV oR s <= Vs s + Q2R (rho tl) / (1 - Q2R g) /\
    Vs s - (Q2R (ups tl) + Q2R (rho tl) / (1 - Q2R g)) <= Vpi s <= Vs s /\
    Rabs (lV oR s - Vpi s) <= Q2R (rho tl) / (1 - Q2R g).
Proof.
  intros G Hr HVs Hpe s Hs Hc.
  destruct clauses as (Hwf & _ & _ & Hcl & _ & _ & Hcons & Hfix & Hup & _).
  apply (final_discounted mR oR tR (map Q2R Vstar) Vs Vpi Hwf Hcl Hcons Hfix Hup Hr G HVs Hpe s Hs Hc).
Qed.

Theorem main_initial_discounted Vs Vpi :
  Q2R g < 1 -> 0 <= Q2R (rho tl) -> 0 <= Q2R (ups tl) ->
  fixpoint mR Vs -> poleval mR (nthb C) (nthn pol) Vpi ->
  Rabs (Q2R iv - avg mR Vs) <= Q2R (itol tl) + (Q2R (ups tl) + Q2R (rho tl) / (1 - Q2R g)) /\
  Rabs (avg mR Vpi - avg mR Vs) <= Q2R (ups tl) + Q2R (rho tl) / (1 - Q2R g).
Proof.
  intros G Hr Hu HVs Hpe.
  destruct clauses as (Hwf & Hid & _ & Hcl & _ & _ & Hcons & Hfix & Hup & Hin & _).
  apply (initial_discounted mR oR tR (map Q2R Vstar) Vs Vpi Hwf Hid Hcl Hcons Hfix Hup Hin Hr Hu G HVs Hpe).
Qed.

Theorem main_policy_total s :
  preach mR oR s ->
  nthb C s = true /\ nthb ex s = true /\ (nthn pol s < nA)%nat /\ avail mR s (nthn pol s) = true /\
  forall a, (a < nA)%nat -> lPi oR s a = if (a =? nthn pol s)%nat then 1 else 0.
Proof.
  intros Hp. destruct clauses as (_ & _ & _ & Hcl & Hdet & _).
  apply (policy_total mR oR Hcl Hdet s Hp).
Qed.

Theorem main_policy_available s a :
  (s < nS)%nat -> (a < nA)%nat -> 0 < lPi oR s a -> avail mR s a = true.
Proof.
  intros Hs Ha Hp. destruct clauses as (_ & _ & _ & _ & _ & Hav & _).
  apply (policy_available mR oR tR Hav s a Hs Ha Hp).
Qed.

Theorem main_poleval_exact :
  Q2R (rho tl) = 0 -> poleval mR (nthb C) (nthn pol) (Vm mR (lV oR)).
Proof.
  intros E. destruct clauses as (_ & _ & _ & _ & _ & _ & Hcons & _).
  apply cons0_poleval. rewrite <- E. apply (c_cons_spec mR oR tR Hcons).
Qed.

(* any discount factor (in particular gamma = 1): relative to the certified fixed point VsR and
   with the expected-steps certificate NR *)
Theorem main_final_general Vpi :
  0 <= Q2R (rho tl) -> poleval mR (nthb C) (nthn pol) Vpi ->
  forall s, (s < nS)%nat -> nthb C s = true ->
    VsR s - Q2R (ups tl) <= lV oR s <= VsR s + Q2R (rho tl) * NR s /\
    VsR s - (Q2R (ups tl) + Q2R (rho tl) * NR s) <= Vpi s <= VsR s /\
    Rabs (lV oR s - Vpi s) <= Q2R (rho tl) * NR s.
Proof.
  intros Hr Hpe s Hs Hc.
  destruct clauses as (Hwf & _ & _ & Hcl & _ & _ & Hcons & Hfix & Hup & _ & Hst).
  apply (final_general mR oR tR (map Q2R Vstar) (map Q2R Nst) Vpi Hwf Hcl Hcons Hfix Hup Hst Hr Hpe s Hs Hc).
Qed.

Theorem main_initial_general Vpi B :
  0 <= Q2R (rho tl) -> 0 <= Q2R (ups tl) ->
  (forall s, (s < nS)%nat -> nthb C s = true -> NR s <= B) ->
  poleval mR (nthb C) (nthn pol) Vpi ->
  Rabs (Q2R iv - avg mR VsR) <= Q2R (itol tl) + (Q2R (ups tl) + Q2R (rho tl) * B) /\
  Rabs (avg mR Vpi - avg mR VsR) <= Q2R (ups tl) + Q2R (rho tl) * B.
Proof.
  intros Hr Hu HB Hpe.
  destruct clauses as (Hwf & Hid & _ & Hcl & _ & _ & Hcons & Hfix & Hup & Hin & Hst).
  apply (initial_general mR oR tR (map Q2R Vstar) (map Q2R Nst) Vpi B Hwf Hid Hcl Hcons Hfix Hup Hst Hin Hr Hu HB Hpe).
Qed.
End Final.

(* ---- trace conformance ---- *)
Section Run.
Variables (r : Q) (h : list Q) (l : list (rawstep Q)).
Hypothesis Hrun :
  @c03_run_raw Q NumQ (mk_mdp nS nA P Rw av ab ini g) (mk_lao conv ex V C pol Pi iv) Vstar r h l
  = all_true6.

Theorem main_run_final Vs Vpi :
  Q2R g < 1 -> 0 <= Q2R r -> fixpoint mR Vs -> poleval mR (nthb C) (nthn pol) Vpi ->
  (forall s, (s < nS)%nat -> nthb ex s = true -> Vs s - Q2R r / (1 - Q2R g) <= lV oR s) /\
  (forall s, (s < nS)%nat -> nthb C s = true ->
     Vs s - Q2R r / (1 - Q2R g) <= lV oR s <= Vs s + Q2R r / (1 - Q2R g) /\
     Vs s - (Q2R r / (1 - Q2R g) + Q2R r / (1 - Q2R g)) <= Vpi s <= Vs s /\
     Rabs (lV oR s - Vpi s) <= Q2R r / (1 - Q2R g)).
Proof.
  intros G Hr HVs Hpe.
  pose proof Hrun as H. rewrite c03_run_transfer in H.
  unfold c03_run_raw, c03_run, c03_run_clauses, all_true6 in H.
  injection H as Hwf Hcl Hfix Hadm Hok Hsync.
  pose (t' := mkLtols (Q2R r) 0 0 0 : @ltols R).
  apply (run_final mR oR t' (map Q2R Vstar) (untab (map Q2R h)) (mk_steps (map stepR l)) Vs Vpi
           Hwf Hcl Hfix Hadm Hok Hsync Hr G HVs Hpe).
Qed.
End Run.

End Main.

(* ================================================================== *)
(* Non-vacuity: a concrete 4-state MDP, the result and the 3-iteration run LAO* produces on it
   with the heuristic h = 0 (s0 -a0-> s1 -> s3 costs 1+1; s0 -a1-> s2|s3 costs 4; s3 absorbing
   with a paying self-loop that must be ignored; s2 is explored but never expanded).          *)
(* ================================================================== *)
Local Open Scope Q_scope.
Definition exP : list (list (list Q)) :=
  [ [[0; 1; 0; 0]; [0; 0; 1#2; 1#2]]; [[0; 0; 0; 1]; [0; 0; 0; 0]];
    [[0; 0; 0; 1]; [0; 0; 0; 0]]; [[0; 0; 0; 1]; [0; 0; 0; 0]] ].
Definition exR : list (list (list Q)) :=
  [ [[0; -1; 0; 0]; [0; 0; -4; -4]]; [[0; 0; 0; -1]; [0; 0; 0; 0]];
    [[0; 0; 0; -2]; [0; 0; 0; 0]]; [[0; 0; 0; 5]; [0; 0; 0; 0]] ].
Definition exAv := [[true; true]; [true; false]; [true; false]; [true; false]].
Definition exAb := [false; false; false; true].
Definition exIni : list Q := [1; 0; 0; 0].
Definition exVs : list Q := [-3#2; -1; -2; 0].
Definition exV : list Q := [-3#2; -1; 0; 0].
Definition exC := [true; true; false; true].
Definition exPol := [0; 0; 0; 0]%nat.
Definition exPi : list (list Q) := [[1; 0]; [1; 0]; [1; 0]; [1; 0]].
Definition exT : @ltols Q := mkLtols 0 0 0 0.
Definition exN : list Q := [2; 2; 2; 2].
Definition exH : list Q := [0; 0; 0; 0].
Definition exTrace : list (rawstep Q) :=
  [ (0%nat, [true; false; false; false], [true; false; false; false], [-1; 0; 0; 0], exPol);
    (1%nat, [true; true; false; false], [true; true; false; false], [-3#2; -1; 0; 0], exPol);
    (3%nat, [true; true; false; true], [true; true; false; true], [-3#2; -1; 0; 0], exPol) ].

Example ex_check :
  @c03_check Q NumQ (mk_mdp 4 2 exP exR exAv exAb exIni (1#2))
     (mk_lao true [true; true; true; true] exV exC exPol exPi (-3#2)) exT exVs exN = all_true11.
Proof. vm_compute. reflexivity. Qed.

Example ex_run :
  @c03_run_raw Q NumQ (mk_mdp 4 2 exP exR exAv exAb exIni (1#2))
     (mk_lao true [true; true; true; true] exV exC exPol exPi (-3#2)) exVs 0 exH exTrace = all_true6.
Proof. vm_compute. reflexivity. Qed.

(* an optimum exists and the policy-evaluation hypothesis of the theorems is satisfiable *)
Example ex_hyps :
  fixpoint (mR 4 2 exP exR exAv exAb exIni (1#2)) (VsR exVs) /\
  poleval (mR 4 2 exP exR exAv exAb exIni (1#2)) (nthb exC) (nthn exPol)
          (Vm (mR 4 2 exP exR exAv exAb exIni (1#2))
              (lV (oR true [true; true; true; true] exV exC exPol exPi (-3#2)))).
Proof.
  split.
  - apply (main_optimum_exists 4 2 exP exR exAv exAb exIni (1#2) true _ exV exC exPol exPi _ exT exVs exN ex_check).
  - apply (main_poleval_exact 4 2 exP exR exAv exAb exIni (1#2) true _ exV exC exPol exPi _ exT exVs exN ex_check).
    unfold Q2R; simpl; lra.
Qed.
