(* theory/DomainsTheory.v — proofs for C20 about model/GridWorld.v and model/Domains.v.
   All statements are for rectangular layouts of ANY size and all parameters in range. *)
From Coq Require Import ZArith QArith List Bool Lia Setoid.
From MSDM Require Import model.GridWorld model.Domains.
Import ListNotations.
Local Open Scope Z_scope.

(* ------------------------------------------------------------------------------------------ *)
(* basics                                                                                        *)
(* ------------------------------------------------------------------------------------------ *)
Lemma pos_eqb_eq (a b : pos) : pos_eqb a b = true <-> a = b.
Proof.
  destruct a as [ax ay], b as [bx by_]; unfold pos_eqb; simpl.
  rewrite andb_true_iff, !Z.eqb_eq. split.
  - intros [-> ->]; reflexivity.
  - intros H; inversion H; auto.
Qed.

Lemma pos_eqb_refl (a : pos) : pos_eqb a a = true.
Proof. apply pos_eqb_eq; reflexivity. Qed.

Lemma pos_eqb_neq (a b : pos) : pos_eqb a b = false <-> a <> b.
Proof.
  split.
  - intros H E. apply pos_eqb_eq in E. congruence.
  - intros H. destruct (pos_eqb a b) eqn:E; auto. apply pos_eqb_eq in E. contradiction.
Qed.

Definition rect (g : gwp) : Prop :=
  Forall (fun r => length r = length (hd [] (g_rows g))) (g_rows g).

Definition in_range (g : gwp) (s : pos) : Prop :=
  0 <= fst s < g_w g /\ 0 <= snd s < g_h g.

Lemma in_zrange (n : nat) (z : Z) : In z (zrange n) <-> 0 <= z < Z.of_nat n.
Proof.
  unfold zrange. rewrite in_map_iff. split.
  - intros [k [<- H]]. apply in_seq in H. lia.
  - intros H. exists (Z.to_nat z). split; [lia|]. apply in_seq. lia.
Qed.

Lemma in_grid_states (g : gwp) (s : pos) : In s (grid_states g) <-> in_range g s.
Proof.
  destruct s as [x y]. unfold grid_states, in_range, g_w, g_h. simpl. rewrite in_flat_map. split.
  - intros [x' [Hx Hy]]. rewrite in_map_iff in Hy. destruct Hy as [y' [E Hy']].
    inversion E; subst. rewrite in_zrange in Hx, Hy'. auto.
  - intros [Hx Hy]. exists x. split; [apply in_zrange; auto|].
    apply in_map_iff. exists y. split; auto. apply in_zrange; auto.
Qed.

Lemma cell_in_range (g : gwp) (s : pos) : rect g -> (cell g s <> None <-> in_range g s).
Proof.
  intros Hr. destruct s as [x y]. unfold cell, in_range. simpl.
  destruct ((0 <=? x) && (0 <=? y) && (y <? g_h g)) eqn:E.
  - rewrite !andb_true_iff in E. destruct E as [[Ex Ey] Eh].
    apply Z.leb_le in Ex, Ey. apply Z.ltb_lt in Eh.
    destruct (nth_error (g_rows g) (Z.to_nat (g_h g - 1 - y))) as [row|] eqn:En.
    + assert (Hl : length row = length (hd [] (g_rows g))).
      { apply nth_error_In in En. unfold rect in Hr. rewrite Forall_forall in Hr. apply Hr; auto. }
      rewrite nth_error_Some. unfold g_w. rewrite Hl. lia.
    + apply nth_error_None in En. unfold g_h in *. lia.
  - split; [congruence|]. intros [[Hx1 Hx2] [Hy1 Hy2]].
    assert (E' : (0 <=? x) && (0 <=? y) && (y <? g_h g) = true).
    { rewrite !andb_true_iff. repeat split; [apply Z.leb_le | apply Z.leb_le | apply Z.ltb_lt]; lia. }
    congruence.
Qed.

Lemma in_grid_iff (g : gwp) (s : pos) : rect g -> (in_grid g s = true <-> In s (grid_states g)).
Proof.
  intros Hr. rewrite in_grid_states, <- (cell_in_range g s Hr). unfold in_grid.
  destruct (cell g s); split; intros; congruence.
Qed.

Lemma term_not_in_range (g : gwp) : ~ in_range g term.
Proof. unfold in_range, term; simpl. lia. Qed.

Lemma in_states_iff (g : gwp) (s : pos) : rect g -> (in_states g s = true <-> In s (gw_states g)).
Proof.
  intros Hr. unfold in_states, gw_states. rewrite orb_true_iff, pos_eqb_eq, (in_grid_iff g s Hr).
  simpl. intuition.
Qed.

(* a commanded move from a grid cell never lands on the terminal pseudo-cell (-1,-1) *)
Lemma padd_not_term (g : gwp) (s a : pos) :
  in_range g s -> In a gw_actions -> padd s a <> term.
Proof.
  intros [Hx Hy] Ha E. unfold padd, term in E. inversion E as [[E1 E2]].
  unfold gw_actions in Ha. simpl in Ha.
  repeat (destruct Ha as [<-|Ha]; [simpl in *; lia|]). contradiction.
Qed.

(* ------------------------------------------------------------------------------------------ *)
(* grid world: the five shapes of next_state_dist                                               *)
(* ------------------------------------------------------------------------------------------ *)
Inductive gw_shape (g : gwp) (s a : pos) : list (pos * Q) -> Prop :=
| sh_term : gw_is_absorbing s = true -> gw_shape g s a [(term, 1%Q)]
| sh_abs : gw_is_absorbing s = false -> abs_at g s = true -> gw_shape g s a [(term, 1%Q)]
| sh_stay : gw_is_absorbing s = false -> abs_at g s = false ->
            (in_states g (padd s a) = false \/ wall_at g (padd s a) = true \/ padd s a = s) ->
            gw_shape g s a [(s, 1%Q)]
| sh_slip : gw_is_absorbing s = false -> abs_at g s = false ->
            in_states g (padd s a) = true -> wall_at g (padd s a) = false -> padd s a <> s ->
            ~ (g_p g == 1)%Q ->
            gw_shape g s a [(s, (1 - g_p g)%Q); (padd s a, g_p g)]
| sh_move : gw_is_absorbing s = false -> abs_at g s = false ->
            in_states g (padd s a) = true -> wall_at g (padd s a) = false -> padd s a <> s ->
            (g_p g == 1)%Q ->
            gw_shape g s a [(padd s a, 1%Q)].

Lemma gw_next_shape (g : gwp) (s a : pos) : gw_shape g s a (gw_next g s a).
Proof.
  unfold gw_next.
  destruct (gw_is_absorbing s) eqn:E1; [apply sh_term; auto|].
  destruct (abs_at g s) eqn:E2; [apply sh_abs; auto|].
  destruct (in_states g (padd s a)) eqn:E3; simpl; [|apply sh_stay; auto].
  destruct (wall_at g (padd s a)) eqn:E4; [apply sh_stay; auto|].
  destruct (pos_eqb (padd s a) s) eqn:E5; [apply sh_stay; auto; right; right; apply pos_eqb_eq; auto|].
  apply pos_eqb_neq in E5.
  destruct (Qeq_bool (g_p g) 1) eqn:E6; simpl.
  - apply sh_move; auto. apply Qeq_bool_eq; auto.
  - apply sh_slip; auto. intros H. apply Qeq_eq_bool in H. congruence.
Qed.

(* ------------------------------------------------------------------------------------------ *)
(* grid world theorems                                                                          *)
(* ------------------------------------------------------------------------------------------ *)
Definition prob_range (p : Q) : Prop := (0 <= p /\ p <= 1)%Q.

(* every next-state distribution has total mass 1 and non-negative entries *)
Theorem gw_normalised (g : gwp) (s a : pos) :
  prob_range (g_p g) ->
  (dmass (gw_next g s a) == 1)%Q /\ (forall ns pr, In (ns, pr) (gw_next g s a) -> (0 <= pr)%Q).
Proof.
  intros [Hp0 Hp1].
  destruct (gw_next_shape g s a); simpl; (split; [ring|]); intros ns pr Hin; simpl in Hin.
  1-3, 5: destruct Hin as [Hin|[]]; inversion Hin; subst; discriminate.
  destruct Hin as [Hin|[Hin|[]]]; inversion Hin; subst; auto.
  unfold Qminus. rewrite <- (Qplus_opp_r (g_p g)). apply Qplus_le_l. exact Hp1.
Qed.

(* every listed successor is in the state list *)
Theorem gw_in_state_list (g : gwp) (s a : pos) :
  rect g -> In s (gw_states g) ->
  forall ns pr, In (ns, pr) (gw_next g s a) -> In ns (gw_states g).
Proof.
  intros Hr Hs ns pr Hin.
  destruct (gw_next_shape g s a); simpl in Hin.
  - destruct Hin as [Hin|[]]; inversion Hin; subst. left; reflexivity.
  - destruct Hin as [Hin|[]]; inversion Hin; subst. left; reflexivity.
  - destruct Hin as [Hin|[]]; inversion Hin; subst. auto.
  - destruct Hin as [Hin|[Hin|[]]]; inversion Hin; subst; auto. apply in_states_iff; auto.
  - destruct Hin as [Hin|[]]; inversion Hin; subst. apply in_states_iff; auto.
Qed.

(* the agent only moves as commanded: it stays, or lands on s + a, or (from the terminal state or a cell
   with an absorbing feature) goes to the terminal state *)
Theorem gw_only_as_commanded (g : gwp) (s a : pos) :
  forall ns pr, In (ns, pr) (gw_next g s a) ->
    ns = s \/ ns = padd s a \/ (ns = term /\ (s = term \/ abs_at g s = true)).
Proof.
  intros ns pr Hin.
  destruct (gw_next_shape g s a) as [H|H H'| | |]; simpl in Hin.
  - destruct Hin as [Hin|[]]; inversion Hin; subst. right; right; split; auto. left.
    apply pos_eqb_eq; auto.
  - destruct Hin as [Hin|[]]; inversion Hin; subst. right; right; split; auto.
  - destruct Hin as [Hin|[]]; inversion Hin; subst. auto.
  - destruct Hin as [Hin|[Hin|[]]]; inversion Hin; subst; auto.
  - destruct Hin as [Hin|[]]; inversion Hin; subst. auto.
Qed.

(* at most one cell per step (Manhattan distance), whenever both ends are grid cells *)
Theorem gw_at_most_one_cell (g : gwp) (s a : pos) :
  In a gw_actions ->
  forall ns pr, In (ns, pr) (gw_next g s a) -> ns <> term ->
    Z.abs (fst ns - fst s) + Z.abs (snd ns - snd s) <= 1.
Proof.
  intros Ha ns pr Hin Hnt.
  destruct (gw_only_as_commanded g s a ns pr Hin) as [->|[->|[-> _]]].
  - lia.
  - unfold gw_actions in Ha. simpl in Ha. unfold padd.
    repeat (destruct Ha as [<-|Ha]; [simpl; lia|]). contradiction.
  - contradiction.
Qed.

(* the agent never enters a wall and never leaves the grid *)
Theorem gw_never_wall_or_off_grid (g : gwp) (s a : pos) :
  forall ns pr, In (ns, pr) (gw_next g s a) -> ns <> s -> ns <> term ->
    in_grid g ns = true /\ wall_at g ns = false.
Proof.
  intros ns pr Hin Hns Hnt.
  assert (Hst : forall t, in_states g t = true -> t <> term -> in_grid g t = true).
  { intros t H1 H2. unfold in_states in H1. apply orb_true_iff in H1. destruct H1 as [H1|H1]; auto.
    apply pos_eqb_eq in H1. contradiction. }
  destruct (gw_next_shape g s a); simpl in Hin.
  - destruct Hin as [Hin|[]]; inversion Hin; subst. contradiction.
  - destruct Hin as [Hin|[]]; inversion Hin; subst. contradiction.
  - destruct Hin as [Hin|[]]; inversion Hin; subst. contradiction.
  - destruct Hin as [Hin|[Hin|[]]]; inversion Hin; subst; [contradiction|]. split; auto.
  - destruct Hin as [Hin|[]]; inversion Hin; subst. split; auto.
Qed.

(* the move succeeds with exactly the configured probability (including p = 0 and p = 1):
   onto a free commanded cell with probability p, staying with 1 - p; blocked moves stay with probability 1 *)
Theorem gw_success_prob_exact (g : gwp) (s a : pos) :
  rect g -> In s (grid_states g) -> In a gw_actions -> abs_at g s = false ->
  let t := padd s a in
  (in_grid g t = true -> wall_at g t = false -> t <> s ->
     (dprob (gw_next g s a) t == g_p g)%Q /\ (dprob (gw_next g s a) s == 1 - g_p g)%Q) /\
  (in_grid g t = false \/ wall_at g t = true \/ t = s ->
     (dprob (gw_next g s a) s == 1)%Q /\ forall u, u <> s -> (dprob (gw_next g s a) u == 0)%Q).
Proof.
  intros Hr Hs Ha Habs t. subst t.
  assert (Hrange : in_range g s) by (apply in_grid_states; auto).
  assert (Hnt : padd s a <> term) by (apply (padd_not_term g); auto).
  assert (Hsnt : gw_is_absorbing s = false).
  { unfold gw_is_absorbing. apply pos_eqb_neq. intros ->. apply (term_not_in_range g); auto. }
  assert (Hist : in_states g (padd s a) = in_grid g (padd s a)).
  { unfold in_states. apply pos_eqb_neq in Hnt. rewrite Hnt. reflexivity. }
  destruct (gw_next_shape g s a) as [H|H H'|H H' Hb|H H' H1 H2 H3 Hp|H H' H1 H2 H3 Hp]; try congruence.
  - (* stay *)
    split.
    + intros G1 G2 G3. exfalso. destruct Hb as [Hb|[Hb|Hb]]; congruence.
    + intros _. simpl. rewrite pos_eqb_refl. split; [ring|].
      intros u Hu. assert (E : pos_eqb s u = false) by (apply pos_eqb_neq; congruence).
      rewrite E. ring.
  - (* slip *)
    split.
    + intros _ _ _. simpl. rewrite !pos_eqb_refl.
      assert (E1 : pos_eqb s (padd s a) = false) by (apply pos_eqb_neq; congruence).
      assert (E2 : pos_eqb (padd s a) s = false) by (apply pos_eqb_neq; congruence).
      rewrite E1, E2. split; ring.
    + intros [G|[G|G]]; congruence.
  - (* move, p = 1 *)
    split.
    + intros _ _ _. simpl. rewrite !pos_eqb_refl.
      assert (E2 : pos_eqb (padd s a) s = false) by (apply pos_eqb_neq; congruence).
      rewrite E2. rewrite Hp. split; ring.
    + intros [G|[G|G]]; congruence.
Qed.

(* reward = step cost + feature reward of the ENTERED cell, for transitions between grid cells *)
Theorem gw_reward_def (g : gwp) (s a ns : pos) :
  s <> term -> ns <> term ->
  (gw_reward g s a ns == g_step g + feat_reward g ns)%Q.
Proof.
  intros H1 H2. unfold gw_reward, gw_is_absorbing.
  apply pos_eqb_neq in H1, H2. rewrite H1, H2. simpl. ring.
Qed.

(* from a cell with an absorbing feature (and from the terminal state): terminal state with probability 1, reward 0 *)
Theorem gw_absorbing_feature_to_terminal (g : gwp) (s a : pos) :
  abs_at g s = true \/ s = term ->
  gw_next g s a = [(term, 1%Q)] /\ (gw_reward g s a term == 0)%Q /\ gw_is_absorbing term = true.
Proof.
  intros H. split; [|split; [|reflexivity]].
  - unfold gw_next. destruct (gw_is_absorbing s) eqn:E; auto.
    destruct H as [H|H]; [rewrite H; auto|]. subst. discriminate.
  - unfold gw_reward. replace (gw_is_absorbing term) with true by reflexivity.
    rewrite orb_true_r. reflexivity.
Qed.

Theorem gw_actions_nonempty : forall (g : gwp) (s : pos), gw_actions <> [].
Proof. intros g s; discriminate. Qed.

Lemma dmass_const (l : list pos) (c : Q) :
  (dmass (map (fun s => (s, c)) l) == inject_Z (Z.of_nat (length l)) * c)%Q.
Proof.
  induction l as [|x l IH].
  - simpl. ring.
  - change (dmass (map (fun s => (s, c)) (x :: l))) with (c + dmass (map (fun s => (s, c)) l))%Q.
    rewrite IH. change (length (x :: l)) with (S (length l)).
    rewrite Nat2Z.inj_succ. unfold Z.succ. rewrite inject_Z_plus. ring.
Qed.

Lemma uniform_weight (n : nat) : (n <> 0)%nat -> (inject_Z (Z.of_nat n) * (1 # Pos.of_nat n) == 1)%Q.
Proof.
  intros Hn. unfold Qeq, Qmult, inject_Z. simpl.
  assert (E : Zpos (Pos.of_nat n) = Z.of_nat n).
  { rewrite <- positive_nat_Z. rewrite Nat2Pos.id; auto. }
  rewrite E. ring.
Qed.

(* the initial distribution (layouts with at least one start cell) is normalised, positive, inside the state list *)
Theorem gw_init_normalised (g : gwp) :
  gw_init_states g <> [] ->
  (dmass (gw_init g) == 1)%Q /\
  forall s p, In (s, p) (gw_init g) -> In s (gw_states g) /\ (0 < p)%Q /\ init_at g s = true.
Proof.
  intros Hne. unfold gw_init. split.
  - rewrite dmass_const. apply uniform_weight. destruct (gw_init_states g); simpl; congruence.
  - intros s p Hin. apply in_map_iff in Hin. destruct Hin as [s' [E Hin]]. inversion E; subst.
    unfold gw_init_states in Hin. apply filter_In in Hin. destruct Hin as [Hin Hi].
    split; [right; auto|]. split; auto. reflexivity.
Qed.

(* non-vacuity: a 3x2 layout  ".g." / "s#x"  with slip probability 3/4 *)
Definition ex_gw : gwp :=
  mkGW [[46; 103; 46]; [115; 35; 120]]%nat [103%nat] [35%nat] [115%nat] [(103%nat, 5%Q); (120%nat, (-3 # 4)%Q)] (-1)%Q (3 # 4)%Q.
Example ex_gw_rect : rect ex_gw.
Proof. repeat constructor. Qed.
Example ex_gw_hyps :
  In (0, 0) (grid_states ex_gw) /\ In (0, 1) gw_actions /\ abs_at ex_gw (0, 0) = false /\
  in_grid ex_gw (padd (0, 0) (0, 1)) = true /\ wall_at ex_gw (padd (0, 0) (0, 1)) = false /\
  padd (0, 0) (0, 1) <> (0, 0) /\ prob_range (g_p ex_gw) /\ gw_init_states ex_gw <> [] /\
  abs_at ex_gw (1, 1) = true /\ wall_at ex_gw (1, 0) = true /\
  gw_next ex_gw (0, 0) (0, 1) = [((0, 0), (1 - (3 # 4))%Q); ((0, 1), (3 # 4)%Q)].
Proof.
  repeat split; try (vm_compute; tauto); try reflexivity; try discriminate.
Qed.

(* ------------------------------------------------------------------------------------------ *)
(* certificate checker soundness                                                                 *)
(* ------------------------------------------------------------------------------------------ *)
From Coq Require Import Qabs Lqa.
Local Close Scope Q_scope.
Local Open Scope Z_scope.

Definition entry_good (nS : nat) (e : entry) : Prop :=
  (0 <= e_p e)%Q /\
  ((0 < e_p e)%Q -> (exists k, e_idx e = Some k /\ (k < nS)%nat) /\ e_r e <> None).
Definition dist_good (nS : nat) (tol : Q) (d : list entry) : Prop :=
  Forall (entry_good nS) d /\ (Qabs (sumQ (map e_p d) - 1) <= tol)%Q.

Lemma entry_ok_sound (nS : nat) (e : entry) : entry_ok nS e = true -> entry_good nS e.
Proof.
  unfold entry_ok, entry_good. rewrite andb_true_iff, orb_true_iff. intros [H0 H].
  apply Qle_bool_iff in H0. split; auto. intros Hpos.
  destruct H as [H|H].
  - apply Qeq_bool_eq in H. rewrite H in Hpos. exfalso. apply (Qlt_irrefl 0); auto.
  - apply andb_true_iff in H. destruct H as [Hi Hr]. split.
    + destruct (e_idx e) as [k|]; [|discriminate]. exists k. split; auto. apply Nat.ltb_lt; auto.
    + destruct (e_r e); [intro; discriminate | simpl in Hr; discriminate].
Qed.

Lemma dist_ok_sound (nS : nat) (tol : Q) (d : list entry) : dist_ok nS tol d = true -> dist_good nS tol d.
Proof.
  unfold dist_ok, dist_good, qabs_le. rewrite !andb_true_iff. intros [Hf [H1 H2]]. split.
  - rewrite Forall_forall. rewrite forallb_forall in Hf. intros e He. apply entry_ok_sound; auto.
  - apply Qle_bool_iff in H1, H2. apply Qabs_Qle_condition. split; auto.
Qed.

(* what an accepted certificate guarantees about msdm's output (entries = exact rationals of its floats):
   every state has >= 1 action; every next-state, initial and observation distribution has non-negative
   entries summing to 1 within tol; every positive-probability successor is inside the state list and its
   reward is finite *)
Theorem wf_check_sound (nS nO : nat) (tol : Q) rows init obs :
  wf_check nS nO tol rows init obs = true ->
  length rows = nS /\
  (forall acts, In acts rows -> acts <> [] /\ forall d, In d acts -> dist_good nS tol d) /\
  dist_good nS tol init /\
  (forall d, In d obs -> dist_good nO tol d).
Proof.
  unfold wf_check. rewrite !andb_true_iff. intros [[[Hl Hrows] Hinit] Hobs].
  split; [apply Nat.eqb_eq; auto|]. split; [|split].
  - intros acts Hin. rewrite forallb_forall in Hrows. specialize (Hrows acts Hin).
    unfold state_ok in Hrows. apply andb_true_iff in Hrows. destruct Hrows as [Hne Hd]. split.
    + destruct acts; [simpl in Hne; discriminate | discriminate].
    + intros d Hdin. rewrite forallb_forall in Hd. apply dist_ok_sound; auto.
  - apply dist_ok_sound; auto.
  - intros d Hd. rewrite forallb_forall in Hobs. apply dist_ok_sound; auto.
Qed.

Example wf_check_nonvacuous :
  wf_check 2 0 (1 # 1000)
    [ [ [(Some 0%nat, 1 # 4, Some (-1)%Q); (Some 1%nat, 3 # 4, Some 2%Q)] ]; [ [(Some 1%nat, 1%Q, Some 0%Q)] ] ]%Q
    [(Some 0%nat, 1%Q, Some 0%Q)] [] = true
  /\ wf_check 2 0 (1 # 1000) [ [ [(None, 1%Q, Some 0%Q)] ]; [ [(Some 1%nat, 1%Q, Some 0%Q)] ] ]
       [(Some 0%nat, 1%Q, Some 0%Q)] [] = false.
Proof. split; vm_compute; reflexivity. Qed.

(* ------------------------------------------------------------------------------------------ *)
(* tiger                                                                                         *)
(* ------------------------------------------------------------------------------------------ *)
Theorem tiger_wellformed (c : Q) :
  prob_range c ->
  (forall s a, (tmass (tiger_next s a) == 1)%Q /\
               forall ns p, In (ns, p) (tiger_next s a) -> In ns tiger_states /\ (0 <= p)%Q) /\
  (forall a ns, (tmass (tiger_obs c a ns) == 1)%Q /\
                forall o p, In (o, p) (tiger_obs c a ns) -> In o tiger_states /\ (0 <= p)%Q) /\
  (tmass tiger_init == 1)%Q /\ (forall s p, In (s, p) tiger_init -> In s tiger_states /\ (0 < p)%Q) /\
  tiger_actions <> [].
Proof.
  intros [Hc0 Hc1].
  assert (Hst : forall x, In x tiger_states) by (intros []; simpl; auto).
  split; [|split; [|split; [|split]]].
  - intros s a. split.
    + destruct a; unfold tmass; simpl; ring.
    + intros ns p Hin. split; auto.
      destruct a; simpl in Hin; repeat (destruct Hin as [Hin|Hin]; [inversion Hin; subst; discriminate|]); contradiction.
  - intros a ns. split.
    + destruct a, ns; unfold tmass; simpl; ring.
    + intros o p Hin. split; auto.
      destruct a, ns; simpl in Hin;
        repeat (destruct Hin as [Hin|Hin]; [inversion Hin; subst; try discriminate; try lra|]); try contradiction.
  - unfold tmass; simpl; ring.
  - intros s p Hin. split; auto. simpl in Hin.
    repeat (destruct Hin as [Hin|Hin]; [inversion Hin; subst; reflexivity|]); contradiction.
  - discriminate.
Qed.

(* listening reports the side the tiger is on with probability exactly the coherence *)
Theorem tiger_listen_accuracy (c : Q) (ns : tside) :
  exists p, In (ns, p) (tiger_obs c TAlisten ns) /\ (p == c)%Q.
Proof.
  destruct ns; simpl.
  - exists c. split; auto. reflexivity.
  - exists (1 - (1 - c))%Q. split; auto. ring.
Qed.

(* ------------------------------------------------------------------------------------------ *)
(* load / unload, all sizes n >= 1                                                               *)
(* ------------------------------------------------------------------------------------------ *)
Lemma in_lu_states (n : nat) (l : Z) (b : bool) :
  (1 <= n)%nat ->
  (In (l, b) (lu_states n) <->
   (l = 0 /\ b = false) \/ (1 <= l <= Z.of_nat n - 2) \/ (l = Z.of_nat n - 1 /\ b = true)).
Proof.
  intros Hn. unfold lu_states. simpl In. rewrite in_app_iff, in_flat_map. simpl In. split.
  - intros [H|[[i [Hi H]]|[H|[]]]].
    + inversion H; auto.
    + right; left. apply in_map_iff in Hi. destruct Hi as [k [<- Hk]]. apply in_seq in Hk.
      destruct H as [H|[H|[]]]; inversion H; subst; lia.
    + inversion H; subst. right; right; auto.
  - intros [[-> ->]|[H|[-> ->]]]; auto.
    right; left. exists l. split.
    + apply in_map_iff. exists (Z.to_nat l). split; [lia|]. apply in_seq. lia.
    + destruct b; auto.
Qed.

Theorem lu_wellformed (n : nat) :
  (1 <= n)%nat ->
  (forall s d, In s (lu_states n) -> In d lu_actions ->
      In (lu_step (Z.of_nat n) s d) (lu_states n)) /\
  (forall s p, In (s, p) lu_init -> In s (lu_states n) /\ (p == 1)%Q) /\
  lu_actions <> [] /\ lu_states n <> [].
Proof.
  intros Hn. split; [|split; [|split]].
  - intros [l b] d Hs Hd. apply (in_lu_states n l b Hn) in Hs.
    unfold lu_step. simpl fst. simpl snd.
    set (l' := Z.min (Z.max (l + d) 0) (Z.of_nat n - 1)).
    apply in_lu_states; auto.
    assert (Hd' : d = -1 \/ d = 1) by (simpl in Hd; intuition).
    destruct (Z.eqb_spec l' (Z.of_nat n - 1)) as [E2|E2].
    + right; right; split; auto.
    + destruct (Z.eqb_spec l' 0) as [E1|E1].
      * left; split; auto.
      * right; left. unfold l' in *. lia.
  - intros s p Hin. simpl in Hin. destruct Hin as [Hin|[]]. inversion Hin; subst. split; [|reflexivity].
    unfold lu_states. left; reflexivity.
  - discriminate.
  - unfold lu_states. discriminate.
Qed.

Example lu_nonvacuous : In (3, true) (lu_states 8) /\ lu_step 8 (1, true) (-1) = (0, false)
                        /\ lu_reward (1, true) (0, false) = 1%Q /\ lu_step 8 (6, false) 1 = (7, true).
Proof. repeat split; vm_compute; auto 20. Qed.

(* ------------------------------------------------------------------------------------------ *)
(* heaven or hell                                                                                *)
(* ------------------------------------------------------------------------------------------ *)
Definition hh_free (g : layout) (s : hhstate) : Prop := hh_blocked g (fst (fst s)) (snd (fst s)) = false.

(* single successor with probability 1, which is never a wall / off-grid cell *)
Theorem hh_next_wellformed (g : layout) (s : hhstate) (a : Z * Z * bool) :
  hh_free g s ->
  hh_next g s a = [(hh_step g s a, 1%Q)] /\ hh_free g (hh_step g s a) /\ snd (hh_step g s a) = snd s.
Proof.
  intros Hf. split; [reflexivity|].
  destruct s as [[x y] hv], a as [[dx dy] rd]. unfold hh_step, hh_free in *. simpl in *.
  destruct (hh_blocked g (x + dx) (y + dy)) eqn:E; simpl; auto.
Qed.

Theorem hh_obs_normalised (g : layout) (c : Q) (a : Z * Z * bool) (ns : hhstate) :
  prob_range c ->
  (sumQ (map snd (hh_obs g c a ns)) == 1)%Q /\ Forall (fun e => 0 <= snd e)%Q (hh_obs g c a ns).
Proof.
  intros [H0 H1]. destruct ns as [[x y] hv]. unfold hh_obs.
  destruct (snd a && hh_celleq g (x, y, hv) C_C); simpl.
  - split; [ring|]. repeat constructor; simpl; lra.
  - split; [ring|]. repeat constructor; simpl; lra.
Qed.

Theorem hh_init_normalised (g : layout) :
  hh_init g <> [] ->
  (sumQ (map snd (hh_init g)) == 1)%Q /\ Forall (fun e => 0 < snd e)%Q (hh_init g).
Proof.
  unfold hh_init. destruct (find_first g C_S 0) as [[x y]|]; [|congruence].
  intros _. simpl. split; [ring|]. repeat constructor.
Qed.

Lemma hh_eqb_eq (a b : hhstate) : hh_eqb a b = true <-> a = b.
Proof.
  destruct a as [[ax ay] ah], b as [[bx by_] bh]. unfold hh_eqb. simpl.
  rewrite !andb_true_iff, !Z.eqb_eq, eqb_true_iff. split.
  - intros [[-> ->] ->]; reflexivity.
  - intros H; inversion H; auto.
Qed.

Lemma hh_mem_In (s : hhstate) (l : list hhstate) : hh_mem s l = true <-> In s l.
Proof.
  unfold hh_mem. rewrite existsb_exists. split.
  - intros [x [Hx He]]. apply hh_eqb_eq in He. subst; auto.
  - intros H. exists s. split; auto. apply hh_eqb_eq; reflexivity.
Qed.

(* the closure certificate evaluated on msdm's state list is sound *)
Theorem hh_closed_check_sound (g : layout) (skip : bool) (sl : list hhstate) :
  hh_closed_check g skip sl = true ->
  forall s, In s sl -> skip && hh_is_absorbing g s = false ->
  forall a, In a hh_actions -> In (hh_step g s a) sl.
Proof.
  unfold hh_closed_check. intros H s Hs Hsk a Ha.
  rewrite forallb_forall in H. specialize (H s Hs). rewrite Hsk in H. rewrite orb_false_l in H.
  rewrite forallb_forall in H. apply hh_mem_In. apply H; auto.
Qed.

(* msdm's state list = MarkovDecisionProcess.reachable_states: initial states are expanded, other states are
   expanded only when not absorbing *)
Section Reach.
  Context {St Ac : Type}.
  Variables (init : list St) (acts : list Ac) (step : St -> Ac -> St) (absorbing : St -> bool).
  Inductive reach : St -> Prop :=
  | reach_init : forall s, In s init -> reach s
  | reach_step : forall s a, reach s -> absorbing s = false \/ In s init -> In a acts -> reach (step s a).
End Reach.

Definition hh_reach (g : layout) : hhstate -> Prop :=
  reach (map fst (hh_init g)) hh_actions (hh_step g) (hh_is_absorbing g).

(* successors of reachable NON-absorbing states are in the (reachability-defined) state list *)
Theorem hh_closed_partial (g : layout) (s : hhstate) (a : Z * Z * bool) :
  hh_reach g s -> hh_is_absorbing g s = false -> In a hh_actions -> hh_reach g (hh_step g s a).
Proof. intros H1 H2 H3. apply reach_step; auto. Qed.

(* ... but the property's "all positive-probability successors inside the state list" is REFUTED for absorbing
   states: layout "sg." — the goal cell (1,0) is reachable and absorbing, moving right from it leads with
   probability 1 to (2,0), which reachability never visits. *)
Definition hh_ex : layout := [[C_S; C_G; DOT]].
Lemma hh_ex_inv : forall s, hh_reach hh_ex s -> In s [(0, 0, true); (0, 0, false); (1, 0, true); (1, 0, false)].
Proof.
  unfold hh_reach. induction 1 as [s Hi | s a Hr IH Hab Ha].
  - vm_compute in Hi. simpl. intuition.
  - simpl in IH. destruct IH as [<-|[<-|[<-|[<-|[]]]]];
      try (destruct Hab as [Hab|Hab]; [vm_compute in Hab; discriminate | vm_compute in Hab; intuition discriminate]);
      simpl in Ha; repeat (destruct Ha as [<-|Ha]; [vm_compute; auto 10|]); contradiction.
Qed.

Theorem hh_closure_refuted :
  exists g s a, hh_reach g s /\ In a hh_actions /\ hh_free g s /\
                hh_next g s a = [(hh_step g s a, 1%Q)] /\ ~ hh_reach g (hh_step g s a).
Proof.
  exists hh_ex, (1, 0, true), (1, 0, false). split; [|split; [|split; [|split]]].
  - change (1, 0, true) with (hh_step hh_ex (0, 0, true) (1, 0, false)).
    apply reach_step.
    + apply reach_init. vm_compute. auto.
    + left. vm_compute. reflexivity.
    + simpl. auto 10.
  - simpl. auto 10.
  - vm_compute. reflexivity.
  - reflexivity.
  - intros H. apply hh_ex_inv in H. vm_compute in H. intuition discriminate.
Qed.

(* ------------------------------------------------------------------------------------------ *)
(* distributions as association lists: dadd / dchain / dmarg preserve mass, sign and key invariants *)
(* ------------------------------------------------------------------------------------------ *)
Definition kmass {K} (d : list (K * Q)) : Q := sumQ (map snd d).
Definition knonneg {K} (d : list (K * Q)) : Prop := Forall (fun e => (0 <= snd e)%Q) d.
Definition kkeys {K} (P : K -> Prop) (d : list (K * Q)) : Prop := Forall (fun e => P (fst e)) d.

Lemma dadd_mass {K} (eqb : K -> K -> bool) (k : K) (p : Q) (d : list (K * Q)) :
  (kmass (dadd eqb k p d) == kmass d + p)%Q.
Proof.
  induction d as [|[k' p'] t IH]; simpl.
  - unfold kmass; simpl; ring.
  - destruct (eqb k' k); unfold kmass in *; simpl in *; [ring|]. rewrite IH. ring.
Qed.

Lemma dadd_nonneg {K} (eqb : K -> K -> bool) (k : K) (p : Q) (d : list (K * Q)) :
  (0 <= p)%Q -> knonneg d -> knonneg (dadd eqb k p d).
Proof.
  intros Hp. unfold knonneg. induction d as [|[k' p'] t IH]; simpl; intros Hd.
  - repeat constructor; auto.
  - inversion Hd as [|? ? H1 H2]; subst. simpl in H1. destruct (eqb k' k).
    + constructor; auto. simpl. lra.
    + constructor; auto.
Qed.

Lemma dadd_keys {K} (eqb : K -> K -> bool) (P : K -> Prop) (k : K) (p : Q) (d : list (K * Q)) :
  P k -> kkeys P d -> kkeys P (dadd eqb k p d).
Proof.
  intros Hk. unfold kkeys. induction d as [|[k' p'] t IH]; simpl; intros Hd.
  - repeat constructor; auto.
  - inversion Hd as [|? ? H1 H2]; subst. destruct (eqb k' k); constructor; auto.
Qed.

Section Chain.
  Context {K L : Type}.
  Variable eqb : L -> L -> bool.
  Variable f : K -> list (L * Q).

  Definition inner (p : Q) (l : list (L * Q)) (acc : list (L * Q)) : list (L * Q) :=
    fold_left (fun acc2 ep2 => dadd eqb (fst ep2) (p * snd ep2)%Q acc2) l acc.
  Definition outer (d : list (K * Q)) (acc : list (L * Q)) : list (L * Q) :=
    fold_left (fun acc ep => inner (snd ep) (f (fst ep)) acc) d acc.

  Lemma dchain_outer (d : list (K * Q)) : dchain eqb d f = outer d [].
  Proof. reflexivity. Qed.

  Lemma inner_cons (p : Q) (k : L) (q : Q) (t acc : list (L * Q)) :
    inner p ((k, q) :: t) acc = inner p t (dadd eqb k (p * q)%Q acc).
  Proof. reflexivity. Qed.
  Lemma outer_cons (k : K) (q : Q) (t : list (K * Q)) (acc : list (L * Q)) :
    outer ((k, q) :: t) acc = outer t (inner q (f k) acc).
  Proof. reflexivity. Qed.

  Lemma inner_mass (p : Q) (l acc : list (L * Q)) : (kmass (inner p l acc) == kmass acc + p * kmass l)%Q.
  Proof.
    revert acc. induction l as [|[k q] t IH]; intros acc.
    - unfold kmass; simpl; ring.
    - rewrite inner_cons, IH, dadd_mass. unfold kmass; simpl; ring.
  Qed.

  Lemma outer_mass (d : list (K * Q)) (acc : list (L * Q)) :
    (forall e, (kmass (f e) == 1)%Q) -> (kmass (outer d acc) == kmass acc + kmass d)%Q.
  Proof.
    intros Hf. revert acc. induction d as [|[k q] t IH]; intros acc.
    - unfold kmass; simpl; ring.
    - rewrite outer_cons, IH, inner_mass, Hf. unfold kmass; simpl; ring.
  Qed.

  Lemma inner_nonneg (p : Q) (l acc : list (L * Q)) :
    (0 <= p)%Q -> knonneg l -> knonneg acc -> knonneg (inner p l acc).
  Proof.
    intros Hp. revert acc. induction l as [|[k q] t IH]; intros acc Hl Ha; [exact Ha|].
    inversion Hl as [|? ? H1 H2]; subst. simpl in H1. rewrite inner_cons. apply IH; auto.
    apply dadd_nonneg; auto. apply Qmult_le_0_compat; auto.
  Qed.

  Lemma outer_nonneg (d : list (K * Q)) (acc : list (L * Q)) :
    (forall e, knonneg (f e)) -> knonneg d -> knonneg acc -> knonneg (outer d acc).
  Proof.
    intros Hf. revert acc. induction d as [|[k q] t IH]; intros acc Hd Ha; [exact Ha|].
    inversion Hd as [|? ? H1 H2]; subst. simpl in H1. rewrite outer_cons. apply IH; auto.
    apply inner_nonneg; auto.
  Qed.

  Lemma inner_keys (P : L -> Prop) (p : Q) (l acc : list (L * Q)) :
    kkeys P l -> kkeys P acc -> kkeys P (inner p l acc).
  Proof.
    revert acc. induction l as [|[k q] t IH]; intros acc Hl Ha; [exact Ha|].
    inversion Hl as [|? ? H1 H2]; subst. simpl in H1. rewrite inner_cons. apply IH; auto.
    apply dadd_keys; auto.
  Qed.

  Lemma outer_keys (P0 : K -> Prop) (P : L -> Prop) (d : list (K * Q)) (acc : list (L * Q)) :
    (forall e, P0 e -> kkeys P (f e)) -> kkeys P0 d -> kkeys P acc -> kkeys P (outer d acc).
  Proof.
    intros Hf. revert acc. induction d as [|[k q] t IH]; intros acc Hd Ha; [exact Ha|].
    inversion Hd as [|? ? H1 H2]; subst. simpl in H1. rewrite outer_cons. apply IH; auto.
    apply inner_keys; auto.
  Qed.
End Chain.

Lemma dchain_mass {K L} (eqb : L -> L -> bool) (d : list (K * Q)) (f : K -> list (L * Q)) :
  (forall e, (kmass (f e) == 1)%Q) -> (kmass (dchain eqb d f) == kmass d)%Q.
Proof. intros Hf. rewrite dchain_outer, outer_mass; auto. unfold kmass; simpl; ring. Qed.

Lemma dchain_nonneg {K L} (eqb : L -> L -> bool) (d : list (K * Q)) (f : K -> list (L * Q)) :
  (forall e, knonneg (f e)) -> knonneg d -> knonneg (dchain eqb d f).
Proof. intros Hf Hd. rewrite dchain_outer. apply outer_nonneg; auto. constructor. Qed.

Lemma dchain_keys {K L} (eqb : L -> L -> bool) (P0 : K -> Prop) (P : L -> Prop) (d : list (K * Q))
      (f : K -> list (L * Q)) :
  (forall e, P0 e -> kkeys P (f e)) -> kkeys P0 d -> kkeys P (dchain eqb d f).
Proof. intros Hf Hd. rewrite dchain_outer. apply (outer_keys eqb f P0 P); auto. constructor. Qed.

Lemma dmarg_as_chain {K L} (eqb : L -> L -> bool) (d : list (K * Q)) (g : K -> L) acc :
  fold_left (fun acc ep => dadd eqb (g (fst ep)) (snd ep) acc) d acc
  = fold_left (fun acc ep => dadd eqb (g (fst ep)) (snd ep) acc) d acc.
Proof. reflexivity. Qed.

Lemma dmarg_mass_gen {K L} (eqb : L -> L -> bool) (g : K -> L) (d : list (K * Q)) (acc : list (L * Q)) :
  (kmass (fold_left (fun acc ep => dadd eqb (g (fst ep)) (snd ep) acc) d acc) == kmass acc + kmass d)%Q.
Proof.
  revert acc. induction d as [|[k q] t IH]; intros acc; simpl.
  - unfold kmass; simpl; ring.
  - rewrite IH, dadd_mass. unfold kmass; simpl; ring.
Qed.

Lemma dmarg_mass {K L} (eqb : L -> L -> bool) (g : K -> L) (d : list (K * Q)) :
  (kmass (dmarg eqb d g) == kmass d)%Q.
Proof. unfold dmarg. rewrite dmarg_mass_gen. unfold kmass; simpl; ring. Qed.

Lemma dmarg_nonneg_gen {K L} (eqb : L -> L -> bool) (g : K -> L) (d : list (K * Q)) (acc : list (L * Q)) :
  knonneg d -> knonneg acc -> knonneg (fold_left (fun acc ep => dadd eqb (g (fst ep)) (snd ep) acc) d acc).
Proof.
  revert acc. induction d as [|[k q] t IH]; intros acc Hd Ha; simpl; auto.
  inversion Hd as [|? ? H1 H2]; subst. simpl in H1. apply IH; auto. apply dadd_nonneg; auto.
Qed.

Lemma dmarg_keys_gen {K L} (eqb : L -> L -> bool) (P0 : K -> Prop) (P : L -> Prop) (g : K -> L)
      (d : list (K * Q)) (acc : list (L * Q)) :
  (forall e, P0 e -> P (g e)) -> kkeys P0 d -> kkeys P acc ->
  kkeys P (fold_left (fun acc ep => dadd eqb (g (fst ep)) (snd ep) acc) d acc).
Proof.
  intros Hg. revert acc. induction d as [|[k q] t IH]; intros acc Hd Ha; simpl; auto.
  inversion Hd as [|? ? H1 H2]; subst. simpl in H1. apply IH; auto. apply dadd_keys; auto.
Qed.

(* ------------------------------------------------------------------------------------------ *)
(* windy grid world                                                                              *)
(* ------------------------------------------------------------------------------------------ *)
Lemma windy_wind_mass (w : windyp) (e : nsr) : (kmass (windy_wind w e) == 1)%Q.
Proof.
  destruct e as [s r]. unfold windy_wind. destruct (gm_feat (w_rows w) s) as [f|].
  - destruct (Nat.eqb f C_RIGHT); [unfold kmass; simpl; ring|].
    destruct (Nat.eqb f C_LEFT); [unfold kmass; simpl; ring|].
    destruct (Nat.eqb f C_UP); [unfold kmass; simpl; ring|].
    destruct (Nat.eqb f C_DOWN); unfold kmass; simpl; ring.
  - unfold kmass; simpl; ring.
Qed.

Lemma windy_wind_nonneg (w : windyp) (e : nsr) : prob_range (w_wp w) -> knonneg (windy_wind w e).
Proof.
  intros [H0 H1]. destruct e as [s r]. unfold windy_wind, knonneg. destruct (gm_feat (w_rows w) s) as [f|].
  - destruct (Nat.eqb f C_RIGHT); [repeat constructor; simpl; lra|].
    destruct (Nat.eqb f C_LEFT); [repeat constructor; simpl; lra|].
    destruct (Nat.eqb f C_UP); [repeat constructor; simpl; lra|].
    destruct (Nat.eqb f C_DOWN); repeat constructor; simpl; lra.
  - repeat constructor; simpl; lra.
Qed.

Lemma windy_action_mass (w : windyp) (a : pos) (e : nsr) : (kmass (windy_action w a e) == 1)%Q.
Proof. unfold kmass; simpl; ring. Qed.

Lemma windy_walls_mass (w : windyp) (s0 : pos) (e : nsr) : (kmass (windy_walls w s0 e) == 1)%Q.
Proof.
  destruct e as [ns r]. unfold windy_walls. destruct (windy_is w (w_wallf w) ns); unfold kmass; simpl; ring.
Qed.

Lemma windy_features_mass (w : windyp) (e : nsr) : (kmass (windy_features w e) == 1)%Q.
Proof. destruct e as [s r]. unfold kmass; simpl; ring. Qed.

(* after the wall stage the location is a grid cell, whatever wind and action did, measured from the ORIGINAL cell *)
Lemma windy_walls_in_range (w : windyp) (s0 : pos) (e : nsr) :
  in_range (gm (w_rows w)) s0 ->
  kkeys (fun k : nsr => in_range (gm (w_rows w)) (fst k)) (windy_walls w s0 e).
Proof.
  intros [[Hx0 Hx1] [Hy0 Hy1]]. destruct e as [[nx ny] r]. unfold windy_walls, kkeys.
  destruct (windy_is w (w_wallf w) (nx, ny)).
  - repeat constructor; simpl; auto.
  - unfold gm_w, gm_h. simpl fst. simpl snd.
    destruct ((nx <? 0) || (g_w (gm (w_rows w)) - 1 <? nx)) eqn:Ex;
      destruct ((ny <? 0) || (g_h (gm (w_rows w)) - 1 <? ny)) eqn:Ey;
      repeat constructor; simpl;
      try (apply orb_false_iff in Ex; destruct Ex as [Ex1 Ex2]; apply Z.ltb_ge in Ex1, Ex2);
      try (apply orb_false_iff in Ey; destruct Ey as [Ey1 Ey2]; apply Z.ltb_ge in Ey1, Ey2); lia.
Qed.

Theorem windy_normalised (w : windyp) (s a : pos) :
  prob_range (w_wp w) ->
  (kmass (windy_nsr w s a) == 1)%Q /\ (kmass (windy_next w s a) == 1)%Q /\ knonneg (windy_next w s a).
Proof.
  intros Hp.
  assert (Hm : (kmass (windy_nsr w s a) == 1)%Q).
  { unfold windy_nsr.
    rewrite (dchain_mass nsr_eqb _ (windy_features w)) by (apply windy_features_mass).
    rewrite (dchain_mass nsr_eqb _ (windy_walls w s)) by (apply windy_walls_mass).
    rewrite (dchain_mass nsr_eqb _ (windy_action w a)) by (apply windy_action_mass).
    rewrite (dchain_mass nsr_eqb _ (windy_wind w)) by (apply windy_wind_mass).
    unfold kmass; simpl; ring. }
  split; auto. split.
  - unfold windy_next. rewrite dmarg_mass. exact Hm.
  - unfold windy_next, dmarg. apply dmarg_nonneg_gen; [|constructor].
    unfold windy_nsr.
    apply dchain_nonneg; [intros [s1 r1]; repeat constructor; simpl; lra|].
    apply dchain_nonneg; [intros [s1 r1]; unfold windy_walls;
                          destruct (windy_is w (w_wallf w) s1); repeat constructor; simpl; lra|].
    apply dchain_nonneg; [intros e; repeat constructor; simpl; lra|].
    apply dchain_nonneg; [intros e; apply windy_wind_nonneg; auto|].
    repeat constructor; simpl; lra.
Qed.

(* all outcomes are grid cells *)
Theorem windy_in_grid (w : windyp) (s a : pos) :
  in_range (gm (w_rows w)) s ->
  kkeys (in_range (gm (w_rows w))) (windy_next w s a).
Proof.
  intros Hs. unfold windy_next, dmarg.
  apply (dmarg_keys_gen pos_eqb (fun k : nsr => in_range (gm (w_rows w)) (fst k))); auto; [|constructor].
  unfold windy_nsr.
  apply (dchain_keys nsr_eqb (fun k : nsr => in_range (gm (w_rows w)) (fst k))).
  { intros [s1 r1] H1. unfold windy_features, kkeys. constructor; [simpl; exact H1|constructor]. }
  apply (dchain_keys nsr_eqb (fun _ : nsr => True)).
  { intros e _. apply windy_walls_in_range; auto. }
  apply (dchain_keys nsr_eqb (fun _ : nsr => True)).
  { intros e _. unfold kkeys. repeat constructor. }
  apply (dchain_keys nsr_eqb (fun _ : nsr => True)).
  { intros e _. unfold kkeys. rewrite Forall_forall. auto. }
  unfold kkeys. repeat constructor.
Qed.

(* NOT part of C20, recorded because DESIGN.md expected the opposite: the per-axis clamp can put the agent
   INTO a wall.  Layout "#." / "<."  wind 1: from (0,0) wind pushes to (-1,0), action up gives (-1,1), which is
   off-grid on x only, so x is reset and the agent lands on (0,1) = '#'. *)
Example windy_can_end_in_wall :
  let w := mkWindy [[35; 46]; [60; 46]]%nat [] (-1)%Q (-1)%Q 1%Q [64%nat] [36%nat] [35%nat] in
  windy_is w (w_wallf w) (0, 1) = true /\
  exists p, In ((0, 1), p) (windy_next w (0, 0) (0, 1)) /\ (p == 1)%Q.
Proof. simpl. split; [reflexivity|]. vm_compute. eexists. split; [right; left; reflexivity|reflexivity]. Qed.

Example windy_nonvacuous :
  let w := mkWindy [[46; 36]; [62; 35]]%nat [(36%nat, 5%Q)] (-1)%Q (-1)%Q (1 # 4)%Q [64%nat] [36%nat] [35%nat] in
  in_range (gm (w_rows w)) (0, 0) /\ prob_range (w_wp w) /\ length (windy_next w (0, 0) (0, 1)) = 2%nat.
Proof. simpl. repeat split; try (vm_compute; congruence); try lia; vm_compute; congruence. Qed.

(* ------------------------------------------------------------------------------------------ *)
(* cliff walking (any GridMDP grid with >= 1 start cell)                                        *)
(* ------------------------------------------------------------------------------------------ *)
Lemma in_gm_locations (rows : layout) (c : sym) (s : pos) :
  In s (gm_locations rows c) -> in_range (gm rows) s /\ gm_is rows s c = true.
Proof.
  unfold gm_locations. rewrite filter_In. intros [H1 H2]. split; auto.
  destruct s as [x y]. rewrite in_flat_map in H1. destruct H1 as [y' [Hy Hx]].
  rewrite in_map_iff in Hx. destruct Hx as [x' [E Hx]]. inversion E; subst.
  rewrite in_zrange in Hx, Hy. unfold in_range, g_w, g_h. simpl. auto.
Qed.

Theorem cliff_wellformed (rows : layout) (s a : pos) :
  gm_locations rows C_S <> [] -> 1 <= gm_w rows -> 1 <= gm_h rows ->
  (dmass (cliff_next rows s a) == 1)%Q /\
  forall ns p, In (ns, p) (cliff_next rows s a) -> in_range (gm rows) ns /\ (0 < p)%Q.
Proof.
  intros Hne Hw Hh. unfold cliff_next.
  destruct (gm_is rows (cliff_apply rows s a) C_X) eqn:E.
  - unfold uniform. split.
    + rewrite dmass_const. apply uniform_weight. destruct (gm_locations rows C_S); simpl; congruence.
    + intros ns p Hin. apply in_map_iff in Hin. destruct Hin as [s' [E' Hin]]. inversion E'; subst.
      split; [apply (in_gm_locations rows C_S); auto | reflexivity].
  - split; [simpl; ring|].
    intros ns p [Hin|[]]. inversion Hin; subst. split; [|reflexivity].
    unfold cliff_apply, in_range, gm_w, gm_h in *. simpl. lia.
Qed.

(* stepping onto the cliff: back to the start distribution, reward -100; otherwise reward -1 *)
Theorem cliff_reset (rows : layout) (s a : pos) :
  (gm_is rows (cliff_apply rows s a) C_X = true ->
     cliff_next rows s a = cliff_init rows /\ cliff_reward rows s a = (-100)%Q) /\
  (gm_is rows (cliff_apply rows s a) C_X = false ->
     cliff_next rows s a = [(cliff_apply rows s a, 1%Q)] /\ cliff_reward rows s a = (-1)%Q).
Proof. unfold cliff_next, cliff_reward, cliff_init. split; intros ->; auto. Qed.

Example cliff_nonvacuous :
  gm_locations cliff_grid C_S = [(0, 0)] /\ gm_w cliff_grid = 12 /\ gm_h cliff_grid = 4 /\
  gm_is cliff_grid (cliff_apply cliff_grid (0, 0) (1, 0)) C_X = true /\
  cliff_next cliff_grid (0, 1) (0, -1) = [((0, 0), 1%Q)].
Proof. repeat split; vm_compute; reflexivity. Qed.

Lemma pos_mem_In (s : pos) (l : list pos) : pos_mem s l = true <-> In s l.
Proof.
  unfold pos_mem. rewrite existsb_exists. split.
  - intros [x [Hx He]]. apply pos_eqb_eq in He. subst; auto.
  - intros H. exists s. split; auto. apply pos_eqb_refl.
Qed.

(* the closure certificate evaluated on msdm's (reachability-defined) state list is sound *)
Theorem windy_closed_check_sound (w : windyp) (skip : bool) (sl : list pos) :
  windy_closed_check w skip sl = true ->
  forall s, In s sl -> skip && windy_is_absorbing w s = false ->
  forall a, In a gm_actions ->
  forall ns p, In (ns, p) (windy_next w s a) -> ~ (p == 0)%Q -> In ns sl.
Proof.
  unfold windy_closed_check. intros H s Hs Hsk a Ha ns p Hin Hp.
  rewrite forallb_forall in H. specialize (H s Hs). rewrite Hsk in H. rewrite orb_false_l in H.
  rewrite forallb_forall in H. specialize (H a Ha).
  rewrite forallb_forall in H. specialize (H (ns, p) Hin). simpl in H.
  apply orb_true_iff in H. destruct H as [H|H].
  - apply Qeq_bool_eq in H. contradiction.
  - apply pos_mem_In; auto.
Qed.
