(* LAOStarProper.v — C03, undiscounted proper MDPs at full strength.
   An MDP-level properness certificate for ALL policies: weights W >= 0 with
       1 + gamma * sum_ns Pm(s, a, ns) * W ns <= W s     for every state and every available action
   (Pm = masked transitions, so W >= 1 at absorbing states).  This is the notion of theory/LRTDPTheory.v
   [proper_weights] (C04_proper_optimum_unique), stated for the masked model of MDP.v that C03 uses.
   It is checked per case by the boolean [c_proper] in exact rationals.  Under it, for ANY gamma <= 1:
     - the fixed point of the optimality operator is unique ([proper_unique]): "the optimal value function";
     - W is an expected-steps certificate for EVERY deterministic policy on EVERY closed set
       ([proper_steps]), so the per-case table Nst of c03_check is no longer needed.
   Everything here is new; nothing in the earlier files changes. *)
From Coq Require Import QArith Qreals Reals Lra Lia List Arith Bool.
From Param Require Import Param.
From MSDM Require Import base.Num base.NumInst base.NumR base.Transfer model.MDP model.VI model.LAOStar
     theory.Bellman theory.VITheory theory.VITransfer theory.LAOStarTheory theory.LAOStarTransfer.
Import ListNotations.

(* ------------------------------------------------------------------ *)
(* executable certificate (generic in the number type)                  *)
(* ------------------------------------------------------------------ *)
Definition c_proper {T} {NT : Num T} (m : mdp T) (mk : list bool) (W : list T) : bool :=
  forallbn (nS m) (fun s =>
    nleb n0 (untab W s) &&
    forallbn (nA m) (fun a =>
      if avail m s a then
        nleb (nadd n1 (nmul (gamma m) (sumf (nS m) (fun ns => nmul (PmT m mk s a ns) (untab W ns)))))
             (untab W s)
      else true)).

(* c03_check with the MDP-level certificate W in place of the per-policy table Nst *)
Definition c03_proper_check {T} {NT : Num T} (m : mdp T) (o : laoout) (t : ltols) (Vstar W : list T)
  : list bool :=
  let mk := masktab m in
  [wfb m; c_initdist m; c_conv o; c_closed m mk o; c_det m o; c_avail m o t; c_cons m mk o t;
   c_fix m mk Vstar; c_upper m o t Vstar; c_init m o t; c_proper m mk W].

Parametricity Recursive c03_proper_check.

Theorem c03_proper_check_transfer nS nA P Rw av ab ini g conv ex V C pol Pi iv (tl : @ltols Q) Vstar W :
  @c03_proper_check Q NumQ (mk_mdp nS nA P Rw av ab ini g) (mk_lao conv ex V C pol Pi iv) tl Vstar W =
  @c03_proper_check R NumR
     (mk_mdp nS nA (map3 Q2R P) (map3 Q2R Rw) av ab (map Q2R ini) (Q2R g))
     (mk_lao conv ex (map Q2R V) C pol (map2 Q2R Pi) (Q2R iv))
     (ltolsR tl) (map Q2R Vstar) (map Q2R W).
Proof.
  apply list_R_bool_eq.
  apply (c03_proper_check_R Q R QR NumQ NumR NumQR).
  - apply mk_mdp_rel.
  - apply mk_lao_rel.
  - destruct tl. constructor; reflexivity.
  - apply list_R_map1.
  - apply list_R_map1.
Qed.

Local Open Scope R_scope.

(* ------------------------------------------------------------------ *)
(* theory on R                                                          *)
(* ------------------------------------------------------------------ *)
Lemma fin_choice n (Rl : nat -> nat -> Prop) :
  (forall s, (s < n)%nat -> exists a, Rl s a) -> exists f, forall s, (s < n)%nat -> Rl s (f s).
Proof.
  induction n as [|n IH]; intros H.
  - exists (fun _ => 0%nat). intros s Hs. lia.
  - destruct IH as (f & Hf); [intros s Hs; apply H; lia|].
    destruct (H n (Nat.lt_succ_diag_r n)) as (a & Ha).
    exists (fun s => if (s =? n)%nat then a else f s). intros s Hs.
    destruct (s =? n)%nat eqn:E.
    + apply Nat.eqb_eq in E. now subst.
    + apply Nat.eqb_neq in E. apply Hf. lia.
Qed.

Section Proper.
Variable m : mdp R.
Hypothesis Wf : wf m.

Definition proper_cert (w : nat -> R) : Prop :=
  (forall s, (s < nS m)%nat -> 0 <= w s) /\
  (forall s a, (s < nS m)%nat -> (a < nA m)%nat -> avail m s a = true ->
     1 + gamma m * sumf (nS m) (fun ns => Pm m s a ns * w ns) <= w s).

(* (i) the weights are an expected-steps certificate for every deterministic policy on every closed set *)
Theorem proper_steps w inC pol :
  proper_cert w -> closedC m inC pol -> steps_cert m inC pol w.
Proof.
  intros (H0 & H1) HC. split; [exact H0|]. intros s Hs Hin.
  destruct (HC s Hs Hin) as (Ha & Hav & _). unfold psum. apply H1; auto.
Qed.

(* one direction of uniqueness *)
Lemma proper_le w A B :
  proper_cert w -> fixpoint m A -> fixpoint m B -> forall s, (s < nS m)%nat -> A s <= B s.
Proof.
  intros Hw HA HB.
  assert (Hex : forall s, (s < nS m)%nat ->
            exists a, (a < nA m)%nat /\ avail m s a = true /\ Qval m A s a = Top m A s).
  { intros s Hs. pose proof (backup_some m A s Wf Hs) as Hb. unfold backup in Hb.
    destruct (maxf_attained _ _ _ _ Hb) as (a & Ha & Hav & Hq). eauto. }
  destruct (fin_choice (nS m) _ Hex) as (pol & Hpol).
  set (inC := fun _ : nat => true).
  assert (HC : closedC m inC pol).
  { intros s Hs _. destruct (Hpol s Hs) as (Ha & Hav & _). repeat split; auto. }
  pose proof (proper_steps w inC pol Hw HC) as HN.
  intros s Hs.
  cut (A s - B s <= 0 * w s); [lra|].
  apply (weighted_bound m Wf inC pol w (fun s => A s - B s) 0 HC HN (Rle_refl 0)); auto.
  clear s Hs. intros s Hs _. rewrite psum_minus.
  destruct (Hpol s Hs) as (Ha & Hav & Hq).
  pose proof (backup_some m B s Wf Hs) as Hb. unfold backup in Hb.
  pose proof (maxf_ge _ _ _ _ _ Hb Ha Hav) as Hge.
  rewrite (HA s Hs), <- Hq. rewrite (HB s Hs) at 1.
  rewrite !Qval_psum in *. lra.
Qed.

(* (ii) for a proper MDP the optimality operator has at most one fixed point, any gamma <= 1 *)
Theorem proper_unique w V1 V2 :
  proper_cert w -> fixpoint m V1 -> fixpoint m V2 -> forall s, (s < nS m)%nat -> V1 s = V2 s.
Proof.
  intros Hw H1 H2 s Hs.
  pose proof (proper_le w V1 V2 Hw H1 H2 s Hs). pose proof (proper_le w V2 V1 Hw H2 H1 s Hs). lra.
Qed.

(* discounted MDPs are always proper: constant weights *)
Lemma discounted_proper : gamma m < 1 -> proper_cert (fun _ => 1 / (1 - gamma m)).
Proof.
  intros G1. pose proof (wf_gamma0 m Wf) as G0.
  assert (Hk : 0 < 1 / (1 - gamma m)) by (apply Rdiv_lt_0_compat; lra).
  split; [intros; lra|]. intros s a Hs Ha _.
  assert (Hp : sumf (nS m) (fun ns => Pm m s a ns * (1 / (1 - gamma m))) <= 1 / (1 - gamma m)).
  { rewrite sumf_scal_r. pose proof (wf_Psub m Wf s a Hs Ha) as Hsub.
    replace (1 / (1 - gamma m)) with (1 * (1 / (1 - gamma m))) at 2 by lra.
    apply Rmult_le_compat_r; lra. }
  apply Rle_trans with (1 + gamma m * (1 / (1 - gamma m))).
  - apply Rplus_le_compat_l, Rmult_le_compat_l; auto.
  - right. field. lra.
Qed.

End Proper.

(* ------------------------------------------------------------------ *)
(* the boolean certificate                                              *)
(* ------------------------------------------------------------------ *)
Section ProperCheck.
Variable m : mdp R.
Variable o : @laoout R.
Variable W : list R.

Lemma c_proper_spec : c_proper m (masktab m) W = true -> proper_cert m (untab W).
Proof.
  unfold c_proper. rewrite forallbn_spec. intros H. split.
  - intros s Hs. specialize (H s Hs). apply andb_true_iff in H as [H _]. now apply nleb_Rle in H.
  - intros s a Hs Ha Hav. specialize (H s Hs). apply andb_true_iff in H as [_ H].
    rewrite forallbn_spec in H. specialize (H a Ha). rewrite Hav in H. apply nleb_Rle in H. numR.
    rewrite (sumf_ext _ _ (fun ns => PmT m (masktab m) s a ns * untab W ns));
      [exact H|]. intros ns Hns. now rewrite PmT_eq.
Qed.

(* with the MDP-level certificate the per-policy clause c_steps holds for N := W *)
Lemma c_proper_steps :
  c_proper m (masktab m) W = true -> c_closed m (masktab m) o = true ->
  c_steps m (masktab m) o W = true.
Proof.
  unfold c_proper, c_steps. rewrite !forallbn_spec. intros Hp Hcl s Hs.
  pose proof (Hp s Hs) as H. apply andb_true_iff in H as [H0 H1]. rewrite H0. simpl.
  destruct (lC o s) eqn:Hc; [|reflexivity].
  destruct (c_closed_spec m o Hcl) as (HC & _ & _). destruct (HC s Hs Hc) as (Ha & Hav & _).
  rewrite forallbn_spec in H1. specialize (H1 (lPol o s) Ha). now rewrite Hav in H1.
Qed.
End ProperCheck.

(* ------------------------------------------------------------------ *)
(* end-to-end                                                            *)
(* ------------------------------------------------------------------ *)
Section MainProper.
Variables (nS nA : nat) (P Rw : list (list (list Q))) (av : list (list bool)) (ab : list bool)
          (ini : list Q) (g : Q).
Variables (conv : bool) (ex : list bool) (V : list Q) (C : list bool) (pol : list nat)
          (Pi : list (list Q)) (iv : Q) (tl : @ltols Q) (Vstar W : list Q).

Notation mR := (mR nS nA P Rw av ab ini g).
Notation oR := (oR conv ex V C pol Pi iv).
Definition WR : nat -> R := untab (map Q2R W).

Hypothesis Hchk :
  @c03_proper_check Q NumQ (mk_mdp nS nA P Rw av ab ini g) (mk_lao conv ex V C pol Pi iv) tl Vstar W
  = all_true11.

Lemma pclauses :
  wfb mR = true /\ c_initdist mR = true /\ c_conv oR = true /\ c_closed mR (masktab mR) oR = true /\
  c_det mR oR = true /\ c_avail mR oR (tR tl) = true /\ c_cons mR (masktab mR) oR (tR tl) = true /\
  c_fix mR (masktab mR) (map Q2R Vstar) = true /\ c_upper mR oR (tR tl) (map Q2R Vstar) = true /\
  c_init mR oR (tR tl) = true /\ c_proper mR (masktab mR) (map Q2R W) = true.
Proof.
  pose proof Hchk as H. rewrite c03_proper_check_transfer in H.
  unfold c03_proper_check, all_true11 in H. injection H; intros. repeat split; assumption.
Qed.

Lemma mR_wf' : wf mR.
Proof. apply wfb_wf. apply pclauses. Qed.

Lemma mR_proper : proper_cert mR WR.
Proof. apply c_proper_spec. apply pclauses. Qed.

(* the optimal value function exists and is unique *)
Theorem main_proper_optimum :
  fixpoint mR (VsR Vstar) /\
  forall V1 V2, fixpoint mR V1 -> fixpoint mR V2 -> forall s, (s < nS)%nat -> V1 s = V2 s.
Proof.
  split.
  - apply fixbT_fixpoint. apply pclauses.
  - intros V1 V2 H1 H2 s Hs. apply (proper_unique mR mR_wf' WR V1 V2 mR_proper H1 H2 s Hs).
Qed.

Theorem main_proper_converged : conv = true.
Proof. destruct pclauses as (_ & _ & H & _). exact H. Qed.

Theorem main_proper_explored_upper Vs :
  fixpoint mR Vs -> forall s, (s < nS)%nat -> nthb ex s = true -> Vs s - Q2R (ups tl) <= lV oR s.
Proof.
  intros HVs s Hs He. destruct pclauses as (_ & _ & _ & _ & _ & _ & _ & Hfix & Hup & _).
  rewrite (proper_unique mR mR_wf' WR Vs (VsR Vstar) mR_proper HVs (fixbT_fixpoint mR _ Hfix) s Hs).
  apply (c_upper_spec mR oR (tR tl) (map Q2R Vstar) Hup s Hs He).
Qed.

Theorem main_proper_final Vs Vpi :
  0 <= Q2R (rho tl) -> fixpoint mR Vs -> poleval mR (nthb C) (nthn pol) Vpi ->
  forall s, (s < nS)%nat -> nthb C s = true ->
    Vs s - Q2R (ups tl) <= lV oR s <= Vs s + Q2R (rho tl) * WR s /\
    Vs s - (Q2R (ups tl) + Q2R (rho tl) * WR s) <= Vpi s <= Vs s /\
    Rabs (lV oR s - Vpi s) <= Q2R (rho tl) * WR s.
Proof.
  intros Hr HVs Hpe s Hs Hc.
  destruct pclauses as (Hwf & _ & _ & Hcl & _ & _ & Hcons & Hfix & Hup & _ & Hp).
  rewrite (proper_unique mR mR_wf' WR Vs (VsR Vstar) mR_proper HVs (fixbT_fixpoint mR _ Hfix) s Hs).
  apply (final_general mR oR (tR tl) (map Q2R Vstar) (map Q2R W) Vpi Hwf Hcl Hcons Hfix Hup
           (c_proper_steps mR oR (map Q2R W) Hp Hcl) Hr Hpe s Hs Hc).
Qed.

Theorem main_proper_initial Vs Vpi B :
  0 <= Q2R (rho tl) -> 0 <= Q2R (ups tl) ->
  (forall s, (s < nS)%nat -> nthb C s = true -> WR s <= B) ->
  fixpoint mR Vs -> poleval mR (nthb C) (nthn pol) Vpi ->
  Rabs (Q2R iv - avg mR Vs) <= Q2R (itol tl) + (Q2R (ups tl) + Q2R (rho tl) * B) /\
  Rabs (avg mR Vpi - avg mR Vs) <= Q2R (ups tl) + Q2R (rho tl) * B.
Proof.
  intros Hr Hu HB HVs Hpe.
  destruct pclauses as (Hwf & Hid & _ & Hcl & _ & _ & Hcons & Hfix & Hup & Hin & Hp).
  assert (E : avg mR Vs = avg mR (VsR Vstar)).
  { unfold avg. apply sumf_ext. intros s Hs.
    now rewrite (proper_unique mR mR_wf' WR Vs (VsR Vstar) mR_proper HVs (fixbT_fixpoint mR _ Hfix) s Hs). }
  rewrite E.
  apply (initial_general mR oR (tR tl) (map Q2R Vstar) (map Q2R W) Vpi B Hwf Hid Hcl Hcons Hfix Hup
           (c_proper_steps mR oR (map Q2R W) Hp Hcl) Hin Hr Hu HB Hpe).
Qed.

Theorem main_proper_policy_total s :
  preach mR oR s ->
  nthb C s = true /\ nthb ex s = true /\ (nthn pol s < nA)%nat /\ avail mR s (nthn pol s) = true /\
  forall a, (a < nA)%nat -> lPi oR s a = if (a =? nthn pol s)%nat then 1 else 0.
Proof.
  intros Hp. destruct pclauses as (_ & _ & _ & Hcl & Hdet & _).
  apply (policy_total mR oR Hcl Hdet s Hp).
Qed.

Theorem main_proper_policy_available s a :
  (s < nS)%nat -> (a < nA)%nat -> 0 < lPi oR s a -> avail mR s a = true.
Proof.
  intros Hs Ha Hp. destruct pclauses as (_ & _ & _ & _ & _ & Hav & _).
  apply (policy_available mR oR (tR tl) Hav s a Hs Ha Hp).
Qed.

End MainProper.

(* ------------------------------------------------------------------ *)
(* non-vacuity: the 4-state example of LAOStarTransfer.v made UNDISCOUNTED (gamma = 1):
   V* = (-2, -1, -2, 0); weights W = (3, 2, 2, 1) certify that every policy is proper            *)
(* ------------------------------------------------------------------ *)
Local Open Scope Q_scope.
Definition exVs1 : list Q := [-2; -1; -2; 0].
Definition exV1 : list Q := [-2; -1; 0; 0].
Definition exW1 : list Q := [3; 2; 2; 1].

Example ex_proper_check :
  @c03_proper_check Q NumQ (mk_mdp 4 2 exP exR exAv exAb exIni 1)
     (mk_lao true [true; true; true; true] exV1 exC exPol exPi (-2)) exT exVs1 exW1 = all_true11.
Proof. vm_compute. reflexivity. Qed.

Example ex_proper_hyps :
  proper_cert (mR 4 2 exP exR exAv exAb exIni 1) (WR exW1) /\
  fixpoint (mR 4 2 exP exR exAv exAb exIni 1) (VsR exVs1) /\
  poleval (mR 4 2 exP exR exAv exAb exIni 1) (nthb exC) (nthn exPol)
          (Vm (mR 4 2 exP exR exAv exAb exIni 1)
              (lV (oR true [true; true; true; true] exV1 exC exPol exPi (-2)))).
Proof.
  split; [|split].
  - apply (mR_proper 4 2 exP exR exAv exAb exIni 1 true _ exV1 exC exPol exPi _ exT exVs1 exW1 ex_proper_check).
  - apply (main_proper_optimum 4 2 exP exR exAv exAb exIni 1 true _ exV1 exC exPol exPi _ exT exVs1 exW1 ex_proper_check).
  - apply cons0_poleval.
    destruct (pclauses 4 2 exP exR exAv exAb exIni 1 true _ exV1 exC exPol exPi _ exT exVs1 exW1 ex_proper_check)
      as (_ & _ & _ & _ & _ & _ & Hcons & _).
    apply c_cons_spec in Hcons. unfold tR, ltolsR in Hcons. simpl in Hcons.
    replace 0%R with (Q2R 0) by (unfold Q2R; simpl; lra). exact Hcons.
Qed.
