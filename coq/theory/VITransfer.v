(* VITransfer.v — C01: what vm_compute evaluates on Q is the checker the theorems
   of VITheory.v are about (R instance), by the parametricity translation. *)
From Coq Require Import QArith Qreals Reals List Bool.
From Param Require Import Param.
From MSDM Require Import base.Num base.NumInst base.Transfer model.MDP model.VI.
Import ListNotations.

Parametricity Recursive mk_mdp.
Parametricity Recursive mk_out.
Parametricity Recursive c01_check.

Lemma list_R_bool_eq l1 l2 : list_R bool bool bool_R l1 l2 -> l1 = l2.
Proof. induction 1 as [|? ? H ? ? ? IH]; [reflexivity|]. f_equal; [now apply bool_R_inv|exact IH]. Qed.

Definition QRo (a : option Q) (b : option R) : Prop := option_map Q2R a = b.
Lemma option_R_map (a : option Q) : option_R Q R QR a (option_map Q2R a).
Proof. destruct a; constructor. reflexivity. Qed.

Definition map2 {A B} (f : A -> B) := map (map f).
Definition map3 {A B} (f : A -> B) := map (map (map f)).

Lemma list_R_map1 (l : list Q) : list_R Q R QR l (map Q2R l).
Proof. apply list_R_map. intros a. reflexivity. Qed.
Lemma list_R_map2 (l : list (list Q)) :
  list_R (list Q) (list R) (list_R Q R QR) l (map2 Q2R l).
Proof. apply list_R_map. intros a. apply list_R_map1. Qed.
Lemma list_R_map3 (l : list (list (list Q))) :
  list_R _ _ (list_R (list Q) (list R) (list_R Q R QR)) l (map3 Q2R l).
Proof. apply list_R_map. intros a. apply list_R_map2. Qed.
Lemma list_R_bool2_refl (l : list (list bool)) :
  list_R (list bool) (list bool) (list_R bool bool bool_R) l l.
Proof. induction l; constructor; auto using list_R_bool_refl. Qed.
Lemma list_R_opt2 (l : list (list (option Q))) :
  list_R _ _ (list_R (option Q) (option R) (option_R Q R QR)) l (map2 (option_map Q2R) l).
Proof. apply list_R_map. intros a. apply list_R_map. intros b. apply option_R_map. Qed.

Definition tolsR (t : @tols Q) : @tols R :=
  mkTols (Q2R (epsb t)) (Q2R (qtol t)) (Q2R (rtol_hi t)) (Q2R (atol_hi t))
         (Q2R (rtol_lo t)) (Q2R (atol_lo t)) (Q2R (ptol t)) (Q2R (itol t)) (Q2R (undef t)).

(* The transfer theorem: evaluation on exact rationals = the real-valued checker *)
Theorem c01_check_transfer nS nA P Rw av ab ini g V Qv Pi iv (tl : @tols Q) :
  @c01_check Q NumQ (mk_mdp nS nA P Rw av ab ini g) (mk_out V Qv Pi iv) tl =
  @c01_check R NumR
     (mk_mdp nS nA (map3 Q2R P) (map3 Q2R Rw) av ab (map Q2R ini) (Q2R g))
     (mk_out (map Q2R V) (map2 (option_map Q2R) Qv) (map2 Q2R Pi) (Q2R iv))
     (tolsR tl).
Proof.
  apply list_R_bool_eq.
  apply (c01_check_R Q R QR NumQ NumR NumQR).
  - apply (mk_mdp_R Q R QR NumQ NumR NumQR); try apply nat_R_refl;
      auto using list_R_map1, list_R_map2, list_R_map3, list_R_bool_refl, list_R_bool2_refl.
    reflexivity.
  - apply (mk_out_R Q R QR NumQ NumR NumQR);
      auto using list_R_map1, list_R_map2, list_R_opt2.
    reflexivity.
  - destruct tl. constructor; reflexivity.
Qed.
Print Assumptions c01_check_transfer.

Parametricity Recursive fixb.
Theorem fixb_transfer nS nA P Rw av ab ini g V :
  @fixb Q NumQ (mk_mdp nS nA P Rw av ab ini g) V =
  @fixb R NumR (mk_mdp nS nA (map3 Q2R P) (map3 Q2R Rw) av ab (map Q2R ini) (Q2R g)) (map Q2R V).
Proof.
  apply bool_R_inv.
  apply (fixb_R Q R QR NumQ NumR NumQR).
  - apply (mk_mdp_R Q R QR NumQ NumR NumQR); try apply nat_R_refl;
      auto using list_R_map1, list_R_map2, list_R_map3, list_R_bool_refl, list_R_bool2_refl.
    reflexivity.
  - apply list_R_map1.
Qed.

Parametricity Recursive c01_undisc_check.
Theorem c01_undisc_check_transfer nS nA P Rw av ab ini g V Qv Pi iv N :
  @c01_undisc_check Q NumQ (mk_mdp nS nA P Rw av ab ini g) (mk_out V Qv Pi iv) N =
  @c01_undisc_check R NumR
     (mk_mdp nS nA (map3 Q2R P) (map3 Q2R Rw) av ab (map Q2R ini) (Q2R g))
     (mk_out (map Q2R V) (map2 (option_map Q2R) Qv) (map2 Q2R Pi) (Q2R iv))
     (map Q2R N).
Proof.
  apply list_R_bool_eq.
  apply (c01_undisc_check_R Q R QR NumQ NumR NumQR).
  - apply (mk_mdp_R Q R QR NumQ NumR NumQR); try apply nat_R_refl;
      auto using list_R_map1, list_R_map2, list_R_map3, list_R_bool_refl, list_R_bool2_refl.
    reflexivity.
  - apply (mk_out_R Q R QR NumQ NumR NumQR);
      auto using list_R_map1, list_R_map2, list_R_opt2.
    reflexivity.
  - apply list_R_map1.
Qed.
