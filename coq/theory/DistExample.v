(* DistExample.v — C11 non-vacuity: concrete distributions (with a zero entry, unnormalised
   variants, overlapping supports) on which the hypotheses of the C11 theorems hold. *)
From Coq Require Import QArith Qreals Reals Lra Lia List Bool Arith.
From MSDM Require Import base.Num base.NumInst base.NumR base.Transfer model.Dist
     theory.DistTheory theory.DistTransfer.
Import ListNotations.
Local Open Scope R_scope.

Lemma nat_eqb_spec : forall a b : nat, Nat.eqb a b = true <-> a = b.
Proof. exact Nat.eqb_eq. Qed.

(* p(0)=1/4, p(1)=1/2, p(2)=0 (zero entry), p(3)=1/4 *)
Definition exD : list (nat * R) := [(0%nat, 1/4); (1%nat, 1/2); (2%nat, 0); (3%nat, 1/4)].
(* an unnormalised distribution overlapping exD on {1,2} *)
Definition exE : list (nat * R) := [(1%nat, 1); (2%nat, 3); (5%nat, 0)].
(* a likelihood that vanishes on event 1 *)
Definition exW (k : nat) : R := match k with 0%nat => 1/2 | 1%nat => 0 | 2%nat => 1 | _ => 1/4 end.

Lemma exD_nodup : NoDup (keys exD).
Proof. unfold exD, keys; simpl. repeat constructor; simpl; intuition lia. Qed.
Lemma exE_nodup : NoDup (keys exE).
Proof. unfold exE, keys; simpl. repeat constructor; simpl; intuition lia. Qed.
Lemma exD_nonneg : forall kv, In kv exD -> 0 <= snd kv.
Proof. unfold exD; simpl. intros kv [<-|[<-|[<-|[<-|[]]]]]; simpl; lra. Qed.
Lemma exE_nonneg : forall kv, In kv exE -> 0 <= snd kv.
Proof. unfold exE; simpl. intros kv [<-|[<-|[<-|[]]]]; simpl; lra. Qed.
Lemma exD_mass : @mass R NumR nat exD = 1.
Proof. rewrite mass_Rsum. unfold exD; simpl. lra. Qed.
Lemma exW_nonneg : forall x, 0 <= exW x.
Proof. intros [|[|[|x]]]; simpl; lra. Qed.

(* condition_bayes applies: the evidence has positive mass 3/16 and the posterior of event 0 is 2/3 *)
Example ex_condition :
  let W := Rsum (map (fun x => @prob R NumR nat Nat.eqb exD x * exW x) (keys exD)) in
  W = 3/16 /\ @prob R NumR nat Nat.eqb (condition Nat.eqb exW exD) 0%nat = 2/3 /\
  @mass R NumR nat (condition Nat.eqb exW exD) = 1.
Proof.
  intros W. assert (HW : W = 3/16) by (unfold W, exD, keys, prob; simpl; lra).
  destruct (condition_bayes Nat.eqb nat_eqb_spec exW exD exD_nodup exW_nonneg) as (Hp & Hm & _).
  { fold W. lra. }
  split; [exact HW|]. split; [|exact Hm]. rewrite Hp. fold W. rewrite HW.
  unfold prob, exD; simpl. lra.
Qed.

(* and_renormalised_product applies: common support {1,2}, common mass 1/2 *)
Example ex_conj :
  (forall e, In e (common Nat.eqb exD exE) <-> In e (keys exD) /\ In e (keys exE)) /\
  conj_norm Nat.eqb (common Nat.eqb exD exE) exD exE = 1/2 /\
  @prob R NumR nat Nat.eqb (conj_on Nat.eqb (common Nat.eqb exD exE) exD exE) 1%nat = 1.
Proof.
  assert (HN : conj_norm Nat.eqb (common Nat.eqb exD exE) exD exE = 1/2).
  { unfold conj_norm, common, pprod, prob, exD, exE, keys; simpl. lra. }
  split; [intros e; apply (common_spec Nat.eqb nat_eqb_spec)|]. split; [exact HN|].
  destruct (and_renormalised_product Nat.eqb nat_eqb_spec (common Nat.eqb exD exE) exD exE) as (Hp & _).
  - intros e; apply (common_spec Nat.eqb nat_eqb_spec).
  - lra.
  - rewrite Hp, HN. unfold prob, exD, exE; simpl. lra.
Qed.

(* sample_positive applies to exD (zero entry in the middle) and to a table with trailing zeros *)
Definition exT : list (nat * R) := [(7%nat, 0); (8%nat, 2); (9%nat, 0); (4%nat, 0)].
Example ex_sample :
  (forall u, 0 <= u < 1 -> exists e, @sample R NumR nat Nat.eqb exD u = Some e /\
                                      0 < @prob R NumR nat Nat.eqb exD e) /\
  (forall u, 0 <= u < 1 -> @sample R NumR nat Nat.eqb exT u = Some 8%nat).
Proof.
  split.
  - intros u Hu. apply (sample_positive Nat.eqb nat_eqb_spec); auto using exD_nodup, exD_nonneg.
    rewrite exD_mass. lra.
  - intros u Hu.
    destruct (sample_positive Nat.eqb nat_eqb_spec exT u) as (e & Hs & Hp); auto.
    + unfold exT, keys; simpl. repeat constructor; simpl; intuition lia.
    + unfold exT; simpl. intros kv [<-|[<-|[<-|[<-|[]]]]]; simpl; lra.
    + rewrite mass_Rsum. unfold exT; simpl. lra.
    + rewrite Hs. f_equal.
      unfold prob, exT in Hp.
      destruct (Nat.eq_dec e 8) as [->|Hne]; [reflexivity|exfalso].
      destruct e as [|[|[|[|[|[|[|[|[|[|e]]]]]]]]]]; simpl in Hp; try lra; congruence.
Qed.

(* the executable side: the same posterior computed by vm_compute on Q, tied by the transfer *)
Definition exDq : list (nat * Q) := [(0%nat, 1#4); (1%nat, 1#2); (2%nat, 0#1); (3%nat, 1#4)]%Q.
Definition exWq (k : nat) : Q := match k with 0%nat => 1#2 | 1%nat => 0#1 | 2%nat => 1#1 | _ => 1#4 end%Q.
Example ex_condition_executed :
  @condition Q NumQ nat Nat.eqb exWq exDq = [(0%nat, 2#3); (2%nat, 0#1); (3%nat, 1#3)]%Q /\
  mapR (@condition Q NumQ nat Nat.eqb exWq exDq) =
  @condition R NumR nat Nat.eqb (fun x => Q2R (exWq x)) (mapR exDq).
Proof. split; [vm_compute; reflexivity|apply condition_transfer]. Qed.

Example ex_softmax :
  @mass R NumR nat (softmax [(0%nat, 100); (1%nat, 100); (2%nat, 90)]) = 1 /\
  softmax (shift_scores 7 [(0%nat, 100); (1%nat, 100); (2%nat, 90)]) =
  softmax [(0%nat, 100); (1%nat, 100); (2%nat, 90)].
Proof. split; [apply softmax_normalised; discriminate|apply softmax_shift_invariant]. Qed.
