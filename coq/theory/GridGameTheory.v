(* GridGameTheory.v — C18: soundness of the certificate checker model/GridGame.v:gg_check
   (for every layout, any grid size, any number of agents, any distribution). *)
From Coq Require Import QArith Qabs List Bool ZArith Arith Lia Lqa.
From MSDM Require Import model.FactorTable model.GridGame theory.FactorTableTheory.
Import ListNotations.
Local Open Scope Q_scope.

Lemma cell_eqb_spec a b : cell_eqb a b = true <-> a = b.
Proof.
  unfold cell_eqb. rewrite andb_true_iff, !Z.eqb_eq. destruct a, b; simpl. split.
  - intros [-> ->]; reflexivity.
  - intro H; inversion H; auto.
Qed.

Lemma cell_eqb_false a b : cell_eqb a b = false <-> a <> b.
Proof.
  split.
  - intros H E. apply cell_eqb_spec in E. congruence.
  - intro H. destruct (cell_eqb a b) eqn:E; [apply cell_eqb_spec in E; contradiction | reflexivity].
Qed.

Lemma cell_eqb_refl a : cell_eqb a a = true.
Proof. now apply cell_eqb_spec. Qed.

Lemma cell_mem_spec c l : cell_mem c l = true <-> In c l.
Proof.
  unfold cell_mem. rewrite existsb_exists. split.
  - intros [x [I E]]. apply cell_eqb_spec in E. now subst.
  - intro I. exists c. split; [assumption | apply cell_eqb_refl].
Qed.

Lemma edge_mem_spec a b l : edge_mem a b l = true <-> In (a, b) l.
Proof.
  unfold edge_mem. rewrite existsb_exists. split.
  - intros [[x y] [I E]]. simpl in E. apply andb_true_iff in E. destruct E as [E1 E2].
    apply cell_eqb_spec in E1, E2. now subst.
  - intro I. exists (a, b). simpl. rewrite !cell_eqb_refl. auto.
Qed.

Lemma nat_mem_spec i l : nat_mem i l = true <-> In i l.
Proof.
  unfold nat_mem. rewrite existsb_exists. split.
  - intros [x [I E]]. apply Nat.eqb_eq in E. now subst.
  - intro I. exists i. split; [assumption | apply Nat.eqb_refl].
Qed.

Lemma pairs_spec n i j : In (i, j) (pairs n) <-> (i < j < n)%nat.
Proof.
  unfold pairs. rewrite in_flat_map. split.
  - intros [i' [I1 I2]]. apply in_map_iff in I2. destruct I2 as [j' [E I2]]. inversion E; subst.
    apply in_seq in I1, I2. lia.
  - intro H. exists i. split; [apply in_seq; lia|]. apply in_map_iff. exists j. split; [reflexivity|].
    apply in_seq. lia.
Qed.

(* an agent stands on a goal it owns *)
Definition on_own_goal (L : layout) (cur : list cell) : Prop :=
  exists i g, (i < length cur)%nat /\ In g (gGoals L) /\ fst g = nth i cur cell0 /\ In i (snd g).

Lemma is_absorbing_spec L cur : is_absorbing L cur = true <-> on_own_goal L cur.
Proof.
  unfold is_absorbing, on_own_goal. rewrite existsb_exists. split.
  - intros [i [Ii E]]. apply in_seq in Ii. apply existsb_exists in E. destruct E as [g [Ig E]].
    apply andb_true_iff in E. destruct E as [E1 E2]. apply cell_eqb_spec in E1. apply nat_mem_spec in E2.
    exists i, g. repeat split; auto; lia.
  - intros [i [g [Hi [Ig [E1 E2]]]]]. exists i. split; [apply in_seq; lia|].
    apply existsb_exists. exists g. split; [assumption|]. rewrite <- E1, cell_eqb_refl.
    simpl. now apply nat_mem_spec.
Qed.

Definition cell_add (c : cell) (a : action) : cell := (fst c + fst a, snd c + snd a)%Z.

(* what property C18 says about ONE positive-probability outcome of a non-goal, non-terminal state *)
Record outcome_ok (L : layout) (cur : list cell) (ja : list action) (pos : list cell) : Prop := {
  ok_len : length pos = length cur;
  ok_grid : forall i, (i < length cur)%nat ->
      (0 <= fst (nth i pos cell0) < gW L)%Z /\ (0 <= snd (nth i pos cell0) < gH L)%Z;
  ok_obst : forall i, (i < length cur)%nat -> ~ In (nth i pos cell0) (gObst L);
  ok_wall : forall i, (i < length cur)%nat -> ~ In (nth i cur cell0, nth i pos cell0) (gWalls L);
  ok_step : forall i, (i < length cur)%nat ->
      (nth i pos cell0 = nth i cur cell0 \/ nth i pos cell0 = cell_add (nth i cur cell0) (nth i ja cell0)) /\
      (Z.abs (fst (nth i pos cell0) - fst (nth i cur cell0)) +
       Z.abs (snd (nth i pos cell0) - snd (nth i cur cell0)) <= 1)%Z;
  ok_shared : forall i j, (i < j < length cur)%nat -> nth i pos cell0 = nth j pos cell0 ->
      exists g, In g (gGoals L) /\ fst g = nth i pos cell0 /\ (In i (snd g) \/ In j (snd g));
  ok_swap : forall i j, (i < j < length cur)%nat ->
      ~ (nth i pos cell0 = nth j cur cell0 /\ nth j pos cell0 = nth i cur cell0 /\
         nth i cur cell0 <> nth j cur cell0) }.

Lemma all_true_spec l : all_true l = true <-> forall x, In x l -> x = true.
Proof. unfold all_true. rewrite forallb_forall. tauto. Qed.

Lemma ppos_spec p : ppos p = true <-> 0 < p.
Proof.
  unfold ppos. rewrite negb_true_iff. split.
  - intro H. apply Qnot_le_lt. intro X. apply Qle_bool_iff in X. congruence.
  - intro H. destruct (Qle_bool p 0) eqn:E; [|reflexivity]. apply Qle_bool_iff in E. lra.
Qed.

Lemma forall_pos_spec d f : forall_pos d f = true -> forall ns p, In (ns, p) d -> 0 < p -> f ns = true.
Proof.
  unfold forall_pos. rewrite forallb_forall. intros H ns p I P. specialize (H _ I). simpl in H.
  apply ppos_spec in P. now rewrite P in H.
Qed.

Lemma forall_agents_spec n f : forall_agents n f = true -> forall i, (i < n)%nat -> f i = true.
Proof.
  unfold forall_agents. rewrite forallb_forall. intros H i Hi. apply H. apply in_seq. lia.
Qed.

Lemma c_norm_spec tol d : c_norm tol d = true -> 1 - tol <= dsum d <= 1 + tol.
Proof.
  unfold c_norm. rewrite andb_true_iff, <- !Qle_bool_iff. tauto.
Qed.

Lemma c_nonneg_spec d : c_nonneg d = true -> forall ns p, In (ns, p) d -> 0 <= p.
Proof.
  unfold c_nonneg. rewrite forallb_forall. intros H ns p I. specialize (H _ I). simpl in H.
  now apply Qle_bool_iff.
Qed.

Lemma c_to_terminal_spec d : c_to_terminal d = true -> forall ns p, In (ns, p) d -> 0 < p -> ns = None.
Proof.
  intros H ns p I P. pose proof (forall_pos_spec _ _ H ns p I P) as X. simpl in X.
  destruct ns; [discriminate | reflexivity].
Qed.

Section Sound.
Variables (L : layout) (tol : Q) (cur : list cell) (ja : list action) (d : dist).

(* CHECKER SOUNDNESS, moving state: neither terminal nor goal-occupied *)
Theorem gg_check_move_sound :
  all_true (gg_check_move L tol cur ja d) = true ->
  1 - tol <= dsum d <= 1 + tol /\
  (forall ns p, In (ns, p) d -> 0 <= p) /\
  (forall ns p, In (ns, p) d -> 0 < p -> exists pos, ns = Some pos /\ outcome_ok L cur ja pos).
Proof.
  intro H. rewrite all_true_spec in H. unfold gg_check_move in H.
  assert (Hn : c_norm tol d = true) by (apply H; simpl; tauto).
  assert (Hnn : c_nonneg d = true) by (apply H; simpl; tauto).
  assert (Hsh : c_shape cur d = true) by (apply H; simpl; tauto).
  assert (Hg : c_grid L cur d = true) by (apply H; simpl; tauto).
  assert (Ho : c_obst L cur d = true) by (apply H; simpl; tauto).
  assert (Hw : c_wall L cur d = true) by (apply H; simpl; tauto).
  assert (Hst : c_step cur ja d = true) by (apply H; simpl; tauto).
  assert (Hs : c_shared L cur d = true) by (apply H; simpl; tauto).
  assert (Hsw : c_swap cur d = true) by (apply H; simpl; tauto).
  clear H.
  split; [now apply c_norm_spec|]. split; [now apply c_nonneg_spec|].
  intros ns p I P.
  pose proof (forall_pos_spec _ _ Hsh ns p I P) as X. simpl in X.
  destruct ns as [pos|]; [|discriminate]. exists pos. split; [reflexivity|].
  apply Nat.eqb_eq in X. unfold n_agents in X.
  pose proof (forall_pos_spec _ _ Hg _ p I P) as Xg.
  pose proof (forall_pos_spec _ _ Ho _ p I P) as Xo.
  pose proof (forall_pos_spec _ _ Hw _ p I P) as Xw.
  pose proof (forall_pos_spec _ _ Hst _ p I P) as Xst.
  pose proof (forall_pos_spec _ _ Hs _ p I P) as Xs.
  pose proof (forall_pos_spec _ _ Hsw _ p I P) as Xsw.
  simpl in Xg, Xo, Xw, Xst, Xs, Xsw. unfold n_agents, at_ in *.
  split.
  - exact X.
  - intros i Hi. pose proof (forall_agents_spec _ _ Xg i Hi) as Y. unfold in_grid in Y.
    rewrite !andb_true_iff in Y. destruct Y as [[[Y1 Y2] Y3] Y4].
    apply Z.leb_le in Y1, Y3. apply Z.ltb_lt in Y2, Y4. lia.
  - intros i Hi Hin. pose proof (forall_agents_spec _ _ Xo i Hi) as Y.
    apply negb_true_iff in Y. apply cell_mem_spec in Hin. congruence.
  - intros i Hi Hin. pose proof (forall_agents_spec _ _ Xw i Hi) as Y.
    apply negb_true_iff in Y. apply edge_mem_spec in Hin. congruence.
  - intros i Hi. pose proof (forall_agents_spec _ _ Xst i Hi) as Y. unfold step_ok in Y.
    apply andb_true_iff in Y. destruct Y as [Y1 Y2]. apply Z.leb_le in Y2. split; [|exact Y2].
    apply orb_true_iff in Y1. destruct Y1 as [Y1|Y1]; apply cell_eqb_spec in Y1; [left | right]; exact Y1.
  - intros i j Hij E. rewrite forallb_forall in Xs.
    specialize (Xs (i, j) (proj2 (pairs_spec _ i j) Hij)). simpl in Xs.
    rewrite E, cell_eqb_refl in Xs. simpl in Xs. unfold goal_of_pair in Xs.
    apply existsb_exists in Xs. destruct Xs as [g [Ig Y]]. apply andb_true_iff in Y. destruct Y as [Y1 Y2].
    apply cell_eqb_spec in Y1. exists g. rewrite E. split; [assumption|]. split; [now symmetry|].
    apply orb_true_iff in Y2. destruct Y2 as [Y2|Y2]; apply nat_mem_spec in Y2; tauto.
  - intros i j Hij [E1 [E2 E3]]. rewrite forallb_forall in Xsw.
    specialize (Xsw (i, j) (proj2 (pairs_spec _ i j) Hij)). simpl in Xsw.
    rewrite E1, E2, !cell_eqb_refl in Xsw. simpl in Xsw.
    apply negb_true_iff, negb_false_iff, cell_eqb_spec in Xsw. contradiction.
Qed.

(* goal-occupied state: everything goes to the terminal state *)
Theorem gg_check_goal_sound :
  all_true (gg_check_goal tol d) = true ->
  1 - tol <= dsum d <= 1 + tol /\
  (forall ns p, In (ns, p) d -> 0 <= p) /\
  (forall ns p, In (ns, p) d -> 0 < p -> ns = None).
Proof.
  intro H. rewrite all_true_spec in H. unfold gg_check_goal in H.
  split; [apply c_norm_spec, H; simpl; tauto|].
  split; [apply c_nonneg_spec, H; simpl; tauto|].
  apply c_to_terminal_spec, H; simpl; tauto.
Qed.
End Sound.

(* terminal state: absorbing, and every reported reward is 0 *)
Theorem gg_check_terminal_sound tol d rews :
  all_true (gg_check_terminal tol d rews) = true ->
  1 - tol <= dsum d <= 1 + tol /\
  (forall ns p, In (ns, p) d -> 0 <= p) /\
  (forall ns p, In (ns, p) d -> 0 < p -> ns = None) /\
  (forall rv x, In rv rews -> In x rv -> x == 0).
Proof.
  intro H. rewrite all_true_spec in H. unfold gg_check_terminal in H.
  split; [apply c_norm_spec, H; simpl; tauto|].
  split; [apply c_nonneg_spec, H; simpl; tauto|].
  split; [apply c_to_terminal_spec, H; simpl; tauto|].
  assert (X : forallb (forallb qzero) rews = true) by (apply H; simpl; tauto).
  rewrite forallb_forall in X. intros rv x I1 I2. specialize (X rv I1). rewrite forallb_forall in X.
  apply qzero_spec. now apply X.
Qed.

(* THE CHECKER IS SOUND: whenever gg_check accepts the distribution d reported for (L, s, ja) —
   with the reward vectors rews reported for the terminal state — every clause of C18 holds of d *)
Theorem gg_check_sound_thm L tol s ja d rews :
  all_true (gg_check L tol s ja d rews) = true ->
  (* normalised within tol, no negative entries *)
  (1 - tol <= dsum d <= 1 + tol /\ forall ns p, In (ns, p) d -> 0 <= p) /\
  match s with
  | None =>                                    (* terminal: absorbing, pays nothing *)
      (forall ns p, In (ns, p) d -> 0 < p -> ns = None) /\
      (forall rv x, In rv rews -> In x rv -> x == 0)
  | Some cur =>
      (on_own_goal L cur ->                    (* agent on its own goal: leads to the terminal state *)
         forall ns p, In (ns, p) d -> 0 < p -> ns = None) /\
      (~ on_own_goal L cur ->                  (* otherwise: physical constraints on every possible outcome *)
         forall ns p, In (ns, p) d -> 0 < p -> exists pos, ns = Some pos /\ outcome_ok L cur ja pos)
  end.
Proof.
  intro H. destruct s as [cur|]; simpl in H.
  - destruct (is_absorbing L cur) eqn:A.
    + destruct (gg_check_goal_sound tol d H) as [N [NN T]]. split; [tauto|]. split; [intros _; exact T|].
      intro X. exfalso. apply X. now apply is_absorbing_spec.
    + destruct (gg_check_move_sound L tol cur ja d H) as [N [NN T]]. split; [tauto|]. split; [|intros _; exact T].
      intro X. apply is_absorbing_spec in X. congruence.
  - destruct (gg_check_terminal_sound tol d rews H) as [N [NN [T R]]]. tauto.
Qed.

(* non-vacuity: a 3 x 2 layout with an obstacle, a wall and a goal; the checker accepts the mirror's
   4-outcome distribution for a moving state, the goal state's and the terminal state's *)
Definition ex_L : layout :=
  mkLayout 3 2 [(1, 1)%Z] [((0, 0)%Z, (1, 0)%Z)] [] [((2, 1)%Z, [0%nat])] (1 # 2) true.
Definition ex_ja : list action := [(0, -1)%Z; (-1, 0)%Z].

Example gg_check_nonvacuous :
  let s := Some [(0, 1)%Z; (2, 0)%Z] in
  let d := gg_next_state_dist ex_L s ex_ja in
  length d = 4%nat /\ all_true (gg_check ex_L (1 # 1000000000) s ex_ja d []) = true /\
  all_true (gg_check ex_L (1 # 1000000000) (Some [(2, 1)%Z; (0, 0)%Z]) ex_ja
                     (gg_next_state_dist ex_L (Some [(2, 1)%Z; (0, 0)%Z]) ex_ja) []) = true /\
  all_true (gg_check ex_L (1 # 1000000000) None ex_ja (gg_next_state_dist ex_L None ex_ja) [[0; 0]]) = true.
Proof. vm_compute. repeat split; reflexivity. Qed.
