(* FSCTransfer.v — C09: what vm_compute evaluates on Q is the checker / table the theorems of
   FSCTheory.v are about (R instance), by the parametricity translation; and the end-to-end
   statements "checker accepted msdm's output on exact rationals  ==>  property clause over R". *)
From Coq Require Import QArith Qreals Reals Lra Lia List Bool.
From Param Require Import Param.
From MSDM Require Import base.Num base.NumInst base.NumR base.Transfer model.FSC theory.FSCTheory.
Import ListNotations.

Parametricity Recursive mk_pomdp.
Parametricity Recursive mk_fsc.
Parametricity Recursive c09_eval_check.
Parametricity Recursive c09_learn_check.
Parametricity Recursive c09_hist_tables.
Parametricity Recursive ret_tab.
Parametricity Recursive mono_chain.
Parametricity Recursive bpi_node_feasible.

Definition map2 {A B} (f : A -> B) := map (map f).
Definition map3 {A B} (f : A -> B) := map (map (map f)).
Definition map4 {A B} (f : A -> B) := map (map (map (map f))).

Lemma lR1 (l : list Q) : list_R Q R QR l (map Q2R l).
Proof. apply list_R_map. intros a. reflexivity. Qed.
Lemma lR2 (l : list (list Q)) : list_R _ _ (list_R Q R QR) l (map2 Q2R l).
Proof. apply list_R_map. intros a. apply lR1. Qed.
Lemma lR3 (l : list (list (list Q))) : list_R _ _ (list_R _ _ (list_R Q R QR)) l (map3 Q2R l).
Proof. apply list_R_map. intros a. apply lR2. Qed.
Lemma lR4 (l : list (list (list (list Q)))) :
  list_R _ _ (list_R _ _ (list_R _ _ (list_R Q R QR))) l (map4 Q2R l).
Proof. apply list_R_map. intros a. apply lR3. Qed.

Lemma list_R_bool_eq' l1 l2 : list_R bool bool bool_R l1 l2 -> l1 = l2.
Proof. induction 1 as [|? ? H ? ? ? IH]; [reflexivity|]. f_equal; [now apply bool_R_inv|exact IH]. Qed.
Lemma list_R_QR_map l1 l2 : list_R Q R QR l1 l2 -> map Q2R l1 = l2.
Proof. induction 1 as [|? ? H ? ? ? IH]; [reflexivity|]. simpl. f_equal; [exact H|exact IH]. Qed.
Lemma list_R_QR_map2 l1 l2 : list_R _ _ (list_R Q R QR) l1 l2 -> map2 Q2R l1 = l2.
Proof.
  induction 1 as [|? ? H ? ? ? IH]; [reflexivity|]. unfold map2 in *. simpl.
  f_equal; [now apply list_R_QR_map|exact IH].
Qed.

Section Data.
Variables (nS nA nO : nat) (Tl Ol : list (list (list Q))) (Rl : list (list Q)) (ab : list bool)
          (s0 : list Q) (g : Q) (N : nat) (pil : list (list Q)) (oml : list (list (list (list Q))))
          (ini : list Q).

Definition pQ : pomdp Q := mk_pomdp nS nA nO Tl Ol Rl ab s0 g.
Definition fQ : fsc Q := mk_fsc N pil oml ini.
(* the real-valued POMDP and controller denoted by the rational data *)
Definition pRr : pomdp R := mk_pomdp nS nA nO (map3 Q2R Tl) (map3 Q2R Ol) (map2 Q2R Rl) ab (map Q2R s0) (Q2R g).
Definition fRr : fsc R := mk_fsc N (map2 Q2R pil) (map4 Q2R oml) (map Q2R ini).

Lemma pQR : pomdp_R Q R QR pQ pRr.
Proof.
  apply (mk_pomdp_R Q R QR NumQ NumR NumQR); try apply nat_R_refl;
    auto using lR1, lR2, lR3, list_R_bool_refl. reflexivity.
Qed.
Lemma fQR : fsc_R Q R QR fQ fRr.
Proof.
  apply (mk_fsc_R Q R QR NumQ NumR NumQR); try apply nat_R_refl; auto using lR1, lR2, lR4.
Qed.

Theorem c09_eval_check_transfer V rep tol vtol M :
  c09_eval_check pQ fQ V rep tol vtol M =
  c09_eval_check pRr fRr (map2 Q2R V) (Q2R rep) (Q2R tol) (Q2R vtol) (Q2R M).
Proof.
  apply list_R_bool_eq'.
  apply (c09_eval_check_R Q R QR NumQ NumR NumQR); auto using pQR, fQR, lR2; reflexivity.
Qed.

Theorem c09_learn_check_transfer V rep rtol kpi kom tol vtol :
  c09_learn_check pQ fQ V rep rtol kpi kom tol vtol =
  c09_learn_check pRr fRr (map2 Q2R V) (Q2R rep) (Q2R rtol) (Q2R kpi) (Q2R kom) (Q2R tol) (Q2R vtol).
Proof.
  apply list_R_bool_eq'.
  apply (c09_learn_check_R Q R QR NumQ NumR NumQR); auto using pQR, fQR, lR2; reflexivity.
Qed.

(* the table of k-step returns printed by vm_compute is the real-valued fsc_return *)
Theorem ret_tab_transfer k :
  map2 Q2R (ret_tab pQ fQ (pabs pQ) k) = ret_tab pRr fRr (pabs pRr) k.
Proof.
  apply list_R_QR_map2.
  apply (ret_tab_R Q R QR NumQ NumR NumQR); auto using pQR, fQR, nat_R_refl.
  intros n1 n2 Hn. apply nat_R_eq in Hn. subst. apply bool_R_eq. reflexivity.
Qed.

Theorem hist_tables_transfer k :
  let tq := c09_hist_tables nA nO fQ k in
  let tr := c09_hist_tables nA nO fRr k in
  map Q2R (fst tq) = fst tr /\ map Q2R (snd tq) = snd tr.
Proof.
  pose proof (c09_hist_tables_R Q R QR NumQ NumR NumQR nA nA (nat_R_refl _) nO nO (nat_R_refl _)
                fQ fRr fQR k k (nat_R_refl _)) as H.
  destruct H as [a1 a2 Ha b1 b2 Hb]. simpl. split; now apply list_R_QR_map.
Qed.

Theorem bpi_node_feasible_transfer (msk : list bool) tol V n eps :
  bpi_node_feasible pQ fQ (fun s => nth s msk false) tol (untab2 V) n eps =
  bpi_node_feasible pRr fRr (fun s => nth s msk false) (Q2R tol) (untab2 (map2 Q2R V)) n (Q2R eps).
Proof.
  apply bool_R_inv.
  apply (bpi_node_feasible_R Q R QR NumQ NumR NumQR); auto using pQR, fQR, nat_R_refl; try reflexivity.
  - intros n1 n2 Hn. apply nat_R_eq in Hn. subst. apply bool_R_eq. reflexivity.
  - intros n1 n2 Hn s1 s2 Hs. apply nat_R_eq in Hn. apply nat_R_eq in Hs. subst.
    apply (untab2_R Q R QR NumQ NumR NumQR); auto using lR2, nat_R_refl.
Qed.
End Data.

Theorem mono_chain_transfer tol S (l : list (list (list Q))) :
  mono_chain tol S l = mono_chain (Q2R tol) S (map (map2 Q2R) l).
Proof.
  apply bool_R_inv.
  apply (mono_chain_R Q R QR NumQ NumR NumQR); auto using nat_R_refl; try reflexivity.
  apply list_R_map. intros a. apply lR2.
Qed.

(* ================================================================== *)
(* end-to-end statements                                                *)
(* ================================================================== *)
Local Open Scope R_scope.

Section Main.
Variables (nS nA nO : nat) (Tl Ol : list (list (list Q))) (Rl : list (list Q)) (ab : list bool)
          (s0 : list Q) (g : Q) (N : nat) (pil : list (list Q)) (oml : list (list (list (list Q))))
          (ini : list Q).
Notation pq := (pQ nS nA nO Tl Ol Rl ab s0 g).
Notation fq := (fQ N pil oml ini).
Notation pr := (pRr nS nA nO Tl Ol Rl ab s0 g).
Notation fr := (fRr N pil oml ini).

(* evaluator: the returned table is the return of running the controller, up to the residual
   the checker measured and the geometric tail of the k-step return *)
Theorem main_eval_return (V : list (list Q)) (rep tol vtol M : Q) (b1 b2 b3 : bool) :
  c09_eval_check pq fq V rep tol vtol M = [true; true; b1; true; b2; true; b3] ->
  Q2R g < 1 -> 0 <= Q2R tol -> 0 <= Q2R M ->
  forall k n s, (n < N)%nat -> (s < nS)%nat ->
    Rabs (untab2 (map2 Q2R V) n s - fsc_return pr fr k n s)
      <= Q2R tol / (1 - Q2R g) + Q2R g ^ k * Q2R M.
Proof.
  intros H G1 Ht HM k n s Hn Hs. rewrite c09_eval_check_transfer in H.
  unfold c09_eval_check in H. injection H as Hp Hf _ Hsys _ Hvb _.
  apply pomdp_wfb_wf in Hp. apply fsc_wfb_wf in Hf. apply fsc_eval_system_sound in Hsys.
  pose proof (vbound_sound _ _ _ _ Hvb) as HV.
  pose proof (fsc_eval_is_return pr fr 1 1 (untab2 (map2 Q2R V)) (Q2R tol) (Q2R M) k Hp (wff_bfsc _ _ Hf)) as HH.
  change (pgamma pr) with (Q2R g) in HH.
  replace (Q2R g * 1 * 1) with (Q2R g) in HH by ring.
  apply HH; auto.
Qed.

(* the same against the table vm_compute printed *)
Corollary main_eval_return_table (V : list (list Q)) (rep tol vtol M : Q) (b1 b2 b3 : bool) :
  c09_eval_check pq fq V rep tol vtol M = [true; true; b1; true; b2; true; b3] ->
  Q2R g < 1 -> 0 <= Q2R tol -> 0 <= Q2R M ->
  forall k n s, (n < N)%nat -> (s < nS)%nat ->
    Rabs (untab2 (map2 Q2R V) n s - untab2 (map2 Q2R (ret_tab pq fq (pabs pq) k)) n s)
      <= Q2R tol / (1 - Q2R g) + Q2R g ^ k * Q2R M.
Proof.
  intros H G1 Ht HM k n s Hn Hs. rewrite ret_tab_transfer.
  apply (main_eval_return V rep tol vtol M b1 b2 b3 H G1 Ht HM k n s Hn Hs).
Qed.

(* the evaluator's expected_value is fsc_initial_state . V . s0 *)
Theorem main_eval_value (V : list (list Q)) (rep tol vtol M : Q) (b0 b1 b2 b3 b4 b5 : bool) :
  c09_eval_check pq fq V rep tol vtol M = [b0; b1; b2; b3; b4; b5; true] ->
  Rabs (Q2R rep - init_value pr fr (untab2 (map2 Q2R V))) <= Q2R vtol.
Proof.
  intros H. rewrite c09_eval_check_transfer in H. unfold c09_eval_check in H.
  injection H as _ _ _ _ _ _ Hv. now apply value_ok_sound.
Qed.

(* learners: returned controller valid, reported value = init . V . s0, V = exact evaluation *)
Theorem main_learn (V : list (list Q)) (rep rtol kpi kom tol vtol : Q) (b1 b2 : bool) :
  c09_learn_check pq fq V rep rtol kpi kom tol vtol = [true; true; true; true; b1; true; b2; true] ->
  0 <= Q2R tol ->
  fsc_valid pr fr (Q2R rtol) /\
  Rabs (Q2R rep - init_value pr fr (untab2 (map2 Q2R V))) <= Q2R vtol /\
  (forall Vs, syst pr fr (pabs pr) 0 Vs -> forall n s, (n < N)%nat -> (s < nS)%nat ->
     Rabs (untab2 (map2 Q2R V) n s - Vs n s) <= Q2R tol / (1 - Q2R g * Q2R kpi * Q2R kom)) /\
  (forall M k, 0 <= M ->
     (forall n s, (n < N)%nat -> (s < nS)%nat -> Rabs (untab2 (map2 Q2R V) n s) <= M) ->
     forall n s, (n < N)%nat -> (s < nS)%nat ->
     Rabs (untab2 (map2 Q2R V) n s - fsc_return pr fr k n s)
       <= Q2R tol / (1 - Q2R g * Q2R kpi * Q2R kom) + (Q2R g * Q2R kpi * Q2R kom) ^ k * M).
Proof.
  intros H Ht. rewrite c09_learn_check_transfer in H.
  unfold c09_learn_check in H. injection H as Hp Hrv Hb Hc _ Hsys _ Hval.
  apply pomdp_wfb_wf in Hp. apply fsc_rows_valid_sound in Hrv. apply fsc_bounded_sound in Hb.
  apply MSDM.base.NumR.nltb_R in Hc. unfold cfac in Hc. numR. change (pgamma pr) with (Q2R g) in Hc.
  apply fsc_eval_system_sound in Hsys. apply value_ok_sound in Hval.
  split; [exact Hrv|]. split; [exact Hval|]. split.
  - intros Vs HVs n s Hn Hs.
    apply (fsc_eval_residual pr fr (pabs pr) (Q2R kpi) (Q2R kom) _ Vs (Q2R tol) Hp Hb Hc Ht HVs Hsys n s Hn Hs).
  - intros M k HM HV n s Hn Hs.
    apply (fsc_eval_is_return pr fr (Q2R kpi) (Q2R kom) _ (Q2R tol) M k Hp Hb Hc Ht HM Hsys HV n s Hn Hs).
Qed.

(* one recorded node replacement satisfies the LP's improvement constraint *)
Theorem main_bpi_step (msk : list bool) (tol : Q) (V : list (list Q)) (n : nat) (eps : Q) :
  bpi_node_feasible pq fq (fun s => nth s msk false) tol (untab2 V) n eps = true ->
  0 <= Q2R eps /\
  forall s, (s < nS)%nat -> nth s msk false = false ->
    untab2 (map2 Q2R V) n s + Q2R eps
      <= chain_backup pr fr (fun s => nth s msk false) (untab2 (map2 Q2R V)) n s + Q2R tol.
Proof.
  intros H. rewrite bpi_node_feasible_transfer in H.
  apply (bpi_node_feasible_sound pr fr _ _ _ _ _ H).
Qed.
End Main.

(* recorded per-iteration value tables never decrease, node by node *)
Theorem main_mono (tol : Q) (S : nat) (l : list (list (list Q))) :
  mono_chain tol S l = true ->
  forall i V W, nth_error l i = Some V -> nth_error l (Datatypes.S i) = Some W ->
  forall n s, (n < length V)%nat -> (s < S)%nat ->
    untab2 (map2 Q2R V) n s <= untab2 (map2 Q2R W) n s + Q2R tol.
Proof.
  intros H i V W HV HW n s Hn Hs. rewrite mono_chain_transfer in H.
  apply (mono_chain_sound (Q2R tol) S _ H i (map2 Q2R V) (map2 Q2R W)); auto.
  - now apply map_nth_error.
  - now apply map_nth_error.
  - unfold map2. now rewrite map_length.
Qed.

(* ================================================================== *)
(* non-vacuity: 3 states (state 2 terminal but paying 2 / -1 on its self-loop), 2 actions,     *)
(* 2 observations, 2-node stochastic controller with a non-degenerate initial node distribution, *)
(* gamma = 1/2.  exV is the exact solution of the masked system (found by exact elimination).    *)
(* ================================================================== *)
Local Open Scope Q_scope.
Definition exT : list (list (list Q)) := [[[(0 # 1); (1 # 2); (1 # 2)]; [(1 # 4); (3 # 4); (0 # 1)]]; [[(1 # 2); (0 # 1); (1 # 2)]; [(0 # 1); (1 # 1); (0 # 1)]]; [[(0 # 1); (0 # 1); (1 # 1)]; [(0 # 1); (0 # 1); (1 # 1)]]].
Definition exO : list (list (list Q)) := [[[(3 # 4); (1 # 4)]; [(1 # 4); (3 # 4)]; [(1 # 2); (1 # 2)]]; [[(1 # 1); (0 # 1)]; [(1 # 2); (1 # 2)]; [(0 # 1); (1 # 1)]]].
Definition exR : list (list Q) := [[(3 # 2); ((-1) # 4)]; [(2 # 1); ((-1) # 2)]; [(2 # 1); ((-1) # 1)]].
Definition exAb := [false; false; true].
Definition exS0 : list Q := [(1 # 2); (1 # 2); (0 # 1)].
Definition exPi : list (list Q) := [[(3 # 4); (1 # 4)]; [(1 # 8); (7 # 8)]].
Definition exOm : list (list (list (list Q))) := [[[[(1 # 2); (1 # 2)]; [(1 # 1); (0 # 1)]]; [[(1 # 4); (3 # 4)]; [(0 # 1); (1 # 1)]]]; [[[(1 # 1); (0 # 1)]; [(3 # 8); (5 # 8)]]; [[(1 # 2); (1 # 2)]; [(1 # 8); (7 # 8)]]]].
Definition exIni : list Q := [(5 # 8); (3 # 8)].
Definition exV : list (list Q) := [[(110630482 # 80801311); (128463592 # 80801311); (0 # 1)]; [(21895762 # 80801311); (7775912 # 80801311); (0 # 1)]].
Definition exRep : Q := (80280337 # 80801311).

Example ex_check :
  c09_eval_check (pQ 3 2 2 exT exO exR exAb exS0 (1#2)) (fQ 2 exPi exOm exIni) exV exRep 0 0 (8#1)
    = [true; true; false; true; false; true; true].
Proof. vm_compute. reflexivity. Qed.

Example ex_syst :
  syst (pRr 3 2 2 exT exO exR exAb exS0 (1#2)) (fRr 2 exPi exOm exIni)
       (pabs (pRr 3 2 2 exT exO exR exAb exS0 (1#2))) 0%R (untab2 (map2 Q2R exV)).
Proof.
  pose proof ex_check as H. rewrite c09_eval_check_transfer in H.
  assert (Hsys : fsc_eval_system (pRr 3 2 2 exT exO exR exAb exS0 (1#2)) (fRr 2 exPi exOm exIni)
                   (pabs (pRr 3 2 2 exT exO exR exAb exS0 (1#2))) (Q2R 0) (untab2 (map2 Q2R exV)) = true)
    by exact (f_equal (fun l => nth 3 l false) H).
  apply fsc_eval_system_sound in Hsys.
  replace (Q2R 0) with 0%R in Hsys by (unfold Q2R; simpl; lra). exact Hsys.
Qed.

(* so the limit theorem speaks about a real solution: the exact table is the limit of the returns *)
Example ex_limit :
  forall eps, (0 < eps)%R -> exists K, forall k, (K <= k)%nat ->
  forall n s, (n < 2)%nat -> (s < 3)%nat ->
  (Rabs (untab2 (map2 Q2R exV) n s
         - fsc_return (pRr 3 2 2 exT exO exR exAb exS0 (1#2)) (fRr 2 exPi exOm exIni) k n s) < eps)%R.
Proof.
  pose proof ex_check as H. rewrite c09_eval_check_transfer in H.
  assert (Hp : pomdp_wfb (pRr 3 2 2 exT exO exR exAb exS0 (1#2)) = true)
    by exact (f_equal (fun l => nth 0 l false) H).
  assert (Hf : fsc_wfb (pRr 3 2 2 exT exO exR exAb exS0 (1#2)) (fRr 2 exPi exOm exIni) = true)
    by exact (f_equal (fun l => nth 1 l false) H).
  apply (fsc_eval_limit _ _ _ (pomdp_wfb_wf _ Hp) (fsc_wfb_wf _ _ Hf)).
  - change (Q2R (1#2) < 1)%R. unfold Q2R; simpl; lra.
  - exact ex_syst.
Qed.
