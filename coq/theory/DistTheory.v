(* DistTheory.v — C11: the probability calculus of model/Dist.v on the R instance.
   All statements are for arbitrary key types with a decidable equality, arbitrary finite
   distributions (association lists of any length), arbitrary functions. *)
From Coq Require Import Reals Lra Lia List Arith Bool Psatz.
From MSDM Require Import base.Num base.NumInst base.NumR model.Dist.
Import ListNotations.
Local Open Scope R_scope.

(* ---------- sums ---------- *)
Definition Rsum (l : list R) : R := fold_right Rplus 0 l.

Lemma fold_left_Rplus l a : fold_left Rplus l a = a + Rsum l.
Proof. revert a; induction l as [|x l IH]; intros a; simpl; [lra|]. rewrite IH; lra. Qed.
Lemma psum_Rsum l : @psum R NumR l = Rsum l.
Proof. unfold psum; numR. change (@nadd R NumR) with Rplus. rewrite fold_left_Rplus; lra. Qed.
Lemma Rsum_app l1 l2 : Rsum (l1 ++ l2) = Rsum l1 + Rsum l2.
Proof. induction l1; simpl; lra. Qed.
Lemma Rsum_map_scal {A} (f : A -> R) c l : Rsum (map (fun a => c * f a) l) = c * Rsum (map f l).
Proof. induction l; simpl; lra. Qed.
Lemma Rsum_map_scal_r {A} (f : A -> R) c l : Rsum (map (fun a => f a * c) l) = Rsum (map f l) * c.
Proof. induction l; simpl; lra. Qed.
Lemma Rsum_map_div {A} (f : A -> R) c l : Rsum (map (fun a => f a / c) l) = Rsum (map f l) / c.
Proof. unfold Rdiv. apply Rsum_map_scal_r. Qed.
Lemma Rsum_map_plus {A} (f g : A -> R) l :
  Rsum (map (fun a => f a + g a) l) = Rsum (map f l) + Rsum (map g l).
Proof. induction l; simpl; lra. Qed.
Lemma Rsum_map_ext_in {A} (f g : A -> R) l :
  (forall a, In a l -> f a = g a) -> Rsum (map f l) = Rsum (map g l).
Proof. intros H. f_equal. apply map_ext_in, H. Qed.
Lemma Rsum_nonneg l : (forall x, In x l -> 0 <= x) -> 0 <= Rsum l.
Proof.
  induction l as [|x l IH]; intros H; simpl; [lra|].
  assert (0 <= x) by (apply H; now left). assert (0 <= Rsum l) by (apply IH; intros; apply H; now right). lra.
Qed.
Lemma Rsum_map_const {A} (c : R) (l : list A) : Rsum (map (fun _ => c) l) = INR (length l) * c.
Proof. induction l; [simpl; lra|]. cbn [map Rsum fold_right length]. fold (Rsum (map (fun _ : A => c) l)). rewrite IHl, S_INR. lra. Qed.
Lemma Rsum_map_zero {A} (f : A -> R) l : (forall a, In a l -> f a = 0) -> Rsum (map f l) = 0.
Proof. induction l; intros H; simpl; [lra|]. rewrite H, IHl; [lra| |now left]. intros; apply H; now right. Qed.
Lemma Rsum_flat_map {A B} (g : A -> list B) (h : B -> R) l :
  Rsum (map h (flat_map g l)) = Rsum (map (fun a => Rsum (map h (g a))) l).
Proof. induction l; simpl; [lra|]. rewrite map_app, Rsum_app, IHl. lra. Qed.

(* the Num operations at R, spelled out *)
Lemma nadd_real x y : @nadd R NumR x y = x + y. Proof. reflexivity. Qed.
Lemma nmul_real x y : @nmul R NumR x y = x * y. Proof. reflexivity. Qed.
Lemma nsub_real x y : @nsub R NumR x y = x - y. Proof. reflexivity. Qed.
Lemma n0_real : @n0 R NumR = 0. Proof. reflexivity. Qed.
Lemma n1_real : @n1 R NumR = 1. Proof. reflexivity. Qed.
Lemma ndiv_real x y : y <> 0 -> @ndiv R NumR x y = x / y.
Proof. intros H. cbn. now apply Rdivg_nz. Qed.

(* ================================================================================== *)
Section Dict.
Context {K : Type} (keq : K -> K -> bool).
Hypothesis keq_spec : forall a b, keq a b = true <-> a = b.

Lemma keq_refl a : keq a a = true. Proof. now apply keq_spec. Qed.
Lemma keq_neq a b : a <> b -> keq a b = false.
Proof. intros H. destruct (keq a b) eqn:E; [|reflexivity]. apply keq_spec in E. contradiction. Qed.
Lemma keq_sym a b : keq a b = keq b a.
Proof.
  destruct (keq a b) eqn:E.
  - apply keq_spec in E. subst. now rewrite keq_refl.
  - destruct (keq b a) eqn:E2; [|reflexivity]. apply keq_spec in E2. subst. rewrite keq_refl in E. discriminate.
Qed.
Lemma keq_dec (a b : K) : {a = b} + {a <> b}.
Proof.
  destruct (keq a b) eqn:E; [left; now apply keq_spec|right].
  intros H. apply keq_spec in H. congruence.
Qed.
Lemma memk_In k l : memk keq k l = true <-> In k l.
Proof.
  unfold memk. rewrite existsb_exists. split.
  - intros (x & Hx & E). apply keq_spec in E. now subst.
  - intros H. exists k. split; [assumption|apply keq_refl].
Qed.

Section V.
Context {V : Type}.
Implicit Types d : list (K * V).

Lemma dget_app d1 d2 k :
  dget keq (d1 ++ d2) k = match dget keq d1 k with Some v => Some v | None => dget keq d2 k end.
Proof. induction d1 as [|kv r IH]; simpl; [reflexivity|]. destruct (keq k (fst kv)); auto. Qed.

Lemma dget_none d k : dget keq d k = None <-> ~ In k (map fst d).
Proof.
  induction d as [|kv r IH]; simpl; [tauto|].
  destruct (keq k (fst kv)) eqn:E.
  - apply keq_spec in E. split; [discriminate|]. intros H; exfalso; apply H; left; auto.
  - rewrite IH. split; intros H.
    + intros [H1|H1]; [|tauto]. subst. rewrite keq_refl in E. discriminate.
    + tauto.
Qed.
Lemma dget_in d k v : dget keq d k = Some v -> In (k, v) d.
Proof.
  induction d as [|kv r IH]; simpl; [discriminate|].
  destruct (keq k (fst kv)) eqn:E.
  - apply keq_spec in E. intros [= <-]. left. destruct kv; simpl in *; now subst.
  - intros H; right; auto.
Qed.
Lemma dget_nodup_in d k v : NoDup (map fst d) -> In (k, v) d -> dget keq d k = Some v.
Proof.
  induction d as [|kv r IH]; simpl; intros Hnd Hin; [contradiction|].
  inversion Hnd as [|? ? Hni Hnd']; subst.
  destruct Hin as [->|Hin]; simpl.
  - now rewrite keq_refl.
  - destruct (keq k (fst kv)) eqn:E.
    + apply keq_spec in E. subst. exfalso. apply Hni. apply (in_map fst) in Hin. exact Hin.
    + auto.
Qed.

Lemma dget_dupd d k f x :
  dget keq (dupd keq d k f) x = if keq x k then Some (f (dget keq d k)) else dget keq d x.
Proof.
  induction d as [|kv r IH]; simpl.
  - destruct (keq x k); reflexivity.
  - destruct (keq k (fst kv)) eqn:E; simpl.
    + apply keq_spec in E. subst. destruct (keq x (fst kv)); reflexivity.
    + destruct (keq x (fst kv)) eqn:E2.
      * apply keq_spec in E2. subst. rewrite (keq_sym (fst kv) k), E. reflexivity.
      * apply IH.
Qed.
Lemma dupd_absent d k f : ~ In k (map fst d) -> dupd keq d k f = d ++ [(k, f None)].
Proof.
  induction d as [|kv r IH]; simpl; intros H; [reflexivity|].
  rewrite keq_neq by (intros ->; apply H; now left). f_equal. apply IH. tauto.
Qed.
Lemma keys_dupd_in d k f x : In x (map fst (dupd keq d k f)) <-> In x (map fst d) \/ x = k.
Proof.
  induction d as [|kv r IH]; simpl.
  - intuition.
  - destruct (keq k (fst kv)) eqn:E; simpl.
    + apply keq_spec in E. subst. intuition.
    + rewrite IH. intuition.
Qed.
Lemma keys_dupd_nodup d k f : NoDup (map fst d) -> NoDup (map fst (dupd keq d k f)).
Proof.
  induction d as [|kv r IH]; simpl; intros H.
  - constructor; [simpl; tauto|constructor].
  - inversion H as [|? ? Hni Hnd]; subst. destruct (keq k (fst kv)) eqn:E; simpl.
    + constructor; assumption.
    + constructor; [|auto]. rewrite keys_dupd_in. intros [H1|H1]; [tauto|].
      subst. rewrite keq_refl in E. discriminate.
Qed.

(* dict(pairs): the LAST pair with a given key gives its value *)
Lemma dget_fold_dset (l acc : list (K * V)) k :
  dget keq (fold_left (fun a kv => dset keq a (fst kv) (snd kv)) l acc) k =
  match dget keq (rev l) k with Some v => Some v | None => dget keq acc k end.
Proof.
  revert acc; induction l as [|kv r IH]; intros acc; simpl; [reflexivity|].
  rewrite IH, dget_app. destruct (dget keq (rev r) k); [reflexivity|].
  unfold dset. rewrite dget_dupd. simpl. destruct (keq k (fst kv)); reflexivity.
Qed.
Lemma dget_of_pairs (l : list (K * V)) k : dget keq (of_pairs keq l) k = dget keq (rev l) k.
Proof. unfold of_pairs. rewrite dget_fold_dset. simpl. destruct (dget keq (rev l) k); reflexivity. Qed.

Lemma fold_dset_nodup (l acc : list (K * V)) :
  NoDup (map fst (acc ++ l)) ->
  fold_left (fun a kv => dset keq a (fst kv) (snd kv)) l acc = acc ++ l.
Proof.
  revert acc; induction l as [|kv r IH]; intros acc H; simpl; [now rewrite app_nil_r|].
  unfold dset at 2. rewrite dupd_absent.
  - rewrite IH; rewrite <- app_assoc; simpl; [destruct kv; reflexivity|].
    destruct kv; exact H.
  - rewrite map_app in H. simpl in H. apply NoDup_remove_2 in H. intros Hin. apply H.
    apply in_or_app; now left.
Qed.
Lemma of_pairs_nodup (l : list (K * V)) : NoDup (map fst l) -> of_pairs keq l = l.
Proof. intros H. unfold of_pairs. now rewrite fold_dset_nodup. Qed.

Lemma dget_map_val {W} (h : K -> V -> W) d x :
  dget keq (map (fun kv => (fst kv, h (fst kv) (snd kv))) d) x = option_map (h x) (dget keq d x).
Proof.
  induction d as [|kv r IH]; simpl; [reflexivity|].
  destruct (keq x (fst kv)) eqn:E; [|exact IH]. apply keq_spec in E. now subst.
Qed.
Lemma dget_filter_key (p : K -> bool) d x :
  dget keq (filter (fun kv => p (fst kv)) d) x = if p x then dget keq d x else None.
Proof.
  induction d as [|kv r IH]; simpl; [destruct (p x); reflexivity|].
  destruct (p (fst kv)) eqn:Ep; simpl.
  - destruct (keq x (fst kv)) eqn:E.
    + apply keq_spec in E. subst. now rewrite Ep.
    + exact IH.
  - destruct (keq x (fst kv)) eqn:E; [|exact IH].
    apply keq_spec in E. subst. rewrite Ep in IH |- *. exact IH.
Qed.
End V.

(* ================================================================================== *)
(* distributions over R *)
Notation distR := (list (K * R)).
Notation probR := (@prob R NumR K keq).
Notation massR := (@mass R NumR K).
Implicit Types d : distR.

Lemma mass_Rsum d : massR d = Rsum (map snd d).
Proof. unfold mass, vals. apply psum_Rsum. Qed.

Lemma prob_in d kv : NoDup (keys d) -> In kv d -> probR d (fst kv) = snd kv.
Proof. intros Hnd Hin. destruct kv as [k v]. unfold prob; simpl. now rewrite (dget_nodup_in d k v Hnd Hin). Qed.
Lemma prob_notin d x : ~ In x (keys d) -> probR d x = 0.
Proof. intros H. unfold prob. apply dget_none in H. now rewrite H. Qed.
Lemma prob_nonneg d x : (forall kv, In kv d -> 0 <= snd kv) -> 0 <= probR d x.
Proof.
  intros H. unfold prob. destruct (dget keq d x) eqn:E; [|numR; lra].
  apply dget_in in E. apply (H _ E).
Qed.
Lemma prob_pos_in d x : 0 < probR d x -> In x (keys d).
Proof.
  intros H. destruct (in_dec keq_dec x (keys d)) as [Hi|Hn]; [assumption|].
  rewrite prob_notin in H by assumption. lra.
Qed.

(* sum of the entries stored under key x = prob, for unique keys *)
Lemma sum_match_prob d x :
  NoDup (keys d) -> Rsum (map snd (filter (fun kv => keq (fst kv) x) d)) = probR d x.
Proof.
  unfold prob, keys. induction d as [|kv r IH]; simpl; intros H; [reflexivity|].
  inversion H as [|? ? Hni Hnd]; subst. rewrite (keq_sym x).
  destruct (keq (fst kv) x) eqn:E; simpl.
  - apply keq_spec in E. subst. rewrite IH by assumption.
    apply dget_none in Hni. rewrite Hni. numR. lra.
  - now apply IH.
Qed.
Lemma map_snd_filter_keys (p : K -> bool) d :
  NoDup (keys d) ->
  map snd (filter (fun kv => p (fst kv)) d) = map (probR d) (filter p (keys d)).
Proof.
  intros Hnd. unfold keys.
  assert (E : filter p (map fst d) = map fst (filter (fun kv => p (fst kv)) d)).
  { clear. induction d as [|kv r IH]; simpl; [reflexivity|]. destruct (p (fst kv)); simpl; now rewrite IH. }
  rewrite E, map_map. apply map_ext_in. intros kv Hin. apply filter_In in Hin.
  symmetry. apply prob_in; [assumption|tauto].
Qed.
Lemma map_snd_keys d : NoDup (keys d) -> map snd d = map (probR d) (keys d).
Proof.
  intros Hnd. unfold keys. rewrite map_map. apply map_ext_in. intros kv Hin.
  symmetry. now apply prob_in.
Qed.

(* ---------- defaultdict accumulation ---------- *)
Lemma prob_dadd d k v x :
  probR (dadd keq d k v) x = probR d x + (if keq x k then v else 0).
Proof.
  unfold prob, dadd. rewrite dget_dupd. destruct (keq x k) eqn:E.
  - apply keq_spec in E. subst. destruct (dget keq d k); numR; lra.
  - destruct (dget keq d x); lra.
Qed.
Lemma mass_dadd d k v : massR (dadd keq d k v) = massR d + v.
Proof.
  rewrite !mass_Rsum. unfold dadd, Rsum. induction d as [|kv r IH]; cbn [dupd map fold_right fst snd].
  - numR. lra.
  - destruct (keq k (fst kv)); cbn [dupd map fold_right fst snd]; [numR; lra|]. rewrite IH. lra.
Qed.
Lemma keys_dadd_in d k v x : In x (keys (dadd keq d k v)) <-> In x (keys d) \/ x = k.
Proof. apply keys_dupd_in. Qed.
Lemma keys_dadd_nodup d k v : NoDup (keys d) -> NoDup (keys (dadd keq d k v)).
Proof. apply keys_dupd_nodup. Qed.

Section Fold.
Context {A : Type} (g : A -> K) (h : A -> R).
Let step := (fun (acc : distR) (a : A) => dadd keq acc (g a) (h a)).

Lemma prob_fold_dadd l acc x :
  probR (fold_left step l acc) x =
  probR acc x + Rsum (map h (filter (fun a => keq (g a) x) l)).
Proof.
  revert acc; induction l as [|a r IH]; intros acc; simpl; [lra|].
  rewrite IH. unfold step. rewrite prob_dadd, (keq_sym x).
  destruct (keq (g a) x); simpl; lra.
Qed.
Lemma mass_fold_dadd l acc : massR (fold_left step l acc) = massR acc + Rsum (map h l).
Proof.
  revert acc; induction l as [|a r IH]; intros acc; simpl; [lra|].
  rewrite IH. unfold step. rewrite mass_dadd. lra.
Qed.
Lemma keys_fold_dadd_nodup l acc : NoDup (keys acc) -> NoDup (keys (fold_left step l acc)).
Proof.
  revert acc; induction l as [|a r IH]; intros acc H; simpl; [assumption|].
  apply IH. now apply keys_dadd_nodup.
Qed.
Lemma keys_fold_dadd_in l acc x :
  In x (keys (fold_left step l acc)) <-> In x (keys acc) \/ In x (map g l).
Proof.
  revert acc; induction l as [|a r IH]; intros acc; simpl; [tauto|].
  rewrite IH. unfold step. rewrite keys_dadd_in. intuition.
Qed.
End Fold.

End Dict.

Lemma NoDup_app_intro {A} (l1 l2 : list A) :
  NoDup l1 -> NoDup l2 -> (forall x, In x l1 -> ~ In x l2) -> NoDup (l1 ++ l2).
Proof.
  induction l1 as [|a r IH]; simpl; intros H1 H2 H; [assumption|].
  inversion H1; subst. constructor.
  - rewrite in_app_iff. intros [Hi|Hi]; [contradiction|]. apply (H a); auto.
  - apply IH; auto.
Qed.
Lemma Rsum_filter_zero {A} (p : A -> bool) (h : A -> R) l :
  (forall a, In a l -> p a = false -> h a = 0) -> Rsum (map h (filter p l)) = Rsum (map h l).
Proof.
  induction l as [|a r IH]; intros H; simpl; [reflexivity|].
  destruct (p a) eqn:E; simpl.
  - rewrite IH; [reflexivity|]. intros; apply H; auto. now right.
  - rewrite IH, (H a); auto; [lra|now left|]. intros; apply H; auto. now right.
Qed.

(* ================================================================================== *)
(* one key type: condition, scale, mix, conj, expectation, normalize                   *)
(* ================================================================================== *)
Section Ops1.
Context {K : Type} (keq : K -> K -> bool).
Hypothesis keq_spec : forall a b, keq a b = true <-> a = b.
Notation distR := (list (K * R)).
Notation probR := (@prob R NumR K keq).
Notation massR := (@mass R NumR K).
Implicit Types d : distR.

Lemma Rsum_items_keys (F : K -> R -> R) d :
  NoDup (keys d) ->
  Rsum (map (fun kv => F (fst kv) (snd kv)) d) = Rsum (map (fun x => F x (probR d x)) (keys d)).
Proof.
  intros Hnd. unfold keys. rewrite map_map. apply Rsum_map_ext_in. intros kv Hin.
  now rewrite (prob_in keq keq_spec d kv Hnd Hin).
Qed.

Lemma mass_keys d : NoDup (keys d) -> massR d = Rsum (map (probR d) (keys d)).
Proof. intros H. rewrite mass_Rsum. now rewrite (map_snd_keys keq keq_spec). Qed.

(* ---------- from_pairs ---------- *)
Theorem from_pairs_prob (l : distR) x :
  probR (from_pairs keq l) x = Rsum (map snd (filter (fun kv => keq (fst kv) x) l)).
Proof.
  unfold from_pairs. rewrite (prob_fold_dadd keq keq_spec fst snd). unfold prob; simpl. numR. lra.
Qed.
Lemma from_pairs_nodup (l : distR) : NoDup (keys (from_pairs keq l)).
Proof. unfold from_pairs. apply (keys_fold_dadd_nodup keq keq_spec fst snd). constructor. Qed.
Lemma of_pairs_keys_nodup (l : distR) : NoDup (keys (of_pairs keq l)).
Proof.
  unfold of_pairs, keys. generalize (NoDup_nil K). change (@nil K) with (map fst (@nil (K * R))).
  generalize (@nil (K * R)). induction l as [|kv r IH]; intros acc H; simpl; [assumption|].
  apply IH. unfold dset. now apply keys_dupd_nodup.
Qed.

(* ---------- condition ---------- *)
Definition wpos (w : K -> R) (x : K) : bool := @nltb R NumR 0 (w x).
Lemma wpos_true w x : wpos w x = true <-> 0 < w x.
Proof. unfold wpos. apply nltb_R. Qed.
Definition cond_list (w : K -> R) d : distR :=
  map (fun kv => (fst kv, snd kv * w (fst kv))) (filter (fun kv => wpos w (fst kv)) d).

Lemma cond_list_keys w d : keys (cond_list w d) = filter (wpos w) (keys d).
Proof.
  unfold cond_list, keys. rewrite map_map. simpl.
  induction d as [|kv r IH]; simpl; [reflexivity|]. destruct (wpos w (fst kv)); simpl; now rewrite IH.
Qed.

Lemma condition_acc_gen w d acc s :
  NoDup (keys acc ++ keys d) ->
  fold_left (fun st kv =>
     let wt := w (fst kv) in
     if @nltb R NumR n0 wt then
       let x := (snd kv * wt)%num in (dset keq (fst st) (fst kv) x, (snd st + x)%num)
     else st) d (acc, s)
  = (acc ++ cond_list w d, s + Rsum (map snd (cond_list w d))).
Proof.
  revert acc s. induction d as [|kv r IH]; intros acc s Hnd.
  - simpl. rewrite app_nil_r. f_equal. unfold cond_list; simpl. lra.
  - cbn [fold_left]. cbv zeta. unfold cond_list. cbn [filter].
    change (@nltb R NumR n0 (w (fst kv))) with (wpos w (fst kv)).
    destruct (wpos w (fst kv)) eqn:E.
    + cbn [fst snd]. unfold dset. rewrite dupd_absent.
      2:{ exact keq_spec. }
      2:{ unfold keys in Hnd. simpl in Hnd. apply NoDup_remove_2 in Hnd. intros Hin. apply Hnd.
          apply in_or_app; now left. }
      rewrite IH.
      * cbn [map fst snd]. rewrite <- app_assoc. f_equal. unfold cond_list. numR. simpl. lra.
      * unfold keys in *. rewrite map_app. simpl. rewrite <- app_assoc. simpl. exact Hnd.
    + rewrite IH; [reflexivity|]. unfold keys in *. simpl in Hnd. now apply NoDup_remove_1 in Hnd.
Qed.
Lemma condition_acc_eq w d :
  NoDup (keys d) ->
  @condition_acc R NumR K keq w d = (cond_list w d, Rsum (map snd (cond_list w d))).
Proof.
  intros H. unfold condition_acc. rewrite condition_acc_gen; [|exact H]. simpl. f_equal. numR. lra.
Qed.

(* the normaliser: total weight of the kept entries *)
Definition cond_norm (w : K -> R) d : R :=
  Rsum (map (fun x => probR d x * w x) (filter (wpos w) (keys d))).

Lemma filter_map_fst {V} (p : K -> bool) (l : list (K * V)) :
  filter p (map fst l) = map fst (filter (fun kv => p (fst kv)) l).
Proof. induction l as [|kv r IH]; simpl; [reflexivity|]. destruct (p (fst kv)); simpl; now rewrite IH. Qed.
Lemma cond_list_sum w d : NoDup (keys d) -> Rsum (map snd (cond_list w d)) = cond_norm w d.
Proof.
  intros Hnd. unfold cond_list, cond_norm, keys. rewrite filter_map_fst, !map_map. cbn [snd].
  apply Rsum_map_ext_in. intros kv Hin. apply filter_In in Hin.
  rewrite (prob_in keq keq_spec d kv Hnd); tauto.
Qed.

Theorem condition_prob w d x :
  NoDup (keys d) -> cond_norm w d <> 0 ->
  probR (condition keq w d) x =
  if wpos w x then probR d x * w x / cond_norm w d else 0.
Proof.
  intros Hnd Hn. unfold condition. rewrite (condition_acc_eq w d Hnd). cbn [fst snd].
  rewrite (cond_list_sum w d Hnd). unfold prob, cond_list.
  rewrite (dget_map_val keq keq_spec (fun _ v => (v / cond_norm w d)%num)).
  rewrite (dget_map_val keq keq_spec (fun k v => v * w k)).
  rewrite (dget_filter_key keq keq_spec (wpos w)).
  destruct (wpos w x); [|reflexivity].
  destruct (dget keq d x); simpl.
  - now rewrite ndiv_real.
  - numR. unfold Rdiv. lra.
Qed.
Theorem condition_mass w d :
  NoDup (keys d) -> cond_norm w d <> 0 -> massR (condition keq w d) = 1.
Proof.
  intros Hnd Hn. unfold condition. rewrite (condition_acc_eq w d Hnd). cbn [fst snd].
  rewrite (cond_list_sum w d Hnd). rewrite mass_Rsum, map_map. cbn [snd].
  rewrite (Rsum_map_ext_in _ (fun kv => snd kv / cond_norm w d)).
  - rewrite Rsum_map_div, (cond_list_sum w d Hnd). now field.
  - intros. now apply ndiv_real.
Qed.
Theorem condition_support w d :
  NoDup (keys d) -> keys (condition keq w d) = filter (wpos w) (keys d).
Proof.
  intros Hnd. unfold condition. rewrite (condition_acc_eq w d Hnd). cbn [fst snd].
  unfold keys at 1. rewrite map_map. cbn [fst]. apply cond_list_keys.
Qed.

(* for likelihoods w >= 0 the "> 0" filter is invisible in the probabilities: Bayes' rule *)
Lemma cond_norm_nonneg_w w d :
  (forall x, 0 <= w x) -> cond_norm w d = Rsum (map (fun x => probR d x * w x) (keys d)).
Proof.
  intros Hw. unfold cond_norm. apply Rsum_filter_zero. intros x _ E.
  assert (~ 0 < w x) by (rewrite <- wpos_true; congruence).
  assert (w x = 0) by (specialize (Hw x); lra). rewrite H0. lra.
Qed.
Theorem condition_bayes w d :
  NoDup (keys d) -> (forall x, 0 <= w x) ->
  let W := Rsum (map (fun x => probR d x * w x) (keys d)) in
  W <> 0 ->
  (forall x, probR (condition keq w d) x = probR d x * w x / W) /\
  massR (condition keq w d) = 1 /\
  (forall x, In x (keys (condition keq w d)) <-> In x (keys d) /\ 0 < w x).
Proof.
  intros Hnd Hw W HW. subst W. rewrite <- (cond_norm_nonneg_w w d Hw) in *.
  split; [|split].
  - intros x. rewrite condition_prob by assumption. destruct (wpos w x) eqn:E; [reflexivity|].
    assert (~ 0 < w x) by (rewrite <- wpos_true; congruence).
    assert (w x = 0) by (specialize (Hw x); lra). rewrite H0. unfold Rdiv. lra.
  - now apply condition_mass.
  - intros x. rewrite condition_support by assumption. rewrite filter_In, wpos_true. tauto.
Qed.

(* ---------- scale (__mul__) and mix (__or__) ---------- *)
Lemma scale_nodup d c :
  NoDup (keys d) -> scale keq d c = map (fun kv => (fst kv, snd kv * c)) d.
Proof.
  intros H. unfold scale. apply (of_pairs_nodup keq keq_spec).
  rewrite map_map. simpl. exact H.
Qed.
Theorem scale_prob d c x : NoDup (keys d) -> probR (scale keq d c) x = probR d x * c.
Proof.
  intros H. rewrite scale_nodup by assumption. unfold prob.
  rewrite (dget_map_val keq keq_spec (fun _ v => v * c)). destruct (dget keq d x); simpl; numR; lra.
Qed.
Lemma scale_keys d c : NoDup (keys d) -> keys (scale keq d c) = keys d.
Proof. intros H. rewrite scale_nodup by assumption. unfold keys. rewrite map_map. reflexivity. Qed.
Theorem scale_mass d c : NoDup (keys d) -> massR (scale keq d c) = massR d * c.
Proof.
  intros H. rewrite scale_nodup by assumption. rewrite !mass_Rsum, map_map. simpl.
  apply (Rsum_map_scal_r snd).
Qed.

Theorem mix_prob_raw d1 d2 x :
  probR (mix keq d1 d2) x =
  Rsum (map snd (filter (fun kv => keq (fst kv) x) d1)) +
  Rsum (map snd (filter (fun kv => keq (fst kv) x) d2)).
Proof.
  unfold mix. rewrite !(prob_fold_dadd keq keq_spec fst snd). unfold prob; simpl. numR. lra.
Qed.
Theorem mix_prob d1 d2 x :
  NoDup (keys d1) -> NoDup (keys d2) -> probR (mix keq d1 d2) x = probR d1 x + probR d2 x.
Proof. intros H1 H2. rewrite mix_prob_raw, !(sum_match_prob keq keq_spec) by assumption. reflexivity. Qed.
Theorem mix_mass d1 d2 : massR (mix keq d1 d2) = massR d1 + massR d2.
Proof.
  unfold mix. rewrite !(mass_fold_dadd keq fst snd). rewrite !mass_Rsum. simpl. lra.
Qed.
Lemma mix_nodup d1 d2 : NoDup (keys (mix keq d1 d2)).
Proof. unfold mix. repeat apply (keys_fold_dadd_nodup keq keq_spec fst snd). constructor. Qed.
Theorem mix_pointwise d1 d2 a b x :
  NoDup (keys d1) -> NoDup (keys d2) ->
  probR (mix keq (scale keq d1 a) (scale keq d2 b)) x = probR d1 x * a + probR d2 x * b.
Proof.
  intros H1 H2. rewrite mix_prob, !scale_prob; auto; now rewrite scale_keys.
Qed.

(* ---------- conj (__and__) ---------- *)
Definition pprod (d1 d2 : distR) (e : K) : R := probR d1 e * probR d2 e.
Definition conj_norm (es : list K) d1 d2 : R := Rsum (map (pprod d1 d2) es).

Lemma dget_tabulate (P : K -> R) es x :
  dget keq (map (fun e => (e, P e)) es) x = if memk keq x es then Some (P x) else None.
Proof.
  induction es as [|e r IH]; simpl; [reflexivity|].
  destruct (keq x e) eqn:E; simpl; [|exact IH]. apply keq_spec in E. now subst.
Qed.
Lemma conj_norm_eq es d1 d2 :
  @psum R NumR (map snd (map (fun e => (e, (probR d1 e * probR d2 e)%num)) es)) = conj_norm es d1 d2.
Proof. rewrite psum_Rsum, map_map. reflexivity. Qed.

Theorem conj_prob es d1 d2 x :
  conj_norm es d1 d2 <> 0 ->
  probR (conj_on keq es d1 d2) x =
  if memk keq x es then probR d1 x * probR d2 x / conj_norm es d1 d2 else 0.
Proof.
  intros Hn. unfold conj_on. cbv zeta. rewrite conj_norm_eq. unfold prob at 1.
  rewrite (dget_map_val keq keq_spec (fun _ v => (v / conj_norm es d1 d2)%num)).
  rewrite (dget_tabulate (fun e => (probR d1 e * probR d2 e)%num)).
  destruct (memk keq x es); simpl; [|reflexivity]. now rewrite ndiv_real.
Qed.
Theorem conj_mass es d1 d2 : conj_norm es d1 d2 <> 0 -> massR (conj_on keq es d1 d2) = 1.
Proof.
  intros Hn. unfold conj_on. cbv zeta. rewrite conj_norm_eq, mass_Rsum, !map_map. cbn [snd].
  rewrite (Rsum_map_ext_in _ (fun e => pprod d1 d2 e / conj_norm es d1 d2)).
  - rewrite Rsum_map_div. fold (conj_norm es d1 d2). now field.
  - intros. now apply ndiv_real.
Qed.
Lemma conj_keys es d1 d2 : keys (conj_on keq es d1 d2) = es.
Proof. unfold conj_on, keys. cbv zeta. rewrite !map_map. simpl. apply map_id. Qed.

Lemma common_spec d1 d2 e : In e (common keq d1 d2) <-> In e (keys d1) /\ In e (keys d2).
Proof. unfold common. rewrite filter_In, (memk_In keq keq_spec). tauto. Qed.
Lemma common_nodup d1 d2 : NoDup (keys d1) -> NoDup (common keq d1 d2).
Proof. intros H. unfold common. now apply NoDup_filter. Qed.

(* es: ANY enumeration of the common support (msdm iterates a Python set: hash order) *)
Theorem and_renormalised_product es d1 d2 :
  (forall e, In e es <-> In e (keys d1) /\ In e (keys d2)) ->
  conj_norm es d1 d2 <> 0 ->
  (forall x, probR (conj_on keq es d1 d2) x = probR d1 x * probR d2 x / conj_norm es d1 d2) /\
  massR (conj_on keq es d1 d2) = 1 /\
  keys (conj_on keq es d1 d2) = es.
Proof.
  intros Hes Hn. split; [|split; [now apply conj_mass|apply conj_keys]].
  intros x. rewrite conj_prob by assumption. destruct (memk keq x es) eqn:E; [reflexivity|].
  assert (Hni : ~ In x es) by (rewrite <- (memk_In keq keq_spec); congruence).
  rewrite Hes in Hni.
  destruct (in_dec (keq_dec keq keq_spec) x (keys d1)) as [H1|H1].
  - rewrite (prob_notin keq keq_spec d2 x) by tauto. unfold Rdiv; lra.
  - rewrite (prob_notin keq keq_spec d1 x) by tauto. unfold Rdiv; lra.
Qed.

(* the log/exp form msdm actually computes *)
Definition score (p : R) : option R := if Req_EM_T p 0 then None else Some (ln p).
Definition oadd (a b : option R) : option R :=
  match a, b with Some x, Some y => Some (x + y) | _, _ => None end.
Definition oexp (o : option R) : R := match o with Some x => exp x | None => 0 end.
Definition conj_logexp (es : list K) (d1 d2 : distR) : distR :=
  let ls := map (fun e => (e, oadd (score (probR d1 e)) (score (probR d2 e)))) es in
  let norm := Rsum (map (fun kv => oexp (snd kv)) ls) in
  let lognorm := ln norm in
  map (fun kv => (fst kv, match snd kv with Some l => exp (l - lognorm) | None => 0 end)) ls.

Lemma oexp_score p q : 0 <= p -> 0 <= q -> oexp (oadd (score p) (score q)) = p * q.
Proof.
  intros Hp Hq. unfold score. destruct (Req_EM_T p 0), (Req_EM_T q 0); simpl; subst; try lra.
  rewrite exp_plus, !exp_ln; lra.
Qed.
Theorem conj_logexp_eq es d1 d2 :
  (forall kv, In kv d1 -> 0 <= snd kv) -> (forall kv, In kv d2 -> 0 <= snd kv) ->
  0 < conj_norm es d1 d2 ->
  conj_logexp es d1 d2 = conj_on keq es d1 d2.
Proof.
  intros H1 H2 Hn. unfold conj_logexp, conj_on. cbv zeta. rewrite conj_norm_eq, !map_map. cbn [fst snd].
  assert (E : Rsum (map (fun e => oexp (oadd (score (probR d1 e)) (score (probR d2 e)))) es)
              = conj_norm es d1 d2).
  { unfold conj_norm. apply Rsum_map_ext_in. intros e _.
    apply oexp_score; now apply (prob_nonneg keq keq_spec). }
  rewrite E. apply map_ext. intros e. f_equal.
  rewrite ndiv_real by lra.
  pose proof (prob_nonneg keq keq_spec d1 e H1) as P1.
  pose proof (prob_nonneg keq keq_spec d2 e H2) as P2.
  pose proof (oexp_score _ _ P1 P2) as Eo.
  destruct (oadd (score (probR d1 e)) (score (probR d2 e))) as [l|]; simpl in Eo.
  - unfold Rminus. rewrite exp_plus, exp_Ropp, exp_ln, Eo by assumption. numR. reflexivity.
  - numR. rewrite <- Eo. unfold Rdiv; lra.
Qed.

(* ---------- expectation ---------- *)
Lemma expectation_fold (f : K -> R) d a :
  fold_left (fun tot kv => (tot + f (fst kv) * snd kv)%num) d a =
  a + Rsum (map (fun kv => f (fst kv) * snd kv) d).
Proof. revert a; induction d as [|kv r IH]; intros a; simpl; [lra|]. rewrite IH. numR. lra. Qed.
Theorem expectation_raw f d :
  @expectation R NumR K f d = Rsum (map (fun kv => f (fst kv) * snd kv) d).
Proof. unfold expectation. rewrite expectation_fold. numR. lra. Qed.
Theorem expectation_def f d :
  NoDup (keys d) ->
  @expectation R NumR K f d = Rsum (map (fun x => f x * probR d x) (keys d)).
Proof. intros H. rewrite expectation_raw. now apply (Rsum_items_keys (fun x p => f x * p)). Qed.

(* ---------- normalize ---------- *)
Lemma normalize_nodup d :
  NoDup (keys d) -> normalize keq d = map (fun kv => (fst kv, (snd kv / massR d)%num)) d.
Proof.
  intros H. unfold normalize. cbv zeta. apply (of_pairs_nodup keq keq_spec).
  rewrite map_map. simpl. exact H.
Qed.
Theorem normalize_def d :
  NoDup (keys d) -> massR d <> 0 ->
  (forall x, probR (normalize keq d) x = probR d x / massR d) /\
  massR (normalize keq d) = 1 /\ keys (normalize keq d) = keys d.
Proof.
  intros Hnd Hm. rewrite normalize_nodup by assumption. repeat split.
  - intros x. unfold prob.
    rewrite (dget_map_val keq keq_spec (fun _ v => (v / massR d)%num)).
    destruct (dget keq d x); simpl; [now rewrite ndiv_real|numR; unfold Rdiv; lra].
  - rewrite mass_Rsum at 1. rewrite map_map. cbn [snd].
    rewrite (Rsum_map_ext_in _ (fun kv => snd kv / massR d)) by (intros; now apply ndiv_real).
    rewrite (Rsum_map_div snd), <- mass_Rsum. now field.
  - unfold keys. rewrite map_map. reflexivity.
Qed.

Theorem is_normalized_spec rtol atol d :
  @is_normalized R NumR K rtol atol d = true <->
  Rabs (massR d - 1) <= Rmax (rtol * Rmax (Rabs (massR d)) (Rabs 1)) atol.
Proof.
  unfold is_normalized. cbv zeta. rewrite !nmax_R, !nabs_R. numR. apply Rleb_true.
Qed.

End Ops1.

(* ================================================================================== *)
(* two key types: marginalize, chain, joint                                            *)
(* ================================================================================== *)
Section Ops2.
Context {K K2 : Type} (keq : K -> K -> bool) (keq2 : K2 -> K2 -> bool).
Hypothesis keq_spec : forall a b, keq a b = true <-> a = b.
Hypothesis keq2_spec : forall a b, keq2 a b = true <-> a = b.
Notation probK := (@prob R NumR K keq).
Notation probK2 := (@prob R NumR K2 keq2).
Implicit Types d : list (K * R).

(* ---------- marginalize ---------- *)
Theorem marginalize_mass (f : K -> K2) d :
  @mass R NumR K2 (marginalize keq2 f d) = @mass R NumR K d.
Proof.
  unfold marginalize. rewrite (mass_fold_dadd keq2 (fun kv => f (fst kv)) snd).
  rewrite !mass_Rsum. simpl. lra.
Qed.
Theorem marginalize_prob_raw (f : K -> K2) d y :
  probK2 (marginalize keq2 f d) y = Rsum (map snd (filter (fun kv => keq2 (f (fst kv)) y) d)).
Proof.
  unfold marginalize. rewrite (prob_fold_dadd keq2 keq2_spec (fun kv => f (fst kv)) snd).
  unfold prob; simpl. numR. lra.
Qed.
Theorem marginalize_prob (f : K -> K2) d y :
  NoDup (keys d) ->
  probK2 (marginalize keq2 f d) y =
  Rsum (map (probK d) (filter (fun x => keq2 (f x) y) (keys d))).
Proof.
  intros H. rewrite marginalize_prob_raw.
  now rewrite (map_snd_filter_keys keq keq_spec (fun x => keq2 (f x) y) d H).
Qed.
Lemma marginalize_nodup (f : K -> K2) d : NoDup (keys (marginalize keq2 f d)).
Proof. unfold marginalize. apply (keys_fold_dadd_nodup keq2 keq2_spec). constructor. Qed.

(* ---------- chain ---------- *)
Lemma chain_inner_prob p (kl acc : list (K2 * R)) y :
  NoDup (keys kl) ->
  probK2 (fold_left (fun acc2 kv2 => dadd keq2 acc2 (fst kv2) (p * snd kv2)%num) kl acc) y
  = probK2 acc y + p * probK2 kl y.
Proof.
  intros H. rewrite (prob_fold_dadd keq2 keq2_spec fst (fun kv2 => (p * snd kv2)%num)).
  numR. rewrite (Rsum_map_scal snd), (sum_match_prob keq2 keq2_spec) by assumption. reflexivity.
Qed.
Lemma chain_inner_mass p (kl acc : list (K2 * R)) :
  @mass R NumR K2 (fold_left (fun acc2 kv2 => dadd keq2 acc2 (fst kv2) (p * snd kv2)%num) kl acc)
  = @mass R NumR K2 acc + p * @mass R NumR K2 kl.
Proof.
  rewrite (mass_fold_dadd keq2 fst (fun kv2 => (p * snd kv2)%num)).
  numR. rewrite (Rsum_map_scal snd), <- mass_Rsum. reflexivity.
Qed.
Lemma chain_outer_prob (kern : K -> list (K2 * R)) d acc y :
  (forall kv, In kv d -> NoDup (keys (kern (fst kv)))) ->
  probK2 (fold_left (fun acc kv =>
     fold_left (fun acc2 kv2 => dadd keq2 acc2 (fst kv2) (snd kv * snd kv2)%num) (kern (fst kv)) acc)
     d acc) y
  = probK2 acc y + Rsum (map (fun kv => snd kv * probK2 (kern (fst kv)) y) d).
Proof.
  revert acc; induction d as [|kv r IH]; intros acc H; simpl; [lra|].
  rewrite IH by (intros; apply H; now right).
  rewrite chain_inner_prob by (apply H; now left). lra.
Qed.
Theorem chain_total_prob (kern : K -> list (K2 * R)) d y :
  NoDup (keys d) -> (forall x, In x (keys d) -> NoDup (keys (kern x))) ->
  probK2 (chain keq2 kern d) y = Rsum (map (fun x => probK d x * probK2 (kern x) y) (keys d)).
Proof.
  intros Hnd Hk. unfold chain. rewrite chain_outer_prob.
  - unfold prob at 1; simpl. numR.
    rewrite (Rsum_items_keys keq keq_spec (fun x p => p * probK2 (kern x) y) d Hnd). lra.
  - intros kv Hin. apply Hk. unfold keys. now apply in_map.
Qed.
Theorem chain_mass (kern : K -> list (K2 * R)) d :
  @mass R NumR K2 (chain keq2 kern d) =
  Rsum (map (fun kv => snd kv * @mass R NumR K2 (kern (fst kv))) d).
Proof.
  unfold chain.
  assert (E : forall acc,
    @mass R NumR K2 (fold_left (fun acc kv =>
       fold_left (fun acc2 kv2 => dadd keq2 acc2 (fst kv2) (snd kv * snd kv2)%num) (kern (fst kv)) acc)
       d acc) = @mass R NumR K2 acc + Rsum (map (fun kv => snd kv * @mass R NumR K2 (kern (fst kv))) d)).
  { induction d as [|kv r IH]; intros acc; simpl; [lra|]. rewrite IH, chain_inner_mass. lra. }
  rewrite E, mass_Rsum. simpl. lra.
Qed.
(* stochastic kernels preserve total mass *)
Corollary chain_mass_stochastic (kern : K -> list (K2 * R)) d :
  (forall x, In x (keys d) -> @mass R NumR K2 (kern x) = 1) ->
  @mass R NumR K2 (chain keq2 kern d) = @mass R NumR K d.
Proof.
  intros H. rewrite chain_mass, mass_Rsum. apply Rsum_map_ext_in. intros kv Hin.
  rewrite H; [lra|]. unfold keys. now apply in_map.
Qed.

(* ---------- joint ---------- *)
Notation peq := (pair_eqb keq keq2).
Lemma pair_eqb_spec : forall a b, peq a b = true <-> a = b.
Proof.
  intros [a1 a2] [b1 b2]. unfold pair_eqb; simpl. rewrite andb_true_iff, keq_spec, keq2_spec.
  split; [intros [-> ->]; reflexivity|intros [= -> ->]; auto].
Qed.
Lemma joint_block_dget ka (pa : R) (d2 : list (K2 * R)) x y :
  dget peq (map (fun b => ((ka, fst b), (pa * snd b)%num)) d2) (x, y) =
  if keq x ka then option_map (fun v => pa * v) (dget keq2 d2 y) else None.
Proof.
  induction d2 as [|b r IH]; cbn [map dget fst snd]; [destruct (keq x ka); reflexivity|].
  unfold pair_eqb at 1; cbn [fst snd]. destruct (keq x ka) eqn:E; cbn [andb].
  - destruct (keq2 y (fst b)); cbn [option_map]; [reflexivity|]. exact IH.
  - exact IH.
Qed.
(* lookup in the comprehension's pair sequence: first match, no uniqueness needed *)
Lemma joint_list_prob (d1 : list (K * R)) (d2 : list (K2 * R)) x y :
  @prob R NumR (K * K2) peq (joint_list d1 d2) (x, y) = probK d1 x * probK2 d2 y.
Proof.
  induction d1 as [|a r IH]; [unfold prob; simpl; numR; lra|].
  change (joint_list (a :: r) d2) with
    (map (fun b => ((fst a, fst b), (snd a * snd b)%num)) d2 ++ joint_list r d2).
  unfold prob at 1. rewrite dget_app, joint_block_dget. destruct (keq x (fst a)) eqn:E.
  - destruct (dget keq2 d2 y) eqn:E2; cbn [option_map].
    + unfold prob. cbn [dget]. rewrite E, E2. reflexivity.
    + transitivity (@prob R NumR _ peq (joint_list r d2) (x, y)); [reflexivity|].
      rewrite IH. unfold prob. cbn [dget]. rewrite E, E2. numR. lra.
  - transitivity (@prob R NumR _ peq (joint_list r d2) (x, y)); [reflexivity|].
    rewrite IH. unfold prob at 1 3. cbn [dget]. rewrite E. reflexivity.
Qed.
Lemma joint_list_nodup (d1 : list (K * R)) (d2 : list (K2 * R)) :
  NoDup (keys d1) -> NoDup (keys d2) -> NoDup (map fst (joint_list d1 d2)).
Proof.
  unfold keys. intros H1 H2. induction d1 as [|a r IH]; simpl; [constructor|].
  inversion H1 as [|? ? Hni Hnd]; subst. rewrite map_app. apply NoDup_app_intro.
  - rewrite map_map. simpl.
    clear -H2. induction d2 as [|b q IHq]; simpl; [constructor|].
    inversion H2; subst. constructor; [|auto].
    rewrite in_map_iff. intros (b' & [= E] & Hin). apply H1. rewrite <- E. now apply in_map.
  - now apply IH.
  - intros [x y]. rewrite map_map, !in_map_iff. simpl. intros (b & [= <- <-] & _) (kv & E & Hin).
    unfold joint_list in Hin. apply in_flat_map in Hin. destruct Hin as (a' & Ha' & Hin).
    apply in_map_iff in Hin. destruct Hin as (b' & <- & _). simpl in E. injection E as E1 E2.
    apply Hni. rewrite <- E1. now apply in_map.
Qed.
Theorem joint_product (d1 : list (K * R)) (d2 : list (K2 * R)) :
  NoDup (keys d1) -> NoDup (keys d2) ->
  (forall x y, @prob R NumR (K * K2) peq (joint keq keq2 d1 d2) (x, y) = probK d1 x * probK2 d2 y) /\
  @mass R NumR (K * K2) (joint keq keq2 d1 d2) = @mass R NumR K d1 * @mass R NumR K2 d2 /\
  keys (joint keq keq2 d1 d2) = list_prod (keys d1) (keys d2).
Proof.
  intros H1 H2. unfold joint.
  rewrite (of_pairs_nodup peq pair_eqb_spec) by now apply joint_list_nodup.
  split; [|split].
  - intros x y. apply joint_list_prob.
  - rewrite !mass_Rsum. unfold joint_list. rewrite (Rsum_flat_map _ snd).
    rewrite (Rsum_map_ext_in _ (fun a => snd a * Rsum (map snd d2))).
    + rewrite (Rsum_map_scal_r snd). reflexivity.
    + intros a _. rewrite map_map. simpl. numR. apply (Rsum_map_scal snd).
  - unfold keys, joint_list. clear. induction d1 as [|a r IH]; [reflexivity|].
    cbn [flat_map map list_prod]. rewrite map_app, IH, !map_map. reflexivity.
Qed.
(* with duplicated events the dict comprehension keeps, per key, the LAST product (dget_of_pairs) *)
Theorem joint_overwrite (d1 : list (K * R)) (d2 : list (K2 * R)) k :
  dget peq (joint keq keq2 d1 d2) k = dget peq (rev (joint_list d1 d2)) k.
Proof. apply (dget_of_pairs peq pair_eqb_spec). Qed.

End Ops2.

(* ================================================================================== *)
(* the provided kinds                                                                   *)
(* ================================================================================== *)
Section Kinds.
Context {K : Type} (keq : K -> K -> bool).
Hypothesis keq_spec : forall a b, keq a b = true <-> a = b.
Notation distR := (list (K * R)).
Notation probR := (@prob R NumR K keq).
Notation massR := (@mass R NumR K).
Notation kindR := (@kind R K).

Lemma prob_tabulate (P : K -> R) es x :
  probR (map (fun e => (e, P e)) es) x = if memk keq x es then P x else 0.
Proof. unfold prob. rewrite (dget_tabulate keq keq_spec). destruct (memk keq x es); reflexivity. Qed.

Lemma kindex_none e (dom : list K) : memk keq e dom = false -> kindex keq e dom = None.
Proof.
  induction dom as [|x r IH]; simpl; [reflexivity|].
  destruct (keq e x); simpl; [discriminate|]. intros H. now rewrite IH.
Qed.

(* every kind's own prob method is the lookup in its items() *)
Theorem kinds_agree (k : kindR) e : @kprob R NumR K keq k e = probR (@items R NumR K keq k) e.
Proof.
  destruct k as [l|l|s|v|dom data]; cbn [kprob items]; try reflexivity.
  - rewrite prob_tabulate. unfold uprob. destruct (memk keq e s); reflexivity.
  - unfold detprob, prob. cbn [dget fst snd]. destruct (keq e v); reflexivity.
  - rewrite prob_tabulate. destruct (memk keq e dom) eqn:E; [reflexivity|].
    unfold tprob. now rewrite kindex_none.
Qed.

Lemma nofnat_pos n : (0 < n)%nat -> 0 < @nofnat R NumR n.
Proof. intros H. rewrite nofnat_R. now apply lt_0_INR. Qed.
Lemma uprob_in s e : In e s -> @uprob R NumR K keq s e = 1 / INR (length s).
Proof.
  intros H. unfold uprob. apply (memk_In keq keq_spec) in H. rewrite H.
  rewrite n1_real, ndiv_real, nofnat_R; [reflexivity|].
  rewrite nofnat_R. apply not_0_INR. destruct s; simpl in *; [discriminate|lia].
Qed.
Lemma uprob_pos s e : In e s -> 0 < @uprob R NumR K keq s e.
Proof.
  intros H. rewrite uprob_in by assumption. apply Rdiv_lt_0_compat; [lra|].
  apply lt_0_INR. destruct s; simpl in *; [contradiction|lia].
Qed.
Theorem uniform_mass s : s <> [] -> massR (@items R NumR K keq (KUniform s)) = 1.
Proof.
  intros H. cbn [items]. rewrite mass_Rsum, map_map. cbn [snd].
  rewrite (Rsum_map_ext_in _ (fun _ => 1 / INR (length s))) by (intros; now apply uprob_in).
  rewrite Rsum_map_const. field. apply not_0_INR. destruct s; simpl; [congruence|lia].
Qed.
(* the same measure written as a uniform, a deterministic, a dict or a table distribution has the
   same items(), hence the same result under EVERY operation (all operations are functions of items) *)
Theorem uniform_singleton_is_det v :
  @items R NumR K keq (KUniform [v]) = @items R NumR K keq (KDet v).
Proof.
  cbn [items map]. rewrite uprob_in by (now left). simpl. f_equal. f_equal. lra.
Qed.
Theorem uniform_is_dict s :
  NoDup s ->
  @items R NumR K keq (KUniform s) =
  @items R NumR K keq (KDict (map (fun e => (e, 1 / INR (length s))) s)).
Proof.
  intros H. cbn [items]. rewrite (of_pairs_nodup keq keq_spec).
  - apply map_ext_in. intros e He. now rewrite uprob_in.
  - rewrite map_map. simpl. now rewrite map_id.
Qed.
Lemma tprob_cons_other x (dom : list K) v data e :
  e <> x -> @tprob R NumR K keq (x :: dom) (v :: data) e = @tprob R NumR K keq dom data e.
Proof.
  intros H. unfold tprob. cbn [kindex]. rewrite (keq_neq keq keq_spec) by assumption.
  destruct (kindex keq e dom); reflexivity.
Qed.
Lemma map_fst_combine_eq {A B} (l : list A) (l' : list B) :
  length l' = length l -> map fst (combine l l') = l.
Proof.
  revert l'; induction l as [|a r IH]; intros [|b r'] H; simpl in *; try reflexivity; try discriminate.
  f_equal. apply IH. lia.
Qed.
Theorem table_is_dict dom data :
  NoDup dom -> length data = length dom ->
  @items R NumR K keq (KTable dom data) = @items R NumR K keq (KDict (combine dom data)).
Proof.
  intros Hnd Hlen. cbn [items]. rewrite (of_pairs_nodup keq keq_spec).
  2:{ rewrite map_fst_combine_eq; [exact Hnd|exact Hlen]. }
  revert data Hlen. induction Hnd as [|x dom Hni Hnd IH]; intros data Hlen; [reflexivity|].
  destruct data as [|v data]; [discriminate|]. cbn [map combine]. f_equal.
  - f_equal. unfold tprob. cbn [kindex]. now rewrite (keq_refl keq keq_spec).
  - rewrite <- IH by (simpl in Hlen; lia). apply map_ext_in. intros e He.
    f_equal. apply tprob_cons_other. intros ->. contradiction.
Qed.

End Kinds.

(* ================================================================================== *)
(* sampling: random.choices' cumulative-weight / bisect rule                            *)
(* ================================================================================== *)
Section Bisect.
Variable a : list R.
Variable x : R.
Definition sortedR (l : list R) : Prop :=
  forall i j, (i <= j)%nat -> (j < length l)%nat -> nth i l 0 <= nth j l 0.
Hypothesis Hsorted : sortedR a.

(* the binary search returns the partition point of x in a[0:hi0] *)
Lemma bisect_right_spec hi0 fuel lo hi :
  (hi - lo <= fuel)%nat -> (lo <= hi)%nat -> (hi <= hi0)%nat -> (hi0 <= length a)%nat ->
  (forall i, (i < lo)%nat -> nth i a 0 <= x) ->
  (forall i, (hi <= i)%nat -> (i < hi0)%nat -> x < nth i a 0) ->
  let r := @bisect_right R NumR fuel a x lo hi in
  (lo <= r)%nat /\ (r <= hi)%nat /\
  (forall i, (i < r)%nat -> nth i a 0 <= x) /\
  (forall i, (r <= i)%nat -> (i < hi0)%nat -> x < nth i a 0).
Proof.
  revert lo hi. induction fuel as [|fuel IH]; intros lo hi Hf Hle Hh0 Hlen Hlo Hhi; cbn [bisect_right].
  - assert (lo = hi) by lia. subst. repeat split; auto.
  - destruct (lo <? hi)%nat eqn:E.
    + apply Nat.ltb_lt in E.
      assert (Hmid : (lo <= (lo + hi) / 2)%nat /\ ((lo + hi) / 2 < hi)%nat).
      { pose proof (Nat.div_mod (lo + hi) 2). pose proof (Nat.mod_upper_bound (lo + hi) 2). lia. }
      set (mid := ((lo + hi) / 2)%nat) in *.
      change (@n0 R NumR) with 0.
      destruct (@nltb R NumR x (nth mid a 0)) eqn:Ex.
      * apply nltb_R in Ex.
        destruct (IH lo mid) as (H1 & H2 & H3 & H4); try lia; auto.
        { intros i Hi1 Hi2. destruct (le_lt_dec hi i); [now apply Hhi|].
          eapply Rlt_le_trans; [exact Ex|]. apply Hsorted; lia. }
        repeat split; auto; lia.
      * assert (Ex' : nth mid a 0 <= x).
        { destruct (Rle_dec (nth mid a 0) x); [assumption|].
          assert (x < nth mid a 0) by lra. apply nltb_R in H. congruence. }
        destruct (IH (S mid) hi) as (H1 & H2 & H3 & H4); try lia; auto.
        { intros i Hi. destruct (le_lt_dec lo i); [|now apply Hlo].
          eapply Rle_trans; [|exact Ex']. apply Hsorted; lia. }
        repeat split; auto; lia.
    + apply Nat.ltb_ge in E. assert (lo = hi) by lia. subst. repeat split; auto.
Qed.
End Bisect.

Lemma accum_from_length acc l : length (@accum_from R NumR acc l) = length l.
Proof. revert acc; induction l; intros; simpl; [reflexivity|]. now rewrite IHl. Qed.
Lemma accum_from_nth acc l i :
  (i < length l)%nat -> nth i (@accum_from R NumR acc l) 0 = acc + Rsum (firstn (S i) l).
Proof.
  revert acc i; induction l as [|w r IH]; intros acc i Hi; [simpl in Hi; lia|].
  cbn [accum_from]. cbv zeta. destruct i as [|i].
  - simpl. numR. lra.
  - cbn [nth]. rewrite IH by (simpl in Hi; lia). numR.
    change (firstn (S (S i)) (w :: r)) with (w :: firstn (S i) r). simpl. lra.
Qed.
Lemma accumulate_length l : length (@accumulate R NumR l) = length l.
Proof. destruct l; simpl; [reflexivity|]. now rewrite accum_from_length. Qed.
Lemma accumulate_nth l i :
  (i < length l)%nat -> nth i (@accumulate R NumR l) 0 = Rsum (firstn (S i) l).
Proof.
  destruct l as [|w r]; intros Hi; [simpl in Hi; lia|]. cbn [accumulate]. destruct i as [|i].
  - simpl. lra.
  - cbn [nth]. rewrite accum_from_nth by (simpl in Hi; lia).
    change (firstn (S (S i)) (w :: r)) with (w :: firstn (S i) r). simpl. lra.
Qed.
Lemma In_firstn {A} (l : list A) n y : In y (firstn n l) -> In y l.
Proof.
  revert n; induction l as [|a r IH]; intros [|n]; simpl; try tauto.
  intros [H|H]; [now left|right; eauto].
Qed.
Lemma Rsum_firstn_mono l i j :
  (forall w, In w l -> 0 <= w) -> (i <= j)%nat -> Rsum (firstn i l) <= Rsum (firstn j l).
Proof.
  revert i j; induction l as [|w r IH]; intros i j Hw Hij.
  - rewrite !firstn_nil. lra.
  - destruct i as [|i], j as [|j]; try lia; simpl; try lra.
    + assert (0 <= w) by (apply Hw; now left).
      assert (0 <= Rsum (firstn j r)).
      { apply Rsum_nonneg. intros y Hy. apply Hw. right. eapply In_firstn; eauto. }
      lra.
    + assert (Rsum (firstn i r) <= Rsum (firstn j r)).
      { apply IH; [|lia]. intros; apply Hw; now right. }
      lra.
Qed.

Lemma Rsum_firstn_S l i :
  (i < length l)%nat -> Rsum (firstn (S i) l) = Rsum (firstn i l) + nth i l 0.
Proof.
  revert i; induction l as [|w r IH]; intros i Hi; [simpl in Hi; lia|].
  destruct i as [|i]; [simpl; lra|].
  change (firstn (S (S i)) (w :: r)) with (w :: firstn (S i) r).
  change (firstn (S i) (w :: r)) with (w :: firstn i r).
  cbn [Rsum fold_right nth]. fold (Rsum (firstn (S i) r)). fold (Rsum (firstn i r)).
  rewrite IH by (simpl in Hi; lia). lra.
Qed.

Lemma accumulate_sorted ws : (forall w, In w ws -> 0 <= w) -> sortedR (@accumulate R NumR ws).
Proof.
  intros Hw i j Hij Hj. rewrite accumulate_length in Hj.
  rewrite !accumulate_nth by lia. apply Rsum_firstn_mono; [assumption|lia].
Qed.

(* THE sampling lemma: for every u in [0,1) the faithful rule (accumulate, total, binary
   bisect_right over [0, n-1)) returns a population element whose weight is positive *)
Theorem sample_choices_positive {K} (pop : list K) (ws : list R) u :
  length ws = length pop -> (forall w, In w ws -> 0 <= w) -> 0 < Rsum ws -> 0 <= u < 1 ->
  exists i e, @sample_choices R NumR K pop ws u = Some e /\
              nth_error pop i = Some e /\ (i < length pop)%nat /\ 0 < nth i ws 0.
Proof.
  intros Hlen Hw Htot Hu. unfold sample_choices. cbv zeta.
  rewrite accumulate_length, Hlen, Nat.eqb_refl. cbn [negb].
  destruct (length pop) as [|hi] eqn:En.
  { destruct ws; [simpl in Htot; lra|discriminate]. }
  set (cum := @accumulate R NumR ws).
  assert (Hcl : length cum = S hi) by (unfold cum; now rewrite accumulate_length).
  assert (Etot : nth hi cum n0 = Rsum ws).
  { unfold cum. change (@n0 R NumR) with 0. rewrite accumulate_nth by lia.
    rewrite <- Hlen. now rewrite firstn_all. }
  rewrite Etot. change (@nleb R NumR (Rsum ws) n0) with (Rleb (Rsum ws) 0).
  assert (Eleb : Rleb (Rsum ws) 0 = false) by (apply Rleb_false; lra). rewrite Eleb.
  set (x := (u * Rsum ws)%num).
  assert (Hx : 0 <= x < Rsum ws).
  { unfold x. numR. split; [apply Rmult_le_pos; lra|].
    rewrite <- (Rmult_1_l (Rsum ws)) at 2. apply Rmult_lt_compat_r; lra. }
  destruct (bisect_right_spec cum x (accumulate_sorted ws Hw) hi (S hi) 0%nat hi)
    as (_ & Hr & Hbelow & Habove); try lia.
  set (r := @bisect_right R NumR (S hi) cum x 0 hi) in *.
  assert (Hrn : (r < length pop)%nat) by lia.
  destruct (nth_error pop r) as [e|] eqn:Ee; [|apply nth_error_None in Ee; lia].
  exists r, e. split; [reflexivity|]. split; [exact Ee|]. split; [lia|].
  (* cum[r] > x *)
  assert (Hgt : x < nth r cum 0).
  { destruct (Nat.eq_dec r hi) as [->|Hne].
    - change (@n0 R NumR) with 0 in Etot. rewrite Etot. tauto.
    - apply Habove; lia. }
  unfold cum in Hgt. rewrite accumulate_nth in Hgt by lia.
  rewrite Rsum_firstn_S in Hgt by lia.
  destruct r as [|r'].
  - unfold Rsum in Hgt. cbn [firstn fold_right] in Hgt. lra.
  - assert (Hle : nth r' cum 0 <= x) by (apply Hbelow; lia).
    unfold cum in Hle. rewrite accumulate_nth in Hle by lia. lra.
Qed.

Section Sampling.
Context {K : Type} (keq : K -> K -> bool).
Hypothesis keq_spec : forall a b, keq a b = true <-> a = b.
Notation distR := (list (K * R)).
Notation probR := (@prob R NumR K keq).
Notation massR := (@mass R NumR K).

Theorem sample_single (d : distR) e u : keys d = [e] -> @sample R NumR K keq d u = Some e.
Proof. intros H. unfold sample. now rewrite H. Qed.

Theorem sample_positive (d : distR) u :
  NoDup (keys d) -> (forall kv, In kv d -> 0 <= snd kv) -> 0 < massR d -> 0 <= u < 1 ->
  exists e, @sample R NumR K keq d u = Some e /\ 0 < probR d e.
Proof.
  intros Hnd Hw Hm Hu.
  assert (Hgen : exists e, @sample_choices R NumR K (keys d) (map (probR d) (keys d)) u = Some e
                           /\ 0 < probR d e).
  { rewrite <- (map_snd_keys keq keq_spec d Hnd).
    destruct (sample_choices_positive (keys d) (map snd d) u) as (i & e & Hs & He & Hi & Hp); auto.
    - unfold keys. now rewrite !map_length.
    - intros w Hin. apply in_map_iff in Hin. destruct Hin as (kv & <- & Hin). now apply Hw.
    - now rewrite <- mass_Rsum.
    - exists e. split; [exact Hs|].
      unfold keys in He. rewrite nth_error_map in He.
      destruct (nth_error d i) as [kv|] eqn:Ekv; [|discriminate]. injection He as <-.
      assert (Hin : In kv d) by (eapply nth_error_In; eauto).
      rewrite (prob_in keq keq_spec d kv Hnd Hin).
      apply nth_error_nth with (d := (fst kv, 0)) in Ekv.
      replace (snd kv) with (nth i (map snd d) 0); [exact Hp|].
      change 0 with (snd (fst kv, 0)) at 1. rewrite map_nth, Ekv. reflexivity. }
  unfold sample. destruct (keys d) as [|e [|e2 r]] eqn:Ek; try exact Hgen.
  exists e. split; [reflexivity|].
  destruct d as [|[k p] [|kv2 d']]; try discriminate. simpl in Ek. injection Ek as ->.
  rewrite mass_Rsum in Hm. simpl in Hm. unfold prob. simpl. rewrite (keq_refl keq keq_spec). lra.
Qed.

(* the one-element shortcut does not look at the weight: a zero-mass one-entry table is sampled
   although its only event has probability 0 (outside the property: that is not a distribution) *)
Remark sample_single_zero_mass e u :
  @sample R NumR K keq [(e, 0)] u = Some e /\ probR [(e, 0)] e = 0.
Proof. split; [reflexivity|]. unfold prob. simpl. now rewrite (keq_refl keq keq_spec). Qed.

(* sampling sequences are a function of the generator's output stream: equal streams (equally
   seeded generators) give identical sample sequences *)
Theorem sample_seq_deterministic (d : distR) us1 us2 :
  us1 = us2 -> @sample_seq R NumR K keq d us1 = @sample_seq R NumR K keq d us2.
Proof. now intros ->. Qed.
Theorem sample_seq_positive (d : distR) us :
  NoDup (keys d) -> (forall kv, In kv d -> 0 <= snd kv) -> 0 < massR d ->
  (forall u, In u us -> 0 <= u < 1) ->
  forall o, In o (@sample_seq R NumR K keq d us) -> exists e, o = Some e /\ 0 < probR d e.
Proof.
  intros Hnd Hw Hm Hus o Hin. unfold sample_seq in Hin. apply in_map_iff in Hin.
  destruct Hin as (u & <- & Hu). now apply sample_positive; auto.
Qed.

Theorem uniform_sample_positive (s : list K) i :
  (i < length s)%nat ->
  exists e, uniform_sample s i = Some e /\ 0 < @uprob R NumR K keq s e.
Proof.
  intros Hi. unfold uniform_sample. destruct (nth_error s i) as [e|] eqn:E.
  - exists e. split; [reflexivity|]. apply (uprob_pos keq keq_spec). eapply nth_error_In; eauto.
  - apply nth_error_None in E. lia.
Qed.

(* sampling, per kind, only returns events to which that kind's own prob gives positive probability *)
Theorem ksample_positive (k : @kind R K) u i :
  NoDup (keys (@items R NumR K keq k)) ->
  (forall kv, In kv (@items R NumR K keq k) -> 0 <= snd kv) ->
  0 < massR (@items R NumR K keq k) -> 0 <= u < 1 ->
  (forall s, k = KUniform s -> (i < length s)%nat) ->
  exists e, @ksample R NumR K keq k u i = Some e /\ 0 < @kprob R NumR K keq k e.
Proof.
  intros Hnd Hw Hm Hu Hi.
  destruct k as [l|l|s|v|dom data].
  1,2,5: (cbn [ksample]; destruct (sample_positive _ u Hnd Hw Hm Hu) as (e & Hs & Hp);
          exists e; split; [exact Hs|]; now rewrite (kinds_agree keq keq_spec)).
  - cbn [ksample kprob]. apply uniform_sample_positive. now apply Hi.
  - exists v. split; [reflexivity|]. cbn [kprob]. unfold detprob.
    rewrite (keq_refl keq keq_spec). numR. lra.
Qed.

(* ================================================================================== *)
(* softmax (SoftmaxDistribution): needs exp, R only                                     *)
(* ================================================================================== *)
(* scores is the dict built by the constructor: unique keys, insertion order *)
Definition softmax_at (c : R) (scores : distR) : distR :=
  let Z := Rsum (map (fun kv => exp (snd kv - c)) scores) in
  map (fun kv => (fst kv, exp (snd kv - c) / Z)) scores.
(* max(scores.values()) *)
Definition maxscore (scores : distR) : R :=
  match scores with [] => 0 | kv :: r => fold_left Rmax (map snd r) (snd kv) end.
Definition softmax (scores : distR) : distR := softmax_at (maxscore scores) scores.

Lemma Rsum_exp_pos (c : R) (scores : distR) :
  scores <> [] -> 0 < Rsum (map (fun kv => exp (snd kv - c)) scores).
Proof.
  destruct scores as [|kv r]; [congruence|]. intros _. cbn [map]. unfold Rsum. cbn [fold_right].
  fold (Rsum (map (fun kv0 : K * R => exp (snd kv0 - c)) r)).
  assert (0 <= Rsum (map (fun kv0 : K * R => exp (snd kv0 - c)) r)).
  { apply Rsum_nonneg. intros y Hy. apply in_map_iff in Hy. destruct Hy as (z & <- & _).
    left. apply exp_pos. }
  pose proof (exp_pos (snd kv - c)). lra.
Qed.

Theorem softmax_at_normalised c scores : scores <> [] -> massR (softmax_at c scores) = 1.
Proof.
  intros H. unfold softmax_at. cbv zeta. rewrite mass_Rsum, map_map. cbn [snd].
  rewrite (Rsum_map_div (fun kv => exp (snd kv - c))).
  pose proof (Rsum_exp_pos c scores H). field. lra.
Qed.
Theorem softmax_normalised scores : scores <> [] -> massR (softmax scores) = 1.
Proof. apply softmax_at_normalised. Qed.

(* the subtracted constant is irrelevant (so msdm's max-shift changes nothing) ... *)
Lemma softmax_at_any c scores : softmax_at c scores = softmax_at 0 scores.
Proof.
  destruct scores as [|kv0 r0] eqn:E; [reflexivity|]. rewrite <- E.
  assert (Hne : scores <> []) by (rewrite E; discriminate).
  unfold softmax_at. cbv zeta.
  assert (EZ : Rsum (map (fun kv => exp (snd kv - c)) scores) =
               Rsum (map (fun kv => exp (snd kv - 0)) scores) * exp (- c)).
  { rewrite <- Rsum_map_scal_r. apply Rsum_map_ext_in. intros kv _.
    rewrite <- exp_plus. f_equal. lra. }
  rewrite EZ. apply map_ext. intros kv. f_equal.
  replace (snd kv - c) with ((snd kv - 0) + - c) by lra. rewrite exp_plus.
  pose proof (Rsum_exp_pos 0 scores Hne). pose proof (exp_pos (- c)). field. split; lra.
Qed.
(* ... and adding a constant to every score does not change the distribution *)
Definition shift_scores (r : R) (scores : distR) : distR :=
  map (fun kv => (fst kv, snd kv + r)) scores.
Theorem softmax_shift_invariant r scores : softmax (shift_scores r scores) = softmax scores.
Proof.
  unfold softmax. rewrite (softmax_at_any (maxscore scores)).
  generalize (maxscore (shift_scores r scores)). intros c.
  transitivity (softmax_at (c - r) scores); [|apply softmax_at_any].
  unfold softmax_at, shift_scores. cbv zeta. rewrite !map_map. cbn [fst snd].
  assert (E : forall kv : K * R, exp (snd kv + r - c) = exp (snd kv - (c - r))) by (intros; f_equal; lra).
  rewrite (Rsum_map_ext_in _ (fun kv => exp (snd kv - (c - r)))) by (intros; apply E).
  apply map_ext. intros kv. now rewrite E.
Qed.
Theorem softmax_prob scores e :
  scores <> [] ->
  probR (softmax scores) e =
  match dget keq scores e with
  | Some s => exp s / Rsum (map (fun kv => exp (snd kv)) scores)
  | None => 0
  end.
Proof.
  intros H. unfold softmax. rewrite softmax_at_any. unfold softmax_at, prob. cbv zeta.
  rewrite (dget_map_val keq keq_spec
             (fun _ s => exp (s - 0) / Rsum (map (fun kv => exp (snd kv - 0)) scores))).
  destruct (dget keq scores e); simpl; [|reflexivity].
  rewrite Rminus_0_r. f_equal. apply Rsum_map_ext_in. intros kv _. now rewrite Rminus_0_r.
Qed.
(* the same with any subtracted constant m (msdm uses m = max score): the form the per-case
   interval proofs of the correspondence harness start from *)
Theorem softmax_prob_at m scores e :
  scores <> [] ->
  probR (softmax scores) e =
  match dget keq scores e with
  | Some s => exp (s - m) / Rsum (map (fun kv => exp (snd kv - m)) scores)
  | None => 0
  end.
Proof.
  intros H. unfold softmax. rewrite (softmax_at_any (maxscore scores)), <- (softmax_at_any m).
  unfold softmax_at, prob. cbv zeta.
  rewrite (dget_map_val keq keq_spec
             (fun _ s => exp (s - m) / Rsum (map (fun kv => exp (snd kv - m)) scores))).
  destruct (dget keq scores e); reflexivity.
Qed.
Lemma softmax_entries_pos scores kv : In kv (softmax scores) -> 0 < snd kv.
Proof.
  unfold softmax, softmax_at. cbv zeta. intros H. apply in_map_iff in H.
  destruct H as (kv0 & <- & Hin). cbn [snd].
  assert (scores <> []) by (intros ->; contradiction).
  apply Rdiv_lt_0_compat; [apply exp_pos|now apply Rsum_exp_pos].
Qed.
Lemma softmax_keys scores : keys (softmax scores) = keys scores.
Proof. unfold softmax, softmax_at, keys. cbv zeta. rewrite map_map. reflexivity. Qed.

End Sampling.
