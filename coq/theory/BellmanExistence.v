(* BellmanExistence.v — EXISTENCE of the fixed points of the Bellman optimality operator
   [Top m] and of the policy operator [Tpol m pi] for every finite discounted MDP
   (arbitrary nS, nA), and geometric convergence of the iterates T^k 0 to them.

   Route: Banach's fixed-point theorem, by hand and per coordinate, for an abstract
   operator F on (nat -> R) that is a g-contraction (g < 1) in the sup norm over the
   indices < n.  (Extensionality of F over indices < n is the d = 0 instance of the
   contraction hypothesis, so it is not a separate assumption.)  The two MDP operators
   are then instances (Top_contraction / Tpol_diff from Bellman.v).

   Completeness of R: [R_complete] from the standard library (Rcomplete). *)
From Coq Require Import Reals Lra Lia List Arith Bool.
From MSDM Require Import base.Num base.NumInst base.NumR model.MDP theory.Bellman.
Local Open Scope R_scope.

(* g^k * M -> 0 *)
Lemma pow_small g M eps :
  0 <= g -> g < 1 -> 0 <= M -> 0 < eps ->
  exists N, forall k, (N <= k)%nat -> g ^ k * M < eps.
Proof.
  intros Hg0 Hg1 HM He.
  assert (Hy : 0 < eps / (M + 1)) by (apply Rdiv_lt_0_compat; lra).
  assert (Hab : Rabs g < 1) by (rewrite Rabs_right; lra).
  destruct (pow_lt_1_zero g Hab (eps / (M + 1)) Hy) as [N HN].
  exists N. intros k Hk.
  assert (Hk' : (k >= N)%nat) by lia. specialize (HN k Hk').
  assert (Hp : 0 <= g ^ k) by (apply pow_le; exact Hg0).
  rewrite Rabs_right in HN by lra.
  assert (E : eps / (M + 1) * (M + 1) = eps) by (field; lra).
  set (y := eps / (M + 1)) in *. set (p := g ^ k) in *.
  assert (H1 : p * M <= y * M) by (apply Rmult_le_compat_r; lra).
  lra.
Qed.

Lemma Rabs_le_0_eq x y : Rabs (x - y) <= 0 -> x = y.
Proof. intros H. apply Rabs_le_inv' in H. lra. Qed.

(* ------------------------------------------------------------------ *)
(* Banach fixed point for a sup-norm contraction on the first n coords *)
(* ------------------------------------------------------------------ *)
Section Banach.
Variable n : nat.
Variable g : R.
Variable F : (nat -> R) -> nat -> R.
Hypothesis Hg0 : 0 <= g.
Hypothesis Hg1 : g < 1.
Hypothesis Fc : forall V W d, 0 <= d ->
  (forall i, (i < n)%nat -> Rabs (V i - W i) <= d) ->
  forall s, (s < n)%nat -> Rabs (F V s - F W s) <= g * d.

Fixpoint iter (k : nat) : nat -> R :=
  match k with O => fun _ => 0 | S k' => F (iter k') end.

(* extensionality over indices < n is the d = 0 case of the contraction *)
Lemma F_ext V W s :
  (forall i, (i < n)%nat -> V i = W i) -> (s < n)%nat -> F V s = F W s.
Proof.
  intros H Hs. apply Rabs_le_0_eq. replace 0 with (g * 0) by lra.
  apply Fc; auto; [lra|]. intros i Hi. rewrite (H i Hi).
  replace (W i - W i) with 0 by lra. rewrite Rabs_R0. lra.
Qed.

Lemma fix_unique V W :
  (forall s, (s < n)%nat -> V s = F V s) ->
  (forall s, (s < n)%nat -> W s = F W s) ->
  forall s, (s < n)%nat -> V s = W s.
Proof.
  intros HV HW.
  destruct (finite_sup n (fun s => V s - W s)) as (D & HD0 & HDle & HDat).
  assert (HDz : D = 0).
  { destruct HDat as [|(i & Hi & He)]; [auto|]. cbv beta in He.
    pose proof (Fc V W D HD0 HDle i Hi) as Hc.
    rewrite <- (HV i Hi), <- (HW i Hi), He in Hc. nra. }
  intros s Hs. apply Rabs_le_0_eq. rewrite <- HDz. apply HDle; auto.
Qed.

Variable C : R.
Hypothesis HC0 : 0 <= C.
Hypothesis HC : forall s, (s < n)%nat -> Rabs (iter 1 s) <= C.

Let B := C / (1 - g).

Lemma B_nonneg : 0 <= B.
Proof. unfold B. apply Rmult_le_pos; [lra|]. left. apply Rinv_0_lt_compat. lra. Qed.

Lemma B_eq : g * B + C = B.
Proof. unfold B. field. lra. Qed.

Lemma powB_nonneg k : 0 <= g ^ k * B.
Proof. apply Rmult_le_pos; [apply pow_le; exact Hg0|apply B_nonneg]. Qed.

(* the whole orbit stays within B of the start *)
Lemma iter_bounded j : forall s, (s < n)%nat -> Rabs (iter j s - iter 0 s) <= B.
Proof.
  induction j as [|j IHj]; intros s Hs.
  - cbn [iter]. replace (0 - 0) with 0 by lra. rewrite Rabs_R0. apply B_nonneg.
  - pose proof (Fc (iter j) (iter 0) B B_nonneg IHj s Hs) as H1.
    pose proof (HC s Hs) as H2. cbn [iter] in *.
    apply Rabs_le_inv' in H1. apply Rabs_le_inv' in H2.
    pose proof B_eq as E. apply Rabs_le. lra.
Qed.

Lemma iter_dist k : forall j s, (s < n)%nat ->
  Rabs (iter (k + j) s - iter k s) <= g ^ k * B.
Proof.
  induction k as [|k IHk]; intros j s Hs.
  - cbn [Nat.add pow]. rewrite Rmult_1_l. apply (iter_bounded j s Hs).
  - cbn [Nat.add iter pow]. rewrite Rmult_assoc.
    apply Fc; [apply powB_nonneg|intros i Hi; apply IHk; exact Hi|exact Hs].
Qed.

Lemma iter_step k s : (s < n)%nat -> Rabs (iter (S k) s - iter k s) <= g ^ k * B.
Proof.
  intros Hs. pose proof (iter_dist k 1 s Hs) as H.
  replace (k + 1)%nat with (S k) in H by lia. exact H.
Qed.

Lemma iter_cauchy s : (s < n)%nat -> Cauchy_crit (fun k => iter k s).
Proof.
  intros Hs eps He.
  destruct (pow_small g B (eps / 2) Hg0 Hg1 B_nonneg) as [N HN]; [lra|].
  exists N. intros a b Ha Hb. unfold R_dist.
  specialize (HN N (le_n N)).
  pose proof (iter_dist N (a - N) s Hs) as H1.
  pose proof (iter_dist N (b - N) s Hs) as H2.
  replace (N + (a - N))%nat with a in H1 by lia.
  replace (N + (b - N))%nat with b in H2 by lia.
  apply Rabs_le_inv' in H1. apply Rabs_le_inv' in H2.
  apply Rabs_def1; lra.
Qed.

(* the limit, coordinate by coordinate (padded with 0 outside the index range) *)
Definition U (s k : nat) : R := if lt_dec s n then iter k s else 0.

Lemma U_cauchy s : Cauchy_crit (U s).
Proof.
  unfold U. destruct (lt_dec s n) as [Hs|Hs].
  - apply iter_cauchy; exact Hs.
  - intros eps He. exists 0%nat. intros a b _ _. unfold R_dist.
    replace (0 - 0) with 0 by lra. rewrite Rabs_R0. exact He.
Qed.

Definition Vlim (s : nat) : R := proj1_sig (R_complete (U s) (U_cauchy s)).

Lemma Vlim_cv s : (s < n)%nat -> Un_cv (fun k => iter k s) (Vlim s).
Proof.
  intros Hs. unfold Vlim.
  destruct (R_complete (U s) (U_cauchy s)) as [l Hl]. cbn [proj1_sig].
  unfold Un_cv, U in *. destruct (lt_dec s n) as [_|Hn]; [exact Hl|contradiction].
Qed.

(* geometric convergence to the limit *)
Lemma Vlim_bound k s : (s < n)%nat -> Rabs (iter k s - Vlim s) <= g ^ k * B.
Proof.
  intros Hs. apply Rnot_lt_le. intros Hlt.
  destruct (Vlim_cv s Hs (Rabs (iter k s - Vlim s) - g ^ k * B)) as [N HN]; [lra|].
  assert (Hge : (k + N >= N)%nat) by lia.
  specialize (HN (k + N)%nat Hge). unfold R_dist in HN.
  pose proof (iter_dist k N s Hs) as Hd.
  assert (Ht : Rabs (iter k s - Vlim s)
               <= Rabs (iter (k + N) s - Vlim s) + Rabs (iter (k + N) s - iter k s)).
  { replace (iter k s - Vlim s)
      with ((iter (k + N) s - Vlim s) + - (iter (k + N) s - iter k s)) by lra.
    eapply Rle_trans; [apply Rabs_triang|]. rewrite Rabs_Ropp. lra. }
  lra.
Qed.

(* the limit is a fixed point, by continuity of F *)
Lemma Vlim_fix s : (s < n)%nat -> Vlim s = F Vlim s.
Proof.
  intros Hs.
  assert (H : forall k, Rabs (Vlim s - F Vlim s) <= g ^ k * (2 * B)).
  { intros k. pose proof (Vlim_bound (S k) s Hs) as H1. cbn [iter pow] in H1.
    assert (H2 : Rabs (F (iter k) s - F Vlim s) <= g * (g ^ k * B)).
    { apply Fc; auto; [apply powB_nonneg|]. intros i Hi. apply Vlim_bound; exact Hi. }
    pose proof (powB_nonneg k) as Hq.
    apply Rabs_le_inv' in H1. apply Rabs_le_inv' in H2. apply Rabs_le.
    set (q := g ^ k * B) in *.
    replace (g * g ^ k * B) with (g * q) in H1 by (unfold q; ring).
    replace (g ^ k * (2 * B)) with (2 * q) by (unfold q; ring).
    assert (Hgq : g * q <= q) by nra. lra. }
  destruct (Req_dec (Vlim s - F Vlim s) 0) as [E|Hne]; [lra|]. exfalso.
  apply Rabs_pos_lt in Hne.
  assert (HB2 : 0 <= 2 * B) by (pose proof B_nonneg; lra).
  destruct (pow_small g (2 * B) (Rabs (Vlim s - F Vlim s)) Hg0 Hg1 HB2 Hne) as [N HN].
  specialize (HN N (le_n N)). specialize (H N). lra.
Qed.

Theorem banach :
  exists Vs, (forall s, (s < n)%nat -> Vs s = F Vs s) /\
             (forall k s, (s < n)%nat -> Rabs (iter k s - Vs s) <= g ^ k * (C / (1 - g))).
Proof.
  exists Vlim. split; [intros s Hs; apply Vlim_fix; exact Hs|].
  intros k s Hs. apply Vlim_bound; exact Hs.
Qed.

(* geometric rate towards ANY fixed point *)
Theorem banach_rate Vs :
  (forall s, (s < n)%nat -> Vs s = F Vs s) ->
  forall k s, (s < n)%nat -> Rabs (iter k s - Vs s) <= g ^ k * (C / (1 - g)).
Proof.
  intros Hfix k s Hs.
  rewrite (fix_unique Vs Vlim Hfix (fun s Hs => Vlim_fix s Hs) s Hs).
  apply Vlim_bound; exact Hs.
Qed.

End Banach.

(* geometric bound => convergence in the sense of Un_cv *)
Lemma geometric_Un_cv (u : nat -> R) l g M :
  0 <= g -> g < 1 -> 0 <= M ->
  (forall k, Rabs (u k - l) <= g ^ k * M) -> Un_cv u l.
Proof.
  intros Hg0 Hg1 HM H eps He.
  destruct (pow_small g M eps Hg0 Hg1 HM He) as [N HN].
  exists N. intros k Hk. unfold R_dist.
  assert (Hk' : (N <= k)%nat) by lia.
  specialize (HN k Hk'). specialize (H k). lra.
Qed.

(* ------------------------------------------------------------------ *)
(* instances: optimality operator and policy operator                  *)
(* ------------------------------------------------------------------ *)
Section Existence.
Variable m : mdp R.

(* value-iteration iterates T^k 0 (syntactically the [itT] of VIUndisc.v) *)
Fixpoint it (k : nat) : nat -> R :=
  match k with O => fun _ => 0 | S k' => Top m (it k') end.
(* policy-evaluation iterates (T^pi)^k 0 (syntactically the [itP] of VIUndisc.v) *)
Fixpoint itp (pi : nat -> nat -> R) (k : nat) : nat -> R :=
  match k with O => fun _ => 0 | S k' => Tpol m pi (itp pi k') end.

Lemma it_iter k : it k = iter (Top m) k.
Proof. induction k as [|k IHk]; [reflexivity|]. cbn [it iter]. now rewrite IHk. Qed.
Lemma itp_iter pi k : itp pi k = iter (Tpol m pi) k.
Proof. induction k as [|k IHk]; [reflexivity|]. cbn [itp iter]. now rewrite IHk. Qed.

Lemma Top_contr :
  wf m -> forall V W d, 0 <= d ->
  (forall i, (i < nS m)%nat -> Rabs (V i - W i) <= d) ->
  forall s, (s < nS m)%nat -> Rabs (Top m V s - Top m W s) <= gamma m * d.
Proof. intros Wf V W d Hd H s Hs. apply Top_contraction; auto. Qed.

Lemma Tpol_contr pi :
  wf m -> wfpol m pi -> forall V W d, 0 <= d ->
  (forall i, (i < nS m)%nat -> Rabs (V i - W i) <= d) ->
  forall s, (s < nS m)%nat -> Rabs (Tpol m pi V s - Tpol m pi W s) <= gamma m * d.
Proof. intros Wf Wp V W d Hd H s Hs. apply Tpol_diff; auto. Qed.

(* ---------------- optimality operator ---------------- *)

(* existence + geometric rate, for a given sup-norm bound C of the first iterate *)
Theorem optimal_value_exists_rate C :
  wf m -> gamma m < 1 -> 0 <= C ->
  (forall s, (s < nS m)%nat -> Rabs (it 1 s) <= C) ->
  exists Vs, fixpoint m Vs /\
    forall k s, (s < nS m)%nat ->
      Rabs (it k s - Vs s) <= gamma m ^ k * (C / (1 - gamma m)).
Proof.
  intros Wf G1 HC0 HC.
  destruct (banach (nS m) (gamma m) (Top m) (wf_gamma0 m Wf) G1 (Top_contr Wf) C HC0)
    as (Vs & Hfix & Hrate).
  { intros s Hs. rewrite <- it_iter. apply HC; exact Hs. }
  exists Vs. split; [exact Hfix|].
  intros k s Hs. rewrite it_iter. apply Hrate; exact Hs.
Qed.

Theorem optimal_value_exists : wf m -> gamma m < 1 -> exists Vs, fixpoint m Vs.
Proof.
  intros Wf G1.
  destruct (finite_sup (nS m) (it 1)) as (C & HC0 & HC & _).
  destruct (optimal_value_exists_rate C Wf G1 HC0 HC) as (Vs & Hfix & _).
  exists Vs. exact Hfix.
Qed.

(* value iteration converges geometrically to EVERY (hence the unique) fixed point *)
Theorem vi_converges_geometric C Vs :
  wf m -> gamma m < 1 -> 0 <= C ->
  (forall s, (s < nS m)%nat -> Rabs (it 1 s) <= C) ->
  fixpoint m Vs ->
  forall k s, (s < nS m)%nat ->
    Rabs (it k s - Vs s) <= gamma m ^ k * (C / (1 - gamma m)).
Proof.
  intros Wf G1 HC0 HC Hfix k s Hs. rewrite it_iter.
  assert (HC' : forall s', (s' < nS m)%nat -> Rabs (iter (Top m) 1 s') <= C).
  { intros s' Hs'. rewrite <- it_iter. apply HC; exact Hs'. }
  exact (banach_rate (nS m) (gamma m) (Top m) (wf_gamma0 m Wf) G1 (Top_contr Wf) C HC0 HC'
                     Vs Hfix k s Hs).
Qed.

(* packaged: the bound C exists too *)
Theorem vi_converges :
  wf m -> gamma m < 1 ->
  exists Vs C, fixpoint m Vs /\ 0 <= C /\
    (forall s, (s < nS m)%nat -> Rabs (it 1 s) <= C) /\
    (forall k s, (s < nS m)%nat ->
       Rabs (it k s - Vs s) <= gamma m ^ k * (C / (1 - gamma m))) /\
    (forall s, (s < nS m)%nat -> Un_cv (fun k => it k s) (Vs s)).
Proof.
  intros Wf G1.
  destruct (finite_sup (nS m) (it 1)) as (C & HC0 & HC & _).
  destruct (optimal_value_exists_rate C Wf G1 HC0 HC) as (Vs & Hfix & Hrate).
  exists Vs, C. repeat split; auto.
  intros s Hs.
  assert (HB : 0 <= C / (1 - gamma m)).
  { apply Rmult_le_pos; [lra|]. left. apply Rinv_0_lt_compat. lra. }
  exact (geometric_Un_cv (fun k => it k s) (Vs s) (gamma m) (C / (1 - gamma m))
           (wf_gamma0 m Wf) G1 HB (fun k => Hrate k s Hs)).
Qed.

(* ---------------- policy operator ---------------- *)

Theorem policy_value_exists_rate pi C :
  wf m -> gamma m < 1 -> wfpol m pi -> 0 <= C ->
  (forall s, (s < nS m)%nat -> Rabs (itp pi 1 s) <= C) ->
  exists Vpi, fixpol m pi Vpi /\
    forall k s, (s < nS m)%nat ->
      Rabs (itp pi k s - Vpi s) <= gamma m ^ k * (C / (1 - gamma m)).
Proof.
  intros Wf G1 Wp HC0 HC.
  destruct (banach (nS m) (gamma m) (Tpol m pi) (wf_gamma0 m Wf) G1 (Tpol_contr pi Wf Wp) C HC0)
    as (Vs & Hfix & Hrate).
  { intros s Hs. rewrite <- itp_iter. apply HC; exact Hs. }
  exists Vs. split; [exact Hfix|].
  intros k s Hs. rewrite itp_iter. apply Hrate; exact Hs.
Qed.

Theorem policy_value_exists pi :
  wf m -> gamma m < 1 -> wfpol m pi -> exists Vpi, fixpol m pi Vpi.
Proof.
  intros Wf G1 Wp.
  destruct (finite_sup (nS m) (itp pi 1)) as (C & HC0 & HC & _).
  destruct (policy_value_exists_rate pi C Wf G1 Wp HC0 HC) as (Vs & Hfix & _).
  exists Vs. exact Hfix.
Qed.

(* Bellman.v has no uniqueness statement for fixpol; here it is *)
Theorem fixpol_unique pi V1 V2 :
  wf m -> gamma m < 1 -> wfpol m pi -> fixpol m pi V1 -> fixpol m pi V2 ->
  forall s, (s < nS m)%nat -> V1 s = V2 s.
Proof.
  intros Wf G1 Wp H1 H2.
  exact (fix_unique (nS m) (gamma m) (Tpol m pi) G1 (Tpol_contr pi Wf Wp) V1 V2 H1 H2).
Qed.

Theorem pe_converges_geometric pi C Vpi :
  wf m -> gamma m < 1 -> wfpol m pi -> 0 <= C ->
  (forall s, (s < nS m)%nat -> Rabs (itp pi 1 s) <= C) ->
  fixpol m pi Vpi ->
  forall k s, (s < nS m)%nat ->
    Rabs (itp pi k s - Vpi s) <= gamma m ^ k * (C / (1 - gamma m)).
Proof.
  intros Wf G1 Wp HC0 HC Hfix k s Hs. rewrite itp_iter.
  assert (HC' : forall s', (s' < nS m)%nat -> Rabs (iter (Tpol m pi) 1 s') <= C).
  { intros s' Hs'. rewrite <- itp_iter. apply HC; exact Hs'. }
  exact (banach_rate (nS m) (gamma m) (Tpol m pi) (wf_gamma0 m Wf) G1
                     (Tpol_contr pi Wf Wp) C HC0 HC' Vpi Hfix k s Hs).
Qed.

Theorem pe_converges pi :
  wf m -> gamma m < 1 -> wfpol m pi ->
  exists Vpi C, fixpol m pi Vpi /\ 0 <= C /\
    (forall s, (s < nS m)%nat -> Rabs (itp pi 1 s) <= C) /\
    (forall k s, (s < nS m)%nat ->
       Rabs (itp pi k s - Vpi s) <= gamma m ^ k * (C / (1 - gamma m))) /\
    (forall s, (s < nS m)%nat -> Un_cv (fun k => itp pi k s) (Vpi s)).
Proof.
  intros Wf G1 Wp.
  destruct (finite_sup (nS m) (itp pi 1)) as (C & HC0 & HC & _).
  destruct (policy_value_exists_rate pi C Wf G1 Wp HC0 HC) as (Vs & Hfix & Hrate).
  exists Vs, C. repeat split; auto.
  intros s Hs.
  assert (HB : 0 <= C / (1 - gamma m)).
  { apply Rmult_le_pos; [lra|]. left. apply Rinv_0_lt_compat. lra. }
  exact (geometric_Un_cv (fun k => itp pi k s) (Vs s) (gamma m) (C / (1 - gamma m))
           (wf_gamma0 m Wf) G1 HB (fun k => Hrate k s Hs)).
Qed.

End Existence.

Check optimal_value_exists.
Check policy_value_exists.
Check vi_converges_geometric.
Check pe_converges_geometric.
Print Assumptions vi_converges.
Print Assumptions pe_converges.
Print Assumptions optimal_value_exists.
Print Assumptions policy_value_exists.
