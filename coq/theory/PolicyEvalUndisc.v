(* PolicyEvalUndisc.v — C02, undiscounted part: correctness of the Warshall closure of
   model/PolicyEval.v (closure = reflexive-transitive reachability, every n), the graph
   reading of msdm's transient / recurrent classification, and soundness of the
   certificate checker c02_undisc. *)
From Coq Require Import Reals Lra Lia List Arith Bool Relations.
From MSDM Require Import base.Num base.NumInst base.NumR model.MDP model.VI model.PolicyEval
     theory.Bellman theory.VITheory theory.PolicyEvalTheory.
Import ListNotations.

(* ------------------------------------------------------------------ *)
(* A. Floyd-Warshall on bool matrices                                   *)
(* ------------------------------------------------------------------ *)
Section Warshall.
Variable n : nat.
Variable E : nat -> nat -> bool.

Definition Erefl (i j : nat) : bool := Nat.eqb i j || E i j.
(* one step of the graph, inside the index range *)
Definition step (x y : nat) : Prop := (x < n)%nat /\ (y < n)%nat /\ E x y = true.
Definition reach : nat -> nat -> Prop := clos_refl_trans nat step.

Lemma nth_map_seq {A} (g : nat -> A) d k i : (i < k)%nat -> nth i (map g (seq 0 k)) d = g i.
Proof.
  intros Hi. rewrite (nth_indep _ d (g 0%nat)) by (rewrite map_length, seq_length; auto).
  rewrite (map_nth g (seq 0 k) 0%nat i), seq_nth; auto.
Qed.

Lemma bget_btab2 f i j : (i < n)%nat -> (j < n)%nat -> bget (btab2 n f) i j = f i j.
Proof.
  intros Hi Hj. unfold bget, btab2. rewrite (nth_map_seq (fun i => map (f i) (seq 0 n))) by auto.
  apply nth_map_seq; auto.
Qed.

(* walks through a list of intermediate nodes *)
Fixpoint walk (i : nat) (l : list nat) (j : nat) : bool :=
  match l with
  | [] => Erefl i j
  | k :: l' => Erefl i k && walk k l' j
  end.

Lemma walk_app i l1 k l2 j : walk i (l1 ++ k :: l2) j = walk i l1 k && walk k l2 j.
Proof.
  revert i. induction l1 as [|x l1 IH]; intros i; simpl; [reflexivity|].
  now rewrite IH, andb_assoc.
Qed.

Lemma in_split_first (k : nat) l :
  In k l -> exists l1 l2, l = l1 ++ k :: l2 /\ ~ In k l1.
Proof.
  induction l as [|x l IH]; intros H; [contradiction|].
  destruct (Nat.eq_dec x k) as [->|Hne].
  - exists [], l. split; [reflexivity|auto].
  - destruct H as [H|H]; [contradiction|].
    destruct (IH H) as (l1 & l2 & -> & Hn). exists (x :: l1), l2. split; [reflexivity|].
    intros [Hx|Hx]; [contradiction|auto].
Qed.

Lemma Forall_lt_S_notin k l :
  Forall (fun x => (x < S k)%nat) l -> ~ In k l -> Forall (fun x => (x < k)%nat) l.
Proof.
  induction 1 as [|x l Hx Hl IH]; intros Hn; constructor.
  - assert (x <> k) by (intro; subst; apply Hn; left; reflexivity). lia.
  - apply IH. intro; apply Hn; right; auto.
Qed.

(* invariant after the k first pivots: walks whose intermediate nodes are all < k *)
Definition winv (k : nat) (M : list (list bool)) : Prop :=
  forall i j, (i < n)%nat -> (j < n)%nat ->
    (bget M i j = true <-> exists l, Forall (fun x => (x < k)%nat) l /\ walk i l j = true).

Lemma winv0 : winv 0 (btab2 n Erefl).
Proof.
  intros i j Hi Hj. rewrite bget_btab2 by auto. split.
  - intros H. exists []. split; [constructor|exact H].
  - intros (l & Hl & Hw). destruct l as [|x l]; [exact Hw|]. inversion Hl; lia.
Qed.

Lemma winv_step k M :
  (k < n)%nat -> winv k M ->
  winv (S k) (btab2 n (fun i j => bget M i j || (bget M i k && bget M k j))).
Proof.
  intros Hk HM i j Hi Hj. rewrite bget_btab2 by auto. split.
  - intros H. apply orb_true_iff in H as [H|H].
    + apply HM in H; auto. destruct H as (l & Hl & Hw). exists l. split; [|exact Hw].
      eapply Forall_impl; [|exact Hl]. simpl; intros; lia.
    + apply andb_true_iff in H as [H1 H2]. apply HM in H1; auto. apply HM in H2; auto.
      destruct H1 as (l1 & Hl1 & Hw1). destruct H2 as (l2 & Hl2 & Hw2).
      exists (l1 ++ k :: l2). split.
      * apply Forall_app. split; [eapply Forall_impl; [|exact Hl1]; simpl; intros; lia|].
        constructor; [lia|eapply Forall_impl; [|exact Hl2]; simpl; intros; lia].
      * now rewrite walk_app, Hw1, Hw2.
  - intros (l & Hl & Hw).
    assert (Hgen : forall N l, (length l < N)%nat -> forall i, (i < n)%nat ->
              Forall (fun x => (x < S k)%nat) l -> walk i l j = true ->
              bget M i j || (bget M i k && bget M k j) = true).
    { clear i Hi l Hl Hw. induction N as [|N IHN]; intros l Hlen i Hi Hl Hw; [lia|].
      destruct (in_dec Nat.eq_dec k l) as [Hin|Hnin].
      - destruct (in_split_first k l Hin) as (l1 & l2 & -> & Hn1).
        apply Forall_app in Hl as [Hl1 Hl2]. inversion Hl2 as [|? ? _ Hl2']; subst.
        rewrite walk_app in Hw. apply andb_true_iff in Hw as [Hw1 Hw2].
        assert (H1 : bget M i k = true).
        { apply HM; auto. exists l1. split; [apply Forall_lt_S_notin; auto|exact Hw1]. }
        assert (H2 : bget M k j = true).
        { assert (H : bget M k j || (bget M k k && bget M k j) = true).
          { apply (IHN l2); auto. rewrite app_length in Hlen. simpl in Hlen. lia. }
          apply orb_true_iff in H as [H|H]; [exact H|]. now apply andb_true_iff in H as [_ H]. }
        rewrite H1, H2. apply orb_true_r.
      - apply orb_true_iff. left. apply HM; auto. exists l.
        split; [apply Forall_lt_S_notin; auto|exact Hw]. }
    apply (Hgen (S (length l)) l); auto.
Qed.

Lemma winv_wars k : (k <= n)%nat -> winv k (wars n k (btab2 n Erefl)).
Proof.
  induction k; intros Hk; [apply winv0|]. simpl. apply winv_step; [lia|apply IHk; lia].
Qed.

Lemma reach_lt i j : reach i j -> (i < n)%nat -> (j < n)%nat.
Proof. induction 1 as [x y (_ & Hy & _)| |]; auto. Qed.

Lemma walk_reach l : forall i j,
  (i < n)%nat -> (j < n)%nat -> Forall (fun x => (x < n)%nat) l -> walk i l j = true -> reach i j.
Proof.
  induction l as [|k l IH]; intros i j Hi Hj Hl Hw; simpl in Hw.
  - unfold Erefl in Hw. apply orb_true_iff in Hw as [Hw|Hw].
    + apply Nat.eqb_eq in Hw. subst. apply rt_refl.
    + apply rt_step. repeat split; auto.
  - inversion Hl as [|? ? Hk Hl']; subst. apply andb_true_iff in Hw as [H1 H2].
    apply rt_trans with k; [|apply IH; auto].
    unfold Erefl in H1. apply orb_true_iff in H1 as [H1|H1].
    + apply Nat.eqb_eq in H1. subst. apply rt_refl.
    + apply rt_step. repeat split; auto.
Qed.

Lemma reach_walk i j :
  reach i j -> (i < n)%nat -> exists l, Forall (fun x => (x < n)%nat) l /\ walk i l j = true.
Proof.
  intros H. apply clos_rt_rt1n in H. induction H as [x|x y z Hxy Hyz IH]; intros Hi.
  - exists []. split; [constructor|]. simpl. unfold Erefl. now rewrite Nat.eqb_refl.
  - destruct Hxy as (_ & Hy & Hxy). destruct (IH Hy) as (l & Hl & Hw).
    exists (y :: l). split; [constructor; auto|]. simpl. unfold Erefl. now rewrite Hxy, orb_true_r, Hw.
Qed.

(* closure = reflexive-transitive reachability, for every n *)
Theorem warshall_correct i j :
  (i < n)%nat -> (j < n)%nat -> (bget (closure n E) i j = true <-> reach i j).
Proof.
  intros Hi Hj. unfold closure. fold Erefl.
  change (btab2 n (fun i j => Nat.eqb i j || E i j)) with (btab2 n Erefl).
  rewrite (winv_wars n (Nat.le_refl n) i j Hi Hj). split.
  - intros (l & Hl & Hw). apply (walk_reach l); auto.
  - intros H. apply reach_walk; auto.
Qed.

End Warshall.

(* ------------------------------------------------------------------ *)
(* B. the chain of the policy, msdm's classification, the -inf rule     *)
(* ------------------------------------------------------------------ *)
Local Open Scope R_scope.

Lemma existsbn_spec n p : existsbn n p = true <-> exists i, (i < n)%nat /\ p i = true.
Proof. apply existsb_seq. Qed.
Lemma existsbn_false n p : existsbn n p = false <-> forall i, (i < n)%nat -> p i = false.
Proof.
  split.
  - intros H i Hi. destruct (p i) eqn:E; [|reflexivity].
    assert (existsbn n p = true) by (apply existsbn_spec; eauto). congruence.
  - intros H. destruct (existsbn n p) eqn:E; [|reflexivity].
    apply existsbn_spec in E as (i & Hi & Hp). rewrite H in Hp; auto.
Qed.

Section Chain.
Variable m : mdp R.
Variable pi : nat -> nat -> R.
Hypothesis Wfb : wfb m = true.
Hypothesis Wpb : wfpolb m pi = true.

Notation n := (nS m).
Notation rpi := (rpi m pi).
Notation Ppi := (Ppi m pi).
Notation A := (accM m pi).

(* s -> z : the policy moves from s to z with positive probability *)
Definition pstep : nat -> nat -> Prop := step n (edge m pi).
Definition preach : nat -> nat -> Prop := reach n (edge m pi).

Lemma edge_spec s z : edge m pi s z = true <-> 0 < Ppi s z.
Proof. unfold edge. rewrite nltb_R. numR. reflexivity. Qed.

Lemma acc_spec s j : (s < n)%nat -> (j < n)%nat -> (bget A s j = true <-> preach s j).
Proof. intros. apply warshall_correct; auto. Qed.

Lemma preach_lt s j : preach s j -> (s < n)%nat -> (j < n)%nat.
Proof. apply reach_lt. Qed.
Lemma preach_refl s : preach s s.
Proof. apply rt_refl. Qed.
Lemma preach_trans a b c : preach a b -> preach b c -> preach a c.
Proof. apply rt_trans. Qed.

(* rows of the chain: non-absorbing rows are stochastic, absorbing rows are zero *)
Lemma P_row s a :
  (s < n)%nat -> (a < nA m)%nat ->
  sumf n (P m s a) = if avail m s a then 1 else 0.
Proof.
  intros Hs Ha. unfold wfb in Wfb. rewrite !andb_true_iff, forallbn_spec in Wfb.
  destruct Wfb as [_ H]. specialize (H s Hs). apply andb_true_iff in H as [_ H].
  rewrite forallbn_spec in H. specialize (H a Ha). apply andb_true_iff in H as [_ H].
  destruct (avail m s a).
  - now apply neqb_Req in H.
  - rewrite forallbn_spec in H. apply sumf_0. intros ns Hns. apply neqb_Req. auto.
Qed.

Lemma rowsum_one s : (s < n)%nat -> absorbing m s = false -> rowsum m pi s = 1.
Proof.
  intros Hs Hab. pose proof (wfpolb_wfpol m pi Wpb) as Wp.
  unfold rowsum, PolicyEval.Ppi. rewrite Hab. rewrite sumf_swap.
  rewrite <- (wp_sum m pi Wp s Hs). apply sumf_ext. intros a Ha. rewrite sumf_scal, P_row by auto.
  destruct (avail m s a) eqn:E; [lra|]. rewrite (wp_av m pi Wp s a Hs Ha E). lra.
Qed.

Lemma absorbing_no_step s z : absorbing m s = true -> ~ pstep s z.
Proof.
  intros Hab (_ & _ & H). apply edge_spec in H. unfold PolicyEval.Ppi in H. rewrite Hab in H.
  numR. lra.
Qed.
Lemma absorbing_reach s z : absorbing m s = true -> preach s z -> z = s.
Proof.
  intros Hab H. apply clos_rt_rt1n in H. destruct H as [|y z Hsy _]; [reflexivity|].
  exfalso. eapply absorbing_no_step; eauto.
Qed.

(* a closed communicating class of non-absorbing states, named by one of its members *)
Definition closed_class (j : nat) : Prop :=
  absorbing m j = false /\ forall k, preach j k -> preach k j.

Lemma closed_class_member j k :
  closed_class j -> preach j k -> closed_class k.
Proof.
  intros [Hab Hcl] Hjk. split.
  - destruct (absorbing m k) eqn:E; [|reflexivity].
    pose proof (absorbing_reach k j E (Hcl k Hjk)). subst. congruence.
  - intros x Hkx. apply preach_trans with j; [apply Hcl; eapply preach_trans; eauto|exact Hjk].
Qed.

Lemma transient_spec j :
  (j < n)%nat -> absorbing m j = false ->
  (transient m pi A j = false <-> forall k, preach j k -> preach k j).
Proof.
  intros Hj Hab. unfold transient. rewrite Hab. cbn [negb]. rewrite andb_true_r.
  assert (Hlt : @nltb R NumR (rowsum m pi j) n1 = false).
  { rewrite rowsum_one by auto. destruct (@nltb R NumR 1 n1) eqn:E; [|reflexivity].
    apply nltb_R in E. numR. lra. }
  rewrite Hlt, orb_false_r, existsbn_false. split.
  - intros H k Hjk. pose proof (preach_lt j k Hjk Hj) as Hk. specialize (H k Hk).
    apply andb_false_iff in H as [H|H].
    + apply (acc_spec j k Hj Hk) in Hjk. congruence.
    + apply negb_false_iff in H. now apply (acc_spec k j Hk Hj) in H.
  - intros H k Hk. destruct (bget A j k) eqn:E; [|reflexivity]. simpl.
    apply negb_false_iff. apply (acc_spec k j Hk Hj). apply H. now apply (acc_spec j k Hj Hk).
Qed.

Lemma recurrent_spec j : (j < n)%nat -> (recurrent m pi A j = true <-> closed_class j).
Proof.
  intros Hj. unfold recurrent, closed_class. destruct (absorbing m j) eqn:Hab.
  - rewrite andb_false_r. split; [discriminate|intros [H _]; discriminate].
  - simpl. rewrite andb_true_r, negb_true_iff, (transient_spec j Hj Hab). tauto.
Qed.

Lemma negrec_spec j : (j < n)%nat -> (negrec m pi A j = true <-> closed_class j /\ rpi j < 0).
Proof.
  intros Hj. unfold negrec. rewrite andb_true_iff, (recurrent_spec j Hj), nltb_R. numR. tauto.
Qed.

(* the -inf set of the code = states from which a closed non-absorbing class paying
   negative reward is reachable under the policy *)
Definition reaches_negative_class (s : nat) : Prop :=
  exists j, preach s j /\ closed_class j /\ rpi j < 0.

Theorem neginf_spec s : (s < n)%nat -> (neginf m pi A s = true <-> reaches_negative_class s).
Proof.
  intros Hs. unfold neginf. rewrite existsbn_spec. split.
  - intros (j & Hj & H). apply andb_true_iff in H as [H1 H2].
    exists j. split; [now apply (acc_spec s j Hs Hj)|now apply negrec_spec].
  - intros (j & Hsj & Hc & Hr). pose proof (preach_lt s j Hsj Hs) as Hj.
    exists j. split; [auto|]. apply andb_true_iff. split; [now apply (acc_spec s j Hs Hj)|now apply negrec_spec].
Qed.

Lemma neginf_successor s z :
  (s < n)%nat -> (z < n)%nat -> 0 < Ppi s z -> neginf m pi A s = false -> neginf m pi A z = false.
Proof.
  intros Hs Hz Hp Hn. destruct (neginf m pi A z) eqn:E; [|reflexivity].
  apply (neginf_spec z Hz) in E as (j & Hzj & Hc). 
  assert (neginf m pi A s = true); [|congruence].
  apply (neginf_spec s Hs). exists j. split; [|exact Hc].
  apply preach_trans with z; [|exact Hzj]. apply rt_step. repeat split; auto. now apply edge_spec.
Qed.

Lemma occinf_spec z :
  (z < n)%nat ->
  (occinf m pi A z = true <-> closed_class z /\ exists s, (s < n)%nat /\ 0 < init m s /\ preach s z).
Proof.
  intros Hz. unfold occinf. rewrite andb_true_iff, (recurrent_spec z Hz), existsbn_spec. split.
  - intros [(s & Hs & H) Hc]. apply andb_true_iff in H as [H1 H2]. apply nltb_R in H1. numR.
    split; [auto|]. exists s. repeat split; auto. now apply (acc_spec s z Hs Hz).
  - intros [Hc (s & Hs & Hi & Hr)]. split; [|auto]. exists s. split; [auto|].
    apply andb_true_iff. split; [apply nltb_R; numR; auto|now apply (acc_spec s z Hs Hz)].
Qed.

End Chain.

(* ------------------------------------------------------------------ *)
(* C. soundness of the undiscounted checker c02_undisc                  *)
(* ------------------------------------------------------------------ *)
Section UndiscChecker.
Variable m : mdp R.
Variable pi : nat -> nat -> R.
Variable o : @evalout R.
Variable t : @etols R.
Hypothesis Hchk : c02_undisc m pi o t = all_true 11.

Notation n := (nS m).
Notation A := (accM m pi).
Notation Vf := (Vf o).
Notation Of := (Of o).

Lemma undisc_clauses :
  wfb m = true /\ wfpolb m pi = true /\ wfinitb m = true /\ u_undisc m = true /\ u_nonpos m = true /\
  c_abs0 m o = true /\ u_pat m pi o A = true /\ u_v m pi o t A = true /\ u_q m o t = true /\
  u_occ m pi o t A = true /\ u_init m pi o t A = true.
Proof.
  unfold c02_undisc, undisc_clauses, all_true in Hchk. simpl in Hchk. inversion Hchk.
  repeat split; reflexivity.
Qed.

Lemma undisc_wfb : wfb m = true. Proof. apply undisc_clauses. Qed.
Lemma undisc_wpb : wfpolb m pi = true. Proof. apply undisc_clauses. Qed.

Theorem undisc_gamma : gamma m = 1.
Proof. destruct undisc_clauses as (_ & _ & _ & H & _). unfold u_undisc in H. now apply neqb_Req in H. Qed.

Theorem undisc_rewards_nonpos s :
  (s < n)%nat -> rpi m pi s <= 0.
Proof.
  intros Hs. destruct undisc_clauses as (_ & _ & _ & _ & H & _). unfold u_nonpos in H.
  rewrite forallbn_spec in H. specialize (H s Hs). rewrite forallbn_spec in H.
  pose proof (wfpolb_wfpol m pi undisc_wpb) as Wp.
  unfold rpi. destruct (absorbing m s); [numR; lra|].
  replace 0 with (sumf (nA m) (fun _ => 0)) by (apply sumf_0; auto).
  apply sumf_le. intros a Ha. specialize (H a Ha). apply nleb_Rle in H. numR.
  pose proof (wp_nn m pi Wp s a Hs Ha). nra.
Qed.

(* 1. the -inf pattern, both directions *)
Theorem eval_undisc_neginf s :
  (s < n)%nat -> (eV o s = NInf <-> reaches_negative_class m pi s).
Proof.
  intros Hs. rewrite <- (neginf_spec m pi undisc_wfb undisc_wpb s Hs).
  destruct undisc_clauses as (_ & _ & _ & _ & _ & _ & H & _). unfold u_pat in H.
  rewrite forallbn_spec in H. specialize (H s Hs).
  destruct (eV o s); try discriminate.
  - apply negb_true_iff in H. rewrite H. split; discriminate.
  - rewrite H. tauto.
Qed.

Theorem eval_undisc_fin_or_neginf s :
  (s < n)%nat -> eV o s = NInf \/ exists v, eV o s = Fin v.
Proof.
  intros Hs. destruct undisc_clauses as (_ & _ & _ & _ & _ & _ & H & _). unfold u_pat in H.
  rewrite forallbn_spec in H. specialize (H s Hs). destruct (eV o s); try discriminate; eauto.
Qed.

(* 2. finite values solve the transient system; their successors are finite too *)
Theorem eval_undisc_finite s :
  (s < n)%nat -> ~ reaches_negative_class m pi s ->
  exists v, eV o s = Fin v /\
    Rabs (v - (rpi m pi s + sumf n (fun z => Pt m pi A s z * Vf z))) <= tolV t /\
    forall z, (z < n)%nat -> 0 < Ppi m pi s z -> exists w, eV o z = Fin w.
Proof.
  intros Hs Hno.
  assert (Hn : neginf m pi A s = false).
  { destruct (neginf m pi A s) eqn:E; [|reflexivity].
    apply (neginf_spec m pi undisc_wfb undisc_wpb s Hs) in E. contradiction. }
  destruct (eval_undisc_fin_or_neginf s Hs) as [H|(v & Hv)].
  { apply (eval_undisc_neginf s Hs) in H. contradiction. }
  exists v. split; [exact Hv|]. split.
  - destruct undisc_clauses as (_ & _ & _ & _ & _ & _ & _ & H & _). unfold u_v in H.
    rewrite forallbn_spec in H. specialize (H s Hs). rewrite Hn in H. apply ncloseb_R in H.
    unfold PolicyEval.Vf at 1 in H. rewrite Hv in H. exact H.
  - intros z Hz Hp.
    pose proof (neginf_successor m pi undisc_wfb undisc_wpb s z Hs Hz Hp Hn) as Hnz.
    destruct (eval_undisc_fin_or_neginf z Hz) as [H|H]; [|exact H].
    apply (eval_undisc_neginf z Hz), (neginf_spec m pi undisc_wfb undisc_wpb z Hz) in H. congruence.
Qed.

Theorem eval_undisc_absorbing_zero s :
  (s < n)%nat -> absorbing m s = true -> eV o s = Fin 0.
Proof.
  intros Hs Hab. destruct undisc_clauses as (_ & _ & _ & _ & _ & H & _). unfold c_abs0 in H.
  rewrite forallbn_spec in H. specialize (H s Hs). rewrite Hab in H.
  destruct (eV o s); try discriminate. apply neqb_Req in H. now subst.
Qed.

(* 3. action values (non-absorbing states): -inf iff unavailable or some positive-probability
   successor is worth -inf; otherwise reward + expected successor value *)
Theorem eval_undisc_q s a :
  (s < n)%nat -> (a < nA m)%nat -> absorbing m s = false ->
  (eQ o s a = NInf <->
     avail m s a = false \/ exists ns, (ns < n)%nat /\ 0 < P m s a ns /\ eV o ns = NInf) /\
  (forall x, eQ o s a = Fin x ->
     Rabs (x - (sa_reward m s a + sumf n (fun ns => P m s a ns * Vf ns))) <= tolQ t) /\
  (eQ o s a = NInf \/ exists x, eQ o s a = Fin x).
Proof.
  intros Hs Ha Hab. destruct undisc_clauses as (_ & _ & _ & _ & _ & _ & _ & _ & H & _).
  unfold u_q in H. rewrite forallbn_spec in H. specialize (H s Hs). rewrite forallbn_spec in H.
  specialize (H a Ha). rewrite Hab in H.
  assert (Hfut : isninf (qfut m o s a) = true <->
                 exists ns, (ns < n)%nat /\ 0 < P m s a ns /\ eV o ns = NInf).
  { unfold qfut. destruct (existsbn n _) eqn:E.
    - split; [intros _|reflexivity]. apply existsbn_spec in E as (ns & Hns & E).
      apply andb_true_iff in E as [E1 E2]. apply nltb_R in E1. numR.
      exists ns. repeat split; auto. destruct (eV o ns); try discriminate; reflexivity.
    - split; [discriminate|]. intros (ns & Hns & Hp & Hv). exfalso.
      rewrite existsbn_false in E. specialize (E ns Hns). rewrite Hv in E. cbn [isninf] in E.
      rewrite andb_true_r in E. assert (@nltb R NumR n0 (P m s a ns) = true) by (apply nltb_R; numR; auto).
      congruence. }
  destruct (eQ o s a) eqn:E; try discriminate.
  - apply andb_true_iff in H as [Hav H]. simpl in H. split; [|split].
    + split; [discriminate|]. intros [Hc|Hc]; [congruence|].
      apply Hfut in Hc. destruct (qfut m o s a); discriminate.
    + intros x' Hx'. inversion Hx'; subst x'. unfold qfut in H.
      destruct (existsbn n _); [discriminate|]. now apply ncloseb_R in H.
    + right. eauto.
  - simpl in H. rewrite orb_false_r in H. split; [|split].
    + split; [intros _|reflexivity]. apply orb_true_iff in H as [H|H].
      * left. now apply negb_true_iff in H.
      * right. now apply Hfut.
    + discriminate.
    + left. reflexivity.
Qed.

Theorem eval_undisc_q_unavailable s a :
  (s < n)%nat -> (a < nA m)%nat -> avail m s a = false -> eQ o s a = NInf.
Proof.
  intros Hs Ha Hav. destruct undisc_clauses as (_ & _ & _ & _ & _ & _ & _ & _ & H & _).
  unfold u_q in H. rewrite forallbn_spec in H. specialize (H s Hs). rewrite forallbn_spec in H.
  specialize (H a Ha). rewrite Hav in H. destruct (eQ o s a); try discriminate; reflexivity.
Qed.

(* 4. occupancy: +inf exactly at the closed classes reachable from the initial distribution;
   elsewhere the expected-visits system occ = init + occ . P_t *)
Theorem eval_undisc_occupancy z :
  (z < n)%nat ->
  (eOcc o z = PInf <->
     closed_class m pi z /\ exists s, (s < n)%nat /\ 0 < init m s /\ preach m pi s z) /\
  (eOcc o z = PInf \/
   exists x, eOcc o z = Fin x /\
     Rabs (x - (init m z + sumf n (fun s => Of s * Pt m pi A s z))) <= tolO t).
Proof.
  intros Hz. rewrite <- (occinf_spec m pi undisc_wfb undisc_wpb z Hz).
  destruct undisc_clauses as (_ & _ & _ & _ & _ & _ & _ & _ & _ & H & _).
  unfold u_occ in H. rewrite forallbn_spec in H. specialize (H z Hz).
  destruct (occinf m pi A z).
  - destruct (eOcc o z); try discriminate. split; [tauto|left; reflexivity].
  - apply andb_true_iff in H as [H1 H2]. unfold PolicyEval.Of at 1 in H2.
    destruct (eOcc o z) eqn:E; try discriminate. split; [split; discriminate|].
    right. exists x. split; [reflexivity|]. now apply ncloseb_R in H2.
Qed.

(* 5. initial value: -inf iff an initial state of positive probability is worth -inf *)
Theorem eval_undisc_initial_value :
  (eInit o = NInf <-> exists s, (s < n)%nat /\ 0 < init m s /\ eV o s = NInf) /\
  (eInit o = NInf \/
   exists x, eInit o = Fin x /\
     Rabs (x - sumf n (fun s => init m s * Vf s)) <= tolI t /\
     Rabs (x - sumf n (fun s => Of s * rpi m pi s)) <= tolJ t).
Proof.
  destruct undisc_clauses as (_ & _ & _ & _ & _ & _ & _ & _ & _ & _ & H). unfold u_init in H.
  assert (Hex : existsbn n (fun s => @nltb R NumR n0 (init m s) && neginf m pi A s) = true <->
                exists s, (s < n)%nat /\ 0 < init m s /\ eV o s = NInf).
  { rewrite existsbn_spec. split.
    - intros (s & Hs & E). apply andb_true_iff in E as [E1 E2]. apply nltb_R in E1. numR.
      exists s. repeat split; auto. apply (eval_undisc_neginf s Hs).
      now apply (neginf_spec m pi undisc_wfb undisc_wpb s Hs).
    - intros (s & Hs & Hi & Hv). exists s. split; [auto|]. apply andb_true_iff. split.
      + apply nltb_R. numR. auto.
      + apply (neginf_spec m pi undisc_wfb undisc_wpb s Hs). now apply (eval_undisc_neginf s Hs). }
  destruct (existsbn n _) eqn:E.
  - destruct (eInit o); try discriminate. split; [|left; reflexivity].
    split; [intros _; now apply Hex|reflexivity].
  - rewrite !andb_true_iff in H. destruct H as [[H1 H2] H3].
    destruct (eInit o) eqn:E'; try discriminate. split.
    + split; [discriminate|]. intros Hc. apply Hex in Hc. discriminate.
    + right. exists x. split; [reflexivity|]. simpl in H2, H3.
      apply ncloseb_R in H2. apply ncloseb_R in H3. auto.
Qed.

End UndiscChecker.

(* ------------------------------------------------------------------ *)
(* D. the k-step expected total reward (gamma = 1, rewards <= 0):        *)
(*    it decreases in k and, off the -inf set, stays above any           *)
(*    non-positive exact solution of the transient system (lemma used by *)
(*    theory/PolicyEvalLimit.v, which proves convergence and divergence) *)
(* ------------------------------------------------------------------ *)
Section KStep.
Variable m : mdp R.
Variable pi : nat -> nat -> R.
Hypothesis Wfb : wfb m = true.
Hypothesis Wpb : wfpolb m pi = true.
Hypothesis Hnonpos : u_nonpos m = true.

Notation n := (nS m).
Notation rpi := (rpi m pi).
Notation Ppi := (Ppi m pi).
Notation A := (accM m pi).

Fixpoint Vnu (k : nat) : nat -> R :=
  match k with
  | O => fun _ => 0
  | S k' => fun s => rpi s + sumf n (fun z => Ppi s z * Vnu k' z)
  end.

Lemma P_nonneg s a ns : (s < n)%nat -> (a < nA m)%nat -> (ns < n)%nat -> 0 <= P m s a ns.
Proof.
  intros Hs Ha Hns. unfold wfb in Wfb. rewrite !andb_true_iff, forallbn_spec in Wfb.
  destruct Wfb as [_ H]. specialize (H s Hs). apply andb_true_iff in H as [_ H].
  rewrite forallbn_spec in H. specialize (H a Ha). apply andb_true_iff in H as [H _].
  rewrite forallbn_spec in H. apply nleb_Rle. auto.
Qed.
Lemma Ppi_nonneg_u s z : (s < n)%nat -> (z < n)%nat -> 0 <= Ppi s z.
Proof.
  intros Hs Hz. pose proof (wfpolb_wfpol m pi Wpb) as Wp. unfold PolicyEval.Ppi.
  destruct (absorbing m s); [numR; lra|]. apply sumf_nonneg. intros a Ha.
  apply Rmult_le_pos; [apply (wp_nn m pi Wp); auto|apply P_nonneg; auto].
Qed.
Lemma rpi_nonpos s : (s < n)%nat -> rpi s <= 0.
Proof.
  intros Hs. unfold u_nonpos in Hnonpos. rewrite forallbn_spec in Hnonpos.
  pose proof (Hnonpos s Hs) as H. rewrite forallbn_spec in H.
  pose proof (wfpolb_wfpol m pi Wpb) as Wp.
  unfold PolicyEval.rpi. destruct (absorbing m s); [numR; lra|].
  replace 0 with (sumf (nA m) (fun _ => 0)) by (apply sumf_0; auto).
  apply sumf_le. intros a Ha. specialize (H a Ha). apply nleb_Rle in H. numR.
  pose proof (wp_nn m pi Wp s a Hs Ha). nra.
Qed.

Theorem Vnu_decreasing k s : (s < n)%nat -> Vnu (S k) s <= Vnu k s /\ Vnu k s <= 0.
Proof.
  revert s. induction k; intros s Hs.
  - simpl. rewrite sumf_0 by (intros; lra). pose proof (rpi_nonpos s Hs). lra.
  - split.
    + simpl Vnu at 1. change (Vnu (S k) s) with (rpi s + sumf n (fun z => Ppi s z * Vnu k z)).
      apply Rplus_le_compat_l. apply wsum_mono; [intros; apply Ppi_nonneg_u; auto|].
      intros z Hz. apply IHk; auto.
    + destruct (IHk s Hs). lra.
Qed.

Theorem undisc_kstep_lower (V : nat -> R) :
  (forall s, (s < n)%nat -> neginf m pi A s = false -> V s <= 0) ->
  (forall s, (s < n)%nat -> neginf m pi A s = false ->
     V s = rpi s + sumf n (fun z => Pt m pi A s z * V z)) ->
  forall k s, (s < n)%nat -> neginf m pi A s = false -> V s <= Vnu k s /\ Vnu k s <= 0.
Proof.
  intros Hle Hex k s Hs HF. split; [|apply Vnu_decreasing; auto].
  revert s Hs HF. induction k; intros s Hs HF; [simpl; auto|].
  simpl Vnu.
  (* termwise: P s z * V z <= P s z * Vnu k z *)
  assert (Hterm : forall z, (z < n)%nat -> Ppi s z * V z <= Ppi s z * Vnu k z).
  { intros z Hz. pose proof (Ppi_nonneg_u s z Hs Hz) as Hp.
    destruct (Rle_lt_or_eq_dec _ _ Hp) as [Hpos|Hz0]; [|rewrite <- Hz0; lra].
    apply Rmult_le_compat_l; auto. apply IHk; auto.
    apply (neginf_successor m pi Wfb Wpb s z); auto. }
  assert (HW : V s <= rpi s + sumf n (fun z => Ppi s z * V z)).
  { rewrite (Hex s Hs HF) at 1. apply Rplus_le_compat_l. unfold Pt.
    destruct (recurrent m pi A s) eqn:Hrec; [|lra].
    (* recurrent, off the -inf set: the whole class has zero reward and value 0 *)
    rewrite sumf_0 by (intros; numR; lra). apply Req_le. symmetry. apply sumf_0. intros z Hz.
    pose proof (Ppi_nonneg_u s z Hs Hz) as Hp.
    destruct (Rle_lt_or_eq_dec _ _ Hp) as [Hpos|Hz0]; [|rewrite <- Hz0; lra].
    assert (Hrz : recurrent m pi A z = true).
    { apply (recurrent_spec m pi Wfb Wpb z Hz).
      apply (closed_class_member m pi s z); [now apply (recurrent_spec m pi Wfb Wpb s Hs)|].
      apply rt_step. repeat split; auto. now apply edge_spec. }
    assert (HFz : neginf m pi A z = false) by (apply (neginf_successor m pi Wfb Wpb s z); auto).
    assert (Hrz0 : rpi z = 0).
    { pose proof (rpi_nonpos z Hz). destruct (Rlt_dec (rpi z) 0) as [Hlt|]; [|lra].
      assert (neginf m pi A z = true); [|congruence].
      apply (neginf_spec m pi Wfb Wpb z Hz). exists z. split; [apply preach_refl|].
      split; [now apply (recurrent_spec m pi Wfb Wpb z Hz)|exact Hlt]. }
    rewrite (Hex z Hz HFz). unfold Pt. rewrite Hrz, Hrz0.
    rewrite sumf_0 by (intros; numR; lra). lra. }
  eapply Rle_trans; [exact HW|]. apply Rplus_le_compat_l. apply sumf_le. exact Hterm.
Qed.

End KStep.
