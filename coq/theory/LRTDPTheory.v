(* LRTDPTheory.v — C04: soundness of the LRTDP result certificate (model/LRTDP.v:c04_check)
   at the R instance, for every finite MDP of any size, discounted or not.

   One argument carries everything: a weighted maximum principle.  If w >= 0 satisfies
   1 + K w <= w on a K-closed set S (K a non-negative kernel), then  D <= K D on S  implies
   D <= 0 on S.  With K = gamma * P_a restricted to non-absorbing successors and w = "expected
   number of steps" this gives, without assuming gamma < 1:
     * |V - V^pi| <= eps * N          (residual eps of the greedy action on the labelled set)
     * V^pi <= V*                     (any policy value is below any optimality fixed point)
     * uniqueness of the optimality fixed point when every policy is proper (weights W). *)
From Coq Require Import Reals Lra Lia List Arith Bool.
From MSDM Require Import base.Num base.NumInst base.NumR model.MDP model.LRTDP theory.Bellman.
Import ListNotations.
Local Open Scope R_scope.

Lemma neqb_Req' x y : @neqb R NumR x y = true <-> x = y.
Proof.
  unfold neqb; numR. rewrite andb_true_iff, !Rleb_true. split; [lra|intros ->; lra].
Qed.
Lemma nleb_Rle' x y : @nleb R NumR x y = true <-> x <= y.
Proof. numR. apply Rleb_true. Qed.
Lemma existsb_seq' n p : existsb p (seq 0 n) = true <-> exists i, (i < n)%nat /\ p i = true.
Proof.
  rewrite existsb_exists. split.
  - intros (i & Hi & Hp). apply in_seq in Hi. exists i; split; [lia|auto].
  - intros (i & Hi & Hp). exists i; split; [apply in_seq; lia|auto].
Qed.

(* ------------------------------------------------------------------ *)
(* weighted maximum principle                                          *)
(* ------------------------------------------------------------------ *)
Lemma weighted_max_principle n (inS : nat -> bool) (w D : nat -> R) :
  (forall s, (s < n)%nat -> 0 <= w s) ->
  (forall s, (s < n)%nat -> inS s = true ->
     exists k : nat -> R,
       (forall ns, (ns < n)%nat -> 0 <= k ns) /\
       (forall ns, (ns < n)%nat -> 0 < k ns -> inS ns = true) /\
       1 + sumf n (fun ns => k ns * w ns) <= w s /\
       D s <= sumf n (fun ns => k ns * D ns)) ->
  forall s, (s < n)%nat -> inS s = true -> D s <= 0.
Proof.
  intros Hw H.
  assert (Hw1 : forall s, (s < n)%nat -> inS s = true -> 1 <= w s).
  { intros s Hs Hin. destruct (H s Hs Hin) as (k & Hk & _ & Hkw & _).
    assert (0 <= sumf n (fun ns => k ns * w ns))
      by (apply sumf_nonneg; intros; apply Rmult_le_pos; auto).
    lra. }
  set (f := fun s => if inS s then D s / w s else 0).
  destruct (finite_sup n (fun s => Rmax 0 (f s))) as (c & Hc0 & Hcle & Hcat).
  assert (Hf : forall s, (s < n)%nat -> f s <= c).
  { intros s Hs. specialize (Hcle s Hs). cbv beta in Hcle.
    rewrite Rabs_right in Hcle by (apply Rle_ge, Rmax_l).
    eapply Rle_trans; [apply Rmax_r|exact Hcle]. }
  assert (HD : forall s, (s < n)%nat -> inS s = true -> D s <= c * w s).
  { intros s Hs Hin. specialize (Hf s Hs). unfold f in Hf. rewrite Hin in Hf.
    pose proof (Hw1 s Hs Hin) as Hws.
    apply Rmult_le_compat_r with (r := w s) in Hf; [|lra].
    unfold Rdiv in Hf. rewrite Rmult_assoc, Rinv_l in Hf; lra. }
  assert (Hcz : c = 0).
  { destruct Hcat as [|(i & Hi & He)]; [auto|]. cbv beta in He.
    rewrite Rabs_right in He by (apply Rle_ge, Rmax_l).
    destruct (Rle_dec (f i) 0) as [Hle|Hgt].
    { rewrite Rmax_left in He; lra. }
    rewrite Rmax_right in He by lra.
    unfold f in He, Hgt. destruct (inS i) eqn:Hin; [|lra].
    pose proof (Hw1 i Hi Hin) as Hwi.
    assert (HDi : D i = c * w i). { rewrite <- He. field. lra. }
    destruct (H i Hi Hin) as (k & Hk & Hcl & Hkw & HkD).
    assert (Hs : sumf n (fun ns => k ns * D ns) <= sumf n (fun ns => k ns * (c * w ns))).
    { apply sumf_le. intros ns Hns.
      destruct (Rle_lt_or_eq_dec 0 (k ns) (Hk ns Hns)) as [Hp|Hz].
      - apply Rmult_le_compat_l; [lra|]. apply HD; auto.
      - rewrite <- Hz. lra. }
    assert (Hs2 : sumf n (fun ns => k ns * (c * w ns)) = c * sumf n (fun ns => k ns * w ns)).
    { rewrite <- sumf_scal. apply sumf_ext. intros; lra. }
    assert (Hcp : 0 < c) by lra.
    assert (0 <= c * (w i - 1 - sumf n (fun ns => k ns * w ns)))
      by (apply Rmult_le_pos; lra).
    lra. }
  intros s Hs Hin. specialize (HD s Hs Hin). rewrite Hcz in HD. lra.
Qed.

(* ------------------------------------------------------------------ *)
(* LRTDP's look-ahead at the R instance                                *)
(* ------------------------------------------------------------------ *)
Section Theory.
Variable m : mdp R.

Record lrwf : Prop := {
  lw_g0 : 0 <= gamma m;
  lw_g1 : gamma m <= 1;
  lw_P : forall s a ns, (s < nS m)%nat -> (a < nA m)%nat -> (ns < nS m)%nat -> 0 <= P m s a ns;
  lw_act : forall s, (s < nS m)%nat -> exists a, (a < nA m)%nat /\ avail m s a = true;
  lw_init : forall s, (s < nS m)%nat -> 0 <= init m s;
  lw_init1 : sumf (nS m) (init m) = 1
}.

(* gamma * P restricted to non-absorbing successors *)
Definition kern (s a ns : nat) : R := gamma m * (if absflag m ns then 0 else P m s a ns).

Lemma zabs_R V s : zabs m V s = if absflag m s then 0 else V s.
Proof. reflexivity. Qed.

Lemma Qlr_R V s a :
  Qlr m V s a =
  if absflag m s then 0
  else sumf (nS m) (fun ns => P m s a ns * (Rw m s a ns + gamma m * zabs m V ns)).
Proof. reflexivity. Qed.

Lemma Qlr_abs V s a : absflag m s = true -> Qlr m V s a = 0.
Proof. intros H. rewrite Qlr_R, H. reflexivity. Qed.

Lemma Qlr_diff V W s a :
  absflag m s = false ->
  Qlr m V s a - Qlr m W s a = sumf (nS m) (fun ns => kern s a ns * (V ns - W ns)).
Proof.
  intros H. rewrite !Qlr_R, H, <- sumf_minus. apply sumf_ext. intros ns _.
  unfold kern. rewrite !zabs_R. destruct (absflag m ns); lra.
Qed.

Lemma kern_nonneg s a ns :
  lrwf -> (s < nS m)%nat -> (a < nA m)%nat -> (ns < nS m)%nat -> 0 <= kern s a ns.
Proof.
  intros W Hs Ha Hns. unfold kern. apply Rmult_le_pos; [apply (lw_g0 W)|].
  destruct (absflag m ns); [lra|apply (lw_P W); auto].
Qed.

Lemma kern_pos s a ns :
  lrwf -> (s < nS m)%nat -> (a < nA m)%nat -> (ns < nS m)%nat -> 0 < kern s a ns ->
  absflag m ns = false /\ 0 < P m s a ns.
Proof.
  intros W Hs Ha Hns H. unfold kern in H. destruct (absflag m ns).
  - rewrite Rmult_0_r in H. lra.
  - split; [reflexivity|]. pose proof (lw_P W s a ns Hs Ha Hns). pose proof (lw_g0 W).
    destruct (Rle_lt_or_eq_dec 0 _ H0) as [|E]; [auto|]. rewrite <- E, Rmult_0_r in H. lra.
Qed.

Lemma kern_w s a (w : nat -> R) :
  gamma m * sumf (nS m) (fun ns => P m s a ns * zabs m w ns)
  = sumf (nS m) (fun ns => kern s a ns * w ns).
Proof.
  rewrite <- sumf_scal. apply sumf_ext. intros ns _. unfold kern. rewrite zabs_R.
  destruct (absflag m ns); lra.
Qed.

Lemma Qlr_mono V W s a :
  lrwf -> (s < nS m)%nat -> (a < nA m)%nat ->
  (forall ns, (ns < nS m)%nat -> absflag m ns = false -> V ns <= W ns) ->
  Qlr m V s a <= Qlr m W s a.
Proof.
  intros Wf Hs Ha H. destruct (absflag m s) eqn:E.
  - rewrite !Qlr_abs; auto; lra.
  - cut (Qlr m V s a - Qlr m W s a <= 0); [lra|]. rewrite Qlr_diff; auto.
    replace 0 with (sumf (nS m) (fun _ => 0)) by (apply sumf_0; auto).
    apply sumf_le. intros ns Hns. pose proof (kern_nonneg s a ns Wf Hs Ha Hns) as Hk.
    unfold kern in *. destruct (absflag m ns) eqn:En.
    + rewrite Rmult_0_r. lra.
    + specialize (H ns Hns En). nra.
Qed.

(* two look-aheads agree when the values agree on the positive-probability non-absorbing successors *)
Lemma Qlr_ext V W s a :
  (forall ns, (ns < nS m)%nat -> absflag m ns = false -> P m s a ns <> 0 -> V ns = W ns) ->
  Qlr m V s a = Qlr m W s a.
Proof.
  intros H. rewrite !Qlr_R. destruct (absflag m s); [reflexivity|].
  apply sumf_ext. intros ns Hns. rewrite !zabs_R. destruct (absflag m ns) eqn:E; [reflexivity|].
  destruct (Req_dec (P m s a ns) 0) as [Z|NZ]; [rewrite Z; lra|].
  rewrite (H ns Hns E NZ). reflexivity.
Qed.

Lemma Blr_some V s : lrwf -> (s < nS m)%nat -> exists b, Blr m V s = Some b.
Proof.
  intros W Hs. destruct (lw_act W s Hs) as (a & Ha & Hav).
  apply (maxf_some_ex (nA m) (avail m s) (Qlr m V s) a Ha Hav).
Qed.

Lemma Blr_mono V W s bv bw :
  lrwf -> (s < nS m)%nat -> Blr m V s = Some bv -> Blr m W s = Some bw ->
  (forall ns, (ns < nS m)%nat -> absflag m ns = false -> V ns <= W ns) -> bv <= bw.
Proof.
  intros Wf Hs Hv Hw H. eapply (maxf_mono (nA m) (avail m s)); eauto.
  intros a Ha _. apply Qlr_mono; auto.
Qed.

(* optimality equations off the absorbing set *)
Definition optfix (Vs : nat -> R) : Prop :=
  forall s, (s < nS m)%nat -> absflag m s = false -> Blr m Vs s = Some (Vs s).

(* all-policy properness weights *)
Definition proper_weights (W : nat -> R) : Prop :=
  (forall s, (s < nS m)%nat -> 0 <= W s) /\
  (forall s a, (s < nS m)%nat -> (a < nA m)%nat -> absflag m s = false -> avail m s a = true ->
     1 + gamma m * sumf (nS m) (fun ns => P m s a ns * zabs m W ns) <= W s).

(* the workhorse: A is an e1-subsolution and B an e2-supersolution along one action per state
   of a closed set that carries step-count weights *)
Lemma lin_gap (inS : nat -> bool) (A B w : nat -> R) e1 e2 :
  lrwf -> 0 <= e1 + e2 ->
  (forall s, (s < nS m)%nat -> 0 <= w s) ->
  (forall s, (s < nS m)%nat -> inS s = true ->
     absflag m s = false /\
     exists a, (a < nA m)%nat /\
       (forall ns, (ns < nS m)%nat -> 0 < P m s a ns -> absflag m ns = false -> inS ns = true) /\
       1 + gamma m * sumf (nS m) (fun ns => P m s a ns * zabs m w ns) <= w s /\
       A s <= Qlr m A s a + e1 /\ Qlr m B s a <= B s + e2) ->
  forall s, (s < nS m)%nat -> inS s = true -> A s - B s <= (e1 + e2) * w s.
Proof.
  intros Wf He Hw H s Hs Hin.
  cut (A s - B s - (e1 + e2) * w s <= 0); [lra|].
  apply (weighted_max_principle (nS m) inS w (fun s => A s - B s - (e1 + e2) * w s)); auto.
  clear s Hs Hin. intros s Hs Hin.
  destruct (H s Hs Hin) as (Hab & a & Ha & Hcl & Hwt & HA & HB).
  exists (kern s a). split; [|split; [|split]].
  - intros ns Hns. apply kern_nonneg; auto.
  - intros ns Hns Hk. destruct (kern_pos s a ns Wf Hs Ha Hns Hk) as (Hn & Hp). auto.
  - rewrite <- kern_w. exact Hwt.
  - pose proof (Qlr_diff A B s a Hab) as Hd.
    assert (E : sumf (nS m) (fun ns => kern s a ns * (A ns - B ns - (e1 + e2) * w ns))
                = sumf (nS m) (fun ns => kern s a ns * (A ns - B ns))
                  - (e1 + e2) * sumf (nS m) (fun ns => kern s a ns * w ns)).
    { rewrite <- sumf_scal, <- sumf_minus. apply sumf_ext. intros; lra. }
    rewrite E, <- Hd. rewrite kern_w in Hwt.
    assert (0 <= (e1 + e2) * (w s - 1 - sumf (nS m) (fun ns => kern s a ns * w ns)))
      by (apply Rmult_le_pos; lra).
    lra.
Qed.

(* any optimality fixed point dominates ... and is dominated: uniqueness for proper MDPs *)
Theorem optfix_unique W V1 V2 :
  lrwf -> proper_weights W -> optfix V1 -> optfix V2 ->
  forall s, (s < nS m)%nat -> absflag m s = false -> V1 s = V2 s.
Proof.
  intros Wf (HW0 & HW) H1 H2.
  assert (G : forall A B, optfix A -> optfix B ->
              forall s, (s < nS m)%nat -> absflag m s = false -> A s - B s <= 0).
  { intros A B HA HB s Hs Hab.
    replace 0 with ((0 + 0) * W s) by lra.
    apply (lin_gap (fun s => negb (absflag m s)) A B W 0 0); auto; [lra| |now rewrite Hab].
    clear s Hs Hab. intros s Hs Hin. apply negb_true_iff in Hin. split; [exact Hin|].
    destruct (maxf_attained _ _ _ _ (HA s Hs Hin)) as (a & Ha & Hav & Hq).
    exists a. split; [exact Ha|]. split; [|split; [|split]].
    - intros ns _ _ E. now rewrite E.
    - apply HW; auto.
    - rewrite Hq. lra.
    - pose proof (maxf_ge _ _ _ _ _ (HB s Hs Hin) Ha Hav). lra. }
  intros s Hs Hab. pose proof (G V1 V2 H1 H2 s Hs Hab). pose proof (G V2 V1 H2 H1 s Hs Hab). lra.
Qed.

(* discounted MDPs are always proper: constant weights 1/(1-gamma) *)
Lemma discounted_weights :
  lrwf -> gamma m < 1 ->
  (forall s a, (s < nS m)%nat -> (a < nA m)%nat -> avail m s a = true -> sumf (nS m) (P m s a) <= 1) ->
  proper_weights (fun _ => / (1 - gamma m)).
Proof.
  intros Wf G Hsub. pose proof (lw_g0 Wf) as G0.
  assert (Hpos : 0 < / (1 - gamma m)) by (apply Rinv_0_lt_compat; lra).
  split; [intros; lra|]. intros s a Hs Ha Hab Hav.
  assert (Hle : sumf (nS m) (fun ns => P m s a ns * zabs m (fun _ => / (1 - gamma m)) ns)
                <= sumf (nS m) (fun ns => P m s a ns * / (1 - gamma m))).
  { apply sumf_le. intros ns Hns. rewrite zabs_R. pose proof (lw_P Wf s a ns Hs Ha Hns).
    destruct (absflag m ns); nra. }
  rewrite sumf_scal_r in Hle. specialize (Hsub s a Hs Ha Hav).
  assert (H1 : sumf (nS m) (P m s a) * / (1 - gamma m) <= 1 * / (1 - gamma m))
    by (apply Rmult_le_compat_r; lra).
  assert (H2 : gamma m * sumf (nS m) (fun ns => P m s a ns * zabs m (fun _ => / (1 - gamma m)) ns)
               <= gamma m * / (1 - gamma m)) by (apply Rmult_le_compat_l; lra).
  assert (E : 1 + gamma m * / (1 - gamma m) = / (1 - gamma m)) by (field; lra).
  lra.
Qed.

(* ------------------------------------------------------------------ *)
(* soundness of the certificate clauses                                *)
(* ------------------------------------------------------------------ *)
Section Cert.
Variable o : @lrout R.
Variable c : @lrcert R.
Variable t : @lrtols R.

Lemma lr_wfb_wf : lr_wfb m = true -> lrwf.
Proof.
  unfold lr_wfb. rewrite !andb_true_iff, forallbn_spec. intros [[[G0 G1] I1] H].
  apply nleb_Rle' in G0. apply nleb_Rle' in G1. apply neqb_Req' in I1.
  constructor; auto.
  - intros s a ns Hs Ha Hns. specialize (H s Hs). rewrite !andb_true_iff in H.
    destruct H as [_ H]. rewrite forallbn_spec in H. specialize (H a Ha).
    apply andb_true_iff in H as [H _]. rewrite forallbn_spec in H. apply nleb_Rle'. auto.
  - intros s Hs. specialize (H s Hs). rewrite !andb_true_iff in H. destruct H as [[H _] _].
    apply existsb_seq' in H. exact H.
  - intros s Hs. specialize (H s Hs). rewrite !andb_true_iff in H. destruct H as [[_ H] _].
    now apply nleb_Rle'.
Qed.

Lemma lr_wfb_rows :
  lr_wfb m = true ->
  forall s a, (s < nS m)%nat -> (a < nA m)%nat -> avail m s a = true -> sumf (nS m) (P m s a) = 1.
Proof.
  unfold lr_wfb. rewrite !andb_true_iff, forallbn_spec. intros [_ H] s a Hs Ha Hav.
  specialize (H s Hs). rewrite !andb_true_iff in H. destruct H as [_ H].
  rewrite forallbn_spec in H. specialize (H a Ha). apply andb_true_iff in H as [_ H].
  rewrite Hav in H. now apply neqb_Req' in H.
Qed.

Lemma live_spec s : live m o s = true <-> lsolved o s = true /\ absflag m s = false.
Proof. unfold live. rewrite andb_true_iff, negb_true_iff. tauto. Qed.

Lemma c_solved_spec s :
  c_solved m o t = true -> (s < nS m)%nat -> live m o s = true ->
  (lpi o s < nA m)%nat /\ avail m s (lpi o s) = true /\
  Rabs (lV o s - Qlr m (lV o) s (lpi o s)) <= teps t /\
  (forall ns, (ns < nS m)%nat -> 0 < P m s (lpi o s) ns -> lsolved o ns = true).
Proof.
  unfold c_solved. rewrite forallbn_spec. intros H Hs Hl. specialize (H s Hs). rewrite Hl in H.
  rewrite !andb_true_iff in H. destruct H as [[[H1 H2] H3] H4].
  apply Nat.ltb_lt in H1. apply ncloseb_R in H3. rewrite forallbn_spec in H4.
  repeat split; auto. intros ns Hns Hp. specialize (H4 ns Hns).
  assert (E : @nltb R NumR n0 (P m s (lpi o s) ns) = true) by (apply nltb_R; exact Hp).
  now rewrite E in H4.
Qed.

Lemma c_N_spec s :
  c_N m o c = true -> (s < nS m)%nat ->
  0 <= cN c s /\
  (live m o s = true ->
   1 + gamma m * sumf (nS m) (fun ns => P m s (lpi o s) ns * zabs m (cN c) ns) <= cN c s).
Proof.
  unfold c_N. rewrite forallbn_spec. intros H Hs. specialize (H s Hs).
  apply andb_true_iff in H as [H1 H2]. apply nleb_Rle' in H1. split; [auto|].
  intros Hl. rewrite Hl in H2. now apply nleb_Rle' in H2.
Qed.

Lemma c_vpi_spec s :
  c_vpi m o c = true -> (s < nS m)%nat -> live m o s = true ->
  cVpi c s = Qlr m (cVpi c) s (lpi o s).
Proof.
  unfold c_vpi. rewrite forallbn_spec. intros H Hs Hl. specialize (H s Hs). rewrite Hl in H.
  now apply neqb_Req' in H.
Qed.

Lemma c_vstar_optfix : c_vstar m c = true -> optfix (cVs c).
Proof.
  unfold c_vstar. rewrite forallbn_spec. intros H s Hs Hab. specialize (H s Hs). rewrite Hab in H.
  destruct (Blr m (cVs c) s); [|discriminate]. apply neqb_Req' in H. now subst.
Qed.

Lemma c_w_weights : c_w m c = true -> proper_weights (cW c).
Proof.
  unfold c_w. rewrite forallbn_spec. intros H. split.
  - intros s Hs. specialize (H s Hs). apply andb_true_iff in H as [H _]. now apply nleb_Rle'.
  - intros s a Hs Ha Hab Hav. specialize (H s Hs). apply andb_true_iff in H as [_ H].
    rewrite Hab, forallbn_spec in H. specialize (H a Ha). rewrite Hav in H. now apply nleb_Rle'.
Qed.

Lemma c_upper_spec s :
  c_upper m o c t = true -> (s < nS m)%nat -> absflag m s = false -> cVs c s - tu t <= lV o s.
Proof.
  unfold c_upper. rewrite forallbn_spec. intros H Hs Hab. specialize (H s Hs). rewrite Hab in H.
  now apply nleb_Rle' in H.
Qed.

(* closure of the labelled non-absorbing states under the greedy action *)
Lemma live_closed s ns :
  c_solved m o t = true -> (s < nS m)%nat -> live m o s = true -> (ns < nS m)%nat ->
  0 < P m s (lpi o s) ns -> absflag m ns = false -> live m o ns = true.
Proof.
  intros H Hs Hl Hns Hp Hab. destruct (c_solved_spec s H Hs Hl) as (_ & _ & _ & Hc).
  apply live_spec. split; auto.
Qed.

(* ---- 1. |V - V^pi| <= eps * N on the labelled states ---- *)
Theorem cert_policy_gap :
  lrwf -> 0 <= teps t -> c_solved m o t = true -> c_N m o c = true -> c_vpi m o c = true ->
  forall s, (s < nS m)%nat -> live m o s = true ->
    Rabs (lV o s - cVpi c s) <= teps t * cN c s.
Proof.
  intros Wf He Hsol HN Hvp s Hs Hl. apply Rabs_le. split.
  - cut (cVpi c s - lV o s <= (0 + teps t) * cN c s); [lra|].
    apply (lin_gap (live m o) (cVpi c) (lV o) (cN c) 0 (teps t)); auto; [lra| |].
    + intros s' Hs'. apply (c_N_spec s' HN Hs').
    + clear s Hs Hl. intros s Hs Hl. destruct (proj1 (live_spec s) Hl) as (_ & Hab).
      split; [exact Hab|]. destruct (c_solved_spec s Hsol Hs Hl) as (Ha & Hav & Hres & Hcl).
      exists (lpi o s). split; [exact Ha|]. split; [|split; [|split]].
      * intros ns Hns Hp Hn. apply (live_closed s ns Hsol Hs Hl Hns Hp Hn).
      * apply (c_N_spec s HN Hs); auto.
      * rewrite <- (c_vpi_spec s Hvp Hs Hl). lra.
      * apply Rabs_le_inv' in Hres. lra.
  - cut (lV o s - cVpi c s <= (teps t + 0) * cN c s); [lra|].
    apply (lin_gap (live m o) (lV o) (cVpi c) (cN c) (teps t) 0); auto; [lra| |].
    + intros s' Hs'. apply (c_N_spec s' HN Hs').
    + clear s Hs Hl. intros s Hs Hl. destruct (proj1 (live_spec s) Hl) as (_ & Hab).
      split; [exact Hab|]. destruct (c_solved_spec s Hsol Hs Hl) as (Ha & Hav & Hres & Hcl).
      exists (lpi o s). split; [exact Ha|]. split; [|split; [|split]].
      * intros ns Hns Hp Hn. apply (live_closed s ns Hsol Hs Hl Hns Hp Hn).
      * apply (c_N_spec s HN Hs); auto.
      * apply Rabs_le_inv' in Hres. lra.
      * rewrite <- (c_vpi_spec s Hvp Hs Hl). lra.
Qed.

(* ---- 2. the greedy policy's value never exceeds an optimality fixed point ---- *)
Theorem cert_policy_le_opt Vs :
  lrwf -> optfix Vs -> c_solved m o t = true -> c_N m o c = true -> c_vpi m o c = true ->
  forall s, (s < nS m)%nat -> live m o s = true -> cVpi c s <= Vs s.
Proof.
  intros Wf Hfix Hsol HN Hvp s Hs Hl.
  cut (cVpi c s - Vs s <= (0 + 0) * cN c s); [lra|].
  apply (lin_gap (live m o) (cVpi c) Vs (cN c) 0 0); auto; [lra| |].
  - intros s' Hs'. apply (c_N_spec s' HN Hs').
  - clear s Hs Hl. intros s Hs Hl. destruct (proj1 (live_spec s) Hl) as (_ & Hab).
    split; [exact Hab|]. destruct (c_solved_spec s Hsol Hs Hl) as (Ha & Hav & Hres & Hcl).
    exists (lpi o s). split; [exact Ha|]. split; [|split; [|split]].
    + intros ns Hns Hp Hn. apply (live_closed s ns Hsol Hs Hl Hns Hp Hn).
    + apply (c_N_spec s HN Hs); auto.
    + rewrite <- (c_vpi_spec s Hvp Hs Hl). lra.
    + pose proof (maxf_ge _ _ _ _ _ (Hfix s Hs Hab) Ha Hav). lra.
Qed.

(* ---- 3. per-state statement of the property ---- *)
Theorem cert_bound_state :
  lrwf -> 0 <= teps t ->
  c_solved m o t = true -> c_N m o c = true -> c_vpi m o c = true ->
  c_vstar m c = true -> c_upper m o c t = true ->
  forall s, (s < nS m)%nat -> live m o s = true ->
    - tu t <= lV o s - cVs c s <= teps t * cN c s /\
    0 <= cVs c s - cVpi c s <= teps t * cN c s + tu t.
Proof.
  intros Wf He Hsol HN Hvp Hvs Hup s Hs Hl.
  destruct (proj1 (live_spec s) Hl) as (_ & Hab).
  pose proof (cert_policy_gap Wf He Hsol HN Hvp s Hs Hl) as Hg. apply Rabs_le_inv' in Hg.
  pose proof (cert_policy_le_opt (cVs c) Wf (c_vstar_optfix Hvs) Hsol HN Hvp s Hs Hl) as Hle.
  pose proof (c_upper_spec s Hup Hs Hab) as Hu. lra.
Qed.

(* ---- 4. the same from the initial distribution ---- *)
Definition Einit (f : nat -> R) : R := sumf (nS m) (fun s => init m s * zabs m f s).

Lemma c_initsolved_spec s :
  c_initsolved m o = true -> (s < nS m)%nat -> 0 < init m s -> lsolved o s = true.
Proof.
  unfold c_initsolved. rewrite forallbn_spec. intros H Hs Hp. specialize (H s Hs).
  assert (E : @nltb R NumR n0 (init m s) = true) by (apply nltb_R; exact Hp).
  now rewrite E in H.
Qed.

Lemma Einit_le (f g : nat -> R) :
  lrwf -> c_initsolved m o = true ->
  (forall s, (s < nS m)%nat -> live m o s = true -> f s <= g s) -> Einit f <= Einit g.
Proof.
  intros Wf Hi H. unfold Einit. apply sumf_le. intros s Hs. rewrite !zabs_R.
  pose proof (lw_init Wf s Hs) as H0. destruct (absflag m s) eqn:Hab; [lra|].
  destruct (Rle_lt_or_eq_dec 0 _ H0) as [Hp|Hz].
  - apply Rmult_le_compat_l; [lra|]. apply H; auto. apply live_spec. split; auto.
    apply c_initsolved_spec; auto.
  - rewrite <- Hz. lra.
Qed.

Lemma Einit_const_le (f : nat -> R) k :
  lrwf -> 0 <= k -> (forall s, (s < nS m)%nat -> absflag m s = false -> f s <= k) -> Einit f <= k.
Proof.
  intros Wf Hk H. unfold Einit.
  eapply Rle_trans; [apply (sumf_le _ _ (fun s => init m s * k))|].
  - intros s Hs. rewrite zabs_R. pose proof (lw_init Wf s Hs).
    destruct (absflag m s) eqn:E; [nra|]. apply Rmult_le_compat_l; auto.
  - rewrite sumf_scal_r, (lw_init1 Wf). lra.
Qed.

Lemma Einit_lin (f g : nat -> R) a b :
  Einit (fun s => a * f s + b * g s) = a * Einit f + b * Einit g.
Proof.
  unfold Einit. rewrite <- !sumf_scal, <- sumf_plus. apply sumf_ext. intros s _.
  rewrite !zabs_R. destruct (absflag m s); lra.
Qed.

Theorem cert_bound_initial :
  lrwf -> 0 <= teps t -> 0 <= tu t ->
  c_initsolved m o = true ->
  c_solved m o t = true -> c_N m o c = true -> c_vpi m o c = true ->
  c_vstar m c = true -> c_upper m o c t = true ->
    - tu t <= Einit (lV o) - Einit (cVs c) <= teps t * Einit (cN c) /\
    0 <= Einit (cVs c) - Einit (cVpi c) <= teps t * Einit (cN c) + tu t.
Proof.
  intros Wf He Hu0 Hi Hsol HN Hvp Hvs Hup.
  pose proof (cert_bound_state Wf He Hsol HN Hvp Hvs Hup) as Hb.
  assert (E1 : Einit (cVs c) - Einit (lV o) <= tu t).
  { replace (Einit (cVs c) - Einit (lV o))
      with (Einit (fun s => 1 * cVs c s + (-1) * lV o s)) by (rewrite Einit_lin; lra).
    apply Einit_const_le; auto. intros s Hs Hab.
    pose proof (c_upper_spec s Hup Hs Hab). lra. }
  assert (E2 : Einit (lV o) <= Einit (fun s => 1 * cVs c s + teps t * cN c s)).
  { apply Einit_le; auto. intros s Hs Hl. destruct (Hb s Hs Hl) as ((_ & H) & _). lra. }
  assert (E3 : Einit (cVpi c) <= Einit (cVs c)).
  { apply Einit_le; auto. intros s Hs Hl. destruct (Hb s Hs Hl) as (_ & (H & _)). lra. }
  assert (E4 : Einit (lV o) <= Einit (fun s => 1 * cVpi c s + teps t * cN c s)).
  { apply Einit_le; auto. intros s Hs Hl.
    pose proof (cert_policy_gap Wf He Hsol HN Hvp s Hs Hl) as Hg. apply Rabs_le_inv' in Hg. lra. }
  rewrite Einit_lin in E2, E4. lra.
Qed.

(* ---- 5. reported initial value, absorbing states, reported Q, residual, returned policy ---- *)
Theorem cert_initial_value :
  c_init m o t = true -> Rabs (linit o - Einit (lV o)) <= ti t.
Proof. unfold c_init. intros H. now apply ncloseb_R in H. Qed.

Theorem cert_absorbing_zero s a :
  c_abs m o = true -> (s < nS m)%nat -> (a < nA m)%nat -> absflag m s = true ->
  (forall V, zabs m V s = 0 /\ Qlr m V s a = 0) /\
  (ltouched o s = true -> lV o s = 0 /\ (forall x, lQ o s a = Some x -> x = 0)).
Proof.
  intros H Hs Ha Hab. split.
  - intros V. rewrite zabs_R, Hab. split; [reflexivity|apply Qlr_abs; auto].
  - intros Ht. unfold c_abs in H. rewrite forallbn_spec in H. specialize (H s Hs).
    rewrite Hab, Ht in H. simpl in H. apply andb_true_iff in H as [H1 H2].
    apply neqb_Req' in H1. split; [exact H1|]. intros x Hx. rewrite forallbn_spec in H2.
    specialize (H2 a Ha). rewrite Hx in H2. now apply neqb_Req' in H2.
Qed.

Theorem cert_reported_q s a x :
  c_q m o t = true -> (s < nS m)%nat -> (a < nA m)%nat -> ltouched o s = true ->
  lQ o s a = Some x -> avail m s a = true /\ Rabs (x - Qlr m (lV o) s a) <= tq t.
Proof.
  unfold c_q. rewrite forallbn_spec. intros H Hs Ha Ht Hx. specialize (H s Hs). rewrite Ht in H.
  rewrite forallbn_spec in H. specialize (H a Ha). rewrite Hx in H.
  apply andb_true_iff in H as [H1 H2]. apply ncloseb_R in H2. auto.
Qed.

(* Bellman residual (w.r.t. the max) of the final values on the labelled states *)
Theorem cert_residual s b :
  lrwf -> c_solved m o t = true -> c_greedy m o t = true ->
  (s < nS m)%nat -> live m o s = true -> Blr m (lV o) s = Some b ->
  Rabs (lV o s - b) <= teps t + tgre t /\ Qlr m (lV o) s (lpi o s) <= b.
Proof.
  intros Wf Hsol Hg Hs Hl Hb. destruct (c_solved_spec s Hsol Hs Hl) as (Ha & Hav & Hres & _).
  unfold c_greedy in Hg. rewrite forallbn_spec in Hg. specialize (Hg s Hs). rewrite Hl in Hg.
  rewrite forallbn_spec in Hg.
  pose proof (maxf_ge _ _ _ _ _ Hb Ha Hav) as Hge.
  destruct (maxf_attained _ _ _ _ Hb) as (a & Haa & Hava & Hq).
  specialize (Hg a Haa). rewrite Hava in Hg. apply nleb_Rle' in Hg. numR.
  apply Rabs_le_inv' in Hres. split; [|exact Hge]. apply Rabs_le. lra.
Qed.

Theorem cert_returned_policy s a :
  c_ret m o = true -> (s < nS m)%nat -> (a < nA m)%nat -> live m o s = true ->
  lret o s a = if (a =? lpi o s)%nat then 1 else 0.
Proof.
  unfold c_ret. rewrite forallbn_spec. intros H Hs Ha Hl. specialize (H s Hs). rewrite Hl in H.
  rewrite forallbn_spec in H. specialize (H a Ha). now apply neqb_Req' in H.
Qed.

End Cert.
End Theory.
