(* POMDPTheory.v — C07: the belief filter of model/POMDP.v is Bayes' rule and the derived belief MDP
   is consistent.  R instance; every statement is for arbitrary nS, nA, nO. *)
From Coq Require Import Reals Lra Lia List Arith Bool.
From MSDM Require Import base.Num base.NumInst base.NumR model.MDP model.POMDP.
Import ListNotations.
Local Open Scope R_scope.

(* ---------- booleans of the R instance ---------- *)
Lemma npos_R x : @npos R NumR x = true <-> 0 < x.
Proof. unfold npos. apply nltb_R. Qed.
Lemma npos_R_false x : @npos R NumR x = false <-> x <= 0.
Proof.
  split; intros H.
  - destruct (Rle_dec x 0); [auto|]. assert (0 < x) by lra. apply npos_R in H0. congruence.
  - destruct (npos x) eqn:E; [|reflexivity]. apply npos_R in E. lra.
Qed.
Lemma neqb_R x y : @neqb R NumR x y = true <-> x = y.
Proof. unfold neqb; numR. rewrite andb_true_iff, !Rleb_true. split; [lra|intros ->; lra]. Qed.
Lemma nzero_R x : @nzero R NumR x = true <-> x = 0.
Proof. unfold nzero. apply neqb_R. Qed.
Lemma nzero_R_false x : @nzero R NumR x = false <-> x <> 0.
Proof.
  split; intros H.
  - intros E. apply nzero_R in E. congruence.
  - destruct (nzero x) eqn:E; [|reflexivity]. apply nzero_R in E. contradiction.
Qed.
Lemma nleb_R x y : @nleb R NumR x y = true <-> x <= y.
Proof. numR. apply Rleb_true. Qed.

(* ---------- finite sums ---------- *)
Lemma sumf_nonneg_zero n (f : nat -> R) :
  (forall i, (i < n)%nat -> 0 <= f i) -> sumf n f = 0 -> forall i, (i < n)%nat -> f i = 0.
Proof.
  induction n; intros Hf Hs i Hi; [lia|]. rewrite sumf_S in Hs.
  assert (H1 : 0 <= sumf n f) by (apply sumf_nonneg; intros; apply Hf; lia).
  assert (H2 : 0 <= f n) by (apply Hf; lia).
  destruct (Nat.eq_dec i n) as [->|Hne]; [lra|].
  apply IHn; [intros; apply Hf; lia|lra|lia].
Qed.

Lemma sumlist_app (l1 l2 : list R) : sumlist (l1 ++ l2) = sumlist l1 + sumlist l2.
Proof. induction l1; simpl; numR; [lra|]. rewrite IHl1. lra. Qed.

Lemma sumlist_map_filter_seq n (p : nat -> bool) (h : nat -> R) :
  sumlist (map h (filter p (seq 0 n))) = sumf n (fun i => if p i then h i else 0).
Proof.
  induction n; [reflexivity|].
  rewrite seq_S, filter_app, map_app, sumlist_app, IHn, sumf_S. simpl.
  destruct (p n); simpl; numR; lra.
Qed.

(* ---------- dictionaries as association lists ---------- *)
Lemma lookup_map (f : nat -> R) l k :
  lookup (map (fun i => (i, f i)) l) k = if existsb (Nat.eqb k) l then f k else 0.
Proof.
  unfold lookup. induction l as [|x l IH]; [reflexivity|]. simpl.
  rewrite (Nat.eqb_sym k x). destruct (Nat.eqb x k) eqn:E; simpl.
  - apply Nat.eqb_eq in E. now subst.
  - exact IH.
Qed.
Lemma lookup_filter_seq (f : nat -> R) p n k :
  (k < n)%nat ->
  lookup (map (fun i => (i, f i)) (filter p (seq 0 n))) k = if p k then f k else 0.
Proof.
  intros Hk. rewrite lookup_map. destruct (p k) eqn:E.
  - replace (existsb _ _) with true; [reflexivity|]. symmetry. apply existsb_exists.
    exists k. split; [|apply Nat.eqb_refl]. apply filter_In. split; [apply in_seq; lia|auto].
  - replace (existsb _ _) with false; [reflexivity|]. symmetry.
    destruct (existsb _ _) eqn:E2; [|reflexivity]. apply existsb_exists in E2 as (x & Hx & Hkx).
    apply Nat.eqb_eq in Hkx. subst x. apply filter_In in Hx as [_ Hx]. congruence.
Qed.
Lemma in_dict_filter_seq (f : nat -> R) p n k v :
  In (k, v) (map (fun i => (i, f i)) (filter p (seq 0 n))) -> (k < n)%nat /\ p k = true /\ v = f k.
Proof.
  intros H. apply in_map_iff in H as (x & Hx & Hin). inversion Hx; subst.
  apply filter_In in Hin as [Hin Hp]. apply in_seq in Hin. repeat split; auto; lia.
Qed.

Lemma eqlistb_eq (l1 l2 : list R) : eqlistb l1 l2 = true -> l1 = l2.
Proof.
  revert l2. induction l1 as [|x l1 IH]; destruct l2 as [|y l2]; simpl; try discriminate; auto.
  rewrite andb_true_iff. intros [H1 H2]. apply neqb_R in H1. f_equal; auto.
Qed.
Lemma eqlistb_refl (l : list R) : eqlistb l l = true.
Proof. induction l; simpl; auto. rewrite IHl, andb_true_r. now apply neqb_R. Qed.

(* ---------- weighted sums over a dictionary keyed by belief tuples ---------- *)
Definition wsumL (F : list R -> R) (acc : list (list R * R)) : R :=
  sumlist (map (fun e => snd e * F (fst e)) acc).

Lemma merge_add_wsum F (nb : list R) (p : R) (acc : list (list R * R)) : wsumL F (merge_add nb p acc) = wsumL F acc + p * F nb.
Proof.
  unfold wsumL. induction acc as [|e rest IH]; simpl; numR; [lra|].
  destruct (eqlistb nb (fst e)) eqn:E; simpl; numR.
  - apply eqlistb_eq in E. rewrite E. lra.
  - rewrite IH. lra.
Qed.

Definition entry_inv (Q : list R -> Prop) (e : list R * R) : Prop := Q (fst e) /\ 0 < snd e.

Lemma merge_add_inv Q (nb : list R) (p : R) (acc : list (list R * R)) :
  Forall (entry_inv Q) acc -> Q nb -> 0 < p -> Forall (entry_inv Q) (merge_add nb p acc).
Proof.
  intros HF Hq Hp. induction acc as [|e rest IH]; simpl.
  - constructor; [split; auto|constructor].
  - inversion HF as [|? ? He Hr]; subst. destruct (eqlistb nb (fst e)).
    + constructor; auto. destruct He as [H1 H2]. split; simpl; auto. numR. lra.
    + constructor; auto.
Qed.

Lemma merge_add_keys (nb : list R) (p : R) (acc : list (list R * R)) x :
  In x (map fst (merge_add nb p acc)) -> x = nb \/ In x (map fst acc).
Proof.
  induction acc as [|e rest IH]; simpl.
  - intros [H|[]]; auto.
  - destruct (eqlistb nb (fst e)); simpl; [tauto|]. intros [H|H]; [tauto|]. apply IH in H. tauto.
Qed.
Lemma merge_add_nodup (nb : list R) (p : R) (acc : list (list R * R)) : NoDup (map fst acc) -> NoDup (map fst (merge_add nb p acc)).
Proof.
  induction acc as [|e rest IH]; simpl; intros H.
  - constructor; [intros []|constructor].
  - inversion H as [|? ? Hn Hr]; subst. destruct (eqlistb nb (fst e)) eqn:E; simpl.
    + constructor; auto.
    + constructor; auto. intros Hin. apply merge_add_keys in Hin as [Hin|Hin]; [|contradiction].
      rewrite Hin, eqlistb_refl in E. discriminate.
Qed.

(* ================================================================== *)
Record wfp (m : pomdp R) : Prop := {
  T_nonneg : forall s a ns, (s < nS (base m))%nat -> (a < nA (base m))%nat -> (ns < nS (base m))%nat ->
             0 <= P (base m) s a ns;
  T_sum : forall s a, (s < nS (base m))%nat -> (a < nA (base m))%nat ->
          sumf (nS (base m)) (P (base m) s a) = 1;
  Ob_nonneg : forall a ns o, (a < nA (base m))%nat -> (ns < nS (base m))%nat -> (o < nO m)%nat ->
              0 <= Ob m a ns o;
  Ob_sum : forall a ns, (a < nA (base m))%nat -> (ns < nS (base m))%nat ->
           sumf (nO m) (Ob m a ns) = 1
}.
Definition belief (n : nat) (b : nat -> R) : Prop :=
  (forall s, (s < n)%nat -> 0 <= b s) /\ sumf n b = 1.

Lemma wfpb_wfp m : wfpb m = true -> wfp m.
Proof.
  unfold wfpb. rewrite andb_true_iff, !forallbn_spec. intros [HT HO].
  constructor.
  - intros s a ns Hs Ha Hns. specialize (HT s Hs). rewrite forallbn_spec in HT.
    specialize (HT a Ha). apply andb_true_iff in HT as [HT _]. rewrite forallbn_spec in HT.
    apply nleb_R. auto.
  - intros s a Hs Ha. specialize (HT s Hs). rewrite forallbn_spec in HT.
    specialize (HT a Ha). apply andb_true_iff in HT as [_ HT]. now apply neqb_R in HT.
  - intros a ns o Ha Hns Ho. specialize (HO a Ha). rewrite forallbn_spec in HO.
    specialize (HO ns Hns). apply andb_true_iff in HO as [HO _]. rewrite forallbn_spec in HO.
    apply nleb_R. auto.
  - intros a ns Ha Hns. specialize (HO a Ha). rewrite forallbn_spec in HO.
    specialize (HO ns Hns). apply andb_true_iff in HO as [_ HO]. now apply neqb_R in HO.
Qed.
Lemma beliefb_belief m b : beliefb m b = true -> belief (nS (base m)) b.
Proof.
  unfold beliefb. rewrite andb_true_iff, forallbn_spec. intros [H1 H2]. split.
  - intros s Hs. apply nleb_R. auto.
  - now apply neqb_R in H2.
Qed.

Section Theory.
Variable m : pomdp R.
Hypothesis Hwf : wfp m.
Notation nSm := (nS (base m)).
Notation nAm := (nA (base m)).
Notation Tr := (P (base m)).

Variable b : nat -> R.
Hypothesis Hb : belief nSm b.
Variable a : nat.
Hypothesis Ha : (a < nAm)%nat.

(* the specification: joint, marginals, Bayes posterior *)
Definition joint (o s ns : nat) : R := b s * Tr s a ns * Ob m a ns o.   (* Pr(s, ns, o | b, a) *)
Definition Wj (o ns : nat) : R := sumf nSm (fun s => joint o s ns).       (* Pr(ns, o | b, a) *)
Definition Zm (o : nat) : R := sumf nSm (fun s => sumf nSm (fun ns => joint o s ns)).  (* Pr(o | b, a) *)
Definition predict (ns : nat) : R := sumf nSm (fun s => b s * Tr s a ns).  (* Pr(ns | b, a) *)
Definition bayes (o ns : nat) : R := Wj o ns / Zm o.                      (* Pr(ns | b, a, o) *)

Lemma Wj_predict o ns : Wj o ns = predict ns * Ob m a ns o.
Proof. unfold Wj, predict, joint. now rewrite sumf_scal_r. Qed.
Lemma Zm_sumW o : Zm o = sumf nSm (Wj o).
Proof. unfold Zm, Wj. apply sumf_swap. Qed.
Lemma predict_nonneg ns : (ns < nSm)%nat -> 0 <= predict ns.
Proof.
  intros Hns. apply sumf_nonneg. intros s Hs. apply Rmult_le_pos; [apply Hb; auto|].
  apply (T_nonneg m Hwf); auto.
Qed.
Lemma predict_sum : sumf nSm predict = 1.
Proof.
  unfold predict. rewrite sumf_swap.
  rewrite (sumf_ext _ _ b); [apply Hb|]. intros s Hs.
  rewrite sumf_scal, (T_sum m Hwf); auto. lra.
Qed.

(* ---- one observation (any index whose likelihoods are non-negative: o < nO, or an
        observation the POMDP never emits, whose likelihoods are all 0) ---- *)
Section Obs.
Variable o : nat.
Hypothesis Hob : forall ns, (ns < nSm)%nat -> 0 <= Ob m a ns o.

Lemma Wj_nonneg ns : (ns < nSm)%nat -> 0 <= Wj o ns.
Proof. intros Hns. rewrite Wj_predict. apply Rmult_le_pos; [apply predict_nonneg|apply Hob]; auto. Qed.
Lemma Zm_nonneg : 0 <= Zm o.
Proof. rewrite Zm_sumW. apply sumf_nonneg. apply Wj_nonneg. Qed.
Lemma Zm_zero_W ns : Zm o = 0 -> (ns < nSm)%nat -> Wj o ns = 0.
Proof. intros Hz Hns. rewrite Zm_sumW in Hz. apply (sumf_nonneg_zero nSm (Wj o) Wj_nonneg Hz ns Hns). Qed.

Lemma w_vec_W ns : w_vec m b a o ns = Wj o ns.
Proof. rewrite Wj_predict. reflexivity. Qed.
Lemma w_dict_W ns : w_dict m b a o ns = Wj o ns.
Proof.
  unfold w_dict, Wj, joint. apply sumf_ext. intros s Hs. numR.
  destruct (nzero (b s)) eqn:E; [|ring]. apply nzero_R in E. rewrite E. ring.
Qed.
Lemma tot_vec_Z : sumf nSm (w_vec m b a o) = Zm o.
Proof. rewrite Zm_sumW. apply sumf_ext. intros; apply w_vec_W. Qed.
Lemma tot_dict_Z : tot_dict m b a o = Zm o.
Proof. unfold tot_dict. rewrite Zm_sumW. apply sumf_ext. intros; apply w_dict_W. Qed.
Lemma z_dict_Z : z_dict m b a o = Zm o.
Proof. reflexivity. Qed.
Lemma z_vec_Z : z_vec m b a o = Zm o.
Proof. rewrite Zm_sumW. unfold z_vec. apply sumf_ext. intros ns Hns. now rewrite Wj_predict. Qed.

Lemma bayes_nonneg ns : 0 < Zm o -> (ns < nSm)%nat -> 0 <= bayes o ns.
Proof.
  intros Hz Hns. unfold bayes. apply Rmult_le_pos; [apply Wj_nonneg; auto|].
  left. now apply Rinv_0_lt_compat.
Qed.
Lemma bayes_sum : 0 < Zm o -> sumf nSm (bayes o) = 1.
Proof.
  intros Hz. unfold bayes, Rdiv. rewrite sumf_scal_r, <- Zm_sumW. field. lra.
Qed.

(* vectorised filter *)
Lemma estimator_vec_length : length (estimator_vec m b a o) = nSm.
Proof. unfold estimator_vec. destruct (nzero _); apply tab_length. Qed.
Lemma estimator_vec_pos ns :
  0 < Zm o -> (ns < nSm)%nat -> untab (estimator_vec m b a o) ns = bayes o ns.
Proof.
  intros Hz Hns. unfold estimator_vec. cbv zeta. rewrite tot_vec_Z.
  replace (nzero (Zm o)) with false by (symmetry; apply nzero_R_false; lra).
  rewrite untab_tab by auto. rewrite w_vec_W. numR. rewrite Rdivg_nz by lra. reflexivity.
Qed.
Lemma estimator_vec_zero ns :
  Zm o = 0 -> (ns < nSm)%nat -> untab (estimator_vec m b a o) ns = 0.
Proof.
  intros Hz Hns. unfold estimator_vec. cbv zeta. rewrite tot_vec_Z.
  replace (nzero (Zm o)) with true by (symmetry; now apply nzero_R).
  rewrite untab_tab by auto. rewrite w_vec_W. now apply Zm_zero_W.
Qed.

(* dictionary filter *)
Lemma estimator_dict_zero : Zm o = 0 -> estimator_dict m b a o = [].
Proof.
  intros Hz. unfold estimator_dict. cbv zeta. rewrite tot_dict_Z.
  now replace (nzero (Zm o)) with true by (symmetry; now apply nzero_R).
Qed.
Lemma estimator_dict_pos ns :
  0 < Zm o -> (ns < nSm)%nat -> lookup (estimator_dict m b a o) ns = bayes o ns.
Proof.
  intros Hz Hns. unfold estimator_dict. cbv zeta. rewrite tot_dict_Z.
  replace (nzero (Zm o)) with false by (symmetry; apply nzero_R_false; lra).
  rewrite (lookup_filter_seq (fun ns => w_dict m b a o ns / Zm o)%num) by auto.
  rewrite w_dict_W. numR. rewrite Rdivg_nz by lra. unfold bayes.
  destruct (npos (Wj o ns)) eqn:E; [reflexivity|].
  apply npos_R_false in E. pose proof (Wj_nonneg ns Hns). replace (Wj o ns) with 0 by lra.
  unfold Rdiv. ring.
Qed.
Lemma estimator_dict_entries ns p :
  In (ns, p) (estimator_dict m b a o) -> (ns < nSm)%nat /\ 0 < p /\ 0 < Zm o /\ p = bayes o ns.
Proof.
  unfold estimator_dict. cbv zeta. rewrite tot_dict_Z. destruct (nzero (Zm o)) eqn:E; [intros []|].
  apply nzero_R_false in E. pose proof Zm_nonneg as Hz. assert (Hz' : 0 < Zm o) by lra.
  intros H. apply (in_dict_filter_seq (fun ns => w_dict m b a o ns / Zm o)%num) in H as (Hns & Hp & ->).
  rewrite w_dict_W in *. apply npos_R in Hp. numR. rewrite Rdivg_nz by lra.
  repeat split; auto. apply Rmult_lt_0_compat; [auto|now apply Rinv_0_lt_compat].
Qed.

(* the dense posterior used by the belief MDP and by next_agentstate *)
Lemma posterior_length : length (posterior m b a o) = nSm.
Proof. apply tab_length. Qed.
Lemma posterior_pos ns :
  0 < Zm o -> (ns < nSm)%nat -> untab (posterior m b a o) ns = bayes o ns.
Proof.
  intros Hz Hns. unfold posterior, dense. rewrite untab_tab by auto. now apply estimator_dict_pos.
Qed.
Lemma posterior_zero ns : Zm o = 0 -> (ns < nSm)%nat -> untab (posterior m b a o) ns = 0.
Proof.
  intros Hz Hns. unfold posterior, dense. rewrite untab_tab by auto.
  now rewrite estimator_dict_zero.
Qed.

(* ---- estimator_bayes ---- *)
Theorem estimator_bayes_obs :
  0 <= Zm o /\
  (0 < Zm o ->
     (forall ns, (ns < nSm)%nat ->
        untab (estimator_vec m b a o) ns = bayes o ns /\
        lookup (estimator_dict m b a o) ns = bayes o ns /\
        untab (next_agentstate m b a o) ns = bayes o ns /\
        0 <= bayes o ns) /\
     sumf nSm (bayes o) = 1 /\
     (forall ns p, In (ns, p) (estimator_dict m b a o) -> (ns < nSm)%nat /\ 0 < p)) /\
  (Zm o = 0 ->
     estimator_dict m b a o = [] /\
     (forall ns, (ns < nSm)%nat ->
        untab (estimator_vec m b a o) ns = 0 /\ untab (next_agentstate m b a o) ns = 0)).
Proof.
  split; [apply Zm_nonneg|]. split.
  - intros Hz. split; [|split].
    + intros ns Hns. repeat split.
      * now apply estimator_vec_pos.
      * now apply estimator_dict_pos.
      * now apply posterior_pos.
      * now apply bayes_nonneg.
    + now apply bayes_sum.
    + intros ns p H. apply estimator_dict_entries in H. tauto.
  - intros Hz. split; [now apply estimator_dict_zero|]. intros ns Hns. split.
    + now apply estimator_vec_zero.
    + now apply posterior_zero.
Qed.

Theorem dict_vec_agree_obs ns :
  (ns < nSm)%nat -> lookup (estimator_dict m b a o) ns = untab (estimator_vec m b a o) ns.
Proof.
  intros Hns. pose proof Zm_nonneg as Hz. destruct (Req_dec (Zm o) 0) as [E|E].
  - rewrite estimator_dict_zero, estimator_vec_zero by auto. reflexivity.
  - rewrite estimator_dict_pos, estimator_vec_pos by (auto; lra). reflexivity.
Qed.

End Obs.

Lemma Ob_nonneg_lt o : (o < nO m)%nat -> forall ns, (ns < nSm)%nat -> 0 <= Ob m a ns o.
Proof. intros Ho ns Hns. apply (Ob_nonneg m Hwf); auto. Qed.

(* ---- predictive observation distribution ---- *)
Lemma Zm_sum : sumf (nO m) Zm = 1.
Proof.
  unfold Zm. rewrite sumf_swap.
  rewrite (sumf_ext _ _ b); [apply Hb|]. intros s Hs.
  rewrite sumf_swap.
  rewrite (sumf_ext _ _ (fun ns => b s * Tr s a ns)).
  - rewrite sumf_scal, (T_sum m Hwf); auto. lra.
  - intros ns Hns. unfold joint. rewrite sumf_scal, (Ob_sum m Hwf); auto. lra.
Qed.

Theorem pred_obs_marginal :
  (forall o, (o < nO m)%nat ->
     untab (pred_obs_vec m b a) o = Zm o /\ lookup (pred_obs_dict m b a) o = Zm o /\ 0 <= Zm o) /\
  sumf (nO m) Zm = 1 /\
  length (pred_obs_vec m b a) = nO m /\
  (forall o p, In (o, p) (pred_obs_dict m b a) -> (o < nO m)%nat /\ 0 < p /\ p = Zm o).
Proof.
  split; [|split; [apply Zm_sum|split; [apply tab_length|]]].
  - intros o Ho. pose proof (Zm_nonneg o (Ob_nonneg_lt o Ho)) as Hz. repeat split; auto.
    + unfold pred_obs_vec. rewrite untab_tab by auto. apply z_vec_Z.
    + unfold pred_obs_dict. rewrite (lookup_filter_seq (z_dict m b a)) by auto.
      rewrite z_dict_Z. destruct (npos (Zm o)) eqn:E; [reflexivity|]. apply npos_R_false in E. lra.
  - intros o p H. apply (in_dict_filter_seq (z_dict m b a)) in H as (Ho & Hp & ->).
    rewrite z_dict_Z in *. apply npos_R in Hp. auto.
Qed.

Theorem pred_dict_vec_agree o :
  (o < nO m)%nat -> lookup (pred_obs_dict m b a) o = untab (pred_obs_vec m b a) o.
Proof.
  intros Ho. destruct pred_obs_marginal as (H & _). destruct (H o Ho) as (-> & -> & _). reflexivity.
Qed.

(* ---- belief MDP: next_state_dist ---- *)
Lemma fold_bn_wsum F (l : list (nat * R)) acc :
  wsumL F (fold_left (bn_step m b a) l acc) =
  wsumL F acc +
  sumlist (map (fun e => if npos (snd e) then snd e * F (posterior m b a (fst e)) else 0) l).
Proof.
  revert acc. induction l as [|e l IH]; intros acc; simpl; numR; [lra|].
  rewrite IH. unfold bn_step. destruct (npos (snd e)).
  - rewrite merge_add_wsum. lra.
  - lra.
Qed.

Lemma belief_next_wsum F :
  wsumL F (belief_next m b a) =
  sumf (nO m) (fun o => if npos (Zm o) then Zm o * F (posterior m b a o) else 0).
Proof.
  unfold belief_next. rewrite fold_bn_wsum. unfold wsumL at 1. simpl. numR.
  unfold pred_obs_dict. rewrite map_map. simpl.
  rewrite (sumlist_map_filter_seq (nO m) (fun o => npos (z_dict m b a o))).
  rewrite Rplus_0_l. apply sumf_ext. intros o Ho. rewrite z_dict_Z.
  destruct (npos (Zm o)); reflexivity.
Qed.

Definition is_posterior (nb : list R) : Prop :=
  exists o, (o < nO m)%nat /\ 0 < Zm o /\ nb = posterior m b a o.

Lemma fold_bn_inv (l : list (nat * R)) acc :
  Forall (entry_inv is_posterior) acc ->
  (forall e, In e l -> npos (snd e) = true -> is_posterior (posterior m b a (fst e))) ->
  Forall (entry_inv is_posterior) (fold_left (bn_step m b a) l acc).
Proof.
  revert acc. induction l as [|e l IH]; intros acc Hacc Hl; simpl; auto.
  apply IH; [|intros; apply Hl; simpl; auto]. unfold bn_step.
  destruct (npos (snd e)) eqn:E; auto. apply merge_add_inv; auto.
  - apply Hl; simpl; auto.
  - now apply npos_R.
Qed.
Lemma fold_bn_nodup (l : list (nat * R)) acc :
  NoDup (map fst acc) -> NoDup (map fst (fold_left (bn_step m b a) l acc)).
Proof.
  revert acc. induction l as [|e l IH]; intros acc Hacc; simpl; auto.
  apply IH. unfold bn_step. destruct (npos (snd e)); auto. now apply merge_add_nodup.
Qed.

Lemma belief_next_entries : Forall (entry_inv is_posterior) (belief_next m b a).
Proof.
  apply fold_bn_inv; [constructor|]. intros [o p] Hin Hp. simpl in *.
  apply (in_dict_filter_seq (z_dict m b a)) in Hin as (Ho & Hz & ->).
  exists o. rewrite z_dict_Z in Hz. apply npos_R in Hz. auto.
Qed.

Theorem belief_next_normalised :
  sumlist (map snd (belief_next m b a)) = 1 /\
  NoDup (map fst (belief_next m b a)) /\
  (forall nb p, In (nb, p) (belief_next m b a) ->
     0 < p /\ length nb = nSm /\
     (forall ns, (ns < nSm)%nat -> 0 <= untab nb ns) /\
     sumf nSm (untab nb) = 1 /\
     exists o, (o < nO m)%nat /\ 0 < Zm o /\ forall ns, (ns < nSm)%nat -> untab nb ns = bayes o ns).
Proof.
  split; [|split].
  - pose proof (belief_next_wsum (fun _ => 1)) as H. unfold wsumL in H.
    rewrite (map_ext _ snd) in H by (intros; lra). rewrite H.
    transitivity (sumf (nO m) Zm); [|apply Zm_sum]. apply sumf_ext. intros o Ho.
    pose proof (Zm_nonneg o (Ob_nonneg_lt o Ho)).
    destruct (npos (Zm o)) eqn:E; [lra|]. apply npos_R_false in E. lra.
  - apply fold_bn_nodup. constructor.
  - intros nb p Hin. pose proof belief_next_entries as HF. rewrite Forall_forall in HF.
    destruct (HF _ Hin) as [(o & Ho & Hz & Hnb) Hp]. simpl in *. subst nb.
    pose proof (Ob_nonneg_lt o Ho) as Hob.
    split; [auto|split; [apply posterior_length|split; [|split]]].
    + intros ns Hns. rewrite posterior_pos by auto. now apply bayes_nonneg.
    + rewrite (sumf_ext _ _ (bayes o)); [now apply bayes_sum|]. intros; now apply posterior_pos.
    + exists o. repeat split; auto. intros; now apply posterior_pos.
Qed.

(* law of total probability through the merge of equal posteriors *)
Theorem belief_next_mean ns :
  (ns < nSm)%nat ->
  sumlist (map (fun e => snd e * untab (fst e) ns) (belief_next m b a)) = predict ns.
Proof.
  intros Hns. pose proof (belief_next_wsum (fun nb => untab nb ns)) as H. unfold wsumL in H.
  rewrite H. rewrite (sumf_ext _ _ (fun o => predict ns * Ob m a ns o)).
  - rewrite sumf_scal, (Ob_sum m Hwf); auto. lra.
  - intros o Ho. pose proof (Ob_nonneg_lt o Ho) as Hob. rewrite <- Wj_predict.
    pose proof (Zm_nonneg o Hob). destruct (npos (Zm o)) eqn:E.
    + apply npos_R in E. rewrite posterior_pos by auto. unfold bayes. field. lra.
    + apply npos_R_false in E. symmetry. apply Zm_zero_W; auto. lra.
Qed.

(* ---- belief MDP: reward ---- *)
Theorem belief_reward_expect :
  belief_reward m b a =
  sumf nSm (fun s => sumf nSm (fun ns => b s * Tr s a ns * Rw (base m) s a ns)).
Proof.
  unfold belief_reward. apply sumf_ext. intros s Hs. numR.
  rewrite <- sumf_scal_r. apply sumf_ext. intros ns Hns. ring.
Qed.

(* ---- belief MDP: absorbing beliefs ---- *)
Lemma belief_absorbing_spec :
  belief_absorbing m b = true <->
  (forall s, (s < nSm)%nat -> 0 < b s -> absflag (base m) s = true).
Proof.
  unfold belief_absorbing. rewrite forallbn_spec. split; intros H s Hs.
  - intros Hp. specialize (H s Hs). apply npos_R in Hp. rewrite Hp in H. simpl in H.
    now destruct (absflag (base m) s).
  - destruct (npos (b s)) eqn:E; [|reflexivity]. apply npos_R in E. rewrite (H s Hs E). reflexivity.
Qed.

Theorem belief_absorbing_iff :
  belief_absorbing m b = true <->
  sumf nSm (fun s => if absflag (base m) s then b s else 0) = 1.
Proof.
  rewrite belief_absorbing_spec. destruct Hb as [Hb0 Hb1]. split; intros H.
  - rewrite <- Hb1. apply sumf_ext. intros s Hs. destruct (absflag (base m) s) eqn:E; [reflexivity|].
    specialize (Hb0 s Hs). destruct (Rle_lt_or_eq_dec _ _ Hb0) as [Hlt|Heq]; [|auto].
    rewrite (H s Hs Hlt) in E. discriminate.
  - intros s Hs Hp. destruct (absflag (base m) s) eqn:E; [reflexivity|]. exfalso.
    assert (Hz : sumf nSm (fun s => b s - (if absflag (base m) s then b s else 0)) = 0)
      by (rewrite sumf_minus; lra).
    apply (sumf_nonneg_zero nSm _) with (i := s) in Hz; auto.
    + rewrite E in Hz. lra.
    + intros i Hi. specialize (Hb0 i Hi). destruct (absflag (base m) i); lra.
Qed.

End Theory.
